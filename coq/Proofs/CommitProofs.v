(* Lemmas about the commit bookkeeping (Model/Commit.v) behind C06: crash-prefix,
   bounded loss, durability of bucket operations, atomicity of single operations, the
   autocommit store.  The clock plays no role here (it does in Proofs/CommitAge.v). *)
From AwVerif Require Import Base.Prelude Model.Commit.
From Coq Require Import ZifyBool.

(* ---- specification vocabulary ---- *)

Definition prefix {A} (p l : list A) : Prop := exists q, p ++ q = l.

(* the writes a timed trace issues, in issue order *)
Definition twrites (tr : list (micro * clk)) : list Z := writes_of (map fst tr).

(* no call in flight: every write of the open transaction has been counted (at least once:
   a bulk insert that failed part-way counts all its rows), and the counter is within the
   threshold *)
Definition quiet (s : cstate) : Prop :=
  Z.of_nat (length (pending s)) <= n_unc s /\ n_unc s <= THRESHOLD.

(* scripts the code had before its repairs (sensitivity examples only; not part of [expand]) *)
Definition pre_4039c3d_delete (w : Z) : list micro := [Exec w].
Definition pre_ec39c3d_insert_many_failed (ups done : list Z) : list micro :=
  flat_map script_replace ups ++ [ExecMany done].
(* insert_many before a00ceb1: every upsert went through replace() and was a counted block
   of its own; the new rows were counted separately *)
Definition pre_a00ceb1_insert_many (ups rows : list Z) : list micro :=
  flat_map script_replace ups ++ [ExecMany rows; CondCommit (Z.of_nat (length rows))].

Definition bucket_op (o : op) : Prop :=
  match o with CreateBucket _ | UpdateBucket _ | DeleteBucket _ _ => True | _ => False end.

Definition single_event_op (o : op) : Prop :=
  match o with InsertOne _ | ReplaceLast _ | Replace _ | Delete _ => True | _ => False end.

Definition atomic_op (o : op) : Prop := bucket_op o \/ single_event_op o.

(* scripts that keep the bookkeeping in step with the open transaction: every statement
   is counted by the conditional_commit that follows it, or followed by a commit *)
Definition is_write (m : micro) : Prop :=
  match m with Exec _ | ExecMany _ => True | _ => False end.

(* [q_block]: any number of write statements, then ONE conditional_commit that counts at
   least as many (insert_many since a00ceb1: all upserts and the bulk INSERT; a single-event
   write: one statement, count 1) *)
Inductive qscript : list micro -> Prop :=
  | q_nil : qscript []
  | q_read : forall ms, qscript ms -> qscript (Read :: ms)
  | q_commit : forall ms, qscript ms -> qscript (Commit :: ms)
  | q_block : forall pre k ms, Forall is_write pre -> Z.of_nat (length (writes_of pre)) <= k ->
      qscript ms -> qscript (pre ++ CondCommit k :: ms)
  | q_bucket1 : forall w ms, qscript ms -> qscript (Exec w :: Commit :: ms)
  | q_bucket2 : forall w1 w2 ms, qscript ms -> qscript (Exec w1 :: Exec w2 :: Commit :: ms).

Lemma q_exec : forall w ms, qscript ms -> qscript (Exec w :: CondCommit 1 :: ms).
Proof.
  intros w ms H. apply (q_block [Exec w] 1 ms); [repeat constructor|cbn; lia|exact H].
Qed.

Lemma q_many : forall ws k ms, Z.of_nat (length ws) <= k -> qscript ms ->
  qscript (ExecMany ws :: CondCommit k :: ms).
Proof.
  intros ws k ms Hk H. apply (q_block [ExecMany ws] k ms); [repeat constructor| |exact H].
  cbn. rewrite app_nil_r. exact Hk.
Qed.

(* ---- lists ---- *)

Lemma map_fst_cons : forall (tr : list (micro * clk)) m ms,
  map fst tr = m :: ms -> exists c tr', tr = (m, c) :: tr' /\ map fst tr' = ms.
Proof.
  intros [|[m' c] tr'] m ms H; [discriminate|]. cbn in H. inversion H; subst. eauto.
Qed.

Lemma map_fst_app : forall (tr : list (micro * clk)) a b,
  map fst tr = a ++ b -> exists ta tb, tr = ta ++ tb /\ map fst ta = a /\ map fst tb = b.
Proof.
  intros tr a. revert tr. induction a as [|m a IH]; intros tr b H.
  - exists [], tr. auto.
  - cbn in H. apply map_fst_cons in H. destruct H as (c & tr' & -> & H).
    apply IH in H. destruct H as (ta & tb & -> & Ha & Hb).
    exists ((m, c) :: ta), tb. cbn. rewrite Ha. auto.
Qed.

Lemma writes_of_app : forall a b, writes_of (a ++ b) = writes_of a ++ writes_of b.
Proof. intros. unfold writes_of. apply flat_map_app. Qed.

Lemma twrites_app : forall a b, twrites (a ++ b) = twrites a ++ twrites b.
Proof. intros. unfold twrites. rewrite map_app. apply writes_of_app. Qed.

Lemma run_app : forall lazy a b s, run lazy s (a ++ b) = run lazy (run lazy s a) b.
Proof. intros. unfold run. apply fold_left_app. Qed.

Lemma run_cons : forall lazy mc tr s, run lazy s (mc :: tr) = run lazy (micro_step lazy s mc) tr.
Proof. reflexivity. Qed.

(* a run of write statements only appends to the open transaction *)
Lemma add_pending_nil : forall s, add_pending s [] = s.
Proof. intros [c p n l]. unfold add_pending. cbn. rewrite app_nil_r. reflexivity. Qed.

Lemma add_pending_app : forall s a b, add_pending (add_pending s a) b = add_pending s (a ++ b).
Proof. intros. unfold add_pending. cbn. rewrite app_assoc. reflexivity. Qed.

Lemma run_writes : forall lazy tr s,
  Forall is_write (map fst tr) -> run lazy s tr = add_pending s (twrites tr).
Proof.
  intros lazy tr. induction tr as [|[m c] tr IH]; intros s H.
  - cbn. symmetry. apply add_pending_nil.
  - cbn [map fst] in H. inversion H as [|? ? Hm Hr]; subst.
    rewrite run_cons, IH by exact Hr. unfold micro_step. cbn [fst].
    destruct m; cbn in Hm; try contradiction; rewrite add_pending_app; reflexivity.
Qed.

(* a trace of [pre ++ CondCommit k :: ms] *)
Lemma map_fst_block : forall (tr : list (micro * clk)) pre k ms,
  map fst tr = pre ++ CondCommit k :: ms ->
  exists tpre c tr', tr = tpre ++ (CondCommit k, c) :: tr' /\ map fst tpre = pre /\ map fst tr' = ms.
Proof.
  intros tr pre k ms H. apply map_fst_app in H. destruct H as (ta & tb & -> & Ha & Hb).
  apply map_fst_cons in Hb. destruct Hb as (c & tr' & -> & Hb). eauto 6.
Qed.

(* ---- commit / conditional_commit ---- *)

Lemma do_commit_spec : forall t s,
  committed (do_commit t s) = committed s ++ pending s /\ pending (do_commit t s) = [] /\
  n_unc (do_commit t s) = 0 /\ last_commit (do_commit t s) = t.
Proof. intros. cbn. auto. Qed.

(* conditional_commit either only counts (lazy, both tests false) or leaves nothing pending *)
Lemma cond_commit_cases : forall lazy k c s,
  (lazy = true /\ cond_commit lazy k c s = set_n s (n_unc s + k) /\
   n_unc s + k <= THRESHOLD /\ r2 c - last_commit s <= MAX_AGE)
  \/
  (pending (cond_commit lazy k c s) = [] /\
   committed (cond_commit lazy k c s) = committed s ++ pending s /\
   n_unc (cond_commit lazy k c s) = 0 /\
   (last_commit (cond_commit lazy k c s) = r1 c \/ last_commit (cond_commit lazy k c s) = r3 c)).
Proof.
  intros lazy k c s. unfold cond_commit. destruct lazy.
  - cbn [n_unc set_n].
    destruct (n_unc s + k >? THRESHOLD) eqn:E1.
    + right. cbn [last_commit do_commit set_n set_last flush committed pending n_unc].
      destruct (r2 c - r1 c >? MAX_AGE) eqn:E2; cbn; rewrite ?app_nil_r; auto.
    + cbn [last_commit set_n].
      destruct (r2 c - last_commit s >? MAX_AGE) eqn:E2.
      * right. cbn. auto.
      * left. repeat split; try reflexivity; lia.
  - right. cbn. auto.
Qed.

Lemma cond_commit_lazy_fires : forall k c s,
  (n_unc s + k > THRESHOLD \/ r2 c - last_commit s > MAX_AGE) ->
  pending (cond_commit true k c s) = [].
Proof.
  intros k c s H. destruct (cond_commit_cases true k c s) as [(_ & _ & H1 & H2)|(H1 & _)]; [lia|exact H1].
Qed.

(* ---- everything issued is committed or pending, in issue order ---- *)

Lemma step_all : forall lazy s mc,
  committed (micro_step lazy s mc) ++ pending (micro_step lazy s mc)
  = committed s ++ pending s ++ writes_of_micro (fst mc).
Proof.
  intros lazy s [m c]. unfold micro_step. cbn [fst snd]. destruct m; cbn [writes_of_micro].
  - cbn. reflexivity.
  - cbn. reflexivity.
  - rewrite app_nil_r. reflexivity.
  - cbn. rewrite !app_nil_r. reflexivity.
  - rewrite app_nil_r.
    destruct (cond_commit_cases lazy k c s) as [(_ & -> & _)|(-> & -> & _)].
    + reflexivity.
    + apply app_nil_r.
Qed.

Lemma run_all : forall lazy tr s,
  committed (run lazy s tr) ++ pending (run lazy s tr) = committed s ++ pending s ++ twrites tr.
Proof.
  intros lazy tr. induction tr as [|mc tr IH]; intros s.
  - cbn. rewrite app_nil_r. reflexivity.
  - rewrite run_cons, IH. rewrite app_assoc, step_all.
    unfold twrites. cbn [map writes_of flat_map]. rewrite <- !app_assoc. reflexivity.
Qed.

(* the committed part only grows, and when it grows it swallows the whole open transaction *)
Lemma step_committed : forall lazy s mc,
  (committed (micro_step lazy s mc) = committed s /\
   exists x, pending (micro_step lazy s mc) = pending s ++ x)
  \/ (committed (micro_step lazy s mc) = committed s ++ pending s /\
      pending (micro_step lazy s mc) = []).
Proof.
  intros lazy s [m c]. unfold micro_step. cbn [fst snd]. destruct m.
  - left. cbn. eauto.
  - left. cbn. eauto.
  - left. split; [reflexivity|]. exists []. symmetry. apply app_nil_r.
  - right. cbn. auto.
  - destruct (cond_commit_cases lazy k c s) as [(_ & -> & _)|(H1 & H2 & _)].
    + left. cbn. split; [reflexivity|]. exists []. symmetry. apply app_nil_r.
    + right. auto.
Qed.

Lemma run_committed_ext : forall lazy tr s, exists x, committed (run lazy s tr) = committed s ++ x.
Proof.
  intros lazy tr. induction tr as [|mc tr IH]; intros s.
  - exists []. cbn. symmetry. apply app_nil_r.
  - rewrite run_cons. destruct (IH (micro_step lazy s mc)) as [x Hx].
    destruct (step_committed lazy s mc) as [(Hc & _)|(Hc & _)]; rewrite Hc in Hx.
    + eauto.
    + exists (pending s ++ x). rewrite Hx. apply app_assoc_reverse.
Qed.

Lemma run_committed_all_or_nothing : forall lazy tr s,
  committed (run lazy s tr) = committed s \/
  exists x, committed (run lazy s tr) = committed s ++ pending s ++ x.
Proof.
  intros lazy tr. induction tr as [|mc tr IH]; intros s.
  - left. reflexivity.
  - rewrite run_cons.
    destruct (step_committed lazy s mc) as [(Hc & y & Hp)|(Hc & Hp)].
    + destruct (IH (micro_step lazy s mc)) as [H|[x H]]; rewrite H, Hc.
      * left. reflexivity.
      * right. rewrite Hp. exists (y ++ x). rewrite <- !app_assoc. reflexivity.
    + right. destruct (run_committed_ext lazy tr (micro_step lazy s mc)) as [x Hx].
      rewrite Hx, Hc. exists x. apply app_assoc_reverse.
Qed.

(* steps that issue no commit leave the committed part alone *)
Definition no_commit (m : micro) : Prop :=
  match m with Commit | CondCommit _ => False | _ => True end.

Lemma run_no_commit : forall lazy tr s,
  Forall no_commit (map fst tr) -> committed (run lazy s tr) = committed s.
Proof.
  intros lazy tr. induction tr as [|[m c] tr IH]; intros s H; [reflexivity|].
  cbn [map fst] in H. inversion H as [|? ? Hm Hr]; subst.
  rewrite run_cons, IH by exact Hr.
  unfold micro_step. cbn [fst]. destruct m; cbn in Hm; try contradiction; reflexivity.
Qed.

(* ---- C06_prefix ---- *)

Lemma firstn_twrites_prefix : forall k tr, prefix (twrites (firstn k tr)) (twrites tr).
Proof.
  intros k tr. exists (twrites (skipn k tr)). rewrite <- twrites_app, firstn_skipn. reflexivity.
Qed.

Lemma prefix_trans : forall A (a b c : list A), prefix a b -> prefix b c -> prefix a c.
Proof.
  intros A a b c [q1 H1] [q2 H2]. exists (q1 ++ q2). rewrite app_assoc, H1. exact H2.
Qed.

Lemma crash_prefix : forall lazy c0 t0 h tr k,
  map fst tr = expand_all h ->
  exists p,
    prefix p (writes_of (expand_all h)) /\
    recover (run lazy (init c0 t0) (firstn k tr)) = c0 ++ p /\
    p ++ pending (run lazy (init c0 t0) (firstn k tr)) = twrites (firstn k tr).
Proof.
  intros lazy c0 t0 h tr k Htr.
  set (s := run lazy (init c0 t0) (firstn k tr)).
  destruct (run_committed_ext lazy (firstn k tr) (init c0 t0)) as [p Hp].
  fold s in Hp. cbn [init committed] in Hp.
  pose proof (run_all lazy (firstn k tr) (init c0 t0)) as Hall. fold s in Hall.
  cbn [init committed pending] in Hall. rewrite Hp in Hall. cbn [app] in Hall.
  rewrite <- app_assoc in Hall. apply app_inv_head in Hall.
  exists p. split; [|split].
  - apply prefix_trans with (twrites (firstn k tr)).
    + exists (pending s). exact Hall.
    + rewrite <- Htr. apply firstn_twrites_prefix.
  - exact Hp.
  - exact Hall.
Qed.

(* ---- bounded loss ---- *)

Lemma quiet_after_commit : forall t s, quiet (do_commit t s).
Proof. intros. unfold quiet, THRESHOLD. cbn. lia. Qed.

Lemma quiet_block : forall lazy s ws k c,
  quiet s -> Z.of_nat (length ws) <= k ->
  quiet (cond_commit lazy k c (add_pending s ws)).
Proof.
  intros lazy s ws k c [Hn Hle] Hk.
  destruct (cond_commit_cases lazy k c (add_pending s ws)) as [(_ & -> & H1 & _)|(Hp & _ & Hn' & _)].
  - unfold quiet. cbn in *. rewrite app_length. lia.
  - unfold quiet, THRESHOLD. rewrite Hp, Hn'. cbn. lia.
Qed.

Lemma qscript_quiet : forall ms, qscript ms ->
  forall lazy tr s, map fst tr = ms -> quiet s -> quiet (run lazy s tr).
Proof.
  induction 1 as [|ms Hq IH|ms Hq IH|pre k ms Hpre Hk Hq IH|w ms Hq IH|w1 w2 ms Hq IH];
    intros lazy tr s Htr Hs.
  - destruct tr; [exact Hs|discriminate].
  - apply map_fst_cons in Htr. destruct Htr as (c & tr' & -> & Htr).
    rewrite run_cons. apply IH; assumption.
  - apply map_fst_cons in Htr. destruct Htr as (c & tr' & -> & Htr).
    rewrite run_cons. apply IH; [assumption|]. apply quiet_after_commit.
  - apply map_fst_block in Htr. destruct Htr as (tpre & c & tr' & -> & Hmpre & Htr).
    rewrite run_app, run_cons. apply IH; [assumption|].
    rewrite run_writes by (rewrite Hmpre; exact Hpre).
    unfold micro_step. cbn [fst snd]. apply quiet_block; [assumption|].
    unfold twrites. rewrite Hmpre. exact Hk.
  - apply map_fst_cons in Htr. destruct Htr as (c1 & tr1 & -> & Htr).
    apply map_fst_cons in Htr. destruct Htr as (c2 & tr2 & -> & Htr).
    rewrite !run_cons. apply IH; [assumption|].
    unfold micro_step at 1. cbn [fst snd]. apply quiet_after_commit.
  - apply map_fst_cons in Htr. destruct Htr as (c1 & tr1 & -> & Htr).
    apply map_fst_cons in Htr. destruct Htr as (c2 & tr2 & -> & Htr).
    apply map_fst_cons in Htr. destruct Htr as (c3 & tr3 & -> & Htr).
    rewrite !run_cons. apply IH; [assumption|].
    unfold micro_step at 1. cbn [fst snd]. apply quiet_after_commit.
Qed.

Lemma qscript_app : forall a b, qscript a -> qscript b -> qscript (a ++ b).
Proof.
  intros a b Ha Hb. induction Ha; cbn [app]; try (constructor; assumption).
  - exact Hb.
  - rewrite <- app_assoc. cbn [app]. apply q_block; assumption.
Qed.

Lemma upserts_are_writes : forall ups, Forall is_write (flat_map script__replace ups).
Proof. induction ups as [|u ups IH]; cbn; constructor; [exact I|exact IH]. Qed.

Lemma writes_of_upserts : forall ups, writes_of (flat_map script__replace ups) = ups.
Proof. induction ups as [|u ups IH]; [reflexivity|]. cbn. f_equal. exact IH. Qed.

(* insert_many (also the path on which a statement raises): the upserts and the bulk
   statement are one block, counted by the conditional_commit of the finally clause *)
Lemma qscript_bulk : forall ups ws k, Z.of_nat (length ups + length ws) <= k ->
  qscript (flat_map script__replace ups ++ [ExecMany ws; CondCommit k]).
Proof.
  intros ups ws k Hk.
  change (flat_map script__replace ups ++ [ExecMany ws; CondCommit k])
    with (flat_map script__replace ups ++ [ExecMany ws] ++ CondCommit k :: []).
  rewrite app_assoc. apply q_block; [| |apply q_nil].
  - apply Forall_app. split; [apply upserts_are_writes|repeat constructor].
  - rewrite writes_of_app, writes_of_upserts. cbn. rewrite app_nil_r, app_length. exact Hk.
Qed.

Lemma qscript_expand : forall o, qscript (expand o).
Proof.
  destruct o; cbn [expand script_replace script__replace script_get_metadata app];
    repeat (first [apply q_nil | apply q_read | apply q_commit | apply q_exec
                  | apply q_bucket1 | apply q_bucket2]).
  - apply qscript_bulk. lia.
  - destruct limit0; repeat constructor.
  - apply qscript_bulk. rewrite app_length || idtac. lia.
Qed.

Lemma qscript_expand_all : forall h, qscript (expand_all h).
Proof.
  induction h as [|o h IH]; [apply q_nil|].
  unfold expand_all. cbn [flat_map]. apply qscript_app; [apply qscript_expand|exact IH].
Qed.

Lemma quiet_init : forall c0 t0, quiet (init c0 t0).
Proof. intros. unfold quiet, THRESHOLD. cbn. lia. Qed.

Lemma bounded_loss_quiescent : forall lazy c0 t0 h tr,
  map fst tr = expand_all h ->
  let s := run lazy (init c0 t0) tr in
  Z.of_nat (length (pending s)) <= n_unc s /\ n_unc s <= 50 /\ (length (pending s) <= 50)%nat /\
  recover s ++ pending s = c0 ++ writes_of (expand_all h).
Proof.
  intros lazy c0 t0 h tr Htr s.
  assert (Hq : quiet s).
  { apply qscript_quiet with (ms := expand_all h); auto using qscript_expand_all, quiet_init. }
  destruct Hq as [Hn Hle]. unfold THRESHOLD in Hle. repeat split; [exact Hn|exact Hle|lia|].
  unfold recover, s. rewrite run_all. cbn. unfold twrites. rewrite Htr. reflexivity.
Qed.

(* a crash at any micro-step of the call in flight: at most 50 of the writes of the
   completed calls are missing, so at most 50 + (writes of the call in flight) in all *)
Lemma bounded_loss_any_cut : forall lazy c0 t0 h o tr tro k,
  map fst tr = expand_all h -> map fst tro = expand o ->
  let s := run lazy (init c0 t0) (tr ++ firstn k tro) in
  (length c0 + length (writes_of (expand_all h)) <= length (recover s) + 50)%nat /\
  (length (pending s) <= 50 + length (writes_of (expand o)))%nat.
Proof.
  intros lazy c0 t0 h o tr tro k Htr Htro s.
  pose proof (bounded_loss_quiescent lazy c0 t0 h tr Htr) as (Hn & _ & Hle & Hall).
  cbv zeta in Hn, Hle, Hall.
  set (s1 := run lazy (init c0 t0) tr) in *.
  assert (Hs : s = run lazy s1 (firstn k tro)) by (unfold s, s1; apply run_app).
  destruct (run_committed_ext lazy (firstn k tro) s1) as [x Hx]. rewrite <- Hs in Hx.
  assert (H1 : (length c0 + length (writes_of (expand_all h)) <= length (recover s) + 50)%nat).
  { unfold recover in *. rewrite Hx, app_length.
    apply (f_equal (@length Z)) in Hall. rewrite !app_length in Hall. lia. }
  split; [exact H1|].
  pose proof (run_all lazy (tr ++ firstn k tro) (init c0 t0)) as Hall2. fold s in Hall2.
  cbn [init committed pending app] in Hall2.
  apply (f_equal (@length Z)) in Hall2. rewrite twrites_app, !app_length in Hall2.
  unfold twrites in Hall2 at 1. rewrite Htr in Hall2.
  destruct (firstn_twrites_prefix k tro) as [q Hq]. apply (f_equal (@length Z)) in Hq.
  rewrite app_length in Hq. unfold twrites in Hq at 2. rewrite Htro in Hq.
  unfold recover in H1. lia.
Qed.

(* sensitivity: the scripts the code had before two of its repairs break the invariant *)
Definition timed0 (ms : list micro) : list (micro * clk) := map (fun m => (m, mkClk 0 0 0)) ms.

Lemma pre_fix_delete_breaks_bound :
  let s := run true (init [] 0) (timed0 (flat_map pre_4039c3d_delete (map Z.of_nat (seq 0 100)))) in
  (length (pending s), n_unc s, length (recover s)) = (100%nat, 0, 0%nat).
Proof. vm_compute. reflexivity. Qed.

(* two bulk inserts of 31 rows that each raise on their 32nd row, with the script of
   insert_many before ec39c3d (no conditional_commit on the failing path): 62 writes
   pending, counter 0, nothing committed *)
Lemma pre_fix_failed_bulk_breaks_bound :
  let tr := timed0 (pre_ec39c3d_insert_many_failed [] (map Z.of_nat (seq 0 31)) ++
                    pre_ec39c3d_insert_many_failed [] (map Z.of_nat (seq 100 31))) in
  let s := run true (init [] 0) tr in
  (length (pending s) > 50)%nat /\ n_unc s = 0 /\ recover s = [].
Proof. vm_compute. repeat split. lia. Qed.

(* ---- bucket operations are durable when they return ---- *)

Lemma bucket_ops_durable : forall lazy s o tro,
  bucket_op o -> map fst tro = expand o ->
  pending (run lazy s tro) = [] /\
  recover (run lazy s tro) = committed s ++ pending s ++ writes_of (expand o).
Proof.
  intros lazy s o tro Hb Htro.
  assert (Hp : pending (run lazy s tro) = []).
  { destruct o; cbn in Hb; try contradiction; cbn [expand script_get_metadata app] in Htro;
      repeat (apply map_fst_cons in Htro; destruct Htro as (? & ? & -> & Htro));
      apply map_eq_nil in Htro; subst; reflexivity. }
  split; [exact Hp|].
  pose proof (run_all lazy tro s) as H. rewrite Hp, app_nil_r in H.
  unfold recover. rewrite H. unfold twrites. rewrite Htro. reflexivity.
Qed.

(* ---- a single-event or bucket-level operation is never split ---- *)

Lemma atomic_split : forall o, atomic_op o ->
  exists pre post, expand o = pre ++ post /\ Forall no_commit pre /\ writes_of post = [].
Proof.
  intros o [Hb|Hs]; destruct o; cbn in *; try contradiction.
  - exists [Exec w], [Commit; Read]. repeat split; repeat constructor.
  - exists [Exec w], [Commit; Read]. repeat split; repeat constructor.
  - exists [Exec w1; Exec w2], [Commit]. repeat split; repeat constructor.
  - exists [Exec w], [CondCommit 1]. repeat split; repeat constructor.
  - exists [Exec w], [CondCommit 1]. repeat split; repeat constructor.
  - exists [Exec w], [CondCommit 1]. repeat split; repeat constructor.
  - exists [Exec w], [CondCommit 1]. repeat split; repeat constructor.
Qed.

Lemma firstn_app_cases : forall A (a b : list A) k,
  (firstn k (a ++ b) = firstn k a) \/ (exists k', firstn k (a ++ b) = a ++ firstn k' b).
Proof.
  intros A a b k. rewrite firstn_app. destruct (Nat.le_gt_cases k (length a)) as [H|H].
  - left. replace (k - length a)%nat with 0%nat by lia. cbn. apply app_nil_r.
  - right. exists (k - length a)%nat. rewrite firstn_all2 by lia. reflexivity.
Qed.

Lemma run_firstn_committed_le : forall lazy s tr k,
  (length (committed (run lazy s (firstn k tr))) <= length (committed s ++ pending s ++ twrites tr))%nat.
Proof.
  intros lazy s tr k.
  pose proof (run_all lazy (firstn k tr) s) as H. apply (f_equal (@length Z)) in H.
  destruct (firstn_twrites_prefix k tr) as [q Hq]. apply (f_equal (@length Z)) in Hq.
  rewrite !app_length in *. lia.
Qed.

Lemma single_op_atomic : forall lazy c0 t0 tr1 tro tr2 o k,
  atomic_op o -> map fst tro = expand o ->
  let s := run lazy (init c0 t0) (firstn k (tr1 ++ tro ++ tr2)) in
  (length (recover s) <= length c0 + length (twrites tr1))%nat \/
  (length c0 + length (twrites tr1) + length (writes_of (expand o)) <= length (recover s))%nat.
Proof.
  intros lazy c0 t0 tr1 tro tr2 o k Ha Htro s. unfold recover.
  destruct (atomic_split o Ha) as (pre & post & Hex & Hpre & Hpost).
  rewrite Hex in Htro. apply map_fst_app in Htro. destruct Htro as (tpre & tpost & -> & Hmpre & Hmpost).
  assert (Hw : writes_of (expand o) = twrites tpre).
  { rewrite Hex, writes_of_app, Hpost, app_nil_r. unfold twrites. rewrite Hmpre. reflexivity. }
  rewrite Hw.
  destruct (firstn_app_cases _ tr1 ((tpre ++ tpost) ++ tr2) k) as [E|[k1 E]]; unfold s; rewrite E.
  - left. pose proof (run_firstn_committed_le lazy (init c0 t0) tr1 k) as H.
    cbn [init committed pending app] in H. rewrite app_length in H. exact H.
  - rewrite run_app. set (s1 := run lazy (init c0 t0) tr1).
    assert (H1 : committed s1 ++ pending s1 = c0 ++ twrites tr1).
    { unfold s1. rewrite run_all. reflexivity. }
    apply (f_equal (@length Z)) in H1. rewrite !app_length in H1.
    rewrite <- app_assoc.
    destruct (firstn_app_cases _ tpre (tpost ++ tr2) k1) as [E1|[k2 E1]]; rewrite E1.
    + left. rewrite run_no_commit.
      * lia.
      * rewrite <- (firstn_skipn k1 tpre) in Hmpre. rewrite map_app in Hmpre.
        rewrite <- Hmpre in Hpre. apply Forall_app in Hpre. tauto.
    + rewrite run_app. set (s2 := run lazy s1 tpre).
      assert (Hc2 : committed s2 = committed s1) by (apply run_no_commit; rewrite Hmpre; exact Hpre).
      assert (H2 : committed s2 ++ pending s2 = committed s1 ++ pending s1 ++ twrites tpre)
        by (unfold s2; apply run_all).
      apply (f_equal (@length Z)) in H2. rewrite !app_length in H2.
      destruct (run_committed_all_or_nothing lazy (firstn k2 (tpost ++ tr2)) s2) as [H|[x H]]; rewrite H.
      * left. rewrite Hc2. lia.
      * right. rewrite !app_length. lia.
Qed.

Lemma single_event_one_write : forall o, single_event_op o -> exists w, writes_of (expand o) = [w].
Proof. intros o H. destruct o; cbn in H; try contradiction; eexists; reflexivity. Qed.

(* ---- peewee: autocommit ---- *)

Lemma pw_run_all : forall ms db, pw_run db ms = db ++ writes_of ms.
Proof.
  induction ms as [|m ms IH]; intros db; cbn.
  - symmetry. apply app_nil_r.
  - unfold pw_run in IH. rewrite IH. unfold pw_step. rewrite <- app_assoc. reflexivity.
Qed.

Lemma chunks_aux_concat : forall n l cur room,
  concat (chunks_aux n cur room l) = rev cur ++ l.
Proof.
  intros n l. induction l as [|x t IH]; intros cur room; cbn.
  - destruct cur; cbn; rewrite ?app_nil_r; reflexivity.
  - destruct room; cbn; rewrite IH; cbn; rewrite <- ?app_assoc; reflexivity.
Qed.

Lemma chunks_concat : forall n l, concat (chunks n l) = l.
Proof. intros n [|x t]; [reflexivity|]. unfold chunks. rewrite chunks_aux_concat. reflexivity. Qed.

Lemma chunks_aux_sizes : forall n l cur room,
  cur <> [] -> (length cur + room = n)%nat ->
  Forall (fun c => (1 <= length c <= n)%nat) (chunks_aux n cur room l).
Proof.
  intros n l. induction l as [|x t IH]; intros cur room Hne Hlen; cbn.
  - destruct cur as [|y cur]; [contradiction|]. constructor; [|constructor].
    rewrite rev_length. cbn in *. lia.
  - assert (1 <= length cur)%nat by (destruct cur; [contradiction|cbn; lia]).
    destruct room.
    + constructor; [rewrite rev_length; lia|]. apply IH; [discriminate|cbn; lia].
    + apply IH; [discriminate|cbn; lia].
Qed.

Lemma chunks_sizes : forall n l, (1 <= n)%nat ->
  Forall (fun c => (1 <= length c <= n)%nat) (chunks n l).
Proof.
  intros n [|x t] Hn; [constructor|]. unfold chunks. apply chunks_aux_sizes; [discriminate|cbn; lia].
Qed.

Lemma writes_of_map_exec : forall ws, writes_of (map Exec ws) = ws.
Proof. induction ws as [|w ws IH]; [reflexivity|]. cbn. f_equal. exact IH. Qed.

Lemma writes_of_map_execmany : forall cs, writes_of (map ExecMany cs) = concat cs.
Proof. induction cs as [|c cs IH]; [reflexivity|]. cbn. f_equal. exact IH. Qed.

Lemma pw_insert_many_writes : forall ups rows,
  writes_of (pw_expand (InsertMany ups rows)) = ups ++ rows.
Proof.
  intros. cbn [pw_expand]. rewrite writes_of_app, writes_of_map_exec, writes_of_map_execmany, chunks_concat.
  reflexivity.
Qed.

Definition pw_stmt_ok (m : micro) : Prop :=
  match m with
  | Exec _ => True
  | ExecMany ws => (1 <= length ws <= PW_CHUNK)%nat
  | _ => False
  end.

Lemma pw_expand_stmts : forall o, Forall pw_stmt_ok (pw_expand o).
Proof.
  destruct o; cbn [pw_expand]; repeat constructor.
  apply Forall_app. split.
  - induction ups; constructor; [exact I|assumption].
  - assert (H : Forall (fun c => (1 <= length c <= PW_CHUNK)%nat) (chunks PW_CHUNK rows))
      by (apply chunks_sizes; unfold PW_CHUNK; lia).
    induction H; constructor; assumption.
Qed.

Lemma peewee_durable : forall db0 h k,
  let ms := flat_map pw_expand h in
  pw_run db0 (firstn k ms) = db0 ++ writes_of (firstn k ms) /\
  pw_run db0 ms = db0 ++ writes_of ms /\
  Forall pw_stmt_ok ms.
Proof.
  intros db0 h k ms. repeat split; try apply pw_run_all.
  unfold ms. induction h as [|o h IH]; [constructor|].
  cbn [flat_map]. apply Forall_app. split; [apply pw_expand_stmts|exact IH].
Qed.
