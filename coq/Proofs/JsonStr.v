(* Strings of the JSON model: scanstring reads back what py_encode_basestring_ascii wrote. *)
From AwVerif Require Import Base.Prelude Model.Json.
Open Scope Z_scope.

Ltac zb :=
  repeat match goal with
  | |- context [?a <=? ?b] => destruct (Z.leb_spec a b); try lia
  | |- context [?a <? ?b] => destruct (Z.ltb_spec a b); try lia
  | |- context [?a =? ?b] => destruct (Z.eqb_spec a b); try lia
  end; cbn [andb orb negb].

Lemma hexval_hexdigit d : 0 <= d < 16 -> hexval (hexdigit d) = Some d.
Proof.
  intros H. unfold hexval, hexdigit.
  destruct (Z.ltb_spec d 10); zb; f_equal; lia.
Qed.

Lemma hex4val_hex4 n : 0 <= n < 65536 ->
  hex4val (hexdigit (n / 4096 mod 16)) (hexdigit (n / 256 mod 16)) (hexdigit (n / 16 mod 16)) (hexdigit (n mod 16)) = Some n.
Proof.
  intros H. unfold hex4val.
  rewrite !hexval_hexdigit by (apply Z.mod_pos_bound; lia).
  f_equal. Z.div_mod_to_equations. lia.
Qed.

(* the four shapes of py_encode_basestring_ascii's output for one character *)
Inductive esc_shape (c : Z) : list Z -> Prop :=
  | EsShort x : backslash x = Some c -> x <> 117 -> esc_shape c [92; x]
  | EsPlain : 32 <= c <= 126 -> c <> 34 -> c <> 92 -> esc_shape c [c]
  | EsU : 0 <= c < 65536 -> (c < 32 \/ 127 <= c) -> esc_shape c (uescape c)
  | EsPair hi lo : is_high hi = true -> is_low lo = true -> join_surrogates hi lo = c -> 65536 <= c ->
      esc_shape c (uescape hi ++ uescape lo).

Lemma escape_char_shape c : 0 <= c <= 1114111 -> esc_shape c (escape_char c).
Proof.
  intros H. unfold escape_char.
  destruct (Z.eqb_spec c 34). { subst. now apply (EsShort 34 34). }
  destruct (Z.eqb_spec c 92). { subst. now apply (EsShort 92 92). }
  destruct (Z.eqb_spec c 10). { subst. now apply (EsShort 10 110). }
  destruct (Z.eqb_spec c 13). { subst. now apply (EsShort 13 114). }
  destruct (Z.eqb_spec c 9). { subst. now apply (EsShort 9 116). }
  destruct (Z.eqb_spec c 8). { subst. now apply (EsShort 8 98). }
  destruct (Z.eqb_spec c 12). { subst. now apply (EsShort 12 102). }
  destruct (Z.leb_spec 32 c); [destruct (Z.leb_spec c 126)|]; cbn [andb].
  - apply EsPlain; lia.
  - destruct (Z.ltb_spec c 65536).
    + apply EsU; lia.
    + apply EsPair.
      * unfold is_high. assert (0 <= (c - 65536) / 1024 mod 1024 < 1024) by (apply Z.mod_pos_bound; lia). zb; try reflexivity.
      * unfold is_low. assert (0 <= (c - 65536) mod 1024 < 1024) by (apply Z.mod_pos_bound; lia). zb; try reflexivity.
      * unfold join_surrogates. Z.div_mod_to_equations. lia.
      * lia.
  - destruct (Z.ltb_spec c 65536); [|lia]. apply EsU; lia.
Qed.

(* one \uXXXX escape in front of r2 *)
Lemma scan_uescape_nothigh u r2 : 0 <= u < 65536 -> is_high u = false ->
  scanstring (uescape u ++ r2) = cons_res u (scanstring r2).
Proof.
  intros Hu Hh. unfold uescape, hex4. cbn [app scanstring].
  change (c_bs =? c_dq) with false. change (c_bs =? c_bs) with true. change (c_u =? c_u) with true.
  cbv iota. rewrite hex4val_hex4 by exact Hu. rewrite Hh. reflexivity.
Qed.

Definition no_low_escape (r2 : list Z) : Prop :=
  forall b u' g1 g2 g3 g4 r3, r2 = b :: u' :: g1 :: g2 :: g3 :: g4 :: r3 ->
    (b =? c_bs) && (u' =? c_u) = true ->
    exists u2, hex4val g1 g2 g3 g4 = Some u2 /\ is_low u2 = false.

Lemma scan_uescape_high_alone u r2 : 0 <= u < 65536 -> is_high u = true -> no_low_escape r2 ->
  scanstring (uescape u ++ r2) = cons_res u (scanstring r2).
Proof.
  intros Hu Hh Hn. unfold uescape, hex4. cbn [app scanstring].
  change (c_bs =? c_dq) with false. change (c_bs =? c_bs) with true. change (c_u =? c_u) with true.
  cbv iota. rewrite hex4val_hex4 by exact Hu. rewrite Hh.
  destruct r2 as [|b [|u' [|g1 [|g2 [|g3 [|g4 r3]]]]]]; try reflexivity.
  destruct ((b =? c_bs) && (u' =? c_u)) eqn:E; [|reflexivity].
  destruct (Hn _ _ _ _ _ _ _ eq_refl E) as (u2 & H1 & H2). rewrite H1, H2. reflexivity.
Qed.

Lemma scan_uescape_pair hi lo r3 : 0 <= hi < 65536 -> 0 <= lo < 65536 -> is_high hi = true -> is_low lo = true ->
  scanstring (uescape hi ++ uescape lo ++ r3) = cons_res (join_surrogates hi lo) (scanstring r3).
Proof.
  intros Hhi Hlo H1 H2. unfold uescape, hex4. cbn [app scanstring].
  change (c_bs =? c_dq) with false. change (c_bs =? c_bs) with true. change (c_u =? c_u) with true.
  cbv iota. rewrite hex4val_hex4 by exact Hhi. rewrite H1. cbn [andb].
  rewrite hex4val_hex4 by exact Hlo. rewrite H2. reflexivity.
Qed.

Lemma is_high_range u : is_high u = true -> 55296 <= u <= 56319.
Proof. unfold is_high. intros H. apply andb_prop in H. destruct H as [H1 H2]. apply Z.leb_le in H1, H2. lia. Qed.
Lemma is_low_range u : is_low u = true -> 56320 <= u <= 57343.
Proof. unfold is_low. intros H. apply andb_prop in H. destruct H as [H1 H2]. apply Z.leb_le in H1, H2. lia. Qed.
Lemma high_not_low u : is_high u = true -> is_low u = false.
Proof. intros H. apply is_high_range in H. unfold is_low. zb; reflexivity. Qed.

Lemma str_ok_cons c r : str_ok (c :: r) = true ->
  0 <= c <= 1114111 /\ match r with d :: _ => is_high c && is_low d = false | [] => True end /\ str_ok r = true.
Proof.
  cbn [str_ok]. intros H. apply andb_prop in H. destruct H as [H H3]. apply andb_prop in H. destruct H as [H H2].
  apply andb_prop in H. destruct H as [H0 H1]. apply Z.leb_le in H0, H1.
  repeat split; try lia; try assumption.
  destruct r; [exact I|]. now apply negb_true_iff in H2.
Qed.

Lemma escape_str_cons c s : escape_str (c :: s) = escape_char c ++ escape_str s.
Proof. reflexivity. Qed.

Lemma no_low_after s rest : str_ok s = true ->
  match s with d :: _ => is_low d = false | [] => True end ->
  no_low_escape (escape_str s ++ c_dq :: rest).
Proof.
  intros Hok Hd b u' g1 g2 g3 g4 r3 Heq Hbu.
  apply andb_prop in Hbu. destruct Hbu as [Hb Hu]. apply Z.eqb_eq in Hb, Hu. subst b u'.
  destruct s as [|d s'].
  - cbn in Heq. discriminate Heq.
  - rewrite escape_str_cons, <- app_assoc in Heq.
    apply str_ok_cons in Hok. destruct Hok as (Hr & _ & _).
    destruct (escape_char_shape d Hr) as [x Hx Hx117 | Hp1 Hp2 Hp3 | Hu1 Hu2 | hi lo Hhi Hlo Hj Hc].
    + cbn in Heq. injection Heq as E _. unfold c_u in E. congruence.
    + cbn in Heq. injection Heq as E _. unfold c_bs in E. congruence.
    + unfold uescape, hex4 in Heq. cbn [app] in Heq. injection Heq as E1 E2 E3 E4 _. subst g1 g2 g3 g4.
      exists d. split; [apply hex4val_hex4; lia|exact Hd].
    + unfold uescape, hex4 in Heq. cbn [app] in Heq. injection Heq as E1 E2 E3 E4 _. subst g1 g2 g3 g4.
      exists hi. split; [apply hex4val_hex4; apply is_high_range in Hhi; lia|now apply high_not_low].
Qed.

Theorem scanstring_escape s : str_ok s = true ->
  forall rest, scanstring (escape_str s ++ c_dq :: rest) = Ok (s, rest).
Proof.
  induction s as [|c s IH]; intros Hok rest.
  - reflexivity.
  - apply str_ok_cons in Hok. destruct Hok as (Hr & Hadj & Hs).
    specialize (IH Hs rest).
    rewrite escape_str_cons, <- app_assoc.
    destruct (escape_char_shape c Hr) as [x Hx Hx117 | Hp1 Hp2 Hp3 | Hu1 Hu2 | hi lo Hhi Hlo Hj Hc].
    + cbn [app scanstring]. change (92 =? c_dq) with false. change (92 =? c_bs) with true. cbv iota.
      replace (x =? c_u) with false by (symmetry; apply Z.eqb_neq; exact Hx117).
      rewrite Hx, IH. reflexivity.
    + cbn [app scanstring]. unfold c_dq, c_bs.
      replace (c =? 34) with false by (symmetry; apply Z.eqb_neq; lia).
      replace (c =? 92) with false by (symmetry; apply Z.eqb_neq; lia).
      replace (c <? 32) with false by (symmetry; apply Z.ltb_ge; lia).
      fold c_dq. rewrite IH. reflexivity.
    + destruct (is_high c) eqn:Hh.
      * rewrite scan_uescape_high_alone; [rewrite IH; reflexivity|lia|exact Hh|].
        apply no_low_after; [exact Hs|]. destruct s; [exact I|]. exact Hadj.
      * rewrite scan_uescape_nothigh; [rewrite IH; reflexivity|lia|exact Hh].
    + rewrite <- app_assoc. rewrite scan_uescape_pair; [rewrite IH, Hj; reflexivity| | |exact Hhi|exact Hlo].
      * apply is_high_range in Hhi. lia.
      * apply is_low_range in Hlo. lia.
Qed.

(* the text of a string is printable ASCII *)
Definition printable (c : Z) : Prop := 32 <= c <= 126.

Lemma hexdigit_printable d : 0 <= d < 16 -> printable (hexdigit d).
Proof. unfold hexdigit, printable. intros. destruct (Z.ltb_spec d 10); lia. Qed.

Lemma uescape_printable n : Forall printable (uescape n).
Proof.
  unfold uescape, hex4. repeat constructor; try (unfold printable, c_bs, c_u; lia);
  apply hexdigit_printable; apply Z.mod_pos_bound; lia.
Qed.

Lemma escape_char_printable c : Forall printable (escape_char c).
Proof.
  unfold escape_char.
  repeat match goal with
  | |- context [if ?a =? ?b then _ else _] => destruct (Z.eqb_spec a b); [repeat constructor; unfold printable, c_bs; lia|]
  end.
  destruct (Z.leb_spec 32 c); [destruct (Z.leb_spec c 126)|]; cbn [andb].
  - constructor; [unfold printable; lia|constructor].
  - destruct (c <? 65536); [apply uescape_printable|]. apply Forall_app. split; apply uescape_printable.
  - destruct (c <? 65536); [apply uescape_printable|]. apply Forall_app. split; apply uescape_printable.
Qed.

Lemma escape_str_printable s : Forall printable (escape_str s).
Proof.
  induction s as [|c s IH]; [constructor|]. rewrite escape_str_cons. apply Forall_app. split; [apply escape_char_printable|exact IH].
Qed.

Lemma quote_printable s : Forall printable (quote s).
Proof.
  unfold quote. constructor; [unfold printable, c_dq; lia|]. apply Forall_app. split; [apply escape_str_printable|].
  constructor; [unfold printable, c_dq; lia|constructor].
Qed.
