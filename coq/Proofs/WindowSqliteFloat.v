(* C03 -- the sqlite oracle hypothesis discharged: parameter functions that agree with the
   binary64 model of `t.timestamp() * 1000000` (Model/WindowFloat.v: sq_param_ceil /
   sq_param_floor) satisfy float_param_ok, by the floats agent's Flocq lemma
   Proofs/CodecWindow.sq_param_within_1us.  (Brings in the standard library's real-number
   axioms through Flocq; the generic theorems of Proofs/WindowSqlite.v stay axiom-free.) *)
From AwVerif Require Import Base.Prelude Model.StoreBase Model.SqliteStore Model.PyFloat Model.Window
  Model.WindowFloat Proofs.WindowSqlite Proofs.WindowAll Proofs.CodecWindow.

(* [p] returns what the float model computes, on the range the float lemma covers *)
Definition agrees_with (p : Z -> Z) (f : Z -> res Z) : Prop :=
  forall t, 0 <= t < 2 ^ 52 -> f t = Ok (p t).

Theorem float_param_ok_ceil : forall plo, agrees_with plo sq_param_ceil -> float_param_ok plo.
Proof.
  intros plo A t H. destruct (sq_param_within_1us t H) as [lo [hi [E1 [_ [B1 _]]]]].
  rewrite (A t H) in E1. injection E1 as ->. exact B1.
Qed.

Theorem float_param_ok_floor : forall phi, agrees_with phi sq_param_floor -> float_param_ok phi.
Proof.
  intros phi A t H. destruct (sq_param_within_1us t H) as [lo [hi [_ [E2 [_ B2]]]]].
  rewrite (A t H) in E2. injection E2 as ->. exact B2.
Qed.

(* such functions exist: read the model's value off (the fallback is never consulted on the range) *)
Definition plo_float (t : Z) : Z := match sq_param_ceil t with Ok v => v | _ => t end.
Definition phi_float (t : Z) : Z := match sq_param_floor t with Ok v => v | _ => t end.

Lemma plo_float_agrees : agrees_with plo_float sq_param_ceil.
Proof.
  intros t H. destruct (sq_param_within_1us t H) as [lo [hi [E1 _]]].
  unfold plo_float. now rewrite E1.
Qed.
Lemma phi_float_agrees : agrees_with phi_float sq_param_floor.
Proof.
  intros t H. destruct (sq_param_within_1us t H) as [lo [hi [_ [E2 _]]]].
  unfold phi_float. now rewrite E2.
Qed.

(* the property at its own tolerance, for the float parameters the code computes *)
Theorem sq_window_delta_float : forall plo phi c b m es ws we,
  agrees_with plo sq_param_ceil -> agrees_with phi sq_param_floor ->
  sq_view c b = Some (m, es) -> edge_dom ws -> edge_dom we ->
  (forall e, In e es -> ev_dom e -> meets DELTA ws we e = true ->
     exists U, sq_read plo phi c b (-1) ws we = Ok (OEvents U) /\ In e U) /\
  (forall limit L e, sq_read plo phi c b limit ws we = Ok (OEvents L) -> In e L ->
     In e es /\ meets (- DELTA) ws we e = true).
Proof.
  intros plo phi c b m es ws we A1 A2. apply sq_window_delta.
  - now apply float_param_ok_ceil.
  - now apply float_param_ok_floor.
Qed.
