(* C01 on the peewee back end (Model/PeeweeStore.v).  Event operations address the bucket
   through the Python-side cache `bucket_keys`; the representation invariant pw_Inv says the
   cache mirrors the table, so a bucket that is listed has its key in the cache.  Bulk
   insertion goes in chunks of 100 rows: the chunking neither loses nor duplicates an
   event (ReadBackBase.chunks_concat). *)
From Coq Require Import Permutation ZifyBool.
From AwVerif Require Import Base.Prelude Model.StoreBase Model.PeeweeStore Model.StoreSpec
  Proofs.StoreBaseFacts Proofs.StoreMemProofs Proofs.StoreMemRefine Proofs.StoreSpecFacts
  Proofs.StorePeeweeProofs Proofs.StoreC02 Proofs.ReadBackBase.

Definition prows_of (c : pwstate) (k : Z) : list perow :=
  filter (fun e => pe_bucket e =? k) (pw_events c).

(* a listed bucket: its table row, its cache entry, its rows *)
Lemma pw_view_Some : forall c b m es,
  pw_Inv c -> pw_view c b = Some (m, es) ->
  exists r, pbucket_row c b = Some r /\ pw_key c b = Some (pb_key r) /\
            m = pb_meta r /\ es = map prow_event (prows_of c (pb_key r)).
Proof.
  intros c b m es I V. rewrite pw_view_row in V. destruct (pbucket_row c b) as [r|] eqn:Hr; [|discriminate].
  inversion V; subst; clear V. exists r. split; [reflexivity|]. split; [|split; reflexivity].
  unfold pw_key. rewrite (pwi_cache c I), aget_cache. unfold pbucket_row in Hr. now rewrite Hr.
Qed.

(* ---------- reads, in any state ---------- *)
Lemma pw_clip_none : forall e, pw_clip None None e = e.
Proof. reflexivity. Qed.

Lemma pw_listing : forall c b m es,
  pw_Inv c -> pw_view c b = Some (m, es) ->
  exists l, pw_step c (GetEvents b (-1) None None) = (c, Ok (OEvents l)) /\ Permutation l es.
Proof.
  intros c b m es I V. destruct (pw_view_Some c b m es I V) as [r [Hr [K [-> ->]]]].
  cbn [pw_step]. change (-1 =? 0) with false. cbv iota. rewrite K.
  eexists. split; [reflexivity|]. unfold sql_limit. change (-1 <? 0) with true. cbv iota.
  rewrite (map_ext (fun r0 => pw_clip None None (prow_event r0)) prow_event) by reflexivity.
  apply Permutation_map. unfold pw_order_ts_desc. rewrite sort_by_perm. unfold select_where, prows_of.
  rewrite (filter_ext (fun r0 => (pe_bucket r0 =? pb_key r) && pw_in_range None None r0)
                      (fun r0 => pe_bucket r0 =? pb_key r)); [apply Permutation_refl|].
  intro x. cbn. apply andb_true_r.
Qed.

Lemma pw_lookup : forall c b m es x i,
  pw_Inv c -> pw_view c b = Some (m, es) -> In x es -> eid x = Some i ->
  pw_step c (GetEvent b i) = (c, Ok (OEvent (Some x))).
Proof.
  intros c b m es x i I V Ix Ex. destruct (pw_view_Some c b m es I V) as [r [Hr [K [-> ->]]]].
  apply in_map_iff in Ix as [r0 [E0 I0]]. subst x. cbn in Ex. inversion Ex; subst i.
  unfold prows_of in I0. apply filter_In in I0 as [I0 B0].
  cbn [pw_step]. rewrite K. unfold pw_select_event.
  rewrite (find_unique _ (pw_events c) r0); [reflexivity|assumption|lia|].
  intros y Iy Py. eapply NoDup_map_inj; [apply (pwi_eids c I)|assumption|assumption|lia].
Qed.

(* ---------- one INSERT into eventmodel ---------- *)
Lemma pw_insert_event_row : forall c k e b, pbucket_row (fst (pw_insert_event c k e)) b = pbucket_row c b.
Proof. reflexivity. Qed.

Lemma pw_view_insert_event : forall c b r e,
  pbucket_row c b = Some r ->
  pw_view (fst (pw_insert_event c (pb_key r) e)) b
  = Some (pb_meta r, map prow_event (prows_of c (pb_key r))
                     ++ [set_eid e (Some (snd (pw_insert_event c (pb_key r) e)))]).
Proof.
  intros c b r e Hr. rewrite pw_view_row, pw_insert_event_row, Hr. f_equal. f_equal.
  unfold pw_insert_event, prows_of. cbn [fst snd pw_events pw_with_events].
  rewrite filter_app, map_app. cbn [filter]. rewrite Z.eqb_refl. reflexivity.
Qed.

Lemma pw_insert_fresh : forall c b e m es,
  pw_Inv c -> pw_view c b = Some (m, es) -> eid e = None ->
  exists c' i, pw_step c (InsertOne b e) = (c', Ok (OEvent (Some (set_eid e (Some i))))) /\
               pw_view c' b = Some (m, es ++ [set_eid e (Some i)]) /\ pw_Inv c'.
Proof.
  intros c b e m es I V Ee. destruct (pw_view_Some c b m es I V) as [r [Hr [K [-> ->]]]].
  pose proof (pw_step_Inv c (InsertOne b e) I) as I'.
  cbn [pw_step] in *. rewrite Ee, K in *.
  pose proof (pw_view_insert_event c b r e Hr) as V'.
  destruct (pw_insert_event c (pb_key r) e) as [c' i]. cbn [fst snd] in *.
  exists c', i. split; [reflexivity|]. split; assumption.
Qed.

Theorem insert_fresh_id_peewee : forall c b e m es,
  pw_Inv c -> pw_view c b = Some (m, es) -> eid e = None ->
  exists c' e' i,
    pw_step c (InsertOne b e) = (c', Ok (OEvent (Some e'))) /\
    eid e' = Some i /\ (forall x, In x es -> eid x <> Some i) /\
    ts e' = ts e /\ dur e' = dur e /\ data e' = data e /\
    pw_view c' b = Some (m, es ++ [e']) /\ pw_Inv c'.
Proof.
  intros c b e m es I V Ee. destruct (pw_insert_fresh c b e m es I V Ee) as (c' & i & S & V' & I').
  exists c', (set_eid e (Some i)), i. split; [exact S|]. split; [reflexivity|]. split.
  - pose proof (pw_view_ids_unique c' b m _ I' V') as U.
    destruct (stamp_ids_fresh es [e] [i] eq_refl U) as [_ FR].
    apply not_live_no_event. apply FR. now left.
  - repeat (split; [reflexivity|]). split; assumption.
Qed.

Theorem listing_returns_peewee : forall c b e m es l0,
  pw_Inv c -> pw_view c b = Some (m, es) -> eid e = None ->
  snd (pw_step c (GetEvents b (-1) None None)) = Ok (OEvents l0) ->
  exists c' e' l,
    pw_step c (InsertOne b e) = (c', Ok (OEvent (Some e'))) /\ same_payload e e' /\
    pw_step c' (GetEvents b (-1) None None) = (c', Ok (OEvents l)) /\
    Permutation l (e' :: l0) /\
    (forall x, In x l -> eid x = eid e' -> x = e').
Proof.
  intros c b e m es l0 I V Ee L0.
  destruct (insert_fresh_id_peewee c b e m es I V Ee) as (c' & e' & i & S & Ei & F & Ht & Hd & Hx & V' & I').
  destruct (pw_listing c b m es I V) as [l0' [R0 P0]]. rewrite R0 in L0. cbn [snd] in L0. inversion L0; subst l0'.
  destruct (pw_listing c' b m _ I' V') as [l [R P]].
  exists c', e', l. split; [exact S|]. split; [repeat split; assumption|]. split; [exact R|]. split.
  - rewrite P. rewrite <- Permutation_cons_append. now apply perm_skip, Permutation_sym.
  - intros x Ix Ex. apply (ids_unique_same_id (es ++ [e'])); [eapply pw_view_ids_unique; eassumption| | |exact Ex].
    + eapply Permutation_in; [exact P|exact Ix].
    + apply in_app_iff. right. now left.
Qed.

Theorem lookup_returns_peewee : forall c b e m es,
  pw_Inv c -> pw_view c b = Some (m, es) -> eid e = None ->
  exists c' e' i,
    pw_step c (InsertOne b e) = (c', Ok (OEvent (Some e'))) /\ eid e' = Some i /\ same_payload e e' /\
    pw_step c' (GetEvent b i) = (c', Ok (OEvent (Some e'))).
Proof.
  intros c b e m es I V Ee.
  destruct (insert_fresh_id_peewee c b e m es I V Ee) as (c' & e' & i & S & Ei & F & Ht & Hd & Hx & V' & I').
  exists c', e', i. split; [exact S|]. split; [exact Ei|]. split; [repeat split; assumption|].
  apply (pw_lookup c' b m (es ++ [e'])); try assumption. apply in_app_iff. right. now left.
Qed.

(* ---------- ids ---------- *)
Theorem ids_unique_peewee : forall c b m es,
  pw_Inv c -> pw_view c b = Some (m, es) -> NoDup (map eid es) /\ forall x, In x es -> eid x <> None.
Proof.
  intros c b m es I V. pose proof (pw_view_ids_unique c b m es I V) as U.
  split; [now apply ids_unique_NoDup_eid|apply U].
Qed.

Theorem ids_unique_reachable_peewee : forall h b m es,
  pw_view (pw_run pw_init h) b = Some (m, es) ->
  NoDup (map eid es) /\ forall x, In x es -> eid x <> None.
Proof. intros h b m es. apply ids_unique_peewee, pw_run_Inv, pw_Inv_init. Qed.

(* ---------- bulk: upserts (none here), then chunks of 100 rows ---------- *)
Lemma pw_upserts_none : forall news c b,
  (forall e, In e news -> eid e = None) -> pw_upserts c b news = (c, Ok ONone).
Proof.
  induction news as [|e t IH]; intros c b N; [reflexivity|]. cbn.
  rewrite (N e (or_introl eq_refl)). apply IH. intros. apply N. now right.
Qed.

Lemma filter_pno_id_all : forall news, (forall e, In e news -> eid e = None) -> filter pno_id news = news.
Proof. intros news N. apply filter_all. intros e He. unfold pno_id. now rewrite (N e He). Qed.

(* the chunked loop inserts exactly the rows of the whole list, in order *)
Lemma pw_chunked_is_whole : forall n news c k,
  fold_left (fun c chunk => pw_insert_rows c k chunk) (chunks n news) c = pw_insert_rows c k news.
Proof.
  intros n news c k. unfold pw_insert_rows.
  rewrite (fold_left_concat (fun c e => fst (pw_insert_event c k e))). now rewrite chunks_concat.
Qed.

Lemma pw_insert_rows_new : forall news c b r,
  pbucket_row c b = Some r ->
  exists ids, length ids = length news /\
    pw_view (pw_insert_rows c (pb_key r) news) b
    = Some (pb_meta r, map prow_event (prows_of c (pb_key r)) ++ stamp news ids).
Proof.
  unfold pw_insert_rows. induction news as [|e t IH]; intros c b r Hr.
  - exists []. split; [reflexivity|]. cbn [fold_left stamp combine map]. rewrite app_nil_r.
    rewrite pw_view_row, Hr. reflexivity.
  - cbn [fold_left]. pose proof (pw_view_insert_event c b r e Hr) as V1.
    set (c1 := fst (pw_insert_event c (pb_key r) e)) in *.
    set (i := snd (pw_insert_event c (pb_key r) e)) in *.
    assert (Hr1 : pbucket_row c1 b = Some r) by exact Hr.
    destruct (IH c1 b r Hr1) as [ids [L V']]. exists (i :: ids). split; [cbn; lia|].
    assert (E1 : map prow_event (prows_of c1 (pb_key r))
                 = map prow_event (prows_of c (pb_key r)) ++ [set_eid e (Some i)]).
    { pose proof V1 as V2. rewrite pw_view_row, Hr1 in V2. injection V2 as E. exact E. }
    rewrite V', E1, stamp_cons, <- app_assoc. reflexivity.
Qed.

Theorem bulk_peewee : forall c b news m es,
  pw_Inv c -> pw_view c b = Some (m, es) -> (forall e, In e news -> eid e = None) ->
  exists c' ids,
    pw_step c (InsertMany b news) = (c', Ok ONone) /\
    length ids = length news /\ NoDup ids /\ (forall i x, In i ids -> In x es -> eid x <> Some i) /\
    pw_view c' b = Some (m, es ++ stamp news ids) /\ pw_Inv c'.
Proof.
  intros c b news m es I V N. destruct (pw_view_Some c b m es I V) as [r [Hr [K [-> ->]]]].
  pose proof (pw_step_Inv c (InsertMany b news) I) as I'.
  cbn [pw_step] in *. rewrite (pw_upserts_none news c b N), (filter_pno_id_all news N) in *.
  destruct news as [|e t].
  - exists c, []. cbn [fst] in I'. split; [reflexivity|]. split; [reflexivity|]. split; [constructor|].
    split; [intros i x []|]. split; [|exact I']. cbn. rewrite app_nil_r. rewrite pw_view_row, Hr. reflexivity.
  - rewrite K in *. rewrite pw_chunked_is_whole in *. cbn [fst] in I'.
    destruct (pw_insert_rows_new (e :: t) c b r Hr) as [ids [L V']].
    set (c' := pw_insert_rows c (pb_key r) (e :: t)) in *.
    destruct (stamp_ids_fresh _ (e :: t) ids L (pw_view_ids_unique c' b _ _ I' V')) as [ND FR].
    exists c', ids. split; [reflexivity|]. split; [exact L|]. split; [exact ND|].
    split; [intros i x Ii; apply not_live_no_event; now apply FR|]. split; assumption.
Qed.

Theorem bulk_read_back_peewee : forall c b news m es l0,
  pw_Inv c -> pw_view c b = Some (m, es) -> (forall e, In e news -> eid e = None) ->
  snd (pw_step c (GetEvents b (-1) None None)) = Ok (OEvents l0) ->
  exists c' ids l,
    pw_step c (InsertMany b news) = (c', Ok ONone) /\ length ids = length news /\
    pw_step c' (GetEvents b (-1) None None) = (c', Ok (OEvents l)) /\
    Permutation l (l0 ++ stamp news ids) /\
    (forall x i, In x (stamp news ids) -> eid x = Some i ->
       pw_step c' (GetEvent b i) = (c', Ok (OEvent (Some x)))).
Proof.
  intros c b news m es l0 I V N L0.
  destruct (bulk_peewee c b news m es I V N) as (c' & ids & S & L & ND & FR & V' & I').
  destruct (pw_listing c b m es I V) as [l0' [R0 P0]]. rewrite R0 in L0. cbn [snd] in L0. inversion L0; subst l0'.
  destruct (pw_listing c' b m _ I' V') as [l [R P]].
  exists c', ids, l. split; [exact S|]. split; [exact L|]. split; [exact R|]. split.
  - rewrite P. apply Permutation_app_tail. now apply Permutation_sym.
  - intros x i Ix Ex. apply (pw_lookup c' b m (es ++ stamp news ids)); try assumption.
    apply in_app_iff. now right.
Qed.
