(* C11 round trip, statement and program level: query()'s split on ';' cuts the printed program
   exactly between its statements (no ';' occurs inside a printed statement), the statement
   parser finds the assignment's '=' and rebuilds the variable and the expression's token tree,
   the final blank piece is skipped. *)
From AwVerif Require Import Base.Prelude Model.PyStr Model.Query Model.QueryRef
  Proofs.QueryScan Proofs.QueryTotal Proofs.QueryClasses Proofs.QueryRefStr Proofs.QueryRefScan
  Proofs.QueryRefToken Proofs.QueryRefParse Proofs.QueryRefLoops Proofs.QueryRefDict Proofs.QueryRefTerm.
From Coq Require Import ZifyBool Lia.
Open Scope Z_scope.

(* ---------------------------------------------------------------- a character that does not occur *)

Lemma notin_app (c : Z) x y : ~ In c x -> ~ In c y -> ~ In c (x ++ y).
Proof. intros Hx Hy H. apply in_app_or in H. tauto. Qed.

Lemma notin_one (c a : Z) : a <> c -> ~ In c [a].
Proof. intros H [E|[]]. congruence. Qed.

Lemma notin_forallb (f : Z -> bool) (c : Z) x : (forall a, f a = true -> a <> c) -> forallb f x = true -> ~ In c x.
Proof.
  intros Hf. induction x as [|a t IH]; intros H; [intros []|]. cbn [forallb] in H.
  apply andb_true_iff in H. destruct H as [Ha Ht]. intros [E|Hi]; [exact (Hf a Ha E)|exact (IH Ht Hi)].
Qed.

Lemma notin_space c x : is_space c = false -> all_space x = true -> ~ In c x.
Proof. intros Hc. apply notin_forallb. intros a Ha E. subst a. rewrite Hc in Ha. discriminate. Qed.

Lemma notin_name c n : name_char c = false -> forallb name_char n = true -> ~ In c n.
Proof. intros Hc. apply notin_forallb. intros a Ha E. subst a. rewrite Hc in Ha. discriminate. Qed.

Lemma notin_escape c q s : q <> c -> c_bs <> c -> ~ In c s -> ~ In c (escape q s).
Proof.
  intros Hq Hb. induction s as [|a t IH]; intro H; [intros []|]. cbn [escape].
  assert (Ha : a <> c) by (intro E; apply H; left; exact E).
  assert (Ht : ~ In c t) by (intro E; apply H; right; exact E).
  destruct (a =? q); cbn [In]; intuition.
Qed.

(* ---------------------------------------------------------------- find and split *)

Lemma find_char_skip c x rest : ~ In c x -> find_char c (x ++ c :: rest) = Some (length x).
Proof.
  induction x as [|a t IH]; intro H; cbn [app find_char length].
  - rewrite Z.eqb_refl. reflexivity.
  - replace (a =? c) with false by (symmetry; apply Z.eqb_neq; intro E; apply H; left; exact E).
    rewrite IH by (intro E; apply H; right; exact E). reflexivity.
Qed.

Lemma split_on_piece c x y : ~ In c x ->
  split_on c (x ++ c :: y) = (x, fst (split_on c y) :: snd (split_on c y)).
Proof.
  induction x as [|a t IH]; intro H; cbn [app split_on].
  - rewrite Z.eqb_refl. destruct (split_on c y); reflexivity.
  - rewrite IH by (intro E; apply H; right; exact E).
    replace (a =? c) with false by (symmetry; apply Z.eqb_neq; intro E; apply H; left; exact E).
    reflexivity.
Qed.

Lemma split_piece c x y : ~ In c x -> split c (x ++ c :: y) = x :: split c y.
Proof. intro H. unfold split. rewrite split_on_piece by assumption. destruct (split_on c y); reflexivity. Qed.

Lemma split_last c x : ~ In c x -> split c x = [x].
Proof.
  unfold split. induction x as [|a t IH]; intro H; [reflexivity|]. cbn [split_on].
  assert (Ht : ~ In c t) by (intro E; apply H; right; exact E). specialize (IH Ht).
  destruct (split_on c t) as [h r]. injection IH as -> ->.
  replace (a =? c) with false by (symmetry; apply Z.eqb_neq; intro E; apply H; left; exact E).
  reflexivity.
Qed.

(* ---------------------------------------------------------------- no ';' inside a printed term *)

Section NoSemi.
  Variable lay : layout.
  Hypothesis Hlay : wf_layout lay.
  Variable md : nat.

  Notation nosemi := (fun x : str => ~ In c_semi x).

  Lemma lay_nosemi p k : nosemi (lay p k).
  Proof. apply notin_space; [reflexivity|apply Hlay]. Qed.

  Lemma name_nosemi n : forallb name_char n = true -> nosemi n.
  Proof. apply notin_name. reflexivity. Qed.

  Lemma str_txt_nosemi q s : wf_str q s -> nosemi (str_txt q s).
  Proof.
    intros (Hq & _ & Hs). unfold str_txt.
    assert (Hqs : q <> c_semi) by (destruct Hq as [->| ->]; discriminate).
    change (q :: escape q s ++ [q]) with ([q] ++ escape q s ++ [q]).
    apply notin_app; [apply notin_one; assumption|].
    apply notin_app; [|apply notin_one; assumption].
    apply notin_escape; [assumption|discriminate|assumption].
  Qed.

  Lemma sep_core_nosemi {A} (pr : list nat -> A -> str) p (l : list A) :
    (forall pth a, In a l -> nosemi (pr pth a)) -> forall i, nosemi (sep_core lay pr p i l).
  Proof.
    induction l as [|a r IH]; intros H i; cbn [sep_core]; [intros []|].
    apply notin_app; [apply H; left; reflexivity|].
    destruct r as [|a2 r2]; [intros []|].
    apply notin_app; [apply lay_nosemi|]. apply notin_app; [apply notin_one; discriminate|].
    apply notin_app; [apply lay_nosemi|]. apply IH. intros pth x Hx. apply H. right. exact Hx.
  Qed.

  Lemma inner_nosemi {A} (pr : list nat -> A -> str) p (l : list A) :
    (forall pth a, In a l -> nosemi (pr pth a)) -> nosemi (inner lay pr p l).
  Proof.
    intro H. unfold inner. destruct l as [|a r]; [apply lay_nosemi|].
    apply notin_app; [apply lay_nosemi|]. apply notin_app; [|apply lay_nosemi].
    apply sep_core_nosemi. exact H.
  Qed.

  (* the only place where a ';' could be written is the content of a string literal, and wf forbids it there *)
  Lemma txt_nosemi t : wf md t -> forall p, nosemi (txt lay p t).
  Proof.
    induction t as [ds|q s|n|n args IH|l IH|d IH] using term_ind2; intros Hw p; cbn [txt].
    - destruct Hw as (_ & Hd & _). apply name_nosemi. revert Hd. apply forallb_impl. apply digit_name_char.
    - apply str_txt_nosemi. exact Hw.
    - apply wf_name_chars in Hw. destruct Hw as [_ Hn]. apply name_nosemi, Hn.
    - destruct Hw as [Hn Ha]. apply wf_name_chars in Hn. destruct Hn as [_ Hn]. apply wf_all_forall in Ha.
      apply notin_app; [apply name_nosemi, Hn|]. apply notin_app; [apply notin_one; discriminate|].
      apply notin_app; [|apply notin_one; discriminate].
      apply inner_nosemi. intros pth a Hin. rewrite Forall_forall in IH, Ha. apply IH; [assumption|apply Ha; assumption].
    - apply wf_all_forall in Hw.
      apply notin_app; [apply notin_one; discriminate|]. apply notin_app; [|apply notin_one; discriminate].
      apply inner_nosemi. intros pth a Hin. rewrite Forall_forall in IH, Hw. apply IH; [assumption|apply Hw; assumption].
    - destruct Hw as [_ Hw]. apply wf_entries_forall in Hw.
      apply notin_app; [apply notin_one; discriminate|]. apply notin_app; [|apply notin_one; discriminate].
      apply inner_nosemi. intros pth e Hin. rewrite Forall_forall in IH, Hw.
      destruct (Hw e Hin) as [Hk Hv].
      apply notin_app; [apply str_txt_nosemi; assumption|].
      apply notin_app; [apply lay_nosemi|]. apply notin_app; [apply notin_one; discriminate|].
      apply notin_app; [apply lay_nosemi|]. apply IH; assumption.
  Qed.

  Lemma stmt_txt_nosemi i s : wf_stmt md s -> nosemi (stmt_txt lay i s).
  Proof.
    intros [Hn He]. unfold stmt_txt. apply wf_name_chars in Hn. destruct Hn as [_ Hn].
    apply notin_app; [apply lay_nosemi|]. apply notin_app; [apply name_nosemi, Hn|].
    apply notin_app; [apply lay_nosemi|]. apply notin_app; [apply notin_one; discriminate|].
    apply notin_app; [apply lay_nosemi|]. apply notin_app; [apply txt_nosemi; assumption|apply lay_nosemi].
  Qed.

  (* ---- query.split(";") on a printed program: the printed statements, then the final blank ---- *)
  Fixpoint stmt_pieces (i : nat) (pg : prog) : list str :=
    match pg with
    | [] => []
    | s :: rest => stmt_txt lay i s :: stmt_pieces (S i) rest
    end.

  Lemma split_prog_from pg : wf_prog md pg -> forall i,
    split c_semi (prog_txt_from lay i pg) = stmt_pieces i pg ++ [lay [] 0%nat].
  Proof.
    induction pg as [|s rest IH]; intros Hw i; cbn [prog_txt_from stmt_pieces app].
    - apply split_last. apply lay_nosemi.
    - inversion Hw as [|? ? Hs Hr]; subst. cbn [app].
      rewrite split_piece by (apply stmt_txt_nosemi; assumption). rewrite (IH Hr). reflexivity.
  Qed.

  Lemma split_print pg : wf_prog md pg ->
    split c_semi (print lay pg) = stmt_pieces 0 pg ++ [lay [] 0%nat].
  Proof. intro H. apply split_prog_from. assumption. Qed.
End NoSemi.

(* ---------------------------------------------------------------- the statement parser *)

Lemma fuel_stmt (n l1 l2 T : str) : n <> [] ->
  (2 * length T + 1 <= 2 * length (n ++ l1 ++ [c_eq] ++ l2 ++ T))%nat.
Proof. intro H. rewrite !app_length. cbn [length]. destruct n; [congruence|]. cbn [length]. lia. Qed.

Section Stmt.
  Variable lay : layout.
  Hypothesis Hlay : wf_layout lay.
  Variable md : nat.
  Variable ns : namespace.

  (* name blank = blank expr: find("=") hits the assignment, both sides are exactly one token *)
  Lemma parse_stmt_line n l1 l2 t p : wf_name n -> all_space l1 = true -> all_space l2 = true -> wf md t ->
    parse_stmt md ns (n ++ l1 ++ [c_eq] ++ l2 ++ txt lay p t) = Ok (tok_of ns (TVar n), tok_of ns t).
  Proof.
    intros Hn Hl1 Hl2 Hw. destruct (wf_name_chars n Hn) as [Hne Hnc].
    pose proof (txt_nonempty lay md t p Hw) as HTn.
    pose proof (parse_tok_exact lay Hlay md ns t Hw p _ (fuel_stmt n l1 l2 (txt lay p t) Hne)) as Hpt.
    assert (Hpv : parse_tok md ns (2 * length (n ++ l1 ++ [c_eq] ++ l2 ++ txt lay p t)) TVariable n
                  = Ok (tok_of ns (TVar n))).
    { destruct n as [|c0 n0]; [congruence|]. cbn [app length]. rewrite Nat.mul_succ_r, Nat.add_comm. reflexivity. }
    assert (Hv : parse_token (n ++ l1) = Ok ((Some TVariable, n), [])).
    { pose proof (parse_token_exact lay Hlay md (TVar n) [] [] l1 eq_refl Hn (sep_start_all_space l1 Hl1)) as E.
      cbn [txt kind app] in E. rewrite E. rewrite rstrip_all_space by assumption. reflexivity. }
    assert (He : parse_token (l2 ++ txt lay p t) = Ok ((Some (kind t), txt lay p t), [])).
    { pose proof (parse_token_exact lay Hlay md t p l2 [] Hl2 Hw eq_refl) as E.
      rewrite app_nil_r in E. exact E. }
    unfold parse_stmt.
    set (T := txt lay p t) in *.
    assert (Ef : find_char c_eq (n ++ l1 ++ [c_eq] ++ l2 ++ T) = Some (length (n ++ l1))).
    { rewrite app_assoc. apply find_char_skip. apply notin_app.
      - apply notin_name; [reflexivity|assumption].
      - apply notin_space; [reflexivity|assumption]. }
    rewrite Ef.
    assert (Et : take (length (n ++ l1)) (n ++ l1 ++ [c_eq] ++ l2 ++ T) = n ++ l1)
      by (rewrite app_assoc; apply take_app_exact).
    assert (Ed : drop (length (n ++ l1) + 1) (n ++ l1 ++ [c_eq] ++ l2 ++ T) = l2 ++ T).
    { replace (n ++ l1 ++ [c_eq] ++ l2 ++ T) with (((n ++ l1) ++ [c_eq]) ++ l2 ++ T) by reassoc.
      apply drop_app_exact'. rewrite (app_length (n ++ l1) [c_eq]). reflexivity. }
    rewrite Et, Ed.
    replace (is_empty (l2 ++ T)) with false by (destruct l2; [destruct T; [congruence|reflexivity]|reflexivity]).
    rewrite Hv. cbn [bind strip lstrip rstrip is_empty negb].
    rewrite He. cbn [bind is_empty negb].
    rewrite Hpv. cbn [bind]. rewrite Hpt. reflexivity.
  Qed.

  (* statement := strip(statement); parse(statement, namespace) on a printed statement *)
  Lemma stmt_parse_exact i s : wf_stmt md s ->
    strip (stmt_txt lay i s) <> [] /\
    parse_stmt md ns (strip (stmt_txt lay i s)) = Ok (tok_of ns (TVar (fst s)), tok_of ns (snd s)).
  Proof.
    intros [Hn He]. destruct (wf_name_chars (fst s) Hn) as [Hne Hnc].
    destruct (txt_edges lay md (snd s) [0%nat; i] He) as [Tf Tl].
    pose proof (txt_nonempty lay md (snd s) [0%nat; i] He) as HTn.
    unfold stmt_txt.
    set (line := fst s ++ lay [i] 1%nat ++ [c_eq] ++ lay [i] 2%nat ++ txt lay [0%nat; i] (snd s)).
    assert (El : lay [i] 0%nat ++ fst s ++ lay [i] 1%nat ++ [c_eq] ++ lay [i] 2%nat ++
                 txt lay [0%nat; i] (snd s) ++ lay [i] 3%nat = lay [i] 0%nat ++ line ++ lay [i] 3%nat)
      by (unfold line; reassoc).
    rewrite El.
    assert (Hf : first_nonspace line = true).
    { unfold line. rewrite first_nonspace_app by assumption.
      pose proof (name_nonspace _ Hnc) as Hs. destruct (fst s) as [|c r]; [congruence|].
      cbn [forallb] in Hs. apply andb_true_iff in Hs. destruct Hs as [Hs _]. exact Hs. }
    assert (Hl : last_nonspace line = true).
    { unfold line. rewrite !app_assoc. rewrite last_nonspace_app; assumption. }
    rewrite strip_tok; [|apply Hlay|assumption|assumption].
    rewrite rstrip_all_space by apply Hlay. rewrite app_nil_r.
    split; [intro E; rewrite E in Hf; discriminate|].
    unfold line. apply parse_stmt_line; [assumption|apply Hlay|apply Hlay|assumption].
  Qed.

  (* the blank piece after the last ';' is skipped *)
  Lemma final_piece_blank : strip (lay [] 0%nat) = [].
  Proof. apply strip_all_space. apply Hlay. Qed.
End Stmt.

(* ---------------------------------------------------------------- the parse phase of a whole program *)

(* What the loop of query() hands to parse(), in order, under one given namespace: every piece of
   query.split(";") is stripped, empty pieces are skipped, the others go through the statement
   parser.  (In query() parse and interpret alternate and the namespace changes from statement to
   statement; the theorem below holds for every namespace, and Proofs/QueryRefEval.v threads the
   actual one.) *)
Fixpoint parse_pieces (md : nat) (ns : namespace) (pieces : list str) : list (res (qtoken * qtoken)) :=
  match pieces with
  | [] => []
  | piece :: rest =>
      if is_empty (strip piece) then parse_pieces md ns rest
      else parse_stmt md ns (strip piece) :: parse_pieces md ns rest
  end.

Lemma parse_pieces_stmts lay md ns : wf_layout lay -> forall pg, wf_prog md pg -> forall i,
  parse_pieces md ns (stmt_pieces lay i pg ++ [lay [] 0%nat]) =
  map (fun s => Ok (tok_of ns (TVar (fst s)), tok_of ns (snd s))) pg.
Proof.
  intros Hlay. induction pg as [|s rest IH]; intros Hw i; cbn [stmt_pieces app parse_pieces map].
  - rewrite final_piece_blank by assumption. reflexivity.
  - inversion Hw as [|? ? Hs Hr]; subst.
    destruct (stmt_parse_exact lay Hlay md ns i s Hs) as [Hne Hp].
    replace (is_empty (strip (stmt_txt lay i s))) with false
      by (destruct (strip (stmt_txt lay i s)); [congruence|reflexivity]).
    rewrite Hp, (IH Hr). reflexivity.
Qed.

Theorem parse_print_exact lay md ns pg : wf_layout lay -> wf_prog md pg ->
  parse_pieces md ns (split c_semi (print lay pg)) =
  map (fun s => Ok (tok_of ns (TVar (fst s)), tok_of ns (snd s))) pg.
Proof. intros Hlay Hw. rewrite (split_print lay Hlay md pg Hw). apply parse_pieces_stmts; assumption. Qed.
