(* C11, evaluation: interpreting the token tree the parser builds for a term equals the reference
   evaluator's value of the term (same registry, same body oracle, same world afterwards - so the
   same body calls in the same order), the namespace is not changed by evaluating an expression,
   and errors agree exactly (class and world at the point of failure).  Then the run level: query()
   on the printed text of a well-formed program under a well-formed layout equals denote_prog. *)
From AwVerif Require Import Base.Prelude Model.PyStr Model.Query Model.QueryRef
  Proofs.QueryRefStr Proofs.QueryRefToken Proofs.QueryRefLoops Proofs.QueryRefProg.
From Coq Require Import ZifyBool Lia.
Open Scope Z_scope.

(* ---------------------------------------------------------------- dict facts *)

Lemma str_eqb_eq a : forall b, str_eqb a b = true <-> a = b.
Proof.
  induction a as [|x a IH]; intros [|y b]; cbn [str_eqb]; split; intro H; try discriminate; try reflexivity.
  - apply andb_true_iff in H. destruct H as [H1 H2]. apply IH in H2. f_equal; [lia|assumption].
  - injection H as -> ->. rewrite Z.eqb_refl. apply IH. reflexivity.
Qed.

Lemma str_eqb_refl a : str_eqb a a = true.
Proof. apply str_eqb_eq. reflexivity. Qed.

Lemma str_eqb_neq a b : a <> b -> str_eqb a b = false.
Proof. intro H. destruct (str_eqb a b) eqn:E; [|reflexivity]. apply str_eqb_eq in E. contradiction. Qed.

(* namespace[name] = namespace[name] *)
Lemma dict_set_same {V} (d : list (str * V)) k v : dict_get d k = Some v -> dict_set d k v = d.
Proof.
  induction d as [|[k' v'] t IH]; intro H; [discriminate|]. cbn [dict_get dict_set] in *.
  destruct (str_eqb k' k); [injection H as ->; reflexivity|]. f_equal. apply IH. assumption.
Qed.

Lemma dict_get_set_same {V} (d : list (str * V)) k v : dict_get (dict_set d k v) k = Some v.
Proof.
  induction d as [|[k' v'] t IH]; cbn [dict_set dict_get].
  - rewrite str_eqb_refl. reflexivity.
  - destruct (str_eqb k' k) eqn:E; cbn [dict_get]; rewrite E; [reflexivity|assumption].
Qed.

Lemma dict_get_set_other {V} (d : list (str * V)) k v x : k <> x ->
  dict_get (dict_set d k v) x = dict_get d x.
Proof.
  intro H. induction d as [|[k' v'] t IH]; cbn [dict_set dict_get].
  - rewrite str_eqb_neq by assumption. reflexivity.
  - destruct (str_eqb k' k) eqn:E; cbn [dict_get].
    + apply str_eqb_eq in E. subst k'. rewrite str_eqb_neq by assumption. reflexivity.
    + destruct (str_eqb k' x); [reflexivity|assumption].
Qed.

(* ---------------------------------------------------------------- dict literals with distinct keys *)

Definition ekey (e : (Z * str) * term) : str := snd (fst e).

(* every dict literal inside the term has pairwise distinct keys (all that eval = denote needs of
   well-formedness) *)
Fixpoint dkeys (t : term) : Prop :=
  match t with
  | TInt _ | TStr _ _ | TVar _ => True
  | TCall _ args => (fix all (l : list term) : Prop :=
                       match l with [] => True | a :: r => dkeys a /\ all r end) args
  | TLst l => (fix all (l : list term) : Prop :=
                 match l with [] => True | a :: r => dkeys a /\ all r end) l
  | TDct d =>
      keys_distinct (map ekey d) /\
      (fix all (l : list ((Z * str) * term)) : Prop :=
         match l with [] => True | e :: r => dkeys (snd e) /\ all r end) d
  end.

Lemma dkeys_all_forall (l : list term) :
  (fix all (l : list term) : Prop := match l with [] => True | a :: r => dkeys a /\ all r end) l
  <-> Forall dkeys l.
Proof.
  induction l as [|a r IH]; split; intro H.
  - constructor.
  - exact I.
  - destruct H as [Ha Hr]. constructor; [assumption|apply IH; assumption].
  - inversion H; subst. split; [assumption|apply IH; assumption].
Qed.

Lemma dkeys_entries_forall (l : list ((Z * str) * term)) :
  (fix all (l : list ((Z * str) * term)) : Prop :=
     match l with [] => True | e :: r => dkeys (snd e) /\ all r end) l
  <-> Forall (fun e => dkeys (snd e)) l.
Proof.
  induction l as [|a r IH]; split; intro H.
  - constructor.
  - exact I.
  - destruct H as [Ha Hr]. constructor; [assumption|apply IH; assumption].
  - inversion H; subst. split; [assumption|apply IH; assumption].
Qed.

Lemma wf_dkeys md t : wf md t -> dkeys t.
Proof.
  induction t as [ds|q s|n|n args IH|l IH|d IH] using term_ind2; intro Hw; cbn [dkeys]; try exact I.
  - destruct Hw as [_ Ha]. apply wf_all_forall in Ha. apply dkeys_all_forall.
    rewrite Forall_forall in *. intros x Hx. apply IH; [assumption|apply Ha; assumption].
  - apply wf_all_forall in Hw. apply dkeys_all_forall.
    rewrite Forall_forall in *. intros x Hx. apply IH; [assumption|apply Hw; assumption].
  - destruct Hw as [Hk Hw]. apply wf_entries_forall in Hw. split; [exact Hk|].
    apply dkeys_entries_forall. rewrite Forall_forall in *. intros x Hx. apply IH; [assumption|].
    apply (Hw x Hx).
Qed.

(* ---------------------------------------------------------------- eval = denote *)

Section Eval.
  Variable table : list builtin.
  Variable W : Type.
  Variable buckets : W -> str -> bool.
  Variable body : str -> list arg -> W -> (value + errclass) * W.

  Notation interp := (interp table W buckets body).
  Notation denote := (denote table W buckets body).
  Notation bindM := (bindM W).
  Notation ret := (ret W).

  (* the reference evaluator's outcome, with the (unchanged) namespace attached: what
     t.interpret(datastore, namespace) must yield *)
  Definition with_ns {X} (ns : namespace) (m : M W X) : M W (X * namespace) :=
    bindM m (fun x => ret (x, ns)).

  Definition E (ns : namespace) (t : term) : Prop :=
    forall w, interp (tok_of ns t) ns w = with_ns ns (denote ns t) w.

  Lemma eval_seq ns l : Forall (E ns) l -> forall w,
    interp_seq W interp (map (tok_of ns) l) ns w = with_ns ns (denote_seq W (denote ns) l) w.
  Proof.
    induction l as [|a r IH]; intros H w; [reflexivity|].
    inversion H as [|? ? Ha Hr]; subst. specialize (IH Hr). unfold E in Ha.
    cbn [map interp_seq denote_seq]. unfold with_ns, Query.bindM, Query.ret in *. rewrite (Ha w).
    destruct (denote ns a w) as [[v|c|] w1]; try reflexivity.
    rewrite (IH w1).
    destruct (denote_seq W (denote ns) r w1) as [[vs|c|] w2]; reflexivity.
  Qed.

  Lemma eval_entries ns d : Forall (fun e => E ns (snd e)) d -> keys_distinct (map ekey d) ->
    forall acc, (forall x, In x d -> ~ In (ekey x) (map fst acc)) -> forall w,
    interp_entries W interp (map (fun e => (ekey e, tok_of ns (snd e))) d) acc ns w =
    bindM (denote_entries W (denote ns) d) (fun kvs => ret (acc ++ kvs, ns)) w.
  Proof.
    induction d as [|e r IH]; intros H Hk acc Hacc w.
    - cbn [map interp_entries denote_entries]. unfold Query.bindM, Query.ret. rewrite app_nil_r. reflexivity.
    - inversion H as [|? ? He Hr]; subst. cbn [map keys_distinct] in Hk. destruct Hk as [Hk1 Hk2].
      specialize (IH Hr Hk2). unfold E in He.
      cbn [map interp_entries denote_entries]. unfold with_ns, Query.bindM, Query.ret in *. rewrite (He w).
      destruct (denote ns (snd e) w) as [[v|c|] w1]; try reflexivity.
      rewrite (dict_set_fresh acc (ekey e) v) by (apply Hacc; left; reflexivity).
      rewrite IH.
      + destruct (denote_entries W (denote ns) r w1) as [[vs|c|] w2]; try reflexivity.
        rewrite <- app_assoc. reflexivity.
      + intros x Hx. rewrite map_app. cbn [map fst]. intro Hi. apply in_app_or in Hi. destruct Hi as [Hi|[Hi|[]]].
        * apply (Hacc x); [right; assumption|assumption].
        * apply Hk1. rewrite Hi. apply (in_map ekey). assumption.
  Qed.

  Lemma interp_fn n args ns : interp (QFunction n args) ns =
    match find_builtin table n with
    | None => fail W InterpretError
    | Some b =>
        bindM (interp_seq W interp args ns) (fun '(vals, ns) =>
        bindM (call_builtin W buckets body b vals) (fun r => ret (r, ns)))
    end.
  Proof. reflexivity. Qed.
  Lemma interp_list l ns : interp (QList l) ns =
    bindM (interp_seq W interp l ns) (fun '(vs, ns) => ret (VList vs, ns)).
  Proof. reflexivity. Qed.
  Lemma interp_dict d ns : interp (QDict d) ns =
    bindM (interp_entries W interp d [] ns) (fun '(d', ns) => ret (VDict d', ns)).
  Proof. reflexivity. Qed.

  (* value.interpret(datastore, namespace) = denote, namespace unchanged, same world, same error *)
  Theorem eval_denote ns t : dkeys t -> E ns t.
  Proof.
    induction t as [ds|q s|n|n args IH|l IH|d IH] using term_ind2; intros Hd w; cbn [tok_of].
    - reflexivity.
    - reflexivity.
    - cbn [Query.interp QueryRef.denote]. unfold dict_mem, with_ns.
      destruct (dict_get ns n) as [v|] eqn:G; cbn [negb].
      + rewrite (dict_set_same ns n v G). reflexivity.
      + reflexivity.
    - cbn [dkeys] in Hd. apply dkeys_all_forall in Hd.
      assert (HE : Forall (E ns) args).
      { rewrite Forall_forall in *. intros x Hx. apply IH; [assumption|apply Hd; assumption]. }
      rewrite interp_fn. cbn [QueryRef.denote].
      destruct (find_builtin table n) as [b|]; [|reflexivity].
      pose proof (eval_seq ns args HE w) as Hs.
      unfold with_ns, Query.bindM, Query.ret in *. rewrite Hs.
      destruct (denote_seq W (denote ns) args w) as [[vs|c|] w1]; reflexivity.
    - cbn [dkeys] in Hd. apply dkeys_all_forall in Hd.
      assert (HE : Forall (E ns) l).
      { rewrite Forall_forall in *. intros x Hx. apply IH; [assumption|apply Hd; assumption]. }
      rewrite interp_list. cbn [QueryRef.denote].
      pose proof (eval_seq ns l HE w) as Hs.
      unfold with_ns, Query.bindM, Query.ret in *. rewrite Hs.
      destruct (denote_seq W (denote ns) l w) as [[vs|c|] w1]; reflexivity.
    - cbn [dkeys] in Hd. destruct Hd as [Hk Hd]. apply dkeys_entries_forall in Hd.
      assert (HE : Forall (fun e => E ns (snd e)) d).
      { rewrite Forall_forall in *. intros x Hx. apply IH; [assumption|apply Hd; assumption]. }
      change (map (fun e => (snd (fst e), tok_of ns (snd e))) d) with (map (fun e => (ekey e, tok_of ns (snd e))) d).
      rewrite interp_dict. cbn [QueryRef.denote].
      pose proof (eval_entries ns d HE Hk [] (fun _ _ H => H) w) as Hs.
      unfold with_ns, Query.bindM, Query.ret in *. rewrite Hs.
      destruct (denote_entries W (denote ns) d w) as [[vs|c|] w1]; reflexivity.
  Qed.
End Eval.

(* ---------------------------------------------------------------- the run level *)

Section Run.
  Variable table : list builtin.
  Variable W : Type.
  Variable buckets : W -> str -> bool.
  Variable body : str -> list arg -> W -> (value + errclass) * W.
  Variable md : nat.
  Variable lay : layout.
  Hypothesis Hlay : wf_layout lay.

  Notation interp := (interp table W buckets body).
  Notation denote := (denote table W buckets body).
  Notation denote_stmts := (denote_stmts table W buckets body).
  Notation run_stmts := (run_stmts table W buckets body md).

  (* interpret(var, val, namespace, datastore) on the parsed statement: namespace[name] = value *)
  Lemma interpret_stmt_denote ns n e : dkeys e -> forall w,
    interpret_stmt table W buckets body (tok_of ns (TVar n)) (tok_of ns e) ns w =
    bindM W (denote ns e) (fun v => ret W (dict_set ns n v)) w.
  Proof.
    intros Hd w. unfold interpret_stmt. pose proof (eval_denote table W buckets body ns e Hd w) as He.
    unfold with_ns, bindM, ret in *. rewrite He.
    destruct (denote ns e w) as [[v|c|] w1]; reflexivity.
  Qed.

  (* the loop of query() over the pieces of a printed program: parse and interpret alternate, every
     statement is parsed in the namespace its predecessors left *)
  Lemma run_pieces_denote pg : wf_prog md pg -> forall i ns w,
    run_stmts (stmt_pieces lay i pg ++ [lay [] 0%nat]) ns w = denote_stmts pg ns w.
  Proof.
    induction pg as [|[n e] rest IH]; intros Hw i ns w.
    - cbn [stmt_pieces app Query.run_stmts QueryRef.denote_stmts].
      rewrite final_piece_blank by assumption. reflexivity.
    - inversion Hw as [|? ? Hs Hr]; subst. specialize (IH Hr).
      destruct (stmt_parse_exact lay Hlay md ns i (n, e) Hs) as [Hne Hp]. cbn [fst snd] in Hp.
      destruct Hs as [_ He]. cbn [snd] in He. apply wf_dkeys in He.
      cbn [stmt_pieces app Query.run_stmts QueryRef.denote_stmts].
      replace (is_empty (strip (stmt_txt lay i (n, e)))) with false
        by (destruct (strip (stmt_txt lay i (n, e))); [congruence|reflexivity]).
      rewrite Hp. pose proof (interpret_stmt_denote ns n e He w) as Hi.
      unfold bindM, lift, ret in *. rewrite Hi.
      destruct (denote ns e w) as [[v|c|] w1]; try reflexivity. apply IH.
  Qed.

  Theorem run_stmts_print pg : wf_prog md pg -> forall ns w,
    run_stmts (split c_semi (print lay pg)) ns w = denote_stmts pg ns w.
  Proof. intros Hw ns w. rewrite (split_print lay Hlay md pg Hw). apply run_pieces_denote. assumption. Qed.

  (* query(name, text, starttime, endtime, datastore) = the value the text denotes *)
  Theorem run_denote name st en pg : wf_prog md pg -> forall w,
    run table W buckets body md name st en (print lay pg) w =
    denote_prog table W buckets body name st en pg w.
  Proof.
    intros Hw w. unfold run, denote_prog. pose proof (run_stmts_print pg Hw (initial_namespace name st en) w) as Hr.
    unfold bindM, lift, get_return, ret, fail in *. rewrite Hr.
    destruct (denote_stmts pg (initial_namespace name st en) w) as [[ns|c|] w1]; try reflexivity.
    destruct (dict_get ns s_RETURN); reflexivity.
  Qed.
End Run.

(* two layouts of one program give the same result (value or error, and world) *)
Theorem run_layout_irrelevant table W buckets body md lay1 lay2 name st en pg :
  wf_layout lay1 -> wf_layout lay2 -> wf_prog md pg -> forall w,
  run table W buckets body md name st en (print lay1 pg) w =
  run table W buckets body md name st en (print lay2 pg) w.
Proof.
  intros H1 H2 Hw w. rewrite (run_denote table W buckets body md lay1 H1 name st en pg Hw w).
  rewrite (run_denote table W buckets body md lay2 H2 name st en pg Hw w). reflexivity.
Qed.

(* ---------------------------------------------------------------- the clauses of the statement *)

(* literal-only terms: integers, strings, lists and dicts of literals, at any depth *)
Inductive lit :=
  | LInt (digits : str)
  | LStr (q : Z) (s : str)
  | LLst (items : list lit)
  | LDct (entries : list ((Z * str) * lit)).

Fixpoint lit_term (l : lit) : term :=
  match l with
  | LInt ds => TInt ds
  | LStr q s => TStr q s
  | LLst items => TLst (map lit_term items)
  | LDct d => TDct (map (fun e => (fst e, lit_term (snd e))) d)
  end.

(* the value a literal is: the number, the content, the list of the items' values, the dict of the
   (key, value) pairs in written order *)
Fixpoint lit_val (l : lit) : value :=
  match l with
  | LInt ds => VInt (num_val ds)
  | LStr _ s => VStr s
  | LLst items => VList (map lit_val items)
  | LDct d => VDict (map (fun e => (snd (fst e), lit_val (snd e))) d)
  end.

Section LitInd.
  Variable Q : lit -> Prop.
  Hypothesis HI : forall ds, Q (LInt ds).
  Hypothesis HS : forall q s, Q (LStr q s).
  Hypothesis HL : forall l, Forall Q l -> Q (LLst l).
  Hypothesis HD : forall d, Forall (fun e => Q (snd e)) d -> Q (LDct d).
  Fixpoint lit_ind2 (t : lit) : Q t :=
    match t with
    | LInt ds => HI ds
    | LStr q s => HS q s
    | LLst l =>
        HL l ((fix go (l : list lit) : Forall Q l :=
                 match l with [] => Forall_nil _ | a :: l' => Forall_cons _ (lit_ind2 a) (go l') end) l)
    | LDct d =>
        HD d ((fix go (l : list ((Z * str) * lit)) : Forall (fun e => Q (snd e)) l :=
                 match l with
                 | [] => Forall_nil _
                 | e :: l' => Forall_cons _ (lit_ind2 (snd e)) (go l')
                 end) d)
    end.
End LitInd.

(* arguments evaluated one after the other in written order, the world handed from each to the next *)
Inductive args_eval {W} (f : term -> M W value) : list term -> W -> list value -> W -> Prop :=
  | args_nil w : args_eval f [] w [] w
  | args_cons a r w v w1 vs w2 :
      f a w = (Ok v, w1) -> args_eval f r w1 vs w2 -> args_eval f (a :: r) w (v :: vs) w2.

Section Clauses.
  Variable table : list builtin.
  Variable W : Type.
  Variable buckets : W -> str -> bool.
  Variable body : str -> list arg -> W -> (value + errclass) * W.

  Notation denote := (denote table W buckets body).
  Notation denote_stmts := (denote_stmts table W buckets body).
  Notation denote_prog := (denote_prog table W buckets body).

  Lemma denote_seq_lits ns (l : list lit) :
    Forall (fun x => forall w, denote ns (lit_term x) w = (Ok (lit_val x), w)) l ->
    forall w, denote_seq W (denote ns) (map lit_term l) w = (Ok (map lit_val l), w).
  Proof.
    induction l as [|a r IH]; intros H w; [reflexivity|]. inversion H as [|? ? Ha Hr]; subst.
    cbn [map denote_seq]. unfold bindM, ret. rewrite Ha, (IH Hr). reflexivity.
  Qed.

  (* a literal denotes itself, in every namespace, without touching the world *)
  Theorem denote_literal ns l : forall w, denote ns (lit_term l) w = (Ok (lit_val l), w).
  Proof.
    induction l as [ds|q s|l IH|d IH] using lit_ind2; intro w; cbn [lit_term lit_val QueryRef.denote].
    - reflexivity.
    - reflexivity.
    - unfold bindM, ret. rewrite (denote_seq_lits ns l IH w). reflexivity.
    - unfold bindM, ret.
      assert (Hs : forall w, denote_entries W (denote ns) (map (fun e => (fst e, lit_term (snd e))) d) w =
                   (Ok (map (fun e => (snd (fst e), lit_val (snd e))) d), w)).
      { clear w. induction d as [|e r IHr]; intro w; [reflexivity|]. inversion IH as [|? ? He Hr]; subst.
        cbn [map denote_entries fst snd]. unfold bindM, ret. rewrite He, (IHr Hr). reflexivity. }
      rewrite Hs. reflexivity.
  Qed.

  (* a call applies the named built-in to the values of all of its arguments, in written order *)
  Lemma denote_seq_args ns args w vals w1 : args_eval (denote ns) args w vals w1 ->
    denote_seq W (denote ns) args w = (Ok vals, w1).
  Proof.
    induction 1 as [w|a r w v w1 vs w2 Ha Hr IH]; [reflexivity|].
    cbn [denote_seq]. unfold bindM, ret. rewrite Ha, IH. reflexivity.
  Qed.

  Theorem denote_call ns n args b w vals w1 : find_builtin table n = Some b ->
    args_eval (denote ns) args w vals w1 ->
    denote ns (TCall n args) w = call_builtin W buckets body b vals w1.
  Proof.
    intros Hb Ha. cbn [QueryRef.denote]. rewrite Hb. unfold bindM.
    rewrite (denote_seq_args ns args w vals w1 Ha). reflexivity.
  Qed.

  Theorem denote_call_unknown ns n args w : find_builtin table n = None ->
    denote ns (TCall n args) w = (Err InterpretError, w).
  Proof. intro Hb. cbn [QueryRef.denote]. rewrite Hb. reflexivity. Qed.

  (* programs *)
  Lemma denote_stmts_app a b ns w :
    denote_stmts (a ++ b) ns w = bindM W (denote_stmts a ns) (fun ns' => denote_stmts b ns') w.
  Proof.
    revert ns w. induction a as [|[n e] r IH]; intros ns w; cbn [app QueryRef.denote_stmts].
    - reflexivity.
    - unfold bindM in *. destruct (denote ns e w) as [[v|c|] w1]; try reflexivity. apply IH.
  Qed.

  (* statements that do not assign x leave its binding alone *)
  Lemma denote_stmts_frame x pg : Forall (fun s : stmt => fst s <> x) pg -> forall ns w ns' w',
    denote_stmts pg ns w = (Ok ns', w') -> dict_get ns' x = dict_get ns x.
  Proof.
    induction pg as [|[n e] r IH]; intros H ns w ns' w' Hd; cbn [QueryRef.denote_stmts] in Hd.
    - injection Hd as <- _. reflexivity.
    - inversion H as [|? ? Hn Hr]; subst. cbn [fst] in Hn. unfold bindM in Hd.
      destruct (denote ns e w) as [[v|c|] w1]; try discriminate.
      rewrite (IH Hr _ _ _ _ Hd). apply dict_get_set_other. assumption.
  Qed.

  (* the last statement RETURN = e decides the result *)
  Lemma denote_prog_last name st en pg e w ns1 w1 :
    denote_stmts pg (initial_namespace name st en) w = (Ok ns1, w1) ->
    denote_prog name st en (pg ++ [(s_RETURN, e)]) w =
    match denote ns1 e w1 with
    | (Ok v, w2) => (Ok v, w2) | (Err c, w2) => (Err c, w2) | (OutOfFuel, w2) => (OutOfFuel, w2)
    end.
  Proof.
    intro Hp. unfold QueryRef.denote_prog. unfold bindM at 1. rewrite denote_stmts_app. unfold bindM at 1.
    rewrite Hp. cbn [QueryRef.denote_stmts]. unfold bindM, ret.
    destruct (denote ns1 e w1) as [[v|c|] w2]; try reflexivity.
    rewrite dict_get_set_same. reflexivity.
  Qed.

  (* a variable denotes its most recent assignment: x = e; statements not assigning x; RETURN = x *)
  Theorem denote_var_recent name st en pg x e pg2 w ns1 w1 v w2 ns3 w3 :
    denote_stmts pg (initial_namespace name st en) w = (Ok ns1, w1) ->
    denote ns1 e w1 = (Ok v, w2) ->
    Forall (fun s : stmt => fst s <> x) pg2 ->
    denote_stmts pg2 (dict_set ns1 x v) w2 = (Ok ns3, w3) ->
    denote_prog name st en (pg ++ [(x, e)] ++ pg2 ++ [(s_RETURN, TVar x)]) w = (Ok v, w3).
  Proof.
    intros Hp He Hf H2.
    replace (pg ++ [(x, e)] ++ pg2 ++ [(s_RETURN, TVar x)]) with ((pg ++ [(x, e)] ++ pg2) ++ [(s_RETURN, TVar x)])
      by (rewrite <- !app_assoc; reflexivity).
    rewrite (denote_prog_last name st en _ (TVar x) w ns3 w3).
    - cbn [QueryRef.denote]. rewrite (denote_stmts_frame x pg2 Hf _ _ _ _ H2), dict_get_set_same. reflexivity.
    - rewrite denote_stmts_app. unfold bindM at 1. rewrite Hp. cbn [app QueryRef.denote_stmts].
      unfold bindM at 1. rewrite He. exact H2.
  Qed.
End Clauses.

Lemma wf_RETURN : wf_name s_RETURN.
Proof. split; reflexivity. Qed.

Lemma wf_prog_snoc md pg s : wf_prog md pg -> wf_stmt md s -> wf_prog md (pg ++ [s]).
Proof. intros Hp Hs. apply Forall_app. split; [assumption|constructor; [assumption|constructor]]. Qed.

(* ---------------------------------------------------------------- the clauses at the run level *)

Section RunClauses.
  Variable table : list builtin.
  Variable W : Type.
  Variable buckets : W -> str -> bool.
  Variable body : str -> list arg -> W -> (value + errclass) * W.
  Variable md : nat.
  Variable lay : layout.
  Hypothesis Hlay : wf_layout lay.
  Variables name st en : str.

  Notation denote := (denote table W buckets body).
  Notation denote_stmts := (denote_stmts table W buckets body).
  Notation run := (run table W buckets body md name st en).

  (* ...; RETURN = <literal>;  returns the literal's value *)
  Theorem run_literal pg l w ns1 w1 : wf_prog md pg -> wf md (lit_term l) ->
    denote_stmts pg (initial_namespace name st en) w = (Ok ns1, w1) ->
    run (print lay (pg ++ [(s_RETURN, lit_term l)])) w = (Ok (lit_val l), w1).
  Proof.
    intros Hp Hl Hd.
    rewrite (run_denote table W buckets body md lay Hlay name st en).
    - rewrite (denote_prog_last table W buckets body name st en pg _ w ns1 w1 Hd).
      rewrite denote_literal. reflexivity.
    - apply wf_prog_snoc; [assumption|]. split; [apply wf_RETURN|assumption].
  Qed.

  (* ...; RETURN = f(a1, ..., an);  returns f applied to the values of a1 ... an, evaluated in this order *)
  Theorem run_call pg n args b w ns1 w1 vals w2 : wf_prog md pg -> wf md (TCall n args) ->
    denote_stmts pg (initial_namespace name st en) w = (Ok ns1, w1) ->
    find_builtin table n = Some b -> args_eval (denote ns1) args w1 vals w2 ->
    run (print lay (pg ++ [(s_RETURN, TCall n args)])) w = call_builtin W buckets body b vals w2.
  Proof.
    intros Hp Hc Hd Hb Ha.
    rewrite (run_denote table W buckets body md lay Hlay name st en).
    - rewrite (denote_prog_last table W buckets body name st en pg _ w ns1 w1 Hd).
      rewrite (denote_call table W buckets body ns1 n args b w1 vals w2 Hb Ha).
      destruct (call_builtin W buckets body b vals w2) as [[v|c|] w3]; reflexivity.
    - apply wf_prog_snoc; [assumption|]. split; [apply wf_RETURN|assumption].
  Qed.

  (* ...; x = e; <statements not assigning x>; RETURN = x;  returns the value e had *)
  Theorem run_var_recent pg x e pg2 w ns1 w1 v w2 ns3 w3 :
    wf_prog md pg -> wf_stmt md (x, e) -> wf_prog md pg2 ->
    denote_stmts pg (initial_namespace name st en) w = (Ok ns1, w1) ->
    denote ns1 e w1 = (Ok v, w2) ->
    Forall (fun s : stmt => fst s <> x) pg2 ->
    denote_stmts pg2 (dict_set ns1 x v) w2 = (Ok ns3, w3) ->
    run (print lay (pg ++ [(x, e)] ++ pg2 ++ [(s_RETURN, TVar x)])) w = (Ok v, w3).
  Proof.
    intros Hp Hs Hp2 Hd He Hf H2.
    rewrite (run_denote table W buckets body md lay Hlay name st en).
    - apply (denote_var_recent table W buckets body name st en pg x e pg2 w ns1 w1 v w2 ns3 w3); assumption.
    - apply Forall_app. split; [assumption|]. constructor; [assumption|].
      apply wf_prog_snoc; [assumption|]. split; [apply wf_RETURN|]. destruct Hs as [Hx _]. exact Hx.
  Qed.
End RunClauses.

(* ---------------------------------------------------------------- the fuel always suffices *)

Section Total.
  Variable table : list builtin.
  Variable W : Type.
  Variable buckets : W -> str -> bool.
  Variable body : str -> list arg -> W -> (value + errclass) * W.

  Notation denote := (denote table W buckets body).
  Notation denote_stmts := (denote_stmts table W buckets body).

  Lemma typecheck_fuel sig : forall args, typecheck sig args <> OutOfFuel.
  Proof.
    induction sig as [|k sig IH]; intros args; [discriminate|]. destruct args as [|a args]; [discriminate|].
    cbn [typecheck]. destruct k; try apply IH. destruct (isinstance a t); [apply IH|discriminate].
  Qed.

  Lemma call_body_fuel n args w : fst (call_body W body n args w) <> OutOfFuel.
  Proof. unfold call_body. destruct (body n args w) as [[v|c] w1]; discriminate. Qed.

  Lemma run_body_fuel b args w : fst (run_body W buckets body b args w) <> OutOfFuel.
  Proof.
    unfold run_body. destruct (b_body b); try discriminate; try apply call_body_fuel.
    destruct (vals_of_args args) as [|[| | | | | |] ?]; try apply call_body_fuel.
    destruct (buckets w s); [apply call_body_fuel|discriminate].
  Qed.

  Lemma call_builtin_fuel b vals w : fst (call_builtin W buckets body b vals w) <> OutOfFuel.
  Proof.
    unfold call_builtin, bindM, lift, fail.
    set (args := (if existsb is_pdatastore (b_sig b) then [ADatastore] else []) ++
                 (if existsb is_pnamespace (b_sig b) then [ANamespace] else []) ++ map AVal vals).
    pose proof (typecheck_fuel (b_sig b) args) as Ht.
    destruct (typecheck (b_sig b) args) as [u|c|]; [|discriminate|congruence].
    destruct (negb (arity_ok (b_sig b) (length args))); [discriminate|].
    pose proof (run_body_fuel b args w) as Hr.
    destruct (run_body W buckets body b args w) as [[v|c|] w1]; [discriminate| |exfalso; apply Hr; reflexivity].
    destruct c; discriminate.
  Qed.

  Lemma denote_seq_fuel ns l : Forall (fun t => forall w, fst (denote ns t w) <> OutOfFuel) l ->
    forall w, fst (denote_seq W (denote ns) l w) <> OutOfFuel.
  Proof.
    induction l as [|a r IH]; intros H w; [discriminate|]. inversion H as [|? ? Ha Hr]; subst.
    cbn [denote_seq]. unfold bindM, ret. specialize (Ha w).
    destruct (denote ns a w) as [[v|c|] w1]; [|discriminate|exfalso; apply Ha; reflexivity].
    specialize (IH Hr w1). destruct (denote_seq W (denote ns) r w1) as [[vs|c|] w2]; [discriminate|discriminate|exfalso; apply IH; reflexivity].
  Qed.

  Lemma denote_entries_fuel ns (d : list ((Z * str) * term)) :
    Forall (fun e => forall w, fst (denote ns (snd e) w) <> OutOfFuel) d ->
    forall w, fst (denote_entries W (denote ns) d w) <> OutOfFuel.
  Proof.
    induction d as [|a r IH]; intros H w; [discriminate|]. inversion H as [|? ? Ha Hr]; subst.
    cbn [denote_entries]. unfold bindM, ret. specialize (Ha w).
    destruct (denote ns (snd a) w) as [[v|c|] w1]; [|discriminate|exfalso; apply Ha; reflexivity].
    specialize (IH Hr w1). destruct (denote_entries W (denote ns) r w1) as [[vs|c|] w2]; [discriminate|discriminate|exfalso; apply IH; reflexivity].
  Qed.

  Lemma denote_fuel ns t : forall w, fst (denote ns t w) <> OutOfFuel.
  Proof.
    induction t as [ds|q s|n|n args IH|l IH|d IH] using term_ind2; intro w; cbn [QueryRef.denote].
    - discriminate.
    - discriminate.
    - destruct (dict_get ns n); discriminate.
    - destruct (find_builtin table n) as [b|]; [|discriminate]. unfold bindM.
      pose proof (denote_seq_fuel ns args IH w) as Hs.
      destruct (denote_seq W (denote ns) args w) as [[vs|c|] w1]; [apply call_builtin_fuel|discriminate|exfalso; apply Hs; reflexivity].
    - unfold bindM, ret. pose proof (denote_seq_fuel ns l IH w) as Hs.
      destruct (denote_seq W (denote ns) l w) as [[vs|c|] w1]; [discriminate|discriminate|exfalso; apply Hs; reflexivity].
    - unfold bindM, ret. pose proof (denote_entries_fuel ns d IH w) as Hs.
      destruct (denote_entries W (denote ns) d w) as [[vs|c|] w1]; [discriminate|discriminate|exfalso; apply Hs; reflexivity].
  Qed.

  Lemma denote_stmts_fuel pg : forall ns w, fst (denote_stmts pg ns w) <> OutOfFuel.
  Proof.
    induction pg as [|[n e] r IH]; intros ns w; cbn [QueryRef.denote_stmts]; [discriminate|].
    unfold bindM. pose proof (denote_fuel ns e w) as He.
    destruct (denote ns e w) as [[v|c|] w1]; [apply IH|discriminate|exfalso; apply He; reflexivity].
  Qed.

  Lemma denote_prog_fuel name st en pg w :
    fst (denote_prog table W buckets body name st en pg w) <> OutOfFuel.
  Proof.
    unfold denote_prog, bindM. pose proof (denote_stmts_fuel pg (initial_namespace name st en) w) as Hs.
    destruct (denote_stmts pg (initial_namespace name st en) w) as [[ns|c|] w1]; [|discriminate|exfalso; apply Hs; reflexivity].
    destruct (dict_get ns s_RETURN); discriminate.
  Qed.

  (* query() on a printed program never runs out of the fuel the model hands out *)
  Theorem run_print_fuel md lay name st en pg w : wf_layout lay -> wf_prog md pg ->
    fst (run table W buckets body md name st en (print lay pg) w) <> OutOfFuel.
  Proof.
    intros Hlay Hw. rewrite (run_denote table W buckets body md lay Hlay name st en pg Hw w). apply denote_prog_fuel.
  Qed.
End Total.

(* ---------------------------------------------------------------- the body calls, made visible *)

(* Any world can be extended by a log of the body calls (name and actual arguments, in the order in
   which they happen); run_denote at this world says that query() and the reference evaluator make
   the same calls in the same order. *)
Definition call_log := list (str * list arg).
Definition log_body {W} (body : str -> list arg -> W -> (value + errclass) * W)
    (n : str) (args : list arg) (wl : W * call_log) : (value + errclass) * (W * call_log) :=
  let '(r, w') := body n args (fst wl) in (r, (w', snd wl ++ [(n, args)])).
Definition log_buckets {W} (buckets : W -> str -> bool) (wl : W * call_log) : str -> bool := buckets (fst wl).

Theorem run_same_calls table W buckets body md lay name st en pg w :
  wf_layout lay -> wf_prog md pg ->
  run table (W * call_log) (log_buckets buckets) (log_body body) md name st en (print lay pg) (w, []) =
  denote_prog table (W * call_log) (log_buckets buckets) (log_body body) name st en pg (w, []).
Proof. intros Hlay Hw. apply run_denote; assumption. Qed.
