(* Which error class the query model raises for which kind of bad input (C17_classes).
   No property statements here (Props/C17.v). *)
From AwVerif Require Import Base.Prelude Model.PyStr Model.Query Proofs.QueryScan Proofs.QueryTotal.
From Coq Require Import ZifyBool Lia.
Open Scope Z_scope.

(* ---------------------------------------------------------------- parse errors *)

Lemma str_scan_no_quote q s : ~ In q s -> forall prev, str_scan q prev s = s.
Proof.
  induction s as [|c t IH]; intros Hn prev; cbn [str_scan]; [reflexivity|].
  assert (c <> q) by (intro; subst; apply Hn; left; reflexivity).
  replace (c =? q) with false by lia. cbn [andb]. rewrite IH; [reflexivity|].
  intro Hi; apply Hn; right; assumption.
Qed.

Lemma last_char_in s c : last_char s = Ok c -> In c s.
Proof.
  induction s as [|a t IH]; [discriminate|]. destruct t as [|b t'].
  - cbn. intro H; inversion H; left; reflexivity.
  - intro H. right. apply IH. exact H.
Qed.

(* an opening quote with no later occurrence of the same quote *)
Lemma check_string_unterminated q s :
  q = c_dq \/ q = c_sq -> ~ In q s -> check_string (q :: s) = Err ParseError.
Proof.
  intros Hq Hn. unfold check_string. cbn [first_char bind drop skipn].
  replace (negb (q =? c_dq) && negb (q =? c_sq)) with false
    by (destruct Hq; subst; reflexivity).
  rewrite (str_scan_no_quote q s Hn None).
  destruct s as [|a t].
  - cbn [last_char bind length]. replace (q =? q) with true by lia. reflexivity.
  - destruct (last_char_nonempty (a :: t)) as [l Hl]; [congruence|].
    assert (Hl' : last_char (q :: a :: t) = Ok l) by exact Hl. rewrite Hl'. cbn [bind].
    assert (l <> q) by (intro; subst; apply Hn; apply last_char_in; assumption).
    replace (l =? q) with false by lia. reflexivity.
Qed.

Lemma parse_token_unterminated v q s :
  strip v = q :: s -> q = c_dq \/ q = c_sq -> ~ In q s -> parse_token v = Err ParseError.
Proof.
  intros Es Hq Hn. unfold parse_token.
  destruct v as [|c0 v0]; [discriminate|]. cbn [is_empty]. rewrite Es. cbn [is_empty].
  cbn [qtypes try_types check]. rewrite (check_string_unterminated q s Hq Hn). reflexivity.
Qed.

(* the characters that can start a token *)
Definition starts_token (c : Z) : bool :=
  is_alpha c || (c =? c_us) || is_digit c || (c =? c_dq) || (c =? c_sq) ||
  (c =? c_lpar) || (c =? c_lbrc) || (c =? c_lbrk).

Lemma check_string_not_quote c r :
  (c =? c_dq) = false -> (c =? c_sq) = false -> check_string (c :: r) = Ok (Some [], c :: r).
Proof. intros A B. unfold check_string. cbn [first_char bind]. rewrite A, B. reflexivity. Qed.

Lemma check_integer_not_digit c r : is_digit c = false -> check_integer (c :: r) = (Some [], c :: r).
Proof. intros A. unfold check_integer. cbn [take_digits]. rewrite A. reflexivity. Qed.

Lemma check_function_not_start c r :
  is_alpha c = false -> (c =? c_us) = false -> (c =? c_lpar) = false ->
  check_function (c :: r) = (None, c :: r).
Proof.
  intros A B C. unfold check_function. cbn [fn_head Nat.eqb negb andb]. rewrite A, B, C. reflexivity.
Qed.

Lemma check_bracket_not_open opn cls c r :
  (c =? opn) = false -> check_bracket opn cls (c :: r) = Ok (None, c :: r).
Proof. intros A. unfold check_bracket. cbn [first_char bind]. rewrite A. reflexivity. Qed.

Lemma check_variable_not_start c r :
  is_alpha c = false -> (c =? c_us) = false -> check_variable (c :: r) = (Some [], c :: r).
Proof.
  intros A B. unfold check_variable. cbn [var_scan Nat.eqb negb andb]. rewrite A, B. reflexivity.
Qed.

Lemma parse_token_no_token v c r :
  strip v = c :: r -> starts_token c = false -> parse_token v = Err ParseError.
Proof.
  intros Es Hc. unfold parse_token.
  destruct v as [|c0 v0]; [discriminate|]. cbn [is_empty]. rewrite Es. cbn [is_empty].
  unfold starts_token in Hc.
  apply orb_false_iff in Hc as [Hc Hlbrk]. apply orb_false_iff in Hc as [Hc Hlbrc].
  apply orb_false_iff in Hc as [Hc Hlpar]. apply orb_false_iff in Hc as [Hc Hsq].
  apply orb_false_iff in Hc as [Hc Hdq]. apply orb_false_iff in Hc as [Hc Hdig].
  apply orb_false_iff in Hc as [Halpha Hus].
  cbn [qtypes try_types check].
  rewrite (check_string_not_quote c r Hdq Hsq). cbn [bind truthy].
  rewrite (check_integer_not_digit c r Hdig). cbn [bind truthy].
  rewrite (check_function_not_start c r Halpha Hus Hlpar). cbn [bind truthy].
  unfold check_dict, check_list.
  rewrite (check_bracket_not_open _ _ c r Hlbrc). cbn [bind truthy].
  rewrite (check_bracket_not_open _ _ c r Hlbrk). cbn [bind truthy].
  rewrite (check_variable_not_start c r Halpha Hus). cbn [bind truthy].
  reflexivity.
Qed.

Section StmtClasses.
  Variable max_digits : nat.
  Variable ns : namespace.

  Lemma stmt_no_equals line : find_char c_eq line = None -> parse_stmt max_digits ns line = Err ParseError.
  Proof. intro H. unfold parse_stmt. rewrite H. reflexivity. Qed.

  Lemma stmt_nothing_after_equals line i :
    find_char c_eq line = Some i -> drop (i + 1) line = [] -> parse_stmt max_digits ns line = Err ParseError.
  Proof. intros H E. unfold parse_stmt. rewrite H, E. reflexivity. Qed.

  (* whatever is wrong with the value text is reported as a parse error of the statement *)
  Lemma stmt_value_error line i :
    find_char c_eq line = Some i -> parse_token (drop (i + 1) line) = Err ParseError ->
    parse_stmt max_digits ns line = Err ParseError.
  Proof.
    intros H E. unfold parse_stmt. rewrite H.
    destruct (is_empty (drop (i + 1) line)); [reflexivity|].
    destruct (parse_token_cases (take i line)) as [[_ E1]|[[_ E1]|[_ (t & tok & rest & E1 & _)]]];
      rewrite E1; cbn [bind]; cbv beta iota zeta; [reflexivity|reflexivity|].
    destruct (negb (is_empty (strip rest))); [reflexivity|].
    destruct t; try reflexivity. rewrite E. reflexivity.
  Qed.
End StmtClasses.

(* ---------------------------------------------------------------- interpret / function errors *)

Section CallClasses.
  Variable table : list builtin.
  Variable W : Type.
  Variable buckets : W -> str -> bool.
  Variable body : str -> list arg -> W -> (value + errclass) * W.

  Notation interp := (interp table W buckets body).

  Lemma unknown_variable n c ns w :
    dict_mem ns n = false -> interp (QVariable n c) ns w = (Err InterpretError, w).
  Proof. intro H. cbn [Query.interp]. rewrite H. reflexivity. Qed.

  Lemma unknown_function n args ns w :
    find_builtin table n = None -> interp (QFunction n args) ns w = (Err InterpretError, w).
  Proof. intro H. cbn [Query.interp]. rewrite H. reflexivity. Qed.

  (* the actual argument list q2_function's wrapper builds *)
  Definition actual_args (b : builtin) (vals : list value) : list arg :=
    (if existsb is_pdatastore (b_sig b) then [ADatastore] else []) ++
    (if existsb is_pnamespace (b_sig b) then [ANamespace] else []) ++ map AVal vals.

  Lemma wrong_count b vals w :
    typecheck (b_sig b) (actual_args b vals) = Ok tt ->
    arity_ok (b_sig b) (length (actual_args b vals)) = false ->
    call_builtin W buckets body b vals w = (Err InterpretError, w).
  Proof.
    intros T A. unfold call_builtin. fold (actual_args b vals). unfold bindM, lift. rewrite T, A. reflexivity.
  Qed.

  Lemma wrong_type b vals w :
    typecheck (b_sig b) (actual_args b vals) = Err FunctionError ->
    call_builtin W buckets body b vals w = (Err FunctionError, w).
  Proof.
    intros T. unfold call_builtin. fold (actual_args b vals). unfold bindM, lift. rewrite T. reflexivity.
  Qed.

  (* the first parameter whose annotation the actual argument does not satisfy *)
  Lemma typecheck_first_mismatch pre_sig t rest_sig pre_args a rest_args :
    length pre_sig = length pre_args -> typecheck pre_sig pre_args = Ok tt ->
    isinstance a t = false ->
    typecheck (pre_sig ++ PTyped t :: rest_sig) (pre_args ++ a :: rest_args) = Err FunctionError.
  Proof.
    revert pre_args. induction pre_sig as [|k ps IH]; intros [|x xs] L T I; try discriminate.
    - cbn [app typecheck]. rewrite I. reflexivity.
    - cbn [app typecheck] in *. injection L as L.
      destruct k; try (apply IH; assumption).
      destruct (isinstance x t0); [apply IH; assumption|discriminate].
  Qed.

  Lemma wrong_type_at b vals w pre_sig t rest_sig pre_args a rest_args :
    b_sig b = pre_sig ++ PTyped t :: rest_sig ->
    actual_args b vals = pre_args ++ a :: rest_args ->
    length pre_sig = length pre_args -> typecheck pre_sig pre_args = Ok tt ->
    isinstance a t = false ->
    call_builtin W buckets body b vals w = (Err FunctionError, w).
  Proof.
    intros Hs Ha L T I. apply wrong_type. rewrite Hs, Ha. apply typecheck_first_mismatch; assumption.
  Qed.

  Lemma unknown_bucket b args bucketname rest w :
    b_body b = BodyBucket -> vals_of_args args = VStr bucketname :: rest -> buckets w bucketname = false ->
    run_body W buckets body b args w = (Err FunctionError, w).
  Proof. intros B V K. unfold run_body. rewrite B, V, K. reflexivity. Qed.

  (* the call reaches the body only after the type and count checks, and a TypeError coming
     out of the body is reported as an interpret error as well *)
  Lemma call_reaches_body b vals w :
    typecheck (b_sig b) (actual_args b vals) = Ok tt ->
    arity_ok (b_sig b) (length (actual_args b vals)) = true ->
    call_builtin W buckets body b vals w =
      match run_body W buckets body b (actual_args b vals) w with
      | (Err TypeError, w') => (Err InterpretError, w')
      | r => r
      end.
  Proof.
    intros T A. unfold call_builtin. fold (actual_args b vals). unfold bindM, lift. rewrite T, A. reflexivity.
  Qed.
End CallClasses.

(* ---------------------------------------------------------------- the first statement decides *)

Section RunFirst.
  Variable table : list builtin.
  Variable W : Type.
  Variable buckets : W -> str -> bool.
  Variable body : str -> list arg -> W -> (value + errclass) * W.
  Variable max_digits : nat.

  (* a parse error in the first non-blank statement is the outcome of the whole query *)
  Lemma run_first_statement_error name st en q w c :
    let first := strip (fst (split_on c_semi q)) in
    first <> [] ->
    parse_stmt max_digits (initial_namespace name st en) first = Err c ->
    run table W buckets body max_digits name st en q w = (Err c, w).
  Proof.
    intros first Hne Hp. unfold run, split. destruct (split_on c_semi q) as [h r] eqn:Es.
    cbn [fst] in first. cbn [run_stmts]. fold first.
    apply is_empty_false in Hne. rewrite Hne. unfold bindM at 2. unfold lift at 1. rewrite Hp.
    unfold bindM. reflexivity.
  Qed.
End RunFirst.
