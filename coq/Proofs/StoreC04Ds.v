(* C04 through the public API: a call of the Datastore / Bucket layer (Model/Datastore.v, issued
   as `api_call o`, Model/DatastoreApi.v) that is addressed to one bucket leaves the view of
   every other bucket of the storage underneath as it was - whatever the arguments, whether the
   call returns or raises.  Generic in the back end (a Section over step / view / invariant with
   the frame and invariance lemmas of Props/C04.v as hypotheses); instances below. *)
From AwVerif Require Import Base.Prelude Model.StoreBase Model.MemStore Model.SqliteStore
  Model.PeeweeStore Model.Datastore Model.DatastoreApi
  Proofs.StoreMemProofs Proofs.StoreSqliteProofs Proofs.StorePeeweeProofs.

Section Layer.
  Context {S V : Type} (step : S -> op -> S * res out) (view : S -> Z -> V) (Inv : S -> Prop).
  Hypothesis frame : forall c o b', Inv c -> target o <> Some b' -> view (fst (step c o)) b' = view c b'.
  Hypothesis inv_step : forall c o, Inv c -> Inv (fst (step c o)).

  Lemma call_frame : forall d o b', Inv (ds_store d) -> target o <> Some b' ->
    view (ds_store (fst (ds_call step d o))) b' = view (ds_store d) b' /\
    Inv (ds_store (fst (ds_call step d o))).
  Proof.
    intros d o b' HI HT. unfold ds_call.
    pose proof (frame _ o b' HI HT) as HF. pose proof (inv_step _ o HI) as HI'.
    destruct (step (ds_store d) o) as [s' r]. cbn in *. auto.
  Qed.

  (* self[bucket_id]: a cache hit touches nothing, a miss lists the buckets *)
  Lemma getitem_frame : forall d b b', Inv (ds_store d) ->
    view (ds_store (fst (ds_getitem step d b))) b' = view (ds_store d) b' /\
    Inv (ds_store (fst (ds_getitem step d b))).
  Proof.
    intros d b b' HI. unfold ds_getitem.
    destruct (aget b (ds_cache d)); [cbn; auto|].
    assert (HT : target Buckets <> Some b') by (cbn; discriminate).
    pose proof (frame _ Buckets b' HI HT) as HF. pose proof (inv_step _ Buckets HI) as HI'.
    destruct (step (ds_store d) Buckets) as [s' r]. cbn in HF, HI'.
    destruct r as [o| |]; [destruct o|..]; cbn; auto.
    destruct (listed b l); cbn; auto.
  Qed.

  Theorem api_frame : forall d o b', Inv (ds_store d) -> target o <> Some b' ->
    view (ds_store (fst (api_step step d o))) b' = view (ds_store d) b' /\
    Inv (ds_store (fst (api_step step d o))).
  Proof.
    intros d o b' HI HT. unfold api_step.
    destruct o; cbn [api_call ds_step hop_op api_handle h_bucket];
      try (apply call_frame; assumption).
    - (* create_bucket *)
      pose proof (frame _ (CreateBucket b m) b' HI HT) as HF.
      pose proof (inv_step _ (CreateBucket b m) HI) as HI'.
      destruct (step (ds_store d) (CreateBucket b m)) as [s' r]. cbn in HF, HI'.
      destruct r; cbn [with_store ds_store fst]; auto.
      destruct (getitem_frame (with_store d s') b b' HI') as [HG HIG].
      cbn [with_store ds_store] in HG. rewrite HG. auto.
    - (* delete_bucket *)
      apply (call_frame (mkDs (ds_store d) (adel b (ds_cache d)) (ds_next d)) (DeleteBucket b) b'); assumption.
  Qed.

  (* after any history of public calls from a state satisfying the invariant *)
  Lemma api_run_inv : forall h d, Inv (ds_store d) -> Inv (ds_store (api_run step d h)).
  Proof.
    induction h as [|o t IH]; intros d HI; cbn; [assumption|].
    apply IH. assert (HT : target Buckets <> Some 0) by (cbn; discriminate).
    destruct (target o) as [b|] eqn:E.
    - apply (api_frame d o (b + 1)); [assumption|]. rewrite E. intro H. inversion H. lia.
    - apply (api_frame d o 0); [assumption|]. rewrite E. discriminate.
  Qed.
End Layer.

Lemma mem_api_frame : forall d o b', mem_Inv (ds_store d) -> target o <> Some b' ->
  mem_view (ds_store (fst (api_step mem_step d o))) b' = mem_view (ds_store d) b'.
Proof. intros d o b' HI HT. apply (api_frame mem_step mem_view mem_Inv mem_frame mem_step_Inv d o b' HI HT). Qed.

Lemma sq_api_frame : forall d o b', sq_Inv (ds_store d) -> target o <> Some b' ->
  sq_view (ds_store (fst (api_step sq_step d o))) b' = sq_view (ds_store d) b'.
Proof. intros d o b' HI HT. apply (api_frame sq_step sq_view sq_Inv sq_frame sq_step_Inv d o b' HI HT). Qed.

Lemma pw_api_frame : forall d o b', pw_Inv (ds_store d) -> target o <> Some b' ->
  pw_view (ds_store (fst (api_step pw_step d o))) b' = pw_view (ds_store d) b'.
Proof. intros d o b' HI HT. apply (api_frame pw_step pw_view pw_Inv pw_frame pw_step_Inv d o b' HI HT). Qed.

Lemma mem_api_frame_reachable : forall h o b', target o <> Some b' ->
  let d := api_run mem_step (ds_init mem_init) h in
  mem_view (ds_store (fst (api_step mem_step d o))) b' = mem_view (ds_store d) b'.
Proof.
  intros h o b' HT d. apply mem_api_frame; [|assumption].
  apply (api_run_inv mem_step mem_view mem_Inv mem_frame mem_step_Inv). exact mem_Inv_init.
Qed.

Lemma sq_api_frame_reachable : forall h o b', target o <> Some b' ->
  let d := api_run sq_step (ds_init sq_init) h in
  sq_view (ds_store (fst (api_step sq_step d o))) b' = sq_view (ds_store d) b'.
Proof.
  intros h o b' HT d. apply sq_api_frame; [|assumption].
  apply (api_run_inv sq_step sq_view sq_Inv sq_frame sq_step_Inv). exact sq_Inv_init.
Qed.

Lemma pw_api_frame_reachable : forall h o b', target o <> Some b' ->
  let d := api_run pw_step (ds_init pw_init) h in
  pw_view (ds_store (fst (api_step pw_step d o))) b' = pw_view (ds_store d) b'.
Proof.
  intros h o b' HT d. apply pw_api_frame; [|assumption].
  apply (api_run_inv pw_step pw_view pw_Inv pw_frame pw_step_Inv). exact pw_Inv_init.
Qed.

Print Assumptions mem_api_frame_reachable.
Print Assumptions sq_api_frame_reachable.
Print Assumptions pw_api_frame_reachable.
