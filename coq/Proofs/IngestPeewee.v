(* C07 on the peewee back end model: representation invariant (primary keys + the
   bucket_keys cache agrees with the bucket table), the three per-operation lemmas proved
   from Model/PeeweeStore.v, instantiation. *)
From Coq Require Import Permutation Sorted ZifyBool.
From AwVerif Require Import Base.Prelude Model.Heartbeat Model.StoreBase Model.PeeweeStore Model.Ingest
  Proofs.HeartbeatProofs Proofs.IngestBase.

Definition pw_inv (c : pwstate) : Prop :=
  NoDup (map pb_key (pw_buckets c)) /\
  NoDup (map pe_id (pw_events c)) /\
  pw_keys c = map (fun r => (pb_id r, pb_key r)) (pw_buckets c).

Definition pw_rd (e : event) : Prop := True.

Definition prows_of (c : pwstate) (k : Z) : list perow :=
  filter (fun e => pe_bucket e =? k) (pw_events c).

Lemma aget_key_cache : forall rows b,
  aget b (map (fun r => (pb_id r, pb_key r)) rows)
  = option_map pb_key (find (fun r => pb_id r =? b) rows).
Proof.
  induction rows as [|r t IH]; intros b; cbn [map aget find fst snd]; [reflexivity|].
  destruct (pb_id r =? b); [reflexivity|apply IH].
Qed.

Lemma pw_view_inv : forall c b m es,
  pw_inv c -> pw_view c b = Some (m, es) ->
  exists r, find (fun r => pb_id r =? b) (pw_buckets c) = Some r /\
            pw_key c b = Some (pb_key r) /\
            m = pb_meta r /\ es = map prow_event (prows_of c (pb_key r)).
Proof.
  intros c b m es (_ & _ & Hc) H. unfold pw_view in H. unfold pw_key. rewrite Hc, aget_key_cache.
  destruct (find (fun r => pb_id r =? b) (pw_buckets c)) as [r|] eqn:E; [|discriminate].
  inversion H; subst. exists r. repeat split.
Qed.

Lemma key_distinct : forall bs b b' r r',
  NoDup (map pb_key bs) ->
  find (fun r => pb_id r =? b) bs = Some r -> find (fun r => pb_id r =? b') bs = Some r' ->
  b' <> b -> pb_key r' <> pb_key r.
Proof.
  intros bs b b' r r' Hn Hr Hr' Hne E. apply find_some in Hr, Hr'.
  destruct Hr as [Hin Hb], Hr' as [Hin' Hb'].
  assert (r' = r) by (eapply NoDup_map_inj; eassumption). subst r'. lia.
Qed.

Lemma prows_sorted : forall rows,
  incr_ts (map prow_event rows) -> StronglySorted (fun a b => pe_ts a < pe_ts b) rows.
Proof.
  intros rows H. unfold incr_ts in H.
  exact (proj1 (SS_map prow_event (fun a b => ts a < ts b) rows) H).
Qed.

Lemma porder_rows : forall rows,
  StronglySorted (fun a b => pe_ts a < pe_ts b) rows -> pw_order_ts_desc rows = rev rows.
Proof.
  intros rows Hs. unfold pw_order_ts_desc. apply sort_desc_of_perm; [exact Hs|apply Permutation_refl].
Qed.

Lemma pmap_snoc_inv : forall {A B} (f : A -> B) l a x,
  map f l = a ++ [x] -> exists l0 y, l = l0 ++ [y] /\ map f l0 = a /\ f y = x.
Proof.
  intros A B f l a x H. destruct (list_snoc_cases l) as [->|(l0 & y & ->)].
  - cbn in H. destruct a; discriminate.
  - rewrite map_app in H. cbn [map] in H. apply app_inj_tail in H. destruct H as [H1 H2].
    exists l0, y. repeat split; assumption.
Qed.

Lemma new_rowid_fresh : forall ids x, In x ids -> x <> new_rowid ids.
Proof.
  intros ids x Hx. destruct ids as [|a t]; [destruct Hx|]. cbn [new_rowid].
  pose proof (list_max_ge t a x Hx). lia.
Qed.

(* the row written by e.save() on the row that was read *)
Definition pupd (i k : Z) (e : event) (r : perow) : perow :=
  if pe_id r =? i then mkPerow (pe_id r) k (ts e) (dur e) (data e) else r.

Lemma pupd_id : forall i k e r, pe_id (pupd i k e r) = pe_id r.
Proof. intros. unfold pupd. destruct (pe_id r =? i); reflexivity. Qed.
Lemma pupd_other : forall i k e r, pe_id r <> i -> pupd i k e r = r.
Proof. intros i k e r H. unfold pupd. destruct (pe_id r =? i) eqn:E; [lia|reflexivity]. Qed.

Lemma pw_read : forall st b m es,
  pw_inv st -> pw_view st b = Some (m, es) -> incr_ts es -> Forall pw_rd es ->
  pw_step st (GetEvents b 1 None None) = (st, Ok (OEvents (firstn 1 (rev es)))).
Proof.
  intros st b m es Hinv Hv Hs _. destruct (pw_view_inv _ _ _ _ Hinv Hv) as (r & Hf & Hk & -> & ->).
  cbn [pw_step]. change (1 =? 0) with false. cbv iota. rewrite Hk. unfold select_where.
  assert (E : filter (fun r0 => (pe_bucket r0 =? pb_key r) && pw_in_range None None r0) (pw_events st)
              = prows_of st (pb_key r)).
  { unfold prows_of. apply (filter_and_same (fun r0 => pe_bucket r0 =? pb_key r)). intros; reflexivity. }
  rewrite E. rewrite porder_rows by (apply prows_sorted; exact Hs).
  unfold sql_limit. change (1 <? 0) with false. cbv iota. change (Z.to_nat 1) with 1%nat.
  rewrite <- map_rev, firstn_map. reflexivity.
Qed.

Lemma pw_replace_last : forall st b m es l i e,
  pw_inv st -> pw_view st b = Some (m, es ++ [l]) -> incr_ts (es ++ [l]) -> ids_ok (es ++ [l]) ->
  eid l = Some i ->
  exists st' o, pw_step st (ReplaceLast b e) = (st', Ok o) /\
                pw_view st' b = Some (m, es ++ [set_eid e (Some i)]) /\
                frame pw_view st st' b /\ pw_inv st'.
Proof.
  intros st b m es l i e Hinv Hv Hs _ Hl. pose proof Hinv as (Hnb & Hne & Hc).
  destruct (pw_view_inv _ _ _ _ Hinv Hv) as (r & Hf & Hk & -> & Hes).
  symmetry in Hes. destruct (pmap_snoc_inv _ _ _ _ Hes) as (rows0 & rl & Hrows & Hes0 & Hrl).
  assert (Hi : pe_id rl = i). { subst l. cbn in Hl. congruence. }
  rewrite <- Hes in Hs. apply prows_sorted in Hs.
  assert (Hlast : pw_select_last st (pb_key r) = Some rl).
  { unfold pw_select_last, select_where.
    change (filter (fun r0 => pe_bucket r0 =? pb_key r) (pw_events st)) with (prows_of st (pb_key r)).
    rewrite porder_rows by exact Hs. rewrite Hrows, rev_app_distr. reflexivity. }
  assert (Hrl_in : In rl (pw_events st) /\ pe_bucket rl = pb_key r).
  { assert (H : In rl (prows_of st (pb_key r))) by (rewrite Hrows; apply in_or_app; right; left; reflexivity).
    apply filter_In in H. destruct H as [H1 H2]. split; [exact H1|lia]. }
  destruct Hrl_in as [Hrl_in Hrl_b].
  assert (Hstep : pw_step st (ReplaceLast b e)
                  = (pw_with_events st (map (pupd i (pb_key r) e) (pw_events st)),
                     Ok (OEvent (Some (set_eid e (Some i)))))).
  { cbn [pw_step]. rewrite Hk, Hlast. unfold pw_save_event, update_where. cbn [pe_id pe_bucket pe_ts pe_dur pe_data].
    rewrite Hi, Hrl_b. reflexivity. }
  assert (Honly : forall x, In x (pw_events st) -> pe_id x = i -> x = rl).
  { intros x Hx Hxi. eapply NoDup_map_inj; [exact Hne|exact Hx|exact Hrl_in|congruence]. }
  assert (Hfilter : forall k, filter (fun e0 => pe_bucket e0 =? k) (map (pupd i (pb_key r) e) (pw_events st))
                              = map (pupd i (pb_key r) e) (prows_of st k)).
  { intros k. unfold prows_of. apply filter_map_comm_in. intros x Hx. unfold pupd.
    destruct (pe_id x =? i) eqn:E; [|reflexivity]. assert (x = rl) by (apply Honly; [exact Hx|lia]). subst x.
    cbn [pe_bucket]. rewrite Hrl_b. reflexivity. }
  eexists _, _. split; [exact Hstep|]. split; [|split].
  - unfold pw_view. cbn [pw_with_events pw_buckets pw_events]. rewrite Hf. rewrite Hfilter, Hrows, map_app.
    cbn [map]. rewrite map_app. cbn [map]. f_equal. f_equal. f_equal.
    + rewrite <- Hes0. f_equal. apply map_id_on. intros x Hx. apply pupd_other. intros Hxi.
      assert (Hxin : In x (pw_events st)).
      { assert (H : In x (prows_of st (pb_key r))) by (rewrite Hrows; apply in_or_app; left; exact Hx).
        apply filter_In in H. tauto. }
      pose proof (Honly x Hxin Hxi) as ->. rewrite Hrows in Hs. apply SS_app in Hs.
      destruct Hs as (_ & _ & Hlt). specialize (Hlt rl rl Hx (or_introl eq_refl)). lia.
    + unfold pupd. rewrite Hi, Z.eqb_refl. reflexivity.
  - intros b' Hb. unfold pw_view. cbn [pw_with_events pw_buckets pw_events].
    destruct (find (fun r0 => pb_id r0 =? b') (pw_buckets st)) as [r'|] eqn:Hf'; [|reflexivity].
    rewrite Hfilter. f_equal. f_equal. f_equal. apply map_id_on. intros x Hx. apply pupd_other. intros Hxi.
    apply filter_In in Hx. destruct Hx as [Hxin Hxb]. pose proof (Honly x Hxin Hxi) as ->.
    eapply (key_distinct _ b b' r r'); try eassumption. lia.
  - unfold pw_inv. cbn [pw_with_events pw_buckets pw_events pw_keys]. split; [exact Hnb|]. split; [|exact Hc].
    assert (Hids : map pe_id (map (pupd i (pb_key r) e) (pw_events st)) = map pe_id (pw_events st)).
    { rewrite map_map. apply map_ext. intros x. apply pupd_id. }
    rewrite Hids. exact Hne.
Qed.

Lemma pw_insert : forall st b m es e,
  pw_inv st -> pw_view st b = Some (m, es) -> eid e = None ->
  exists st' o i, pw_step st (InsertOne b e) = (st', Ok o) /\
                  pw_view st' b = Some (m, es ++ [set_eid e (Some i)]) /\
                  ~ In (Some i) (map eid es) /\ frame pw_view st st' b /\ pw_inv st'.
Proof.
  intros st b m es e Hinv Hv He. pose proof Hinv as (Hnb & Hne & Hc).
  destruct (pw_view_inv _ _ _ _ Hinv Hv) as (r & Hf & Hk & -> & ->).
  set (i := new_rowid (map pe_id (pw_events st))).
  set (row := mkPerow i (pb_key r) (ts e) (dur e) (data e)).
  assert (Hstep : pw_step st (InsertOne b e)
                  = (pw_with_events st (pw_events st ++ [row]), Ok (OEvent (Some (set_eid e (Some i)))))).
  { cbn [pw_step]. rewrite He, Hk. reflexivity. }
  assert (Hfresh : forall x, In x (pw_events st) -> pe_id x <> i).
  { intros x Hx. apply new_rowid_fresh. apply in_map. exact Hx. }
  eexists _, _, i. split; [exact Hstep|]. split; [|split; [|split]].
  - unfold pw_view. cbn [pw_with_events pw_buckets pw_events]. rewrite Hf.
    rewrite filter_app. cbn [filter]. unfold row at 1. cbn [pe_bucket]. rewrite Z.eqb_refl.
    rewrite map_app. reflexivity.
  - intros Hin. rewrite map_map in Hin. apply in_map_iff in Hin. destruct Hin as (x & Hx & Hin).
    cbn in Hx. apply filter_In in Hin. destruct Hin as [Hin _]. apply (Hfresh x Hin). congruence.
  - intros b' Hb. unfold pw_view. cbn [pw_with_events pw_buckets pw_events].
    destruct (find (fun r0 => pb_id r0 =? b') (pw_buckets st)) as [r'|] eqn:Hf'; [|reflexivity].
    rewrite filter_app. cbn [filter]. unfold row at 1. cbn [pe_bucket].
    pose proof (key_distinct _ b b' r r' Hnb Hf Hf' Hb) as Hd.
    destruct (pb_key r =? pb_key r') eqn:E; [lia|]. rewrite app_nil_r. reflexivity.
  - unfold pw_inv. cbn [pw_with_events pw_buckets pw_events pw_keys]. split; [exact Hnb|]. split; [|exact Hc].
    rewrite map_app. cbn [map]. apply NoDup_snoc; [exact Hne|]. intros Hin.
    apply in_map_iff in Hin. destruct Hin as (x & Hx & Hin). apply (Hfresh x Hin). exact Hx.
Qed.

Lemma pw_rd_eid : forall e i, pw_rd e -> pw_rd (set_eid e i).
Proof. intros; exact I. Qed.
Lemma pw_rd_merge : forall l h p m, pw_rd l -> heartbeat_merge l h p = Some m -> pw_rd m.
Proof. intros; exact I. Qed.

Lemma pw_all_no_id_rd : forall stream,
  Forall (fun h => eid h = None) stream -> Forall (fun h => eid h = None /\ pw_rd h) stream.
Proof. intros stream H. eapply Forall_impl; [|exact H]. intros a Ha. split; [exact Ha|exact I]. Qed.

(* ---- the property on the peewee model ---- *)

Lemma pw_ingest_eq_reduce : forall st b p m stream,
  pw_inv st -> pw_view st b = Some (m, []) ->
  Forall (fun h => eid h = None) stream ->
  StronglySorted (fun a c => ts a < ts c) stream ->
  exists st' o es',
    ingest_stream pw_step st b p stream = (st', Ok o) /\
    pw_view st' b = Some (m, es') /\
    map strip_id es' = heartbeat_reduce stream p /\
    (forall b', b' <> b -> pw_view st' b' = pw_view st b') /\ pw_inv st'.
Proof.
  intros st b p m stream Hinv Hv Hid Hs.
  destruct (ingest_eq_reduce pw_step pw_view pw_inv pw_rd pw_rd_eid pw_rd_merge
              pw_read pw_replace_last pw_insert b p m stream st Hinv Hv (pw_all_no_id_rd _ Hid) Hs)
    as (st' & o & es' & H1 & H2 & H3 & H4 & H5 & _).
  exists st', o, es'. tauto.
Qed.

Lemma pw_earlier_untouched : forall st b p m es hb,
  pw_inv st -> pw_view st b = Some (m, es) ->
  StronglySorted (fun a c => ts a < ts c) es ->
  eid hb = None ->
  exists st' o es',
    ingest_step pw_step st b p hb = (st', Ok o) /\ pw_view st' b = Some (m, es') /\
    (forall b', b' <> b -> pw_view st' b' = pw_view st b') /\ pw_inv st' /\
    ((exists x, es' = es ++ [x] /\ ts x = ts hb /\ dur x = dur hb /\ data x = data hb) \/
     (exists old l x, es = old ++ [l] /\ es' = old ++ [x] /\
                      eid x = eid l /\ ts x = ts l /\ data x = data l /\ dur l <= dur x)).
Proof.
  intros st b p m es hb Hinv Hv Hs Hid.
  assert (Hids : ids_ok es).
  { destruct (pw_view_inv _ _ _ _ Hinv Hv) as (r & _ & _ & _ & ->). destruct Hinv as (_ & Hne & _). split.
    - rewrite map_map. cbn [prow_event eid].
      assert (G : forall l, NoDup (map pe_id l) ->
                  NoDup (map (fun x => Some (pe_id x)) (filter (fun e0 => pe_bucket e0 =? pb_key r) l))).
      { induction l as [|a t IH]; intros Hn; [constructor|]. cbn [map] in Hn. inversion Hn as [|? ? Ha Ht]; subst.
        cbn [filter]. destruct (pe_bucket a =? pb_key r); [|apply IH; exact Ht].
        cbn [map]. constructor; [|apply IH; exact Ht].
        intros Hin. apply in_map_iff in Hin. destruct Hin as (x & Hx & Hin). apply filter_In in Hin.
        apply Ha. injection Hx as Hx'. rewrite <- Hx'. apply in_map. tauto. }
      apply G. exact Hne.
    - apply Forall_map. apply Forall_forall. intros x _. cbn. discriminate. }
  destruct (ingest_step_ok pw_step pw_view pw_inv pw_rd pw_read pw_replace_last pw_insert
              st b p hb m es Hinv Hv Hs Hids) as (st' & o & es' & H1 & H2 & H3 & H4 & H5);
    [apply Forall_forall; intros; exact I|exact Hid|].
  exists st', o, es'. split; [exact H1|]. split; [exact H2|]. split; [exact H3|]. split; [exact H4|].
  eapply step_shape_untouched. exact H5.
Qed.
