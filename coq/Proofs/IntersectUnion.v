(* Lemmas about period_union (Model/Intersect.v).  No property statements. *)
From AwVerif Require Import Base.Prelude Model.Timeslot Model.Intersect
  Proofs.IntersectSlot Proofs.IntersectSort Proofs.IntersectProofs.
From Coq Require Import ZifyBool Sorting.Permutation.

(* ---------------------------------------------------------------------------------- *)
(* specification vocabulary                                                            *)

(* sorted by start and separated by strictly positive gaps (consecutive form) *)
Fixpoint gapped (l : list event) : Prop :=
  match l with
  | [] => True
  | a :: t => match t with [] => True | b :: _ => eend a < ts b end /\ gapped t
  end.

(* closed containment of an input interval in an output event *)
Definition inside (e o : event) : Prop := ts o <= ts e /\ eend e <= eend o.

(* ---------------------------------------------------------------------------------- *)
(* the loop, for ALL inputs, is a simple recursion that leaves older merged events alone
   and never raises (Timeslot.union is only called when gap returned None)             *)

Definition merge_event (last_event e : event) : event :=
  replace_event_period last_event
    (mkSlot (Z.min (ts e) (ts last_event)) (Z.max (eend e) (eend last_event))).

Fixpoint umerge (last_event : event) (rest : list event) : list event :=
  match rest with
  | [] => [last_event]
  | e :: rest' =>
      match slot_gap (get_event_period e) (get_event_period last_event) with
      | None => umerge (merge_event last_event e) rest'
      | Some _ => last_event :: umerge e rest'
      end
  end.

Lemma union_loop_umerge : forall rest last_event older,
  union_loop (last_event :: older) rest = Ok (rev older ++ umerge last_event rest).
Proof.
  induction rest as [|e rest' IH]; intros last_event older.
  - cbn [union_loop umerge rev]. reflexivity.
  - cbn [union_loop umerge].
    destruct (slot_gap (get_event_period e) (get_event_period last_event)) as [g|] eqn:Eg.
    + rewrite IH. cbn [rev]. rewrite <- app_assoc. reflexivity.
    + unfold slot_union. rewrite Eg. cbn [bind]. rewrite IH. reflexivity.
Qed.

Definition union_spec (l : list event) : list event :=
  match l with [] => [] | first :: rest => umerge first rest end.

Lemma period_union_unfold : forall empty a b,
  period_union empty a b =
  Ok (map (fun e => set_data e empty) (union_spec (sort_by ts (a ++ b)))).
Proof.
  intros empty a b. unfold period_union, union_spec.
  destruct (sort_by ts (a ++ b)) as [|first rest]; [reflexivity|].
  rewrite union_loop_umerge. reflexivity.
Qed.

(* ---------------------------------------------------------------------------------- *)
(* facts that need sorted, non-negative, ms-aligned inputs                             *)

Record ustate (last_event : event) (rest : list event) : Prop := {
  us_nonneg_last : 0 <= dur last_event;
  us_aligned_last : aligned last_event;
  us_nonneg : Forall (fun e => 0 <= dur e) rest;
  us_aligned : Forall aligned rest;
  us_first : forall e, In e rest -> ts last_event <= ts e;
  us_sorted : ssorted ts rest
}.

Lemma ustate_cons_inv : forall last_event e rest,
  ustate last_event (e :: rest) ->
  0 <= dur last_event /\ aligned last_event /\ 0 <= dur e /\ aligned e /\
  ts last_event <= ts e /\
  Forall (fun e => 0 <= dur e) rest /\ Forall aligned rest /\
  (forall x, In x rest -> ts last_event <= ts x) /\
  (forall x, In x rest -> ts e <= ts x) /\ ssorted ts rest.
Proof.
  intros l e rest [H1 H2 H3 H4 H5 H6].
  pose proof (Forall_inv H3) as Hde. pose proof (Forall_inv_tail H3) as Hdr.
  pose proof (Forall_inv H4) as Hae. pose proof (Forall_inv_tail H4) as Har.
  cbn [ssorted] in H6. destruct H6 as [Hs1 Hs2].
  repeat split; try assumption.
  - apply H5. left. reflexivity.
  - intros x Hx. apply H5. right. exact Hx.
Qed.

Lemma merge_event_facts : forall last_event e,
  0 <= dur last_event -> aligned last_event -> ts last_event <= ts e -> 0 <= dur e ->
  ts (merge_event last_event e) = ts last_event /\
  eend (merge_event last_event e) = Z.max (eend e) (eend last_event) /\
  eid (merge_event last_event e) = eid last_event /\
  0 <= dur (merge_event last_event e) /\ aligned (merge_event last_event e).
Proof.
  intros l e Hd Ha Hle He.
  assert (Ht : ts (merge_event l e) = ts l).
  { unfold merge_event, replace_event_period. cbn [ts tstart].
    rewrite Z.min_r by exact Hle. exact Ha. }
  unfold aligned. rewrite Ht. repeat split; try assumption.
  - unfold eend at 1. rewrite Ht. unfold merge_event, replace_event_period, slot_duration.
    cbn [dur tstart tend]. lia.
  - unfold merge_event, replace_event_period, slot_duration, eend. cbn [dur tstart tend]. lia.
Qed.

Lemma ustate_merge : forall last_event e rest,
  ustate last_event (e :: rest) -> ustate (merge_event last_event e) rest.
Proof.
  intros l e rest St.
  destruct (ustate_cons_inv _ _ _ St) as (H1 & H2 & Hde & Hae & Hle & Hdr & Har & Hl & He & Hs).
  destruct (merge_event_facts l e H1 H2 Hle Hde) as (Ht & _ & _ & Hd & Ha).
  constructor; try assumption.
  intros x Hx. rewrite Ht. apply Hl. exact Hx.
Qed.

Lemma ustate_next : forall last_event e rest,
  ustate last_event (e :: rest) -> ustate e rest.
Proof.
  intros l e rest St.
  destruct (ustate_cons_inv _ _ _ St) as (H1 & H2 & Hde & Hae & Hle & Hdr & Har & Hl & He & Hs).
  constructor; assumption.
Qed.

(* with sorted non-negative inputs the gap test is exactly "last ends before e starts" *)
Lemma ustate_gap : forall last_event e rest,
  ustate last_event (e :: rest) ->
  match slot_gap (get_event_period e) (get_event_period last_event) with
  | Some _ => eend last_event < ts e
  | None => ts e <= eend last_event
  end.
Proof.
  intros l e rest St.
  destruct (ustate_cons_inv _ _ _ St) as (H1 & H2 & Hde & Hae & Hle & _).
  unfold slot_gap, get_event_period, eend. cbn [tstart tend].
  destruct (ts e + dur e <? ts l) eqn:E1; [exfalso; lia|].
  destruct (ts l + dur l <? ts e) eqn:E2; lia.
Qed.

(* the head of the result is the (possibly extended) last event *)
Lemma umerge_head : forall rest last_event,
  ustate last_event rest ->
  exists o tl, umerge last_event rest = o :: tl /\
    ts o = ts last_event /\ eid o = eid last_event /\ eend last_event <= eend o.
Proof.
  induction rest as [|e rest' IH]; intros l St.
  - exists l, []. cbn [umerge]. repeat split; lia.
  - cbn [umerge]. pose proof (ustate_gap _ _ _ St) as Hg.
    destruct (slot_gap (get_event_period e) (get_event_period l)) as [g|].
    + exists l, (umerge e rest'). repeat split; lia.
    + destruct (IH _ (ustate_merge _ _ _ St)) as (o & tl & -> & Ht & Hi & He).
      destruct (ustate_cons_inv _ _ _ St) as (H1 & H2 & Hde & Hae & Hle & _).
      destruct (merge_event_facts l e H1 H2 Hle Hde) as (Ht' & He' & Hi' & _).
      exists o, tl. repeat split; try congruence. lia.
Qed.

Lemma umerge_gapped : forall rest last_event,
  ustate last_event rest -> gapped (umerge last_event rest).
Proof.
  induction rest as [|e rest' IH]; intros l St.
  - cbn [umerge gapped]. tauto.
  - cbn [umerge]. pose proof (ustate_gap _ _ _ St) as Hg.
    destruct (slot_gap (get_event_period e) (get_event_period l)) as [g|].
    + destruct (umerge_head _ _ (ustate_next _ _ _ St)) as (o & tl & Eq & Ht & _ & _).
      pose proof (IH _ (ustate_next _ _ _ St)) as Hgp. rewrite Eq in *.
      cbn [gapped]. split; [lia|exact Hgp].
    + apply IH. apply ustate_merge. exact St.
Qed.

Lemma umerge_nonneg_aligned : forall rest last_event,
  ustate last_event rest ->
  Forall (fun o => 0 <= dur o /\ aligned o) (umerge last_event rest).
Proof.
  induction rest as [|e rest' IH]; intros l St.
  - cbn [umerge]. constructor; [|constructor]. destruct St; tauto.
  - cbn [umerge].
    destruct (slot_gap (get_event_period e) (get_event_period l)) as [g|].
    + constructor; [destruct St; tauto|]. apply IH. eapply ustate_next. exact St.
    + apply IH. apply ustate_merge. exact St.
Qed.

(* point sets: the merged list covers exactly what last_event :: rest covers *)
Lemma covers_cons : forall a l t, covers (a :: l) t <-> (ts a <= t < eend a) \/ covers l t.
Proof.
  intros a l t. unfold covers. split.
  - intros (e & [He|He] & Hc); [subst; left; exact Hc|right; exists e; tauto].
  - intros [Hc|(e & He & Hc)]; [exists a; split; [left; reflexivity|exact Hc]|].
    exists e. split; [right; exact He|exact Hc].
Qed.

Lemma umerge_covers : forall rest last_event t,
  ustate last_event rest ->
  (covers (umerge last_event rest) t <-> covers (last_event :: rest) t).
Proof.
  induction rest as [|e rest' IH]; intros l t St.
  - cbn [umerge]. tauto.
  - cbn [umerge]. pose proof (ustate_gap _ _ _ St) as Hg.
    destruct (slot_gap (get_event_period e) (get_event_period l)) as [g|].
    + rewrite covers_cons, (IH e t (ustate_next _ _ _ St)), (covers_cons l). tauto.
    + rewrite (IH _ t (ustate_merge _ _ _ St)).
      destruct (ustate_cons_inv _ _ _ St) as (H1 & H2 & Hde & Hae & Hle & _).
      destruct (merge_event_facts l e H1 H2 Hle Hde) as (Ht' & He' & _).
      rewrite !covers_cons, Ht', He'. unfold eend in *.
      split; [intros [Hc|Hc]|intros [Hc|[Hc|Hc]]]; try tauto; try (left; lia).
      destruct (Z_lt_le_dec t (ts l + dur l)); [left; lia|right; left; lia].
Qed.

(* closed containment: every input interval, zero-length ones included, lies inside an
   output event *)
Lemma inside_trans : forall a b c, inside a b -> inside b c -> inside a c.
Proof. unfold inside. intros a b c [H1 H2] [H3 H4]. lia. Qed.

Lemma umerge_inputs_inside : forall rest last_event x,
  ustate last_event rest -> In x (last_event :: rest) ->
  exists o, In o (umerge last_event rest) /\ inside x o.
Proof.
  induction rest as [|e rest' IH]; intros l x St Hx.
  - destruct Hx as [Hx|[]]. subst x. exists l. cbn [umerge]. split; [left; reflexivity|unfold inside; lia].
  - cbn [umerge].
    destruct (slot_gap (get_event_period e) (get_event_period l)) as [g|] eqn:Eg.
    + destruct Hx as [Hx|Hx].
      * subst x. exists l. split; [left; reflexivity|unfold inside; lia].
      * destruct (IH e x (ustate_next _ _ _ St) Hx) as (o & Ho & Hi).
        exists o. split; [right; exact Ho|exact Hi].
    + destruct (ustate_cons_inv _ _ _ St) as (H1 & H2 & Hde & Hae & Hle & _).
      destruct (merge_event_facts l e H1 H2 Hle Hde) as (Ht' & He' & _).
      assert (Hm : exists o, In o (umerge (merge_event l e) rest') /\ inside (merge_event l e) o).
      { apply IH; [apply ustate_merge; exact St|left; reflexivity]. }
      destruct Hm as (o & Ho & Hio).
      destruct Hx as [Hx|[Hx|Hx]].
      * subst x. exists o. split; [exact Ho|]. eapply inside_trans; [|exact Hio]. unfold inside. lia.
      * subst x. exists o. split; [exact Ho|]. eapply inside_trans; [|exact Hio]. unfold inside. lia.
      * apply IH; [apply ustate_merge; exact St|right; exact Hx].
Qed.

(* every output starts where some input starts and ends where some input ends (so an
   output of zero length is a zero-length input) *)
Lemma umerge_endpoints : forall rest last_event o,
  ustate last_event rest -> In o (umerge last_event rest) ->
  (exists x, In x (last_event :: rest) /\ ts o = ts x) /\
  (exists y, In y (last_event :: rest) /\ eend o = eend y).
Proof.
  induction rest as [|e rest' IH]; intros l o St Ho.
  - cbn [umerge] in Ho. destruct Ho as [Ho|[]]. subst o. split; exists l; split; try (left; reflexivity); reflexivity.
  - cbn [umerge] in Ho.
    destruct (slot_gap (get_event_period e) (get_event_period l)) as [g|] eqn:Eg.
    + destruct Ho as [Ho|Ho].
      * subst o. split; exists l; split; try (left; reflexivity); reflexivity.
      * destruct (IH e o (ustate_next _ _ _ St) Ho) as [(x & Hx & Hxt) (y & Hy & Hye)].
        split; [exists x|exists y]; (split; [right; assumption|assumption]).
    + destruct (ustate_cons_inv _ _ _ St) as (H1 & H2 & Hde & Hae & Hle & _).
      destruct (merge_event_facts l e H1 H2 Hle Hde) as (Ht' & He' & _).
      destruct (IH _ o (ustate_merge _ _ _ St) Ho) as [(x & Hx & Hxt) (y & Hy & Hye)]. split.
      * destruct Hx as [Hx|Hx].
        -- subst x. exists l. split; [left; reflexivity|congruence].
        -- exists x. split; [right; right; exact Hx|exact Hxt].
      * destruct Hy as [Hy|Hy].
        -- subst y. rewrite He' in Hye. destruct (Z.max_spec (eend e) (eend l)) as [[_ Hm]|[_ Hm]]; rewrite Hm in Hye.
           ++ exists l. split; [left; reflexivity|exact Hye].
           ++ exists e. split; [right; left; reflexivity|exact Hye].
        -- exists y. split; [right; right; exact Hy|exact Hye].
Qed.

(* ---------------------------------------------------------------------------------- *)
(* period_union                                                                        *)

Lemma ustate_of_sorted : forall first rest,
  Forall (fun e => 0 <= dur e) (first :: rest) -> Forall aligned (first :: rest) ->
  ssorted ts (first :: rest) -> ustate first rest.
Proof.
  intros first rest Hn Ha Hs.
  pose proof (Forall_inv Hn). pose proof (Forall_inv_tail Hn).
  pose proof (Forall_inv Ha). pose proof (Forall_inv_tail Ha).
  cbn [ssorted] in Hs. destruct Hs as [Hs1 Hs2]. constructor; assumption.
Qed.

Lemma gapped_map_data : forall x l, gapped l -> gapped (map (fun e => set_data e x) l).
Proof.
  intros x l. induction l as [|a t IH]; intros H; [exact I|].
  cbn [gapped] in H. destruct H as [H1 H2]. cbn [map gapped]. split; [|apply IH; exact H2].
  destruct t as [|b t']; [exact I|]. cbn [map]. unfold eend, set_data in *. cbn [ts dur]. exact H1.
Qed.

Lemma covers_map_data : forall x l t, covers (map (fun e => set_data e x) l) t <-> covers l t.
Proof.
  intros x l t. unfold covers. split.
  - intros (o & Ho & Hc). apply in_map_iff in Ho. destruct Ho as (e & <- & He).
    exists e. split; [exact He|exact Hc].
  - intros (e & He & Hc). exists (set_data e x). split; [apply (in_map (fun e => set_data e x)); exact He|exact Hc].
Qed.

Lemma covers_perm : forall l l' t, (forall e, In e l <-> In e l') -> (covers l t <-> covers l' t).
Proof.
  intros l l' t H. unfold covers. split; intros (e & He & Hc); exists e; (split; [apply H; exact He|exact Hc]).
Qed.

Section Union.
  Variables (empty : Z) (a b : list event).
  Hypothesis Hnonneg : Forall (fun e => 0 <= dur e) (a ++ b).
  Hypothesis Haligned : Forall aligned (a ++ b).

  Let S := sort_by ts (a ++ b).

  Lemma union_state : match S with [] => True | first :: rest => ustate first rest end.
  Proof.
    pose proof (sort_by_ssorted ts (a ++ b)) as Hs.
    pose proof (sort_by_forall ts _ _ Hnonneg) as Hn.
    pose proof (sort_by_forall ts _ _ Haligned) as Ha.
    fold S in Hs, Hn, Ha. destruct S as [|first rest]; [exact I|].
    apply ustate_of_sorted; assumption.
  Qed.

  Lemma pu_gapped : forall out, period_union empty a b = Ok out -> gapped out.
  Proof.
    intros out H. rewrite period_union_unfold in H. inversion H; subst. clear H.
    apply gapped_map_data. pose proof union_state as St. fold S. unfold union_spec.
    destruct S as [|first rest]; [exact I|]. apply umerge_gapped. exact St.
  Qed.

  Lemma pu_dataless : forall out o, period_union empty a b = Ok out -> In o out -> data o = empty.
  Proof.
    intros out o H Ho. rewrite period_union_unfold in H. inversion H; subst.
    apply in_map_iff in Ho. destruct Ho as (e & <- & _). reflexivity.
  Qed.

  Lemma pu_nonneg : forall out o, period_union empty a b = Ok out -> In o out -> 0 <= dur o /\ aligned o.
  Proof.
    intros out o H Ho. rewrite period_union_unfold in H. inversion H; subst. clear H.
    apply in_map_iff in Ho. destruct Ho as (e & <- & He).
    pose proof union_state as St. fold S in He. unfold union_spec in He.
    destruct S as [|first rest]; [destruct He|].
    pose proof (umerge_nonneg_aligned _ _ St) as Hf. rewrite Forall_forall in Hf.
    exact (Hf e He).
  Qed.

  Lemma pu_covers : forall out t, period_union empty a b = Ok out -> (covers out t <-> covers (a ++ b) t).
  Proof.
    intros out t H. rewrite period_union_unfold in H. inversion H; subst. clear H.
    rewrite covers_map_data.
    rewrite <- (covers_perm S (a ++ b) t) by (intros e; apply sort_by_in).
    pose proof union_state as St. fold S. unfold union_spec.
    destruct S as [|first rest]; [tauto|]. apply umerge_covers. exact St.
  Qed.

  Lemma pu_inputs_inside : forall out x, period_union empty a b = Ok out -> In x (a ++ b) ->
    exists o, In o out /\ inside x o.
  Proof.
    intros out x H Hx. rewrite period_union_unfold in H. inversion H; subst. clear H.
    apply (sort_by_in ts) in Hx. fold S in Hx. fold S.
    pose proof union_state as St. unfold union_spec.
    destruct S as [|first rest]; [destruct Hx|].
    destruct (umerge_inputs_inside _ _ x St Hx) as (o & Ho & Hi).
    exists (set_data o empty). split; [apply (in_map (fun e => set_data e empty)); exact Ho|exact Hi].
  Qed.

  Lemma pu_endpoints : forall out o, period_union empty a b = Ok out -> In o out ->
    (exists x, In x (a ++ b) /\ ts o = ts x) /\ (exists y, In y (a ++ b) /\ eend o = eend y).
  Proof.
    intros out o H Ho. rewrite period_union_unfold in H. inversion H; subst. clear H.
    apply in_map_iff in Ho. destruct Ho as (m & <- & Hm). fold S in Hm.
    pose proof union_state as St. unfold union_spec in Hm.
    destruct S as [|first rest] eqn:ES; [destruct Hm|].
    destruct (umerge_endpoints _ _ m St Hm) as [(x & Hx & Hxt) (y & Hy & Hye)].
    assert (Hin : forall z, In z (first :: rest) -> In z (a ++ b)).
    { intros z Hz. apply (sort_by_in ts). fold S. rewrite ES. exact Hz. }
    split; [exists x|exists y]; (split; [apply Hin; assumption|assumption]).
  Qed.
End Union.

(* never raises, for all inputs (no hypothesis at all) *)
Lemma pu_total : forall empty a b, exists out, period_union empty a b = Ok out.
Proof. intros. rewrite period_union_unfold. eexists; reflexivity. Qed.
