(* The millisecond floor by exhaustive kernel evaluation: for every microsecond field
   0 <= us < 10^6 the float computation int(us / 1000) equals us // 1000.  The kernel's vm
   evaluates the boolean check on all 10^6 values (ten chunks of 10^5; [vm_cast_no_check]
   leaves the evaluation to Qed, so each chunk is evaluated once) and [check_upto_spec]
   lifts the result to the quantified statement.  No axiom: Print Assumptions lists only
   the kernel's primitive float / int63 operations.

   This is a second, independent proof of Proofs/PyFloatFinite.int_div_1000_exact (which
   goes through Flocq).  It is compiled by coqc on every build but is deliberately not a
   dependency of any Props file: coqchk has no vm and needs hours for these casts. *)
From Coq Require Import ZArith Bool List Lia PrimFloat.
From AwVerif Require Import Base.Prelude Model.PyFloat Proofs.PyFloatFinite.
Open Scope Z_scope.

Definition ok_us (us : Z) : bool :=
  res_Z_is (bind (fdiv_int_int us 1000) int_of_float) (us / 1000).

Definition chunk : nat := Z.to_nat 100000.

Lemma ok_chunk_0 : check_upto ok_us chunk 0 = true.
Proof. vm_cast_no_check (eq_refl true). Qed.
Lemma ok_chunk_1 : check_upto ok_us chunk 100000 = true.
Proof. vm_cast_no_check (eq_refl true). Qed.
Lemma ok_chunk_2 : check_upto ok_us chunk 200000 = true.
Proof. vm_cast_no_check (eq_refl true). Qed.
Lemma ok_chunk_3 : check_upto ok_us chunk 300000 = true.
Proof. vm_cast_no_check (eq_refl true). Qed.
Lemma ok_chunk_4 : check_upto ok_us chunk 400000 = true.
Proof. vm_cast_no_check (eq_refl true). Qed.
Lemma ok_chunk_5 : check_upto ok_us chunk 500000 = true.
Proof. vm_cast_no_check (eq_refl true). Qed.
Lemma ok_chunk_6 : check_upto ok_us chunk 600000 = true.
Proof. vm_cast_no_check (eq_refl true). Qed.
Lemma ok_chunk_7 : check_upto ok_us chunk 700000 = true.
Proof. vm_cast_no_check (eq_refl true). Qed.
Lemma ok_chunk_8 : check_upto ok_us chunk 800000 = true.
Proof. vm_cast_no_check (eq_refl true). Qed.
Lemma ok_chunk_9 : check_upto ok_us chunk 900000 = true.
Proof. vm_cast_no_check (eq_refl true). Qed.

Lemma ok_us_all : forall us, 0 <= us < 1000000 -> ok_us us = true.
Proof.
  intros us H.
  assert (Hc : Z.of_nat chunk = 100000) by (unfold chunk; rewrite Z2Nat.id; lia).
  destruct (Z_lt_le_dec us 100000); [apply (check_upto_spec _ _ _ ok_chunk_0); lia|].
  destruct (Z_lt_le_dec us 200000); [apply (check_upto_spec _ _ _ ok_chunk_1); lia|].
  destruct (Z_lt_le_dec us 300000); [apply (check_upto_spec _ _ _ ok_chunk_2); lia|].
  destruct (Z_lt_le_dec us 400000); [apply (check_upto_spec _ _ _ ok_chunk_3); lia|].
  destruct (Z_lt_le_dec us 500000); [apply (check_upto_spec _ _ _ ok_chunk_4); lia|].
  destruct (Z_lt_le_dec us 600000); [apply (check_upto_spec _ _ _ ok_chunk_5); lia|].
  destruct (Z_lt_le_dec us 700000); [apply (check_upto_spec _ _ _ ok_chunk_6); lia|].
  destruct (Z_lt_le_dec us 800000); [apply (check_upto_spec _ _ _ ok_chunk_7); lia|].
  destruct (Z_lt_le_dec us 900000); [apply (check_upto_spec _ _ _ ok_chunk_8); lia|].
  apply (check_upto_spec _ _ _ ok_chunk_9); lia.
Qed.

Theorem int_div_1000_exhaustive : forall us, 0 <= us < 1000000 ->
  bind (fdiv_int_int us 1000) int_of_float = Ok (us / 1000).
Proof. intros us H. apply res_Z_is_eq. exact (ok_us_all us H). Qed.
Print Assumptions int_div_1000_exhaustive.
