(* C05 — the lifecycle theorems at the level of the Datastore / Bucket classes
   (Model/Datastore.v), for any back end that provides store_ok, hence for the three. *)
From AwVerif Require Import Base.Prelude Model.StoreBase Model.MemStore Model.SqliteStore
  Model.PeeweeStore Model.Datastore
  Proofs.LifecycleBase Proofs.LifecycleMem Proofs.LifecycleSqlite Proofs.LifecyclePeewee.
From Coq Require Import ZifyBool.

(* ---------------------------------------------------------------------- *)
(* vocabulary *)

Definition is_backend (B : backend) : Prop := B = memB \/ B = sqB \/ B = pwB.

Lemma backend_ok : forall B, is_backend B -> store_ok B.
Proof. intros B [->|[->| ->]]; [apply mem_ok|apply sq_ok|apply pw_ok]. Qed.

Definition ds_state (B : backend) : Type := dstate (b_state B).
Definition ds_start (B : backend) : ds_state B := ds_init (b_init B).
Definition ds_do (B : backend) (d : ds_state B) (o : dsop) : ds_state B * res dsout := ds_step (b_step B) d o.
Definition ds_after (B : backend) (d : ds_state B) (h : list dsop) : ds_state B := ds_run (b_step B) d h.
Definition ds_map (B : backend) (d : ds_state B) : kmap := b_map B (ds_store d).
Definition ds_view (B : backend) (d : ds_state B) (b : Z) : option (meta * list event) := b_view B (ds_store d) b.
(* what ds.buckets() returns *)
Definition ds_listing (B : backend) (d : ds_state B) : list (Z * meta) := listing_of (ds_map B d).

(* the invariant of the states the Datastore API reaches: the storage invariant, and every
   cached handle names an existing bucket *)
Record ds_inv (B : backend) (d : ds_state B) : Prop := mkDsInv {
  di_store : b_inv B (ds_store d);
  di_cache : forall b n, aget b (ds_cache d) = Some n -> aget b (ds_map B d) <> None }.

(* calls that keep the cache coherent: everything except deleting a bucket behind the
   Datastore's back *)
Definition cache_safe (o : dsop) : Prop :=
  match o with DsRaw (DeleteBucket _) => False | _ => True end.

(* ---------------------------------------------------------------------- *)
(* the reference keyed map of the listing *)

Definition rmap := list (Z * meta).

Definition ref_store_step (r : rmap) (o : op) : rmap :=
  match o with
  | CreateBucket b m => r ++ [(b, m)]
  | UpdateBucket b ty cl ho na da =>
      match aget b r with
      | Some m => aset b (updated_meta ty cl ho na da m) r
      | None => r
      end
  | DeleteBucket b => adel b r
  | _ => r
  end.

(* the storage call behind a Datastore call, as far as the stored state goes
   (__getitem__ issues at most a buckets(), Bucket methods issue hop_op) *)
Definition store_op (o : dsop) : op :=
  match o with
  | DsCreate b m => CreateBucket b m
  | DsUpdate b ty cl ho na da => UpdateBucket b ty cl ho na da
  | DsDelete b => DeleteBucket b
  | DsBuckets | DsGetItem _ => Buckets
  | DsVia h o => hop_op (h_bucket h) o
  | DsRaw o => o
  end.

Definition ref_step (r : rmap) (o : dsop) : rmap := ref_store_step r (store_op o).
Definition ref_run (r : rmap) (h : list dsop) : rmap := fold_left ref_step h r.

(* the property's quantifier: an id is created only while absent; updates carry non-empty values *)
Definition admissible (r : rmap) (o : dsop) : Prop :=
  match store_op o with
  | CreateBucket b _ => aget b r = None
  | UpdateBucket _ ty cl ho na da => nonempty ty /\ nonempty cl /\ nonempty ho /\ nonempty na /\ nonempty da
  | _ => True
  end.

Fixpoint admissible_history (r : rmap) (h : list dsop) : Prop :=
  match h with
  | [] => True
  | o :: t => admissible r o /\ admissible_history (ref_step r o) t
  end.

(* same ids in the same order, each listed with the metadata it was given *)
Definition agrees (r : rmap) (l : list (Z * meta)) : Prop :=
  Forall2 (fun g a => fst g = fst a /\ stored_as (snd g) (snd a)) r l.

(* ---------------------------------------------------------------------- *)
(* facts about `agrees` *)

Lemma agrees_aget : forall r l b, agrees r l ->
  match aget b r, aget b l with
  | Some g, Some a => stored_as g a
  | None, None => True
  | _, _ => False
  end.
Proof.
  induction 1 as [|[k g] [k' a] r l [Hk Hs] _ IH]; cbn; [exact I|].
  cbn in Hk. subst k'. destruct (k =? b); assumption.
Qed.

Lemma agrees_app : forall r l b g a, agrees r l -> stored_as g a -> agrees (r ++ [(b, g)]) (l ++ [(b, a)]).
Proof.
  intros. apply Forall2_app; [assumption|]. constructor; [|constructor]. cbn. auto.
Qed.

Lemma agrees_aset : forall r l b g a, agrees r l -> stored_as g a ->
  aget b r <> None -> agrees (aset b g r) (aset b a l).
Proof.
  induction 1 as [|[k g0] [k' a0] r l [Hk Hs] Hrest IH]; cbn; intros Hga Hp; [congruence|].
  cbn in Hk. subst k'. destruct (k =? b) eqn:E.
  - constructor; [cbn; auto|assumption].
  - constructor; [cbn; auto|]. apply IH; assumption.
Qed.

Lemma agrees_adel : forall r l b, agrees r l -> agrees (adel b r) (adel b l).
Proof.
  induction 1 as [|[k g0] [k' a0] r l [Hk Hs] Hrest IH]; cbn; [constructor|].
  cbn in Hk. subst k'. destruct (k =? b); cbn; [assumption|].
  constructor; [cbn; auto|assumption].
Qed.

Lemma stored_as_updated : forall ty cl ho na da g a,
  stored_as g a -> stored_as (updated_meta ty cl ho na da g) (updated_meta ty cl ho na da a).
Proof.
  intros ty cl ho na da g a (H1 & H2 & H3 & H4 & H5 & H6). unfold stored_as, updated_meta. cbn.
  rewrite H1, H2, H3, H4, H5. repeat split. destruct na as [v|]; auto.
Qed.

(* ---------------------------------------------------------------------- *)

Section Generic.
  Context (B : backend) (OK : store_ok B).
  Notation step := (b_step B).
  Implicit Types d : ds_state B.

  Lemma ds_eta : forall d, mkDs (ds_store d) (ds_cache d) (ds_next d) = d.
  Proof. intros []; reflexivity. Qed.

  Lemma with_store_same : forall d, with_store d (ds_store d) = d.
  Proof. intros []; reflexivity. Qed.

  Lemma view_is_map : forall d b, ds_view B d b = aget b (ds_map B d).
  Proof. intros. apply (ok_view B OK). Qed.

  (* ---- __getitem__ ---- *)

  Lemma getitem_cached : forall d b n, aget b (ds_cache d) = Some n ->
    ds_getitem step d b = (d, Ok (DHandle (mkHandle n b))).
  Proof. intros d b n H. unfold ds_getitem. rewrite H. reflexivity. Qed.

  Lemma getitem_uncached : forall d b, aget b (ds_cache d) = None ->
    ds_getitem step d b =
    match aget b (ds_map B d) with
    | Some _ => (mkDs (ds_store d) (aset b (ds_next d) (ds_cache d)) (ds_next d + 1),
                 Ok (DHandle (mkHandle (ds_next d) b)))
    | None => (d, Err KeyError)
    end.
  Proof.
    intros d b H. unfold ds_getitem. rewrite H, (ok_buckets B OK). unfold ds_map.
    rewrite listed_iff. destruct (aget b (b_map B (ds_store d))); [reflexivity|].
    rewrite with_store_same. reflexivity.
  Qed.

  Lemma getitem_store : forall d b, ds_store (fst (ds_getitem step d b)) = ds_store d.
  Proof.
    intros d b. destruct (aget b (ds_cache d)) as [n|] eqn:E.
    - rewrite (getitem_cached d b n E). reflexivity.
    - rewrite (getitem_uncached d b E). destruct (aget b (ds_map B d)); reflexivity.
  Qed.

  Lemma getitem_inv : forall d b, ds_inv B d -> ds_inv B (fst (ds_getitem step d b)).
  Proof.
    intros d b Hi. destruct (aget b (ds_cache d)) as [n|] eqn:E.
    - rewrite (getitem_cached d b n E). exact Hi.
    - rewrite (getitem_uncached d b E). destruct (aget b (ds_map B d)) eqn:Em; [|exact Hi].
      destruct Hi as [Hs Hc]. constructor; cbn; [exact Hs|].
      intros b0 n0. destruct (Z.eq_dec b0 b) as [->|Hne].
      + intros _. unfold ds_map in *. cbn. congruence.
      + rewrite aget_aset_other by assumption. apply Hc.
  Qed.

  Lemma uncached_when_missing : forall d b, ds_inv B d -> aget b (ds_map B d) = None ->
    aget b (ds_cache d) = None.
  Proof.
    intros d b [_ Hc] Hm. destruct (aget b (ds_cache d)) as [n|] eqn:E; [|reflexivity].
    exfalso. exact (Hc b n E Hm).
  Qed.

  (* ---- the stored state after a Datastore call is the stored state after the storage call ---- *)

  Lemma ds_call_store : forall d o, ds_store (fst (ds_call step d o)) = fst (step (ds_store d) o).
  Proof. intros d o. unfold ds_call. destruct (step (ds_store d) o). reflexivity. Qed.

  Lemma ds_step_store : forall d o,
    ds_store (fst (ds_step step d o)) = fst (step (ds_store d) (store_op o)).
  Proof.
    intros d o. destruct o; cbn [ds_step store_op]; try apply ds_call_store.
    - destruct (step (ds_store d) (CreateBucket b m)) as [s' [x|k|]]; cbn; try reflexivity.
      rewrite getitem_store. reflexivity.
    - rewrite ds_call_store. reflexivity.
    - rewrite getitem_store, (ok_buckets B OK). reflexivity.
  Qed.

  (* ---- create ---- *)

  Lemma ds_create : forall d b m, ds_inv B d -> aget b (ds_map B d) = None ->
    exists d' m',
      ds_do B d (DsCreate b m) = (d', Ok (DHandle (mkHandle (ds_next d) b))) /\
      stored_as m m' /\
      ds_map B d' = ds_map B d ++ [(b, (m', []))] /\
      ds_cache d' = aset b (ds_next d) (ds_cache d) /\
      ds_inv B d'.
  Proof.
    intros d b m Hi Habs. pose proof (uncached_when_missing d b Hi Habs) as Hunc.
    destruct (ok_create B OK (ds_store d) b m (di_store _ _ Hi) Habs) as (c' & o & m' & Hs & Hst & Hm).
    unfold ds_do. cbn [ds_step]. rewrite Hs.
    assert (Hunc' : aget b (ds_cache (with_store d c')) = None) by exact Hunc.
    rewrite (getitem_uncached _ b Hunc'). unfold ds_map at 1. cbn [ds_store with_store].
    rewrite Hm, aget_app. fold (ds_map B d). rewrite Habs. cbn. rewrite Z.eqb_refl.
    eexists _, m'. split; [reflexivity|]. split; [assumption|]. split; [exact Hm|]. split; [reflexivity|].
    constructor; cbn.
    - pose proof (ok_inv_step B OK (ds_store d) (CreateBucket b m) (di_store _ _ Hi)) as H.
      rewrite Hs in H. exact H.
    - intros b0 n0. unfold ds_map. cbn. rewrite Hm. destruct (Z.eq_dec b0 b) as [->|Hne].
      + intros _. rewrite aget_app. fold (ds_map B d). rewrite Habs. cbn. rewrite Z.eqb_refl. discriminate.
      + rewrite aget_aset_other by assumption. intros H. apply aget_app_stays.
        exact (di_cache _ _ Hi b0 n0 H).
  Qed.

  (* ---- update ---- *)

  Lemma ds_update : forall d b ty cl ho na da m es, ds_inv B d -> aget b (ds_map B d) = Some (m, es) ->
    nonempty ty -> nonempty cl -> nonempty ho -> nonempty na -> nonempty da ->
    exists d' r,
      ds_do B d (DsUpdate b ty cl ho na da) = (d', r) /\
      ((exists o, r = Ok (DOut o)) \/
       (r = Err ValueError /\ ty = None /\ cl = None /\ ho = None /\ na = None /\ da = None)) /\
      ds_map B d' = aset b (updated_meta ty cl ho na da m, es) (ds_map B d) /\
      ds_cache d' = ds_cache d /\ ds_inv B d'.
  Proof.
    intros d b ty cl ho na da m es Hi Hget Hty Hcl Hho Hna Hda.
    destruct (ok_update B OK (ds_store d) b ty cl ho na da m es (di_store _ _ Hi) Hget Hty Hcl Hho Hna Hda)
      as (c' & r & Hs & Hr & Hm).
    unfold ds_do. cbn [ds_step]. unfold ds_call. rewrite Hs.
    eexists _, _. split; [reflexivity|]. split.
    { destruct Hr as [[o ->]|(-> & Hnone)]; [left; eexists; reflexivity|right; auto]. }
    split; [exact Hm|]. split; [reflexivity|].
    constructor; cbn.
    - pose proof (ok_inv_step B OK (ds_store d) (UpdateBucket b ty cl ho na da) (di_store _ _ Hi)) as H.
      rewrite Hs in H. exact H.
    - intros b0 n0 H. unfold ds_map. cbn. rewrite Hm. apply aget_aset_stays.
      exact (di_cache _ _ Hi b0 n0 H).
  Qed.

  (* ---- delete ---- *)

  Lemma ds_delete : forall d b v, ds_inv B d -> aget b (ds_map B d) = Some v ->
    exists d' o,
      ds_do B d (DsDelete b) = (d', Ok (DOut o)) /\
      ds_map B d' = adel b (ds_map B d) /\
      ds_cache d' = adel b (ds_cache d) /\ ds_inv B d'.
  Proof.
    intros d b v Hi Hget.
    destruct (ok_delete B OK (ds_store d) b v (di_store _ _ Hi) Hget) as (c' & o & Hs & Hm).
    unfold ds_do. cbn [ds_step]. unfold ds_call. cbn [ds_store]. rewrite Hs.
    eexists _, _. split; [reflexivity|]. split; [exact Hm|]. split; [reflexivity|].
    constructor; cbn.
    - pose proof (ok_inv_step B OK (ds_store d) (DeleteBucket b) (di_store _ _ Hi)) as H.
      rewrite Hs in H. exact H.
    - intros b0 n0. unfold ds_map. cbn. rewrite Hm. destruct (Z.eq_dec b0 b) as [->|Hne].
      + rewrite aget_adel_same. discriminate.
      + rewrite !aget_adel_other by assumption. exact (di_cache _ _ Hi b0 n0).
  Qed.

  (* ---- describe / look up an existing bucket ---- *)

  Lemma ds_metadata : forall d h m es, ds_inv B d -> aget (h_bucket h) (ds_map B d) = Some (m, es) ->
    ds_do B d (DsVia h HMetadata) = (d, Ok (DOut (OMeta (h_bucket h) m))).
  Proof.
    intros d h m es Hi Hget. unfold ds_do. cbn [ds_step hop_op]. unfold ds_call.
    rewrite (ok_metadata B OK (ds_store d) (h_bucket h) m es (di_store _ _ Hi) Hget).
    rewrite with_store_same. reflexivity.
  Qed.

  Lemma ds_lookup : forall d b v, ds_inv B d -> aget b (ds_map B d) = Some v ->
    exists d' n,
      ds_do B d (DsGetItem b) = (d', Ok (DHandle (mkHandle n b))) /\
      ds_store d' = ds_store d /\ aget b (ds_cache d') = Some n /\
      (forall k, aget b (ds_cache d) = Some k -> d' = d /\ n = k) /\
      ds_inv B d'.
  Proof.
    intros d b v Hi Hget. unfold ds_do. cbn [ds_step].
    pose proof (getitem_inv d b Hi) as Hinv.
    destruct (aget b (ds_cache d)) as [n|] eqn:E.
    - rewrite (getitem_cached d b n E) in *. exists d, n.
      split; [reflexivity|]. split; [reflexivity|]. split; [exact E|]. split; [|exact Hi].
      intros k Hk. split; [reflexivity|congruence].
    - rewrite (getitem_uncached d b E) in *. rewrite Hget in *. eexists _, _.
      split; [reflexivity|]. split; [reflexivity|]. split; [cbn; apply aget_aset_same|].
      split; [intros k Hk; discriminate|exact Hinv].
  Qed.

  (* ---- a bucket that does not exist ---- *)

  Lemma ds_missing : forall d b, ds_inv B d -> aget b (ds_map B d) = None ->
    ds_do B d (DsGetItem b) = (d, Err KeyError) /\
    (forall h, h_bucket h = b -> ds_do B d (DsVia h HMetadata) = (d, Err ValueError)) /\
    (forall ty cl ho na da, ds_do B d (DsUpdate b ty cl ho na da) = (d, Err ValueError)) /\
    ds_do B d (DsDelete b) = (d, Err ValueError).
  Proof.
    intros d b Hi Habs. pose proof (uncached_when_missing d b Hi Habs) as Hunc.
    pose proof (di_store _ _ Hi) as Hs. unfold ds_do. repeat split.
    - cbn [ds_step]. rewrite (getitem_uncached d b Hunc), Habs. reflexivity.
    - intros h <-. cbn [ds_step hop_op]. unfold ds_call.
      rewrite (ok_missing_metadata B OK _ _ Hs Habs), with_store_same. reflexivity.
    - intros. cbn [ds_step]. unfold ds_call.
      rewrite (ok_missing_update B OK _ _ ty cl ho na da Hs Habs), with_store_same. reflexivity.
    - cbn [ds_step]. unfold ds_call. cbn [ds_store].
      rewrite (ok_missing_delete B OK _ _ Hs Habs). cbn.
      rewrite (adel_absent _ _ Hunc). unfold with_store. cbn. rewrite ds_eta. reflexivity.
  Qed.

  (* ---- the invariant along histories ---- *)

  Lemma ds_call_inv : forall d o, ds_inv B d ->
    match o with DeleteBucket _ => False | _ => True end ->
    ds_inv B (fst (ds_call step d o)).
  Proof.
    intros d o Hi Ho. constructor.
    - rewrite ds_call_store. apply (ok_inv_step B OK). exact (di_store _ _ Hi).
    - intros b0 n0. unfold ds_map. rewrite ds_call_store.
      assert (Hc : ds_cache (fst (ds_call step d o)) = ds_cache d).
      { unfold ds_call. destruct (step (ds_store d) o). reflexivity. }
      rewrite Hc. intros H. apply (ok_keys_stay B OK); [exact (di_store _ _ Hi)|exact Ho|].
      exact (di_cache _ _ Hi b0 n0 H).
  Qed.

  Lemma hop_op_not_delete : forall b o, match hop_op b o with DeleteBucket _ => False | _ => True end.
  Proof. intros b []; exact I. Qed.

  Lemma ds_step_inv : forall d o, ds_inv B d -> cache_safe o -> ds_inv B (fst (ds_do B d o)).
  Proof.
    intros d o Hi Hsafe. unfold ds_do. destruct o as [b m|b ty cl ho na da|b| |b|h o|o]; cbn [ds_step].
    - (* create, existing id or not *)
      pose proof (ds_call_inv d (CreateBucket b m) Hi I) as H. unfold ds_call in H.
      destruct (step (ds_store d) (CreateBucket b m)) as [s' [x|k|]]; cbn in H; try exact H.
      apply getitem_inv. exact H.
    - apply ds_call_inv; [exact Hi|exact I].
    - (* delete, existing id or not *)
      destruct (aget b (ds_map B d)) as [v|] eqn:E.
      + destruct (ds_delete d b v Hi E) as (d' & o & Hs & _ & _ & Hi').
        unfold ds_do in Hs. cbn [ds_step] in Hs. rewrite Hs. exact Hi'.
      + destruct (ds_missing d b Hi E) as (_ & _ & _ & Hs).
        unfold ds_do in Hs. cbn [ds_step] in Hs. rewrite Hs. exact Hi.
    - apply ds_call_inv; [exact Hi|exact I].
    - apply getitem_inv. exact Hi.
    - apply ds_call_inv; [exact Hi|apply hop_op_not_delete].
    - apply ds_call_inv; [exact Hi|]. destruct o; try exact I. exact Hsafe.
  Qed.

  Lemma ds_run_inv : forall h d, ds_inv B d -> Forall cache_safe h -> ds_inv B (ds_after B d h).
  Proof.
    unfold ds_after. induction h as [|o t IH]; intros d Hi Hs; cbn; [exact Hi|].
    inversion Hs; subst. apply IH; [|assumption]. apply ds_step_inv; assumption.
  Qed.

  Lemma ds_start_inv : ds_inv B (ds_start B).
  Proof.
    constructor; cbn; [apply (ok_init_inv B OK)|]. intros b n H. discriminate.
  Qed.

  (* the storage invariant alone survives every call, raw deletes included *)
  Lemma ds_run_store_inv : forall h d, b_inv B (ds_store d) -> b_inv B (ds_store (ds_after B d h)).
  Proof.
    unfold ds_after. induction h as [|o t IH]; intros d Hi; cbn; [exact Hi|].
    apply IH. rewrite ds_step_store. apply (ok_inv_step B OK). exact Hi.
  Qed.

  (* ---- re-creation ---- *)

  Lemma ds_recreate_empty : forall d b v m h, ds_inv B d -> aget b (ds_map B d) = Some v ->
    Forall cache_safe h ->
    let d1 := fst (ds_do B d (DsDelete b)) in
    let d2 := ds_after B d1 h in
    aget b (ds_map B d2) = None ->
    exists d3 m',
      ds_do B d2 (DsCreate b m) = (d3, Ok (DHandle (mkHandle (ds_next d2) b))) /\
      stored_as m m' /\ aget b (ds_map B d3) = Some (m', []).
  Proof.
    intros d b v m h Hi Hget Hsafe d1 d2 Habs.
    assert (Hi1 : ds_inv B d1).
    { destruct (ds_delete d b v Hi Hget) as (d' & o & Hs & _ & _ & Hi'). unfold d1. rewrite Hs. exact Hi'. }
    assert (Hi2 : ds_inv B d2) by (apply ds_run_inv; assumption).
    destruct (ds_create d2 b m Hi2 Habs) as (d3 & m' & Hs & Hst & Hm & _ & _).
    exists d3, m'. split; [exact Hs|]. split; [exact Hst|].
    rewrite Hm, aget_app, Habs. cbn. rewrite Z.eqb_refl. reflexivity.
  Qed.

  (* ---- the listing refines the reference keyed map ---- *)

  Lemma store_step_agrees : forall c r o,
    b_inv B c -> agrees r (listing_of (b_map B c)) ->
    match o with
    | CreateBucket b _ => aget b r = None
    | UpdateBucket _ ty cl ho na da => nonempty ty /\ nonempty cl /\ nonempty ho /\ nonempty na /\ nonempty da
    | _ => True
    end ->
    agrees (ref_store_step r o) (listing_of (b_map B (fst (step c o)))).
  Proof.
    intros c r o Hi Hag Hadm.
    destruct (lifecycle_write o) eqn:Hw.
    - destruct o as [b m|b ty cl ho na da|b| | | | | | | | | | ]; cbn in Hw; try discriminate; cbn [ref_store_step].
      + (* create *)
        pose proof (agrees_aget r _ b Hag) as Hb. rewrite Hadm, aget_listing in Hb.
        destruct (aget b (b_map B c)) eqn:E; [cbn in Hb; contradiction|].
        destruct (ok_create B OK c b m Hi E) as (c' & x & m' & Hs & Hst & Hm).
        rewrite Hs. cbn. rewrite Hm, listing_of_app. cbn. apply agrees_app; assumption.
      + (* update *)
        destruct Hadm as (Hty & Hcl & Hho & Hna & Hda).
        pose proof (agrees_aget r _ b Hag) as Hb. rewrite aget_listing in Hb.
        destruct (aget b r) as [g|] eqn:Er; destruct (aget b (b_map B c)) as [[a es]|] eqn:E;
          cbn in Hb; try contradiction.
        * destruct (ok_update B OK c b ty cl ho na da a es Hi E Hty Hcl Hho Hna Hda) as (c' & x & Hs & _ & Hm).
          rewrite Hs. cbn. rewrite Hm. erewrite listing_aset by eassumption.
          apply agrees_aset; [assumption|apply stored_as_updated; assumption|congruence].
        * rewrite (ok_missing_update B OK c b ty cl ho na da Hi E). exact Hag.
      + (* delete *)
        destruct (aget b (b_map B c)) as [v|] eqn:E.
        * destruct (ok_delete B OK c b v Hi E) as (c' & x & Hs & Hm).
          rewrite Hs. cbn. rewrite Hm, listing_adel. apply agrees_adel. assumption.
        * rewrite (ok_missing_delete B OK c b Hi E). cbn.
          replace (listing_of (b_map B c)) with (adel b (listing_of (b_map B c))).
          -- apply agrees_adel. assumption.
          -- apply adel_absent. rewrite aget_listing, E. reflexivity.
    - rewrite (ok_frame B OK c o Hi Hw).
      destruct o; cbn in Hw; try discriminate; exact Hag.
  Qed.

  Lemma ds_refines_map : forall h d r,
    b_inv B (ds_store d) -> agrees r (ds_listing B d) -> admissible_history r h ->
    agrees (ref_run r h) (ds_listing B (ds_after B d h)).
  Proof.
    unfold ds_after, ref_run, ds_listing, ds_map.
    induction h as [|o t IH]; intros d r Hi Hag Hadm; cbn; [exact Hag|].
    destruct Hadm as [Ho Ht]. apply IH; [| |exact Ht].
    - rewrite ds_step_store. apply (ok_inv_step B OK). exact Hi.
    - rewrite ds_step_store. unfold ref_step. apply store_step_agrees; [exact Hi|exact Hag|].
      unfold admissible in Ho. destruct (store_op o); auto.
  Qed.
End Generic.
