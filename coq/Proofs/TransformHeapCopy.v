(* copy.deepcopy with its memo ([mcopy], Model/TransformHeap.v): the heap only grows, the
   copy lies in a self-contained fresh region, the memo is a graph isomorphism from the
   copied part of the old heap onto the fresh region (same tags, members related), it is
   injective, and on closed acyclic heaps the fuel suffices. *)
From AwVerif Require Import Base.Prelude Model.MemHeap Model.TransformHeap
  Proofs.MemHeapBase Proofs.MemHeapCopy.
From Coq Require Import Arith Relations.
Local Open Scope nat_scope.

Lemma mfind_In : forall m l l', mfind m l = Some l' -> In (l, l') m.
Proof.
  induction m as [|[a b] m IH]; cbn; intros l l' H; [discriminate|].
  destruct (Nat.eqb a l) eqn:E.
  - apply Nat.eqb_eq in E. inversion H; subst. auto.
  - right. auto.
Qed.

Lemma mfind_None : forall m l, mfind m l = None -> forall l', ~ In (l, l') m.
Proof.
  induction m as [|[a b] m IH]; cbn; intros l H l' I; [auto|].
  destruct (Nat.eqb a l) eqn:E; [discriminate|].
  destruct I as [I|I].
  - inversion I; subst. rewrite Nat.eqb_refl in E. discriminate.
  - eapply IH; eauto.
Qed.

(* what is known about a memo m relative to the heap size n0 at the start of the
   top-level deepcopy call and the current heap h *)
Definition related (m : memo) (k k' : loc) : Prop := In (k, k') m.

Definition memo_ok (n0 : nat) (h : heap) (m : memo) : Prop :=
  forall l l', In (l, l') m ->
    n0 <= l' < length h /\
    exists t ks ks', lookup h l = Some (Cell t ks) /\ lookup h l' = Some (Cell t ks') /\
                     Forall2 (related m) ks ks'.

Definition memo_inj (m : memo) : Prop :=
  forall a b c, In (a, c) m -> In (b, c) m -> a = b.

Lemma related_incl : forall m m' ks ks',
  incl m m' -> Forall2 (related m) ks ks' -> Forall2 (related m') ks ks'.
Proof. intros m m' ks ks' I F. induction F; constructor; auto. apply I. exact H. Qed.

Lemma memo_ok_ext : forall n0 h h' m, ext h h' -> memo_ok n0 h m -> memo_ok n0 h' m.
Proof.
  intros n0 h h' m E M l l' I. destruct (M _ _ I) as (B & t & ks & ks' & L0 & L1 & F).
  pose proof (ext_length _ _ E). split; [lia|].
  exists t, ks, ks'. split; [eapply ext_lookup_some; eauto|]. split; [eapply ext_lookup_some; eauto|auto].
Qed.

Definition copy_inv (h0 h : heap) (m : memo) : Prop :=
  ext h0 h /\ fresh_closed h0 h /\ memo_ok (length h0) h m /\ memo_inj m.

(* the post-condition of one (recursive) call *)
Definition mcopy_post (h0 h : heap) (m : memo) (h' : heap) (m' : memo) : Prop :=
  ext h h' /\ copy_inv h0 h' m' /\ incl m m' /\ (wf h -> wf h').

Section Thread.
  Variable f : heap -> memo -> loc -> res (heap * memo * loc).
  Variable h0 : heap.

  Lemma mthread_spec : forall ks h m h' m' ks',
    (forall h m k h' m' k', In k ks -> copy_inv h0 h m -> f h m k = Ok (h', m', k') ->
        mcopy_post h0 h m h' m' /\ In (k, k') m') ->
    copy_inv h0 h m ->
    mthread f h m ks = Ok (h', m', ks') ->
    mcopy_post h0 h m h' m' /\ Forall2 (related m') ks ks'.
  Proof.
    induction ks as [|k ks IH]; cbn [mthread]; intros h m h' m' ks' SP INV H.
    - inversion H; subst. split; [|constructor].
      split; [apply ext_refl|]. split; [auto|]. split; [apply incl_refl|auto].
    - destruct (f h m k) as [[[h1 m1] k1]| |] eqn:C; cbn [bind fst snd] in H; try discriminate.
      destruct (mthread f h1 m1 ks) as [[[h2 m2] ks2]| |] eqn:TH; cbn [bind fst snd] in H; try discriminate.
      inversion H; subst h' m' ks'; clear H.
      destruct (SP _ _ _ _ _ _ (or_introl eq_refl) INV C) as ((E1 & INV1 & I1 & W1) & R1).
      destruct (IH h1 m1 h2 m2 ks2) as ((E2 & INV2 & I2 & W2) & R2); auto.
      { intros. eapply SP; eauto. right; auto. }
      split.
      + split; [eapply ext_trans; eauto|]. split; [auto|]. split; [eapply incl_tran; eauto|auto].
      + constructor; auto. apply I2. exact R1.
  Qed.
End Thread.

Lemma mcopy_spec : forall f h0 h m l h' m' l',
  copy_inv h0 h m -> mcopy f h m l = Ok (h', m', l') ->
  mcopy_post h0 h m h' m' /\ In (l, l') m'.
Proof.
  induction f; cbn [mcopy]; intros h0 h m l h' m' l' INV H; [discriminate|].
  destruct (mfind m l) as [x|] eqn:MF.
  - inversion H; subst. split; [|now apply mfind_In].
    split; [apply ext_refl|]. split; [auto|]. split; [apply incl_refl|auto].
  - destruct (lookup h l) as [[t ks]|] eqn:L; try discriminate.
    destruct (mthread (mcopy f) h m ks) as [[[h1 m1] ks1]| |] eqn:TH; cbn [bind fst snd alloc] in H; try discriminate.
    inversion H; subst h' m' l'; clear H.
    assert (SPf : forall h m k h' m' k', In k ks -> copy_inv h0 h m -> mcopy f h m k = Ok (h', m', k') ->
                  mcopy_post h0 h m h' m' /\ In (k, k') m').
    { intros. eapply IHf; eauto. }
    destruct (mthread_spec (mcopy f) h0 ks h m h1 m1 ks1 SPf INV TH) as ((E1 & INV1 & I1 & W1) & R1).
    destruct INV1 as (E01 & F01 & M01 & J01).
    pose proof (ext_length _ _ E1) as LE1. pose proof (ext_length _ _ E01) as LE01.
    set (c := Cell t ks1).
    assert (K1 : forall k, In k ks1 -> length h0 <= k < length h1).
    { intros k I. clear -R1 M01 I. induction R1; [destruct I|].
      destruct I as [<-|I]; auto. apply (M01 _ _ H). }
    assert (EA : ext h1 (h1 ++ [c])) by apply ext_alloc.
    split; [|left; reflexivity].
    split; [eapply ext_trans; eauto|].
    split.
    { split; [eapply ext_trans; eauto|]. split; [apply fresh_closed_alloc; auto|].
      split.
      - intros a b [Eq|I].
        + inversion Eq; subst a b. split; [rewrite app_length; cbn; lia|].
          exists t, ks, ks1. split.
          { eapply ext_lookup_some; [eapply (ext_trans h h1); eauto|exact L]. }
          split; [apply lookup_alloc_new|].
          eapply related_incl; [|exact R1]. apply incl_tl, incl_refl.
        + destruct (memo_ok_ext _ _ _ _ EA M01 _ _ I) as (B & t' & k0 & k0' & L0 & L1 & F).
          split; auto. exists t', k0, k0'. split; auto. split; auto.
          eapply related_incl; [|exact F]. apply incl_tl, incl_refl.
      - intros a b x [Ea|Ia] [Eb|Ib].
        + congruence.
        + inversion Ea; subst. destruct (M01 _ _ Ib) as (B & _). lia.
        + inversion Eb; subst. destruct (M01 _ _ Ia) as (B & _). lia.
        + eapply J01; eauto. }
    split; [apply incl_tl; auto|].
    intros W. destruct (W1 W) as [C1 A1]. split.
    + apply closed_alloc; auto. intros k I. apply K1 in I. lia.
    + apply acyclic_alloc; auto. intros k I. apply K1 in I. lia.
Qed.

(* success: a memo hit costs nothing, otherwise one level of depth *)
Lemma mcopy_ext : forall f h m l h' m' l', mcopy f h m l = Ok (h', m', l') -> ext h h'.
Proof.
  induction f; cbn [mcopy]; intros h m l h' m' l' H; [discriminate|].
  destruct (mfind m l); [inversion H; subst; apply ext_refl|].
  destruct (lookup h l) as [[t ks]|]; try discriminate.
  destruct (mthread (mcopy f) h m ks) as [[[h1 m1] ks1]| |] eqn:TH; cbn [bind fst snd alloc] in H; try discriminate.
  inversion H; subst. eapply ext_trans; [|apply ext_alloc].
  clear -TH IHf. revert h m h1 m1 ks1 TH. induction ks as [|k ks IH]; cbn [mthread]; intros h m h1 m1 ks1 TH.
  - inversion TH; subst. apply ext_refl.
  - destruct (mcopy f h m k) as [[[h2 m2] k2]| |] eqn:C; cbn [bind fst snd] in TH; try discriminate.
    destruct (mthread (mcopy f) h2 m2 ks) as [[[h3 m3] ks3]| |] eqn:T2; cbn [bind fst snd] in TH; try discriminate.
    inversion TH; subst. eapply ext_trans; [eapply IHf; eauto|eapply IH; eauto].
Qed.

Lemma mthread_total : forall f (P : heap -> loc -> Prop),
  (forall h m l, P h l -> exists h' m' l', f h m l = Ok (h', m', l') /\ forall k, P h k -> P h' k) ->
  forall ks h m, (forall k, In k ks -> P h k) -> exists h' m' ks', mthread f h m ks = Ok (h', m', ks').
Proof.
  intros f P SP. induction ks as [|k ks IH]; cbn [mthread]; intros h m K; eauto.
  destruct (SP h m k) as (h1 & m1 & k1 & C & PR); [apply K; left; reflexivity|]. rewrite C. cbn [bind fst snd].
  destruct (IH h1 m1) as (h2 & m2 & ks2 & TH).
  { intros x I. apply PR. apply K. right. exact I. }
  rewrite TH. cbn. eauto.
Qed.

Lemma mcopy_total : forall f h m l, depth_le h f l -> exists h' m' l', mcopy f h m l = Ok (h', m', l').
Proof.
  induction f; cbn [mcopy depth_le]; intros h m l D; [contradiction|].
  destruct (mfind m l); eauto.
  destruct D as ([t ks] & L & K). rewrite L.
  destruct (mthread_total (mcopy f) (fun h l => depth_le h f l)) with (ks := ks) (h := h) (m := m)
    as (h1 & m1 & ks1 & TH).
  - intros h0 m0 l0 D0. destruct (IHf _ m0 _ D0) as (h2 & m2 & l2 & C). exists h2, m2, l2. split; auto.
    intros k Dk. destruct (mcopy_ext _ _ _ _ _ _ _ C) as [new ->]. now apply depth_le_app.
  - intros k I. apply K. exact I.
  - rewrite TH. cbn. eauto.
Qed.

(* ------------------------------------------------------------------------- *)
(* one top-level call *)

Lemma copy_inv_init : forall h, copy_inv h h [].
Proof.
  intro h. split; [apply ext_refl|]. split; [apply fresh_closed_refl|].
  split; [intros l l' []|intros a b c []].
Qed.

Record copied (h : heap) (l : loc) (h' : heap) (m : memo) (l' : loc) : Prop := {
  cp_ext : ext h h';
  cp_fresh : fresh_closed h h';
  cp_memo : memo_ok (length h) h' m;
  cp_inj : memo_inj m;
  cp_root : In (l, l') m;
  cp_wf : wf h -> wf h'
}.

Lemma deepcopy_memo_spec : forall h l h' m l',
  deepcopy_memo h l = Ok (h', m, l') -> copied h l h' m l'.
Proof.
  unfold deepcopy_memo. intros h l h' m l' H.
  destruct (mcopy_spec _ h h [] l h' m l' (copy_inv_init h) H) as ((E & (_ & F & M & J) & _ & W) & R).
  constructor; auto.
Qed.

Lemma deepcopy_memo_total : forall h l, wf h -> l < length h ->
  exists h' m l', deepcopy_memo h l = Ok (h', m, l').
Proof.
  intros h l [C A] B. apply mcopy_total. unfold fuel_of.
  eapply depth_le_mono; [now apply depth_bound|lia].
Qed.

Lemma pdeepcopy_inv : forall h l h' l', pdeepcopy h l = Ok (h', l') ->
  exists m, copied h l h' m l'.
Proof.
  unfold pdeepcopy. intros h l h' l' H.
  destruct (deepcopy_memo h l) as [[[h1 m1] l1]| |] eqn:D; cbn in H; try discriminate.
  inversion H; subst. exists m1. now apply deepcopy_memo_spec.
Qed.

Lemma pdeepcopy_total : forall h l, wf h -> l < length h -> exists h' l', pdeepcopy h l = Ok (h', l').
Proof.
  intros h l W B. destruct (deepcopy_memo_total h l W B) as (h' & m & l' & D).
  unfold pdeepcopy. rewrite D. cbn. eauto.
Qed.

(* consequences used by the transforms *)
Lemma copied_fresh : forall h l h' m l', copied h l h' m l' -> length h <= l' < length h'.
Proof. intros h l h' m l' C. apply (cp_memo _ _ _ _ _ C _ _ (cp_root _ _ _ _ _ C)). Qed.

Lemma copied_cell : forall h l h' m l' k k', copied h l h' m l' -> In (k, k') m ->
  length h <= k' < length h' /\
  exists t ks ks', lookup h' k = Some (Cell t ks) /\ lookup h' k' = Some (Cell t ks') /\
                   Forall2 (related m) ks ks'.
Proof. intros h l h' m l' k k' C I. apply (cp_memo _ _ _ _ _ C _ _ I). Qed.
