(* copy.deepcopy with its memo ([mcopy], Model/TransformHeap.v): the heap only grows, the
   copy lies in a self-contained fresh region, the memo is a graph isomorphism from the
   copied part of the old heap onto the fresh region (same tags, members related), it is
   injective, and on closed acyclic heaps the fuel suffices. *)
From AwVerif Require Import Base.Prelude Model.MemHeap Model.TransformHeap
  Proofs.MemHeapBase Proofs.MemHeapCopy.
From Coq Require Import Arith Relations.
Local Open Scope nat_scope.

Lemma mfind_In : forall m l l', mfind m l = Some l' -> In (l, l') m.
Proof.
  induction m as [|[a b] m IH]; cbn; intros l l' H; [discriminate|].
  destruct (Nat.eqb a l) eqn:E.
  - apply Nat.eqb_eq in E. inversion H; subst. auto.
  - right. auto.
Qed.

Lemma mfind_None : forall m l, mfind m l = None -> forall l', ~ In (l, l') m.
Proof.
  induction m as [|[a b] m IH]; cbn; intros l H l' I; [auto|].
  destruct (Nat.eqb a l) eqn:E; [discriminate|].
  destruct I as [I|I].
  - inversion I; subst. rewrite Nat.eqb_refl in E. discriminate.
  - eapply IH; eauto.
Qed.

(* what is known about a memo m relative to the heap size n0 at the start of the
   top-level deepcopy call and the current heap h *)
Definition related (m : memo) (k k' : loc) : Prop := In (k, k') m.

Definition memo_ok (n0 : nat) (h : heap) (m : memo) : Prop :=
  forall l l', In (l, l') m ->
    n0 <= l' < length h /\
    exists t ks ks', lookup h l = Some (Cell t ks) /\ lookup h l' = Some (Cell t ks') /\
                     Forall2 (related m) ks ks'.

Definition memo_inj (m : memo) : Prop :=
  forall a b c, In (a, c) m -> In (b, c) m -> a = b.

Lemma related_incl : forall m m' ks ks',
  incl m m' -> Forall2 (related m) ks ks' -> Forall2 (related m') ks ks'.
Proof. intros m m' ks ks' I F. induction F; constructor; auto. apply I. exact H. Qed.

Lemma memo_ok_ext : forall n0 h h' m, ext h h' -> memo_ok n0 h m -> memo_ok n0 h' m.
Proof.
  intros n0 h h' m E M l l' I. destruct (M _ _ I) as (B & t & ks & ks' & L0 & L1 & F).
  pose proof (ext_length _ _ E). split; [lia|].
  exists t, ks, ks'. split; [eapply ext_lookup_some; eauto|]. split; [eapply ext_lookup_some; eauto|auto].
Qed.

Definition copy_inv (h0 h : heap) (m : memo) : Prop :=
  ext h0 h /\ fresh_closed h0 h /\ memo_ok (length h0) h m /\ memo_inj m.

(* the post-condition of one (recursive) call *)
Definition mcopy_post (h0 h : heap) (m : memo) (h' : heap) (m' : memo) : Prop :=
  ext h h' /\ copy_inv h0 h' m' /\ incl m m' /\ (wf h -> wf h').

Section Thread.
  Variable f : heap -> memo -> loc -> res (heap * memo * loc).
  Variable h0 : heap.

  Lemma mthread_spec : forall ks h m h' m' ks',
    (forall h m k h' m' k', In k ks -> copy_inv h0 h m -> f h m k = Ok (h', m', k') ->
        mcopy_post h0 h m h' m' /\ In (k, k') m') ->
    copy_inv h0 h m ->
    mthread f h m ks = Ok (h', m', ks') ->
    mcopy_post h0 h m h' m' /\ Forall2 (related m') ks ks'.
  Proof.
    induction ks as [|k ks IH]; cbn [mthread]; intros h m h' m' ks' SP INV H.
    - inversion H; subst. split; [|constructor].
      split; [apply ext_refl|]. split; [auto|]. split; [apply incl_refl|auto].
    - destruct (f h m k) as [[[h1 m1] k1]| |] eqn:C; cbn [bind fst snd] in H; try discriminate.
      destruct (mthread f h1 m1 ks) as [[[h2 m2] ks2]| |] eqn:TH; cbn [bind fst snd] in H; try discriminate.
      inversion H; subst h' m' ks'; clear H.
      destruct (SP _ _ _ _ _ _ (or_introl eq_refl) INV C) as ((E1 & INV1 & I1 & W1) & R1).
      destruct (IH h1 m1 h2 m2 ks2) as ((E2 & INV2 & I2 & W2) & R2); auto.
      { intros. eapply SP; eauto. right; auto. }
      split.
      + split; [eapply ext_trans; eauto|]. split; [auto|]. split; [eapply incl_tran; eauto|auto].
      + constructor; auto. apply I2. exact R1.
  Qed.
End Thread.

Lemma mcopy_spec : forall f h0 h m l h' m' l',
  copy_inv h0 h m -> mcopy f h m l = Ok (h', m', l') ->
  mcopy_post h0 h m h' m' /\ In (l, l') m'.
Proof.
  induction f; cbn [mcopy]; intros h0 h m l h' m' l' INV H; [discriminate|].
  destruct (mfind m l) as [x|] eqn:MF.
  - inversion H; subst. split; [|now apply mfind_In].
    split; [apply ext_refl|]. split; [auto|]. split; [apply incl_refl|auto].
  - destruct (lookup h l) as [[t ks]|] eqn:L; try discriminate.
    destruct (mthread (mcopy f) h m ks) as [[[h1 m1] ks1]| |] eqn:TH; cbn [bind fst snd alloc] in H; try discriminate.
    inversion H; subst h' m' l'; clear H.
    assert (SPf : forall h m k h' m' k', In k ks -> copy_inv h0 h m -> mcopy f h m k = Ok (h', m', k') ->
                  mcopy_post h0 h m h' m' /\ In (k, k') m').
    { intros. eapply IHf; eauto. }
    destruct (mthread_spec (mcopy f) h0 ks h m h1 m1 ks1 SPf INV TH) as ((E1 & INV1 & I1 & W1) & R1).
    destruct INV1 as (E01 & F01 & M01 & J01).
    pose proof (ext_length _ _ E1) as LE1. pose proof (ext_length _ _ E01) as LE01.
    set (c := Cell t ks1).
    assert (K1 : forall k, In k ks1 -> length h0 <= k < length h1).
    { intros k I. clear -R1 M01 I. induction R1; [destruct I|].
      destruct I as [<-|I]; auto. apply (M01 _ _ H). }
    assert (EA : ext h1 (h1 ++ [c])) by apply ext_alloc.
    split; [|left; reflexivity].
    split; [eapply ext_trans; eauto|].
    split.
    { split; [eapply ext_trans; eauto|]. split; [apply fresh_closed_alloc; auto|].
      split.
      - intros a b [Eq|I].
        + inversion Eq; subst a b. split; [rewrite app_length; cbn; lia|].
          exists t, ks, ks1. split.
          { eapply ext_lookup_some; [eapply (ext_trans h h1); eauto|exact L]. }
          split; [apply lookup_alloc_new|].
          eapply related_incl; [|exact R1]. apply incl_tl, incl_refl.
        + destruct (memo_ok_ext _ _ _ _ EA M01 _ _ I) as (B & t' & k0 & k0' & L0 & L1 & F).
          split; auto. exists t', k0, k0'. split; auto. split; auto.
          eapply related_incl; [|exact F]. apply incl_tl, incl_refl.
      - intros a b x [Ea|Ia] [Eb|Ib].
        + congruence.
        + inversion Ea; subst. destruct (M01 _ _ Ib) as (B & _). lia.
        + inversion Eb; subst. destruct (M01 _ _ Ia) as (B & _). lia.
        + eapply J01; eauto. }
    split; [apply incl_tl; auto|].
    intros W. destruct (W1 W) as [C1 A1]. split.
    + apply closed_alloc; auto. intros k I. apply K1 in I. lia.
    + apply acyclic_alloc; auto. intros k I. apply K1 in I. lia.
Qed.

(* success: a memo hit costs nothing, otherwise one level of depth *)
Lemma mcopy_ext : forall f h m l h' m' l', mcopy f h m l = Ok (h', m', l') -> ext h h'.
Proof.
  induction f; cbn [mcopy]; intros h m l h' m' l' H; [discriminate|].
  destruct (mfind m l); [inversion H; subst; apply ext_refl|].
  destruct (lookup h l) as [[t ks]|]; try discriminate.
  destruct (mthread (mcopy f) h m ks) as [[[h1 m1] ks1]| |] eqn:TH; cbn [bind fst snd alloc] in H; try discriminate.
  inversion H; subst. eapply ext_trans; [|apply ext_alloc].
  clear -TH IHf. revert h m h1 m1 ks1 TH. induction ks as [|k ks IH]; cbn [mthread]; intros h m h1 m1 ks1 TH.
  - inversion TH; subst. apply ext_refl.
  - destruct (mcopy f h m k) as [[[h2 m2] k2]| |] eqn:C; cbn [bind fst snd] in TH; try discriminate.
    destruct (mthread (mcopy f) h2 m2 ks) as [[[h3 m3] ks3]| |] eqn:T2; cbn [bind fst snd] in TH; try discriminate.
    inversion TH; subst. eapply ext_trans; [eapply IHf; eauto|eapply IH; eauto].
Qed.

Lemma mthread_total : forall f (P : heap -> loc -> Prop),
  (forall h m l, P h l -> exists h' m' l', f h m l = Ok (h', m', l') /\ forall k, P h k -> P h' k) ->
  forall ks h m, (forall k, In k ks -> P h k) -> exists h' m' ks', mthread f h m ks = Ok (h', m', ks').
Proof.
  intros f P SP. induction ks as [|k ks IH]; cbn [mthread]; intros h m K; eauto.
  destruct (SP h m k) as (h1 & m1 & k1 & C & PR); [apply K; left; reflexivity|]. rewrite C. cbn [bind fst snd].
  destruct (IH h1 m1) as (h2 & m2 & ks2 & TH).
  { intros x I. apply PR. apply K. right. exact I. }
  rewrite TH. cbn. eauto.
Qed.

Lemma mcopy_total : forall f h m l, depth_le h f l -> exists h' m' l', mcopy f h m l = Ok (h', m', l').
Proof.
  induction f; cbn [mcopy depth_le]; intros h m l D; [contradiction|].
  destruct (mfind m l); eauto.
  destruct D as ([t ks] & L & K). rewrite L.
  destruct (mthread_total (mcopy f) (fun h l => depth_le h f l)) with (ks := ks) (h := h) (m := m)
    as (h1 & m1 & ks1 & TH).
  - intros h0 m0 l0 D0. destruct (IHf _ m0 _ D0) as (h2 & m2 & l2 & C). exists h2, m2, l2. split; auto.
    intros k Dk. destruct (mcopy_ext _ _ _ _ _ _ _ C) as [new ->]. now apply depth_le_app.
  - intros k I. apply K. exact I.
  - rewrite TH. cbn. eauto.
Qed.

(* ------------------------------------------------------------------------- *)
(* one top-level call *)

Lemma copy_inv_init : forall h, copy_inv h h [].
Proof.
  intro h. split; [apply ext_refl|]. split; [apply fresh_closed_refl|].
  split; [intros l l' []|intros a b c []].
Qed.

Record copied (h : heap) (l : loc) (h' : heap) (m : memo) (l' : loc) : Prop := {
  cp_ext : ext h h';
  cp_fresh : fresh_closed h h';
  cp_memo : memo_ok (length h) h' m;
  cp_inj : memo_inj m;
  cp_root : In (l, l') m;
  cp_wf : wf h -> wf h'
}.

Lemma deepcopy_memo_spec : forall h l h' m l',
  deepcopy_memo h l = Ok (h', m, l') -> copied h l h' m l'.
Proof.
  unfold deepcopy_memo. intros h l h' m l' H.
  destruct (mcopy_spec _ h h [] l h' m l' (copy_inv_init h) H) as ((E & (_ & F & M & J) & _ & W) & R).
  constructor; auto.
Qed.

Lemma deepcopy_memo_total : forall h l, wf h -> l < length h ->
  exists h' m l', deepcopy_memo h l = Ok (h', m, l').
Proof.
  intros h l [C A] B. apply mcopy_total. unfold fuel_of.
  eapply depth_le_mono; [now apply depth_bound|lia].
Qed.

Lemma pdeepcopy_inv : forall h l h' l', pdeepcopy h l = Ok (h', l') ->
  exists m, copied h l h' m l'.
Proof.
  unfold pdeepcopy. intros h l h' l' H.
  destruct (deepcopy_memo h l) as [[[h1 m1] l1]| |] eqn:D; cbn in H; try discriminate.
  inversion H; subst. exists m1. now apply deepcopy_memo_spec.
Qed.

Lemma pdeepcopy_total : forall h l, wf h -> l < length h -> exists h' l', pdeepcopy h l = Ok (h', l').
Proof.
  intros h l W B. destruct (deepcopy_memo_total h l W B) as (h' & m & l' & D).
  unfold pdeepcopy. rewrite D. cbn. eauto.
Qed.

(* consequences used by the transforms *)
Lemma copied_fresh : forall h l h' m l', copied h l h' m l' -> length h <= l' < length h'.
Proof. intros h l h' m l' C. apply (cp_memo _ _ _ _ _ C _ _ (cp_root _ _ _ _ _ C)). Qed.

Lemma copied_cell : forall h l h' m l' k k', copied h l h' m l' -> In (k, k') m ->
  length h <= k' < length h' /\
  exists t ks ks', lookup h' k = Some (Cell t ks) /\ lookup h' k' = Some (Cell t ks') /\
                   Forall2 (related m) ks ks'.
Proof. intros h l h' m l' k k' C I. apply (cp_memo _ _ _ _ _ C _ _ I). Qed.

(* ------------------------------------------------------------------------- *)
(* the memo is a function (an object is copied once): needs acyclicity, because the model
   enters an object into the memo after its members *)

Definition memo_fun (m : memo) : Prop := forall a b c, In (a, b) m -> In (a, c) m -> b = c.

Lemma rt_ext : forall h h' a b, ext h h' -> rt h a b -> rt h' a b.
Proof.
  intros h h' a b E R. apply clos_rt_rtn1 in R. induction R; [apply rt_here|].
  eapply rt_snoc; [exact IHR|]. destruct H as (c & L & I). exists c. split; auto.
  eapply ext_lookup_some; eauto.
Qed.

Lemma mthread_mcopy_ext : forall f ks h m h1 m1 ks1,
  mthread (mcopy f) h m ks = Ok (h1, m1, ks1) -> ext h h1.
Proof.
  intros f. induction ks as [|k ks IH]; cbn [mthread]; intros h m h1 m1 ks1 TH.
  - inversion TH; subst. apply ext_refl.
  - destruct (mcopy f h m k) as [[[h2 m2] k2]| |] eqn:C; cbn [bind fst snd] in TH; try discriminate.
    destruct (mthread (mcopy f) h2 m2 ks) as [[[h3 m3] ks3]| |] eqn:T2; cbn [bind fst snd] in TH; try discriminate.
    inversion TH; subst. eapply ext_trans; [eapply mcopy_ext; eauto|eapply IH; eauto].
Qed.

(* every key entered by a call is reachable from the call's argument *)
Lemma mcopy_keys : forall f h m l h' m' l', mcopy f h m l = Ok (h', m', l') ->
  forall k k', In (k, k') m' -> In (k, k') m \/ rt h' l k.
Proof.
  induction f; cbn [mcopy]; intros h m l h' m' l' H k k' I; [discriminate|].
  destruct (mfind m l); [inversion H; subst; auto|].
  destruct (lookup h l) as [[t ks]|] eqn:L; try discriminate.
  destruct (mthread (mcopy f) h m ks) as [[[h1 m1] ks1]| |] eqn:TH; cbn [bind fst snd alloc] in H; try discriminate.
  inversion H; subst h' m' l'; clear H.
  assert (TK : forall ks h m h1 m1 ks1, mthread (mcopy f) h m ks = Ok (h1, m1, ks1) ->
               forall k k', In (k, k') m1 -> In (k, k') m \/ exists c, In c ks /\ rt h1 c k).
  { clear -IHf. induction ks as [|c ks IH]; cbn [mthread]; intros h m h1 m1 ks1 TH k k' I.
    - inversion TH; subst. auto.
    - destruct (mcopy f h m c) as [[[h2 m2] c2]| |] eqn:C; cbn [bind fst snd] in TH; try discriminate.
      destruct (mthread (mcopy f) h2 m2 ks) as [[[h3 m3] ks3]| |] eqn:T2; cbn [bind fst snd] in TH; try discriminate.
      inversion TH; subst h1 m1 ks1; clear TH.
      destruct (IH _ _ _ _ _ T2 _ _ I) as [I2|(c' & Ic & R)].
      + destruct (IHf _ _ _ _ _ _ C _ _ I2) as [I0|R]; auto.
        right. exists c. split; [left; auto|]. eapply rt_ext; [eapply mthread_mcopy_ext; eauto|exact R].
      + right. exists c'. split; [right; auto|exact R]. }
  pose proof (mthread_mcopy_ext _ _ _ _ _ _ _ TH) as E1.
  destruct I as [Eq|I]; [inversion Eq; subst; right; apply rt_here|].
  destruct (TK _ _ _ _ _ _ TH _ _ I) as [I0|(c & Ic & R)]; auto.
  right. eapply rt_trans'; [apply edge_rt|eapply rt_ext; [apply ext_alloc|exact R]].
  exists (Cell t ks). split; auto. eapply ext_lookup_some; [eapply ext_trans; [exact E1|apply ext_alloc]|exact L].
Qed.

Lemma mcopy_fun : forall f h0 h m l h' m' l',
  copy_inv h0 h m -> wf h -> memo_fun m -> mcopy f h m l = Ok (h', m', l') -> memo_fun m'.
Proof.
  induction f; cbn [mcopy]; intros h0 h m l h' m' l' INV W FU H; [discriminate|].
  destruct (mfind m l) eqn:MF; [inversion H; subst; auto|].
  destruct (lookup h l) as [[t ks]|] eqn:L; try discriminate.
  destruct (mthread (mcopy f) h m ks) as [[[h1 m1] ks1]| |] eqn:TH; cbn [bind fst snd alloc] in H; try discriminate.
  inversion H; subst h' m' l'; clear H.
  (* the members: functional, and the invariants survive *)
  assert (TF : forall ks h m h1 m1 ks1, copy_inv h0 h m -> wf h -> memo_fun m ->
               mthread (mcopy f) h m ks = Ok (h1, m1, ks1) -> memo_fun m1 /\ wf h1).
  { clear -IHf. induction ks as [|c ks IH]; cbn [mthread]; intros h m h1 m1 ks1 INV W FU TH.
    - inversion TH; subst. auto.
    - destruct (mcopy f h m c) as [[[h2 m2] c2]| |] eqn:C; cbn [bind fst snd] in TH; try discriminate.
      destruct (mthread (mcopy f) h2 m2 ks) as [[[h3 m3] ks3]| |] eqn:T2; cbn [bind fst snd] in TH; try discriminate.
      inversion TH; subst h1 m1 ks1; clear TH.
      destruct (mcopy_spec _ _ _ _ _ _ _ _ INV C) as ((E & INV2 & _ & W2) & _).
      eapply IH; [exact INV2|auto|exact (IHf h0 h m c h2 m2 c2 INV W FU C)|exact T2]. }
  destruct (TF _ _ _ _ _ _ INV W FU TH) as (FU1 & W1).
  pose proof (mthread_mcopy_ext _ _ _ _ _ _ _ TH) as E1.
  assert (NK : forall x, ~ In (l, x) m1).
  { intros x I.
    assert (TK : In (l, x) m \/ exists c, In c ks /\ rt h1 c l).
    { clear -TH I. revert h m h1 m1 ks1 TH I. induction ks as [|c ks IH]; cbn [mthread]; intros h m h1 m1 ks1 TH I.
      - inversion TH; subst. auto.
      - destruct (mcopy f h m c) as [[[h2 m2] c2]| |] eqn:C; cbn [bind fst snd] in TH; try discriminate.
        destruct (mthread (mcopy f) h2 m2 ks) as [[[h3 m3] ks3]| |] eqn:T2; cbn [bind fst snd] in TH; try discriminate.
        inversion TH; subst h1 m1 ks1; clear TH.
        destruct (IH _ _ _ _ _ T2 I) as [I2|(c' & Ic & R)].
        + destruct (mcopy_keys _ _ _ _ _ _ _ C _ _ I2) as [I0|R]; auto.
          right. exists c. split; [left; auto|]. eapply rt_ext; [eapply mthread_mcopy_ext; eauto|exact R].
        + right. exists c'. split; [right; auto|exact R]. }
    destruct TK as [I0|(c & Ic & R)].
    - eapply mfind_None; eauto.
    - destruct W1 as [_ A1]. apply (A1 l). eapply edge_rt_tc; [|exact R].
      exists (Cell t ks). split; auto. eapply ext_lookup_some; eauto. }
  intros a b c [Eb|Ib] [Ec|Ic].
  - congruence.
  - inversion Eb; subst. exfalso. eapply NK; eauto.
  - inversion Ec; subst. exfalso. eapply NK; eauto.
  - eapply FU1; eauto.
Qed.

Lemma deepcopy_memo_fun : forall h l h' m l', wf h -> deepcopy_memo h l = Ok (h', m, l') -> memo_fun m.
Proof.
  unfold deepcopy_memo. intros h l h' m l' W H.
  eapply mcopy_fun; [apply copy_inv_init|exact W| |exact H]. intros a b c [].
Qed.

(* copying a list of references keeps exactly the aliasing between its positions *)
Lemma related_same_aliasing : forall m ks ks', memo_fun m -> memo_inj m -> Forall2 (related m) ks ks' ->
  forall i j a b a' b', nth_error ks i = Some a -> nth_error ks j = Some b ->
    nth_error ks' i = Some a' -> nth_error ks' j = Some b' -> (a = b <-> a' = b').
Proof.
  intros m ks ks' FU INJ F.
  assert (N : forall i a a', nth_error ks i = Some a -> nth_error ks' i = Some a' -> In (a, a') m).
  { induction F; intros [|i] a a' Ha Ha'; cbn in *; try discriminate.
    - inversion Ha; inversion Ha'; subst. exact H.
    - eapply IHF; eauto. }
  intros i j a b a' b' Ha Hb Ha' Hb'. pose proof (N _ _ _ Ha Ha'). pose proof (N _ _ _ Hb Hb').
  split; intro; subst; [eapply FU|eapply INJ]; eauto.
Qed.
