(* The JSON form of an Event is inside the domain of the round-trip theorem. *)
From AwVerif Require Import Base.Prelude Model.Json Model.JsonEvent Proofs.JsonStr Proofs.JsonNum Proofs.JsonFuel Proofs.JsonRoundtrip.
From Coq Require Import Ascii.
Open Scope Z_scope.

Lemma str_ok_small s : Forall (fun c => 0 <= c < 55296) s -> str_ok s = true.
Proof.
  induction 1 as [|c s Hc Hs IH]; [reflexivity|]. cbn [str_ok]. rewrite IH, andb_true_r.
  apply andb_true_intro. split.
  - apply andb_true_intro. split; apply Z.leb_le; lia.
  - destruct s; [reflexivity|]. unfold is_high.
    replace (55296 <=? c) with false by (symmetry; apply Z.leb_gt; lia). reflexivity.
Qed.

Lemma ascii_cps_ok l : str_ok (ascii_cps l) = true.
Proof.
  apply str_ok_small. unfold ascii_cps. rewrite Forall_map, Forall_forall. intros a _.
  pose proof (N_ascii_bounded a). lia.
Qed.

Theorem event_json_form_wf i ts tok data :
  match i with Some n => int_ok n = true | None => True end ->
  float_tok_ok tok = true -> wf data -> wf (event_json_form i ts tok data).
Proof.
  intros Hi Ht Hd. unfold wf, event_json_form. cbn [wfb forallb fst snd map].
  rewrite ascii_cps_ok, Ht, Hd. replace (wfb (id_json i)) with true by (destruct i; cbn; [now rewrite Hi|reflexivity]).
  reflexivity.
Qed.

Theorem event_json_form_roundtrip i ts tok data :
  match i with Some n => int_ok n = true | None => True end ->
  float_tok_ok tok = true -> wf data ->
  loads (dumps_text (event_json_form i ts tok data)) = Ok (event_json_form i ts tok data).
Proof. intros Hi Ht Hd. apply loads_dumps_text. now apply event_json_form_wf. Qed.
