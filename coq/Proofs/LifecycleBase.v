(* C05 — vocabulary of the lifecycle theorems and the list / association-list / relational
   lemmas the three back-end proofs share. *)
From AwVerif Require Import Base.Prelude Model.StoreBase Model.Datastore.
From Coq Require Import ZifyBool.

(* ---------------------------------------------------------------------- *)
(* Spec vocabulary *)

(* The keyed map a storage state denotes: bucket id -> (metadata, events in storage order),
   in listing order. *)
Definition kmap := list (Z * (meta * list event)).
Definition listing_of (k : kmap) : list (Z * meta) := map (fun kv => (fst kv, fst (snd kv))) k.

(* A back end: its model, its observation `b_view`, the keyed map `b_map` its states denote
   and the invariant of its reachable states. *)
Record backend := mkBackend {
  b_state : Type;
  b_init : b_state;
  b_step : b_state -> op -> b_state * res out;
  b_view : b_state -> Z -> option (meta * list event);
  b_map : b_state -> kmap;
  b_inv : b_state -> Prop }.

(* "listed with exactly the metadata it was given (... name when given ...)":
   label 0 is the empty string, so `n <> 0` is "a name was given". *)
Definition stored_as (given stored : meta) : Prop :=
  m_type stored = m_type given /\ m_client stored = m_client given /\
  m_hostname stored = m_hostname given /\ m_created stored = m_created given /\
  m_data stored = m_data given /\
  (forall n, m_name given = Some n -> n <> 0 -> m_name stored = Some n).

(* "an update changes only the fields supplied" *)
Definition or_old (o : option Z) (old : Z) : Z := match o with Some v => v | None => old end.
Definition updated_meta (ty cl ho na da : option Z) (m : meta) : meta :=
  mkMeta (or_old ty (m_type m)) (or_old cl (m_client m)) (or_old ho (m_hostname m)) (m_created m)
         (match na with Some v => Some v | None => m_name m end) (or_old da (m_data m)).

(* the domain of update values: non-empty strings, non-empty data *)
Definition nonempty (o : option Z) : Prop := match o with Some v => v <> 0 | None => True end.
Definition supplied (o : option Z) : Prop := o <> None.

Lemma update_meta_not_none : forall ty cl ho na da m,
  update_meta not_none ty cl ho na da m = updated_meta ty cl ho na da m.
Proof. intros [?|] [?|] [?|] [?|] [?|] []; reflexivity. Qed.

Lemma update_meta_truthy : forall ty cl ho na da m,
  nonempty ty -> nonempty cl -> nonempty ho -> nonempty na -> nonempty da ->
  update_meta opt_truthy ty cl ho na da m = updated_meta ty cl ho na da m.
Proof.
  intros ty cl ho na da m Hty Hcl Hho Hna Hda.
  assert (T : forall o, nonempty o -> forall set mm,
             upd_if opt_truthy o set mm = match o with Some v => set mm v | None => mm end).
  { intros [v|] H set mm; cbn in *; [|reflexivity].
    unfold truthy. destruct (v =? 0) eqn:E; [lia|reflexivity]. }
  unfold update_meta. rewrite !T by assumption.
  destruct ty, cl, ho, na, da, m; reflexivity.
Qed.

(* ---------------------------------------------------------------------- *)
(* generic list facts *)

Lemma filter_all : forall {A} (p : A -> bool) l, (forall x, In x l -> p x = true) -> filter p l = l.
Proof.
  induction l as [|x t IH]; cbn; intros H; [reflexivity|].
  rewrite (H x) by auto. f_equal. apply IH. auto.
Qed.

Lemma filter_none : forall {A} (p : A -> bool) l, (forall x, In x l -> p x = false) -> filter p l = [].
Proof.
  induction l as [|x t IH]; cbn; intros H; [reflexivity|].
  rewrite (H x) by auto. apply IH. auto.
Qed.

Lemma filter_filter_absorb : forall {A} (p q : A -> bool) l,
  (forall x, In x l -> p x = true -> q x = true) -> filter p (filter q l) = filter p l.
Proof.
  induction l as [|x t IH]; cbn; intros H; [reflexivity|].
  destruct (q x) eqn:Q; cbn.
  - destruct (p x); [f_equal|]; apply IH; auto.
  - destruct (p x) eqn:P; [|apply IH; auto].
    rewrite (H x) in Q by auto. discriminate.
Qed.

Lemma NoDup_app_one : forall {A} (l : list A) x, NoDup l -> ~ In x l -> NoDup (l ++ [x]).
Proof.
  induction l as [|a t IH]; cbn; intros x Hnd Hn.
  - constructor; [tauto|constructor].
  - inversion Hnd; subst. constructor.
    + rewrite in_app_iff. cbn. intros [H|[H|[]]]; [tauto|]. apply Hn. left. auto.
    + apply IH; auto.
Qed.

Lemma NoDup_map_inj : forall {A B} (f : A -> B) l x y,
  NoDup (map f l) -> In x l -> In y l -> f x = f y -> x = y.
Proof.
  induction l as [|a t IH]; cbn; intros x y Hnd Hx Hy E; [tauto|].
  inversion Hnd as [|? ? Hn Hnd']; subst.
  destruct Hx as [->|Hx], Hy as [->|Hy]; auto.
  - exfalso. apply Hn. rewrite E. apply in_map. assumption.
  - exfalso. apply Hn. rewrite <- E. apply in_map. assumption.
Qed.

Lemma NoDup_map_filter : forall {A B} (f : A -> B) p l, NoDup (map f l) -> NoDup (map f (filter p l)).
Proof.
  induction l as [|a t IH]; cbn; intros Hnd; [constructor|].
  inversion Hnd as [|? ? Hn Hnd']; subst.
  destruct (p a); cbn; auto.
  constructor; auto. intros Hin. apply Hn.
  apply in_map_iff in Hin. destruct Hin as (x & E & Hx). apply filter_In in Hx.
  rewrite <- E. apply in_map. tauto.
Qed.

Lemma find_some_in : forall {A} (p : A -> bool) l x, find p l = Some x -> In x l /\ p x = true.
Proof. intros. apply find_some. assumption. Qed.

Lemma find_none_all : forall {A} (p : A -> bool) l, find p l = None -> forall x, In x l -> p x = false.
Proof. intros. eapply find_none; eauto. Qed.

Lemma find_app_none : forall {A} (p : A -> bool) l1 l2, find p l1 = None -> find p (l1 ++ l2) = find p l2.
Proof.
  induction l1 as [|a t IH]; cbn; intros l2 H; [reflexivity|].
  destruct (p a); [discriminate|]. auto.
Qed.

Lemma existsb_false_find : forall {A} (p : A -> bool) l, find p l = None -> existsb p l = false.
Proof.
  induction l as [|a t IH]; cbn; intros H; [reflexivity|].
  destruct (p a); [discriminate|]. auto.
Qed.

Lemma existsb_true_find : forall {A} (p : A -> bool) l x, find p l = Some x -> existsb p l = true.
Proof.
  induction l as [|a t IH]; cbn; intros x H; [discriminate|].
  destruct (p a); [reflexivity|]. eauto.
Qed.

(* ---------------------------------------------------------------------- *)
(* association lists *)

Section AList.
  Context {V : Type}.
  Implicit Types l : list (Z * V).

  Lemma aget_aset_same : forall l b v, aget b (aset b v l) = Some v.
  Proof.
    induction l as [|[k x] t IH]; intros b v; cbn.
    - rewrite Z.eqb_refl. reflexivity.
    - destruct (k =? b) eqn:E; cbn.
      + rewrite Z.eqb_refl. reflexivity.
      + rewrite E. apply IH.
  Qed.

  Lemma aget_aset_other : forall l b b' v, b' <> b -> aget b' (aset b v l) = aget b' l.
  Proof.
    induction l as [|[k x] t IH]; intros b b' v Hne; cbn.
    - destruct (b =? b') eqn:E; [lia|reflexivity].
    - destruct (k =? b) eqn:E; cbn.
      + destruct (b =? b') eqn:E1; [lia|]. destruct (k =? b') eqn:E2; [lia|]. reflexivity.
      + destruct (k =? b'); [reflexivity|]. apply IH. assumption.
  Qed.

  Lemma aget_adel_same : forall l b, aget b (adel b l) = None.
  Proof.
    induction l as [|[k x] t IH]; intros b; cbn; [reflexivity|].
    destruct (k =? b) eqn:E; cbn; [apply IH|]. rewrite E. apply IH.
  Qed.

  Lemma aget_adel_other : forall l b b', b' <> b -> aget b' (adel b l) = aget b' l.
  Proof.
    induction l as [|[k x] t IH]; intros b b' Hne; cbn; [reflexivity|].
    destruct (k =? b) eqn:E; cbn.
    - destruct (k =? b') eqn:E2; [lia|]. apply IH. assumption.
    - destruct (k =? b'); [reflexivity|]. apply IH. assumption.
  Qed.

  Lemma aget_none_iff : forall l b, aget b l = None <-> ~ In b (map fst l).
  Proof.
    induction l as [|[k x] t IH]; intros b; cbn; [tauto|].
    destruct (k =? b) eqn:E.
    - split; [discriminate|]. intros H. exfalso. apply H. left. lia.
    - rewrite IH. split; [intros H [H1|H1]; [lia|tauto]|tauto].
  Qed.

  Lemma aget_some_in : forall l b v, aget b l = Some v -> In (b, v) l.
  Proof.
    induction l as [|[k x] t IH]; intros b v; cbn; [discriminate|].
    destruct (k =? b) eqn:E; intros H.
    - inversion H; subst. left. f_equal. lia.
    - right. auto.
  Qed.

  Lemma aget_app : forall l1 l2 b,
    aget b (l1 ++ l2) = match aget b l1 with Some v => Some v | None => aget b l2 end.
  Proof.
    induction l1 as [|[k x] t IH]; intros l2 b; cbn; [reflexivity|].
    destruct (k =? b); [reflexivity|]. apply IH.
  Qed.

  Lemma aset_absent : forall l b v, aget b l = None -> aset b v l = l ++ [(b, v)].
  Proof.
    induction l as [|[k x] t IH]; intros b v; cbn; [reflexivity|].
    destruct (k =? b); [discriminate|]. intros H. f_equal. auto.
  Qed.

  Lemma aset_same : forall l b v, aget b l = Some v -> aset b v l = l.
  Proof.
    induction l as [|[k x] t IH]; intros b v; cbn; [discriminate|].
    destruct (k =? b) eqn:E; intros H.
    - inversion H; subst. f_equal. f_equal. lia.
    - f_equal. auto.
  Qed.

  Lemma adel_absent : forall l b, aget b l = None -> adel b l = l.
  Proof.
    induction l as [|[k x] t IH]; intros b; cbn; [reflexivity|].
    destruct (k =? b) eqn:E; [discriminate|]. cbn. intros H. f_equal. apply IH. assumption.
  Qed.

  Lemma keys_aset_present : forall l b v v0, aget b l = Some v0 -> map fst (aset b v l) = map fst l.
  Proof.
    induction l as [|[k x] t IH]; intros b v v0; cbn; [discriminate|].
    destruct (k =? b) eqn:E; cbn; intros H.
    - f_equal. lia.
    - f_equal. eauto.
  Qed.

  Lemma NoDup_keys_aset : forall l b v, NoDup (map fst l) -> NoDup (map fst (aset b v l)).
  Proof.
    intros l b v Hnd. destruct (aget b l) as [v0|] eqn:E.
    - erewrite keys_aset_present by eassumption. assumption.
    - rewrite aset_absent by assumption. rewrite map_app. cbn.
      apply aget_none_iff in E.
      assert (H : NoDup (map fst l ++ [b])).
      { clear - Hnd E. induction (map fst l) as [|a t IH]; cbn.
        - constructor; [tauto|constructor].
        - inversion Hnd; subst. constructor.
          + rewrite in_app_iff. cbn. intros [H|[H|[]]]; [tauto|]. apply E. left. auto.
          + apply IH; auto. intros H. apply E. right. assumption. }
      exact H.
  Qed.

  Lemma NoDup_keys_adel : forall l b, NoDup (map fst l) -> NoDup (map fst (adel b l)).
  Proof. intros. unfold adel. apply NoDup_map_filter. assumption. Qed.
End AList.

Lemma listing_of_app : forall k1 k2, listing_of (k1 ++ k2) = listing_of k1 ++ listing_of k2.
Proof. intros. unfold listing_of. apply map_app. Qed.

(* rewriting the events of a bucket keeps the listing *)
Lemma listing_aset_same_meta : forall (k : kmap) b m es es',
  aget b k = Some (m, es) -> listing_of (aset b (m, es') k) = listing_of k.
Proof.
  induction k as [|[k0 [m0 es0]] t IH]; intros b m es es'; cbn; [discriminate|].
  destruct (k0 =? b) eqn:E; cbn; intros H.
  - inversion H; subst. f_equal. f_equal. lia.
  - f_equal. eauto.
Qed.

Lemma listing_aset : forall (k : kmap) b m es v0,
  aget b k = Some v0 -> listing_of (aset b (m, es) k) = aset b m (listing_of k).
Proof.
  induction k as [|[k0 [m0 es0]] t IH]; intros b m es v0; cbn; [discriminate|].
  destruct (k0 =? b) eqn:E; cbn; intros H; [reflexivity|].
  f_equal. eauto.
Qed.

Lemma listing_adel : forall (k : kmap) b, listing_of (adel b k) = adel b (listing_of k).
Proof.
  induction k as [|[k0 [m0 es0]] t IH]; intros b; cbn; [reflexivity|].
  destruct (k0 =? b) eqn:E; cbn; [apply IH|]. f_equal. apply IH.
Qed.

Lemma aget_listing : forall (k : kmap) b, aget b (listing_of k) = option_map fst (aget b k).
Proof.
  induction k as [|[k0 [m0 es0]] t IH]; intros b; cbn; [reflexivity|].
  destruct (k0 =? b); [reflexivity|]. apply IH.
Qed.

Lemma aget_keys_iff : forall {V W} (l : list (Z * V)) (l' : list (Z * W)) b,
  map fst l' = map fst l -> (aget b l <> None <-> aget b l' <> None).
Proof.
  intros V W l l' b H.
  assert (E : forall X (k : list (Z * X)), aget b k <> None <-> In b (map fst k)).
  { intros X k. pose proof (aget_none_iff k b) as A. destruct (aget b k).
    - split; [intros _|intros _; discriminate].
      destruct (in_dec Z.eq_dec b (map fst k)); [assumption|]. apply A in n. discriminate.
    - split; [congruence|]. intros Hin. exfalso. apply A; auto. }
  rewrite !E, H. tauto.
Qed.

Lemma keys_listing : forall (k : kmap), map fst (listing_of k) = map fst k.
Proof. intros. unfold listing_of. rewrite map_map. reflexivity. Qed.

Lemma keys_same_stays : forall {V W} (l : list (Z * V)) (l' : list (Z * W)) b,
  map fst l' = map fst l -> aget b l <> None -> aget b l' <> None.
Proof. intros V W l l' b H. apply (aget_keys_iff l l' b H). Qed.

Lemma aget_aset_stays : forall {V} (l : list (Z * V)) b b0 v,
  aget b0 l <> None -> aget b0 (aset b v l) <> None.
Proof.
  intros V l b b0 v H. destruct (Z.eq_dec b0 b) as [->|Hne].
  - rewrite aget_aset_same. discriminate.
  - rewrite aget_aset_other by assumption. assumption.
Qed.

Lemma aget_app_stays : forall {V} (l l2 : list (Z * V)) b0,
  aget b0 l <> None -> aget b0 (l ++ l2) <> None.
Proof. intros V l l2 b0 H. rewrite aget_app. destruct (aget b0 l); [discriminate|congruence]. Qed.

Lemma listing_same_stays : forall (k k' : kmap) b0,
  listing_of k' = listing_of k -> aget b0 k <> None -> aget b0 k' <> None.
Proof.
  intros k k' b0 H. apply keys_same_stays. rewrite <- !keys_listing, H. reflexivity.
Qed.


(* `bucket_id in self.buckets()` *)
Lemma listed_iff : forall b (k : kmap), listed b (listing_of k) = match aget b k with Some _ => true | None => false end.
Proof.
  induction k as [|[k0 [m0 es0]] t IH]; cbn; [reflexivity|].
  destruct (k0 =? b); [reflexivity|]. apply IH.
Qed.

(* ---------------------------------------------------------------------- *)
(* tables (lists of rows with a unique id column) as association lists *)

Section Table.
  Context {R V : Type} (rid : R -> Z) (val : R -> V).
  Let f := fun r => (rid r, val r).

  Lemma find_aget : forall l b,
    aget b (map f l) = option_map val (find (fun r => rid r =? b) l).
  Proof.
    induction l as [|r t IH]; intros b; cbn; [reflexivity|].
    destruct (rid r =? b); [reflexivity|]. apply IH.
  Qed.

  Lemma adel_delete_where : forall l b,
    adel b (map f l) = map f (delete_where (fun r => rid r =? b) l).
  Proof.
    induction l as [|r t IH]; intros b; cbn; [reflexivity|].
    destruct (rid r =? b); cbn; [apply IH|]. f_equal. apply IH.
  Qed.

  (* UPDATE ... WHERE id = b on a table whose id column is unique rewrites one entry *)
  Lemma aset_update_where : forall (g : R -> R) l b r0,
    NoDup (map rid l) -> find (fun r => rid r =? b) l = Some r0 ->
    (forall r, rid (g r) = rid r) ->
    map f (update_where (fun r => rid r =? b) g l) = aset b (val (g r0)) (map f l).
  Proof.
    intros g. induction l as [|r t IH]; intros b r0 Hnd Hf Hg; cbn in *; [discriminate|].
    inversion Hnd as [|? ? Hn Hnd']; subst.
    destruct (rid r =? b) eqn:E.
    - inversion Hf; subst r0. unfold f at 1. rewrite Hg. f_equal; [f_equal; lia|].
      unfold update_where. f_equal. rewrite <- (map_id t) at 2. apply map_ext_in. intros a Ha.
      destruct (rid a =? b) eqn:E2; [|reflexivity].
      exfalso. apply Hn. replace (rid r) with (rid a) by lia. apply in_map. assumption.
    - f_equal. apply IH; assumption.
  Qed.

  Lemma update_where_none : forall (p : R -> bool) (g : R -> R) l,
    (forall r, In r l -> p r = false) -> update_where p g l = l.
  Proof.
    intros p g l H. unfold update_where. rewrite <- (map_id l) at 2. apply map_ext_in.
    intros a Ha. rewrite H by assumption. reflexivity.
  Qed.

  Lemma delete_where_none : forall (p : R -> bool) l,
    (forall r, In r l -> p r = false) -> delete_where p l = l.
  Proof.
    intros p l H. unfold delete_where. apply filter_all. intros x Hx. rewrite H by assumption. reflexivity.
  Qed.

  Lemma rowcount_unique : forall l b r0,
    NoDup (map rid l) -> find (fun r => rid r =? b) l = Some r0 ->
    rowcount (fun r => rid r =? b) l = 1.
  Proof.
    induction l as [|r t IH]; intros b r0 Hnd Hf; cbn in *; [discriminate|].
    inversion Hnd as [|? ? Hn Hnd']; subst. unfold rowcount in *. cbn.
    destruct (rid r =? b) eqn:E.
    - rewrite filter_none; [reflexivity|]. intros x Hx.
      destruct (rid x =? b) eqn:E2; [|reflexivity].
      exfalso. apply Hn. replace (rid r) with (rid x) by lia. apply in_map. assumption.
    - eapply IH; eassumption.
  Qed.

  Lemma rowcount_none : forall (p : R -> bool) l, (forall r, In r l -> p r = false) -> rowcount p l = 0.
  Proof. intros p l H. unfold rowcount. rewrite filter_none by assumption. reflexivity. Qed.
End Table.

(* ---------------------------------------------------------------------- *)
(* What each back end has to provide (proved in LifecycleMem / LifecycleSqlite / LifecyclePeewee) *)

Definition lifecycle_write (o : op) : bool :=
  match o with
  | CreateBucket _ _ | UpdateBucket _ _ _ _ _ _ | DeleteBucket _ => true
  | _ => false
  end.

Record store_ok (B : backend) : Prop := mkStoreOk {
  ok_init_inv : b_inv B (b_init B);
  ok_init_map : b_map B (b_init B) = [];
  ok_view : forall c b, b_view B c b = aget b (b_map B c);
  ok_nodup : forall c, b_inv B c -> NoDup (map fst (b_map B c));
  ok_buckets : forall c, b_step B c Buckets = (c, Ok (OBuckets (listing_of (b_map B c))));
  ok_inv_step : forall c o, b_inv B c -> b_inv B (fst (b_step B c o));
  ok_frame : forall c o, b_inv B c -> lifecycle_write o = false ->
    listing_of (b_map B (fst (b_step B c o))) = listing_of (b_map B c);
  (* no call other than delete_bucket makes a bucket disappear (whatever its arguments) *)
  ok_keys_stay : forall c o b0, b_inv B c ->
    match o with DeleteBucket _ => False | _ => True end ->
    aget b0 (b_map B c) <> None -> aget b0 (b_map B (fst (b_step B c o))) <> None;
  ok_create : forall c b m, b_inv B c -> aget b (b_map B c) = None ->
    exists c' o m', b_step B c (CreateBucket b m) = (c', Ok o) /\ stored_as m m' /\
                    b_map B c' = b_map B c ++ [(b, (m', []))];
  ok_update : forall c b ty cl ho na da m es, b_inv B c -> aget b (b_map B c) = Some (m, es) ->
    nonempty ty -> nonempty cl -> nonempty ho -> nonempty na -> nonempty da ->
    exists c' r, b_step B c (UpdateBucket b ty cl ho na da) = (c', r) /\
      ((exists o, r = Ok o) \/
       (r = Err ValueError /\ ty = None /\ cl = None /\ ho = None /\ na = None /\ da = None)) /\
      b_map B c' = aset b (updated_meta ty cl ho na da m, es) (b_map B c);
  ok_delete : forall c b v, b_inv B c -> aget b (b_map B c) = Some v ->
    exists c' o, b_step B c (DeleteBucket b) = (c', Ok o) /\ b_map B c' = adel b (b_map B c);
  ok_metadata : forall c b m es, b_inv B c -> aget b (b_map B c) = Some (m, es) ->
    b_step B c (GetMetadata b) = (c, Ok (OMeta b m));
  ok_missing_metadata : forall c b, b_inv B c -> aget b (b_map B c) = None ->
    b_step B c (GetMetadata b) = (c, Err ValueError);
  ok_missing_update : forall c b ty cl ho na da, b_inv B c -> aget b (b_map B c) = None ->
    b_step B c (UpdateBucket b ty cl ho na da) = (c, Err ValueError);
  ok_missing_delete : forall c b, b_inv B c -> aget b (b_map B c) = None ->
    b_step B c (DeleteBucket b) = (c, Err ValueError) }.
