(* C15: the empty list is a unit on both sides (no sortedness, alignment or fuel hypothesis). *)
From AwVerif Require Import Base.Prelude Model.UnionNoOverlap.

Lemma uno_unit_right : forall a, union_no_overlap a [] = Ok a.
Proof.
  intros a. unfold union_no_overlap. destruct a as [|e r]; [reflexivity|].
  cbn [length Nat.add uno_loop app]. rewrite app_nil_r. reflexivity.
Qed.

Lemma uno_unit_left : forall b, union_no_overlap [] b = Ok b.
Proof. intros b. unfold union_no_overlap. cbn [length Nat.add]. destruct (length b); reflexivity. Qed.
