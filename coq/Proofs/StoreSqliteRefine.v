(* Sqlite back end: what each statement does to the ADDRESSED bucket's view (the other half
   of the footprint lemmas of StoreSqliteProofs), the abstraction to the reference state,
   and the refinement of the reference list model (C02). *)
From Coq Require Import Permutation Sorted ZifyBool.
From AwVerif Require Import Base.Prelude Model.StoreBase Model.SqliteStore Model.StoreSpec
  Proofs.StoreBaseFacts Proofs.StoreMemProofs Proofs.StoreMemRefine Proofs.StoreSpecFacts
  Proofs.StoreSqliteProofs.

(* ---------- rows and events ---------- *)
Lemma row_event_set_cells : forall r e, row_event (set_cells r e) = set_eid e (Some (er_id r)).
Proof. intros. unfold row_event, set_cells, set_eid. cbn. f_equal. lia. Qed.

Lemma has_id_row_event : forall i r, has_id i (row_event r) = (er_id r =? i).
Proof. reflexivity. Qed.

Lemma map_row_event_replace : forall i e X,
  map row_event (update_where (fun r => er_id r =? i) (fun r => set_cells r e) X)
  = spec_replace i e (map row_event X).
Proof.
  unfold update_where, spec_replace. induction X as [|r t IH]; [reflexivity|]. cbn [map]. rewrite IH. f_equal.
  rewrite has_id_row_event. destruct (er_id r =? i) eqn:E; [|reflexivity].
  rewrite row_event_set_cells. f_equal. f_equal. lia.
Qed.

Lemma map_row_event_delete : forall i X,
  map row_event (delete_where (fun r => er_id r =? i) X) = spec_delete i (map row_event X).
Proof.
  unfold delete_where, spec_delete. induction X as [|r t IH]; [reflexivity|]. cbn.
  destruct (er_id r =? i); cbn; now rewrite IH.
Qed.

Lemma live_ids_row_events : forall X, live_ids (map row_event X) = map er_id X.
Proof. induction X as [|r t IH]; [reflexivity|]. rewrite map_cons, live_ids_cons. cbn. now rewrite IH. Qed.

(* ---------- the addressed bucket ---------- *)
Definition rows_of (c : sqstate) (rid : Z) : list erow :=
  filter (fun e => er_bucket e =? rid) (sq_events c).

Lemma sq_view_Some : forall c b m es,
  sq_view c b = Some (m, es) ->
  exists r, bucket_row c b = Some r /\ m = br_meta r /\ es = map row_event (rows_of c (br_rowid r)) /\
            sql_bucket_rowid c b = Some (br_rowid r).
Proof.
  intros c b m es H. rewrite sq_view_row in H. rewrite sql_bucket_rowid_row.
  destruct (bucket_row c b) as [r|]; [|discriminate]. inversion H; subst. eauto.
Qed.

Lemma sq_view_None : forall c b, sq_view c b = None -> sql_bucket_rowid c b = None /\ bucket_row c b = None.
Proof.
  intros c b H. rewrite sq_view_row in H. rewrite sql_bucket_rowid_row.
  destruct (bucket_row c b); [discriminate|auto].
Qed.

Lemma eq_nullable_Some : forall x y, eq_nullable x (Some y) = (x =? y).
Proof. reflexivity. Qed.

(* INSERT INTO events: the bucket's list grows by the event under the new id *)
Lemma sq_view_insert_event : forall c b e m es,
  sq_view c b = Some (m, es) ->
  exists c', sql_insert_event c b e = Ok (c', sq_seq_e c + 1) /\
             sq_view c' b = Some (m, es ++ [set_eid e (Some (sq_seq_e c + 1))]).
Proof.
  intros c b e m es H. apply sq_view_Some in H as [r [Hr [-> [-> Hrid]]]].
  unfold sql_insert_event. rewrite Hrid. eexists. split; [reflexivity|].
  rewrite sq_view_row. unfold bucket_row in *. cbn. rewrite Hr. f_equal. f_equal.
  unfold rows_of. rewrite filter_app, map_app. cbn. rewrite Z.eqb_refl. cbn. f_equal.
  unfold row_event, set_eid. cbn. f_equal. f_equal. lia.
Qed.

Lemma sq_insert_event_missing : forall c b e,
  sq_view c b = None -> sql_insert_event c b e = Err IntegrityError.
Proof. intros c b e H. apply sq_view_None in H as [H _]. unfold sql_insert_event. now rewrite H. Qed.

(* UPDATE ... WHERE id = ? AND bucketrow = (...): replace-by-id on the bucket's list *)
Lemma sq_view_update_event : forall c b i e m es,
  sq_view c b = Some (m, es) ->
  sq_view (sql_update_event c b i e) b = Some (m, spec_replace i e es).
Proof.
  intros c b i e m es H. apply sq_view_Some in H as [r [Hr [-> [-> Hrid]]]].
  rewrite sq_view_row. unfold bucket_row in *. cbn [sql_update_event with_events sq_buckets sq_events].
  rewrite Hr. f_equal. f_equal. rewrite Hrid.
  rewrite filter_update_where_comm by reflexivity.
  rewrite <- map_row_event_replace. f_equal. apply update_where_ext_in.
  intros x Hx. apply In_filter_all in Hx. rewrite eq_nullable_Some, Hx. apply andb_true_r.
Qed.

Lemma sq_update_event_missing : forall c b i e,
  sq_view c b = None -> sql_update_event c b i e = c.
Proof.
  intros c b i e H. apply sq_view_None in H as [H _]. unfold sql_update_event. rewrite H.
  rewrite update_where_none; [now destruct c|]. intros r _. cbn. apply andb_false_r.
Qed.

(* the newest row of a bucket *)
Lemma sql_newest_id_spec : forall c b m es,
  sq_view c b = Some (m, es) ->
  match sql_newest_id c b with
  | Some i => exists l, is_newest l es /\ eid l = Some i
  | None => es = []
  end.
Proof.
  intros c b m es H. apply sq_view_Some in H as [r [Hr [-> [-> Hrid]]]].
  unfold sql_newest_id, sql_order_start_desc_id_desc, select_where. rewrite Hrid.
  rewrite (filter_ext _ (fun e => er_bucket e =? br_rowid r)) by reflexivity.
  fold (rows_of c (br_rowid r)).
  destruct (sort_by _ (sort_by _ (rows_of c (br_rowid r)))) as [|r0 t] eqn:E.
  - apply sort_by_nil, sort_by_nil in E. now rewrite E.
  - apply sort_by_head_min in E as [I0 M0]. apply sort_by_In in I0.
    exists (row_event r0). split; [|reflexivity]. split; [now apply in_map|].
    intros x Hx. apply in_map_iff in Hx as [rx [<- Ix]]. cbn.
    assert (- er_start r0 <= - er_start rx); [|lia]. apply M0. now apply sort_by_In.
Qed.

(* UPDATE ... WHERE id = (SELECT id ... ORDER BY starttime DESC, id DESC LIMIT 1) *)
Lemma sq_view_update_newest : forall c b e m es,
  sq_view c b = Some (m, es) ->
  sq_view (sql_update_newest c b e) b
  = Some (m, match sql_newest_id c b with Some i => spec_replace i e es | None => es end).
Proof.
  intros c b e m es H. apply sq_view_Some in H as [r [Hr [-> [-> Hrid]]]].
  rewrite sq_view_row. unfold bucket_row in *. cbn [sql_update_newest with_events sq_buckets sq_events].
  rewrite Hr. f_equal. f_equal. rewrite filter_update_where_comm by reflexivity.
  destruct (sql_newest_id c b) as [i|].
  - rewrite <- map_row_event_replace. reflexivity.
  - rewrite update_where_none; reflexivity.
Qed.

(* DELETE FROM events WHERE id = ? AND bucketrow = (...) *)
Lemma sq_view_delete_event : forall c b i m es,
  sq_view c b = Some (m, es) ->
  sq_view (fst (sql_delete_event c b i)) b = Some (m, spec_delete i es).
Proof.
  intros c b i m es H. apply sq_view_Some in H as [r [Hr [-> [-> Hrid]]]].
  rewrite sq_view_row. unfold bucket_row in *. cbn [sql_delete_event fst with_events sq_buckets sq_events].
  rewrite Hr. f_equal. f_equal. rewrite Hrid. rewrite filter_delete_where_comm.
  rewrite <- map_row_event_delete. f_equal. apply delete_where_ext_in.
  intros x Hx. apply In_filter_all in Hx. rewrite eq_nullable_Some, Hx. apply andb_true_r.
Qed.

Lemma NoDup_count_le1 : forall (l : list erow) (g : erow -> bool) i,
  NoDup (map er_id l) -> (length (filter (fun r => (er_id r =? i)%Z && g r) l) <= 1)%nat.
Proof.
  induction l as [|a t IH]; intros g i N; cbn; [lia|].
  inversion N as [|? ? NI ND]; subst. destruct (er_id a =? i) eqn:E; cbn.
  - assert (filter (fun r => (er_id r =? i) && g r) t = []) as ->.
    { apply filter_none. intros x Ix. destruct (er_id x =? i) eqn:Ex; [|reflexivity].
      exfalso. apply NI. assert (er_id a = er_id x) by lia. rewrite H. now apply in_map. }
    destruct (g a); cbn; lia.
  - now apply IH.
Qed.

Lemma sq_delete_event_count : forall c b i m es,
  sq_Inv c -> sq_view c b = Some (m, es) ->
  (is_live i es -> snd (sql_delete_event c b i) = 1) /\
  (~ is_live i es -> snd (sql_delete_event c b i) = 0).
Proof.
  intros c b i m es I H. apply sq_view_Some in H as [r [Hr [-> [-> Hrid]]]].
  unfold sql_delete_event, rowcount. cbn [snd]. rewrite Hrid.
  pose proof (NoDup_count_le1 (sq_events c) (fun r0 => eq_nullable (er_bucket r0) (Some (br_rowid r))) i
                (sqi_eids c I)) as LE.
  unfold is_live. rewrite live_ids_row_events. split; intro L.
  - apply in_map_iff in L as [x [Ex Ix]]. unfold rows_of in Ix. apply filter_In in Ix as [Ix Bx].
    assert (In x (filter (fun r0 => (er_id r0 =? i) && eq_nullable (er_bucket r0) (Some (br_rowid r))) (sq_events c))).
    { apply filter_In. split; [assumption|]. rewrite eq_nullable_Some. lia. }
    destruct (filter _ (sq_events c)) as [|y [|z t]]; [destruct H|reflexivity|cbn in LE; lia].
  - destruct (filter _ (sq_events c)) as [|y t] eqn:F; [reflexivity|]. exfalso. apply L.
    assert (Iy : In y (y :: t)) by now left. rewrite <- F in Iy. apply filter_In in Iy as [Iy Q].
    apply andb_prop in Q as [Q1 Q2]. rewrite eq_nullable_Some in Q2.
    apply in_map_iff. exists y. split; [lia|]. unfold rows_of. apply filter_In. split; assumption.
Qed.

(* the ids of a bucket's events are pairwise distinct and all set *)
Lemma sq_view_ids_unique : forall c b m es, sq_Inv c -> sq_view c b = Some (m, es) -> ids_unique es.
Proof.
  intros c b m es I H. apply sq_view_Some in H as [r [_ [_ [-> _]]]]. split.
  - rewrite live_ids_row_events. unfold rows_of.
    pose proof (sqi_eids c I) as N. revert N. generalize (sq_events c).
    induction l as [|a t IH]; intros N; cbn; [constructor|]. inversion N as [|? ? NI ND]; subst.
    destruct (er_bucket a =? br_rowid r); cbn; [|now apply IH].
    constructor; [|now apply IH]. intro X. apply NI. apply in_map_iff in X as [x [Ex Ix]].
    apply filter_In in Ix as [Ix _]. rewrite <- Ex. now apply in_map.
  - intros e He. apply in_map_iff in He as [x [<- _]]. discriminate.
Qed.

(* ---------- domain invariant (needed only by the unwindowed reads) ---------- *)
Definition sq_Dom (c : sqstate) : Prop :=
  forall r, In r (sq_events c) -> sq_in_window 0 MAX_TIMESTAMP r = true.

Lemma sq_Dom_init : sq_Dom sq_init.
Proof. intros r []. Qed.

Lemma ev_dom_cells : forall r e, ev_dom e -> sq_in_window 0 MAX_TIMESTAMP (set_cells r e) = true.
Proof. intros r e [H1 H2]. unfold sq_in_window, MAX_TIMESTAMP. cbn. lia. Qed.

Lemma sq_Dom_update : forall c q e,
  sq_Dom c -> ev_dom e ->
  sq_Dom (with_events c (update_where q (fun r => set_cells r e) (sq_events c)) (sq_seq_e c)).
Proof.
  intros c q e D He x Hx. cbn in Hx. apply In_update_where in Hx as [r [Ir [->|[_ ->]]]];
    [now apply D|now apply ev_dom_cells].
Qed.

Lemma sq_Dom_insert : forall c b e c' i,
  sq_Dom c -> ev_dom e -> sql_insert_event c b e = Ok (c', i) -> sq_Dom c'.
Proof.
  intros c b e c' i D [H1 H2] H. unfold sql_insert_event in H.
  destruct (sql_bucket_rowid c b); [|discriminate]. inversion H; subst. intros x Hx. cbn in Hx.
  apply in_app_iff in Hx as [Hx|[<-|[]]]; [now apply D|].
  unfold sq_in_window, MAX_TIMESTAMP. cbn. lia.
Qed.

Lemma sq_Dom_upserts : forall es c b,
  sq_Dom c -> (forall e, In e es -> ev_dom e) -> sq_Dom (sq_upserts c b es).
Proof.
  induction es as [|e t IH]; intros c b D H; [assumption|]. cbn.
  destruct (eid e); apply IH; try assumption; try (intros; apply H; now right).
  apply sq_Dom_update; [assumption|apply H; now left].
Qed.

Lemma sq_Dom_executemany : forall es c b,
  sq_Dom c -> (forall e, In e es -> ev_dom e) -> sq_Dom (fst (sq_executemany_insert c b es)).
Proof.
  induction es as [|e t IH]; intros c b D H; [assumption|]. cbn.
  destruct (sql_insert_event c b e) as [[c' i]|k|] eqn:E; [|assumption|assumption].
  apply IH; [|intros; apply H; now right]. eapply sq_Dom_insert; [eassumption|apply H; now left|eassumption].
Qed.

Theorem sq_step_Dom : forall c o, sq_Dom c -> op_dom o -> sq_Dom (fst (sq_step c o)).
Proof.
  intros c o D H. destruct o as [b m|b ty cl ho na da|b| |b|b e|b es|b i e|b e|b i|b i|b l s e|b s e];
    cbn in H; cbn [sq_step].
  - destruct (sql_insert_bucket c b m) as [c'|k|] eqn:E; [|assumption|assumption].
    unfold sql_insert_bucket in E. destruct (existsb _ _); [discriminate|]. inversion E; subst. exact D.
  - destruct (negb _); [assumption|exact D].
  - intros x Hx. cbn in Hx. apply In_delete_where in Hx as [Hx _]. now apply D.
  - assumption.
  - assumption.
  - destruct (sql_insert_event c b e) as [[c' i]|k|] eqn:E; [|assumption|assumption].
    cbn. eapply sq_Dom_insert; eassumption.
  - apply sq_Dom_executemany; [now apply sq_Dom_upserts|].
    intros e He. apply filter_In in He as [He _]. now apply H.
  - now apply sq_Dom_update.
  - now apply sq_Dom_update.
  - intros x Hx. cbn in Hx. apply In_delete_where in Hx as [Hx _]. now apply D.
  - assumption.
  - destruct (l =? 0); assumption.
  - assumption.
Qed.

(* ---------- abstraction ---------- *)
Definition sq_abs (c : sqstate) : sstate :=
  map (fun r => (br_id r, (br_meta r, map row_event (rows_of c (br_rowid r))))) (sq_buckets c).

Lemma aget_map_rows : forall {V} (F : brow -> V) bs b,
  aget b (map (fun r => (br_id r, F r)) bs)
  = match find (fun r => br_id r =? b) bs with Some r => Some (F r) | None => None end.
Proof.
  induction bs as [|r t IH]; intros b; cbn; [reflexivity|].
  destruct (br_id r =? b); [reflexivity|apply IH].
Qed.

Lemma aget_sq_abs : forall c b, aget b (sq_abs c) = sq_view c b.
Proof. intros. unfold sq_abs. rewrite aget_map_rows. reflexivity. Qed.

Lemma akeys_sq_abs : forall c, akeys (sq_abs c) = map br_id (sq_buckets c).
Proof. intros. unfold sq_abs, akeys. rewrite map_map. reflexivity. Qed.

Lemma sq_abs_aset : forall c c' b v,
  sq_Inv c -> map br_id (sq_buckets c') = map br_id (sq_buckets c) ->
  sq_view c b <> None -> sq_view c' b = Some v ->
  (forall k, k <> b -> sq_view c' k = sq_view c k) ->
  sq_abs c' = aset b v (sq_abs c).
Proof.
  intros c c' b v I K E V F.
  assert (Inb : In b (akeys (sq_abs c))).
  { rewrite <- aget_sq_abs in E. destruct (aget b (sq_abs c)) eqn:G; [|congruence].
    eapply aget_In_keys; eassumption. }
  apply alist_ext.
  - rewrite akeys_aset_present by assumption. now rewrite !akeys_sq_abs.
  - rewrite akeys_sq_abs, K. apply (sqi_bids c I).
  - intros k _. rewrite aget_aset_case, !aget_sq_abs. destruct (b =? k) eqn:X.
    + assert (b = k) by lia. now subst.
    + apply F. lia.
Qed.

Lemma sq_frame_others : forall c o b, sq_Inv c -> target o = Some b ->
  forall k, k <> b -> sq_view (fst (sq_step c o)) k = sq_view c k.
Proof. intros c o b I T k D. apply sq_frame; [assumption|]. rewrite T. congruence. Qed.

(* statements on events leave the buckets table alone *)
Lemma sq_upserts_buckets : forall es c b, sq_buckets (sq_upserts c b es) = sq_buckets c.
Proof.
  induction es as [|e t IH]; intros c b; [reflexivity|]. cbn.
  destruct (eid e); rewrite IH; reflexivity.
Qed.

Lemma sq_executemany_buckets : forall es c b,
  sq_buckets (fst (sq_executemany_insert c b es)) = sq_buckets c.
Proof.
  induction es as [|e t IH]; intros c b; [reflexivity|]. cbn.
  destruct (sql_insert_event c b e) as [[c' i]|k|] eqn:E; [|reflexivity|reflexivity].
  rewrite IH. unfold sql_insert_event in E. destruct (sql_bucket_rowid c b); [|discriminate].
  now inversion E.
Qed.

(* ---------- bulk: upserts, then executemany ---------- *)
Lemma sq_view_upserts : forall es c b m cur,
  sq_view c b = Some (m, cur) -> sq_view (sq_upserts c b es) b = Some (m, ups cur es).
Proof.
  unfold ups. induction es as [|e t IH]; intros c b m cur H; [assumption|]. cbn.
  destruct (eid e) as [i|]; [|now apply IH]. apply IH. now apply sq_view_update_event.
Qed.

Lemma sq_seq_fresh : forall c b m cur,
  sq_Inv c -> sq_view c b = Some (m, cur) -> ~ is_live (sq_seq_e c + 1) cur.
Proof.
  intros c b m cur I H L. apply sq_view_Some in H as [r [_ [_ [-> _]]]].
  unfold is_live in L. rewrite live_ids_row_events in L. apply in_map_iff in L as [x [Ex Ix]].
  unfold rows_of in Ix. apply filter_In in Ix as [Ix _]. pose proof (sqi_eid_bound c I x Ix). lia.
Qed.

Lemma sq_executemany_spec : forall news c b m cur,
  sq_Inv c -> sq_view c b = Some (m, cur) -> (forall e, In e news -> eid e = None) ->
  exists R, snd (sq_executemany_insert c b news) = Ok ONone /\
            sq_view (fst (sq_executemany_insert c b news)) b = Some (m, R) /\ spec_many cur news R.
Proof.
  induction news as [|e t IH]; intros c b m cur I H N.
  - exists cur. repeat split; [assumption|constructor].
  - destruct (sq_view_insert_event c b e m cur H) as [c' [E V]]. cbn. rewrite E.
    assert (I' : sq_Inv c') by (eapply sq_Inv_insert_event; eassumption).
    destruct (IH c' b m _ I' V (fun e' He' => N e' (or_intror He'))) as [R [H1 [H2 H3]]].
    exists R. repeat split; [assumption|assumption|].
    apply (sm_insert cur e (sq_seq_e c + 1) t R); [apply N; now left|exact (sq_seq_fresh c b m cur I H)|exact H3].
Qed.

Lemma no_id_noid : forall es, filter no_id es = filter noid es.
Proof. intros. apply filter_ext. intro e. reflexivity. Qed.

(* ---------- reads ---------- *)
Lemma SSorted_map : forall {A B} (R : A -> A -> Prop) (R' : B -> B -> Prop) (f : A -> B) l,
  (forall a b, R a b -> R' (f a) (f b)) -> StronglySorted R l -> StronglySorted R' (map f l).
Proof.
  induction l as [|a t IH]; intros H S; cbn; [constructor|].
  inversion S as [|? ? St F]; subst. constructor; [now apply IH|].
  rewrite Forall_forall in *. intros y Hy. apply in_map_iff in Hy as [x [<- Ix]]. apply H, F, Ix.
Qed.

Lemma sq_read_rows : forall c b m es,
  sq_Dom c -> sq_view c b = Some (m, es) ->
  exists r, es = map row_event (rows_of c (br_rowid r)) /\
  select_where (fun x => eq_nullable (er_bucket x) (sql_bucket_rowid c b) && sq_in_window 0 MAX_TIMESTAMP x)
               (sq_events c) = rows_of c (br_rowid r).
Proof.
  intros c b m es D H. apply sq_view_Some in H as [r [_ [_ [-> Hrid]]]]. exists r. split; [reflexivity|].
  rewrite Hrid. unfold select_where, rows_of. apply filter_ext_in. intros x Ix.
  rewrite (D x Ix), eq_nullable_Some. apply andb_true_r.
Qed.

Lemma sq_order_perm : forall X, Permutation (sql_order_start_desc_id_desc X) X.
Proof. intros. unfold sql_order_start_desc_id_desc. now rewrite !sort_by_perm. Qed.

Lemma sq_order_sorted : forall X, sorted_desc (map row_event (sql_order_start_desc_id_desc X)).
Proof.
  intros. apply StronglySorted_Sorted. unfold sql_order_start_desc_id_desc.
  eapply SSorted_map; [|apply sort_by_ssorted]. intros a b H. unfold key_le in H. cbn. lia.
Qed.

Lemma count_unique_id : forall (l : list brow) r,
  NoDup (map br_id l) -> In r l -> length (filter (fun x => br_id x =? br_id r) l) = 1%nat.
Proof.
  induction l as [|a t IH]; intros r N Ir; [destruct Ir|]. inversion N as [|? ? NI ND]; subst. cbn.
  destruct Ir as [<-|Ir].
  - rewrite Z.eqb_refl. cbn. rewrite filter_none; [reflexivity|]. intros x Ix.
    destruct (br_id x =? br_id a) eqn:Y; [|reflexivity]. exfalso. apply NI.
    replace (br_id a) with (br_id x) by lia. now apply in_map.
  - destruct (br_id a =? br_id r) eqn:Y.
    + exfalso. apply NI. replace (br_id a) with (br_id r) by lia. now apply in_map.
    + now apply IH.
Qed.

(* ---------- one step ---------- *)
Theorem sq_refines : forall c o, sq_Inv c -> sq_Dom c -> pre (sq_abs c) o ->
  exists out, snd (sq_step c o) = Ok out /\ spec_step (sq_abs c) o (sq_abs (fst (sq_step c o))) out.
Proof.
  intros c o I D P.
  destruct o as [b m|b ty cl ho na da|b| |b|b e|b es|b i e|b e|b i|b i|b l s e|b s e]; cbn in P;
    rewrite ?aget_sq_abs in P; cbn [sq_step].
  - (* create *)
    apply sq_view_None in P as [_ P]. unfold sql_insert_bucket.
    assert (X : existsb (fun r => br_id r =? b) (sq_buckets c) = false).
    { destruct (existsb _ _) eqn:X; [|reflexivity]. apply existsb_exists in X as [x [Ix Ex]].
      unfold bucket_row in P. pose proof (find_none _ _ P x Ix) as N. cbn in N. congruence. }
    rewrite X. cbn [fst snd].
    set (c' := with_buckets c (sq_buckets c ++ [mkBrow (sq_seq_b c + 1) b m]) (sq_seq_b c + 1)).
    assert (V : sq_view c' b = Some (m, [])).
    { rewrite sq_view_row. unfold bucket_row, c'. cbn. rewrite find_app.
      unfold bucket_row in P. rewrite P. cbn. rewrite Z.eqb_refl. f_equal. f_equal.
      rewrite filter_none; [reflexivity|]. intros x Ix.
      pose proof (sqi_owner c I x Ix) as O. apply in_map_iff in O as [br [Eb Ib]].
      pose proof (sqi_rowid_bound c I br Ib). cbn. lia. }
    exists (OMeta b m). split.
    + unfold sq_get_metadata, sql_select_bucket. unfold c'. cbn. rewrite find_app.
      unfold bucket_row in P. rewrite P. cbn. now rewrite Z.eqb_refl.
    + replace (sq_abs c') with (aset b (m, []) (sq_abs c)).
      * apply sp_create; [rewrite aget_sq_abs, sq_view_row; now rewrite P|].
        unfold created_meta. repeat split.
      * assert (G : aget b (sq_abs c) = None) by (rewrite aget_sq_abs, sq_view_row; now rewrite P).
        rewrite (aset_absent _ _ _ G). symmetry. apply alist_ext.
        -- rewrite akeys_sq_abs. unfold akeys. rewrite map_app. cbn. unfold c'. cbn.
           rewrite map_app. cbn. f_equal. fold (akeys (sq_abs c)). now rewrite akeys_sq_abs.
        -- rewrite akeys_sq_abs. unfold c'. cbn. rewrite map_app. cbn.
           apply NoDup_app_snoc; [apply (sqi_bids c I)|].
           intro Hin. apply in_map_iff in Hin as [x [Ex Ix]].
           unfold bucket_row in P. pose proof (find_none _ _ P x Ix) as N. cbn in N. lia.
        -- intros k _. rewrite <- (aset_absent _ _ _ G), aget_aset_case, !aget_sq_abs.
           destruct (b =? k) eqn:Y; [assert (b = k) by lia; now subst|].
           assert (E : sql_insert_bucket c b m = Ok c') by (unfold sql_insert_bucket; now rewrite X).
           eapply sql_insert_bucket_frame; [|eassumption]. lia.
  - (* update_bucket *)
    destruct P as [E [_ [_ [_ [_ [_ Any]]]]]]. rewrite Any. cbn [negb fst snd].
    destruct (sq_view c b) as [[m es]|] eqn:V; [|congruence].
    pose proof V as V0. apply sq_view_Some in V as [r [Hr [-> [-> Hrid]]]].
    set (c' := sql_update_bucket c b ty cl ho na da).
    assert (Hr' : bucket_row c' b = Some (mkBrow (br_rowid r) (br_id r) (update_meta not_none ty cl ho na da (br_meta r)))).
    { unfold bucket_row, c', sql_update_bucket. cbn. rewrite find_update_where_same; [|auto].
      unfold bucket_row in Hr. now rewrite Hr. }
    exists (OMeta (br_id r) (update_meta not_none ty cl ho na da (br_meta r))). split.
    + unfold sq_get_metadata, sql_select_bucket. unfold bucket_row in Hr'. now rewrite Hr'.
    + replace (sq_abs c') with
        (aset b (update_meta not_none ty cl ho na da (br_meta r), map row_event (rows_of c (br_rowid r))) (sq_abs c)).
      * apply sp_update. now rewrite aget_sq_abs.
      * symmetry. apply sq_abs_aset; try assumption.
        -- unfold c', sql_update_bucket. cbn. now rewrite map_update_where.
        -- congruence.
        -- rewrite sq_view_row, Hr'. reflexivity.
        -- intros k Dk. now apply sql_update_bucket_frame.
  - (* delete_bucket *)
    destruct (sq_view c b) as [[m es]|] eqn:V; [|congruence].
    pose proof V as V0. apply sq_view_Some in V as [r [Hr [-> [-> Hrid]]]].
    assert (N1 : rowcount (fun r0 => br_id r0 =? b) (sq_buckets c) = 1).
    { unfold rowcount. apply bucket_row_In in Hr as [Ir Eid]. subst b.
      rewrite (count_unique_id _ r (sqi_bids c I) Ir). reflexivity. }
    exists ONone. split.
    + cbn. unfold sql_delete_bucket, sql_delete_events_of. cbn. now rewrite N1.
    + replace (sq_abs (fst (let '(c2, n) := sql_delete_bucket (sql_delete_events_of c b) b in
                            (c2, if n =? 1 then Ok ONone else Err ValueError))))
        with (adel b (sq_abs c)).
      * eapply sp_delete_bucket. rewrite aget_sq_abs. eassumption.
      * symmetry. apply alist_ext.
        -- rewrite akeys_adel, !akeys_sq_abs. cbn.
           unfold delete_where. generalize (sq_buckets c). induction l as [|a t IH]; [reflexivity|].
           cbn. destruct (br_id a =? b); cbn; now rewrite IH.
        -- rewrite akeys_sq_abs. cbn. apply NoDup_map_delete_where. apply (sqi_bids c I).
        -- intros k _. rewrite aget_sq_abs. destruct (Z.eq_dec k b) as [->|Dk].
           ++ rewrite aget_adel_same. rewrite sq_view_row. unfold bucket_row. cbn.
              destruct (find _ _) as [x|] eqn:F; [|reflexivity]. apply find_some in F as [F1 F2].
              apply In_delete_where in F1 as [_ F1]. cbn in *. congruence.
           ++ rewrite aget_adel_other by assumption. rewrite aget_sq_abs.
              exact (sql_delete_bucket_frame c b k I Dk).
  - (* buckets *)
    eexists. split; [reflexivity|]. cbn.
    replace (map (fun r => (br_id r, br_meta r)) (sq_buckets c))
      with (map (fun kv : Z * (meta * list event) => (fst kv, fst (snd kv))) (sq_abs c)).
    + apply sp_buckets.
    + unfold sq_abs. rewrite map_map. reflexivity.
  - (* get_metadata *)
    destruct (sq_view c b) as [[m es]|] eqn:V; [|congruence].
    pose proof V as V0. apply sq_view_Some in V as [r [Hr [-> [-> Hrid]]]].
    unfold sq_get_metadata, sql_select_bucket. unfold bucket_row in Hr. rewrite Hr.
    eexists. split; [reflexivity|]. cbn. apply find_some in Hr as [_ Eid].
    replace (br_id r) with b by lia. eapply sp_metadata. rewrite aget_sq_abs. eassumption.
  - (* insert_one *)
    destruct P as [E Ee]. destruct (sq_view c b) as [[m es]|] eqn:V; [|congruence].
    destruct (sq_view_insert_event c b e m es V) as [c' [Ei Vi]]. rewrite Ei. cbn [fst snd].
    eexists. split; [reflexivity|].
    replace (sq_abs c') with (aset b (m, es ++ [set_eid e (Some (sq_seq_e c + 1))]) (sq_abs c)).
    + apply sp_insert_one; [now rewrite aget_sq_abs|assumption|eapply sq_seq_fresh; eassumption].
    + symmetry. apply sq_abs_aset; try assumption.
      * unfold sql_insert_event in Ei. destruct (sql_bucket_rowid c b); [|discriminate]. now inversion Ei.
      * congruence.
      * intros k Dk. eapply sql_insert_event_frame; eassumption.
  - (* insert_many *)
    destruct P as [m [cur [V L]]]. rewrite ?aget_sq_abs in V.
    pose proof (sq_view_upserts es c b m cur V) as V1.
    pose proof (sq_Inv_upserts es c b I) as I1.
    destruct (sq_executemany_spec (filter no_id es) (sq_upserts c b es) b m (ups cur es) I1 V1)
      as [R [H1 [H2 H3]]].
    { intros e He. apply filter_In in He as [_ He]. unfold no_id in He. now destruct (eid e). }
    exists ONone. split; [assumption|].
    replace (sq_abs (fst (sq_executemany_insert (sq_upserts c b es) b (filter no_id es))))
      with (aset b (m, R) (sq_abs c)).
    + apply (sp_insert_many (sq_abs c) b es m cur R ONone); [rewrite aget_sq_abs; exact V|].
      apply spec_many_reorder; [assumption|].
      now rewrite <- no_id_noid.
    + symmetry. apply sq_abs_aset; try assumption.
      * now rewrite sq_executemany_buckets, sq_upserts_buckets.
      * congruence.
      * intros k Dk. rewrite sq_executemany_frame by assumption. now apply sq_upserts_frame.
  - (* replace *)
    destruct P as [m [cur [V L]]]. rewrite ?aget_sq_abs in V.
    eexists. split; [reflexivity|]. cbn [fst]. unfold sq_replace.
    replace (sq_abs (sql_update_event c b i e)) with (aset b (m, spec_replace i e cur) (sq_abs c)).
    + apply sp_replace; [now rewrite aget_sq_abs|assumption].
    + symmetry. apply sq_abs_aset; try assumption; [reflexivity|congruence|now apply sq_view_update_event|].
      intros k Dk. now apply sql_update_event_frame.
  - (* replace_last *)
    destruct P as [m [cur [V N]]]. rewrite ?aget_sq_abs in V.
    eexists. split; [reflexivity|]. cbn [fst].
    pose proof (sql_newest_id_spec c b m cur V) as S. pose proof (sq_view_update_newest c b e m cur V) as V'.
    destruct (sql_newest_id c b) as [i|]; [|congruence]. destruct S as [l [Nl El]].
    replace (sq_abs (sql_update_newest c b e)) with (aset b (m, spec_replace i e cur) (sq_abs c)).
    + eapply sp_replace_last; [now rewrite aget_sq_abs|eassumption|assumption].
    + symmetry. apply sq_abs_aset; try assumption; [reflexivity|congruence|].
      intros k Dk. now apply sql_update_newest_frame.
  - (* delete *)
    destruct (sq_view c b) as [[m es]|] eqn:V; [|congruence].
    destruct (sq_delete_event_count c b i m es I V) as [C1 C0].
    pose proof (sq_view_delete_event c b i m es V) as V'.
    destruct (sql_delete_event c b i) as [c' n] eqn:Ed. cbn [fst snd] in *.
    assert (A : sq_abs c' = aset b (m, spec_delete i es) (sq_abs c)).
    { apply sq_abs_aset; try assumption.
      - unfold sql_delete_event in Ed. now inversion Ed.
      - congruence.
      - intros k Dk. pose proof (sql_delete_event_frame c b i k I Dk) as F. now rewrite Ed in F. }
    destruct (in_dec Z.eq_dec i (live_ids es)) as [L|L].
    + rewrite (C1 L). eexists. split; [reflexivity|]. cbn. rewrite A.
      apply sp_delete_live; [now rewrite aget_sq_abs|assumption].
    + rewrite (C0 L). eexists. split; [reflexivity|]. cbn.
      replace (sq_abs c') with (sq_abs c).
      * eapply sp_delete_absent; [rewrite aget_sq_abs; eassumption|assumption].
      * rewrite A. symmetry. apply aset_same. rewrite aget_sq_abs, V. f_equal. f_equal.
        unfold spec_delete. symmetry. apply filter_all. intros x Ix.
        rewrite (not_live_has_id i es L x Ix). reflexivity.
  - (* get_event *)
    destruct (sq_view c b) as [[m es]|] eqn:V; [|congruence].
    pose proof V as V0. apply sq_view_Some in V as [r [Hr [-> [-> Hrid]]]].
    eexists. split; [reflexivity|]. cbn [fst].
    unfold sql_select_event, select_where. rewrite Hrid.
    rewrite (filter_ext _ (fun x => (er_bucket x =? br_rowid r) && (er_id x =? i))) by reflexivity.
    rewrite filter_andb. fold (rows_of c (br_rowid r)).
    destruct (filter (fun x => er_id x =? i) (rows_of c (br_rowid r))) as [|x t] eqn:F.
    + cbn. eapply sp_get_event_absent; [rewrite aget_sq_abs; eassumption|].
      unfold is_live. rewrite live_ids_row_events. intro L. apply in_map_iff in L as [y [Ey Iy]].
      assert (In y []); [|assumption]. rewrite <- F. apply filter_In. split; [assumption|lia].
    + cbn. assert (Ix : In x (x :: t)) by now left. rewrite <- F in Ix. apply filter_In in Ix as [Ix Ex].
      eapply sp_get_event_live; [rewrite aget_sq_abs; eassumption|now apply in_map|].
      cbn. f_equal. lia.
  - (* get_events *)
    destruct P as [E [-> ->]]. destruct (sq_view c b) as [[m es]|] eqn:V; [|congruence].
    destruct (sq_read_rows c b m es D V) as [r [-> Sel]].
    destruct (l =? 0) eqn:L0.
    + eexists. split; [reflexivity|]. cbn. eapply sp_get_events; [rewrite aget_sq_abs; eassumption|].
      unfold spec_read. now rewrite L0.
    + eexists. split; [reflexivity|]. cbn [fst]. eapply sp_get_events; [rewrite aget_sq_abs; eassumption|].
      unfold spec_read. rewrite L0. unfold sql_select_events. cbn [sq_window_lo sq_window_hi]. rewrite Sel.
      exists (map row_event (sql_order_start_desc_id_desc (rows_of c (br_rowid r)))). split; [|split].
      * apply Permutation_map, sq_order_perm.
      * apply sq_order_sorted.
      * unfold sql_limit. destruct (l <? 0) eqn:Ln; cbn.
        -- reflexivity.
        -- rewrite Ln. symmetry. apply firstn_map.
  - (* get_eventcount *)
    destruct P as [E [-> ->]]. destruct (sq_view c b) as [[m es]|] eqn:V; [|congruence].
    destruct (sq_read_rows c b m es D V) as [r [-> Sel]].
    eexists. split; [reflexivity|]. cbn [fst]. unfold sql_count_events, rowcount. cbn [sq_window_lo sq_window_hi].
    unfold select_where in Sel. rewrite Sel.
    replace (length (rows_of c (br_rowid r))) with (length (map row_event (rows_of c (br_rowid r))))
      by apply map_length.
    eapply sp_count. rewrite aget_sq_abs. eassumption.
Qed.
