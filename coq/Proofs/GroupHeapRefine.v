(* REFINEMENT of the heap-level C16 transforms (Model/GroupHeap.v) to Model/Group.v: on a heap
   whose argument list reads back ([glist_at]) as the event list vs, the run succeeds and
   the returned list reads back as the functional model's result on vs - for every
   aliasing (the same Event several times, shared data dicts, shared list values). *)
From AwVerif Require Import Base.Prelude Model.MemHeap Model.TransformHeap Model.DictHeap Model.Group
  Model.GroupHeap
  Proofs.MemHeapBase Proofs.MemHeapCopy Proofs.MemHeapFrame Proofs.TransformHeapCopy
  Proofs.TransformHeapBase Proofs.DictHeapBase Proofs.IntersectSort Proofs.GroupHeapFrame.
From Coq Require Import Arith Relations Sorting.Permutation.
Local Open Scope nat_scope.
Local Notation lookup := MemHeap.lookup.

(* ------------------------------------------------------------------------- *)
(* reading back *)

Lemma opt_list_Forall2 : forall {X Y} (f : X -> option Y) ks vs,
  opt_list (map f ks) = Some vs <-> Forall2 (fun k v => f k = Some v) ks vs.
Proof.
  intros X Y f. induction ks as [|k ks IH]; intros vs; cbn [map opt_list].
  - split; intro H; [inversion H; constructor|inversion H; auto].
  - split; intro H.
    + destruct (f k) eqn:E; try discriminate.
      destruct (opt_list (map f ks)) eqn:E2; try discriminate. inversion H; subst.
      constructor; auto. now apply IH.
    + inversion H; subst. rewrite H2. apply IH in H4. now rewrite H4.
Qed.

Lemma val_label_kept : forall h0 h v q, kept h0 h -> val_label h0 v = Ok q -> val_label h v = Ok q.
Proof.
  intros h0 h [x|l] q K H; cbn in *; auto.
  destruct (lookup h0 l) as [c|] eqn:L; try discriminate. now rewrite (kept_some _ _ _ _ K L).
Qed.

Lemma gdict_at_kept : forall h0 h z gd, kept h0 h -> gdict_at h0 z = Some gd -> gdict_at h z = Some gd.
Proof.
  intros h0 h z gd K. revert gd. induction z as [|[k v] z IH]; cbn [gdict_at]; intros gd H; auto.
  destruct (val_label h0 v) as [q| |] eqn:V; try discriminate.
  destruct (gdict_at h0 z) as [r|] eqn:G; try discriminate.
  rewrite (val_label_kept _ _ _ _ K V), (IH _ eq_refl). auto.
Qed.

Lemma gev_at_inv : forall h l v, gev_at h l = Some v ->
  exists dl z, lookup h l = Some (Cell (TEv (gid v) (gts v) (gdur v)) [dl]) /\
               rd_dict h dl = Ok z /\ gdict_at h z = Some (gdata v).
Proof.
  unfold gev_at. intros h l v H.
  destruct (lookup h l) as [[[i t d|p] [|dl [|? ?]]]|]; try discriminate.
  destruct (rd_dict h dl) as [z| |] eqn:R; try discriminate.
  destruct (gdict_at h z) as [gd|] eqn:G; try discriminate.
  inversion H; subst; cbn. eauto.
Qed.

Lemma gev_at_intro : forall h l i t d dl z gd,
  lookup h l = Some (Cell (TEv i t d) [dl]) -> rd_dict h dl = Ok z -> gdict_at h z = Some gd ->
  gev_at h l = Some (mkG i t d gd).
Proof. unfold gev_at. intros h l i t d dl z gd L R G. now rewrite L, R, G. Qed.

Lemma gev_at_kept : forall h0 h l v, kept h0 h -> gev_at h0 l = Some v -> gev_at h l = Some v.
Proof.
  intros h0 h l [i t d gd] K H. destruct (gev_at_inv _ _ _ H) as (dl & z & L & R & G). cbn in *.
  destruct (rd_dict_inv _ _ _ R) as (p & kk & Ld & _).
  eapply gev_at_intro.
  - eapply kept_some; eauto.
  - rewrite <- R. apply rd_dict_agree. rewrite Ld. eapply kept_some; eauto.
  - eapply gdict_at_kept; eauto.
Qed.

Lemma gevs_at_kept : forall h0 h ks vs, kept h0 h -> gevs_at h0 ks = Some vs -> gevs_at h ks = Some vs.
Proof.
  unfold gevs_at. intros h0 h ks vs K H. apply opt_list_Forall2 in H. apply opt_list_Forall2.
  induction H; constructor; auto. eapply gev_at_kept; eauto.
Qed.

Lemma glist_at_inv : forall h L vs, glist_at h L = Some vs ->
  exists p ks, lookup h L = Some (Cell (TNode p) ks) /\ gevs_at h ks = Some vs.
Proof.
  unfold glist_at. intros h L vs H. destruct (lookup h L) as [[[? ? ?|p] ks]|]; try discriminate. eauto.
Qed.

Lemma glist_at_kept : forall h0 h L vs, kept h0 h -> glist_at h0 L = Some vs -> glist_at h L = Some vs.
Proof.
  intros h0 h L vs K H. destruct (glist_at_inv _ _ _ H) as (p & ks & Lk & G).
  unfold glist_at. rewrite (kept_some _ _ _ _ K Lk). eapply gevs_at_kept; eauto.
Qed.

Lemma glist_at_new : forall h out vs, gevs_at h out = Some vs ->
  glist_at (fst (new_list h out)) (snd (new_list h out)) = Some vs.
Proof.
  intros h out vs G. unfold new_list, alloc, glist_at. cbn [fst snd]. rewrite lookup_alloc_new.
  eapply gevs_at_kept; eauto. apply kept_alloc, kept_refl.
Qed.

Lemma rd_ts_gev : forall h l v, gev_at h l = Some v -> rd_ts h l = Ok (gts v).
Proof.
  intros h l v H. destruct (gev_at_inv _ _ _ H) as (dl & z & L & _). unfold rd_ts, ev_fields. now rewrite L.
Qed.

Lemma rd_dur_gev : forall h l v, gev_at h l = Some v -> rd_dur h l = Ok (gdur v).
Proof.
  intros h l v H. destruct (gev_at_inv _ _ _ H) as (dl & z & L & _). unfold rd_dur, ev_fields. now rewrite L.
Qed.

Lemma ev_dict_gev : forall h l v, gev_at h l = Some v ->
  exists z, ev_dict h l = Ok z /\ gdict_at h z = Some (gdata v).
Proof.
  intros h l v H. destruct (gev_at_inv _ _ _ H) as (dl & z & L & R & G).
  exists z. split; auto. unfold ev_dict, rd_data, ev_fields. rewrite L. exact R.
Qed.

(* d[key] on both sides *)
Lemma gdict_at_lookup : forall h z gd key, gdict_at h z = Some gd ->
  match zget key z with
  | None => Group.lookup key gd = None
  | Some zv => exists q, val_label h zv = Ok q /\ Group.lookup key gd = Some q
  end.
Proof.
  intros h z gd key. revert gd. induction z as [|[k v] z IH]; cbn [gdict_at zget]; intros gd H.
  - inversion H. reflexivity.
  - destruct (val_label h v) as [q| |] eqn:V; try discriminate.
    destruct (gdict_at h z) as [r|] eqn:G; try discriminate. inversion H; subst. cbn [Group.lookup].
    destruct (k =? key)%Z; [eauto|]. apply IH. reflexivity.
Qed.

(* ------------------------------------------------------------------------- *)
(* sort *)

Lemma keyed_by_valid : forall rd (kf : gev -> BinNums.Z) h,
  (forall l v, gev_at h l = Some v -> rd h l = Ok (kf v)) ->
  forall ks vs, Forall2 (fun k v => gev_at h k = Some v) ks vs ->
  exists kl, keyed_by rd h ks = Ok kl /\
             Forall2 (fun (p : BinNums.Z * loc) v => gev_at h (snd p) = Some v /\ fst p = kf v) kl vs.
Proof.
  unfold keyed_by. intros rd kf h RD ks vs F. induction F as [|k v ks vs H F IH]; cbn [map_res].
  - exists []. split; auto.
  - destruct IH as (kl & M & F'). rewrite (RD _ _ H). cbn [bind]. rewrite M. cbn [bind].
    exists ((kf v, k) :: kl). split; auto.
Qed.

Lemma sorted_by_valid : forall rd (kf : gev -> BinNums.Z) h,
  (forall l v, gev_at h l = Some v -> rd h l = Ok (kf v)) ->
  forall ks vs, gevs_at h ks = Some vs ->
  exists srt, sorted_by rd h ks = Ok srt /\ gevs_at h srt = Some (sort_by kf vs).
Proof.
  intros rd kf h RD ks vs H. apply opt_list_Forall2 in H.
  destruct (keyed_by_valid rd kf h RD _ _ H) as (kl & K & F).
  unfold sorted_by. rewrite K. cbn [bind]. eexists. split; [reflexivity|].
  apply opt_list_Forall2. apply Forall2_map_l.
  pose proof (sort_by_rel fst kf _ (fun p v (Hpv : gev_at h (snd p) = Some v /\ fst p = kf v) => proj2 Hpv) _ _ F) as S.
  clear -S. induction S; constructor; auto. apply H.
Qed.

Theorem sort_ts_h_refines : forall h L vs, glist_at h L = Some vs ->
  exists h' L', sort_by_timestamp_h h L = Ok (h', L') /\
                glist_at h' L' = Some (sort_by_timestamp vs) /\ glist_at h' L = Some vs.
Proof.
  intros h L vs H. destruct (glist_at_inv _ _ _ H) as (p & ks & Lk & G).
  destruct (sorted_by_valid rd_ts gts h (rd_ts_gev h) ks vs G) as (srt & S & GS).
  unfold sort_by_timestamp_h, list_elems. rewrite Lk. cbn [bind]. rewrite S. cbn [bind].
  eexists _, _. split; [reflexivity|]. split; [now apply glist_at_new|].
  eapply glist_at_kept; eauto. apply kept_alloc, kept_refl.
Qed.

Lemma rd_negdur_gev : forall h l v, gev_at h l = Some v -> rd_negdur h l = Ok (- gdur v)%Z.
Proof. intros h l v H. unfold rd_negdur. now rewrite (rd_dur_gev _ _ _ H). Qed.

Theorem sort_dur_h_refines : forall h L vs, glist_at h L = Some vs ->
  exists h' L', sort_by_duration_h h L = Ok (h', L') /\
                glist_at h' L' = Some (sort_by_duration vs) /\ glist_at h' L = Some vs.
Proof.
  intros h L vs H. destruct (glist_at_inv _ _ _ H) as (p & ks & Lk & G).
  destruct (sorted_by_valid rd_negdur (fun e => (- gdur e)%Z) h (rd_negdur_gev h) ks vs G) as (srt & S & GS).
  unfold sort_by_duration_h, list_elems. rewrite Lk. cbn [bind]. rewrite S. cbn [bind].
  eexists _, _. split; [reflexivity|]. split; [now apply glist_at_new|].
  eapply glist_at_kept; eauto. apply kept_alloc, kept_refl.
Qed.

(* ------------------------------------------------------------------------- *)
(* limit, concat *)

Lemma Forall2_firstn' : forall {X Y} (R : X -> Y -> Prop) n l l',
  Forall2 R l l' -> Forall2 R (firstn n l) (firstn n l').
Proof.
  intros X Y R. induction n as [|n IH]; intros l l' F; cbn [firstn]; [constructor|].
  destruct F; constructor; auto.
Qed.

Lemma Forall2_len : forall {X Y} (R : X -> Y -> Prop) l l', Forall2 R l l' -> length l = length l'.
Proof. intros X Y R l l' F. induction F; cbn; auto. Qed.

Theorem limit_h_refines : forall h L c vs, glist_at h L = Some vs ->
  exists h' L', limit_events_h h L c = Ok (h', L') /\
                glist_at h' L' = Some (limit_events vs c) /\ glist_at h' L = Some vs.
Proof.
  intros h L c vs H. destruct (glist_at_inv _ _ _ H) as (p & ks & Lk & G).
  unfold limit_events_h, list_elems. rewrite Lk. cbn [bind].
  eexists _, _. split; [reflexivity|]. split.
  - apply glist_at_new. unfold gevs_at in *. apply opt_list_Forall2 in G. apply opt_list_Forall2.
    unfold limit_l, limit_events. rewrite (Forall2_len _ _ _ G).
    destruct (c <? 0)%Z; now apply Forall2_firstn'.
  - eapply glist_at_kept; eauto. apply kept_alloc, kept_refl.
Qed.

Theorem concat_h_refines : forall h L1 L2 vs1 vs2, glist_at h L1 = Some vs1 -> glist_at h L2 = Some vs2 ->
  exists h' L', concat_h h L1 L2 = Ok (h', L') /\
                glist_at h' L' = Some (concat_events vs1 vs2) /\
                glist_at h' L1 = Some vs1 /\ glist_at h' L2 = Some vs2.
Proof.
  intros h L1 L2 vs1 vs2 H1 H2.
  destruct (glist_at_inv _ _ _ H1) as (p1 & ks1 & Lk1 & G1).
  destruct (glist_at_inv _ _ _ H2) as (p2 & ks2 & Lk2 & G2).
  unfold concat_h, list_elems. rewrite Lk1, Lk2. cbn [bind].
  eexists _, _. split; [reflexivity|]. split; [|split].
  - apply glist_at_new. unfold gevs_at in *. apply opt_list_Forall2 in G1, G2. apply opt_list_Forall2.
    unfold concat_events. now apply Forall2_app.
  - eapply glist_at_kept; eauto. apply kept_alloc, kept_refl.
  - eapply glist_at_kept; eauto. apply kept_alloc, kept_refl.
Qed.

Theorem sum_durations_h_refines : forall h L vs, glist_at h L = Some vs ->
  sum_durations_h h L = Ok (sum_durations vs).
Proof.
  intros h L vs H. destruct (glist_at_inv _ _ _ H) as (p & ks & Lk & G).
  unfold sum_durations_h, list_elems. rewrite Lk. cbn [bind].
  unfold gevs_at in G. apply opt_list_Forall2 in G. clear Lk H.
  assert (M : map_res (rd_dur h) ks = Ok (map gdur vs)).
  { induction G as [|k v ks vs Hk F IH]; cbn [map_res map]; auto.
    rewrite (rd_dur_gev _ _ _ Hk). cbn [bind]. rewrite IH. reflexivity. }
  rewrite M. reflexivity.
Qed.

(* ------------------------------------------------------------------------- *)
(* filter_keyvals *)

Lemma kv_predicate_h_gev : forall h key vals e v, gev_at h e = Some v ->
  kv_predicate_h h key vals e = Ok (kv_predicate key vals v).
Proof.
  intros h key vals e v H. destruct (ev_dict_gev _ _ _ H) as (z & EZ & GD).
  unfold kv_predicate_h, kv_predicate. rewrite EZ. cbn [bind].
  pose proof (gdict_at_lookup h z _ key GD) as X.
  destruct (zget key z) as [zv|].
  - destruct X as (q & V & ->). rewrite V. reflexivity.
  - now rewrite X.
Qed.

Theorem filter_h_refines : forall h L key vals ex vs, glist_at h L = Some vs ->
  exists h' L', filter_keyvals_h h L key vals ex = Ok (h', L') /\
                glist_at h' L' = Some (filter_keyvals vs key vals ex) /\ glist_at h' L = Some vs.
Proof.
  intros h L key vals ex vs H. destruct (glist_at_inv _ _ _ H) as (p & ks & Lk & G).
  unfold filter_keyvals_h, list_elems. rewrite Lk. cbn [bind].
  unfold gevs_at in G. apply opt_list_Forall2 in G.
  assert (F : exists out, filter_res (fun e => bind (kv_predicate_h h key vals e) (fun b =>
                             Ok (if ex then negb b else b))) ks = Ok out /\
                          gevs_at h out = Some (filter_keyvals vs key vals ex)).
  { clear Lk H. unfold filter_keyvals. induction G as [|k v ks vs Hk F IH]; cbn [filter_res].
    - exists []. destruct ex; auto.
    - destruct IH as (out & Fo & Eo). rewrite (kv_predicate_h_gev _ key vals _ _ Hk). cbn [bind].
      rewrite Fo. cbn [bind]. unfold gevs_at in *.
      destruct ex; cbn [filter]; destruct (kv_predicate key vals v); cbn [negb];
        eexists; (split; [reflexivity|]); auto; cbn [map opt_list]; now rewrite Hk, Eo. }
  destruct F as (out & Fo & Eo). rewrite Fo. cbn [bind].
  eexists _, _. split; [reflexivity|]. split; [now apply glist_at_new|].
  eapply glist_at_kept; eauto. apply kept_alloc, kept_refl.
Qed.
