(* C20, round 2: `_comment_out_toml` keeps the line structure of every text: the lines of
   its result (split at LF, the only line end of TOML besides CRLF) are, one for one, the
   lines of its argument, each unchanged or with one '#' in front.  No other character
   ends a line. *)
From AwVerif Require Import Base.Prelude Model.ConfigText.

Definition no_lf (l : text) : Prop := ~ In LF l.

Lemma split_lf'_no_lf : forall l, no_lf l -> split_lf' l = (l, []).
Proof.
  induction l as [|c l IH]; intros H; cbn [split_lf']; [reflexivity|].
  rewrite IH by (intro K; apply H; right; exact K).
  destruct (c =? LF) eqn:E; [|reflexivity].
  exfalso. apply H. left. apply Z.eqb_eq. exact E.
Qed.

Lemma split_lf'_app : forall l s, no_lf l ->
  split_lf' (l ++ LF :: s) = (l, split_lf s).
Proof.
  induction l as [|c l IH]; intros s H.
  - cbn [app split_lf']. unfold split_lf. destruct (split_lf' s) as [a b].
    rewrite Z.eqb_refl. reflexivity.
  - cbn [app split_lf']. rewrite IH by (intro K; apply H; right; exact K).
    destruct (c =? LF) eqn:E; [|reflexivity].
    exfalso. apply H. left. apply Z.eqb_eq. exact E.
Qed.

Lemma split_join : forall ls, ls <> [] -> Forall no_lf ls -> split_lf (join_lf ls) = ls.
Proof.
  induction ls as [|l rest IH]; intros NE F; [congruence|].
  inversion F as [|? ? Hl Hrest]; subst.
  destruct rest as [|l2 rest'].
  - cbn [join_lf]. unfold split_lf. rewrite split_lf'_no_lf by exact Hl. reflexivity.
  - change (join_lf (l :: l2 :: rest')) with (l ++ LF :: join_lf (l2 :: rest')).
    unfold split_lf at 1. rewrite split_lf'_app by exact Hl.
    rewrite IH; [reflexivity|discriminate|exact Hrest].
Qed.

Lemma split_lf_no_lf : forall s, Forall no_lf (split_lf s).
Proof.
  unfold split_lf. induction s as [|c r IH]; cbn [split_lf'].
  - constructor; [intros []|constructor].
  - destruct (split_lf' r) as [l ls]. inversion IH as [|? ? Hl Hls]; subst.
    destruct (c =? LF) eqn:E.
    + constructor; [intros []|]. constructor; assumption.
    + constructor; [|assumption]. intros [K|K]; [|exact (Hl K)].
      apply Z.eqb_neq in E. congruence.
Qed.

Lemma join_split : forall s, join_lf (split_lf s) = s.
Proof.
  unfold split_lf. induction s as [|c r IH]; cbn [split_lf']; [reflexivity|].
  destruct (split_lf' r) as [l ls]. destruct (c =? LF) eqn:E.
  - apply Z.eqb_eq in E. subst c.
    change (join_lf ([] :: l :: ls)) with ([] ++ LF :: join_lf (l :: ls)).
    rewrite IH. reflexivity.
  - destruct ls as [|l2 ls'].
    + cbn [join_lf] in *. rewrite IH. reflexivity.
    + change (join_lf ((c :: l) :: l2 :: ls')) with ((c :: l) ++ LF :: join_lf (l2 :: ls')).
      change (join_lf (l :: l2 :: ls')) with (l ++ LF :: join_lf (l2 :: ls')) in IH.
      cbn [app]. rewrite IH. reflexivity.
Qed.

Lemma comment_line_no_lf : forall l, no_lf l -> no_lf (comment_line_text l).
Proof.
  intros l H. unfold comment_line_text. destruct (kept_text l); [exact H|].
  intros [K|K]; [discriminate K|exact (H K)].
Qed.

Lemma comment_out_text_lines : forall s,
  split_lf (comment_out_text s) = map comment_line_text (split_lf s).
Proof.
  intros s. unfold comment_out_text. apply split_join.
  - unfold split_lf. destruct (split_lf' s). discriminate.
  - apply Forall_forall. intros x Hx. apply in_map_iff in Hx. destruct Hx as [l [<- Hl]].
    apply comment_line_no_lf. exact (proj1 (Forall_forall _ _) (split_lf_no_lf s) l Hl).
Qed.

Lemma comment_out_text_line_count : forall s,
  length (split_lf (comment_out_text s)) = length (split_lf s).
Proof. intros s. rewrite comment_out_text_lines. apply map_length. Qed.

(* every line of the result is the corresponding line of the argument or '#' + it *)
Lemma comment_out_text_nth : forall s i l, nth_error (split_lf s) i = Some l ->
  nth_error (split_lf (comment_out_text s)) i = Some (if kept_text l then l else HASH :: l).
Proof.
  intros s i l H. rewrite comment_out_text_lines. rewrite nth_error_map, H. reflexivity.
Qed.

(* a text in which every line is kept is returned unchanged *)
Lemma comment_out_text_all_kept : forall s,
  Forall (fun l => kept_text l = true) (split_lf s) -> comment_out_text s = s.
Proof.
  intros s H. unfold comment_out_text.
  replace (map comment_line_text (split_lf s)) with (split_lf s); [apply join_split|].
  induction H as [|l ls Hl _ IH]; [reflexivity|].
  cbn [map]. unfold comment_line_text at 1. rewrite Hl, <- IH. reflexivity.
Qed.

(* the four cases of the test, as Model/Config.v's line_kept reads them off a classified line *)
Lemma kept_text_blank : forall l, lstrip l = [] -> kept_text l = true.
Proof. intros l H. unfold kept_text. rewrite H. reflexivity. Qed.

Lemma kept_text_header : forall l r, lstrip l = LBRACK :: r ->
  (match r with d :: _ => d <> LBRACK | [] => True end) -> kept_text l = true.
Proof.
  intros l r H K. unfold kept_text. rewrite H. rewrite Z.eqb_refl. destruct r as [|d r']; [reflexivity|].
  apply Z.eqb_neq in K. rewrite K. reflexivity.
Qed.

Lemma kept_text_array_header : forall l r, lstrip l = LBRACK :: LBRACK :: r -> kept_text l = false.
Proof. intros l r H. unfold kept_text. rewrite H. reflexivity. Qed.

Lemma kept_text_other : forall l c r, lstrip l = c :: r -> c <> LBRACK -> kept_text l = false.
Proof.
  intros l c r H K. unfold kept_text. rewrite H. apply Z.eqb_neq in K. rewrite K. reflexivity.
Qed.

(* Sensitivity: the same function over a splitter that ends lines at further characters
   (as str.splitlines() does: here U+2028, U+2029, U+0085, VT, FF, FS, GS, RS).  A string
   value holding such a character is cut in two, and a tail that looks like a header is
   left live. *)
Definition is_line_end (c : Z) : bool :=
  (c =? 10) || (c =? 11) || (c =? 12) || ((28 <=? c) && (c <=? 30)) || (c =? 133)
  || (c =? 8232) || (c =? 8233).

Fixpoint split_ends' (s : text) : text * list text :=
  match s with
  | [] => ([], [])
  | c :: r =>
      let '(l, ls) := split_ends' r in
      if is_line_end c then ([], l :: ls) else (c :: l, ls)
  end.

Definition comment_out_text_splitlines (s : text) : text :=
  join_lf (map comment_line_text (let '(l, ls) := split_ends' s in l :: ls)).

(* c = "p<U+2028>[zz]" *)
Definition witness_ls : text := [99; 32; 61; 32; 34; 112; 8232; 91; 122; 122; 93; 34].

Lemma splitlines_variant_breaks_lines :
  split_lf (comment_out_text witness_ls) = [HASH :: witness_ls]
  /\ split_lf (comment_out_text_splitlines witness_ls)
     = [[HASH; 99; 32; 61; 32; 34; 112]; [91; 122; 122; 93; 34]]
  /\ kept_text [91; 122; 122; 93; 34] = true.
Proof. repeat split; vm_compute; reflexivity. Qed.
