(* C03 -- peewee back end: Bucket.get / Bucket.get_eventcount over Model/PeeweeStore.v, with
   SQLite's julianday/strftime end instant as the Section variable [sql_end_ms] (within 1 ms
   of ts + dur), the TEXT comparison of the start edge (Window.text_le_iso_ms), the 24 h
   prefilter and the clipping loop. *)
From Coq Require Import Permutation Sorted ZifyBool.
From AwVerif Require Import Base.Prelude Model.StoreBase Model.PeeweeStore Model.Window
  Proofs.WindowRound Proofs.WindowBase Proofs.WindowSpec.

Definition pw_rows (c : pwstate) (k : Z) : list perow :=
  filter (fun e => pe_bucket e =? k) (pw_events c).

Lemma pw_stored_rows : forall c b es, pw_stored c b = Some es ->
  exists k, pw_key c b = Some k /\ es = map prow_event (pw_rows c k).
Proof.
  intros c b es S. unfold pw_stored in S. destruct (pw_key c b) as [k|]; [|discriminate].
  injection S as <-. exists k. split; reflexivity.
Qed.

(* ---- the clipping loop ---- *)

Lemma pw_clip_ts : forall st en e,
  ts (pw_clip st en e) =
  match st with Some ws => if ts e <? ws then floor_ms ws else ts e | None => ts e end.
Proof.
  intros st en e. unfold pw_clip.
  destruct st as [ws|]; [destruct (ts e <? ws)|]; destruct en as [we|];
    try match goal with |- context [if ?c then _ else _] => destruct c end; reflexivity.
Qed.

Lemma pw_clip_ts_mono : forall st en a b, ts b <= ts a -> ts (pw_clip st en b) <= ts (pw_clip st en a).
Proof.
  intros st en a b H. rewrite !pw_clip_ts. destruct st as [ws|]; [|assumption].
  pose proof (floor_ms_bounds ws).
  destruct (ts b <? ws) eqn:Eb, (ts a <? ws) eqn:Ea; lia.
Qed.

Lemma pw_clip_id_data : forall st en e,
  eid (pw_clip st en e) = eid e /\ data (pw_clip st en e) = data e.
Proof.
  intros st en e. unfold pw_clip.
  destruct st as [ws|]; [destruct (ts e <? ws)|]; destruct en as [we|];
    try match goal with |- context [if ?c then _ else _] => destruct c end; split; reflexivity.
Qed.

(* for a start edge on the millisecond grid (Bucket.get's), a start edge not after the end
   edge, an event that passed the end test and a non-negative stored duration: the returned
   event is the stored one cut to the window -- start max(ts, ws'), end min(end, we'), and a
   duration of 0 when that interval is empty (the event ended before ws') *)
Theorem pw_clip_exact : forall st en e,
  (forall w, st = Some w -> w mod 1000 = 0) ->
  (forall w, en = Some w -> ts e <= w) ->
  (forall a z, st = Some a -> en = Some z -> a <= z) ->
  0 <= dur e ->
  let t' := match st with Some w => Z.max (ts e) w | None => ts e end in
  let z' := match en with Some w => Z.min (eend e) w | None => eend e end in
  pw_clip st en e = mkEvent (eid e) t' (Z.max 0 (z' - t')) (data e).
Proof.
  intros st en e Hal Hend Hord Hd. unfold pw_clip, eend.
  destruct st as [ws|].
  - rewrite (floor_ms_aligned ws (Hal ws eq_refl)).
    destruct (ts e <? ws) eqn:Es; destruct en as [we|];
      cbn [ts dur set_dur set_ts eid data];
      try (specialize (Hend we eq_refl)); try (specialize (Hord ws we eq_refl eq_refl));
      try match goal with |- context [if ?c then _ else _] => destruct c eqn:Ee end;
      cbn [ts dur set_dur set_ts eid data]; destruct e as [i t d x]; cbn [ts dur eid data] in *;
      unfold set_dur, set_ts; cbn [ts dur eid data]; f_equal; lia.
  - destruct en as [we|]; try (specialize (Hend we eq_refl));
      try match goal with |- context [if ?c then _ else _] => destruct c eqn:Ee end;
      destruct e as [i t d x]; cbn [ts dur eid data] in *;
      unfold set_dur; cbn [ts dur eid data]; f_equal; lia.
Qed.

(* an event entirely inside the window comes back unchanged *)
Theorem pw_clip_inside : forall st en e,
  (forall w, st = Some w -> w <= ts e) -> (forall w, en = Some w -> eend e <= w) ->
  pw_clip st en e = e.
Proof.
  intros st en e Hs He. unfold pw_clip, eend in *.
  destruct st as [ws|].
  - specialize (Hs ws eq_refl). destruct (ts e <? ws) eqn:E; [lia|].
    destruct en as [we|]; [|reflexivity]. specialize (He we eq_refl).
    destruct (we <? ts e + dur e) eqn:E'; [lia|reflexivity].
  - destruct en as [we|]; [|reflexivity]. specialize (He we eq_refl).
    destruct (we <? ts e + dur e) eqn:E'; [lia|reflexivity].
Qed.

Lemma pw_clip_dur_nonneg : forall st en e,
  (forall w, en = Some w -> ts e <= w) ->
  (forall a z, st = Some a -> en = Some z -> a <= z) ->
  0 <= dur e -> 0 <= dur (pw_clip st en e).
Proof.
  intros st en e Hend Hord Hd. unfold pw_clip.
  destruct st as [ws|].
  - pose proof (floor_ms_bounds ws).
    destruct (ts e <? ws) eqn:Es; destruct en as [we|];
      try (specialize (Hend we eq_refl)); try (specialize (Hord ws we eq_refl eq_refl));
      try match goal with |- context [if ?c then _ else _] => destruct c eqn:Ee end;
      cbn [ts dur set_dur set_ts]; lia.
  - destruct en as [we|]; try (specialize (Hend we eq_refl));
      try match goal with |- context [if ?c then _ else _] => destruct c eqn:Ee end;
      cbn [ts dur set_dur]; lia.
Qed.

(* ---- the 24 h prefilter ---- *)

(* for events of at most 24 h the prefilter never removes an event that reaches the window
   start (exact arithmetic) *)
Theorem pw_prefilter_harmless : forall ws r,
  pe_dur r <= DAY_US -> ws <= pe_ts r + pe_dur r -> pw_prefilter ws r = true.
Proof. intros ws r Hd He. unfold pw_prefilter. lia. Qed.

(* ---- the TEXT comparison of the start edge ---- *)

Lemma text_le_complete : forall ws x, ws + 1000 <= x -> text_le_iso_ms ws x = true.
Proof.
  intros ws x H. unfold text_le_iso_ms. pose proof (floor_ms_bounds ws).
  destruct (ws mod 1000000 =? 0); lia.
Qed.

Lemma text_le_sound : forall ws x, text_le_iso_ms ws x = true -> floor_ms ws <= x.
Proof.
  intros ws x H. unfold text_le_iso_ms in H. pose proof (floor_ms_bounds ws).
  destruct (ws mod 1000000 =? 0); lia.
Qed.

Section Peewee.
  Variable sql_end_ms : Z -> Z -> Z.

  (* stored rows inside the oracle hypothesis' range *)
  Definition pw_dom (e : event) : Prop := 0 <= ts e /\ 0 <= dur e <= DAY_US /\ eend e < 2 ^ 52.

  Hypothesis sql_end_err : forall t d,
    0 <= t -> 0 <= d <= DAY_US -> t + d < 2 ^ 52 -> Z.abs (sql_end_ms t d - (t + d)) <= 1000.

  (* _where_range on events *)
  Definition pwx_pred (st en : option Z) (e : event) : bool :=
    (match st with
     | Some ws => (ws - DAY_US <=? ts e) && text_le_iso_ms ws (sql_end_ms (ts e) (dur e))
     | None => true end) &&
    (match en with Some we => ts e <=? we | None => true end).

  Lemma pwx_in_range_pred : forall st en r,
    pwx_in_range sql_end_ms st en r = pwx_pred st en (prow_event r).
  Proof. reflexivity. Qed.

  (* start margin 2 ms (1 ms oracle error + the strict TEXT comparison), end margin 0 *)
  Lemma pwx_pred_complete : forall st en e, pw_dom e ->
    (forall w, st = Some w -> w + 2000 <= eend e) -> (forall w, en = Some w -> ts e <= w) ->
    pwx_pred st en e = true.
  Proof.
    intros st en e [D1 [D2 D3]] Hs He. unfold pwx_pred, eend in *. apply andb_true_iff. split.
    - destruct st as [ws|]; [|reflexivity]. specialize (Hs ws eq_refl).
      apply andb_true_iff. split; [lia|]. apply text_le_complete.
      pose proof (sql_end_err (ts e) (dur e) D1 D2 D3). lia.
    - destruct en as [we|]; [|reflexivity]. specialize (He we eq_refl). lia.
  Qed.

  Lemma pwx_pred_sound : forall st en e, pw_dom e -> pwx_pred st en e = true ->
    (forall w, st = Some w -> floor_ms w - 1000 <= eend e /\ w - DAY_US <= ts e) /\
    (forall w, en = Some w -> ts e <= w).
  Proof.
    intros st en e [D1 [D2 D3]] P. unfold pwx_pred, eend in *. apply andb_true_iff in P.
    destruct P as [P1 P2]. split; intros w ->.
    - apply andb_true_iff in P1. destruct P1 as [Pa Pb]. apply text_le_sound in Pb.
      pose proof (sql_end_err (ts e) (dur e) D1 D2 D3). lia.
    - lia.
  Qed.

  Lemma pwx_pred_meets_complete : forall st en e, pw_dom e ->
    meets 2000 st en e = true -> pwx_pred st en e = true.
  Proof.
    intros st en e D M. apply meets_unfold in M. destruct M as [M1 M2].
    apply pwx_pred_complete; [assumption| |]; intros w E.
    - now apply M1.
    - specialize (M2 w E). lia.
  Qed.

  Lemma pwx_pred_meets_sound : forall st en e, pw_dom e ->
    pwx_pred st en e = true -> meets (-2000) st en e = true.
  Proof.
    intros st en e D P. destruct (pwx_pred_sound _ _ _ D P) as [S1 S2].
    apply meets_unfold. split; intros w E.
    - destruct (S1 w E). pose proof (floor_ms_bounds w). lia.
    - specialize (S2 w E). lia.
  Qed.

  Lemma pwx_pred_meets_sound_aligned : forall st en e, pw_dom e ->
    (forall w, st = Some w -> w mod 1000 = 0) ->
    pwx_pred st en e = true -> meets (-1000) st en e = true.
  Proof.
    intros st en e D A P. destruct (pwx_pred_sound _ _ _ D P) as [S1 S2].
    apply meets_unfold. split; intros w E.
    - destruct (S1 w E). rewrite (floor_ms_aligned w (A w E)) in *. lia.
    - specialize (S2 w E). lia.
  Qed.

  Definition pw_unl (rows : list perow) (st en : option Z) : list event :=
    map (fun r => pw_clip st en (prow_event r))
        (pw_order_ts_desc (filter (pwx_in_range sql_end_ms st en) rows)).

  Lemma pw_unl_perm : forall rows st en,
    Permutation (pw_unl rows st en)
                (map (pw_clip st en) (filter (pwx_pred st en) (map prow_event rows))).
  Proof.
    intros. unfold pw_unl, pw_order_ts_desc. rewrite w_filter_map, map_map.
    apply Permutation_map. rewrite w_sort_perm. reflexivity.
  Qed.

  Lemma pw_unl_desc : forall rows st en, desc ts (pw_unl rows st en).
  Proof.
    intros. unfold pw_unl, pw_order_ts_desc. apply ss_map.
    eapply ss_impl; [|exact (w_sort_neg_desc pe_ts _)].
    intros a b H. cbv beta in *. apply pw_clip_ts_mono. exact H.
  Qed.

  Lemma pw_unl_In : forall rows st en x,
    In x (pw_unl rows st en) <->
    exists e, In e (map prow_event rows) /\ pwx_pred st en e = true /\ x = pw_clip st en e.
  Proof.
    intros. split; intro H.
    - apply (Permutation_in _ (pw_unl_perm rows st en)) in H. apply in_map_iff in H.
      destruct H as [e [<- H]]. apply filter_In in H. exists e. tauto.
    - destruct H as [e [I [P ->]]].
      apply (Permutation_in _ (Permutation_sym (pw_unl_perm rows st en))).
      apply in_map. now apply filter_In.
  Qed.

  Lemma pwx_get_shape : forall c b k limit st en,
    pw_key c b = Some k ->
    pwx_get sql_end_ms c b limit st en = Ok (OEvents (take limit (pw_unl (pw_rows c k) st en))).
  Proof.
    intros c b k limit st en K. unfold pwx_get. rewrite K.
    destruct (limit =? 0) eqn:E0.
    - unfold take. rewrite E0. reflexivity.
    - unfold pw_unl, select_where, pw_rows. rewrite w_filter_andb, take_map.
      unfold take, sql_limit. rewrite E0. reflexivity.
  Qed.

  Lemma pwx_count_shape : forall c b k st en,
    pw_key c b = Some k ->
    pwx_getcount sql_end_ms c b st en =
    Ok (OCount (Z.of_nat (length (filter (pwx_pred st en) (map prow_event (pw_rows c k)))))).
  Proof.
    intros c b k st en K. unfold pwx_getcount, rowcount, pw_rows. rewrite K.
    rewrite w_filter_andb, w_filter_map, map_length. reflexivity.
  Qed.

  Variables (c : pwstate) (b : Z) (es : list event).
  Hypothesis V : pw_stored c b = Some es.
  Hypothesis D : Forall pw_dom es.
  Variables ws we : option Z.
  Hypothesis Hord : forall a z, ws = Some a -> we = Some z -> a <= z.
  Let ws' := fst (bucket_get_round ws we).
  Let we' := snd (bucket_get_round ws we).

  Lemma ws'_aligned : forall w, ws' = Some w -> w mod 1000 = 0.
  Proof.
    intros w E. subst ws'. rewrite round_fst in E. destruct ws as [w0|]; [|discriminate].
    cbn [option_map] in E. injection E as <-. apply floor_ms_mod_0.
  Qed.

  Lemma rounded_ordered : forall a z, ws' = Some a -> we' = Some z -> a <= z.
  Proof.
    intros a z Ea Ez. subst ws' we'. rewrite round_fst in Ea. rewrite round_snd in Ez.
    destruct ws as [w1|]; [|discriminate]. destruct we as [w2|]; [|discriminate].
    cbn [option_map] in *. injection Ea as <-. injection Ez as <-.
    specialize (Hord w1 w2 eq_refl eq_refl).
    pose proof (floor_ms_bounds w1). pose proof (floor_ms_bounds w2). lia.
  Qed.

  Lemma pw_read_shape : forall limit, exists k,
    es = map prow_event (pw_rows c k) /\
    pw_read sql_end_ms c b limit ws we = Ok (OEvents (take limit (pw_unl (pw_rows c k) ws' we'))).
  Proof.
    intros limit. destruct (pw_stored_rows _ _ _ V) as [k [K E]]. exists k. split; [assumption|].
    unfold pw_read, read. now apply pwx_get_shape.
  Qed.

  (* the unlimited read: the stored events that pass _where_range at the rounded edges, each
     clipped *)
  Theorem pw_unlimited : exists U,
    pw_read sql_end_ms c b (-1) ws we = Ok (OEvents U) /\
    Permutation U (map (pw_clip ws' we') (filter (pwx_pred ws' we') es)).
  Proof.
    destruct (pw_read_shape (-1)) as [k [E R]]. eexists. split; [exact R|].
    change (take (-1) ?l) with l. rewrite E. apply pw_unl_perm.
  Qed.

  Theorem pw_complete : forall e, In e es -> meets 2000 ws we e = true ->
    exists U, pw_read sql_end_ms c b (-1) ws we = Ok (OEvents U) /\ In (pw_clip ws' we' e) U.
  Proof.
    intros e I M. destruct (pw_read_shape (-1)) as [k [E R]]. eexists. split; [exact R|].
    change (take (-1) ?l) with l. apply pw_unl_In. exists e. rewrite <- E.
    split; [assumption|]. split; [|reflexivity].
    apply pwx_pred_meets_complete; [rewrite Forall_forall in D; now apply D|].
    now apply meets_to_rounded.
  Qed.

  (* sharper, at the rounded edges: 2 ms at the start, nothing at the end *)
  Theorem pw_complete_rounded : forall e, In e es ->
    (forall w, ws' = Some w -> w + 2000 <= eend e) -> (forall w, we' = Some w -> ts e <= w) ->
    exists U, pw_read sql_end_ms c b (-1) ws we = Ok (OEvents U) /\ In (pw_clip ws' we' e) U.
  Proof.
    intros e I Hs He. destruct (pw_read_shape (-1)) as [k [E R]]. eexists. split; [exact R|].
    change (take (-1) ?l) with l. apply pw_unl_In. exists e. rewrite <- E.
    split; [assumption|]. split; [|reflexivity].
    apply pwx_pred_complete; [rewrite Forall_forall in D; now apply D|assumption|assumption].
  Qed.

  Theorem pw_sound : forall limit L x,
    pw_read sql_end_ms c b limit ws we = Ok (OEvents L) -> In x L ->
    exists e, In e es /\ x = pw_clip ws' we' e /\
              meets (-1000) ws' we' e = true /\ (forall w, we' = Some w -> ts e <= w) /\
              meets (-2000) ws we e = true.
  Proof.
    intros limit L x R I. destruct (pw_read_shape limit) as [k [E R']].
    rewrite R' in R. injection R as <-.
    apply take_In, pw_unl_In in I. rewrite <- E in I. destruct I as [e [I [P ->]]].
    exists e. split; [assumption|]. split; [reflexivity|].
    assert (De : pw_dom e) by (rewrite Forall_forall in D; now apply D).
    pose proof (pwx_pred_meets_sound_aligned _ _ _ De ws'_aligned P) as M.
    split; [exact M|]. split; [exact (proj2 (pwx_pred_sound _ _ _ De P))|].
    apply (meets_weaken (-1000 - 1000)); [lia|]. apply meets_from_rounded. exact M.
  Qed.

  (* what a returned event looks like *)
  Theorem pw_returned_clipped : forall limit L x,
    pw_read sql_end_ms c b limit ws we = Ok (OEvents L) -> In x L ->
    exists e, In e es /\
      eid x = eid e /\ data x = data e /\
      ts x = match ws' with Some w => Z.max (ts e) w | None => ts e end /\
      dur x = Z.max 0 (match we' with Some w => Z.min (eend e) w | None => eend e end - ts x) /\
      ((forall w, ws' = Some w -> w <= ts e) -> (forall w, we' = Some w -> eend e <= w) -> x = e).
  Proof.
    intros limit L x R I. destruct (pw_sound limit L x R I) as [e [Ie [-> [_ [He _]]]]].
    exists e. split; [assumption|].
    assert (De : pw_dom e) by (rewrite Forall_forall in D; now apply D).
    destruct De as [_ [[Dd _] _]].
    rewrite (pw_clip_exact ws' we' e ws'_aligned He rounded_ordered Dd). cbn [eid data ts dur].
    repeat split; try reflexivity.
    intros Hs Hz. rewrite <- (pw_clip_exact ws' we' e ws'_aligned He rounded_ordered Dd).
    now apply pw_clip_inside.
  Qed.

  Theorem pw_sorted_desc : forall limit L,
    pw_read sql_end_ms c b limit ws we = Ok (OEvents L) -> desc ts L.
  Proof.
    intros limit L R. destruct (pw_read_shape limit) as [k [E R']].
    rewrite R' in R. injection R as <-. apply take_desc, pw_unl_desc.
  Qed.

  Theorem pw_limit : forall limit, exists U,
    pw_read sql_end_ms c b (-1) ws we = Ok (OEvents U) /\ desc ts U /\
    pw_read sql_end_ms c b limit ws we = Ok (OEvents (take limit U)).
  Proof.
    intros limit. destruct (pw_stored_rows _ _ _ V) as [k [K E]].
    eexists. split; [unfold pw_read, read; apply (pwx_get_shape _ _ _ _ _ _ K)|].
    change (take (-1) ?l) with l. split; [apply pw_unl_desc|].
    unfold pw_read, read. apply (pwx_get_shape _ _ _ _ _ _ K).
  Qed.

  (* get_eventcount (raw edges) *)
  Theorem pw_count_exact :
    pw_readcount sql_end_ms c b ws we =
    Ok (OCount (Z.of_nat (length (filter (pwx_pred ws we) es)))).
  Proof.
    destruct (pw_stored_rows _ _ _ V) as [k [K E]].
    unfold pw_readcount, count. rewrite (pwx_count_shape _ _ _ _ _ K), E. reflexivity.
  Qed.

  Theorem pw_count_bounds : exists n,
    pw_readcount sql_end_ms c b ws we = Ok (OCount (Z.of_nat n)) /\
    (length (filter (meets 2000 ws we) es) <= n <= length (filter (meets (-2000) ws we) es))%nat.
  Proof.
    eexists. split; [apply pw_count_exact|]. rewrite Forall_forall in D. split.
    - apply w_filter_length_le. intros e I M. apply pwx_pred_meets_complete; [now apply D|exact M].
    - apply w_filter_length_le. intros e I P. apply pwx_pred_meets_sound; [now apply D|exact P].
  Qed.

  Theorem pw_count_same_edges : exists U0,
    pwx_get sql_end_ms c b (-1) ws we = Ok (OEvents U0) /\
    pw_readcount sql_end_ms c b ws we = Ok (OCount (Z.of_nat (length U0))).
  Proof.
    destruct (pw_stored_rows _ _ _ V) as [k [K E]].
    eexists. split; [apply (pwx_get_shape _ _ _ _ _ _ K)|].
    change (take (-1) ?l) with l. rewrite pw_count_exact. do 3 f_equal.
    rewrite E. rewrite (Permutation_length (pw_unl_perm _ _ _)), map_length. reflexivity.
  Qed.

  Theorem pw_read_bounds : exists U,
    pw_read sql_end_ms c b (-1) ws we = Ok (OEvents U) /\
    (length (filter (meets 2000 ws we) es) <= length U <= length (filter (meets (-2000) ws we) es))%nat.
  Proof.
    destruct pw_unlimited as [U [R P]]. exists U. split; [assumption|].
    rewrite (Permutation_length P), map_length. rewrite Forall_forall in D. split.
    - apply w_filter_length_le. intros e I M. apply pwx_pred_meets_complete; [now apply D|].
      now apply meets_to_rounded.
    - apply w_filter_length_le. intros e I Pe.
      apply (meets_weaken (-1000 - 1000)); [lia|]. apply meets_from_rounded.
      apply pwx_pred_meets_sound_aligned; [now apply D|exact ws'_aligned|exact Pe].
  Qed.
End Peewee.

(* the hypothesis is satisfiable: an engine that rounds the end instant to the nearest
   millisecond *)
Lemma sql_end_nearest_err : forall t d, Z.abs (sql_end_nearest t d - (t + d)) <= 1000.
Proof.
  intros. unfold sql_end_nearest.
  pose proof (Z.div_mod (t + d + 500) 1000 ltac:(lia)).
  pose proof (Z.mod_pos_bound (t + d + 500) 1000 ltac:(lia)). lia.
Qed.

(* the oracle hypothesis and the quantifier's side condition, as named predicates *)
Definition sql_end_ok (f : Z -> Z -> Z) : Prop :=
  forall t d, 0 <= t -> 0 <= d <= DAY_US -> t + d < 2 ^ 52 -> Z.abs (f t d - (t + d)) <= 1000.
Definition ordered (ws we : option Z) : Prop := forall a z, ws = Some a -> we = Some z -> a <= z.

Lemma sql_end_ok_nearest : sql_end_ok sql_end_nearest.
Proof. intros t d _ _ _. apply sql_end_nearest_err. Qed.

(* pw_stored reads through the bucket_keys cache; when the cache agrees with the table
   (the store invariant of Model/PeeweeStore.v) it is pw_view's event list *)
Definition cache_ok (c : pwstate) (b : Z) : Prop :=
  match find (fun r => pb_id r =? b) (pw_buckets c) with
  | Some r => pw_key c b = Some (pb_key r)
  | None => pw_key c b = None
  end.

Lemma pw_view_stored : forall c b m es, cache_ok c b -> pw_view c b = Some (m, es) -> pw_stored c b = Some es.
Proof.
  intros c b m es K V. unfold cache_ok in K. unfold pw_view in V. unfold pw_stored.
  destruct (find (fun r => pb_id r =? b) (pw_buckets c)) as [r|]; [|discriminate].
  rewrite K. injection V as _ <-. reflexivity.
Qed.
