(* C03 -- memory back end: Bucket.get / Bucket.get_eventcount over Model/MemStore.v. *)
From Coq Require Import Permutation Sorted ZifyBool.
From AwVerif Require Import Base.Prelude Model.StoreBase Model.MemStore Model.Window
  Proofs.WindowRound Proofs.WindowBase Proofs.WindowSpec.

(* the unlimited read at the edges that reach the storage *)
Definition mem_unl (es : list event) (st en : option Z) : list event :=
  opt_filter en mem_window_end (opt_filter st mem_window_start (rev (sort_by ts es))).

Lemma mem_get_events_take : forall es limit st en,
  mem_get_events es limit st en = take limit (mem_unl es st en).
Proof. reflexivity. Qed.

Lemma mem_unl_filter : forall es st en,
  mem_unl es st en = filter (meets 0 st en) (rev (sort_by ts es)).
Proof.
  intros es st en. unfold mem_unl, opt_filter, meets, mem_window_start, mem_window_end, eend.
  generalize (rev (sort_by ts es)) as l. intro l.
  destruct st as [ws|], en as [we|].
  - rewrite <- w_filter_andb. apply filter_ext. intros e. f_equal; f_equal; lia.
  - apply filter_ext. intros e. rewrite andb_true_r. f_equal. lia.
  - apply filter_ext. intros e. cbn [andb]. f_equal. lia.
  - induction l as [|a t IH]; cbn; [reflexivity|now f_equal].
Qed.

Lemma mem_unl_perm : forall es st en, Permutation (mem_unl es st en) (filter (meets 0 st en) es).
Proof.
  intros. rewrite mem_unl_filter. apply w_perm_filter.
  rewrite <- Permutation_rev. apply w_sort_perm.
Qed.

Lemma mem_unl_desc : forall es st en, desc ts (mem_unl es st en).
Proof.
  intros. rewrite mem_unl_filter. apply ss_filter.
  exact (ss_rev _ _ (w_sort_asc ts es)).
Qed.

Lemma mem_unl_In : forall es st en e,
  In e (mem_unl es st en) <-> In e es /\ meets 0 st en e = true.
Proof.
  intros. split; intro H.
  - apply (Permutation_in _ (mem_unl_perm es st en)) in H. now apply filter_In in H.
  - apply (Permutation_in _ (Permutation_sym (mem_unl_perm es st en))). now apply filter_In.
Qed.

Lemma mem_count_filter : forall es st en,
  mem_count es st en = Z.of_nat (length (filter (meets 0 st en) es)).
Proof.
  intros. unfold mem_count. do 2 f_equal. apply filter_ext. intros e.
  unfold meets, mem_window_start, mem_window_end, eend.
  destruct st, en; f_equal; try reflexivity; lia.
Qed.

(* ---- state level ---- *)

Lemma mem_read_shape : forall c b m es limit ws we,
  mem_view c b = Some (m, es) ->
  mem_read c b limit ws we =
  Ok (OEvents (take limit (mem_unl es (fst (bucket_get_round ws we)) (snd (bucket_get_round ws we))))).
Proof.
  intros c b m es limit ws we V. unfold mem_read, read, mem_get. cbn [mem_step].
  unfold mem_view in V. rewrite V. cbn [snd]. now rewrite mem_get_events_take.
Qed.

Lemma mem_get_shape : forall c b m es limit st en,
  mem_view c b = Some (m, es) ->
  mem_get c b limit st en = Ok (OEvents (take limit (mem_unl es st en))).
Proof.
  intros c b m es limit st en V. unfold mem_get. cbn [mem_step].
  unfold mem_view in V. rewrite V. cbn [snd]. now rewrite mem_get_events_take.
Qed.

Lemma mem_count_shape : forall c b m es ws we,
  mem_view c b = Some (m, es) ->
  mem_readcount c b ws we = Ok (OCount (Z.of_nat (length (filter (meets 0 ws we) es)))).
Proof.
  intros c b m es ws we V. unfold mem_readcount, count, mem_getcount. cbn [mem_step].
  unfold mem_view in V. rewrite V. cbn [snd]. now rewrite mem_count_filter.
Qed.

Section Mem.
  Variables (c : mstate) (b : Z) (m : meta) (es : list event).
  Hypothesis V : mem_view c b = Some (m, es).
  Variables ws we : option Z.
  Let ws' := fst (bucket_get_round ws we).
  Let we' := snd (bucket_get_round ws we).

  (* the unlimited read is exactly the stored events meeting the rounded window *)
  Theorem mem_unlimited : exists U,
    mem_read c b (-1) ws we = Ok (OEvents U) /\ Permutation U (filter (meets 0 ws' we') es).
  Proof.
    eexists. split; [apply (mem_read_shape _ _ _ _ _ _ _ V)|].
    change (take (-1) ?l) with l. apply mem_unl_perm.
  Qed.

  Theorem mem_complete : forall e, In e es -> meets 0 ws we e = true ->
    exists U, mem_read c b (-1) ws we = Ok (OEvents U) /\ In e U.
  Proof.
    intros e I M. eexists. split; [apply (mem_read_shape _ _ _ _ _ _ _ V)|].
    change (take (-1) ?l) with l. apply mem_unl_In. split; [assumption|].
    now apply meets_to_rounded.
  Qed.

  Theorem mem_sound : forall limit L e,
    mem_read c b limit ws we = Ok (OEvents L) -> In e L ->
    In e es /\ meets 0 ws' we' e = true /\ meets (-1000) ws we e = true.
  Proof.
    intros limit L e R I. rewrite (mem_read_shape _ _ _ _ _ _ _ V) in R. injection R as <-.
    apply take_In, mem_unl_In in I. destruct I as [I M]. repeat split; try assumption.
    apply (meets_from_rounded 0). exact M.
  Qed.

  Theorem mem_sorted_desc : forall limit L,
    mem_read c b limit ws we = Ok (OEvents L) -> desc ts L.
  Proof.
    intros limit L R. rewrite (mem_read_shape _ _ _ _ _ _ _ V) in R. injection R as <-.
    apply take_desc, mem_unl_desc.
  Qed.

  Theorem mem_limit : forall limit, exists U,
    mem_read c b (-1) ws we = Ok (OEvents U) /\ desc ts U /\
    mem_read c b limit ws we = Ok (OEvents (take limit U)).
  Proof.
    intros limit. eexists. split; [apply (mem_read_shape _ _ _ _ _ _ _ V)|].
    change (take (-1) ?l) with l. split; [apply mem_unl_desc|].
    apply (mem_read_shape _ _ _ _ _ _ _ V).
  Qed.

  (* get_eventcount: exact at the raw edges; equal to the length of the storage read at the
     same edges; and between the counts of the requested and the 1 ms-widened window as far
     as Bucket.get (which rounds) is concerned *)
  Theorem mem_count_exact :
    mem_readcount c b ws we = Ok (OCount (Z.of_nat (length (filter (meets 0 ws we) es)))).
  Proof. exact (mem_count_shape _ _ _ _ _ _ V). Qed.

  Theorem mem_count_same_edges : exists U0,
    mem_get c b (-1) ws we = Ok (OEvents U0) /\
    mem_readcount c b ws we = Ok (OCount (Z.of_nat (length U0))).
  Proof.
    eexists. split; [apply (mem_get_shape _ _ _ _ _ _ _ V)|].
    change (take (-1) ?l) with l. rewrite mem_count_exact. do 3 f_equal.
    symmetry. apply Permutation_length, mem_unl_perm.
  Qed.

  Theorem mem_count_vs_read : exists n U,
    mem_readcount c b ws we = Ok (OCount (Z.of_nat n)) /\
    mem_read c b (-1) ws we = Ok (OEvents U) /\
    (n <= length U <= length (filter (meets (-1000) ws we) es))%nat.
  Proof.
    eexists _, _. split; [apply mem_count_exact|].
    split; [apply (mem_read_shape _ _ _ _ _ _ _ V)|].
    change (take (-1) ?l) with l.
    rewrite (Permutation_length (mem_unl_perm es _ _)). split.
    - apply w_filter_length_le. intros e _ M. now apply meets_to_rounded.
    - apply w_filter_length_le. intros e _ M. now apply (meets_from_rounded 0).
  Qed.
End Mem.
