(* REFINEMENT of the heap-level merge_events_by_keys (Model/GroupHeap.v) to Model/Group.v:
   on every heap whose argument list reads back ([glist_at]) as vs - with any aliasing
   Python allows: the same Event object several times in the list, data dicts shared
   between events, list values shared between dicts - whenever the call returns, the
   returned list reads back as  merge_events_by_keys vs keys  and the argument still reads
   back as vs.  The call returns iff every value under a merge key is hashable once
   tuple()d ([hashable_keys]: a list value has no mutable members); otherwise it raises
   (TypeError), which the functional model cannot express.
   Simulation: the insertion-ordered dict of groups of the heap run and of the model have
   the same composite keys in the same order, every group Event reads back as the model's
   group, and the group Events are pairwise distinct NEW objects (so `+=` on one group
   changes no other group and no input event). *)
From AwVerif Require Import Base.Prelude Model.MemHeap Model.TransformHeap Model.DictHeap Model.Group
  Model.GroupHeap
  Proofs.MemHeapBase Proofs.MemHeapCopy Proofs.MemHeapFrame Proofs.TransformHeapCopy
  Proofs.TransformHeapBase Proofs.DictHeapBase Proofs.IntersectSort Proofs.GroupHeapFrame
  Proofs.GroupHeapRefine.
From Coq Require Import Arith Relations.
Local Open Scope nat_scope.
Local Notation lookup := MemHeap.lookup.

(* ------------------------------------------------------------------------- *)
(* values, dicts *)

Lemma hash_label_val : forall h v q, hash_label h v = Ok q -> val_label h v = Ok q.
Proof.
  intros h [x|l] q H; cbn in *; auto.
  destruct (lookup h l) as [[[? ? ?|p] [|? ?]]|]; try discriminate. exact H.
Qed.

(* every value under one of the keys is hashable after tuple(): a scalar, or a list
   object without mutable members *)
Definition hashable (h : heap) (keys : list Z) (z : zdict) : Prop :=
  forall k l, In k keys -> zget k z = Some (ZK l) -> exists q, lookup h l = Some (Cell (TNode q) []).

Lemma ckey_h_composite : forall h keys z gd ck, gdict_at h z = Some gd ->
  ckey_h h keys z = Ok ck -> ck = composite_key keys gd.
Proof.
  intros h keys z gd. induction keys as [|k keys IH]; cbn [ckey_h composite_key flat_map]; intros ck G H.
  - inversion H. reflexivity.
  - pose proof (gdict_at_lookup h z gd k G) as X.
    destruct (zget k z) as [v|].
    + destruct X as (q' & V & ->).
      destruct (bind_ok _ _ _ H) as (q & HQ & H1). destruct (bind_ok _ _ _ H1) as (r & R & H2).
      inversion H2; subst ck. apply hash_label_val in HQ. rewrite V in HQ. inversion HQ; subst q'.
      cbn [app]. f_equal. apply IH; auto.
    + rewrite X. cbn [app]. apply IH; auto.
Qed.

Lemma ckey_h_total : forall h keys z gd, gdict_at h z = Some gd -> hashable h keys z ->
  exists ck, ckey_h h keys z = Ok ck.
Proof.
  intros h keys z gd G. induction keys as [|k keys IH]; cbn [ckey_h]; intro Hh.
  - eauto.
  - destruct IH as (r & R). { intros k' l I. apply Hh. right; auto. }
    destruct (zget k z) as [[x|l]|] eqn:Z; [| |eauto].
    + cbn [hash_label bind]. rewrite R. cbn [bind]. eauto.
    + destruct (Hh k l (or_introl eq_refl) Z) as (q & L). cbn [hash_label]. rewrite L. cbn [bind].
      rewrite R. cbn [bind]. eauto.
Qed.

Lemma ckey_h_hashable : forall h keys z ck, ckey_h h keys z = Ok ck -> hashable h keys z.
Proof. intros h keys z ck H k l I Z. eapply ckey_h_flat; eauto. Qed.

Lemma gdict_at_zset : forall h k v q acc ga, gdict_at h acc = Some ga -> val_label h v = Ok q ->
  gdict_at h (zset k v acc) = Some (dset k q ga).
Proof.
  intros h k v q. induction acc as [|[k' v'] acc IH]; cbn [gdict_at zset]; intros ga G V.
  - inversion G; subst. cbn [dset gdict_at]. now rewrite V.
  - destruct (val_label h v') as [q'| |] eqn:V'; try discriminate.
    destruct (gdict_at h acc) as [r|] eqn:G'; try discriminate. inversion G; subst ga. cbn [dset].
    destruct (k' =? k)%Z; cbn [gdict_at].
    + now rewrite V, G'.
    + now rewrite V', (IH _ eq_refl V).
Qed.

Lemma gdict_at_zselect : forall h keys z gd, gdict_at h z = Some gd ->
  gdict_at h (zselect keys z) = Some (select_keys keys gd).
Proof.
  intros h keys z gd G. unfold zselect, select_keys.
  assert (X : forall acc ga, gdict_at h acc = Some ga ->
     gdict_at h (fold_left (fun acc k => match zget k z with Some v => zset k v acc | None => acc end) keys acc) =
     Some (fold_left (fun acc k => match Group.lookup k gd with Some v => dset k v acc | None => acc end) keys ga)).
  { induction keys as [|k keys IH]; cbn [fold_left]; intros acc ga A; auto.
    apply IH. pose proof (gdict_at_lookup h z gd k G) as X.
    destruct (zget k z) as [v|].
    - destruct X as (q & V & ->). now apply gdict_at_zset.
    - now rewrite X. }
  apply X. reflexivity.
Qed.

Lemma ev_dict_kept : forall h0 h e z, kept h0 h -> ev_dict h0 e = Ok z -> ev_dict h e = Ok z.
Proof.
  intros h0 h e z K H. destruct (ev_dict_inv _ _ _ H) as (i & t & d & dl & Le & RD).
  destruct (rd_dict_inv _ _ _ RD) as (p & kk & Ld & _).
  unfold ev_dict, rd_data, ev_fields. rewrite (kept_some _ _ _ _ K Le). cbn [bind snd].
  rewrite <- RD. apply rd_dict_agree. rewrite Ld. eapply kept_some; eauto.
Qed.

Lemma hashable_kept : forall h0 h keys z gd, kept h0 h -> gdict_at h0 z = Some gd ->
  hashable h0 keys z -> hashable h keys z.
Proof.
  intros h0 h keys z gd K G Hh k l I Z. destruct (Hh k l I Z) as (q & L). exists q. eapply kept_some; eauto.
Qed.

Lemma gev_at_lt : forall h l v, gev_at h l = Some v -> l < length h.
Proof. intros h l v H. destruct (gev_at_inv _ _ _ H) as (dl & z & L & _). eapply lookup_lt; eauto. Qed.

(* ------------------------------------------------------------------------- *)
(* an attribute assignment to an Event (`+=` on .duration) and the read-back of Events *)

Lemma retag_lookup_same : forall h g i t d i' t' d' kk, lookup h g = Some (Cell (TEv i t d) kk) ->
  lookup (update h g (Cell (TEv i' t' d') kk)) g = Some (Cell (TEv i' t' d') kk).
Proof. intros. apply lookup_update_same. eapply lookup_lt; eauto. Qed.

Lemma val_label_retag : forall h g i t d i' t' d' kk, lookup h g = Some (Cell (TEv i t d) kk) ->
  forall v, val_label (update h g (Cell (TEv i' t' d') kk)) v = val_label h v.
Proof.
  intros h g i t d i' t' d' kk Lg [x|l]; cbn [val_label]; auto. destruct (Nat.eq_dec l g) as [E|N].
  - subst l. rewrite (retag_lookup_same _ _ _ _ _ i' t' d' _ Lg), Lg. reflexivity.
  - now rewrite lookup_update_other.
Qed.

Lemma gdict_at_retag : forall h g i t d i' t' d' kk, lookup h g = Some (Cell (TEv i t d) kk) ->
  forall z, gdict_at (update h g (Cell (TEv i' t' d') kk)) z = gdict_at h z.
Proof.
  intros h g i t d i' t' d' kk Lg. induction z as [|[k v] z IH]; cbn [gdict_at]; auto.
  now rewrite (val_label_retag _ _ _ _ _ i' t' d' _ Lg), IH.
Qed.

Lemma rd_dict_retag : forall h g i t d i' t' d' kk, lookup h g = Some (Cell (TEv i t d) kk) ->
  forall dl, rd_dict (update h g (Cell (TEv i' t' d') kk)) dl = rd_dict h dl.
Proof.
  intros h g i t d i' t' d' kk Lg dl. unfold rd_dict. destruct (Nat.eq_dec dl g) as [E|N].
  - subst dl. rewrite (retag_lookup_same _ _ _ _ _ i' t' d' _ Lg), Lg. reflexivity.
  - now rewrite lookup_update_other.
Qed.

Lemma gev_at_retag_other : forall h g i t d i' t' d' kk, lookup h g = Some (Cell (TEv i t d) kk) ->
  forall l, l <> g -> gev_at (update h g (Cell (TEv i' t' d') kk)) l = gev_at h l.
Proof.
  intros h g i t d i' t' d' kk Lg l N. unfold gev_at. rewrite lookup_update_other by auto.
  destruct (lookup h l) as [[[i1 t1 d1|p] [|dl [|? ?]]]|]; auto.
  rewrite (rd_dict_retag _ _ _ _ _ i' t' d' _ Lg). destruct (rd_dict h dl) as [z| |]; auto.
  now rewrite (gdict_at_retag _ _ _ _ _ i' t' d' _ Lg).
Qed.

Lemma gev_at_retag_same : forall h g i t d i' t' d' kk, lookup h g = Some (Cell (TEv i t d) kk) ->
  forall v, gev_at h g = Some v ->
  gev_at (update h g (Cell (TEv i' t' d') kk)) g = Some (mkG i' t' d' (gdata v)).
Proof.
  intros h g i t d i' t' d' kk Lg v H. destruct (gev_at_inv _ _ _ H) as (dl & z & L & R & G).
  rewrite Lg in L. inversion L; subst.
  eapply gev_at_intro; [eapply retag_lookup_same; eauto|erewrite rd_dict_retag; eauto|erewrite gdict_at_retag; eauto].
Qed.

Lemma NoDup_app_one : forall {X} (l : list X) x, NoDup l -> ~ In x l -> NoDup (l ++ [x]).
Proof.
  intros X l x ND NI. induction ND as [|y l NY ND IH]; cbn [app].
  - constructor; [intros []|constructor].
  - constructor.
    + intro I. apply in_app_or in I. destruct I as [I|[<-|[]]]; [auto|]. apply NI. left; auto.
    + apply IH. intro I. apply NI. right; auto.
Qed.

(* ------------------------------------------------------------------------- *)
(* the first loop *)

Section MergeSim.
  Variables (keys : list Z) (h0 : heap).

  Definition gentry (h : heap) (cg : list (Z * Z) * loc) (cv : list (Z * Z) * gev) : Prop :=
    fst cg = fst cv /\ length h0 <= snd cg /\ gev_at h (snd cg) = Some (snd cv).

  Definition grel (h : heap) (m : groups) (gm : list (list (Z * Z) * gev)) : Prop :=
    Forall2 (gentry h) m gm /\ NoDup (map snd m).

  Lemma gfind_none_madd : forall h ck e m gm, Forall2 (gentry h) m gm -> gfind ck m = None ->
    madd keys ck e gm = gm ++ [(ck, new_group keys e)].
  Proof.
    intros h ck e m gm F. induction F as [|[c g] [c' gv] m gm (E & _) F IH]; cbn [gfind madd app]; intro H; auto.
    cbn [fst] in E. subst c'. destruct (ckey_eqb c ck); try discriminate. now rewrite IH.
  Qed.

  Lemma gentry_others : forall h h' g m gm, Forall2 (gentry h) m gm -> ~ In g (map snd m) ->
    (forall l, l <> g -> gev_at h' l = gev_at h l) -> Forall2 (gentry h') m gm.
  Proof.
    intros h h' g m gm F. induction F as [|[c1 g1] [c1' gv1] m gm (E1 & Ge1 & Gv1) F IH]; intros NI O; constructor.
    - unfold gentry. cbn [fst snd map] in *. split; [|split]; auto. rewrite O; auto. intros ->. apply NI. left; auto.
    - apply IH; auto. intro I. apply NI. right; auto.
  Qed.

  (* the group found gets the new duration; every other entry is as it was *)
  Lemma gfind_some_madd : forall h ck e m gm g, Forall2 (gentry h) m gm -> NoDup (map snd m) ->
    gfind ck m = Some g ->
    exists gv, gev_at h g = Some gv /\ In g (map snd m) /\
      forall h', (forall l, l <> g -> gev_at h' l = gev_at h l) ->
                 gev_at h' g = Some (add_dur gv (gdur e)) ->
                 Forall2 (gentry h') m (madd keys ck e gm).
  Proof.
    intros h ck e m gm g F. induction F as [|[c g0] [c' gv0] m gm (E & Ge & Gv) F IH];
      cbn [gfind madd map]; intros ND H; try discriminate.
    cbn [fst snd] in *. subst c'. inversion ND as [|? ? NI ND']; subst.
    destruct (ckey_eqb c ck).
    - inversion H; subst g0. exists gv0. split; auto. split; [left; auto|].
      intros h' O S. constructor; [unfold gentry; cbn [fst snd]; split; [|split]; auto|].
      eapply gentry_others; eauto.
    - destruct (IH ND' H) as (gv & Gg & Ig & K). exists gv. split; auto. split; [right; auto|].
      intros h' O S. constructor; [|apply K; auto].
      unfold gentry. cbn [fst snd]. split; [|split]; auto. rewrite O; auto. intros ->. auto.
  Qed.

  Lemma merge_step_sim : forall h m gm e v z ck,
    kept h0 h -> grel h m gm -> gev_at h e = Some v ->
    ev_dict h e = Ok z -> ckey_h h keys z = Ok ck ->
    exists h' m', merge_step_h keys (h, m) e = Ok (h', m') /\ kept h0 h' /\
                  grel h' m' (merge_step keys gm v).
  Proof.
    intros h m gm e v z ck K [F ND] Ge EZ CK.
    destruct (ev_dict_gev _ _ _ Ge) as (z' & EZ' & GD). rewrite EZ in EZ'. inversion EZ'; subst z'. clear EZ'.
    pose proof (ckey_h_composite _ _ _ _ _ GD CK) as Eck.
    unfold merge_step_h, merge_step. cbn [fst snd]. rewrite EZ. cbn [bind]. rewrite CK. cbn [bind].
    rewrite <- Eck. clear Eck.
    destruct (gfind ck m) as [g|] eqn:GF.
    - destruct (gfind_some_madd h ck v m gm g F ND GF) as (gv & Gg & Ig & Hm).
      destruct (gev_at_inv _ _ _ Gg) as (dl & zg & Lg & _).
      rewrite (rd_dur_gev _ _ _ Gg), (rd_dur_gev _ _ _ Ge). cbn [bind].
      unfold wr_dur. rewrite Lg. cbn [bind].
      eexists _, _. split; [reflexivity|].
      assert (Fg : length h0 <= g).
      { apply in_map_iff in Ig. destruct Ig as ([c g'] & <- & I).
        clear -F I. induction F as [|x y m gm R F IH]; [destruct I|].
        destruct I as [->|I]; [apply R|auto]. }
      split; [now apply kept_update|]. split.
      + apply Hm.
        * intros l N. eapply gev_at_retag_other; eauto.
        * rewrite (gev_at_retag_same _ _ _ _ _ _ _ _ _ Lg _ Gg). reflexivity.
      + exact ND.
    - rewrite (rd_ts_gev _ _ _ Ge), (rd_dur_gev _ _ _ Ge). cbn [bind alloc fst snd].
      eexists _, _. split; [reflexivity|].
      set (h1 := h ++ [dict_cell (zselect keys z)]).
      set (h2 := h1 ++ [Cell (TEv None (TransformHeap.floor_ms (gts v)) (gdur v)) [length h]]).
      assert (K12 : kept h h2) by (apply kept_alloc, kept_alloc, kept_refl).
      split; [eapply kept_trans; eauto|]. split.
      + rewrite (gfind_none_madd h ck v m gm F GF). apply Forall2_app.
        * clear -F K12. induction F as [|x y m gm (E & G & V) F IH]; constructor; auto.
          split; [|split]; auto. eapply gev_at_kept; eauto.
        * constructor; [|constructor]. unfold gentry. cbn [fst snd]. split; [reflexivity|]. split.
          { unfold h1. rewrite app_length. cbn [length]. destruct K. lia. }
          unfold new_group. eapply gev_at_intro.
          -- unfold h2. apply lookup_alloc_new.
          -- apply rd_dict_cell. unfold h2. apply lookup_app_some. unfold h1. apply lookup_alloc_new.
          -- apply gdict_at_zselect. eapply gdict_at_kept; eauto.
      + rewrite map_app. cbn [map snd]. apply NoDup_app_one; auto.
        intro I. apply in_map_iff in I. destruct I as ([c g'] & E & I). cbn [snd] in E.
        assert (B : g' < length h).
        { clear -F I. induction F as [|x y m gm (_ & _ & V) F IH]; [destruct I|].
          destruct I as [->|I]; [eapply gev_at_lt; eauto|auto]. }
        unfold h1 in E. rewrite app_length in E. cbn [length] in E. lia.
  Qed.
End MergeSim.

Lemma hashable_kept_back : forall h0 h keys z gd, kept h0 h -> gdict_at h0 z = Some gd ->
  hashable h keys z -> hashable h0 keys z.
Proof.
  intros h0 h keys z gd K G Hh k l I Z. destruct (Hh k l I Z) as (q & L). exists q.
  pose proof (gdict_at_lookup h0 z _ k G) as Y. rewrite Z in Y. destruct Y as (q' & V & _).
  cbn [val_label] in V. destruct (lookup h0 l) as [c|] eqn:Ll; try discriminate.
  rewrite (kept_some _ _ _ _ K Ll) in L. now rewrite L.
Qed.

Definition hashable_ev (h0 : heap) (keys : list Z) (e : loc) : Prop :=
  forall z, ev_dict h0 e = Ok z -> hashable h0 keys z.

(* the whole first loop.  It goes through when each iteration's composite key can be
   hashed - which is the case when the values under the keys are hashable, and must have
   been the case when the loop returned *)
Lemma merge_fold_sim : forall keys h0 evs vs, Forall2 (fun e v => gev_at h0 e = Some v) evs vs ->
  forall h m gm, kept h0 h -> grel h0 h m gm ->
  (Forall (hashable_ev h0 keys) evs \/ exists st, fold_res (merge_step_h keys) evs (h, m) = Ok st) ->
  exists h' m', fold_res (merge_step_h keys) evs (h, m) = Ok (h', m') /\ kept h0 h' /\
                grel h0 h' m' (fold_left (merge_step keys) vs gm) /\
                Forall (hashable_ev h0 keys) evs.
Proof.
  intros keys h0 evs vs F. induction F as [|e v evs vs Ge F IH]; intros h m gm K G OK; cbn [fold_res fold_left].
  - eauto 6.
  - pose proof (gev_at_kept _ _ _ _ K Ge) as Ge'.
    destruct (ev_dict_gev _ _ _ Ge) as (z & EZ & GD).
    pose proof (ev_dict_kept _ _ _ _ K EZ) as EZ'.
    assert (CK : exists ck, ckey_h h keys z = Ok ck).
    { destruct OK as [Hh|(st & OK)].
      - inversion Hh as [|? ? He Ht]; subst. eapply ckey_h_total.
        + eapply gdict_at_kept; eauto.
        + eapply hashable_kept; eauto.
      - cbn [fold_res] in OK. destruct (bind_ok _ _ _ OK) as (st1 & S1 & _).
        unfold merge_step_h in S1. cbn [fst snd] in S1.
        rewrite EZ' in S1. cbn [bind] in S1. destruct (bind_ok _ _ _ S1) as (ck & CK & _). eauto. }
    destruct CK as (ck & CK).
    assert (He : hashable_ev h0 keys e).
    { intros z' EZ2. rewrite EZ in EZ2. inversion EZ2; subst z'.
      eapply hashable_kept_back; eauto. eapply ckey_h_hashable; eauto. }
    destruct (merge_step_sim keys h0 h m gm e v z ck K G Ge' EZ' CK) as (h1 & m1 & S1 & K1 & G1).
    rewrite S1. cbn [bind].
    destruct (IH h1 m1 (merge_step keys gm v) K1 G1) as (h2 & m2 & S2 & K2 & G2 & H2).
    { destruct OK as [Hh|(st & OK)]; [left; inversion Hh; auto|right].
      cbn [fold_res] in OK. rewrite S1 in OK. cbn [bind] in OK. eauto. }
    exists h2, m2. split; [exact S2|]. split; [exact K2|]. split; [exact G2|]. constructor; auto.
Qed.

(* the second loop: Event( **merged) *)
Lemma rebuild_step_sim : forall h outs g gv, gev_at h g = Some gv ->
  exists h' o, rebuild_h (h, outs) g = Ok (h', outs ++ [o]) /\ kept h h' /\
               gev_at h' o = Some (rebuild gv).
Proof.
  intros h outs g gv G. destruct (gev_at_inv _ _ _ G) as (dl & z & L & R & GD).
  unfold rebuild_h. cbn [fst snd]. unfold ev_fields. rewrite L. cbn [bind fst snd]. rewrite R. cbn [bind].
  destruct z as [|zz z].
  - cbn [alloc fst snd]. eexists _, _. split; [reflexivity|]. split; [apply kept_alloc, kept_alloc, kept_refl|].
    cbn [gdict_at] in GD. inversion GD as [E]. unfold rebuild. rewrite <- E.
    eapply gev_at_intro with (z := []); [apply lookup_alloc_new| |reflexivity].
    apply rd_dict_cell. apply lookup_app_some. apply lookup_alloc_new.
  - cbn [alloc fst snd]. eexists _, _. split; [reflexivity|]. split; [apply kept_alloc, kept_refl|].
    unfold rebuild. eapply gev_at_intro; [apply lookup_alloc_new| |].
    + rewrite <- R. apply rd_dict_agree. destruct (rd_dict_inv _ _ _ R) as (p & kk & Ld & _).
      rewrite Ld. now apply lookup_app_some.
    + eapply gdict_at_kept; eauto. apply kept_alloc, kept_refl.
Qed.

Lemma rebuild_fold_sim : forall gs gvs h1, Forall2 (fun g v => gev_at h1 g = Some v) gs gvs ->
  forall h outs, kept h1 h ->
  exists h' new, fold_res rebuild_h gs (h, outs) = Ok (h', outs ++ new) /\ kept h h' /\
                 Forall2 (fun o v => gev_at h' o = Some v) new (map rebuild gvs).
Proof.
  intros gs gvs h1 F. induction F as [|g v gs gvs G F IH]; intros h outs K; cbn [fold_res map].
  - exists h, []. rewrite app_nil_r. split; auto. split; [apply kept_refl|constructor].
  - destruct (rebuild_step_sim h outs g v (gev_at_kept _ _ _ _ K G)) as (h2 & o & S & K2 & Go).
    rewrite S. cbn [bind].
    destruct (IH h2 (outs ++ [o]) (kept_trans _ _ _ K K2)) as (h3 & new & S3 & K3 & F3).
    exists h3, (o :: new). rewrite S3, <- app_assoc. split; auto. split; [eapply kept_trans; eauto|].
    constructor; auto. eapply gev_at_kept; eauto.
Qed.

(* the values under the merge keys of every listed event are hashable *)
Definition hashable_keys (h : heap) (L : loc) (keys : list Z) : Prop :=
  forall ks e z, list_elems h L = Ok ks -> In e ks -> ev_dict h e = Ok z -> hashable h keys z.

Lemma merge_h_sim : forall h L keys vs, glist_at h L = Some vs ->
  (hashable_keys h L keys \/ exists r, merge_events_by_keys_h h L keys = Ok r) ->
  exists h' L', merge_events_by_keys_h h L keys = Ok (h', L') /\
                glist_at h' L' = Some (merge_events_by_keys vs keys) /\ glist_at h' L = Some vs /\
                kept h h' /\ (keys <> [] -> hashable_keys h L keys).
Proof.
  intros h L keys vs GL OK. unfold merge_events_by_keys_h, merge_events_by_keys.
  destruct (Z.of_nat (length keys) <? 1)%Z eqn:NK.
  - exists h, L. split; auto. split; auto. split; auto. split; [apply kept_refl|].
    intro N. destruct keys; [congruence|]. apply Z.ltb_lt in NK. cbn [length] in NK. lia.
  - destruct (glist_at_inv _ _ _ GL) as (p & ks & Lk & G).
    assert (LE : list_elems h L = Ok ks) by (unfold list_elems; now rewrite Lk).
    rewrite LE. cbn [bind].
    unfold gevs_at in G. apply opt_list_Forall2 in G.
    assert (OK1 : Forall (hashable_ev h keys) ks \/
                  exists st, fold_res (merge_step_h keys) ks (h, []) = Ok st).
    { destruct OK as [Hh|(r & OK)].
      - left. apply Forall_forall. intros e I z EZ. eapply Hh; eauto.
      - right. unfold merge_events_by_keys_h in OK. rewrite NK, LE in OK. cbn [bind] in OK.
        destruct (bind_ok _ _ _ OK) as (st & S & _). eauto. }
    destruct (merge_fold_sim keys h ks vs G h [] [] (kept_refl h) (conj (Forall2_nil _) (NoDup_nil _)) OK1)
      as (h1 & m1 & S1 & K1 & [F1 _] & HE).
    unfold groups in *. rewrite S1. cbn [bind fst snd].
    assert (F1' : Forall2 (fun g v => gev_at h1 g = Some v) (map snd m1)
                    (map snd (fold_left (merge_step keys) vs []))).
    { clear -F1. induction F1 as [|x y m gm (_ & _ & V) F IH]; cbn [map]; constructor; auto. }
    destruct (rebuild_fold_sim _ _ h1 F1' h1 [] (kept_refl h1)) as (h2 & outs & S2 & K2 & F2).
    rewrite S2. cbn [bind fst snd app].
    eexists _, _. split; [reflexivity|].
    assert (K02 : kept h h2) by (eapply kept_trans; eauto).
    split; [|split; [|split]].
    + apply glist_at_new. unfold gevs_at. apply opt_list_Forall2.
      rewrite map_map in F2. exact F2.
    + eapply glist_at_kept; eauto. apply kept_alloc. exact K02.
    + apply kept_alloc; exact K02.
    +
      intros _ ks' e z LE' I EZ. rewrite LE in LE'. inversion LE'; subst ks'.
      rewrite Forall_forall in HE. apply (HE e I z EZ).
Qed.

(* whenever the call returns *)
Theorem merge_h_refines_partial : forall h L keys vs h' L', glist_at h L = Some vs ->
  merge_events_by_keys_h h L keys = Ok (h', L') ->
  glist_at h' L' = Some (merge_events_by_keys vs keys) /\ glist_at h' L = Some vs.
Proof.
  intros h L keys vs h' L' GL H.
  destruct (merge_h_sim h L keys vs GL (or_intror (ex_intro _ _ H))) as (h2 & L2 & H2 & R & A & _).
  rewrite H in H2. inversion H2; subst. auto.
Qed.

(* it returns when the values under the keys are hashable *)
Theorem merge_h_refines : forall h L keys vs, glist_at h L = Some vs -> hashable_keys h L keys ->
  exists h' L', merge_events_by_keys_h h L keys = Ok (h', L') /\
                glist_at h' L' = Some (merge_events_by_keys vs keys) /\ glist_at h' L = Some vs.
Proof.
  intros h L keys vs GL Hh. destruct (merge_h_sim h L keys vs GL (or_introl Hh)) as (h2 & L2 & H2 & R & A & _).
  eauto.
Qed.


(* ... and only then (otherwise it raises: TypeError, unhashable type) *)
Theorem merge_h_returns_iff : forall h L keys vs, glist_at h L = Some vs -> keys <> [] ->
  ((exists r, merge_events_by_keys_h h L keys = Ok r) <-> hashable_keys h L keys).
Proof.
  intros h L keys vs GL NK. split.
  - intro OK. destruct (merge_h_sim h L keys vs GL (or_intror OK)) as (h2 & L2 & _ & _ & _ & _ & Hh). auto.
  - intro Hh. destruct (merge_h_refines h L keys vs GL Hh) as (h' & L' & H & _). eauto.
Qed.
