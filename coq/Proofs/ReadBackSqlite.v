(* C01 on the sqlite back end (Model/SqliteStore.v).  The unwindowed listing of sqlite.py is
   `endtime >= 0 AND starttime <= 2^63-1`, so an event is listed iff it does not end before
   the epoch (StoreSpec.ev_dom; the property's domain is 1970..2100, non-negative
   durations). *)
From Coq Require Import Permutation ZifyBool.
From AwVerif Require Import Base.Prelude Model.StoreBase Model.SqliteStore Model.StoreSpec
  Proofs.StoreBaseFacts Proofs.StoreMemProofs Proofs.StoreMemRefine Proofs.StoreSpecFacts
  Proofs.StoreSqliteProofs Proofs.StoreSqliteRefine Proofs.ReadBackBase.

(* the events the unwindowed read shows *)
Definition sq_visible (e : event) : bool := (0 <=? ts e + dur e) && (ts e <=? MAX_TIMESTAMP).

Lemma sq_visible_dom : forall e, ev_dom e -> sq_visible e = true.
Proof. intros e [H1 H2]. unfold sq_visible, MAX_TIMESTAMP. lia. Qed.

Lemma sq_visible_row : forall r, sq_visible (row_event r) = sq_in_window 0 MAX_TIMESTAMP r.
Proof. intros r. unfold sq_visible, sq_in_window. cbn. f_equal. f_equal. lia. Qed.

Lemma filter_map_comm : forall {A B} (f : A -> B) (p : B -> bool) l,
  filter p (map f l) = map f (filter (fun x => p (f x)) l).
Proof.
  induction l as [|a t IH]; cbn; [reflexivity|]. destruct (p (f a)); cbn; now rewrite IH.
Qed.

(* ---------- reads, in any state ---------- *)
Lemma sq_listing : forall c b m es,
  sq_view c b = Some (m, es) ->
  exists l, sq_step c (GetEvents b (-1) None None) = (c, Ok (OEvents l)) /\
            Permutation l (filter sq_visible es).
Proof.
  intros c b m es V. apply sq_view_Some in V as [r [Hr [-> [-> Hrid]]]].
  cbn [sq_step]. change (-1 =? 0) with false. change (-1 <? 0) with true. cbv iota.
  eexists. split; [reflexivity|].
  unfold sql_select_events, sql_limit. change (-1 <? 0) with true. cbv iota.
  cbn [sq_window_lo sq_window_hi]. rewrite Hrid.
  apply Permutation_trans with
    (map row_event (select_where (fun x => eq_nullable (er_bucket x) (Some (br_rowid r)) &&
                                           sq_in_window 0 MAX_TIMESTAMP x) (sq_events c))).
  - apply Permutation_map, sq_order_perm.
  - unfold select_where. rewrite filter_map_comm. unfold rows_of.
    rewrite (filter_ext (fun x => sq_visible (row_event x)) (sq_in_window 0 MAX_TIMESTAMP))
      by apply sq_visible_row.
    rewrite <- filter_andb. apply Permutation_refl.
Qed.

Lemma sq_lookup : forall c b m es x i,
  sq_Inv c -> sq_view c b = Some (m, es) -> In x es -> eid x = Some i ->
  sq_step c (GetEvent b i) = (c, Ok (OEvent (Some x))).
Proof.
  intros c b m es x i I V Ix Ex. apply sq_view_Some in V as [r [Hr [-> [-> Hrid]]]].
  apply in_map_iff in Ix as [r0 [E0 I0]]. subst x. cbn in Ex. inversion Ex; subst i.
  unfold rows_of in I0. apply filter_In in I0 as [I0 B0].
  cbn [sq_step]. unfold sql_select_event, select_where, sql_limit. rewrite Hrid.
  change (1 <? 0) with false. cbv iota.
  set (p := fun r1 => eq_nullable (er_bucket r1) (Some (br_rowid r)) && (er_id r1 =? er_id r0)).
  destruct (filter p (sq_events c)) as [|y t] eqn:F.
  - exfalso. assert (In r0 (filter p (sq_events c))); [|rewrite F in H; exact H].
    apply filter_In. split; [assumption|]. unfold p. rewrite eq_nullable_Some. lia.
  - assert (Iy : In y (filter p (sq_events c))) by (rewrite F; now left).
    apply filter_In in Iy as [Iy Py]. unfold p in Py. apply andb_prop in Py as [_ Py].
    assert (y = r0).
    { eapply NoDup_map_inj; [apply (sqi_eids c I)|assumption|assumption|lia]. }
    subst y. reflexivity.
Qed.

(* ---------- single insertion ---------- *)
Lemma sq_insert_fresh : forall c b e m es,
  sq_Inv c -> sq_view c b = Some (m, es) ->
  exists c' i, sq_step c (InsertOne b e) = (c', Ok (OEvent (Some (set_eid e (Some i))))) /\
               ~ is_live i es /\ sq_view c' b = Some (m, es ++ [set_eid e (Some i)]) /\ sq_Inv c'.
Proof.
  intros c b e m es I V. destruct (sq_view_insert_event c b e m es V) as [c' [E V']].
  exists c', (sq_seq_e c + 1). cbn [sq_step]. rewrite E. split; [reflexivity|].
  split; [eapply sq_seq_fresh; eassumption|]. split; [exact V'|].
  eapply sq_Inv_insert_event; eassumption.
Qed.

(* sqlite's insert_one ignores an id the event carries: no `eid e = None` needed *)
Theorem insert_fresh_id_sqlite : forall c b e m es,
  sq_Inv c -> sq_view c b = Some (m, es) ->
  exists c' e' i,
    sq_step c (InsertOne b e) = (c', Ok (OEvent (Some e'))) /\
    eid e' = Some i /\ (forall x, In x es -> eid x <> Some i) /\
    ts e' = ts e /\ dur e' = dur e /\ data e' = data e /\
    sq_view c' b = Some (m, es ++ [e']) /\ sq_Inv c'.
Proof.
  intros c b e m es I V. destruct (sq_insert_fresh c b e m es I V) as (c' & i & S & F & V' & I').
  exists c', (set_eid e (Some i)), i. split; [exact S|]. split; [reflexivity|].
  split; [now apply not_live_no_event|]. repeat (split; [reflexivity|]). split; assumption.
Qed.

Theorem listing_returns_sqlite : forall c b e m es l0,
  sq_Inv c -> sq_view c b = Some (m, es) -> ev_dom e ->
  snd (sq_step c (GetEvents b (-1) None None)) = Ok (OEvents l0) ->
  exists c' e' l,
    sq_step c (InsertOne b e) = (c', Ok (OEvent (Some e'))) /\ same_payload e e' /\
    sq_step c' (GetEvents b (-1) None None) = (c', Ok (OEvents l)) /\
    Permutation l (e' :: l0) /\
    (forall x, In x l -> eid x = eid e' -> x = e').
Proof.
  intros c b e m es l0 I V D L0.
  destruct (insert_fresh_id_sqlite c b e m es I V) as (c' & e' & i & S & Ei & F & Ht & Hd & Hx & V' & I').
  destruct (sq_listing c b m es V) as [l0' [R0 P0]]. rewrite R0 in L0. cbn [snd] in L0. inversion L0; subst l0'.
  destruct (sq_listing c' b m _ V') as [l [R P]].
  assert (Vis : sq_visible e' = true).
  { apply sq_visible_dom. destruct D as [D1 D2]. unfold ev_dom. rewrite Ht, Hd. split; assumption. }
  rewrite filter_app in P. cbn [filter] in P. rewrite Vis in P.
  exists c', e', l. split; [exact S|]. split; [repeat split; assumption|]. split; [exact R|]. split.
  - rewrite P. rewrite <- Permutation_cons_append. now apply perm_skip, Permutation_sym.
  - intros x Ix Ex. apply (ids_unique_same_id (es ++ [e'])); [eapply sq_view_ids_unique; eassumption| | |exact Ex].
    + eapply Permutation_in in Ix; [|exact P]. apply in_app_iff in Ix as [Ix|Ix].
      * apply filter_In in Ix as [Ix _]. apply in_app_iff. now left.
      * apply in_app_iff. now right.
    + apply in_app_iff. right. now left.
Qed.

Theorem lookup_returns_sqlite : forall c b e m es,
  sq_Inv c -> sq_view c b = Some (m, es) ->
  exists c' e' i,
    sq_step c (InsertOne b e) = (c', Ok (OEvent (Some e'))) /\ eid e' = Some i /\ same_payload e e' /\
    sq_step c' (GetEvent b i) = (c', Ok (OEvent (Some e'))).
Proof.
  intros c b e m es I V.
  destruct (insert_fresh_id_sqlite c b e m es I V) as (c' & e' & i & S & Ei & F & Ht & Hd & Hx & V' & I').
  exists c', e', i. split; [exact S|]. split; [exact Ei|]. split; [repeat split; assumption|].
  apply (sq_lookup c' b m (es ++ [e'])); try assumption. apply in_app_iff. right. now left.
Qed.

(* ---------- ids ---------- *)
Theorem ids_unique_sqlite : forall c b m es,
  sq_Inv c -> sq_view c b = Some (m, es) -> NoDup (map eid es) /\ forall x, In x es -> eid x <> None.
Proof.
  intros c b m es I V. pose proof (sq_view_ids_unique c b m es I V) as U.
  split; [now apply ids_unique_NoDup_eid|apply U].
Qed.

Theorem ids_unique_reachable_sqlite : forall h b m es,
  sq_view (sq_run sq_init h) b = Some (m, es) ->
  NoDup (map eid es) /\ forall x, In x es -> eid x <> None.
Proof. intros h b m es. apply ids_unique_sqlite, sq_run_Inv, sq_Inv_init. Qed.

(* ---------- bulk: executemany(INSERT ...) over the id-less events ---------- *)
Lemma sq_upserts_none : forall news c b, (forall e, In e news -> eid e = None) -> sq_upserts c b news = c.
Proof.
  induction news as [|e t IH]; intros c b N; [reflexivity|]. cbn.
  rewrite (N e (or_introl eq_refl)). apply IH. intros. apply N. now right.
Qed.

Lemma filter_no_id_all : forall news, (forall e, In e news -> eid e = None) -> filter no_id news = news.
Proof. intros news N. apply filter_all. intros e He. unfold no_id. now rewrite (N e He). Qed.

Lemma sq_executemany_new : forall news c b m es,
  sq_view c b = Some (m, es) ->
  exists c' ids, length ids = length news /\
    sq_executemany_insert c b news = (c', Ok ONone) /\
    sq_view c' b = Some (m, es ++ stamp news ids).
Proof.
  induction news as [|e t IH]; intros c b m es V.
  - exists c, []. split; [reflexivity|]. split; [reflexivity|]. cbn. now rewrite app_nil_r.
  - destruct (sq_view_insert_event c b e m es V) as [c1 [E V1]].
    destruct (IH c1 b m _ V1) as (c' & ids & L & S & V').
    exists c', (sq_seq_e c + 1 :: ids). split; [cbn; lia|]. cbn [sq_executemany_insert]. rewrite E.
    split; [exact S|]. rewrite stamp_cons. rewrite <- app_assoc in V'. exact V'.
Qed.

Theorem bulk_sqlite : forall c b news m es,
  sq_Inv c -> sq_view c b = Some (m, es) -> (forall e, In e news -> eid e = None) ->
  exists c' ids,
    sq_step c (InsertMany b news) = (c', Ok ONone) /\
    length ids = length news /\ NoDup ids /\ (forall i x, In i ids -> In x es -> eid x <> Some i) /\
    sq_view c' b = Some (m, es ++ stamp news ids) /\ sq_Inv c'.
Proof.
  intros c b news m es I V N. destruct (sq_executemany_new news c b m es V) as (c' & ids & L & S & V').
  pose proof (sq_step_Inv c (InsertMany b news) I) as I'. cbn [sq_step] in *.
  rewrite (sq_upserts_none news c b N), (filter_no_id_all news N) in *. rewrite S in *. cbn [fst] in I'.
  destruct (stamp_ids_fresh es news ids L (sq_view_ids_unique c' b m _ I' V')) as [ND FR].
  exists c', ids. split; [reflexivity|]. split; [exact L|]. split; [exact ND|].
  split; [intros i x Ii; apply not_live_no_event; now apply FR|]. split; assumption.
Qed.

Theorem bulk_read_back_sqlite : forall c b news m es l0,
  sq_Inv c -> sq_view c b = Some (m, es) -> (forall e, In e news -> eid e = None) ->
  (forall e, In e news -> ev_dom e) ->
  snd (sq_step c (GetEvents b (-1) None None)) = Ok (OEvents l0) ->
  exists c' ids l,
    sq_step c (InsertMany b news) = (c', Ok ONone) /\ length ids = length news /\
    sq_step c' (GetEvents b (-1) None None) = (c', Ok (OEvents l)) /\
    Permutation l (l0 ++ stamp news ids) /\
    (forall x i, In x (stamp news ids) -> eid x = Some i ->
       sq_step c' (GetEvent b i) = (c', Ok (OEvent (Some x)))).
Proof.
  intros c b news m es l0 I V N D L0.
  destruct (bulk_sqlite c b news m es I V N) as (c' & ids & S & L & ND & FR & V' & I').
  destruct (sq_listing c b m es V) as [l0' [R0 P0]]. rewrite R0 in L0. cbn [snd] in L0. inversion L0; subst l0'.
  destruct (sq_listing c' b m _ V') as [l [R P]].
  assert (Vis : filter sq_visible (stamp news ids) = stamp news ids).
  { apply filter_all. intros x Ix. unfold stamp in Ix. apply in_map_iff in Ix as [[e i] [<- Ip]].
    apply in_combine_l in Ip. cbn [fst snd]. apply sq_visible_dom. exact (D e Ip). }
  rewrite filter_app, Vis in P.
  exists c', ids, l. split; [exact S|]. split; [exact L|]. split; [exact R|]. split.
  - rewrite P. apply Permutation_app_tail. now apply Permutation_sym.
  - intros x i Ix Ex. apply (sq_lookup c' b m (es ++ stamp news ids)); try assumption.
    apply in_app_iff. now right.
Qed.
