(* C05 — the sqlite back end provides the lifecycle lemmas (store_ok).

   Invariant of the reachable states: bucket ids unique, bucket rowids unique and not above the
   AUTOINCREMENT sequence, and every event row names the rowid of an existing bucket (no orphan
   rows).  The last clause is what makes a new bucket start empty; it survives delete_bucket
   because that method deletes every event row of the bucket's rowid. *)
From AwVerif Require Import Base.Prelude Model.StoreBase Model.SqliteStore Model.Datastore
  Proofs.LifecycleBase.
From Coq Require Import ZifyBool.

Definition sq_rowids (c : sqstate) : list Z := map br_rowid (sq_buckets c).
Definition sq_orphan_free (c : sqstate) : Prop :=
  Forall (fun e => In (er_bucket e) (sq_rowids c)) (sq_events c).

Record sq_inv (c : sqstate) : Prop := mkSqInv {
  sqi_ids : NoDup (map br_id (sq_buckets c));
  sqi_rowids : NoDup (sq_rowids c);
  sqi_seq : Forall (fun r => br_rowid r <= sq_seq_b c) (sq_buckets c);
  sqi_orphans : sq_orphan_free c }.

Definition sq_events_of (es : list erow) (r : brow) : list event :=
  map row_event (filter (fun e => er_bucket e =? br_rowid r) es).
Definition sq_entry (es : list erow) (r : brow) : Z * (meta * list event) :=
  (br_id r, (br_meta r, sq_events_of es r)).
Definition sq_map (c : sqstate) : kmap := map (sq_entry (sq_events c)) (sq_buckets c).

Definition sqB : backend := mkBackend sqstate sq_init sq_step sq_view sq_map sq_inv.

Lemma sq_eta : forall c, mkSq (sq_buckets c) (sq_events c) (sq_seq_b c) (sq_seq_e c) = c.
Proof. intros []; reflexivity. Qed.

Lemma sq_view_map : forall c b, sq_view c b = aget b (sq_map c).
Proof.
  intros c b. unfold sq_view, sq_map.
  rewrite (find_aget br_id (fun r => (br_meta r, sq_events_of (sq_events c) r))).
  destruct (find (fun r => br_id r =? b) (sq_buckets c)); reflexivity.
Qed.

Lemma sq_find_map : forall c b,
  aget b (sq_map c) =
  option_map (fun r => (br_meta r, sq_events_of (sq_events c) r)) (find (fun r => br_id r =? b) (sq_buckets c)).
Proof.
  intros. unfold sq_map.
  apply (find_aget br_id (fun r => (br_meta r, sq_events_of (sq_events c) r))).
Qed.

Lemma sq_listing : forall c,
  map (fun r => (br_id r, br_meta r)) (sq_buckets c) = listing_of (sq_map c).
Proof. intros. unfold listing_of, sq_map. rewrite map_map. reflexivity. Qed.

(* ---- event operations: they touch the events table only, and never invent a bucket rowid *)

Definition sq_ev_step (c c' : sqstate) : Prop :=
  sq_buckets c' = sq_buckets c /\ sq_seq_b c' = sq_seq_b c /\ (sq_orphan_free c -> sq_orphan_free c').

Lemma sq_ev_refl : forall c, sq_ev_step c c.
Proof. intros. repeat split; auto. Qed.

Lemma sq_ev_trans : forall a b c, sq_ev_step a b -> sq_ev_step b c -> sq_ev_step a c.
Proof.
  unfold sq_ev_step. intros a b c (H1 & H2 & H3) (H4 & H5 & H6).
  repeat split; try congruence. auto.
Qed.

Lemma sq_ev_inv : forall c c', sq_ev_step c c' -> sq_inv c -> sq_inv c'.
Proof.
  intros c c' (Hb & Hs & Ho) [I1 I2 I3 I4]. unfold sq_rowids in *.
  constructor; unfold sq_rowids; rewrite ?Hb, ?Hs; auto.
Qed.

Lemma sq_ev_listing : forall c c', sq_ev_step c c' -> listing_of (sq_map c') = listing_of (sq_map c).
Proof. intros c c' (Hb & _). rewrite <- !sq_listing, Hb. reflexivity. Qed.

Lemma sq_with_events_step : forall c es seq,
  (sq_orphan_free c -> Forall (fun e => In (er_bucket e) (sq_rowids c)) es) ->
  sq_ev_step c (with_events c es seq).
Proof. intros c es seq H. repeat split; auto. Qed.

Lemma Forall_update_where : forall {A} (P : A -> Prop) p g (l : list A),
  (forall x, P x -> P (g x)) -> Forall P l -> Forall P (update_where p g l).
Proof.
  intros A P p g l Hg H. unfold update_where. apply Forall_forall. intros y Hy.
  apply in_map_iff in Hy. destruct Hy as (x & <- & Hx).
  rewrite Forall_forall in H. destruct (p x); auto.
Qed.

Lemma Forall_delete_where : forall {A} (P : A -> Prop) p (l : list A),
  Forall P l -> Forall P (delete_where p l).
Proof.
  intros A P p l H. unfold delete_where. apply Forall_forall. intros y Hy.
  apply filter_In in Hy. rewrite Forall_forall in H. apply H. tauto.
Qed.

Lemma sq_bucket_rowid_in : forall c b rid, sql_bucket_rowid c b = Some rid -> In rid (sq_rowids c).
Proof.
  intros c b rid. unfold sql_bucket_rowid.
  destruct (find (fun r => br_id r =? b) (sq_buckets c)) as [r|] eqn:E; [|discriminate].
  intros H. inversion H; subst. apply find_some in E. apply in_map. tauto.
Qed.

Lemma sql_insert_event_step : forall c b e c' i,
  sql_insert_event c b e = Ok (c', i) -> sq_ev_step c c'.
Proof.
  intros c b e c' i. unfold sql_insert_event.
  destruct (sql_bucket_rowid c b) as [rid|] eqn:E; [|discriminate].
  intros H. inversion H; subst. apply sq_with_events_step. intros Ho.
  apply Forall_app. split; [exact Ho|]. constructor; [|constructor]. cbn.
  eapply sq_bucket_rowid_in. eassumption.
Qed.

Lemma sql_update_event_step : forall c b i e, sq_ev_step c (sql_update_event c b i e).
Proof.
  intros. unfold sql_update_event. apply sq_with_events_step. intros Ho.
  apply Forall_update_where; [|exact Ho]. intros x Hx. exact Hx.
Qed.

Lemma sql_update_newest_step : forall c b e, sq_ev_step c (sql_update_newest c b e).
Proof.
  intros. unfold sql_update_newest. apply sq_with_events_step. intros Ho.
  apply Forall_update_where; [|exact Ho]. intros x Hx. exact Hx.
Qed.

Lemma sql_delete_event_step : forall c b i, sq_ev_step c (fst (sql_delete_event c b i)).
Proof.
  intros. unfold sql_delete_event. cbn. apply sq_with_events_step. intros Ho.
  apply Forall_delete_where. exact Ho.
Qed.

Lemma sq_upserts_step : forall es c b, sq_ev_step c (sq_upserts c b es).
Proof.
  induction es as [|e t IH]; intros c b; cbn; [apply sq_ev_refl|].
  destruct (eid e) as [i|]; [|apply IH].
  eapply sq_ev_trans; [apply sql_update_event_step|apply IH].
Qed.

Lemma sq_executemany_step : forall es c b, sq_ev_step c (fst (sq_executemany_insert c b es)).
Proof.
  induction es as [|e t IH]; intros c b; cbn; [apply sq_ev_refl|].
  destruct (sql_insert_event c b e) as [[c' i]|k|] eqn:E; cbn; try apply sq_ev_refl.
  eapply sq_ev_trans; [eapply sql_insert_event_step; eassumption|apply IH].
Qed.

Lemma sq_event_op_step : forall c o, lifecycle_write o = false -> sq_ev_step c (fst (sq_step c o)).
Proof.
  intros c o Ho. destruct o; cbn in Ho; try discriminate; cbn [sq_step].
  - apply sq_ev_refl.
  - apply sq_ev_refl.
  - destruct (sql_insert_event c b e) as [[c' i]|k|] eqn:E; cbn; try apply sq_ev_refl.
    eapply sql_insert_event_step. eassumption.
  - eapply sq_ev_trans; [apply sq_upserts_step|apply sq_executemany_step].
  - apply sql_update_event_step.
  - apply sql_update_newest_step.
  - pose proof (sql_delete_event_step c b id) as H.
    destruct (sql_delete_event c b id) as [c' n]. exact H.
  - apply sq_ev_refl.
  - destruct (limit =? 0); apply sq_ev_refl.
  - apply sq_ev_refl.
Qed.

(* ---- create_bucket ---- *)

Lemma sq_absent_find : forall c b, aget b (sq_map c) = None -> find (fun r => br_id r =? b) (sq_buckets c) = None.
Proof.
  intros c b. rewrite sq_find_map. destruct (find _ _); [discriminate|reflexivity].
Qed.

Lemma sq_present_find : forall c b m es, aget b (sq_map c) = Some (m, es) ->
  exists r, find (fun r => br_id r =? b) (sq_buckets c) = Some r /\ br_meta r = m /\
            es = sq_events_of (sq_events c) r.
Proof.
  intros c b m es. rewrite sq_find_map. destruct (find _ _) as [r|]; [|discriminate].
  cbn. intros H. inversion H; subst. eauto.
Qed.

Lemma sq_new_rowid_empty : forall c rid m b,
  sq_inv c -> rid = sq_seq_b c + 1 -> sq_events_of (sq_events c) (mkBrow rid b m) = [].
Proof.
  intros c rid m b [_ _ Hseq Horph] ->. unfold sq_events_of. cbn.
  rewrite filter_none; [reflexivity|]. intros e He.
  destruct (er_bucket e =? sq_seq_b c + 1) eqn:E; [|reflexivity]. exfalso.
  unfold sq_orphan_free in Horph. rewrite Forall_forall in Horph. specialize (Horph e He).
  unfold sq_rowids in Horph. apply in_map_iff in Horph. destruct Horph as (r & Hr & Hin).
  rewrite Forall_forall in Hseq. specialize (Hseq r Hin). lia.
Qed.

Lemma sq_create_absent : forall c b m, sq_inv c -> aget b (sq_map c) = None ->
  exists c', sq_step c (CreateBucket b m) = (c', Ok (OMeta b m)) /\
             sq_map c' = sq_map c ++ [(b, (m, []))] /\ sq_inv c'.
Proof.
  intros c b m Hi Habs. pose proof (sq_absent_find _ _ Habs) as Hf.
  cbn [sq_step]. unfold sql_insert_bucket. rewrite (existsb_false_find _ _ Hf).
  eexists. split; [|split].
  - unfold sq_get_metadata, sql_select_bucket. cbn. rewrite find_app_none by assumption. cbn.
    rewrite Z.eqb_refl. reflexivity.
  - unfold sq_map. cbn. rewrite map_app. cbn. f_equal. unfold sq_entry. cbn.
    rewrite (sq_new_rowid_empty c _ m b Hi eq_refl). reflexivity.
  - destruct Hi as [I1 I2 I3 I4]. unfold sq_rowids, sq_orphan_free in *. constructor; unfold sq_rowids, sq_orphan_free; cbn.
    + rewrite map_app. cbn.
      assert (Hn : ~ In b (map br_id (sq_buckets c))).
      { intros Hin. apply in_map_iff in Hin. destruct Hin as (r & Hr & Hin).
        pose proof (find_none _ _ Hf r Hin) as Hx. cbn in Hx. lia. }
      clear - I1 Hn. induction (map br_id (sq_buckets c)) as [|a t IH]; cbn.
      * constructor; [tauto|constructor].
      * inversion I1; subst. constructor.
        -- rewrite in_app_iff. cbn. intros [H|[H|[]]]; [tauto|]. apply Hn. left. auto.
        -- apply IH; auto. intros H. apply Hn. right. assumption.
    + rewrite map_app. cbn.
      assert (Hn : ~ In (sq_seq_b c + 1) (map br_rowid (sq_buckets c))).
      { intros Hin. apply in_map_iff in Hin. destruct Hin as (r & Hr & Hin).
        rewrite Forall_forall in I3. specialize (I3 r Hin). lia. }
      clear - I2 Hn. induction (map br_rowid (sq_buckets c)) as [|a t IH]; cbn.
      * constructor; [tauto|constructor].
      * inversion I2; subst. constructor.
        -- rewrite in_app_iff. cbn. intros [H|[H|[]]]; [tauto|]. apply Hn. left. auto.
        -- apply IH; auto. intros H. apply Hn. right. assumption.
    + apply Forall_app. split.
      * eapply Forall_impl; [|exact I3]. cbn. intros. lia.
      * constructor; [cbn; lia|constructor].
    + eapply Forall_impl; [|exact I4]. cbn. intros e He. rewrite map_app, in_app_iff. tauto.
Qed.

(* ---- update_bucket ---- *)

Lemma sq_update_buckets_inv : forall c b ty cl ho na da,
  sq_inv c -> sq_inv (sql_update_bucket c b ty cl ho na da).
Proof.
  intros c b ty cl ho na da [I1 I2 I3 I4].
  assert (Hid : forall g l, (forall r, br_id (g r) = br_id r) ->
                 map br_id (update_where (fun r => br_id r =? b) g l) = map br_id l).
  { intros g l Hg. unfold update_where. rewrite map_map. apply map_ext.
    intros r. destruct (br_id r =? b); auto. }
  assert (Hrow : forall g l, (forall r, br_rowid (g r) = br_rowid r) ->
                 map br_rowid (update_where (fun r => br_id r =? b) g l) = map br_rowid l).
  { intros g l Hg. unfold update_where. rewrite map_map. apply map_ext.
    intros r. destruct (br_id r =? b); auto. }
  constructor; unfold sq_rowids, sq_orphan_free, sql_update_bucket in *; cbn.
  - rewrite Hid; auto.
  - rewrite Hrow; auto.
  - apply Forall_update_where; auto.
  - rewrite Hrow; auto.
Qed.

Lemma sq_update_present : forall c b ty cl ho na da m es,
  sq_inv c -> aget b (sq_map c) = Some (m, es) ->
  sq_map (sql_update_bucket c b ty cl ho na da)
  = aset b (updated_meta ty cl ho na da m, es) (sq_map c) /\
  sq_get_metadata (sql_update_bucket c b ty cl ho na da) b
  = Ok (OMeta b (updated_meta ty cl ho na da m)).
Proof.
  intros c b ty cl ho na da m es Hi Hget.
  destruct (sq_present_find _ _ _ _ Hget) as (r0 & Hf & Hm & Hes).
  set (g := fun r => mkBrow (br_rowid r) (br_id r) (update_meta not_none ty cl ho na da (br_meta r))).
  split.
  - unfold sq_map, sql_update_bucket. cbn.
    pose proof (aset_update_where br_id (fun r => (br_meta r, sq_events_of (sq_events c) r)) g
                  (sq_buckets c) b r0 (sqi_ids _ Hi) Hf (fun r => eq_refl)) as H.
    unfold sq_entry. fold g. rewrite H. cbn. rewrite update_meta_not_none, Hm.
    subst es. reflexivity.
  - unfold sq_get_metadata, sql_select_bucket, sql_update_bucket. cbn. fold g.
    assert (Hfind : forall l, find (fun r => br_id r =? b) l = Some r0 ->
              find (fun r => br_id r =? b) (update_where (fun r => br_id r =? b) g l) = Some (g r0)).
    { induction l as [|a t IH]; cbn; [discriminate|].
      destruct (br_id a =? b) eqn:E; cbn.
      - rewrite E. intros H. inversion H. reflexivity.
      - rewrite E. exact IH. }
    rewrite (Hfind _ Hf). cbn. rewrite update_meta_not_none, Hm.
    apply find_some in Hf. destruct Hf as [_ Hb]. f_equal. f_equal. lia.
Qed.

(* ---- delete_bucket ---- *)

Lemma sq_delete_inv : forall c b,
  sq_inv c -> sq_inv (fst (sql_delete_bucket (sql_delete_events_of c b) b)).
Proof.
  intros c b [I1 I2 I3 I4]. unfold sql_delete_bucket, sql_delete_events_of, delete_where, sq_rowids, sq_orphan_free in *.
  constructor; unfold sq_rowids, sq_orphan_free; cbn.
  - apply NoDup_map_filter. assumption.
  - apply NoDup_map_filter. assumption.
  - apply Forall_forall. intros r Hr. apply filter_In in Hr. rewrite Forall_forall in I3. apply I3. tauto.
  - apply Forall_forall. intros e He. apply filter_In in He. destruct He as [He Hp].
    rewrite Forall_forall in I4. specialize (I4 e He).
    apply in_map_iff in I4. destruct I4 as (r & Hr & Hin).
    apply in_map_iff. exists r. split; [assumption|]. apply filter_In. split; [assumption|].
    destruct (br_id r =? b) eqn:E; [|reflexivity]. exfalso.
    apply negb_true_iff in Hp. rewrite <- not_true_iff_false in Hp. apply Hp.
    apply existsb_exists. exists (br_rowid r). split; [|lia].
    apply in_map. apply filter_In. tauto.
Qed.

(* delete_bucket removes every event row of the deleted bucket's rowid *)
Lemma sq_delete_removes_rows : forall c b r,
  In r (sq_buckets c) -> br_id r = b ->
  forall e, In e (sq_events (fst (sq_step c (DeleteBucket b)))) -> er_bucket e <> br_rowid r.
Proof.
  intros c b r Hin Hid e. cbn [sq_step].
  unfold sql_delete_bucket, sql_delete_events_of, delete_where. cbn.
  intros He. apply filter_In in He. destruct He as [_ Hp]. intros Heq.
  apply negb_true_iff in Hp. rewrite <- not_true_iff_false in Hp. apply Hp.
  apply existsb_exists. exists (br_rowid r). split; [|lia].
  apply in_map. apply filter_In. split; [assumption|]. lia.
Qed.

Lemma sq_delete_map : forall c b,
  sq_inv c -> sq_map (fst (sql_delete_bucket (sql_delete_events_of c b) b)) = adel b (sq_map c).
Proof.
  intros c b Hi. unfold sq_map at 2.
  rewrite (adel_delete_where br_id (fun r => (br_meta r, sq_events_of (sq_events c) r))).
  unfold sq_map, sql_delete_bucket, sql_delete_events_of. cbn.
  apply map_ext_in. intros r Hr. unfold delete_where in Hr. apply filter_In in Hr. destruct Hr as [Hr Hne].
  unfold sq_entry. f_equal. f_equal. unfold sq_events_of. f_equal.
  unfold delete_where. apply filter_filter_absorb. intros e He E.
  (* the row r survives, so its rowid is not among the rowids of id b *)
  apply negb_true_iff. rewrite <- not_true_iff_false. intros Hex.
  apply existsb_exists in Hex. destruct Hex as (rid & Hrid & Heq).
  apply in_map_iff in Hrid. destruct Hrid as (r' & Hr' & Hin'). apply filter_In in Hin'. destruct Hin' as [Hin' Hb'].
  assert (r' = r).
  { eapply (NoDup_map_inj br_rowid); [exact (sqi_rowids _ Hi)|assumption|assumption|lia]. }
  subst r'. rewrite Hb' in Hne. discriminate.
Qed.

(* ---- the record ---- *)

Lemma sq_init_inv : sq_inv sq_init.
Proof. constructor; unfold sq_rowids, sq_orphan_free; cbn; constructor. Qed.

Lemma sq_keys : forall c, map fst (sq_map c) = map br_id (sq_buckets c).
Proof. intros. unfold sq_map. rewrite map_map. reflexivity. Qed.

Lemma sq_all_none : forall ty cl ho na da,
  negb (not_none ty || not_none cl || not_none ho || not_none na || not_none da) = true ->
  ty = None /\ cl = None /\ ho = None /\ na = None /\ da = None.
Proof. intros [?|] [?|] [?|] [?|] [?|]; cbn; intros H; try discriminate; auto. Qed.

Lemma sq_missing_update_same : forall c b ty cl ho na da,
  aget b (sq_map c) = None -> sql_update_bucket c b ty cl ho na da = c.
Proof.
  intros c b ty cl ho na da Habs. pose proof (sq_absent_find _ _ Habs) as Hf.
  unfold sql_update_bucket, with_buckets.
  rewrite (update_where_none _ _ _ (find_none _ _ Hf)). apply sq_eta.
Qed.

Lemma sq_missing_delete_same : forall c b,
  aget b (sq_map c) = None ->
  sql_delete_bucket (sql_delete_events_of c b) b = (c, 0).
Proof.
  intros c b Habs. pose proof (sq_absent_find _ _ Habs) as Hf.
  assert (H1 : sql_delete_events_of c b = c).
  { unfold sql_delete_events_of, with_events.
    rewrite (filter_none _ _ (find_none _ _ Hf)). cbn.
    rewrite delete_where_none by reflexivity. apply sq_eta. }
  rewrite H1. unfold sql_delete_bucket, with_buckets.
  rewrite (delete_where_none _ _ (find_none _ _ Hf)).
  rewrite (rowcount_none _ _ (find_none _ _ Hf)). rewrite sq_eta. reflexivity.
Qed.

Lemma sq_step_inv : forall c o, sq_inv c -> sq_inv (fst (sq_step c o)).
Proof.
  intros c o Hi. destruct (lifecycle_write o) eqn:Ho.
  - destruct o as [b m|b ty cl ho na da|b| | | | | | | | | | ]; cbn in Ho; try discriminate.
    + destruct (aget b (sq_map c)) as [[m0 es0]|] eqn:E.
      * destruct (sq_present_find _ _ _ _ E) as (r0 & Hf & _).
        cbn [sq_step]. unfold sql_insert_bucket. rewrite (existsb_true_find _ _ _ Hf). exact Hi.
      * destruct (sq_create_absent c b m Hi E) as (c' & Hs & _ & Hi'). rewrite Hs. exact Hi'.
    + cbn [sq_step].
      destruct (negb (not_none ty || not_none cl || not_none ho || not_none na || not_none da));
        [exact Hi|]. cbn. apply sq_update_buckets_inv. exact Hi.
    + cbn [sq_step]. pose proof (sq_delete_inv c b Hi) as H.
      destruct (sql_delete_bucket (sql_delete_events_of c b) b) as [c2 n]. exact H.
  - eapply sq_ev_inv; [apply sq_event_op_step|]; assumption.
Qed.

Lemma sq_delete_present : forall c b v, sq_inv c -> aget b (sq_map c) = Some v ->
  exists c', sq_step c (DeleteBucket b) = (c', Ok ONone) /\ sq_map c' = adel b (sq_map c).
Proof.
  intros c b [m es] Hi Hget. destruct (sq_present_find _ _ _ _ Hget) as (r0 & Hf & _).
  pose proof (sq_delete_map c b Hi) as Hm.
  assert (Hn : snd (sql_delete_bucket (sql_delete_events_of c b) b) = 1).
  { unfold sql_delete_bucket. cbn. eapply (rowcount_unique br_id); [exact (sqi_ids _ Hi)|eassumption]. }
  cbn [sq_step].
  destruct (sql_delete_bucket (sql_delete_events_of c b) b) as [c2 n] eqn:E. cbn in Hn, Hm. subst n.
  exists c2. split; [reflexivity|assumption].
Qed.

Lemma sq_update_keys : forall c b ty cl ho na da,
  map fst (sq_map (sql_update_bucket c b ty cl ho na da)) = map fst (sq_map c).
Proof.
  intros. rewrite !sq_keys. unfold sql_update_bucket, update_where. cbn. rewrite map_map.
  apply map_ext. intros r. destruct (br_id r =? b); reflexivity.
Qed.

Lemma sq_keys_stay : forall c o b0, sq_inv c ->
  match o with DeleteBucket _ => False | _ => True end ->
  aget b0 (sq_map c) <> None -> aget b0 (sq_map (fst (sq_step c o))) <> None.
Proof.
  intros c o b0 Hi Ho Hb0. destruct (lifecycle_write o) eqn:Hw.
  - destruct o as [b m|b ty cl ho na da|b| | | | | | | | | | ]; cbn in Hw; try discriminate.
    + destruct (aget b (sq_map c)) as [[m0 es0]|] eqn:E.
      * destruct (sq_present_find _ _ _ _ E) as (r0 & Hf & _).
        cbn [sq_step]. unfold sql_insert_bucket. rewrite (existsb_true_find _ _ _ Hf). exact Hb0.
      * destruct (sq_create_absent c b m Hi E) as (c' & Hs & Hm & _). rewrite Hs. cbn. rewrite Hm.
        apply aget_app_stays. assumption.
    + cbn [sq_step].
      destruct (negb (not_none ty || not_none cl || not_none ho || not_none na || not_none da));
        [exact Hb0|]. cbn. eapply keys_same_stays; [apply sq_update_keys|assumption].
    + destruct Ho.
  - eapply listing_same_stays; [apply sq_ev_listing; apply sq_event_op_step; assumption|assumption].
Qed.

Lemma sq_ok : store_ok sqB.
Proof.
  constructor; cbn [b_state b_init b_step b_view b_map b_inv sqB].
  - apply sq_init_inv.
  - reflexivity.
  - apply sq_view_map.
  - intros c Hi. rewrite sq_keys. apply (sqi_ids _ Hi).
  - intros c. cbn [sq_step]. rewrite sq_listing. reflexivity.
  - apply sq_step_inv.
  - intros c o _ Ho. apply sq_ev_listing. apply sq_event_op_step. assumption.
  - apply sq_keys_stay.
  - (* create *)
    intros c b m Hi Habs. destruct (sq_create_absent c b m Hi Habs) as (c' & Hs & Hm & _).
    exists c', (OMeta b m), m. split; [assumption|]. split; [|assumption].
    unfold stored_as. repeat split. auto.
  - (* update *)
    intros c b ty cl ho na da m es Hi Hget _ _ _ _ _. cbn [sq_step].
    destruct (negb (not_none ty || not_none cl || not_none ho || not_none na || not_none da)) eqn:Hall.
    + destruct (sq_all_none _ _ _ _ _ Hall) as (-> & -> & -> & -> & ->).
      exists c, (Err ValueError). split; [reflexivity|]. split; [right; auto 10|].
      replace (updated_meta None None None None None m) with m by (destruct m; reflexivity).
      symmetry. apply aset_same. assumption.
    + destruct (sq_update_present c b ty cl ho na da m es Hi Hget) as (Hm & Hg).
      eexists _, _. split; [reflexivity|]. cbn. split; [left; rewrite Hg; eauto|assumption].
  - (* delete *)
    intros c b v Hi Hget. destruct (sq_delete_present c b v Hi Hget) as (c' & Hs & Hm).
    exists c', ONone. split; assumption.
  - (* metadata *)
    intros c b m es _ Hget. destruct (sq_present_find _ _ _ _ Hget) as (r0 & Hf & Hm & _).
    cbn [sq_step]. unfold sq_get_metadata, sql_select_bucket. rewrite Hf. apply find_some in Hf. destruct Hf as [_ Hb].
    subst m. do 3 f_equal. lia.
  - intros c b _ Habs. cbn [sq_step]. unfold sq_get_metadata, sql_select_bucket. rewrite (sq_absent_find _ _ Habs). reflexivity.
  - intros c b ty cl ho na da _ Habs. cbn [sq_step].
    destruct (negb (not_none ty || not_none cl || not_none ho || not_none na || not_none da)); [reflexivity|].
    rewrite sq_missing_update_same by assumption.
    unfold sq_get_metadata, sql_select_bucket. rewrite (sq_absent_find _ _ Habs). reflexivity.
  - intros c b _ Habs. cbn [sq_step]. rewrite sq_missing_delete_same by assumption. reflexivity.
Qed.
