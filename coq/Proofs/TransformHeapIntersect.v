(* filter_period_intersect and period_union at heap level (Model/TransformHeap.v).
   filter_period_intersect_h:
     A. [fpi_h_framed]  frame + freshness for every heap and every pair of arguments;
     B. [fpi_h_refines] on a closed acyclic heap whose argument lists hold Events (any
        aliasing) it succeeds/raises exactly as Model/Intersect.v's
        [filter_period_intersect] on the read-back arguments and the returned list reads
        back as its result.
   period_union_h (it hands the caller's own Event objects back and overwrites their data
   reference: outside C09's "not modified" clause, modelled as it is):
     B. [pu_h_refines]  the same refinement statement against [period_union EMPTY_DICT];
     A. [pu_h_frame]    what is and what is not preserved: every dict/list cell is
        unchanged; an Event cell that existed either is unchanged or is an element of the
        returned list and differs only in its data reference, which now points to a new
        empty dict. *)
From AwVerif Require Import Base.Prelude Model.MemHeap Model.Timeslot Model.TransformHeap Model.Intersect
  Proofs.MemHeapBase Proofs.MemHeapCopy Proofs.MemHeapFrame
  Proofs.TransformHeapCopy Proofs.TransformHeapBase Proofs.TransformHeapFlood Proofs.TransformHeapUnion.
From Coq Require Import Arith Relations Sorting.Permutation.
Local Open Scope nat_scope.

(* ------------------------------------------------------------------------- *)
(* sorted(events) with Event.__lt__ *)

Lemma sorted_lt_inv : forall h ks s, sorted_lt h ks = Ok s -> sorted_ts h ks = Ok s.
Proof.
  unfold sorted_lt. intros h ks s H. destruct (sorted_ts h ks) as [r|c|]; auto; try discriminate.
  destruct c; try discriminate. destruct (Nat.leb 2 (length ks)); discriminate.
Qed.

Lemma sorted_lt_ok : forall h ks s, sorted_ts h ks = Ok s -> sorted_lt h ks = Ok s.
Proof. unfold sorted_lt. intros h ks s H. now rewrite H. Qed.

(* ------------------------------------------------------------------------- *)
(* _replace_event_period *)

Lemma replace_period_framed : forall h0 h e p h' e',
  framed h0 h -> replace_period_h h e p = Ok (h', e') ->
  framed h0 h' /\ length h <= length h' /\ fresh_in h0 h' e'.
Proof.
  unfold replace_period_h. intros h0 h e p h' e' F H.
  destruct (pdeepcopy h e) as [[h1 e1]| |] eqn:P; cbn [bind fst snd] in H; try discriminate.
  destruct (wr_ts h1 e1 (tstart p)) as [h2| |] eqn:W2; cbn [bind] in H; try discriminate.
  destruct (wr_dur h2 e1 (slot_duration p)) as [h3| |] eqn:W3; cbn [bind] in H; try discriminate.
  inversion H; subst h' e'; clear H.
  destruct (pdeepcopy_inv _ _ _ _ P) as (m & C). pose proof (copied_fresh _ _ _ _ _ C) as B.
  pose proof (framed_length _ _ F) as G.
  assert (F1 : framed h0 h1) by (eapply framed_copied; eauto).
  assert (R : retags (fun l => l = e1) h1 h3) by solve_retags.
  pose proof (retags_length _ _ _ R) as LEN.
  split; [eapply retags_framed; [exact R| |exact F1]; intros l ->; lia|].
  split; [lia|unfold fresh_in; lia].
Qed.

Lemma replace_period_refines : forall h e p v,
  wf h -> ev_at h e = Some v ->
  exists h' e', replace_period_h h e p = Ok (h', e') /\
                ev_at h' e' = Some (replace_event_period v p) /\ keeps h h' /\ wf h'.
Proof.
  intros h e p v W H. unfold replace_period_h.
  destruct (pdeepcopy_total h e W (ev_at_lt _ _ _ H)) as (h1 & e1 & P). rewrite P. cbn [bind fst snd].
  destruct (pdeepcopy_inv _ _ _ _ P) as (m & C).
  destruct (pdeepcopy_ev _ _ _ _ _ P H) as (H1 & G1 & E1).
  destruct (wr_ts_valid h1 e1 v (tstart p) H1) as (h2 & W2 & H2 & O2). rewrite W2. cbn [bind].
  destruct (wr_dur_valid h2 e1 _ (slot_duration p) H2) as (h3 & W3 & H3 & O3). rewrite W3. cbn [bind].
  exists h3, e1. split; [reflexivity|]. split; [exact H3|]. split.
  - intros l x Hl. pose proof (ev_at_lt _ _ _ Hl). rewrite O3, O2 by lia. eapply ev_at_ext; eauto.
  - assert (R : retags (fun l => l = e1) h1 h3) by solve_retags.
    eapply retags_wf; [exact R|]. apply (cp_wf _ _ _ _ _ C W).
Qed.

Lemma get_period_ok : forall h e v, ev_at h e = Some v -> get_period_h h e = Ok (get_event_period v).
Proof.
  intros h e v H. unfold get_period_h. rewrite (rd_ts_ok _ _ _ H), (rd_dur_ok _ _ _ H). reflexivity.
Qed.

(* ------------------------------------------------------------------------- *)
(* filter_period_intersect: A. frame *)

Lemma sweep_framed : forall h0 fuel h l1 l2 h' out,
  framed h0 h -> sweep_h fuel h l1 l2 = Ok (h', out) ->
  framed h0 h' /\ length h <= length h' /\ all_fresh h0 h' out.
Proof.
  intros h0. induction fuel as [|fuel IH]; intros h l1 l2 h' out F H.
  - destruct l1 as [|e1 r1]; [|destruct l2 as [|e2 r2]]; cbn [sweep_h] in H; try discriminate;
      inversion H; subst; (split; [auto|split; [lia|apply all_fresh_nil]]).
  - destruct l1 as [|e1 r1]; [|destruct l2 as [|e2 r2]]; cbn [sweep_h] in H;
      try (inversion H; subst; (split; [auto|split; [lia|apply all_fresh_nil]]); fail).
    destruct (get_period_h h e1) as [p1| |]; cbn [bind] in H; try discriminate.
    destruct (get_period_h h e2) as [p2| |]; cbn [bind] in H; try discriminate.
    destruct (slot_intersection p1 p2) as [ip|].
    + destruct (replace_period_h h e1 ip) as [[h1 e']| |] eqn:RP; cbn [bind fst snd] in H; try discriminate.
      destruct (replace_period_framed _ _ _ _ _ _ F RP) as (F1 & G1 & Fe).
      match type of H with bind ?r _ = _ => destruct r as [[h2 rest]| |] eqn:SW end;
        cbn [bind fst snd] in H; try discriminate.
      inversion H; subst h' out; clear H.
      assert (S : framed h0 h2 /\ length h1 <= length h2 /\ all_fresh h0 h2 rest).
      { destruct (tend p1 <=? tend p2)%Z; eapply IH; eauto. }
      destruct S as (F2 & G2 & Ar). split; auto. split; [lia|].
      apply all_fresh_cons; auto. eapply fresh_in_grow; eauto.
    + destruct (tend p1 <=? tstart p2)%Z; [eapply IH; eauto|].
      destruct (tend p2 <=? tstart p1)%Z; eapply IH; eauto.
Qed.

Theorem fpi_h_framed : forall h L1 L2 h' L',
  filter_period_intersect_h h L1 L2 = Ok (h', L') ->
  framed h h' /\ length h <= L' < length h' /\
  exists out, lookup h' L' = Some (Cell (TNode EVENT_LIST) out) /\
              forall k, In k out -> length h <= k < length h'.
Proof.
  unfold filter_period_intersect_h. intros h L1 L2 h' L' H.
  destruct (list_elems h L1) as [ks1| |]; cbn [bind] in H; try discriminate.
  destruct (list_elems h L2) as [ks2| |]; cbn [bind] in H; try discriminate.
  destruct (sorted_lt h ks1) as [s1| |]; cbn [bind] in H; try discriminate.
  destruct (sorted_lt h ks2) as [s2| |]; cbn [bind] in H; try discriminate.
  destruct (sorted_ts h s1) as [s1'| |]; cbn [bind] in H; try discriminate.
  destruct (sorted_ts h s2) as [s2'| |]; cbn [bind] in H; try discriminate.
  destruct (sweep_h _ h s1' s2') as [[h1 out]| |] eqn:SW; cbn [bind fst snd] in H; try discriminate.
  destruct (sweep_framed h _ h s1' s2' h1 out (framed_refl h) SW) as (F1 & G1 & Ao).
  destruct (new_list_framed h h1 out F1 Ao) as (F2 & B2 & L2').
  inversion H; subst h' L'. split; auto. split; auto. exists out. split; auto.
  intros k I. specialize (Ao _ I). unfold new_list, alloc, fresh_in in *; cbn [fst]. rewrite app_length; cbn. lia.
Qed.

(* ------------------------------------------------------------------------- *)
(* filter_period_intersect: B. refinement *)

Definition replaced (pr : event * event * timeslot) : event :=
  let '(e1, _, ip) := pr in replace_event_period e1 ip.

Lemma sweep_refines : forall fuel h l1 l2 v1 v2,
  wf h -> Forall2 (reads h) l1 v1 -> Forall2 (reads h) l2 v2 ->
  match sweep fuel v1 v2 with
  | Ok prs => exists h' out, sweep_h fuel h l1 l2 = Ok (h', out) /\
                Forall2 (reads h') out (map replaced prs) /\ keeps h h' /\ wf h'
  | Err c => sweep_h fuel h l1 l2 = Err c
  | OutOfFuel => sweep_h fuel h l1 l2 = OutOfFuel
  end.
Proof.
  induction fuel as [|fuel IH]; intros h l1 l2 v1 v2 W F1 F2.
  - destruct F1 as [|e1 x1 r1 vr1 H1 F1]; [|destruct F2 as [|e2 x2 r2 vr2 H2 F2]]; cbn [sweep sweep_h];
      try reflexivity; exists h, []; (split; [reflexivity|split; [constructor|split; [apply keeps_refl|auto]]]).
  - destruct F1 as [|e1 x1 r1 vr1 H1 F1]; [|destruct F2 as [|e2 x2 r2 vr2 H2 F2]]; cbn [sweep sweep_h];
      try (exists h, []; (split; [reflexivity|split; [constructor|split; [apply keeps_refl|auto]]]); fail).
    rewrite (get_period_ok _ _ _ H1), (get_period_ok _ _ _ H2). cbn [bind]. cbv zeta.
    set (p1 := get_event_period x1). set (p2 := get_event_period x2).
    assert (A1 : Forall2 (reads h) (e1 :: r1) (x1 :: vr1)) by (constructor; auto).
    assert (A2 : Forall2 (reads h) (e2 :: r2) (x2 :: vr2)) by (constructor; auto).
    destruct (slot_intersection p1 p2) as [ip|].
    + destruct (replace_period_refines h e1 ip x1 W H1) as (h1 & e' & RP & Re & K1 & W1).
      rewrite RP. cbn [bind fst snd].
      assert (S : match (if (tend p1 <=? tend p2)%Z then sweep fuel vr1 (x2 :: vr2) else sweep fuel (x1 :: vr1) vr2) with
                  | Ok prs => exists h' out,
                      (if (tend p1 <=? tend p2)%Z then sweep_h fuel h1 r1 (e2 :: r2) else sweep_h fuel h1 (e1 :: r1) r2)
                        = Ok (h', out) /\
                      Forall2 (reads h') out (map replaced prs) /\ keeps h1 h' /\ wf h'
                  | Err c => (if (tend p1 <=? tend p2)%Z then sweep_h fuel h1 r1 (e2 :: r2) else sweep_h fuel h1 (e1 :: r1) r2) = Err c
                  | OutOfFuel => (if (tend p1 <=? tend p2)%Z then sweep_h fuel h1 r1 (e2 :: r2) else sweep_h fuel h1 (e1 :: r1) r2) = OutOfFuel
                  end).
      { destruct (tend p1 <=? tend p2)%Z; apply IH; auto; eapply keeps_reads; eauto. }
      destruct (if (tend p1 <=? tend p2)%Z then sweep fuel vr1 (x2 :: vr2) else sweep fuel (x1 :: vr1) vr2) as [prs|c|];
        cbn [bind].
      * destruct S as (h2 & out & SW & Ro & K2 & W2). rewrite SW. cbn [bind fst snd].
        exists h2, (e' :: out). split; [reflexivity|]. split.
        { cbn [map replaced]. constructor; auto. apply K2. exact Re. }
        split; [eapply keeps_trans; eauto|auto].
      * rewrite S. reflexivity.
      * rewrite S. reflexivity.
    + destruct (tend p1 <=? tstart p2)%Z; [apply IH; auto|].
      destruct (tend p2 <=? tstart p1)%Z; apply IH; auto.
Qed.

Lemma sorted_ts_reads : forall h ks vs, Forall2 (reads h) ks vs ->
  exists srt, sorted_ts h ks = Ok srt /\ Forall2 (reads h) srt (sort_by ts vs).
Proof.
  intros h ks vs F. apply evs_at_Forall2 in F. destruct (sorted_ts_valid _ _ _ F) as (srt & S & E).
  exists srt. split; auto. now apply evs_at_Forall2.
Qed.

Theorem fpi_h_refines : forall h L1 L2 vs1 vs2,
  wf h -> list_at h L1 = Some vs1 -> list_at h L2 = Some vs2 ->
  match filter_period_intersect vs1 vs2 with
  | Ok r => exists h' L', filter_period_intersect_h h L1 L2 = Ok (h', L') /\ list_at h' L' = Some r
  | Err c => filter_period_intersect_h h L1 L2 = Err c
  | OutOfFuel => filter_period_intersect_h h L1 L2 = OutOfFuel
  end.
Proof.
  intros h L1 L2 vs1 vs2 W A1 A2.
  destruct (list_at_inv _ _ _ A1) as (p1 & ks1 & LL1 & EV1).
  destruct (list_at_inv _ _ _ A2) as (p2 & ks2 & LL2 & EV2).
  apply evs_at_Forall2 in EV1. apply evs_at_Forall2 in EV2.
  unfold filter_period_intersect_h, filter_period_intersect, intersecting_eventpairs, list_elems.
  rewrite LL1, LL2. cbn [bind]. cbv zeta.
  destruct (sorted_ts_reads _ _ _ EV1) as (s1 & S1 & R1). destruct (sorted_ts_reads _ _ _ EV2) as (s2 & S2 & R2).
  rewrite (sorted_lt_ok _ _ _ S1), (sorted_lt_ok _ _ _ S2). cbn [bind].
  destruct (sorted_ts_reads _ _ _ R1) as (s1' & S1' & R1'). destruct (sorted_ts_reads _ _ _ R2) as (s2' & S2' & R2').
  rewrite S1', S2'. cbn [bind].
  rewrite (Forall2_length' _ _ _ R1'), (Forall2_length' _ _ _ R2').
  pose proof (sweep_refines (length (sort_by ts (sort_by ts vs1)) + length (sort_by ts (sort_by ts vs2)))
                h s1' s2' _ _ W R1' R2') as SW.
  destruct (sweep _ (sort_by ts (sort_by ts vs1)) (sort_by ts (sort_by ts vs2))) as [prs|c|]; cbn [bind].
  - destruct SW as (h1 & out & SW & Ro & _ & _). rewrite SW. cbn [bind fst snd].
    do 2 eexists. split; [reflexivity|]. apply list_at_new_list. apply evs_at_Forall2. exact Ro.
  - rewrite SW. reflexivity.
  - rewrite SW. reflexivity.
Qed.

(* ------------------------------------------------------------------------- *)
(* period_union: B. refinement *)

Lemma union_loop_refines : forall evs h mrev vm ve,
  wf h -> Forall2 (reads h) mrev vm -> Forall2 (reads h) evs ve ->
  match union_loop vm ve with
  | Ok r => exists h' res, union_loop_h h mrev evs = Ok (h', res) /\
              Forall2 (reads h') res r /\ keeps h h' /\ wf h'
  | Err c => union_loop_h h mrev evs = Err c
  | OutOfFuel => union_loop_h h mrev evs = OutOfFuel
  end.
Proof.
  induction evs as [|e evs IH]; intros h mrev vm ve W Fm Fe.
  - inversion Fe; subst. cbn [union_loop union_loop_h].
    exists h, (rev mrev). split; [reflexivity|]. split; [|split; [apply keeps_refl|auto]].
    clear -Fm. induction Fm; cbn [rev]; [constructor|]. apply Forall2_app; auto.
  - inversion Fe as [|? x ? vr He Fr]; subst. cbn [union_loop union_loop_h].
    destruct Fm as [|l xl older vo Hl Fo]; [reflexivity|].
    rewrite (get_period_ok _ _ _ He), (get_period_ok _ _ _ Hl). cbn [bind]. cbv zeta.
    destruct (slot_gap (get_event_period x) (get_event_period xl)) as [g|].
    + apply IH; auto.
    + destruct (slot_union (get_event_period x) (get_event_period xl)) as [np|c|]; cbn [bind]; try reflexivity.
      destruct (replace_period_refines h l np xl W Hl) as (h1 & l' & RP & Rl & K1 & W1).
      rewrite RP. cbn [bind fst snd].
      pose proof (IH h1 (l' :: older) (replace_event_period xl np :: vo) vr W1) as S.
      destruct (union_loop (replace_event_period xl np :: vo) vr) as [r|c|].
      * destruct S as (h2 & res & UL & Rr & K2 & W2).
        { constructor; auto. apply (keeps_reads _ _ _ _ K1 Fo). }
        { apply (keeps_reads _ _ _ _ K1 Fr). }
        exists h2, res. split; auto. split; auto. split; [eapply keeps_trans; eauto|auto].
      * apply S; [constructor; auto; apply (keeps_reads _ _ _ _ K1 Fo)|apply (keeps_reads _ _ _ _ K1 Fr)].
      * apply S; [constructor; auto; apply (keeps_reads _ _ _ _ K1 Fo)|apply (keeps_reads _ _ _ _ K1 Fr)].
Qed.

(* event.data = {} *)
Lemma clear_data_spec : forall h k v, ev_at h k = Some v ->
  exists h', clear_data h k = Ok h' /\ ev_at h' k = Some (set_data v EMPTY_DICT) /\
             forall m x, m <> k -> ev_at h m = Some x -> ev_at h' m = Some x.
Proof.
  intros h k [i t d p] H. destruct (ev_at_inv _ _ _ H) as (dl & ks & L & D). cbn in L, D.
  pose proof (lookup_lt _ _ _ L) as B.
  unfold clear_data, alloc. rewrite L. cbn [fst snd]. eexists. split; [reflexivity|]. split.
  - eapply ev_at_intro.
    + apply lookup_update_same. rewrite app_length; cbn; lia.
    + rewrite lookup_update_other by lia. apply lookup_alloc_new.
  - intros m [i2 t2 d2 p2] N Hm. destruct (ev_at_inv _ _ _ Hm) as (dm & km & Lm & Dm). cbn in Lm, Dm.
    assert (Nd : dm <> k) by (intros ->; rewrite L in Dm; discriminate).
    eapply ev_at_intro.
    + rewrite lookup_update_other by auto. apply lookup_app_some. exact Lm.
    + rewrite lookup_update_other by auto. apply lookup_app_some. exact Dm.
Qed.

Definition same_but_data (x x' : event) : Prop := set_data x 0%Z = set_data x' 0%Z.

Lemma clear_all_spec : forall ks h,
  (forall k, In k ks -> exists x, ev_at h k = Some x) ->
  exists h', clear_all h ks = Ok h' /\
    forall m x, ev_at h m = Some x ->
      exists x', ev_at h' m = Some x' /\ same_but_data x x' /\
                 (In m ks -> data x' = EMPTY_DICT) /\ (data x = EMPTY_DICT -> data x' = EMPTY_DICT).
Proof.
  induction ks as [|k ks IH]; intros h A; cbn [clear_all].
  - exists h. split; auto. intros m x H. exists x. repeat split; auto. intros [].
  - destruct (A k (or_introl eq_refl)) as (xk & Hk).
    destruct (clear_data_spec h k xk Hk) as (h1 & CD & Hk1 & O1). rewrite CD. cbn [bind].
    destruct (IH h1) as (h' & CA & P).
    { intros m I. destruct (Nat.eq_dec m k) as [->|N]; [eauto|].
      destruct (A m (or_intror I)) as (xm & Hm). exists xm. apply O1; auto. }
    exists h'. split; auto. intros m x H.
    destruct (Nat.eq_dec m k) as [->|N].
    + rewrite Hk in H. inversion H; subst x.
      destruct (P k _ Hk1) as (x' & H' & S & I1 & I2). exists x'. split; [exact H'|].
      split; [exact S|]. split; intros _; apply I2; reflexivity.
    + destruct (P m x (O1 m x N H)) as (x' & H' & S & I1 & I2). exists x'. split; [exact H'|]. split; [exact S|].
      split; [|exact I2]. intros [E|I]; [congruence|auto].
Qed.

Lemma cleared_reads : forall x x', same_but_data x x' -> data x' = EMPTY_DICT -> x' = set_data x EMPTY_DICT.
Proof.
  unfold same_but_data, set_data. intros [i t d p] [i' t' d' p'] S D. cbn in *. inversion S; subst. reflexivity.
Qed.

Theorem pu_h_refines : forall h L1 L2 vs1 vs2,
  wf h -> list_at h L1 = Some vs1 -> list_at h L2 = Some vs2 ->
  match period_union EMPTY_DICT vs1 vs2 with
  | Ok r => exists h' L', period_union_h h L1 L2 = Ok (h', L') /\ list_at h' L' = Some r
  | Err c => period_union_h h L1 L2 = Err c
  | OutOfFuel => period_union_h h L1 L2 = OutOfFuel
  end.
Proof.
  intros h L1 L2 vs1 vs2 W A1 A2.
  destruct (list_at_inv _ _ _ A1) as (p1 & ks1 & LL1 & EV1).
  destruct (list_at_inv _ _ _ A2) as (p2 & ks2 & LL2 & EV2).
  apply evs_at_Forall2 in EV1. apply evs_at_Forall2 in EV2.
  unfold period_union_h, period_union, list_elems. rewrite LL1, LL2. cbn [bind]. cbv zeta.
  destruct (sorted_ts_reads _ _ _ (Forall2_app EV1 EV2)) as (srt & S & R).
  rewrite (sorted_lt_ok _ _ _ S). cbn [bind].
  assert (M : match (match sort_by ts (vs1 ++ vs2) with
                     | [] => Ok []
                     | first :: rest => union_loop [first] rest
                     end) with
              | Ok r => exists h' res,
                  (match srt with [] => Ok (h, []) | first :: rest => union_loop_h h [first] rest end) = Ok (h', res) /\
                  Forall2 (reads h') res r /\ keeps h h' /\ wf h'
              | Err c => (match srt with [] => Ok (h, []) | first :: rest => union_loop_h h [first] rest end) = Err c
              | OutOfFuel => (match srt with [] => Ok (h, []) | first :: rest => union_loop_h h [first] rest end) = OutOfFuel
              end).
  { destruct R as [|k v srt' vs' Hk R'].
    - exists h, []. split; auto. split; [constructor|]. split; [apply keeps_refl|auto].
    - apply union_loop_refines; auto. }
  destruct (match sort_by ts (vs1 ++ vs2) with [] => Ok [] | first :: rest => union_loop [first] rest end) as [r|c|];
    cbn [bind].
  - destruct M as (h1 & res & UL & Rr & K & W1). rewrite UL. cbn [bind fst snd].
    destruct (clear_all_spec res h1) as (h2 & CA & P).
    { intros k I. clear -Rr I. induction Rr; [destruct I|]. destruct I as [<-|I]; eauto. }
    rewrite CA. cbn [bind]. do 2 eexists. split; [reflexivity|]. apply list_at_new_list.
    apply evs_at_Forall2.
    assert (G : forall k x, In k res -> ev_at h1 k = Some x -> ev_at h2 k = Some (set_data x EMPTY_DICT)).
    { intros k x I Hx. destruct (P k x Hx) as (x' & H' & Sx & I1 & _). rewrite H'. f_equal.
      apply cleared_reads; auto. }
    clear -Rr G. induction Rr as [|k x res r Hk Rr IH]; cbn [map]; constructor.
    + apply G; [left; reflexivity|exact Hk].
    + apply IH. intros k' x' I. apply G. right. exact I.
  - rewrite M. reflexivity.
  - rewrite M. reflexivity.
Qed.

(* ------------------------------------------------------------------------- *)
(* period_union: A. what is preserved *)

Lemma union_loop_framed : forall h0 evs h mrev h' res,
  framed h0 h -> union_loop_h h mrev evs = Ok (h', res) -> framed h0 h'.
Proof.
  intros h0. induction evs as [|e evs IH]; intros h mrev h' res F H; cbn [union_loop_h] in H.
  - inversion H; subst. exact F.
  - destruct mrev as [|l older]; [discriminate|].
    destruct (get_period_h h e) as [ep| |]; cbn [bind] in H; try discriminate.
    destruct (get_period_h h l) as [lp| |]; cbn [bind] in H; try discriminate.
    destruct (slot_gap ep lp).
    + eapply IH; eauto.
    + destruct (slot_union ep lp) as [np| |]; cbn [bind] in H; try discriminate.
      destruct (replace_period_h h l np) as [[h1 l']| |] eqn:RP; cbn [bind fst snd] in H; try discriminate.
      destruct (replace_period_framed _ _ _ _ _ _ F RP) as (F1 & _ & _). eapply IH; eauto.
Qed.

(* an Event cell whose data reference was overwritten by `event.data = {}` *)
Definition data_cleared (h0 h : heap) (l : loc) : Prop :=
  exists i t d ks dl, lookup h0 l = Some (Cell (TEv i t d) ks) /\ lookup h l = Some (Cell (TEv i t d) [dl]) /\
                      length h0 <= dl /\ lookup h dl = Some (Cell (TNode EMPTY_DICT) []).

Definition Clr (h0 : heap) (S : list loc) (h : heap) : Prop :=
  length h0 <= length h /\
  (forall l, l < length h0 -> lookup h l = lookup h0 l \/ (data_cleared h0 h l /\ In l S)) /\
  fresh_closed h0 h.

Lemma clear_data_inv : forall h k h', clear_data h k = Ok h' ->
  exists i t d ks, lookup h k = Some (Cell (TEv i t d) ks) /\
                   h' = update (h ++ [Cell (TNode EMPTY_DICT) []]) k (Cell (TEv i t d) [length h]).
Proof.
  unfold clear_data, alloc. intros h k h' H. destruct (lookup h k) as [[[i t d|p] ks]|]; try discriminate.
  cbn [fst snd] in H. inversion H; subst. eauto 8.
Qed.

Lemma Clr_step : forall h0 S h k h', Clr h0 S h -> clear_data h k = Ok h' -> Clr h0 (k :: S) h'.
Proof.
  intros h0 S h k h' (G & P & FC) H.
  destruct (clear_data_inv _ _ _ H) as (i & t & d & ks & Lk & ->).
  pose proof (lookup_lt _ _ _ Lk) as Bk.
  set (c := Cell (TNode EMPTY_DICT) []).
  assert (LN : lookup (update (h ++ [c]) k (Cell (TEv i t d) [length h])) (length h) = Some c).
  { rewrite lookup_update_other by lia. apply lookup_alloc_new. }
  assert (LO : forall m, m <> k -> m < length h ->
               lookup (update (h ++ [c]) k (Cell (TEv i t d) [length h])) m = lookup h m).
  { intros m N B. rewrite lookup_update_other by auto. apply lookup_app_old; auto. }
  assert (LK : lookup (update (h ++ [c]) k (Cell (TEv i t d) [length h])) k = Some (Cell (TEv i t d) [length h])).
  { apply lookup_update_same. rewrite app_length; cbn; lia. }
  split; [rewrite update_length, app_length; cbn; lia|]. split.
  - intros l B. destruct (Nat.eq_dec l k) as [->|N].
    + right. split; [|left; reflexivity].
      destruct (P k B) as [E|((i0 & t0 & d0 & ks0 & dl0 & L0 & L1 & _) & _)].
      * exists i, t, d, ks, (length h). rewrite <- E. repeat split; auto.
      * rewrite Lk in L1. inversion L1; subst. exists i0, t0, d0, ks0, (length h). repeat split; auto.
    + rewrite LO by lia. destruct (P l B) as [E|((i0 & t0 & d0 & ks0 & dl0 & L0 & L1 & Gd & Ld) & I)]; [left; exact E|].
      right. split; [|right; exact I]. exists i0, t0, d0, ks0, dl0. rewrite LO by lia. repeat split; auto.
      assert (Nd : dl0 <> k) by (intros ->; rewrite Lk in Ld; discriminate).
      rewrite LO; auto. eapply lookup_lt; eauto.
  - intros l x y L Ge I. rewrite update_length, app_length. cbn [length].
    destruct (Nat.eq_dec l k) as [->|N].
    + rewrite LK in L. inversion L; subst x. destruct I as [<-|[]]. lia.
    + rewrite lookup_update_other in L by auto. apply lookup_alloc_inv in L. destruct L as [[B L]|[-> ->]].
      * specialize (FC _ _ _ L Ge I). lia.
      * destruct I.
Qed.

Lemma Clr_mono : forall h0 S S' h, incl S S' -> Clr h0 S h -> Clr h0 S' h.
Proof.
  intros h0 S S' h I (G & P & FC). split; auto. split; auto.
  intros l B. destruct (P l B) as [E|[D J]]; auto.
Qed.

Lemma clear_all_Clr : forall h0 ks S h h', Clr h0 S h -> clear_all h ks = Ok h' -> Clr h0 (rev ks ++ S) h'.
Proof.
  intros h0. induction ks as [|k ks IH]; intros S h h' C H; cbn [clear_all] in H.
  - inversion H; subst. exact C.
  - destruct (clear_data h k) as [h1| |] eqn:CD; cbn [bind] in H; try discriminate.
    cbn [rev]. rewrite <- app_assoc. cbn [app]. eapply IH; [|exact H]. eapply Clr_step; eauto.
Qed.

Theorem pu_h_frame : forall h L1 L2 h' L',
  period_union_h h L1 L2 = Ok (h', L') ->
  length h <= L' < length h' /\
  exists out, lookup h' L' = Some (Cell (TNode EVENT_LIST) out) /\
    (forall l, l < length h -> lookup h' l = lookup h l \/ (data_cleared h h' l /\ In l out)) /\
    (forall l c k, length h <= l -> l <> L' -> lookup h' l = Some c -> In k (children c) ->
                   length h <= k < length h').
Proof.
  unfold period_union_h. intros h L1 L2 h' L' H.
  destruct (list_elems h L1) as [ks1| |]; cbn [bind] in H; try discriminate.
  destruct (list_elems h L2) as [ks2| |]; cbn [bind] in H; try discriminate.
  destruct (sorted_lt h (ks1 ++ ks2)) as [evs| |]; cbn [bind] in H; try discriminate.
  match type of H with bind ?r _ = _ => destruct r as [[h1 res]| |] eqn:UL end; cbn [bind fst snd] in H; try discriminate.
  destruct (clear_all h1 res) as [h2| |] eqn:CA; cbn [bind] in H; try discriminate.
  unfold new_list, alloc in H. inversion H; subst h' L'; clear H.
  assert (F1 : framed h h1).
  { destruct evs as [|first rest]; [inversion UL; subst; apply framed_refl|].
    eapply union_loop_framed; [apply framed_refl|exact UL]. }
  assert (C1 : Clr h [] h1).
  { destruct F1 as (G & P & FC). split; auto. }
  pose proof (clear_all_Clr _ _ _ _ _ C1 CA) as C2. rewrite app_nil_r in C2.
  destruct C2 as (G & P & FC).
  split; [rewrite app_length; cbn; lia|].
  exists res. split; [apply lookup_alloc_new|]. split.
  - intros l B. rewrite lookup_app_old by lia.
    destruct (P l B) as [E|((i & t & d & ks & dl & L0 & La & Gd & Ld) & I)]; [left; exact E|].
    right. split; [|apply in_rev; exact I].
    exists i, t, d, ks, dl. rewrite (lookup_app_some _ _ _ _ La), (lookup_app_some _ _ _ _ Ld). auto.
  - intros l c k Ge N L I. apply lookup_alloc_inv in L. destruct L as [[B L]|[E _]]; [|congruence].
    specialize (FC _ _ _ L Ge I). rewrite app_length. cbn. lia.
Qed.
