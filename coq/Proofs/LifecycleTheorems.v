(* C05 — final statements, for the three back ends at once (`is_backend B`), in the form
   Props/C05.v re-states them. *)
From AwVerif Require Import Base.Prelude Model.StoreBase Model.MemStore Model.SqliteStore
  Model.PeeweeStore Model.Datastore
  Proofs.LifecycleBase Proofs.LifecycleMem Proofs.LifecycleSqlite Proofs.LifecyclePeewee
  Proofs.Lifecycle.
From Coq Require Import ZifyBool.

Lemma view_other_app : forall (k : kmap) b b' v, b' <> b -> aget b' (k ++ [(b, v)]) = aget b' k.
Proof.
  intros k b b' v Hne. rewrite aget_app. destruct (aget b' k); [reflexivity|].
  cbn. destruct (b =? b') eqn:E; [lia|reflexivity].
Qed.

Lemma t_map_view_listing : forall B, is_backend B -> forall d : ds_state B,
  (forall b, ds_view B d b = aget b (ds_map B d)) /\
  b_step B (ds_store d) Buckets = (ds_store d, Ok (OBuckets (ds_listing B d))) /\
  (ds_inv B d -> NoDup (map fst (ds_listing B d))).
Proof.
  intros B HB d. pose proof (backend_ok B HB) as OK. split; [|split].
  - intros b. apply view_is_map. exact OK.
  - apply (ok_buckets B OK).
  - intros Hi. unfold ds_listing. rewrite keys_listing. apply (ok_nodup B OK). exact (di_store _ _ Hi).
Qed.

Lemma t_create : forall B, is_backend B -> forall (d : ds_state B) b m,
  ds_inv B d -> ds_view B d b = None ->
  exists d' m',
    ds_do B d (DsCreate b m) = (d', Ok (DHandle (mkHandle (ds_next d) b))) /\
    stored_as m m' /\
    ds_map B d' = ds_map B d ++ [(b, (m', []))] /\
    ds_listing B d' = ds_listing B d ++ [(b, m')] /\
    ds_view B d' b = Some (m', []) /\
    (forall b', b' <> b -> ds_view B d' b' = ds_view B d b') /\
    aget b (ds_cache d') = Some (ds_next d) /\
    ds_inv B d'.
Proof.
  intros B HB d b m Hi Habs. pose proof (backend_ok B HB) as OK.
  rewrite (view_is_map B OK) in Habs.
  destruct (ds_create B OK d b m Hi Habs) as (d' & m' & Hs & Hst & Hm & Hc & Hi').
  exists d', m'. split; [exact Hs|]. split; [exact Hst|]. split; [exact Hm|].
  split; [unfold ds_listing; rewrite Hm, listing_of_app; reflexivity|].
  split; [rewrite (view_is_map B OK), Hm, aget_app, Habs; cbn; rewrite Z.eqb_refl; reflexivity|].
  split; [intros b' Hne; rewrite !(view_is_map B OK), Hm; apply view_other_app; assumption|].
  split; [rewrite Hc; apply aget_aset_same|exact Hi'].
Qed.

Lemma t_update : forall B, is_backend B -> forall (d : ds_state B) b ty cl ho na da m es,
  ds_inv B d -> ds_view B d b = Some (m, es) ->
  nonempty ty -> nonempty cl -> nonempty ho -> nonempty na -> nonempty da ->
  exists d' r,
    ds_do B d (DsUpdate b ty cl ho na da) = (d', r) /\
    ((exists o, r = Ok (DOut o)) \/
     (r = Err ValueError /\ ty = None /\ cl = None /\ ho = None /\ na = None /\ da = None)) /\
    ds_map B d' = aset b (updated_meta ty cl ho na da m, es) (ds_map B d) /\
    ds_view B d' b = Some (updated_meta ty cl ho na da m, es) /\
    (forall b', b' <> b -> ds_view B d' b' = ds_view B d b') /\
    map fst (ds_listing B d') = map fst (ds_listing B d) /\
    ds_cache d' = ds_cache d /\
    ds_inv B d'.
Proof.
  intros B HB d b ty cl ho na da m es Hi Hget Hty Hcl Hho Hna Hda. pose proof (backend_ok B HB) as OK.
  rewrite (view_is_map B OK) in Hget.
  destruct (ds_update B OK d b ty cl ho na da m es Hi Hget Hty Hcl Hho Hna Hda)
    as (d' & r & Hs & Hr & Hm & Hc & Hi').
  exists d', r. split; [exact Hs|]. split; [exact Hr|]. split; [exact Hm|].
  split; [rewrite (view_is_map B OK), Hm; apply aget_aset_same|].
  split; [intros b' Hne; rewrite !(view_is_map B OK), Hm; apply aget_aset_other; assumption|].
  split; [|split; assumption].
  unfold ds_listing. rewrite !keys_listing, Hm. eapply keys_aset_present. eassumption.
Qed.

Lemma t_delete : forall B, is_backend B -> forall (d : ds_state B) b v,
  ds_inv B d -> ds_view B d b = Some v ->
  exists d' o,
    ds_do B d (DsDelete b) = (d', Ok (DOut o)) /\
    ds_map B d' = adel b (ds_map B d) /\
    ds_listing B d' = adel b (ds_listing B d) /\
    ds_view B d' b = None /\
    (forall b', b' <> b -> ds_view B d' b' = ds_view B d b') /\
    aget b (ds_cache d') = None /\
    ds_inv B d'.
Proof.
  intros B HB d b v Hi Hget. pose proof (backend_ok B HB) as OK.
  rewrite (view_is_map B OK) in Hget.
  destruct (ds_delete B OK d b v Hi Hget) as (d' & o & Hs & Hm & Hc & Hi').
  exists d', o. split; [exact Hs|]. split; [exact Hm|].
  split; [unfold ds_listing; rewrite Hm; apply listing_adel|].
  split; [rewrite (view_is_map B OK), Hm; apply aget_adel_same|].
  split; [intros b' Hne; rewrite !(view_is_map B OK), Hm; apply aget_adel_other; assumption|].
  split; [rewrite Hc; apply aget_adel_same|exact Hi'].
Qed.

Lemma t_recreate_empty : forall B, is_backend B -> forall (d : ds_state B) b v m h,
  ds_inv B d -> ds_view B d b = Some v -> Forall cache_safe h ->
  let d1 := fst (ds_do B d (DsDelete b)) in
  let d2 := ds_after B d1 h in
  ds_view B d2 b = None ->
  exists d3 m',
    ds_do B d2 (DsCreate b m) = (d3, Ok (DHandle (mkHandle (ds_next d2) b))) /\
    stored_as m m' /\ ds_view B d3 b = Some (m', []).
Proof.
  intros B HB d b v m h Hi Hget Hsafe d1 d2 Habs. pose proof (backend_ok B HB) as OK.
  rewrite (view_is_map B OK) in Hget, Habs.
  destruct (ds_recreate_empty B OK d b v m h Hi Hget Hsafe Habs) as (d3 & m' & Hs & Hst & Hv).
  exists d3, m'. rewrite (view_is_map B OK). auto.
Qed.

Lemma t_missing_raises : forall B, is_backend B -> forall (d : ds_state B) b,
  ds_inv B d -> ds_view B d b = None ->
  ds_do B d (DsGetItem b) = (d, Err KeyError) /\
  (forall h, h_bucket h = b -> ds_do B d (DsVia h HMetadata) = (d, Err ValueError)) /\
  (forall ty cl ho na da, ds_do B d (DsUpdate b ty cl ho na da) = (d, Err ValueError)) /\
  ds_do B d (DsDelete b) = (d, Err ValueError).
Proof.
  intros B HB d b Hi Habs. pose proof (backend_ok B HB) as OK.
  rewrite (view_is_map B OK) in Habs. apply (ds_missing B OK); assumption.
Qed.

Lemma t_describe : forall B, is_backend B -> forall (d : ds_state B) h m es,
  ds_inv B d -> ds_view B d (h_bucket h) = Some (m, es) ->
  ds_do B d (DsVia h HMetadata) = (d, Ok (DOut (OMeta (h_bucket h) m))).
Proof.
  intros B HB d h m es Hi Hget. pose proof (backend_ok B HB) as OK.
  rewrite (view_is_map B OK) in Hget. eapply (ds_metadata B OK); eassumption.
Qed.

Lemma t_reachable_inv : forall B, is_backend B -> forall h,
  Forall cache_safe h -> ds_inv B (ds_after B (ds_start B) h).
Proof.
  intros B HB h Hs. pose proof (backend_ok B HB) as OK.
  apply (ds_run_inv B OK); [apply (ds_start_inv B OK)|assumption].
Qed.

Lemma t_cache_coherent : forall B, is_backend B -> forall (d : ds_state B), ds_inv B d ->
  (forall b n, aget b (ds_cache d) = Some n -> ds_view B d b <> None) /\
  (forall b, (exists d' hd, ds_do B d (DsGetItem b) = (d', Ok (DHandle hd))) <-> ds_view B d b <> None) /\
  (forall b d' hd, ds_do B d (DsGetItem b) = (d', Ok (DHandle hd)) ->
     h_bucket hd = b /\ ds_store d' = ds_store d /\ aget b (ds_cache d') = Some (h_serial hd) /\ ds_inv B d').
Proof.
  intros B HB d Hi. pose proof (backend_ok B HB) as OK. split; [|split].
  - intros b n H. rewrite (view_is_map B OK). exact (di_cache _ _ Hi b n H).
  - intros b. rewrite (view_is_map B OK). split.
    + intros (d' & hd & Hs) Hn. destruct (ds_missing B OK d b Hi Hn) as (Hk & _). congruence.
    + intros Hn. destruct (aget b (ds_map B d)) as [v|] eqn:E; [|congruence].
      destruct (ds_lookup B OK d b v Hi E) as (d' & n & Hs & _). eauto.
  - intros b d' hd Hs. destruct (aget b (ds_map B d)) as [v|] eqn:E.
    + destruct (ds_lookup B OK d b v Hi E) as (d'' & n & Hs' & Hst & Hc & _ & Hi').
      rewrite Hs in Hs'. inversion Hs'; subst. cbn. auto.
    + destruct (ds_missing B OK d b Hi E) as (Hk & _). congruence.
Qed.

Lemma t_handle_is_a_name : forall B (d : ds_state B) h1 h2 o,
  h_bucket h1 = h_bucket h2 -> ds_do B d (DsVia h1 o) = ds_do B d (DsVia h2 o).
Proof. intros B d h1 h2 o H. unfold ds_do. cbn [ds_step]. rewrite H. reflexivity. Qed.

Lemma t_refines_map : forall B, is_backend B -> forall h,
  admissible_history [] h ->
  agrees (ref_run [] h) (ds_listing B (ds_after B (ds_start B) h)).
Proof.
  intros B HB h Hadm. pose proof (backend_ok B HB) as OK.
  apply (ds_refines_map B OK); [apply (ok_init_inv B OK)| |exact Hadm].
  unfold ds_listing, ds_map, ds_start. cbn. rewrite (ok_init_map B OK). constructor.
Qed.

(* delete_bucket removes every event ROW of the deleted bucket (not only the bucket row that
   makes them visible): the tables hold no row of that rowid / key afterwards *)
Lemma t_delete_rows_sqlite : forall c b r,
  In r (sq_buckets c) -> br_id r = b ->
  forall e, In e (sq_events (fst (sq_step c (DeleteBucket b)))) -> er_bucket e <> br_rowid r.
Proof. exact sq_delete_removes_rows. Qed.

Lemma t_delete_rows_peewee : forall c b k,
  pw_key c b = Some k ->
  forall e, In e (pw_events (fst (pw_step c (DeleteBucket b)))) -> pe_bucket e <> k.
Proof.
  intros c b k Hk e. cbn [pw_step]. rewrite Hk. cbn. apply pw_deleted_removes_rows.
Qed.

(* no state of a history holds an event row that no listed bucket owns *)
Lemma t_no_orphan_rows_sqlite : forall h,
  sq_orphan_free (ds_store (ds_after sqB (ds_start sqB) h)).
Proof.
  intros h. apply sqi_orphans. apply (ds_run_store_inv sqB sq_ok). apply sq_init_inv.
Qed.

Lemma t_no_orphan_rows_peewee : forall h,
  pw_orphan_free (ds_store (ds_after pwB (ds_start pwB) h)).
Proof.
  intros h. apply pwi_orphans. apply (ds_run_store_inv pwB pw_ok). apply pw_init_inv.
Qed.

(* When a bucket is deleted behind the Datastore's back the cached handle stays: ds[b]
   then succeeds for a bucket that does not exist, and describing it raises. *)
Definition stale_history : list dsop :=
  [DsCreate 1 (mkMeta 1 2 3 0 None 0); DsRaw (DeleteBucket 1)].

Lemma t_stale_after_raw_delete : forall B, is_backend B ->
  let d := ds_after B (ds_start B) stale_history in
  ds_view B d 1 = None /\
  ds_do B d (DsGetItem 1) = (d, Ok (DHandle (mkHandle 0 1))) /\
  snd (ds_do B d (DsVia (mkHandle 0 1) HMetadata)) = Err ValueError.
Proof. intros B [->|[->| ->]]; vm_compute; auto. Qed.
