(* Proofs/ClassifyCross.v - round 2 (seed class "a transform writes a key it was not asked to
   write"): corollaries of the frame theorems, stated per key. *)
From AwVerif Require Import Base.Prelude Model.ClassifyBase Model.Classify
  Proofs.ClassifyProofs Proofs.ClassifyFrame.

(* simplify_string(events, key): whatever the event carries - app, title in any form - every
   key other than `key` reads exactly as before, at every position *)
Lemma simplify_other_keys : forall sub_parens sub_fps sub_dot key evs evs',
  simplify_string sub_parens sub_fps sub_dot evs key = Ok evs' ->
  forall i e e' k, nth_error evs i = Some e -> nth_error evs' i = Some e' ->
    k <> key -> dget k (c_data e') = dget k (c_data e).
Proof.
  intros sp sf sd key evs evs' H i e e' k He He' Hk.
  pose proof (simplify_frame sp sf sd key evs evs' H) as F.
  apply frame_unfold in F. destruct F as (_ & _ & _ & _ & F).
  destruct (F i e e' He He') as [_ G]. apply G. intros [E|[]]. apply Hk. symmetry. exact E.
Qed.

(* in particular with a key other than "title" the title is not touched *)
Lemma simplify_title_untouched : forall sub_parens sub_fps sub_dot key evs evs',
  simplify_string sub_parens sub_fps sub_dot evs key = Ok evs' -> key <> K_title ->
  map (fun e => dget K_title (c_data e)) evs' = map (fun e => dget K_title (c_data e)) evs.
Proof.
  intros sp sf sd key evs evs' H Hk.
  pose proof (simplify_frame sp sf sd key evs evs' H) as F. unfold frame in F. clear H.
  induction F as [|e e' t t' Fe _ IH]; cbn [map]; [reflexivity|].
  f_equal; [|exact IH].
  assert (F1 : frame (fun _ => [key]) [e] [e']) by (constructor; [exact Fe|constructor]).
  apply frame_unfold in F1. destruct F1 as (_ & _ & _ & _ & F1).
  destruct (F1 0%nat e e' eq_refl eq_refl) as [_ G]. apply G.
  intros [E|[]]. apply Hk. exact E.
Qed.
