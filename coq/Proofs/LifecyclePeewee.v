(* C05 — the peewee back end provides the lifecycle lemmas (store_ok).

   Invariant of the reachable states: bucket ids unique, bucket keys unique, the Python-side
   cache `bucket_keys` equals the table, and every event row names the key of an existing
   bucket (no orphan rows).  Bucket keys are max+1 (no AUTOINCREMENT): the key of a deleted
   newest bucket IS issued again, and the new bucket starts empty only because delete_bucket
   removed every event row of that key. *)
From AwVerif Require Import Base.Prelude Model.StoreBase Model.PeeweeStore Model.Datastore
  Proofs.LifecycleBase.
From Coq Require Import ZifyBool.

Definition pw_bkeys (c : pwstate) : list Z := map pb_key (pw_buckets c).
Definition pw_orphan_free (c : pwstate) : Prop :=
  Forall (fun e => In (pe_bucket e) (pw_bkeys c)) (pw_events c).
Definition pw_cache_ok (c : pwstate) : Prop :=
  pw_keys c = map (fun r => (pb_id r, pb_key r)) (pw_buckets c).

Record pw_inv (c : pwstate) : Prop := mkPwInv {
  pwi_ids : NoDup (map pb_id (pw_buckets c));
  pwi_keys : NoDup (pw_bkeys c);
  pwi_cache : pw_cache_ok c;
  pwi_orphans : pw_orphan_free c }.

Definition pw_events_of (es : list perow) (r : pbrow) : list event :=
  map prow_event (filter (fun e => pe_bucket e =? pb_key r) es).
Definition pw_entry (es : list perow) (r : pbrow) : Z * (meta * list event) :=
  (pb_id r, (pb_meta r, pw_events_of es r)).
Definition pw_map (c : pwstate) : kmap := map (pw_entry (pw_events c)) (pw_buckets c).

Definition pwB : backend := mkBackend pwstate pw_init pw_step pw_view pw_map pw_inv.

Lemma pw_eta : forall c, mkPw (pw_buckets c) (pw_events c) (pw_keys c) = c.
Proof. intros []; reflexivity. Qed.

Lemma pw_view_map : forall c b, pw_view c b = aget b (pw_map c).
Proof.
  intros c b. unfold pw_view, pw_map.
  rewrite (find_aget pb_id (fun r => (pb_meta r, pw_events_of (pw_events c) r))).
  destruct (find (fun r => pb_id r =? b) (pw_buckets c)); reflexivity.
Qed.

Lemma pw_find_map : forall c b,
  aget b (pw_map c) =
  option_map (fun r => (pb_meta r, pw_events_of (pw_events c) r)) (find (fun r => pb_id r =? b) (pw_buckets c)).
Proof.
  intros. unfold pw_map.
  apply (find_aget pb_id (fun r => (pb_meta r, pw_events_of (pw_events c) r))).
Qed.

Lemma pw_listing : forall c,
  map (fun r => (pb_id r, pb_meta r)) (pw_buckets c) = listing_of (pw_map c).
Proof. intros. unfold listing_of, pw_map. rewrite map_map. reflexivity. Qed.

Lemma pw_absent_find : forall c b, aget b (pw_map c) = None -> find (fun r => pb_id r =? b) (pw_buckets c) = None.
Proof. intros c b. rewrite pw_find_map. destruct (find _ _); [discriminate|reflexivity]. Qed.

Lemma pw_present_find : forall c b m es, aget b (pw_map c) = Some (m, es) ->
  exists r, find (fun r => pb_id r =? b) (pw_buckets c) = Some r /\ pb_meta r = m /\
            es = pw_events_of (pw_events c) r.
Proof.
  intros c b m es. rewrite pw_find_map. destruct (find _ _) as [r|]; [|discriminate].
  cbn. intros H. inversion H; subst. eauto.
Qed.

(* self.bucket_keys[b] under a valid cache *)
Lemma pw_key_find : forall c b, pw_cache_ok c ->
  pw_key c b = option_map pb_key (find (fun r => pb_id r =? b) (pw_buckets c)).
Proof. intros c b H. unfold pw_key. rewrite H. apply (find_aget pb_id pb_key). Qed.

Lemma find_unique : forall {A} (f : A -> Z) l x,
  NoDup (map f l) -> In x l -> find (fun r => f r =? f x) l = Some x.
Proof.
  intros A f l x Hnd Hin. destruct (find (fun r => f r =? f x) l) as [r|] eqn:E.
  - apply find_some in E. destruct E as [Hr Hk]. f_equal.
    eapply (NoDup_map_inj f); eauto. lia.
  - pose proof (find_none _ _ E x Hin) as H. cbn in H. lia.
Qed.

(* on a table with unique ids and unique keys, "key = key of the row with id b" and "id = b"
   select the same row *)
Lemma pw_key_id_agree : forall c b r0 r,
  pw_inv c -> find (fun r => pb_id r =? b) (pw_buckets c) = Some r0 -> In r (pw_buckets c) ->
  (pb_key r =? pb_key r0) = (pb_id r =? b).
Proof.
  intros c b r0 r Hi Hf Hin. apply find_some in Hf. destruct Hf as [Hin0 Hb0].
  destruct (pb_key r =? pb_key r0) eqn:E1, (pb_id r =? b) eqn:E2; try reflexivity; exfalso.
  - assert (r = r0) by (eapply (NoDup_map_inj pb_key); [exact (pwi_keys _ Hi)| | |]; auto; lia).
    subst. lia.
  - assert (r = r0) by (eapply (NoDup_map_inj pb_id); [exact (pwi_ids _ Hi)| | |]; auto; lia).
    subst. lia.
Qed.

(* ---- event operations ---- *)

Definition pw_ev_step (c c' : pwstate) : Prop :=
  pw_buckets c' = pw_buckets c /\ pw_keys c' = pw_keys c /\
  (pw_cache_ok c -> pw_orphan_free c -> pw_orphan_free c').

Lemma pw_ev_refl : forall c, pw_ev_step c c.
Proof. intros. repeat split; auto. Qed.

Lemma pw_ev_trans : forall a b c, pw_ev_step a b -> pw_ev_step b c -> pw_ev_step a c.
Proof.
  unfold pw_ev_step, pw_cache_ok. intros a b c (H1 & H2 & H3) (H4 & H5 & H6).
  repeat split; try congruence. intros Hc Ho. apply H6; [congruence|auto].
Qed.

Lemma pw_ev_inv : forall c c', pw_ev_step c c' -> pw_inv c -> pw_inv c'.
Proof.
  intros c c' (Hb & Hk & Ho) [I1 I2 I3 I4]. unfold pw_bkeys, pw_cache_ok in *.
  constructor; unfold pw_bkeys, pw_cache_ok; rewrite ?Hb, ?Hk; auto.
Qed.

Lemma pw_ev_listing : forall c c', pw_ev_step c c' -> listing_of (pw_map c') = listing_of (pw_map c).
Proof. intros c c' (Hb & _). rewrite <- !pw_listing, Hb. reflexivity. Qed.

Lemma pw_with_events_step : forall c es,
  (pw_cache_ok c -> pw_orphan_free c -> Forall (fun e => In (pe_bucket e) (pw_bkeys c)) es) ->
  pw_ev_step c (pw_with_events c es).
Proof. intros c es H. repeat split; auto. Qed.

Lemma Forall_update_where' : forall {A} (P : A -> Prop) p g (l : list A),
  (forall x, In x l -> P x -> p x = true -> P (g x)) -> Forall P l -> Forall P (update_where p g l).
Proof.
  intros A P p g l Hg H. unfold update_where. apply Forall_forall. intros y Hy.
  apply in_map_iff in Hy. destruct Hy as (x & <- & Hx).
  rewrite Forall_forall in H. destruct (p x) eqn:E; auto.
Qed.

Lemma Forall_delete_where' : forall {A} (P : A -> Prop) p (l : list A),
  Forall P l -> Forall P (delete_where p l).
Proof.
  intros A P p l H. unfold delete_where. apply Forall_forall. intros y Hy.
  apply filter_In in Hy. rewrite Forall_forall in H. apply H. tauto.
Qed.

Lemma pw_key_in : forall c b k, pw_cache_ok c -> pw_key c b = Some k -> In k (pw_bkeys c).
Proof.
  intros c b k Hc. rewrite pw_key_find by assumption.
  destruct (find (fun r => pb_id r =? b) (pw_buckets c)) as [r|] eqn:E; [|discriminate].
  cbn. intros H. inversion H; subst. apply find_some in E. apply in_map. tauto.
Qed.

(* a key under which rows may be inserted *)
Definition pw_ins_ok (c : pwstate) (k : Z) : Prop := pw_cache_ok c -> In k (pw_bkeys c).

Lemma pw_ins_ok_step : forall c c' k, pw_ev_step c c' -> pw_ins_ok c k -> pw_ins_ok c' k.
Proof.
  unfold pw_ins_ok, pw_cache_ok, pw_bkeys. intros c c' k (Hb & Hk & _) H Hc.
  rewrite Hb. apply H. congruence.
Qed.

Lemma pw_insert_event_step : forall c k e, pw_ins_ok c k -> pw_ev_step c (fst (pw_insert_event c k e)).
Proof.
  intros c k e Hk. unfold pw_insert_event. cbn. apply pw_with_events_step. intros Hc Ho.
  apply Forall_app. split; [exact Ho|]. constructor; [|constructor]. cbn. auto.
Qed.

Lemma pw_save_event_step : forall c r t d x, In r (pw_events c) ->
  pw_ev_step c (pw_save_event c (mkPerow (pe_id r) (pe_bucket r) t d x)).
Proof.
  intros c r t d x Hin. unfold pw_save_event. apply pw_with_events_step. intros Hc Ho. cbn.
  apply Forall_update_where'; [|exact Ho]. intros y _ _ _. cbn.
  unfold pw_orphan_free in Ho. rewrite Forall_forall in Ho. auto.
Qed.

Lemma pw_replace_step : forall c b i e, pw_ev_step c (fst (pw_replace c b i e)).
Proof.
  intros. unfold pw_replace. destruct (pw_key c b) as [k|]; [|apply pw_ev_refl].
  destruct (pw_select_event c k i) as [r|] eqn:E; [|apply pw_ev_refl]. cbn.
  apply pw_save_event_step. unfold pw_select_event in E. apply find_some in E. tauto.
Qed.

Lemma pw_upserts_step : forall es c b, pw_ev_step c (fst (pw_upserts c b es)).
Proof.
  induction es as [|e t IH]; intros c b; cbn; [apply pw_ev_refl|].
  destruct (eid e) as [i|]; [|apply IH].
  pose proof (pw_replace_step c b i e) as H.
  destruct (pw_replace c b i e) as [c' [o|k|]]; cbn in *; try exact H.
  eapply pw_ev_trans; [exact H|apply IH].
Qed.

Lemma pw_insert_rows_step : forall es c k, pw_ins_ok c k -> pw_ev_step c (pw_insert_rows c k es).
Proof.
  unfold pw_insert_rows. induction es as [|e t IH]; intros c k Hk; cbn; [apply pw_ev_refl|].
  pose proof (pw_insert_event_step c k e Hk) as H.
  eapply pw_ev_trans; [exact H|]. apply IH. eapply pw_ins_ok_step; eassumption.
Qed.

Lemma pw_insert_chunks_step : forall (chs : list (list event)) c k, pw_ins_ok c k ->
  pw_ev_step c (fold_left (fun c chunk => pw_insert_rows c k chunk) chs c).
Proof.
  induction chs as [|ch t IH]; intros c k Hk; cbn; [apply pw_ev_refl|].
  pose proof (pw_insert_rows_step ch c k Hk) as H.
  eapply pw_ev_trans; [exact H|]. apply IH. eapply pw_ins_ok_step; eassumption.
Qed.

Section SortIn.
  Context {A : Type} (key : A -> Z).
  Lemma insert_sorted_in : forall x y (l : list A), In y (insert_sorted key x l) -> y = x \/ In y l.
  Proof.
    induction l as [|a t IH]; cbn; [intros [H|[]]; auto|].
    destruct (key a <? key x); cbn.
    - intros [H|H]; [tauto|]. apply IH in H. tauto.
    - intros [H|[H|H]]; auto.
  Qed.
  Lemma sort_by_in : forall y (l : list A), In y (sort_by key l) -> In y l.
  Proof.
    induction l as [|a t IH]; cbn; [tauto|]. intros H. apply insert_sorted_in in H.
    destruct H; [left; congruence|right; auto].
  Qed.
End SortIn.

Lemma pw_select_last_in : forall c k r, pw_select_last c k = Some r -> In r (pw_events c).
Proof.
  intros c k r. unfold pw_select_last, pw_order_ts_desc.
  destruct (sort_by _ _) as [|r' t] eqn:E; [discriminate|]. intros H. inversion H; subst.
  assert (Hin : In r (sort_by (fun r0 => - pe_ts r0) (select_where (fun r0 => pe_bucket r0 =? k) (pw_events c)))).
  { rewrite E. left. reflexivity. }
  apply sort_by_in in Hin. unfold select_where in Hin. apply filter_In in Hin. tauto.
Qed.

Lemma pw_event_op_step : forall c o, lifecycle_write o = false -> pw_ev_step c (fst (pw_step c o)).
Proof.
  intros c o Ho.
  destruct o as [b m|b ty cl ho na da|b| |b|b e|b es|b i e|b e|b i|b i|b limit st en|b st en];
    cbn in Ho; try discriminate; cbn [pw_step].
  - apply pw_ev_refl.
  - destruct (pw_key c b) as [k|]; [|apply pw_ev_refl].
    destruct (pw_get_bucket c k); apply pw_ev_refl.
  - destruct (eid e) as [i|]; [apply pw_replace_step|].
    destruct (pw_key c b) as [k|] eqn:E; [|apply pw_ev_refl].
    pose proof (pw_insert_event_step c k e) as H.
    destruct (pw_insert_event c k e) as [c' i]. apply H.
    intros Hc. eapply pw_key_in; eassumption.
  - pose proof (pw_upserts_step es c b) as H.
    destruct (pw_upserts c b es) as [c1 [o|k|]]; cbn in *; try exact H.
    destruct (filter pno_id es) as [|n news]; [exact H|].
    destruct (pw_key c1 b) as [k|] eqn:E; [|exact H]. cbn.
    eapply pw_ev_trans; [exact H|]. apply pw_insert_chunks_step.
    intros Hc. eapply pw_key_in; eassumption.
  - apply pw_replace_step.
  - destruct (pw_key c b) as [k|]; [|apply pw_ev_refl].
    destruct (pw_select_last c k) as [r|] eqn:E; [|apply pw_ev_refl]. cbn.
    apply pw_save_event_step. eapply pw_select_last_in. eassumption.
  - destruct (pw_key c b) as [k|]; [|apply pw_ev_refl].
    unfold pw_delete_event. cbn. apply pw_with_events_step. intros _ Ho'.
    apply Forall_delete_where'. exact Ho'.
  - destruct (pw_key c b); apply pw_ev_refl.
  - destruct (limit =? 0); [apply pw_ev_refl|]. destruct (pw_key c b); apply pw_ev_refl.
  - destruct (pw_key c b); apply pw_ev_refl.
Qed.

(* ---- create_bucket ---- *)

Lemma list_max_ge : forall t x y, In y (x :: t) -> y <= list_max x t.
Proof.
  unfold list_max. induction t as [|a t IH]; intros x y; cbn.
  - intros [->|[]]. lia.
  - intros [->|[->|H]].
    + specialize (IH y y (or_introl eq_refl)). lia.
    + lia.
    + specialize (IH x y (or_intror H)). lia.
Qed.

Lemma new_rowid_fresh : forall ids, ~ In (new_rowid ids) ids.
Proof.
  intros [|x t] H; [exact H|]. unfold new_rowid in H. apply list_max_ge in H. lia.
Qed.

Lemma pw_new_key_empty : forall c k m b,
  pw_inv c -> k = new_rowid (pw_bkeys c) -> pw_events_of (pw_events c) (mkPbrow k b m) = [].
Proof.
  intros c k m b [_ _ _ Horph] ->. unfold pw_events_of. cbn.
  rewrite filter_none; [reflexivity|]. intros e He.
  destruct (pe_bucket e =? new_rowid (pw_bkeys c)) eqn:E; [|reflexivity]. exfalso.
  unfold pw_orphan_free in Horph. rewrite Forall_forall in Horph. specialize (Horph e He).
  apply (new_rowid_fresh (pw_bkeys c)). replace (new_rowid (pw_bkeys c)) with (pe_bucket e) by lia.
  assumption.
Qed.

Lemma pw_create_absent : forall c b m, pw_inv c -> aget b (pw_map c) = None ->
  exists c', pw_step c (CreateBucket b m) = (c', Ok ONone) /\
             pw_map c' = pw_map c ++ [(b, (m, []))] /\ pw_inv c'.
Proof.
  intros c b m Hi Habs. pose proof (pw_absent_find _ _ Habs) as Hf.
  cbn [pw_step]. unfold pw_insert_bucket. rewrite (existsb_false_find _ _ Hf).
  eexists. split; [reflexivity|]. split.
  - unfold pw_map. cbn. rewrite map_app. cbn. f_equal. unfold pw_entry. cbn.
    pose proof (pw_new_key_empty c _ m b Hi eq_refl) as Hnew. unfold pw_bkeys in Hnew.
    rewrite Hnew. reflexivity.
  - destruct Hi as [I1 I2 I3 I4]. unfold pw_bkeys, pw_orphan_free, pw_cache_ok in *.
    constructor; unfold pw_bkeys, pw_orphan_free, pw_cache_ok; cbn.
    + rewrite map_app. cbn. apply NoDup_app_one; [assumption|].
      intros Hin. apply in_map_iff in Hin. destruct Hin as (r & Hr & Hin).
      pose proof (find_none _ _ Hf r Hin) as Hx. cbn in Hx. lia.
    + rewrite map_app. cbn. apply NoDup_app_one; [assumption|]. apply new_rowid_fresh.
    + reflexivity.
    + eapply Forall_impl; [|exact I4]. cbn. intros e He. rewrite map_app, in_app_iff. tauto.
Qed.

(* ---- update_bucket ---- *)

Definition pw_upd (ty cl ho na da : option Z) (r : pbrow) : pbrow :=
  mkPbrow (pb_key r) (pb_id r) (update_meta not_none ty cl ho na da (pb_meta r)).

Lemma pw_update_as_where_id : forall c b ty cl ho na da r0,
  pw_inv c -> find (fun r => pb_id r =? b) (pw_buckets c) = Some r0 ->
  pw_step c (UpdateBucket b ty cl ho na da) =
  (pw_with_buckets c (update_where (fun r => pb_id r =? b) (pw_upd ty cl ho na da) (pw_buckets c)), Ok ONone).
Proof.
  intros c b ty cl ho na da r0 Hi Hf. cbn [pw_step].
  rewrite (pw_key_find c b (pwi_cache _ Hi)), Hf. cbn.
  pose proof (find_some _ _ Hf) as [Hin0 Hb0].
  unfold pw_get_bucket. rewrite (find_unique pb_key _ r0 (pwi_keys _ Hi) Hin0).
  unfold pw_save_bucket. cbn. f_equal. f_equal.
  unfold update_where. apply map_ext_in. intros r Hr.
  rewrite (pw_key_id_agree c b r0 r Hi Hf Hr).
  destruct (pb_id r =? b) eqn:E; [|reflexivity].
  assert (r = r0) by (eapply (NoDup_map_inj pb_id); [exact (pwi_ids _ Hi)| | |]; auto; lia).
  subst. reflexivity.
Qed.

Lemma pw_update_where_inv : forall c b ty cl ho na da,
  pw_inv c ->
  pw_inv (pw_with_buckets c (update_where (fun r => pb_id r =? b) (pw_upd ty cl ho na da) (pw_buckets c))).
Proof.
  intros c b ty cl ho na da [I1 I2 I3 I4].
  assert (H : forall {X} (h : pbrow -> X) l, (forall r, h (pw_upd ty cl ho na da r) = h r) ->
                 map h (update_where (fun r => pb_id r =? b) (pw_upd ty cl ho na da) l) = map h l).
  { intros X h l Hg. unfold update_where. rewrite map_map. apply map_ext.
    intros r. destruct (pb_id r =? b); auto. }
  constructor; unfold pw_bkeys, pw_orphan_free, pw_cache_ok in *; cbn.
  - rewrite H; auto.
  - rewrite H; auto.
  - rewrite H; auto.
  - rewrite H; auto.
Qed.

Lemma pw_update_present : forall c b ty cl ho na da m es,
  pw_inv c -> aget b (pw_map c) = Some (m, es) ->
  exists c', pw_step c (UpdateBucket b ty cl ho na da) = (c', Ok ONone) /\
             pw_map c' = aset b (updated_meta ty cl ho na da m, es) (pw_map c).
Proof.
  intros c b ty cl ho na da m es Hi Hget.
  destruct (pw_present_find _ _ _ _ Hget) as (r0 & Hf & Hm & Hes).
  eexists. split; [eapply pw_update_as_where_id; eassumption|].
  unfold pw_map. cbn.
  pose proof (aset_update_where pb_id (fun r => (pb_meta r, pw_events_of (pw_events c) r))
                (pw_upd ty cl ho na da) (pw_buckets c) b r0 (pwi_ids _ Hi) Hf (fun r => eq_refl)) as H.
  unfold pw_entry. rewrite H. cbn. rewrite update_meta_not_none, Hm. subst es. reflexivity.
Qed.

(* ---- delete_bucket ---- *)

Definition pw_deleted (c : pwstate) (k : Z) : pwstate :=
  refresh_keys (pw_delete_bucket_row (pw_delete_events_of c k) k).

Lemma pw_deleted_inv : forall c k, pw_inv c -> pw_inv (pw_deleted c k).
Proof.
  intros c k [I1 I2 I3 I4].
  unfold pw_deleted, refresh_keys, pw_delete_bucket_row, pw_delete_events_of, delete_where,
    pw_bkeys, pw_orphan_free, pw_cache_ok in *.
  constructor; unfold pw_bkeys, pw_orphan_free, pw_cache_ok; cbn.
  - apply NoDup_map_filter. assumption.
  - apply NoDup_map_filter. assumption.
  - reflexivity.
  - apply Forall_forall. intros e He. apply filter_In in He. destruct He as [He Hp].
    rewrite Forall_forall in I4. specialize (I4 e He).
    apply in_map_iff in I4. destruct I4 as (r & Hr & Hin).
    apply in_map_iff. exists r. split; [assumption|]. apply filter_In. split; [assumption|].
    apply negb_true_iff in Hp. apply negb_true_iff. lia.
Qed.

(* delete_bucket removes every event row of the deleted bucket's key *)
Lemma pw_deleted_removes_rows : forall c k e, In e (pw_events (pw_deleted c k)) -> pe_bucket e <> k.
Proof.
  intros c k e. unfold pw_deleted, refresh_keys, pw_delete_bucket_row, pw_delete_events_of, delete_where. cbn.
  intros He. apply filter_In in He. destruct He as [_ Hp]. apply negb_true_iff in Hp. lia.
Qed.

Lemma pw_deleted_map : forall c b r0,
  pw_inv c -> find (fun r => pb_id r =? b) (pw_buckets c) = Some r0 ->
  pw_map (pw_deleted c (pb_key r0)) = adel b (pw_map c).
Proof.
  intros c b r0 Hi Hf. unfold pw_map at 2.
  rewrite (adel_delete_where pb_id (fun r => (pb_meta r, pw_events_of (pw_events c) r))).
  unfold pw_map, pw_deleted, refresh_keys, pw_delete_bucket_row, pw_delete_events_of,
    pw_with_buckets, pw_with_events. cbn [pw_buckets pw_events pw_keys].
  assert (Hsame : delete_where (fun r => pb_key r =? pb_key r0) (pw_buckets c)
                  = delete_where (fun r => pb_id r =? b) (pw_buckets c)).
  { unfold delete_where. apply filter_ext_in. intros r Hr.
    rewrite (pw_key_id_agree c b r0 r Hi Hf Hr). reflexivity. }
  rewrite Hsame.
  apply map_ext_in. intros r Hr. unfold delete_where in Hr. apply filter_In in Hr. destruct Hr as [Hr Hne].
  unfold pw_entry. f_equal. f_equal. unfold pw_events_of. f_equal.
  unfold delete_where. apply filter_filter_absorb. intros e He E.
  rewrite <- (pw_key_id_agree c b r0 r Hi Hf Hr) in Hne.
  apply negb_true_iff in Hne. apply negb_true_iff. lia.
Qed.

Lemma pw_delete_present : forall c b v, pw_inv c -> aget b (pw_map c) = Some v ->
  exists c', pw_step c (DeleteBucket b) = (c', Ok ONone) /\ pw_map c' = adel b (pw_map c).
Proof.
  intros c b [m es] Hi Hget. destruct (pw_present_find _ _ _ _ Hget) as (r0 & Hf & _).
  cbn [pw_step]. rewrite (pw_key_find c b (pwi_cache _ Hi)), Hf. cbn.
  eexists. split; [reflexivity|]. apply pw_deleted_map; assumption.
Qed.

(* ---- the record ---- *)

Lemma pw_init_inv : pw_inv pw_init.
Proof. constructor; unfold pw_bkeys, pw_orphan_free, pw_cache_ok; cbn; try constructor. Qed.

Lemma pw_keys_map : forall c, map fst (pw_map c) = map pb_id (pw_buckets c).
Proof. intros. unfold pw_map. rewrite map_map. reflexivity. Qed.

Lemma pw_missing_key : forall c b, pw_inv c -> aget b (pw_map c) = None -> pw_key c b = None.
Proof.
  intros c b Hi Habs. rewrite (pw_key_find c b (pwi_cache _ Hi)), (pw_absent_find _ _ Habs). reflexivity.
Qed.

Lemma pw_step_inv : forall c o, pw_inv c -> pw_inv (fst (pw_step c o)).
Proof.
  intros c o Hi. destruct (lifecycle_write o) eqn:Ho.
  - destruct o as [b m|b ty cl ho na da|b| | | | | | | | | | ]; cbn in Ho; try discriminate.
    + destruct (aget b (pw_map c)) as [[m0 es0]|] eqn:E.
      * destruct (pw_present_find _ _ _ _ E) as (r0 & Hf & _).
        cbn [pw_step]. unfold pw_insert_bucket. rewrite (existsb_true_find _ _ _ Hf). exact Hi.
      * destruct (pw_create_absent c b m Hi E) as (c' & Hs & _ & Hi'). rewrite Hs. exact Hi'.
    + destruct (aget b (pw_map c)) as [[m0 es0]|] eqn:E.
      * destruct (pw_present_find _ _ _ _ E) as (r0 & Hf & _).
        rewrite (pw_update_as_where_id c b ty cl ho na da r0 Hi Hf). cbn.
        apply pw_update_where_inv. exact Hi.
      * cbn [pw_step]. rewrite (pw_missing_key c b Hi E). exact Hi.
    + cbn [pw_step]. destruct (pw_key c b) as [k|]; [|exact Hi]. cbn.
      apply (pw_deleted_inv c k Hi).
  - eapply pw_ev_inv; [apply pw_event_op_step|]; assumption.
Qed.

Lemma pw_keys_stay : forall c o b0, pw_inv c ->
  match o with DeleteBucket _ => False | _ => True end ->
  aget b0 (pw_map c) <> None -> aget b0 (pw_map (fst (pw_step c o))) <> None.
Proof.
  intros c o b0 Hi Ho Hb0. destruct (lifecycle_write o) eqn:Hw.
  - destruct o as [b m|b ty cl ho na da|b| | | | | | | | | | ]; cbn in Hw; try discriminate.
    + destruct (aget b (pw_map c)) as [[m0 es0]|] eqn:E.
      * destruct (pw_present_find _ _ _ _ E) as (r0 & Hf & _).
        cbn [pw_step]. unfold pw_insert_bucket. rewrite (existsb_true_find _ _ _ Hf). exact Hb0.
      * destruct (pw_create_absent c b m Hi E) as (c' & Hs & Hm & _). rewrite Hs. cbn. rewrite Hm.
        apply aget_app_stays. assumption.
    + destruct (aget b (pw_map c)) as [[m0 es0]|] eqn:E.
      * destruct (pw_update_present c b ty cl ho na da m0 es0 Hi E) as (c' & Hs & Hm).
        rewrite Hs. cbn. rewrite Hm. apply aget_aset_stays. assumption.
      * cbn [pw_step]. rewrite (pw_missing_key c b Hi E). exact Hb0.
    + destruct Ho.
  - eapply listing_same_stays; [apply pw_ev_listing; apply pw_event_op_step; assumption|assumption].
Qed.

Lemma pw_ok : store_ok pwB.
Proof.
  constructor; cbn [b_state b_init b_step b_view b_map b_inv pwB].
  - apply pw_init_inv.
  - reflexivity.
  - apply pw_view_map.
  - intros c Hi. rewrite pw_keys_map. apply (pwi_ids _ Hi).
  - intros c. cbn [pw_step]. rewrite pw_listing. reflexivity.
  - apply pw_step_inv.
  - intros c o _ Ho. apply pw_ev_listing. apply pw_event_op_step. assumption.
  - apply pw_keys_stay.
  - (* create *)
    intros c b m Hi Habs. destruct (pw_create_absent c b m Hi Habs) as (c' & Hs & Hm & _).
    exists c', ONone, m. split; [assumption|]. split; [|assumption].
    unfold stored_as. repeat split. auto.
  - (* update *)
    intros c b ty cl ho na da m es Hi Hget _ _ _ _ _.
    destruct (pw_update_present c b ty cl ho na da m es Hi Hget) as (c' & Hs & Hm).
    exists c', (Ok ONone). split; [assumption|]. split; [left; eauto|assumption].
  - (* delete *)
    intros c b v Hi Hget. destruct (pw_delete_present c b v Hi Hget) as (c' & Hs & Hm).
    exists c', ONone. split; assumption.
  - (* metadata *)
    intros c b m es Hi Hget. destruct (pw_present_find _ _ _ _ Hget) as (r0 & Hf & Hm & _).
    cbn [pw_step]. rewrite (pw_key_find c b (pwi_cache _ Hi)), Hf. cbn.
    pose proof (find_some _ _ Hf) as [Hin0 Hb0].
    unfold pw_get_bucket. rewrite (find_unique pb_key _ r0 (pwi_keys _ Hi) Hin0).
    subst m. do 3 f_equal. lia.
  - intros c b Hi Habs. cbn [pw_step]. rewrite (pw_missing_key c b Hi Habs). reflexivity.
  - intros c b ty cl ho na da Hi Habs. cbn [pw_step]. rewrite (pw_missing_key c b Hi Habs). reflexivity.
  - intros c b Hi Habs. cbn [pw_step]. rewrite (pw_missing_key c b Hi Habs). reflexivity.
Qed.
