(* C06, the auto-committing SqliteStorage (enable_lazy_commit=False): every completed call
   leaves nothing pending.  Lemmas for Props/C06Eager.v. *)
From AwVerif Require Import Base.Prelude Model.Commit Model.CommitOpen Proofs.CommitProofs.

Lemma eager_block : forall s ws k c,
  pending (cond_commit false k c (add_pending s ws)) = [].
Proof. intros. cbn. reflexivity. Qed.

(* a script in which every statement is followed by its conditional_commit or by a commit
   ([qscript]: all of [expand]) returns with nothing pending on the eager store *)
Lemma qscript_eager_flushed : forall ms, qscript ms ->
  forall tr s, map fst tr = ms -> pending s = [] -> pending (run false s tr) = [].
Proof.
  induction 1 as [|ms Hq IH|ms Hq IH|pre k ms Hpre Hk Hq IH|w ms Hq IH|w1 w2 ms Hq IH];
    intros tr s Htr Hs.
  - destruct tr; [exact Hs|discriminate].
  - apply map_fst_cons in Htr. destruct Htr as (c & tr' & -> & Htr).
    rewrite run_cons. apply IH; assumption.
  - apply map_fst_cons in Htr. destruct Htr as (c & tr' & -> & Htr).
    rewrite run_cons. apply IH; [assumption|]. reflexivity.
  - apply map_fst_block in Htr. destruct Htr as (tpre & c & tr' & -> & Hmpre & Htr).
    rewrite run_app, run_cons. apply IH; [assumption|].
    rewrite run_writes by (rewrite Hmpre; exact Hpre). reflexivity.
  - apply map_fst_cons in Htr. destruct Htr as (c1 & tr1 & -> & Htr).
    apply map_fst_cons in Htr. destruct Htr as (c2 & tr2 & -> & Htr).
    rewrite !run_cons. apply IH; [assumption|]. reflexivity.
  - apply map_fst_cons in Htr. destruct Htr as (c1 & tr1 & -> & Htr).
    apply map_fst_cons in Htr. destruct Htr as (c2 & tr2 & -> & Htr).
    apply map_fst_cons in Htr. destruct Htr as (c3 & tr3 & -> & Htr).
    rewrite !run_cons. apply IH; [assumption|]. reflexivity.
Qed.

(* no call in flight: everything issued is durable *)
Lemma eager_completed_durable : forall c0 t0 h tr,
  map fst tr = expand_all h ->
  let s := run false (init c0 t0) tr in
  pending s = [] /\ recover s = c0 ++ writes_of (expand_all h).
Proof.
  intros c0 t0 h tr Htr s.
  assert (Hp : pending s = []).
  { apply qscript_eager_flushed with (ms := expand_all h); auto using qscript_expand_all. }
  split; [exact Hp|].
  pose proof (run_all false tr (init c0 t0)) as Hall. fold s in Hall.
  rewrite Hp, app_nil_r in Hall. cbn [init committed pending app] in Hall.
  unfold recover. rewrite Hall. unfold twrites. rewrite Htr. reflexivity.
Qed.

(* a crash inside a call [o], after any [k] of its micro-steps: every write of the completed
   calls is there, followed by a prefix of the writes of the call in flight *)
Lemma eager_in_flight : forall c0 t0 h o tr tro k,
  map fst tr = expand_all h -> map fst tro = expand o ->
  exists p, prefix p (writes_of (expand o)) /\
    recover (run false (init c0 t0) (tr ++ firstn k tro)) = c0 ++ writes_of (expand_all h) ++ p.
Proof.
  intros c0 t0 h o tr tro k Htr Htro.
  destruct (eager_completed_durable c0 t0 h tr Htr) as [Hp Hr]. cbv zeta in Hp, Hr.
  rewrite run_app. set (s1 := run false (init c0 t0) tr) in *.
  destruct (run_committed_ext false (firstn k tro) s1) as [x Hx].
  pose proof (run_all false (firstn k tro) s1) as Hall.
  rewrite Hx, Hp in Hall. cbn [app] in Hall. rewrite <- app_assoc in Hall.
  apply app_inv_head in Hall.
  exists x. split.
  - apply prefix_trans with (twrites (firstn k tro)).
    + exists (pending (run false s1 (firstn k tro))). exact Hall.
    + rewrite <- Htro. apply firstn_twrites_prefix.
  - unfold recover in *. rewrite Hx, Hr, <- app_assoc. reflexivity.
Qed.

(* the options decide: a store opened with enable_lazy_commit=False is the eager machine,
   any other way of opening it gives the lazy one *)
Lemma opened_eager : forall o c0 t0 tr,
  asked_eager o -> ds_run o c0 t0 tr = run false (init c0 t0) tr.
Proof. intros o c0 t0 tr H. unfold ds_run, ds_open, ds_forward, asked_eager in *. cbn [fst snd]. rewrite H. reflexivity. Qed.

Lemma opened_lazy : forall o c0 t0 tr,
  opt_lazy o <> Some false -> ds_run o c0 t0 tr = run true (init c0 t0) tr.
Proof.
  intros o c0 t0 tr H. unfold ds_run, ds_open, ds_forward. cbn [fst snd].
  destruct (opt_lazy o) as [[|]|]; [reflexivity|congruence|reflexivity].
Qed.
