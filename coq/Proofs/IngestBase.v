(* C07 — generic part: list/sort toolkit, and the theorem about the ingestion loop over ANY
   back end whose limit-1 read, replace_last and insert_one behave as the three lemmas
   H_read / H_replace / H_insert say on a bucket whose events have strictly increasing
   timestamps in storage order.  The Section hypotheses are discharged for each back end
   model in IngestMem.v / IngestSqlite.v / IngestPeewee.v (nothing stays assumed). *)
From Coq Require Import Permutation Sorted ZifyBool.
From AwVerif Require Import Base.Prelude Model.Heartbeat Model.StoreBase Model.Ingest
  Proofs.HeartbeatProofs.

Ltac splits := repeat match goal with |- _ /\ _ => split end.

(* ---- lists ---- *)

Lemma list_snoc_cases : forall {A} (l : list A), l = [] \/ exists old x, l = old ++ [x].
Proof.
  intros A l. induction l as [|x old _] using rev_ind; [left; reflexivity|].
  right. exists old, x. reflexivity.
Qed.

Lemma firstn1_rev_snoc : forall {A} (l : list A) x, firstn 1 (rev (l ++ [x])) = [x].
Proof. intros. rewrite rev_app_distr. reflexivity. Qed.

Lemma last_opt_snoc : forall {A} (l : list A) x, last_opt (l ++ [x]) = Some x.
Proof.
  intros A l x. induction l as [|a t IH]; [reflexivity|].
  cbn [app last_opt]. destruct (t ++ [x]) eqn:E; [destruct t; discriminate|]. exact IH.
Qed.

Lemma NoDup_snoc_notin : forall {A} (l : list A) x, NoDup (l ++ [x]) -> ~ In x l.
Proof.
  intros A l x H Hin. apply NoDup_remove_2 in H. apply H. rewrite app_nil_r. exact Hin.
Qed.

Lemma NoDup_snoc : forall {A} (l : list A) x, NoDup l -> ~ In x l -> NoDup (l ++ [x]).
Proof.
  intros A l x Hn Hx. induction l as [|a t IH]; cbn [app].
  - constructor; [intros []|constructor].
  - inversion Hn as [|? ? Ha Ht]; subst. constructor.
    + intros Hin. apply in_app_or in Hin. destruct Hin as [Hin|[<-|[]]]; [tauto|].
      apply Hx. left. reflexivity.
    + apply IH; [exact Ht|]. intros Hin. apply Hx. right. exact Hin.
Qed.

Lemma NoDup_map_inj : forall {A B} (f : A -> B) l a b,
  NoDup (map f l) -> In a l -> In b l -> f a = f b -> a = b.
Proof.
  intros A B f l. induction l as [|x t IH]; intros a b Hn Ha Hb Hf; [destruct Ha|].
  cbn [map] in Hn. inversion Hn as [|? ? Hx Ht]; subst.
  destruct Ha as [<-|Ha], Hb as [<-|Hb].
  - reflexivity.
  - exfalso. apply Hx. rewrite Hf. apply in_map. exact Hb.
  - exfalso. apply Hx. rewrite <- Hf. apply in_map. exact Ha.
  - apply IH; assumption.
Qed.

Lemma filter_and_same : forall {A} (p q : A -> bool) l,
  (forall x, In x l -> p x = true -> q x = true) ->
  filter (fun x => p x && q x) l = filter p l.
Proof.
  intros A p q l H. induction l as [|a t IH]; [reflexivity|].
  cbn [filter]. rewrite IH by (intros; apply H; [right|]; assumption).
  destruct (p a) eqn:E; [|reflexivity]. rewrite (H a (or_introl eq_refl) E). reflexivity.
Qed.

Lemma filter_map_comm : forall {A} (p : A -> bool) (f : A -> A) l,
  (forall x, p (f x) = p x) -> filter p (map f l) = map f (filter p l).
Proof.
  intros A p f l H. induction l as [|a t IH]; [reflexivity|].
  cbn [map filter]. rewrite H, IH. destruct (p a); reflexivity.
Qed.

Lemma map_id_on : forall {A} (f : A -> A) l, (forall x, In x l -> f x = x) -> map f l = l.
Proof.
  intros A f l H. induction l as [|a t IH]; [reflexivity|].
  cbn [map]. rewrite H by (left; reflexivity). rewrite IH; [reflexivity|].
  intros; apply H; right; assumption.
Qed.

Lemma filter_map_comm_in : forall {A} (p : A -> bool) (f : A -> A) l,
  (forall x, In x l -> p (f x) = p x) -> filter p (map f l) = map f (filter p l).
Proof.
  intros A p f l H. induction l as [|a t IH]; [reflexivity|].
  cbn [map filter]. rewrite H by (left; reflexivity). rewrite IH by (intros; apply H; right; assumption).
  destruct (p a); reflexivity.
Qed.

Lemma list_max_ge : forall t x y, In y (x :: t) -> y <= list_max x t.
Proof.
  intros t. induction t as [|a t IH]; intros x y Hy; cbn [list_max fold_right].
  - destruct Hy as [Hy|[]]. lia.
  - fold (list_max x t). destruct Hy as [Hy|[Hy|Hy]].
    + pose proof (IH x x (or_introl eq_refl)). lia.
    + lia.
    + pose proof (IH x y (or_intror Hy)). lia.
Qed.

(* ---- StronglySorted ---- *)

Lemma SS_app : forall {A} (R : A -> A -> Prop) l1 l2,
  StronglySorted R (l1 ++ l2) <->
  StronglySorted R l1 /\ StronglySorted R l2 /\ (forall a b, In a l1 -> In b l2 -> R a b).
Proof.
  intros A R l1 l2. induction l1 as [|x t IH]; cbn [app].
  - split; [intros H; repeat split; [constructor|exact H|intros a b []]|tauto].
  - split.
    + intros H. inversion H as [|? ? Hs Hf]; subst. apply IH in Hs. destruct Hs as (H1 & H2 & H3).
      rewrite Forall_forall in Hf. repeat split.
      * constructor; [exact H1|]. apply Forall_forall. intros y Hy. apply Hf. apply in_or_app. tauto.
      * exact H2.
      * intros a b [<-|Ha] Hb; [apply Hf; apply in_or_app; tauto|apply H3; assumption].
    + intros (H1 & H2 & H3). inversion H1 as [|? ? Hs Hf]; subst. constructor.
      * apply IH. repeat split; [exact Hs|exact H2|]. intros a b Ha Hb. apply H3; [right|]; assumption.
      * rewrite Forall_forall in *. intros y Hy. apply in_app_or in Hy. destruct Hy as [Hy|Hy].
        -- apply Hf. exact Hy.
        -- apply H3; [left; reflexivity|exact Hy].
Qed.

Lemma SS_rev : forall {A} (R : A -> A -> Prop) l,
  StronglySorted R l -> StronglySorted (fun a b => R b a) (rev l).
Proof.
  intros A R l H. induction H as [|x t Hs IH Hf]; cbn [rev]; [constructor|].
  apply SS_app. repeat split; [exact IH|repeat constructor|].
  intros a b Ha [<-|[]]. rewrite Forall_forall in Hf. apply Hf. apply in_rev. exact Ha.
Qed.

Lemma SS_map : forall {A B} (f : A -> B) (R : B -> B -> Prop) l,
  StronglySorted R (map f l) <-> StronglySorted (fun a b => R (f a) (f b)) l.
Proof.
  intros A B f R l. induction l as [|x t IH]; cbn [map].
  - split; constructor.
  - split; intros H; inversion H as [|? ? Hs Hf]; subst; constructor; try (apply IH; exact Hs).
    + rewrite Forall_forall in *. intros y Hy. apply Hf. apply in_map. exact Hy.
    + rewrite Forall_forall in *. intros y Hy. apply in_map_iff in Hy. destruct Hy as (z & <- & Hz).
      apply Hf. exact Hz.
Qed.

Lemma SS_filter : forall {A} (R : A -> A -> Prop) (p : A -> bool) l,
  StronglySorted R l -> StronglySorted R (filter p l).
Proof.
  intros A R p l H. induction H as [|x t Hs IH Hf]; cbn [filter]; [constructor|].
  destruct (p x); [|exact IH]. constructor; [exact IH|].
  rewrite Forall_forall in *. intros y Hy. apply filter_In in Hy. apply Hf. tauto.
Qed.

(* ---- the stable insertion sort of Prelude.v ---- *)

Section SortFacts.
  Context {A : Type} (key : A -> Z).

  Definition le_key (a b : A) : Prop := key a <= key b.
  Definition lt_key (a b : A) : Prop := key a < key b.

  Lemma insert_sorted_perm : forall x l, Permutation (insert_sorted key x l) (x :: l).
  Proof.
    intros x l. induction l as [|y t IH]; cbn [insert_sorted]; [apply Permutation_refl|].
    destruct (key y <? key x).
    - eapply perm_trans; [apply perm_skip; exact IH|apply perm_swap].
    - apply Permutation_refl.
  Qed.

  Lemma sort_by_perm : forall l, Permutation (sort_by key l) l.
  Proof.
    intros l. induction l as [|x t IH]; [apply perm_nil|].
    unfold sort_by in *. cbn [fold_right].
    eapply perm_trans; [apply insert_sorted_perm|apply perm_skip; exact IH].
  Qed.

  Lemma insert_sorted_sorted : forall x l,
    StronglySorted le_key l -> StronglySorted le_key (insert_sorted key x l).
  Proof.
    intros x l H. induction H as [|y t Hs IH Hf]; cbn [insert_sorted].
    - repeat constructor.
    - destruct (key y <? key x) eqn:E.
      + constructor; [exact IH|]. rewrite Forall_forall in *. intros z Hz.
        apply (Permutation_in _ (insert_sorted_perm x t)) in Hz. destruct Hz as [<-|Hz].
        * unfold le_key. lia.
        * apply Hf. exact Hz.
      + constructor; [constructor; assumption|]. constructor; [unfold le_key; lia|].
        rewrite Forall_forall in *. intros z Hz. specialize (Hf z Hz). unfold le_key in *. lia.
  Qed.

  Lemma sort_by_sorted : forall l, StronglySorted le_key (sort_by key l).
  Proof.
    intros l. induction l as [|x t IH]; [constructor|].
    unfold sort_by in *. cbn [fold_right]. apply insert_sorted_sorted. exact IH.
  Qed.

  (* a strictly sorted list is the only sorted arrangement of its elements *)
  Lemma sorted_perm_unique : forall l1 l2,
    StronglySorted lt_key l1 -> StronglySorted le_key l2 -> Permutation l1 l2 -> l1 = l2.
  Proof.
    intros l1. induction l1 as [|a t1 IH]; intros l2 H1 H2 Hp.
    - apply Permutation_nil in Hp. congruence.
    - destruct l2 as [|b t2]; [apply Permutation_sym, Permutation_nil in Hp; discriminate|].
      inversion H1 as [|? ? Hs1 Hf1]; subst. inversion H2 as [|? ? Hs2 Hf2]; subst.
      rewrite Forall_forall in Hf1, Hf2.
      assert (Hab : a = b).
      { assert (Ha : In a (b :: t2)) by (eapply Permutation_in; [exact Hp|left; reflexivity]).
        assert (Hb : In b (a :: t1)) by (eapply Permutation_in; [apply Permutation_sym; exact Hp|left; reflexivity]).
        destruct Ha as [Ha|Ha]; [congruence|]. destruct Hb as [Hb|Hb]; [congruence|].
        specialize (Hf1 b Hb). specialize (Hf2 a Ha). unfold lt_key, le_key in *. lia. }
      subst b. f_equal. apply IH; [exact Hs1|exact Hs2|]. eapply Permutation_cons_inv. exact Hp.
  Qed.

  Lemma sort_by_of_perm : forall l l',
    StronglySorted lt_key l -> Permutation l' l -> sort_by key l' = l.
  Proof.
    intros l l' Hs Hp. symmetry. apply sorted_perm_unique; [exact Hs|apply sort_by_sorted|].
    eapply perm_trans; [apply Permutation_sym; exact Hp|apply Permutation_sym, sort_by_perm].
  Qed.
End SortFacts.

(* ORDER BY g DESC of (any arrangement of) a list that is strictly increasing in g = its reverse *)
Lemma sort_desc_of_perm : forall {A} (g : A -> Z) l l',
  StronglySorted (fun a b => g a < g b) l -> Permutation l' l ->
  sort_by (fun r => - g r) l' = rev l.
Proof.
  intros A g l l' Hs Hp. apply sort_by_of_perm.
  - apply SS_rev in Hs. unfold lt_key. eapply StronglySorted_ind with (P := fun l => StronglySorted _ l);
      [constructor| |exact Hs].
    intros a t Ht IH Hf. constructor; [exact IH|]. rewrite Forall_forall in *. intros y Hy.
    specialize (Hf y Hy). lia.
  - eapply perm_trans; [exact Hp|apply Permutation_rev].
Qed.

(* ---- events ---- *)

Definition incr_ts (l : list event) : Prop := StronglySorted (fun a b => ts a < ts b) l.
Definition ids_ok (es : list event) : Prop :=
  NoDup (map eid es) /\ Forall (fun e => eid e <> None) es.

Lemma strip_set_eid : forall e i, eid e = None -> strip_id (set_eid e i) = e.
Proof. intros [i0 t d x] i H. cbn in H. subst. reflexivity. Qed.

Lemma set_eid_same : forall e, set_eid e (eid e) = e.
Proof. intros [i t d x]. reflexivity. Qed.

Lemma merge_strip : forall l h p,
  heartbeat_merge (strip_id l) h p = option_map strip_id (heartbeat_merge l h p).
Proof.
  intros l h p. unfold heartbeat_merge, strip_id, set_eid, set_dur. cbn [eid ts dur data].
  split_ifs; reflexivity.
Qed.

Lemma merge_keeps : forall l h p m,
  heartbeat_merge l h p = Some m -> eid m = eid l /\ ts m = ts l /\ data m = data l /\ dur l <= dur m.
Proof.
  intros l h p m H. destruct (merge_hull _ _ _ _ H) as (H1 & H2 & H3 & _ & H5). tauto.
Qed.

(* ---- what one iteration of the loop does to the bucket's event list ---- *)

Inductive step_shape (p : Z) (hb : event) (es es' : list event) : Prop :=
  | shape_first : forall i,
      es = [] -> es' = [set_eid hb (Some i)] -> step_shape p hb es es'
  | shape_insert : forall old l i,
      es = old ++ [l] -> heartbeat_merge l hb p = None ->
      ~ In (Some i) (map eid es) -> es' = es ++ [set_eid hb (Some i)] -> step_shape p hb es es'
  | shape_merge : forall old l m,
      es = old ++ [l] -> heartbeat_merge l hb p = Some m -> es' = old ++ [m] -> step_shape p hb es es'.

(* "changes at most the newest event, removes none": the reading used by C07_earlier_untouched *)
Lemma step_shape_untouched : forall p hb es es',
  step_shape p hb es es' ->
  (exists x, es' = es ++ [x] /\ ts x = ts hb /\ dur x = dur hb /\ data x = data hb) \/
  (exists old l x, es = old ++ [l] /\ es' = old ++ [x] /\
                   eid x = eid l /\ ts x = ts l /\ data x = data l /\ dur l <= dur x).
Proof.
  intros p hb es es' H. destruct H as [i -> ->|old l i -> Hm Hi ->|old l m -> Hm ->].
  - left. exists (set_eid hb (Some i)). repeat split.
  - left. exists (set_eid hb (Some i)). repeat split.
  - right. exists old, l, m. destruct (merge_keeps _ _ _ _ Hm) as (H1 & H2 & H3 & H4). repeat split; assumption.
Qed.

Lemma step_shape_fold : forall p hb es es',
  eid hb = None -> step_shape p hb es es' ->
  map strip_id es' = rev (fold_step p (rev (map strip_id es)) hb).
Proof.
  intros p hb es es' Hid H. destruct H as [i -> ->|old l i -> Hm Hi ->|old l m -> Hm ->].
  - cbn. rewrite strip_set_eid by exact Hid. reflexivity.
  - rewrite !map_app. cbn [map]. rewrite strip_set_eid by exact Hid.
    rewrite rev_app_distr. cbn [rev app fold_step]. rewrite merge_strip, Hm. cbn [option_map rev].
    rewrite rev_involutive, <- app_assoc. reflexivity.
  - rewrite !map_app. cbn [map]. rewrite rev_app_distr. cbn [rev app fold_step].
    rewrite merge_strip, Hm. cbn [option_map rev]. rewrite rev_involutive. reflexivity.
Qed.

Lemma step_shape_incr : forall p hb es es',
  step_shape p hb es es' -> incr_ts es -> Forall (fun e => ts e < ts hb) es -> incr_ts es'.
Proof.
  intros p hb es es' H Hs Hlt. unfold incr_ts in *.
  destruct H as [i -> ->|old l i -> Hm Hi ->|old l m -> Hm ->].
  - repeat constructor.
  - apply SS_app. repeat split; [exact Hs|repeat constructor|].
    intros a b Ha [<-|[]]. rewrite Forall_forall in Hlt. cbn. apply Hlt. exact Ha.
  - apply SS_app in Hs. destruct Hs as (H1 & H2 & H3). apply SS_app. repeat split; [exact H1|repeat constructor|].
    intros a b Ha [<-|[]]. destruct (merge_keeps _ _ _ _ Hm) as (_ & -> & _). apply H3; [exact Ha|left; reflexivity].
Qed.

Lemma step_shape_bound : forall p hb es es' (T : Z),
  step_shape p hb es es' -> Forall (fun e => ts e < T) es -> ts hb < T -> Forall (fun e => ts e < T) es'.
Proof.
  intros p hb es es' T H Hb Hh. destruct H as [i -> ->|old l i -> Hm Hi ->|old l m -> Hm ->].
  - repeat constructor. exact Hh.
  - apply Forall_app. split; [exact Hb|repeat constructor; exact Hh].
  - apply Forall_app in Hb. destruct Hb as [Hb1 Hb2]. apply Forall_app. split; [exact Hb1|].
    inversion Hb2; subst. destruct (merge_keeps _ _ _ _ Hm) as (_ & E & _). repeat constructor. rewrite E. assumption.
Qed.

Lemma step_shape_ids : forall p hb es es', step_shape p hb es es' -> ids_ok es -> ids_ok es'.
Proof.
  intros p hb es es' H [Hn Hs]. unfold ids_ok.
  destruct H as [i -> ->|old l i -> Hm Hi ->|old l m -> Hm ->].
  - split; [repeat constructor; intros []|repeat constructor; discriminate].
  - rewrite map_app. cbn [map]. split.
    + apply NoDup_snoc; [exact Hn|exact Hi].
    + apply Forall_app. split; [exact Hs|repeat constructor; discriminate].
  - destruct (merge_keeps _ _ _ _ Hm) as (E & _). rewrite map_app in *. cbn [map] in *. rewrite E. split; [exact Hn|].
    apply Forall_app in Hs. destruct Hs as [Hs1 Hs2]. apply Forall_app. split; [exact Hs1|].
    inversion Hs2; subst. repeat constructor. rewrite E. assumption.
Qed.

(* ---- the loop over an abstract back end ---- *)

Section Generic.
  Context {S : Type} (step : S -> op -> S * res out)
          (view : S -> Z -> option (meta * list event))
          (inv : S -> Prop)               (* representation invariant of the back end *)
          (rd : event -> Prop).           (* "an unwindowed read returns this event" *)

  Definition frame (st st' : S) (b : Z) : Prop := forall b', b' <> b -> view st' b' = view st b'.

  Hypothesis rd_eid : forall e i, rd e -> rd (set_eid e i).
  Hypothesis rd_merge : forall l h p m, rd l -> heartbeat_merge l h p = Some m -> rd m.

  Hypothesis H_read : forall st b m es,
    inv st -> view st b = Some (m, es) -> incr_ts es -> Forall rd es ->
    step st (GetEvents b 1 None None) = (st, Ok (OEvents (firstn 1 (rev es)))).

  Hypothesis H_replace : forall st b m es l i e,
    inv st -> view st b = Some (m, es ++ [l]) -> incr_ts (es ++ [l]) -> ids_ok (es ++ [l]) ->
    eid l = Some i ->
    exists st' o, step st (ReplaceLast b e) = (st', Ok o) /\
                  view st' b = Some (m, es ++ [set_eid e (Some i)]) /\ frame st st' b /\ inv st'.

  Hypothesis H_insert : forall st b m es e,
    inv st -> view st b = Some (m, es) -> eid e = None ->
    exists st' o i, step st (InsertOne b e) = (st', Ok o) /\
                    view st' b = Some (m, es ++ [set_eid e (Some i)]) /\
                    ~ In (Some i) (map eid es) /\ frame st st' b /\ inv st'.

  Lemma ingest_step_ok : forall st b p hb m es,
    inv st -> view st b = Some (m, es) -> incr_ts es -> ids_ok es -> Forall rd es ->
    eid hb = None ->
    exists st' o es',
      ingest_step step st b p hb = (st', Ok o) /\ view st' b = Some (m, es') /\
      frame st st' b /\ inv st' /\ step_shape p hb es es'.
  Proof.
    intros st b p hb m es Hinv Hv Hs Hids Hrd Hid.
    unfold ingest_step. rewrite (H_read st b m es Hinv Hv Hs Hrd).
    destruct (list_snoc_cases es) as [->|(old & l & ->)].
    - cbn [rev firstn].
      destruct (H_insert st b m [] hb Hinv Hv Hid) as (st' & o & i & Hst & Hv' & Hi & Hf & Hinv').
      exists st', o, [set_eid hb (Some i)]. splits; try assumption.
      eapply shape_first; reflexivity.
    - rewrite firstn1_rev_snoc. destruct (heartbeat_merge l hb p) as [mm|] eqn:Hm.
      + pose proof Hids as Hids0. destruct Hids as [Hn Hsome].
        assert (Hl : exists i, eid l = Some i).
        { rewrite Forall_forall in Hsome.
          assert (Hin : In l (old ++ [l])) by (apply in_or_app; right; left; reflexivity).
          specialize (Hsome l Hin). destruct (eid l) as [i|]; [eauto|congruence]. }
        destruct Hl as [i Hl].
        destruct (H_replace st b m old l i mm Hinv Hv Hs Hids0 Hl) as (st' & o & Hst & Hv' & Hf & Hinv').
        exists st', o, (old ++ [mm]). splits; try assumption.
        * rewrite Hv'. destruct (merge_keeps _ _ _ _ Hm) as (E & _). rewrite <- Hl, <- E, set_eid_same. reflexivity.
        * eapply shape_merge; [reflexivity|exact Hm|reflexivity].
      + destruct (H_insert st b m (old ++ [l]) hb Hinv Hv Hid) as (st' & o & i & Hst & Hv' & Hi & Hf & Hinv').
        exists st', o, ((old ++ [l]) ++ [set_eid hb (Some i)]). splits; try assumption.
        eapply shape_insert; [reflexivity|exact Hm|exact Hi|reflexivity].
  Qed.

  Lemma step_shape_rd : forall p hb es es',
    step_shape p hb es es' -> Forall rd es -> rd hb -> Forall rd es'.
  Proof.
    intros p hb es es' H Hr Hh. destruct H as [i -> ->|old l i -> Hm Hi ->|old l m -> Hm ->].
    - repeat constructor. apply rd_eid. exact Hh.
    - apply Forall_app. split; [exact Hr|repeat constructor; apply rd_eid; exact Hh].
    - apply Forall_app in Hr. destruct Hr as [Hr1 Hr2]. apply Forall_app. split; [exact Hr1|].
      inversion Hr2; subst. repeat constructor. eapply rd_merge; eassumption.
  Qed.

  (* the whole stream, from a bucket already in the invariant state *)
  Lemma ingest_stream_ok : forall b p m stream st es,
    inv st -> view st b = Some (m, es) -> incr_ts es -> ids_ok es -> Forall rd es ->
    Forall (fun h => eid h = None /\ rd h) stream -> incr_ts stream ->
    Forall (fun h => Forall (fun e => ts e < ts h) es) stream ->
    exists st' o es',
      ingest_stream step st b p stream = (st', Ok o) /\ view st' b = Some (m, es') /\
      frame st st' b /\ inv st' /\
      map strip_id es' = rev (fold_left (fold_step p) stream (rev (map strip_id es))) /\
      incr_ts es' /\ ids_ok es' /\ Forall rd es'.
  Proof.
    intros b p m stream. induction stream as [|hb rest IH]; intros st es Hinv Hv Hs Hids Hrd Hst Hinc Hlt.
    - exists st, ONone, es. cbn [ingest_stream fold_left]. rewrite rev_involutive.
      splits; try assumption; try reflexivity. intros b' _. reflexivity.
    - inversion Hst as [|? ? [Hid Hrh] Hst']; subst. inversion Hlt as [|? ? Hlt1 Hlt']; subst.
      inversion Hinc as [|? ? Hinc' Hhb]; subst.
      destruct (ingest_step_ok st b p hb m es Hinv Hv Hs Hids Hrd Hid)
        as (st1 & o1 & es1 & Hstep & Hv1 & Hf1 & Hinv1 & Hshape).
      cbn [ingest_stream]. rewrite Hstep.
      assert (Hlt1' : Forall (fun h => Forall (fun e => ts e < ts h) es1) rest).
      { rewrite Forall_forall in *. intros h Hh.
        eapply step_shape_bound; [exact Hshape|apply Hlt'; exact Hh|apply Hhb; exact Hh]. }
      destruct (IH st1 es1 Hinv1 Hv1 (step_shape_incr _ _ _ _ Hshape Hs Hlt1)
                   (step_shape_ids _ _ _ _ Hshape Hids) (step_shape_rd _ _ _ _ Hshape Hrd Hrh)
                   Hst' Hinc' Hlt1')
        as (st' & o & es' & Hrun & Hv' & Hf' & Hinv' & Hfold & Hs' & Hids' & Hrd').
      exists st', o, es'. splits; try assumption.
      + intros b' Hb. rewrite (Hf' b' Hb). apply Hf1. exact Hb.
      + rewrite Hfold. cbn [fold_left]. rewrite (step_shape_fold _ _ _ _ Hid Hshape), rev_involutive. reflexivity.
  Qed.

  (* C07, generic form: from an empty bucket the loop leaves heartbeat_reduce of the stream *)
  Theorem ingest_eq_reduce : forall b p m stream st,
    inv st -> view st b = Some (m, []) ->
    Forall (fun h => eid h = None /\ rd h) stream -> incr_ts stream ->
    exists st' o es',
      ingest_stream step st b p stream = (st', Ok o) /\ view st' b = Some (m, es') /\
      map strip_id es' = heartbeat_reduce stream p /\
      (forall b', b' <> b -> view st' b' = view st b') /\ inv st' /\
      incr_ts es' /\ ids_ok es'.
  Proof.
    intros b p m stream st Hinv Hv Hst Hinc.
    destruct (ingest_stream_ok b p m stream st [] Hinv Hv) as (st' & o & es' & H1 & H2 & H3 & H4 & H5 & H6 & H7 & _);
      try assumption; try (repeat constructor).
    - apply Forall_forall. intros; constructor.
    - exists st', o, es'. splits; try assumption; try apply H7.
      rewrite H5. cbn [map rev]. symmetry. apply reduce_is_fold.
  Qed.
End Generic.
