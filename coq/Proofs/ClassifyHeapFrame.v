(* FRAME and SHARING of the heap-level C19 transforms (Model/ClassifyHeap.v).
   [rewrites S N owned h h']: h' is h after allocations of list / dict objects (whose members
   satisfy N) and writes into dict objects at locations in S that change only owned keys
   and add only members satisfying N that are objects without members of their own.
   Consequences: every cell outside S keeps its content, every Event keeps its
   id/timestamp/duration/data reference, a dict in S reads the same under every key that is
   not owned; closedness and acyclicity are preserved; confinement (Props/C12). *)
From AwVerif Require Import Base.Prelude Model.MemHeap Model.TransformHeap Model.DictHeap
  Model.ClassifyBase Model.Classify Model.ClassifyHeap
  Proofs.MemHeapBase Proofs.MemHeapCopy Proofs.MemHeapFrame Proofs.TransformHeapCopy
  Proofs.TransformHeapBase Proofs.DictHeapBase.
From Coq Require Import Arith Relations.
Local Open Scope nat_scope.
Local Notation lookup := MemHeap.lookup.

Inductive rewrites (S N : loc -> Prop) (owned : Z -> Prop) : heap -> heap -> Prop :=
  | rw_refl : forall h, rewrites S N owned h h
  | rw_alloc : forall h p kids h'',
      (forall k, In k kids -> k < length h /\ N k) ->
      rewrites S N owned (h ++ [Cell (TNode p) kids]) h'' -> rewrites S N owned h h''
  | rw_write : forall h l z z' h'',
      S l -> rd_dict h l = Ok z ->
      (forall k, ~ owned k -> zget k z' = zget k z) ->
      (forall k, In k (unzip_k z') ->
                 In k (unzip_k z) \/ (N k /\ k <> l /\ exists q, lookup h k = Some (Cell (TNode q) []))) ->
      rewrites S N owned (update h l (dict_cell z')) h'' -> rewrites S N owned h h''.

Lemma rewrites_trans : forall S N owned a b c,
  rewrites S N owned a b -> rewrites S N owned b c -> rewrites S N owned a c.
Proof.
  intros S N owned a b c R. induction R; intro R2; auto.
  - eapply rw_alloc; eauto.
  - eapply rw_write; eauto.
Qed.

Lemma rewrites_length : forall S N owned h h', rewrites S N owned h h' -> length h <= length h'.
Proof.
  intros S N owned h h' R. induction R; auto.
  - rewrite app_length in IHR; cbn in IHR. lia.
  - rewrite update_length in IHR. auto.
Qed.

(* every cell outside S keeps its content *)
Lemma rewrites_other : forall S N owned h h', rewrites S N owned h h' ->
  forall l, l < length h -> ~ S l -> lookup h' l = lookup h l.
Proof.
  intros S N owned h h' R. induction R; intros m B NS; auto.
  - rewrite IHR; auto; [now apply lookup_app_old|rewrite app_length; lia].
  - rewrite IHR; auto; [|now rewrite update_length].
    apply lookup_update_other. intros ->. auto.
Qed.

(* an Event is never written, whether its location is in S or not; conversely whatever is
   an Event afterwards was that Event before *)
Lemma rewrites_event : forall S N owned h h', rewrites S N owned h h' ->
  forall l i t d ks, lookup h l = Some (Cell (TEv i t d) ks) <-> lookup h' l = Some (Cell (TEv i t d) ks).
Proof.
  intros S N owned h h' R. induction R; intros m i t d ks; [tauto| |].
  - rewrite <- IHR. split; intro L; [now apply lookup_app_some|].
    apply lookup_alloc_inv in L. destruct L as [[_ L]|[_ L]]; [auto|discriminate].
  - rewrite <- IHR. destruct (rd_dict_inv _ _ _ H0) as (p & kk & Ll & _).
    destruct (Nat.eq_dec m l) as [->|Ne].
    + rewrite lookup_update_same by (eapply lookup_lt; eauto). rewrite Ll. unfold dict_cell.
      split; intro; discriminate.
    + now rewrite lookup_update_other.
Qed.

(* a dict reads the same under every key that is not owned *)
Lemma rewrites_dict : forall S N owned h h', rewrites S N owned h h' ->
  forall l z, rd_dict h l = Ok z ->
  exists z', rd_dict h' l = Ok z' /\ forall k, ~ owned k -> zget k z' = zget k z.
Proof.
  intros S N owned h h' R. induction R; intros m zm RD.
  - exists zm. auto.
  - apply IHR. rewrite <- RD. apply rd_dict_agree.
    destruct (rd_dict_inv _ _ _ RD) as (q & kk & L & _). rewrite L. now apply lookup_app_some.
  - destruct (Nat.eq_dec m l) as [->|Ne].
    + rewrite H0 in RD. inversion RD; subst zm.
      destruct (IHR l z') as (z2 & R2 & K2).
      { apply rd_dict_cell. apply lookup_update_same.
        destruct (rd_dict_inv _ _ _ H0) as (q & kk & L & _). eapply lookup_lt; eauto. }
      exists z2. split; auto. intros k NO. rewrite K2, H1; auto.
    + apply IHR. rewrite <- RD. apply rd_dict_agree. now apply lookup_update_other.
Qed.

(* closedness and acyclicity *)
Lemma rewrites_wf : forall S N owned h h', rewrites S N owned h h' -> wf h -> wf h'.
Proof.
  intros S N owned h h' R. induction R; intro W; auto.
  - apply IHR. apply wf_alloc; auto. cbn. intros k I. apply H; auto.
  - apply IHR. destruct (rd_dict_inv _ _ _ H0) as (q & kk & L & _ & _ & UK).
    apply wf_update; auto; [eapply lookup_lt; eauto|].
    unfold dict_cell. cbn [children]. intros k I. destruct (H2 k I) as [Old|(_ & Nl & q' & Lk)].
    + rewrite UK in Old. destruct W as [C A]. split; [eapply C; eauto|].
      eapply child_not_back; eauto.
    + split; [eapply lookup_lt; eauto|]. intro RT. apply Nl. symmetry. eapply leaf_rt; eauto.
Qed.

(* confinement: S and N within what the arguments reach (or new) *)
Lemma confined_refl : forall h A, confined h A h.
Proof.
  intros h A. constructor; auto. intros l c k L [G|Ne]; [apply lookup_lt in L; lia|congruence].
Qed.

Lemma rewrites_confined : forall (S N : loc -> Prop) owned h0 A,
  (forall l, S l -> reach h0 A l) -> (forall k, N k -> length h0 <= k \/ reach h0 A k) ->
  forall h h', rewrites S N owned h h' -> confined h0 A h -> confined h0 A h'.
Proof.
  intros S N owned h0 A HS HN h h' R. induction R; intro CF; auto.
  - apply IHR. destruct CF as [G F P]. constructor.
    + rewrite app_length; cbn; lia.
    + intros m B NR. rewrite lookup_app_old by lia. auto.
    + intros m c k Lm D I. apply lookup_alloc_inv in Lm. destruct Lm as [[Y Lm]|[-> ->]].
      * eapply P; eauto.
      * cbn in I. apply HN. apply H; auto.
  - apply IHR. destruct (rd_dict_inv _ _ _ H0) as (q & kk & Ll & _ & _ & UK).
    pose proof (lookup_lt _ _ _ Ll) as Bl.
    destruct CF as [G F P]. constructor.
    + now rewrite update_length.
    + intros m B NR. rewrite lookup_update_other; auto. intros ->. apply NR. auto.
    + intros m c k Lm D I. destruct (Nat.eq_dec m l) as [->|Ne].
      * rewrite lookup_update_same in Lm by auto. inversion Lm; subst c. cbn [children dict_cell] in I.
        destruct (H2 k I) as [Old|(Nk & _)]; [|auto].
        rewrite UK in Old.
        destruct (Nat.lt_ge_cases l (length h0)) as [Y|Y].
        -- destruct (ocell_eq_dec (lookup h0 l) (Some (Cell (TNode q) kk))) as [E|NE].
           ++ right. eapply reach_step; [apply HS; eauto|]. exists (Cell (TNode q) kk). auto.
           ++ apply (P l (Cell (TNode q) kk) k Ll); [right; congruence|exact Old].
        -- apply (P l (Cell (TNode q) kk) k Ll); [left; lia|exact Old].
      * rewrite lookup_update_other in Lm by auto. eapply P; eauto.
Qed.

(* ------------------------------------------------------------------------- *)
(* the loops *)

(* the data dicts of the listed events *)
Definition data_of (h0 : heap) (ks : list loc) (l : loc) : Prop :=
  exists e i t d, In e ks /\ lookup h0 e = Some (Cell (TEv i t d) [l]).

Section Loop.
  Variables (S N : loc -> Prop) (owned : Z -> Prop) (f : heap -> loc -> res heap) (h0 : heap) (ks : list loc).
  Hypothesis step : forall h e h', In e ks -> rewrites S N owned h0 h -> f h e = Ok h' -> rewrites S N owned h h'.

  Lemma each_rewrites : forall evs h, incl evs ks -> rewrites S N owned h0 h ->
    rewrites S N owned h0 (fst (each_h f h evs)).
  Proof.
    induction evs as [|e evs IH]; cbn [each_h]; intros h I R; auto.
    destruct (f h e) as [h'| |] eqn:F; cbn [fst]; auto.
    apply IH; [intros x Ix; apply I; right; auto|].
    eapply rewrites_trans; [exact R|]. eapply step; eauto. apply I. left; auto.
  Qed.
End Loop.

(* the data dict of a listed event, read in the current heap, is in S *)
Lemma data_of_current : forall S N owned h0 h ks e dl, rewrites S N owned h0 h -> In e ks ->
  rd_data h e = Ok dl -> data_of h0 ks dl.
Proof.
  intros S N owned h0 h ks e dl R I RD. destruct (rd_data_inv _ _ _ RD) as (i & t & d & L).
  exists e, i, t, d. split; auto. eapply rewrites_event; eauto.
Qed.

(* ------------------------------------------------------------------------- *)
(* categorize, tag *)

Definition cat_locs {R} (classes : list (loc * R)) (k : loc) : Prop := In k (map fst classes).

Lemma pick_h_in : forall h cats acc c, pick_h h cats acc = Ok c ->
  (c = acc \/ In c cats) /\ exists q, lookup h c = Some (Cell (TNode q) []) \/ (cats = [] /\ c = acc).
Proof.
  intros h. induction cats as [|x t IH]; cbn [pick_h]; intros acc c H.
  - inversion H; subst. split; auto. exists 0%Z. right. auto.
  - destruct (bind_ok _ _ _ H) as (n2 & C2 & H1). destruct (bind_ok _ _ _ H1) as (n1 & C1 & H2).
    destruct (IH _ _ H2) as [[E|I] (q & Q)].
    + split.
      * destruct (Z.of_nat n2 >=? Z.of_nat n1)%Z; subst; [right; left; auto|left; auto].
      * unfold cat_len in C1, C2.
        destruct (Z.of_nat n2 >=? Z.of_nat n1)%Z; subst c.
        -- destruct (lookup h x) as [[[? ? ?|q2] [|? ?]]|]; try discriminate. exists q2. left; auto.
        -- destruct (lookup h acc) as [[[? ? ?|q1] [|? ?]]|]; try discriminate. exists q1. left; auto.
    + split; [right; right; auto|]. destruct Q as [Q|[-> ->]]; [exists q; left; auto|destruct I].
Qed.

Lemma matching_in : forall re {C} (classes : list (C * rule)) d c, In c (matching re classes d) -> In c (map fst classes).
Proof.
  intros re C classes d c I. unfold matching in I. apply in_map_iff in I. destruct I as (x & <- & I).
  apply filter_In in I. apply in_map. apply I.
Qed.

Section Categorize.
  Variable re_search : Z -> bool -> Z -> bool.
  Variables (h0 : heap) (ks : list loc).

  Definition cat_new (classes : list (loc * rule)) (k : loc) : Prop :=
    In k ks \/ cat_locs classes k \/ length h0 <= k.

  Lemma categorize_one_rewrites : forall classes h e h', In e ks ->
    rewrites (data_of h0 ks) (cat_new classes) (eq K_category) h0 h ->
    categorize_one_h re_search classes h e = Ok h' ->
    rewrites (data_of h0 ks) (cat_new classes) (eq K_category) h h'.
  Proof.
    intros classes h e h' Ie R H. unfold categorize_one_h in H.
    destruct (bind_ok _ _ _ H) as (dl & RD & H1). clear H.
    destruct (bind_ok _ _ _ H1) as (z & RZ & H2). clear H1.
    destruct (bind_ok _ _ _ H2) as (d & CD & H3). clear H2. cbn [alloc fst snd] in H3.
    destruct (bind_ok _ _ _ H3) as (c & PK & H4). clear H3.
    destruct (Nat.eqb_spec c dl) as [->|Ne]; try discriminate.
    destruct (wr_dict_inv _ _ _ _ H4) as (p & kk & Ld & ->). clear H4.
    pose proof (rewrites_length _ _ _ _ _ R) as GL.
    destruct (rd_dict_inv _ _ _ RZ) as (p0 & kk0 & Ld0 & _).
    apply rw_alloc with (p := lenc [S_uncategorized]) (kids := []); [intros k []|].
    eapply rw_write; [eapply data_of_current; eauto| | | |apply rw_refl].
    - rewrite <- RZ. apply rd_dict_agree. rewrite Ld0. now apply lookup_app_some.
    - intros k NO. apply zget_zset_other. congruence.
    - intros k I. destruct (unzip_k_zset _ _ _ _ I) as [Old|E]; auto.
      inversion E; subst k. right.
      destruct (pick_h_in _ _ _ _ PK) as [[->|Ic] (q & Q)].
      + split; [right; right; lia|]. split; auto. eexists. apply lookup_alloc_new.
      + split; [right; left; eapply matching_in; eauto|]. split; auto.
        destruct Q as [Q|[Q _]]; [eauto|rewrite Q in Ic; destruct Ic].
  Qed.
End Categorize.

Section Tag.
  Variable re_search : Z -> bool -> Z -> bool.
  Variables (h0 : heap) (ks : list loc).

  Definition tag_new (k : loc) : Prop := In k ks \/ length h0 <= k.

  Lemma tag_one_rewrites : forall classes h e h', In e ks ->
    rewrites (data_of h0 ks) tag_new (eq K_tags) h0 h ->
    tag_one_h re_search classes h e = Ok h' ->
    rewrites (data_of h0 ks) tag_new (eq K_tags) h h'.
  Proof.
    intros classes h e h' Ie R H. unfold tag_one_h in H.
    destruct (bind_ok _ _ _ H) as (dl & RD & H1). clear H.
    destruct (bind_ok _ _ _ H1) as (z & RZ & H2). clear H1.
    destruct (bind_ok _ _ _ H2) as (d & CD & H3). clear H2. cbn [alloc fst snd] in H3.
    destruct (wr_dict_inv _ _ _ _ H3) as (p & kk & Ld & ->). clear H3.
    pose proof (rewrites_length _ _ _ _ _ R) as GL.
    destruct (rd_dict_inv _ _ _ RZ) as (p0 & kk0 & Ld0 & _).
    apply rw_alloc with (p := lenc (matching re_search classes d)) (kids := []); [intros k []|].
    eapply rw_write; [eapply data_of_current; eauto| | | |apply rw_refl].
    - rewrite <- RZ. apply rd_dict_agree. rewrite Ld0. now apply lookup_app_some.
    - intros k NO. apply zget_zset_other. congruence.
    - intros k I. destruct (unzip_k_zset _ _ _ _ I) as [Old|E]; auto.
      inversion E; subst k. right. split; [right; lia|]. split.
      + apply lookup_lt in Ld0. lia.
      + eexists. apply lookup_alloc_new.
  Qed.
End Tag.

(* the list comprehension: a new list of the same objects *)
Lemma rewrites_new_list : forall (S N : loc -> Prop) owned h ks,
  (forall k, In k ks -> k < length h /\ N k) ->
  rewrites S N owned h (fst (new_list h ks)).
Proof. intros. unfold new_list, alloc. cbn [fst]. eapply rw_alloc; eauto. apply rw_refl. Qed.

Lemma each_h_elems_lt : forall f, (forall h e h', f h e = Ok h' -> e < length h /\ length h <= length h') ->
  forall evs h, snd (each_h f h evs) = Ok tt -> forall e, In e evs -> e < length (fst (each_h f h evs)).
Proof.
  intros f Hf. induction evs as [|x evs IH]; cbn [each_h]; intros h OK e I; [destruct I|].
  destruct (f h x) as [h'| |] eqn:F; cbn [snd] in OK; try discriminate.
  destruct (Hf _ _ _ F) as [B G].
  assert (M : forall evs h, length h <= length (fst (each_h f h evs))).
  { clear -Hf. induction evs as [|y evs IH]; cbn [each_h]; intros h; auto.
    destruct (f h y) as [h'| |] eqn:F; cbn [fst]; auto. destruct (Hf _ _ _ F). specialize (IH h'). lia. }
  destruct I as [<-|I]; [|apply IH; auto]. specialize (M evs h'). lia.
Qed.

Theorem categorize_h_frame : forall re h L classes h' r,
  categorize_h re h L classes = (h', r) ->
  (forall p ks, lookup h L <> Some (Cell (TNode p) ks)) /\ h' = h /\ (forall L', r <> Ok L') \/
  exists p ks, lookup h L = Some (Cell (TNode p) ks) /\
    rewrites (data_of h ks) (cat_new h ks classes) (eq K_category) h h' /\
    forall L', r = Ok L' -> length h <= L' /\ lookup h' L' = Some (Cell (TNode EVENT_LIST) ks).
Proof.
  unfold categorize_h. intros re h L classes h' r H.
  destruct (list_elems h L) as [ks| |] eqn:E.
  2,3: left; inversion H; subst; (split; [|split; [auto|intros; discriminate]]);
       intros p ks Lk; unfold list_elems in E; rewrite Lk in E; discriminate.
  right. destruct (list_elems_inv _ _ _ E) as (p & Lk). exists p, ks. split; auto.
  pose proof (each_rewrites (data_of h ks) (cat_new h ks classes) (eq K_category)
                (categorize_one_h re classes) h ks
                (fun h1 e h2 => categorize_one_rewrites re h ks classes h1 e h2) ks h (incl_refl _) (rw_refl _ _ _ _)) as RW.
  destruct (snd (each_h (categorize_one_h re classes) h ks)) as [[]| |] eqn:OK; inversion H; subst; clear H.
  - split.
    + eapply rewrites_trans; [exact RW|]. apply rewrites_new_list. intros k I. split; [|left; auto].
      eapply each_h_elems_lt; eauto. clear. intros h e h' H. unfold categorize_one_h in H.
      destruct (bind_ok _ _ _ H) as (dl & RD & H1). destruct (rd_data_inv _ _ _ RD) as (i & t & d & L).
      destruct (bind_ok _ _ _ H1) as (z & _ & H2). destruct (bind_ok _ _ _ H2) as (d' & _ & H3).
      destruct (bind_ok _ _ _ H3) as (c & _ & H4). destruct (Nat.eqb c dl); try discriminate.
      destruct (wr_dict_inv _ _ _ _ H4) as (? & ? & _ & ->). rewrite update_length. cbn [alloc fst]. rewrite app_length; cbn.
      apply lookup_lt in L. lia.
    + intros L' EQ. inversion EQ; subst. cbn [new_list alloc fst snd]. split; [|apply lookup_alloc_new].
      eapply rewrites_length; eauto.
  - split; auto. intros; discriminate.
  - split; auto. intros; discriminate.
Qed.

Theorem tag_h_frame : forall re h L classes h' r,
  tag_h re h L classes = (h', r) ->
  (forall p ks, lookup h L <> Some (Cell (TNode p) ks)) /\ h' = h /\ (forall L', r <> Ok L') \/
  exists p ks, lookup h L = Some (Cell (TNode p) ks) /\
    rewrites (data_of h ks) (tag_new h ks) (eq K_tags) h h' /\
    forall L', r = Ok L' -> length h <= L' /\ lookup h' L' = Some (Cell (TNode EVENT_LIST) ks).
Proof.
  unfold tag_h. intros re h L classes h' r H.
  destruct (list_elems h L) as [ks| |] eqn:E.
  2,3: left; inversion H; subst; (split; [|split; [auto|intros; discriminate]]);
       intros p ks Lk; unfold list_elems in E; rewrite Lk in E; discriminate.
  right. destruct (list_elems_inv _ _ _ E) as (p & Lk). exists p, ks. split; auto.
  pose proof (each_rewrites (data_of h ks) (tag_new h ks) (eq K_tags)
                (tag_one_h re classes) h ks
                (fun h1 e h2 => tag_one_rewrites re h ks classes h1 e h2) ks h (incl_refl _) (rw_refl _ _ _ _)) as RW.
  destruct (snd (each_h (tag_one_h re classes) h ks)) as [[]| |] eqn:OK; inversion H; subst; clear H.
  - split.
    + eapply rewrites_trans; [exact RW|]. apply rewrites_new_list. intros k I. split; [|left; auto].
      eapply each_h_elems_lt; eauto. clear. intros h e h' H. unfold tag_one_h in H.
      destruct (bind_ok _ _ _ H) as (dl & RD & H1). destruct (rd_data_inv _ _ _ RD) as (i & t & d & L).
      destruct (bind_ok _ _ _ H1) as (z & _ & H2). destruct (bind_ok _ _ _ H2) as (d' & _ & H3).
      destruct (wr_dict_inv _ _ _ _ H3) as (? & ? & _ & ->). rewrite update_length. cbn [alloc fst]. rewrite app_length; cbn.
      apply lookup_lt in L. lia.
    + intros L' EQ. inversion EQ; subst. cbn [new_list alloc fst snd]. split; [|apply lookup_alloc_new].
      eapply rewrites_length; eauto.
  - split; auto. intros; discriminate.
  - split; auto. intros; discriminate.
Qed.

(* ------------------------------------------------------------------------- *)
(* split_url_events *)

Definition url_owned (k : Z) : Prop :=
  k = K_protocol \/ k = K_domain \/ k = K_path \/ k = K_params \/ k = K_options \/ k = K_identifier.

Local Opaque zset.

Section Split.
  Variable urlparse : value -> res urlparts.
  Variable starts_www : value -> bool.
  Variable drop4 : value -> value.
  Variables (h0 : heap) (ks : list loc).

  Lemma zs_of_value_scalar : forall v l, zs_of_value v <> ZK l.
  Proof. intros [s|x|ls] l; discriminate. Qed.

  Lemma split_zdict_keys : forall p z k, ~ url_owned k -> zget k (split_zdict starts_www drop4 p z) = zget k z.
  Proof.
    intros p z k NO. unfold split_zdict, url_owned in *.
    repeat (rewrite zget_zset_other by (intro; subst; tauto)). reflexivity.
  Qed.

  Lemma split_zdict_kids : forall p z k, In k (unzip_k (split_zdict starts_www drop4 p z)) -> In k (unzip_k z).
  Proof.
    intros p z k I. unfold split_zdict in I.
    repeat (apply unzip_k_zset in I; destruct I as [I|I]; [|exfalso; eapply zs_of_value_scalar; eauto]).
    exact I.
  Qed.

  Lemma split_one_rewrites : forall h e h', In e ks ->
    rewrites (data_of h0 ks) (fun _ => False) url_owned h0 h ->
    split_one_h urlparse starts_www drop4 h e = Ok h' ->
    rewrites (data_of h0 ks) (fun _ => False) url_owned h h'.
  Proof.
    intros h e h' Ie R H. unfold split_one_h in H.
    destruct (bind_ok _ _ _ H) as (dl & RD & H1). clear H.
    destruct (bind_ok _ _ _ H1) as (z & RZ & H2). clear H1.
    destruct (zget K_url z) as [u|]; [|inversion H2; subst; apply rw_refl].
    destruct (bind_ok _ _ _ H2) as (url & _ & H3). clear H2.
    destruct (bind_ok _ _ _ H3) as (p & _ & H4). clear H3.
    destruct (wr_dict_inv _ _ _ _ H4) as (p1 & kk & Ld & ->).
    eapply rw_write; [eapply data_of_current; eauto|exact RZ| | |apply rw_refl].
    - intros k NO. now apply split_zdict_keys.
    - intros k I. left. eapply split_zdict_kids; eauto.
  Qed.
End Split.

Theorem split_h_frame : forall up sw d4 h L h' r,
  split_url_events_h up sw d4 h L = (h', r) ->
  (forall p ks, lookup h L <> Some (Cell (TNode p) ks)) /\ h' = h /\ (forall L', r <> Ok L') \/
  exists p ks, lookup h L = Some (Cell (TNode p) ks) /\
    rewrites (data_of h ks) (fun _ => False) url_owned h h' /\
    forall L', r = Ok L' -> L' = L.
Proof.
  unfold split_url_events_h. intros up sw d4 h L h' r H.
  destruct (list_elems h L) as [ks| |] eqn:E.
  2,3: left; inversion H; subst; (split; [|split; [auto|intros; discriminate]]);
       intros p ks Lk; unfold list_elems in E; rewrite Lk in E; discriminate.
  right. destruct (list_elems_inv _ _ _ E) as (p & Lk). exists p, ks. split; auto.
  pose proof (each_rewrites (data_of h ks) (fun _ => False) url_owned
                (split_one_h up sw d4) h ks
                (fun h1 e h2 => split_one_rewrites up sw d4 h ks h1 e h2) ks h (incl_refl _) (rw_refl _ _ _ _)) as RW.
  destruct (snd (each_h (split_one_h up sw d4) h ks)) as [[]| |] eqn:OK; inversion H; subst; clear H;
    (split; [exact RW|]); intros L' EQ; inversion EQ; auto.
Qed.

(* ------------------------------------------------------------------------- *)
(* simplify_string: deep copy first; only copies are written *)

Lemma simplify_one_grown : forall sp sf sd key h0 h e h',
  framed h0 h -> length h0 <= e ->
  simplify_one_h sp sf sd key h e = Ok h' -> framed h0 h' /\ length h' = length h.
Proof.
  intros sp sf sd key h0 h e h' F Ge H. unfold simplify_one_h in H.
  destruct (bind_ok _ _ _ H) as (dl & RD & H1). clear H.
  destruct (bind_ok _ _ _ H1) as (z & RZ & H2). clear H1.
  destruct (bind_ok _ _ _ H2) as (z' & SZ & H3). clear H2.
  destruct (wr_dict_inv _ _ _ _ H3) as (p & kk & Ld & ->). clear H3.
  destruct (rd_data_inv _ _ _ RD) as (i & t & d & Le).
  destruct (rd_dict_inv _ _ _ RZ) as (p0 & kk0 & Ld0 & _ & _ & UK).
  assert (UK' : unzip_k z = kk) by congruence. clear UK Ld0. rename UK' into UK.
  assert (Gd : length h0 <= dl) by (destruct F as (_ & _ & C); eapply (C e); eauto; cbn; auto).
  split; [|apply update_length].
  (* the substitutions store scalars: the members stay the same *)
  assert (KS : forall z1 z2 f, zsub f key z1 = Ok z2 -> forall k, In k (unzip_k z2) -> In k (unzip_k z1)).
  { intros z1 z2 f Hs k I. unfold zsub in Hs. destruct (zget key z1) as [[v|?]|]; try discriminate.
    destruct (Z.even v); inversion Hs; subst. apply unzip_k_zset in I. destruct I as [I|I]; [auto|discriminate]. }
  assert (KZ : forall k, In k (unzip_k z') -> In k kk).
  { intros k I. rewrite <- UK. unfold simplify_zdict in SZ.
    destruct (bind_ok _ _ _ SZ) as (z1 & S1 & SZ1).
    destruct ((key =? K_title)%Z && zhas K_app z1).
    - destruct (bind_ok _ _ _ SZ1) as (z2 & S2 & S3). eauto.
    - inversion SZ1; subst. eauto. }
  destruct F as (G & Fr & C). split; [rewrite update_length; lia|]. split.
  - intros m Bm. rewrite lookup_update_other by lia. auto.
  - intros m x k Lm Gm I. rewrite update_length.
    destruct (Nat.eq_dec m dl) as [->|Nm].
    + rewrite lookup_update_same in Lm by (eapply lookup_lt; eauto). inversion Lm; subst x.
      cbn [children dict_cell] in I. apply (C dl _ k Ld Gd). cbn. auto.
    + rewrite lookup_update_other in Lm by auto. apply (C _ _ _ Lm Gm I).
Qed.

Theorem simplify_h_framed : forall sp sf sd h L key h' L',
  simplify_string_h sp sf sd h L key = Ok (h', L') ->
  framed h h' /\ length h <= L' < length h'.
Proof.
  unfold simplify_string_h. intros sp sf sd h L key h' L' H.
  destruct (bind_ok _ _ _ H) as ([h1 L1] & PD & H1). clear H. cbn [fst snd] in H1.
  destruct (bind_ok _ _ _ H1) as (ks & E & H2). clear H1.
  destruct (bind_ok _ _ _ H2) as (u & OK & H3). clear H2. inversion H3; subst h' L'. clear H3.
  destruct (pdeepcopy_inv _ _ _ _ PD) as (m & CP).
  pose proof (framed_copied _ _ _ _ _ _ (framed_refl h) CP) as F1.
  pose proof (copied_fresh _ _ _ _ _ CP) as FL.
  destruct (list_elems_inv _ _ _ E) as (p & Lk).
  assert (Fk : forall k, In k ks -> length h <= k).
  { intros k I. destruct F1 as (_ & _ & C). eapply (C L1); eauto. lia. }
  assert (G : forall evs hh, (forall k, In k evs -> length h <= k) -> framed h hh ->
                framed h (fst (each_h (simplify_one_h sp sf sd key) hh evs)) /\
                length (fst (each_h (simplify_one_h sp sf sd key) hh evs)) = length hh).
  { induction evs as [|e evs IH]; cbn [each_h]; intros hh Fe Fh; auto.
    destruct (simplify_one_h sp sf sd key hh e) as [h2| |] eqn:S1; cbn [fst]; auto.
    destruct (simplify_one_grown _ _ _ _ _ _ _ _ Fh (Fe e (or_introl eq_refl)) S1) as [F2 L2].
    destruct (IH h2 (fun k I => Fe k (or_intror I)) F2) as [F3 L3]. split; auto. congruence. }
  destruct (G ks h1 Fk F1) as [F2 L2]. split; auto. lia.
Qed.
