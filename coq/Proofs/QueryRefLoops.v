(* C11 round trip: the parse methods rebuild a printed term.  QFunction.parse's argument loop,
   QList.parse's and QDict.parse's entry loops over the printed, comma-separated text, then
   parse_tok_exact by induction on terms. *)
From AwVerif Require Import Base.Prelude Model.PyStr Model.Query Model.QueryRef
  Proofs.QueryScan Proofs.QueryTotal Proofs.QueryClasses Proofs.QueryRefStr Proofs.QueryRefScan
  Proofs.QueryRefToken Proofs.QueryRefParse.
From Coq Require Import ZifyBool Lia.
Open Scope Z_scope.

Ltac reassoc := repeat rewrite <- app_assoc; reflexivity.

Lemma dict_set_fresh {V} (d : list (str * V)) k v : ~ In k (map fst d) -> dict_set d k v = d ++ [(k, v)].
Proof.
  induction d as [|[k' v'] t IH]; intro H; [reflexivity|]. cbn [dict_set map fst In] in *.
  destruct (str_eqb k' k) eqn:E.
  - exfalso. apply H. left. clear -E. revert k E. induction k' as [|a x IHx]; intros [|b y] E; try discriminate; [reflexivity|].
    cbn [str_eqb] in E. apply andb_true_iff in E. destruct E as [E1 E2]. f_equal; [lia|apply IHx; assumption].
  - cbn [app]. f_equal. apply IH. intro Hi. apply H. right. exact Hi.
Qed.

Section Loops.
  Variable lay : layout.
  Hypothesis Hlay : wf_layout lay.
  Variable md : nat.
  Variable ns : namespace.

  Notation txt := (txt lay).
  Notation ptok := (parse_tok md ns).

  Definition P (t : term) : Prop :=
    wf md t -> forall p fuel, (2 * length (txt p t) + 1 <= fuel)%nat ->
    ptok fuel (kind t) (txt p t) = Ok (tok_of ns t).

  (* ---- facts about the comma-separated text ---- *)
  Lemma edges_nonempty (x : str) : first_nonspace x = true -> x <> [].
  Proof. destruct x; [discriminate|congruence]. Qed.

  Lemma sep_core_edges_in {A} (pr : list nat -> A -> str) p i l :
    (forall pth a, In a l -> first_nonspace (pr pth a) = true /\ last_nonspace (pr pth a) = true) ->
    l <> [] ->
    first_nonspace (sep_core lay pr p i l) = true /\ last_nonspace (sep_core lay pr p i l) = true /\
    sep_core lay pr p i l <> [].
  Proof.
    revert i. induction l as [|a r IH]; intros i H Hne; [congruence|]. cbn [sep_core].
    destruct (H (i :: p) a (or_introl eq_refl)) as [Ef El]. pose proof (edges_nonempty _ Ef) as Hn.
    destruct r as [|a2 r2].
    - rewrite app_nil_r. repeat split; assumption.
    - destruct (IH (S i) (fun pth x Hx => H pth x (or_intror Hx)) ltac:(congruence)) as (If & Il & In').
      split; [rewrite first_nonspace_app by assumption; assumption|]. split.
      + rewrite !app_assoc. rewrite last_nonspace_app by assumption. assumption.
      + destruct (pr (i :: p) a); [congruence|discriminate].
  Qed.

  (* ---- QFunction.parse's while loop ---- *)
  Lemma parse_args_exact args : Forall P args -> Forall (wf md) args -> args <> [] ->
    forall p i b e fuel, all_space b = true -> all_space e = true ->
    (2 * length (b ++ sep_core lay txt p i args ++ e) + 2 <= fuel)%nat ->
    parse_args md ns fuel (b ++ sep_core lay txt p i args ++ e) = Ok (map (tok_of ns) args).
  Proof.
    induction args as [|a rest IH]; [congruence|]. intros HP Hw _ p i b e fuel Hb He Hf.
    inversion HP as [|? ? Pa Prest]; subst. inversion Hw as [|? ? Wa Wrest]; subst.
    destruct fuel as [|f]; [lia|]. cbn [parse_args].
    destruct (txt_edges lay md a (i :: p) Wa) as [Ef El].
    pose proof (txt_nonempty lay md a (i :: p) Wa) as Hne.
    destruct rest as [|a2 rest2].
    - (* the last argument *)
      cbn [sep_core] in *. rewrite app_nil_r in *.
      assert (Es : strip (b ++ txt (i :: p) a ++ e) = txt (i :: p) a).
      { rewrite strip_tok by assumption. rewrite rstrip_all_space by assumption. apply app_nil_r. }
      rewrite Es. replace (is_empty (txt (i :: p) a)) with false
        by (destruct (txt (i :: p) a); [congruence|reflexivity]).
      rewrite (parse_token_exact lay Hlay md a (i :: p) b e Hb Wa (sep_start_all_space e He)).
      cbn [bind]. rewrite (Pa Wa) by (rewrite !app_length in Hf; lia). cbn [bind].
      rewrite rstrip_all_space by assumption. reflexivity.
    - (* an argument followed by blank comma blank and more arguments *)
      set (l1 := lay p (2 * i + 2)%nat). set (l2 := lay p (2 * i + 3)%nat).
      assert (Hl1 : all_space l1 = true) by apply Hlay. assert (Hl2 : all_space l2 = true) by apply Hlay.
      set (core2 := sep_core lay txt p (S i) (a2 :: rest2)).
      assert (Ec : sep_core lay txt p i (a :: a2 :: rest2) = txt (i :: p) a ++ l1 ++ [c_comma] ++ l2 ++ core2)
        by reflexivity.
      rewrite Ec in *. clear Ec.
      assert (Wr : Forall (wf md) (a2 :: rest2)) by assumption.
      assert (Hedges : forall pth (x : term), In x (a2 :: rest2) ->
                first_nonspace (txt pth x) = true /\ last_nonspace (txt pth x) = true).
      { intros pth x Hx. apply (txt_edges lay md). rewrite Forall_forall in Wr. apply Wr. assumption. }
      destruct (sep_core_edges_in txt p (S i) (a2 :: rest2) Hedges ltac:(congruence)) as (Cf & Cl & Cn).
      fold core2 in Cf, Cl, Cn.
      set (R := l1 ++ [c_comma] ++ l2 ++ core2).
      assert (ER : last_nonspace R = true).
      { unfold R. rewrite !app_assoc. rewrite last_nonspace_app by assumption. assumption. }
      assert (Eg : b ++ (txt (i :: p) a ++ R) ++ e = b ++ txt (i :: p) a ++ R ++ e) by reassoc.
      rewrite Eg in *. clear Eg.
      assert (Es : strip (b ++ txt (i :: p) a ++ R ++ e) = txt (i :: p) a ++ R).
      { rewrite strip_tok by assumption. rewrite rstrip_app_tok by assumption.
        rewrite rstrip_all_space by assumption. rewrite app_nil_r. reflexivity. }
      rewrite Es. replace (is_empty (txt (i :: p) a ++ R)) with false
        by (destruct (txt (i :: p) a); [congruence|reflexivity]).
      assert (Hsep : sep_start (R ++ e) = true).
      { unfold R. rewrite <- app_assoc. apply sep_start_space; [assumption|]. reflexivity. }
      rewrite (parse_token_exact lay Hlay md a (i :: p) b (R ++ e) Hb Wa Hsep).
      cbn [bind]. rewrite !app_length in Hf. cbn [length] in Hf.
      rewrite (Pa Wa) by lia. cbn [bind].
      rewrite rstrip_app_tok by assumption. rewrite rstrip_all_space by assumption. rewrite app_nil_r.
      assert (Es2 : strip R = [c_comma] ++ l2 ++ core2).
      { unfold R. replace (l1 ++ [c_comma] ++ l2 ++ core2) with (l1 ++ ([c_comma] ++ l2 ++ core2) ++ [])
          by (rewrite app_nil_r; reflexivity).
        rewrite strip_tok; [apply app_nil_r|assumption|reflexivity|].
        rewrite !app_assoc. rewrite last_nonspace_app by assumption. assumption. }
      rewrite Es2. cbn [app]. replace (c_comma =? c_comma) with true by reflexivity. cbn [negb].
      replace (l2 ++ core2) with (l2 ++ core2 ++ []) by (rewrite app_nil_r; reflexivity).
      unfold core2. rewrite IH; [reflexivity|assumption|assumption|congruence|assumption|reflexivity|].
      fold core2. try unfold R in Hf. rewrite ?app_length in Hf. cbn [length] in Hf.
      rewrite !app_length. cbn [length]. destruct (txt (i :: p) a); [congruence|]. cbn [length] in Hf. lia.
  Qed.

  (* ---- QList.parse's while loop ----
     [pre] is what precedes the remaining entries: a blank, or (after at least one entry)
     blank comma blank *)
  Definition pre_ok {X} (pre : str) (acc : list X) : Prop :=
    all_space pre = true \/
    (acc <> [] /\ exists l1 l2, all_space l1 = true /\ all_space l2 = true /\ pre = l1 ++ [c_comma] ++ l2).

  Lemma ltb_length_pos {X} (acc : list X) : acc <> [] -> Nat.ltb 0 (length acc) = true.
  Proof. destruct acc; [congruence|reflexivity]. Qed.

  Lemma parse_list_exact items : Forall P items -> Forall (wf md) items -> items <> [] ->
    forall p i pre e acc fuel, pre_ok pre acc -> all_space e = true ->
    (2 * length (pre ++ sep_core lay txt p i items ++ e) + 2 <= fuel)%nat ->
    parse_list md ns fuel (pre ++ sep_core lay txt p i items ++ e) acc = Ok (acc ++ map (tok_of ns) items).
  Proof.
    induction items as [|a rest IH]; [congruence|]. intros HP Hw _ p i pre e acc fuel Hpre He Hf.
    inversion HP as [|? ? Pa Prest]; subst. inversion Hw as [|? ? Wa Wrest]; subst.
    destruct fuel as [|f]; [lia|].
    destruct (txt_edges lay md a (i :: p) Wa) as [Ef El].
    pose proof (txt_nonempty lay md a (i :: p) Wa) as Hne.
    destruct (txt_head lay md a (i :: p) Wa) as (c0 & x0 & Ex0 & Hc0 & _).
    (* the rest of the text after the first entry *)
    set (R := match rest with
              | [] => []
              | _ => lay p (2 * i + 2)%nat ++ [c_comma] ++ lay p (2 * i + 3)%nat ++ sep_core lay txt p (S i) rest
              end).
    assert (Ec : sep_core lay txt p i (a :: rest) = txt (i :: p) a ++ R) by reflexivity.
    rewrite Ec in *. clear Ec.
    assert (HR : R = [] \/ (last_nonspace R = true /\ sep_start R = true)).
    { unfold R. destruct rest as [|a2 rest2]; [left; reflexivity|right].
      assert (Hedges : forall pth (x : term), In x (a2 :: rest2) ->
                first_nonspace (txt pth x) = true /\ last_nonspace (txt pth x) = true).
      { intros pth x Hx. apply (txt_edges lay md). rewrite Forall_forall in Wrest. apply Wrest. assumption. }
      destruct (sep_core_edges_in txt p (S i) (a2 :: rest2) Hedges ltac:(congruence)) as (Cf & Cl & Cn).
      split; [rewrite !app_assoc; rewrite last_nonspace_app by assumption; assumption|].
      apply sep_start_space; [apply Hlay|reflexivity]. }
    assert (HsepR : sep_start R = true) by (destruct HR as [->|[_ H]]; [reflexivity|exact H]).
    assert (HrsR : rstrip R = R) by (destruct HR as [->|[H _]]; [reflexivity|apply rstrip_tok; exact H]).
    assert (Hcore_l : last_nonspace (txt (i :: p) a ++ R) = true).
    { destruct HR as [->|[H _]]; [rewrite app_nil_r; assumption|].
      rewrite last_nonspace_app; [assumption|]. intro E; rewrite E in H; discriminate. }
    assert (Hcore_f : first_nonspace (txt (i :: p) a ++ R) = true)
      by (rewrite first_nonspace_app by assumption; assumption).
    (* what the iteration does after its strip / comma handling, for either shape of [pre] *)
    assert (Hcommon : forall b', all_space b' = true ->
      bind (parse_token (b' ++ txt (i :: p) a ++ R))
        (fun pat => match pat with
                    | (Some t0, val_str, entries_str0) =>
                        bind (ptok f t0 val_str) (fun val => parse_list md ns f entries_str0 (acc ++ [val]))
                    | (None, _, _) => Err ParseError
                    end) = Ok (acc ++ map (tok_of ns) (a :: rest))).
    { intros b' Hb'. rewrite (parse_token_exact lay Hlay md a (i :: p) b' R Hb' Wa HsepR).
      cbn [bind]. rewrite !app_length in Hf. rewrite (Pa Wa) by lia. cbn [bind]. rewrite HrsR.
      unfold R in *. destruct rest as [|a2 rest2].
      - destruct f as [|f']; [lia|]. cbn. reflexivity.
      - set (l1 := lay p (2 * i + 2)%nat) in *. set (l2 := lay p (2 * i + 3)%nat) in *.
        replace (l1 ++ [c_comma] ++ l2 ++ sep_core lay txt p (S i) (a2 :: rest2))
          with ((l1 ++ [c_comma] ++ l2) ++ sep_core lay txt p (S i) (a2 :: rest2) ++ []) in *
          by (rewrite app_nil_r; reassoc).
        rewrite IH; [cbn [map]; rewrite <- app_assoc; reflexivity|assumption|assumption|congruence| |reflexivity|].
        + right. split; [destruct acc; discriminate|]. exists l1, l2. repeat split; apply Hlay.
        + rewrite ?app_length in *. cbn [length] in *. destruct (txt (i :: p) a); [congruence|]. cbn [length] in *. lia. }
    cbn [parse_list].
    destruct Hpre as [Hb|(Hacc & l1 & l2 & Hl1 & Hl2 & ->)].
    - (* first entry, or no comma yet *)
      assert (Es : strip (pre ++ (txt (i :: p) a ++ R) ++ e) = txt (i :: p) a ++ R).
      { rewrite strip_tok by assumption. rewrite rstrip_all_space by assumption. apply app_nil_r. }
      rewrite Es.
      assert (Hnn : txt (i :: p) a ++ R <> []) by (rewrite Ex0; discriminate).
      assert (Hfc : first_char (txt (i :: p) a ++ R) = Ok c0) by (rewrite Ex0; reflexivity).
      rewrite (ltb_length_pos _ Hnn), Hfc. cbn [bind]. rewrite Hc0, andb_false_r.
      apply (Hcommon [] eq_refl).
    - (* after an entry: the comma is dropped *)
      assert (Es : strip ((l1 ++ [c_comma] ++ l2) ++ (txt (i :: p) a ++ R) ++ e)
                   = [c_comma] ++ l2 ++ txt (i :: p) a ++ R).
      { replace ((l1 ++ [c_comma] ++ l2) ++ (txt (i :: p) a ++ R) ++ e)
          with (l1 ++ ([c_comma] ++ l2 ++ txt (i :: p) a ++ R) ++ e) by reassoc.
        rewrite strip_tok; [rewrite rstrip_all_space by assumption; apply app_nil_r|assumption|reflexivity|].
        rewrite !app_assoc. rewrite <- (app_assoc _ (txt (i :: p) a) R).
        rewrite last_nonspace_app; [assumption|]. destruct (txt (i :: p) a); [congruence|discriminate]. }
      rewrite Es.
      assert (Hnn2 : [c_comma] ++ l2 ++ txt (i :: p) a ++ R <> []) by discriminate.
      rewrite (ltb_length_pos _ Hnn2). cbn [app first_char bind].
      rewrite (ltb_length_pos acc Hacc). replace (c_comma =? c_comma) with true by reflexivity.
      cbn [andb drop skipn]. apply (Hcommon l2 Hl2).
  Qed.

  (* ---- QDict.parse's while loop ---- *)
  Lemma parse_token_lead_blank b s : all_space b = true -> s <> [] -> parse_token (b ++ s) = parse_token s.
  Proof.
    intros Hb Hs. unfold parse_token.
    replace (is_empty (b ++ s)) with false by (destruct b; [destruct s; [congruence|reflexivity]|reflexivity]).
    replace (is_empty s) with false by (destruct s; [congruence|reflexivity]).
    unfold strip. rewrite lstrip_app_space by assumption. reflexivity.
  Qed.

  Lemma parse_dict_skip_comma f l1 l2 s e c0 x (acc : list (str * qtoken)) :
    acc <> [] -> all_space l1 = true -> all_space l2 = true -> all_space e = true ->
    s = c0 :: x -> is_space c0 = false -> (c0 =? c_comma) = false -> last_nonspace s = true ->
    parse_dict md ns (S f) ((l1 ++ [c_comma] ++ l2) ++ s ++ e) acc = parse_dict md ns (S f) (l2 ++ s ++ e) acc.
  Proof.
    intros Hacc Hl1 Hl2 He Es Hc0 Hcm Hl. cbn [parse_dict].
    assert (Hfs : first_nonspace s = true) by (subst s; cbn; rewrite Hc0; reflexivity).
    assert (E1 : strip ((l1 ++ [c_comma] ++ l2) ++ s ++ e) = [c_comma] ++ l2 ++ s).
    { replace ((l1 ++ [c_comma] ++ l2) ++ s ++ e) with (l1 ++ ([c_comma] ++ l2 ++ s) ++ e) by reassoc.
      rewrite strip_tok; [rewrite rstrip_all_space by assumption; apply app_nil_r|assumption|reflexivity|].
      rewrite !app_assoc. rewrite last_nonspace_app; [assumption|subst s; discriminate]. }
    assert (E2 : strip (l2 ++ s ++ e) = s).
    { rewrite strip_tok by assumption. rewrite rstrip_all_space by assumption. apply app_nil_r. }
    rewrite E1, E2.
    assert (N1 : [c_comma] ++ l2 ++ s <> []) by discriminate.
    assert (N2 : s <> []) by (subst s; discriminate).
    rewrite (ltb_length_pos _ N1), (ltb_length_pos _ N2).
    assert (F2 : first_char s = Ok c0) by (subst s; reflexivity). rewrite F2.
    cbn [app first_char bind]. rewrite (ltb_length_pos acc Hacc), Hcm.
    replace (c_comma =? c_comma) with true by reflexivity. cbn [andb drop skipn].
    rewrite parse_token_lead_blank by assumption. reflexivity.
  Qed.

  Definition prd (pe : list nat) (e : (Z * str) * term) : str :=
    str_txt (fst (fst e)) (snd (fst e)) ++ lay pe 0%nat ++ [c_colon] ++ lay pe 1%nat ++ txt (0%nat :: pe) (snd e).
  Definition entry_tok (e : (Z * str) * term) : str * qtoken := (snd (fst e), tok_of ns (snd e)).
  Definition entry_wf (e : (Z * str) * term) : Prop := wf_str (fst (fst e)) (snd (fst e)) /\ wf md (snd e).

  Lemma prd_edges pe e : entry_wf e -> first_nonspace (prd pe e) = true /\ last_nonspace (prd pe e) = true.
  Proof.
    intros [Hs Hv]. unfold prd. destruct (txt_edges lay md (snd e) (0%nat :: pe) Hv) as [Vf Vl].
    split.
    - destruct Hs as ([E|E] & _); rewrite E; reflexivity.
    - rewrite !app_assoc. rewrite last_nonspace_app; [assumption|]. apply (txt_nonempty lay md). assumption.
  Qed.

  Lemma parse_dict_exact d : Forall (fun e => P (snd e)) d -> Forall entry_wf d -> d <> [] ->
    forall p i b e acc fuel, all_space b = true -> all_space e = true ->
    keys_distinct (map (fun x => snd (fst x)) d) ->
    (forall x, In x d -> ~ In (snd (fst x)) (map fst acc)) ->
    (2 * length (b ++ sep_core lay prd p i d ++ e) + 2 <= fuel)%nat ->
    parse_dict md ns fuel (b ++ sep_core lay prd p i d ++ e) acc = Ok (acc ++ map entry_tok d).
  Proof.
    induction d as [|a rest IH]; [congruence|]. intros HP Hw _ p i b e acc fuel Hb He Hkd Hka Hf.
    inversion HP as [|? ? Pa Prest]; subst. inversion Hw as [|? ? Wa Wrest]; subst.
    destruct fuel as [|f]; [lia|].
    destruct a as [[q k] v]. destruct Wa as [Ws Wv]. cbn [fst snd] in *.
    destruct Ws as (Hq & Hek & Hsemi).
    set (pe := (i :: p)). set (K := str_txt q k). set (c1 := lay pe 0%nat). set (c2 := lay pe 1%nat).
    set (V := txt (0%nat :: pe) v).
    assert (Hc1 : all_space c1 = true) by apply Hlay. assert (Hc2 : all_space c2 = true) by apply Hlay.
    destruct (txt_edges lay md v (0%nat :: pe) Wv) as [Vf Vl]. fold V in Vf, Vl.
    pose proof (txt_nonempty lay md v (0%nat :: pe) Wv) as Vn. fold V in Vn.
    set (R := match rest with
              | [] => []
              | _ => lay p (2 * i + 2)%nat ++ [c_comma] ++ lay p (2 * i + 3)%nat ++ sep_core lay prd p (S i) rest
              end).
    assert (Ec : sep_core lay prd p i (((q, k), v) :: rest) = K ++ c1 ++ [c_colon] ++ c2 ++ V ++ R).
    { cbn [sep_core]. unfold prd at 1. cbn [fst snd]. fold pe K c1 c2 V. fold R. reassoc. }
    rewrite Ec in *. clear Ec.
    assert (HR : R = [] \/ (last_nonspace R = true /\ sep_start R = true)).
    { unfold R. destruct rest as [|a2 rest2]; [left; reflexivity|right].
      assert (Hedges : forall pth x, In x (a2 :: rest2) ->
                first_nonspace (prd pth x) = true /\ last_nonspace (prd pth x) = true).
      { intros pth x Hx. apply prd_edges. rewrite Forall_forall in Wrest. apply Wrest. assumption. }
      destruct (sep_core_edges_in prd p (S i) (a2 :: rest2) Hedges ltac:(congruence)) as (Cf & Cl & Cn).
      split; [rewrite !app_assoc; rewrite last_nonspace_app by assumption; assumption|].
      apply sep_start_space; [apply Hlay|reflexivity]. }
    assert (HsepR : sep_start R = true) by (destruct HR as [->|[_ H]]; [reflexivity|exact H]).
    assert (HrsR : rstrip R = R) by (destruct HR as [->|[H _]]; [reflexivity|apply rstrip_tok; exact H]).
    assert (HVR : last_nonspace (V ++ R) = true).
    { destruct HR as [->|[H _]]; [rewrite app_nil_r; assumption|].
      rewrite last_nonspace_app; [assumption|]. intro E; rewrite E in H; discriminate. }
    set (r0 := c1 ++ [c_colon] ++ c2 ++ V ++ R).
    assert (Hr0l : last_nonspace r0 = true).
    { unfold r0. rewrite !app_assoc. rewrite <- (app_assoc _ V R). rewrite last_nonspace_app; [assumption|].
      destruct V; [congruence|discriminate]. }
    assert (Hr0s : sep_start r0 = true) by (unfold r0; apply sep_start_space; [assumption|reflexivity]).
    assert (HKf : first_nonspace K = true) by (unfold K, str_txt; destruct Hq as [->| ->]; reflexivity).
    assert (HKn : K <> []) by (unfold K, str_txt; discriminate).
    assert (Hcore_l : last_nonspace (K ++ r0) = true).
    { rewrite last_nonspace_app; [assumption|]. unfold r0. destruct c1; discriminate. }
    assert (Hcore_f : first_nonspace (K ++ r0) = true) by (rewrite first_nonspace_app by assumption; assumption).
    cbn [parse_dict].
    replace (b ++ (K ++ c1 ++ [c_colon] ++ c2 ++ V ++ R) ++ e) with (b ++ (K ++ r0) ++ e) in * by reflexivity.
    assert (Es : strip (b ++ (K ++ r0) ++ e) = K ++ r0).
    { rewrite strip_tok by assumption. rewrite rstrip_all_space by assumption. apply app_nil_r. }
    rewrite Es.
    assert (Hnn : K ++ r0 <> []) by (unfold K, str_txt; discriminate).
    assert (Hfc : first_char (K ++ r0) = Ok q) by reflexivity.
    rewrite (ltb_length_pos _ Hnn), Hfc. cbn [bind].
    replace (q =? c_comma) with false by (destruct Hq as [->| ->]; reflexivity). rewrite andb_false_r.
    assert (Wk : wf md (TStr q k)) by (cbn; repeat split; assumption).
    pose proof (parse_token_exact lay Hlay md (TStr q k) [] [] r0 eq_refl Wk Hr0s) as Et.
    cbn [QueryRef.txt kind app] in Et. fold K in Et. rewrite Et. clear Et.
    cbn [bind]. unfold K at 1. rewrite parse_string_exact by assumption. cbn [bind].
    rewrite (rstrip_tok r0 Hr0l).
    assert (Es2 : strip r0 = [c_colon] ++ c2 ++ V ++ R).
    { unfold r0. replace (c1 ++ [c_colon] ++ c2 ++ V ++ R) with (c1 ++ ([c_colon] ++ c2 ++ V ++ R) ++ [])
        by (rewrite app_nil_r; reflexivity).
      rewrite strip_tok; [apply app_nil_r|assumption|reflexivity|].
      rewrite !app_assoc. rewrite <- (app_assoc _ V R). rewrite last_nonspace_app; [assumption|].
      destruct V; [congruence|discriminate]. }
    rewrite Es2. cbn [app]. replace (c_colon =? c_colon) with true by reflexivity. cbn [negb].
    pose proof (parse_token_exact lay Hlay md v (0%nat :: pe) c2 R Hc2 Wv HsepR) as Et.
    fold V in Et. rewrite Et. clear Et. cbn [bind]. rewrite HrsR.
    unfold r0 in Hf. rewrite ?app_length in Hf. cbn [length] in Hf.
    unfold V. rewrite (Pa Wv) by (fold V; lia). cbn [bind].
    rewrite dict_set_fresh by (apply (Hka ((q, k), v)); left; reflexivity).
    destruct Hkd as [Hk1 Hk2].
    unfold R in *. destruct rest as [|a2 rest2].
    - destruct f as [|f']; [lia|]. cbn. reflexivity.
    - set (l1 := lay p (2 * i + 2)%nat) in *. set (l2 := lay p (2 * i + 3)%nat) in *.
      destruct f as [|f']; [lia|].
      assert (Wa2 : entry_wf a2) by (inversion Wrest; assumption).
      destruct (prd_edges (S i :: p) a2 Wa2) as [A2f _].
      assert (Hedges : forall pth x, In x (a2 :: rest2) ->
                first_nonspace (prd pth x) = true /\ last_nonspace (prd pth x) = true).
      { intros pth x Hx. apply prd_edges. rewrite Forall_forall in Wrest. apply Wrest. assumption. }
      destruct (sep_core_edges_in prd p (S i) (a2 :: rest2) Hedges ltac:(congruence)) as (Cf & Cl & Cn).
      set (core2 := sep_core lay prd p (S i) (a2 :: rest2)) in *.
      destruct core2 as [|h0 x0] eqn:Ecore; [congruence|].
      assert (Hh0 : is_space h0 = false) by (cbn in Cf; destruct (is_space h0); [discriminate|reflexivity]).
      assert (Hh0c : (h0 =? c_comma) = false).
      { unfold core2 in Ecore. cbn [sep_core] in Ecore. unfold prd at 1 in Ecore. unfold str_txt in Ecore.
        cbn [app] in Ecore. injection Ecore as Eh _. destruct Wa2 as [([Eq|Eq] & _) _]; rewrite Eq in Eh; subst h0; reflexivity. }
      replace (l1 ++ [c_comma] ++ l2 ++ h0 :: x0) with ((l1 ++ [c_comma] ++ l2) ++ (h0 :: x0) ++ []) 
        by (rewrite app_nil_r; reassoc).
      rewrite (parse_dict_skip_comma f' l1 l2 (h0 :: x0) [] h0 x0);
        [|destruct acc; discriminate|apply Hlay|apply Hlay|reflexivity|reflexivity|assumption|assumption|assumption].
      rewrite <- Ecore. unfold core2.
      rewrite IH; [cbn [map]; rewrite <- app_assoc; reflexivity|assumption|assumption|congruence|apply Hlay|reflexivity|assumption| |].
      + intros x Hx. rewrite map_app. cbn [map fst]. intro Hi. apply in_app_or in Hi. destruct Hi as [Hi|[Hi|[]]].
        * apply (Hka x); [right; assumption|assumption].
        * apply Hk1. rewrite Hi. apply (in_map (fun x => snd (fst x))). assumption.
      + fold core2. rewrite Ecore. rewrite ?app_length in *. cbn [length] in *.
        unfold K, str_txt in Hf. cbn [length] in Hf. lia.
  Qed.
End Loops.
