(* C11 round trip: the parse methods rebuild a printed term.  QFunction.parse's argument loop,
   QList.parse's and QDict.parse's entry loops over the printed, comma-separated text, then
   parse_tok_exact by induction on terms. *)
From AwVerif Require Import Base.Prelude Model.PyStr Model.Query Model.QueryRef
  Proofs.QueryScan Proofs.QueryTotal Proofs.QueryClasses Proofs.QueryRefStr Proofs.QueryRefScan
  Proofs.QueryRefToken Proofs.QueryRefParse.
From Coq Require Import ZifyBool Lia.
Open Scope Z_scope.

Ltac reassoc := repeat rewrite <- app_assoc; reflexivity.

Lemma dict_set_fresh {V} (d : list (str * V)) k v : ~ In k (map fst d) -> dict_set d k v = d ++ [(k, v)].
Proof.
  induction d as [|[k' v'] t IH]; intro H; [reflexivity|]. cbn [dict_set map fst In] in *.
  destruct (str_eqb k' k) eqn:E.
  - exfalso. apply H. left. clear -E. revert k E. induction k' as [|a x IHx]; intros [|b y] E; try discriminate; [reflexivity|].
    cbn [str_eqb] in E. apply andb_true_iff in E. destruct E as [E1 E2]. f_equal; [lia|apply IHx; assumption].
  - cbn [app]. f_equal. apply IH. intro Hi. apply H. right. exact Hi.
Qed.

Section Loops.
  Variable lay : layout.
  Hypothesis Hlay : wf_layout lay.
  Variable md : nat.
  Variable ns : namespace.

  Notation txt := (txt lay).
  Notation ptok := (parse_tok md ns).

  Definition P (t : term) : Prop :=
    wf md t -> forall p fuel, (2 * length (txt p t) + 1 <= fuel)%nat ->
    ptok fuel (kind t) (txt p t) = Ok (tok_of ns t).

  (* ---- facts about the comma-separated text ---- *)
  Lemma edges_nonempty (x : str) : first_nonspace x = true -> x <> [].
  Proof. destruct x; [discriminate|congruence]. Qed.

  Lemma sep_core_edges_in {A} (pr : list nat -> A -> str) p i l :
    (forall pth a, In a l -> first_nonspace (pr pth a) = true /\ last_nonspace (pr pth a) = true) ->
    l <> [] ->
    first_nonspace (sep_core lay pr p i l) = true /\ last_nonspace (sep_core lay pr p i l) = true /\
    sep_core lay pr p i l <> [].
  Proof.
    revert i. induction l as [|a r IH]; intros i H Hne; [congruence|]. cbn [sep_core].
    destruct (H (i :: p) a (or_introl eq_refl)) as [Ef El]. pose proof (edges_nonempty _ Ef) as Hn.
    destruct r as [|a2 r2].
    - rewrite app_nil_r. repeat split; assumption.
    - destruct (IH (S i) (fun pth x Hx => H pth x (or_intror Hx)) ltac:(congruence)) as (If & Il & In').
      split; [rewrite first_nonspace_app by assumption; assumption|]. split.
      + rewrite !app_assoc. rewrite last_nonspace_app by assumption. assumption.
      + destruct (pr (i :: p) a); [congruence|discriminate].
  Qed.

  (* ---- QFunction.parse's while loop ---- *)
  Lemma parse_args_exact args : Forall P args -> Forall (wf md) args -> args <> [] ->
    forall p i b e fuel, all_space b = true -> all_space e = true ->
    (2 * length (b ++ sep_core lay txt p i args ++ e) + 2 <= fuel)%nat ->
    parse_args md ns fuel (b ++ sep_core lay txt p i args ++ e) = Ok (map (tok_of ns) args).
  Proof.
    induction args as [|a rest IH]; [congruence|]. intros HP Hw _ p i b e fuel Hb He Hf.
    inversion HP as [|? ? Pa Prest]; subst. inversion Hw as [|? ? Wa Wrest]; subst.
    destruct fuel as [|f]; [lia|]. cbn [parse_args].
    destruct (txt_edges lay md a (i :: p) Wa) as [Ef El].
    pose proof (txt_nonempty lay md a (i :: p) Wa) as Hne.
    destruct rest as [|a2 rest2].
    - (* the last argument *)
      cbn [sep_core] in *. rewrite app_nil_r in *.
      assert (Es : strip (b ++ txt (i :: p) a ++ e) = txt (i :: p) a).
      { rewrite strip_tok by assumption. rewrite rstrip_all_space by assumption. apply app_nil_r. }
      rewrite Es. replace (is_empty (txt (i :: p) a)) with false
        by (destruct (txt (i :: p) a); [congruence|reflexivity]).
      rewrite (parse_token_exact lay Hlay md a (i :: p) b e Hb Wa (sep_start_all_space e He)).
      cbn [bind]. rewrite (Pa Wa) by (rewrite !app_length in Hf; lia). cbn [bind].
      rewrite rstrip_all_space by assumption. reflexivity.
    - (* an argument followed by blank comma blank and more arguments *)
      set (l1 := lay p (2 * i + 2)%nat). set (l2 := lay p (2 * i + 3)%nat).
      assert (Hl1 : all_space l1 = true) by apply Hlay. assert (Hl2 : all_space l2 = true) by apply Hlay.
      set (core2 := sep_core lay txt p (S i) (a2 :: rest2)).
      assert (Ec : sep_core lay txt p i (a :: a2 :: rest2) = txt (i :: p) a ++ l1 ++ [c_comma] ++ l2 ++ core2)
        by reflexivity.
      rewrite Ec in *. clear Ec.
      assert (Wr : Forall (wf md) (a2 :: rest2)) by assumption.
      assert (Hedges : forall pth (x : term), In x (a2 :: rest2) ->
                first_nonspace (txt pth x) = true /\ last_nonspace (txt pth x) = true).
      { intros pth x Hx. apply (txt_edges lay md). rewrite Forall_forall in Wr. apply Wr. assumption. }
      destruct (sep_core_edges_in txt p (S i) (a2 :: rest2) Hedges ltac:(congruence)) as (Cf & Cl & Cn).
      fold core2 in Cf, Cl, Cn.
      set (R := l1 ++ [c_comma] ++ l2 ++ core2).
      assert (ER : last_nonspace R = true).
      { unfold R. rewrite !app_assoc. rewrite last_nonspace_app by assumption. assumption. }
      assert (Eg : b ++ (txt (i :: p) a ++ R) ++ e = b ++ txt (i :: p) a ++ R ++ e) by reassoc.
      rewrite Eg in *. clear Eg.
      assert (Es : strip (b ++ txt (i :: p) a ++ R ++ e) = txt (i :: p) a ++ R).
      { rewrite strip_tok by assumption. rewrite rstrip_app_tok by assumption.
        rewrite rstrip_all_space by assumption. rewrite app_nil_r. reflexivity. }
      rewrite Es. replace (is_empty (txt (i :: p) a ++ R)) with false
        by (destruct (txt (i :: p) a); [congruence|reflexivity]).
      assert (Hsep : sep_start (R ++ e) = true).
      { unfold R. rewrite <- app_assoc. apply sep_start_space; [assumption|]. reflexivity. }
      rewrite (parse_token_exact lay Hlay md a (i :: p) b (R ++ e) Hb Wa Hsep).
      cbn [bind]. rewrite !app_length in Hf. cbn [length] in Hf.
      rewrite (Pa Wa) by lia. cbn [bind].
      rewrite rstrip_app_tok by assumption. rewrite rstrip_all_space by assumption. rewrite app_nil_r.
      assert (Es2 : strip R = [c_comma] ++ l2 ++ core2).
      { unfold R. replace (l1 ++ [c_comma] ++ l2 ++ core2) with (l1 ++ ([c_comma] ++ l2 ++ core2) ++ [])
          by (rewrite app_nil_r; reflexivity).
        rewrite strip_tok; [apply app_nil_r|assumption|reflexivity|].
        rewrite !app_assoc. rewrite last_nonspace_app by assumption. assumption. }
      rewrite Es2. cbn [app]. replace (c_comma =? c_comma) with true by reflexivity. cbn [negb].
      replace (l2 ++ core2) with (l2 ++ core2 ++ []) by (rewrite app_nil_r; reflexivity).
      unfold core2. rewrite IH; [reflexivity|assumption|assumption|congruence|assumption|reflexivity|].
      fold core2. try unfold R in Hf. rewrite ?app_length in Hf. cbn [length] in Hf.
      rewrite !app_length. cbn [length]. destruct (txt (i :: p) a); [congruence|]. cbn [length] in Hf. lia.
  Qed.

  (* ---- QList.parse's while loop ----
     [pre] is what precedes the remaining entries: a blank, or (after at least one entry)
     blank comma blank *)
  Definition pre_ok {X} (pre : str) (acc : list X) : Prop :=
    all_space pre = true \/
    (acc <> [] /\ exists l1 l2, all_space l1 = true /\ all_space l2 = true /\ pre = l1 ++ [c_comma] ++ l2).

  Lemma ltb_length_pos {X} (acc : list X) : acc <> [] -> Nat.ltb 0 (length acc) = true.
  Proof. destruct acc; [congruence|reflexivity]. Qed.

  Lemma parse_list_exact items : Forall P items -> Forall (wf md) items -> items <> [] ->
    forall p i pre e acc fuel, pre_ok pre acc -> all_space e = true ->
    (2 * length (pre ++ sep_core lay txt p i items ++ e) + 2 <= fuel)%nat ->
    parse_list md ns fuel (pre ++ sep_core lay txt p i items ++ e) acc = Ok (acc ++ map (tok_of ns) items).
  Proof.
    induction items as [|a rest IH]; [congruence|]. intros HP Hw _ p i pre e acc fuel Hpre He Hf.
    inversion HP as [|? ? Pa Prest]; subst. inversion Hw as [|? ? Wa Wrest]; subst.
    destruct fuel as [|f]; [lia|].
    destruct (txt_edges lay md a (i :: p) Wa) as [Ef El].
    pose proof (txt_nonempty lay md a (i :: p) Wa) as Hne.
    destruct (txt_head lay md a (i :: p) Wa) as (c0 & x0 & Ex0 & Hc0 & _).
    (* the rest of the text after the first entry *)
    set (R := match rest with
              | [] => []
              | _ => lay p (2 * i + 2)%nat ++ [c_comma] ++ lay p (2 * i + 3)%nat ++ sep_core lay txt p (S i) rest
              end).
    assert (Ec : sep_core lay txt p i (a :: rest) = txt (i :: p) a ++ R) by reflexivity.
    rewrite Ec in *. clear Ec.
    assert (HR : R = [] \/ (last_nonspace R = true /\ sep_start R = true)).
    { unfold R. destruct rest as [|a2 rest2]; [left; reflexivity|right].
      assert (Hedges : forall pth (x : term), In x (a2 :: rest2) ->
                first_nonspace (txt pth x) = true /\ last_nonspace (txt pth x) = true).
      { intros pth x Hx. apply (txt_edges lay md). rewrite Forall_forall in Wrest. apply Wrest. assumption. }
      destruct (sep_core_edges_in txt p (S i) (a2 :: rest2) Hedges ltac:(congruence)) as (Cf & Cl & Cn).
      split; [rewrite !app_assoc; rewrite last_nonspace_app by assumption; assumption|].
      apply sep_start_space; [apply Hlay|reflexivity]. }
    assert (HsepR : sep_start R = true) by (destruct HR as [->|[_ H]]; [reflexivity|exact H]).
    assert (HrsR : rstrip R = R) by (destruct HR as [->|[H _]]; [reflexivity|apply rstrip_tok; exact H]).
    assert (Hcore_l : last_nonspace (txt (i :: p) a ++ R) = true).
    { destruct HR as [->|[H _]]; [rewrite app_nil_r; assumption|].
      rewrite last_nonspace_app; [assumption|]. intro E; rewrite E in H; discriminate. }
    assert (Hcore_f : first_nonspace (txt (i :: p) a ++ R) = true)
      by (rewrite first_nonspace_app by assumption; assumption).
    (* what the iteration does after its strip / comma handling, for either shape of [pre] *)
    assert (Hcommon : forall b', all_space b' = true ->
      bind (parse_token (b' ++ txt (i :: p) a ++ R))
        (fun pat => match pat with
                    | (Some t0, val_str, entries_str0) =>
                        bind (ptok f t0 val_str) (fun val => parse_list md ns f entries_str0 (acc ++ [val]))
                    | (None, _, _) => Err ParseError
                    end) = Ok (acc ++ map (tok_of ns) (a :: rest))).
    { intros b' Hb'. rewrite (parse_token_exact lay Hlay md a (i :: p) b' R Hb' Wa HsepR).
      cbn [bind]. rewrite !app_length in Hf. rewrite (Pa Wa) by lia. cbn [bind]. rewrite HrsR.
      unfold R in *. destruct rest as [|a2 rest2].
      - destruct f as [|f']; [lia|]. cbn. reflexivity.
      - set (l1 := lay p (2 * i + 2)%nat) in *. set (l2 := lay p (2 * i + 3)%nat) in *.
        replace (l1 ++ [c_comma] ++ l2 ++ sep_core lay txt p (S i) (a2 :: rest2))
          with ((l1 ++ [c_comma] ++ l2) ++ sep_core lay txt p (S i) (a2 :: rest2) ++ []) in *
          by (rewrite app_nil_r; reassoc).
        rewrite IH; [cbn [map]; rewrite <- app_assoc; reflexivity|assumption|assumption|congruence| |reflexivity|].
        + right. split; [destruct acc; discriminate|]. exists l1, l2. repeat split; apply Hlay.
        + rewrite ?app_length in *. cbn [length] in *. destruct (txt (i :: p) a); [congruence|]. cbn [length] in *. lia. }
    cbn [parse_list].
    destruct Hpre as [Hb|(Hacc & l1 & l2 & Hl1 & Hl2 & ->)].
    - (* first entry, or no comma yet *)
      assert (Es : strip (pre ++ (txt (i :: p) a ++ R) ++ e) = txt (i :: p) a ++ R).
      { rewrite strip_tok by assumption. rewrite rstrip_all_space by assumption. apply app_nil_r. }
      rewrite Es.
      assert (Hnn : txt (i :: p) a ++ R <> []) by (rewrite Ex0; discriminate).
      assert (Hfc : first_char (txt (i :: p) a ++ R) = Ok c0) by (rewrite Ex0; reflexivity).
      rewrite (ltb_length_pos _ Hnn), Hfc. cbn [bind]. rewrite Hc0, andb_false_r.
      apply (Hcommon [] eq_refl).
    - (* after an entry: the comma is dropped *)
      assert (Es : strip ((l1 ++ [c_comma] ++ l2) ++ (txt (i :: p) a ++ R) ++ e)
                   = [c_comma] ++ l2 ++ txt (i :: p) a ++ R).
      { replace ((l1 ++ [c_comma] ++ l2) ++ (txt (i :: p) a ++ R) ++ e)
          with (l1 ++ ([c_comma] ++ l2 ++ txt (i :: p) a ++ R) ++ e) by reassoc.
        rewrite strip_tok; [rewrite rstrip_all_space by assumption; apply app_nil_r|assumption|reflexivity|].
        rewrite !app_assoc. rewrite <- (app_assoc _ (txt (i :: p) a) R).
        rewrite last_nonspace_app; [assumption|]. destruct (txt (i :: p) a); [congruence|discriminate]. }
      rewrite Es.
      assert (Hnn2 : [c_comma] ++ l2 ++ txt (i :: p) a ++ R <> []) by discriminate.
      rewrite (ltb_length_pos _ Hnn2). cbn [app first_char bind].
      rewrite (ltb_length_pos acc Hacc). replace (c_comma =? c_comma) with true by reflexivity.
      cbn [andb drop skipn]. apply (Hcommon l2 Hl2).
  Qed.

End Loops.
