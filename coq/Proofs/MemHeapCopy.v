(* deepcopy and the tree unfolding: the copy is a self-contained fresh region with the
   same content; the heap size is enough fuel on closed acyclic heaps. *)
From AwVerif Require Import Base.Prelude Model.MemHeap Proofs.MemHeapBase.
From Coq Require Import Arith Relations.
Local Open Scope nat_scope.

Definition wf (h : heap) : Prop := closed h /\ acyclic h.

Definition ext (h h' : heap) : Prop := exists new, h' = h ++ new.

(* every cell allocated between h and h' refers only to cells allocated between h and h' *)
Definition fresh_closed (h h' : heap) : Prop :=
  forall l c k, lookup h' l = Some c -> length h <= l -> In k (children c) ->
                length h <= k < length h'.

Lemma ext_refl : forall h, ext h h.
Proof. intro h. exists []. now rewrite app_nil_r. Qed.

Lemma ext_trans : forall a b c, ext a b -> ext b c -> ext a c.
Proof. intros a b c [x ->] [y ->]. exists (x ++ y). now rewrite app_assoc. Qed.

Lemma ext_length : forall h h', ext h h' -> length h <= length h'.
Proof. intros h h' [n ->]. rewrite app_length. lia. Qed.

Lemma ext_lookup : forall h h' l, ext h h' -> l < length h -> lookup h' l = lookup h l.
Proof. intros h h' l [n ->] L. now apply lookup_app_old. Qed.

Lemma ext_lookup_some : forall h h' l c, ext h h' -> lookup h l = Some c -> lookup h' l = Some c.
Proof. intros h h' l c [n ->] L. now apply lookup_app_some. Qed.

Lemma ext_alloc : forall h c, ext h (h ++ [c]).
Proof. intros. now exists [c]. Qed.

Lemma fresh_closed_refl : forall h, fresh_closed h h.
Proof. intros h l c k L G _. apply lookup_lt in L. lia. Qed.

Lemma fresh_closed_trans : forall a b c,
  ext a b -> ext b c -> fresh_closed a b -> fresh_closed b c -> fresh_closed a c.
Proof.
  intros a b c Eab Ebc Fab Fbc l x k L G I.
  pose proof (ext_length _ _ Eab). pose proof (ext_length _ _ Ebc).
  destruct (Nat.lt_ge_cases l (length b)) as [Lb|Lb].
  - rewrite (ext_lookup _ _ _ Ebc Lb) in L. specialize (Fab _ _ _ L G I). lia.
  - specialize (Fbc _ _ _ L Lb I). lia.
Qed.

Lemma fresh_closed_alloc : forall h0 h c,
  ext h0 h -> fresh_closed h0 h ->
  (forall k, In k (children c) -> length h0 <= k < length h) ->
  fresh_closed h0 (h ++ [c]).
Proof.
  intros h0 h c E F K l x k L G I. rewrite app_length; cbn.
  apply lookup_alloc_inv in L. destruct L as [[_ L]|[_ ->]].
  - specialize (F _ _ _ L G I). lia.
  - specialize (K _ I). lia.
Qed.

Lemma closed_ext : forall h h', closed h -> ext h h' -> fresh_closed h h' -> closed h'.
Proof.
  intros h h' C E F l c k L I. pose proof (ext_length _ _ E).
  destruct (Nat.lt_ge_cases l (length h)) as [Lb|Lb].
  - rewrite (ext_lookup _ _ _ E Lb) in L. specialize (C _ _ _ L I). lia.
  - apply (F _ _ _ L Lb I).
Qed.

(* ------------------------------------------------------------------------- *)
(* map_res *)

Lemma map_res_ok : forall {X Y} (f : X -> res Y) l ys,
  map_res f l = Ok ys <-> Forall2 (fun x y => f x = Ok y) l ys.
Proof.
  intros X Y f. induction l as [|x l IH]; intros ys; cbn.
  - split; intro H; [inversion H; constructor|inversion H; auto].
  - split; intro H.
    + destruct (f x) eqn:Fx; cbn in H; try discriminate.
      destruct (map_res f l) eqn:M; cbn in H; try discriminate. inversion H; subst.
      constructor; auto. now apply IH.
    + inversion H; subst. rewrite H2. cbn. apply IH in H4. rewrite H4. reflexivity.
Qed.

Lemma map_res_ext : forall {X Y} (f g : X -> res Y) l,
  (forall x, In x l -> f x = g x) -> map_res f l = map_res g l.
Proof.
  induction l as [|x l IH]; cbn; intros H; auto.
  rewrite H by auto. rewrite IH; auto.
Qed.

Lemma map_res_total : forall {X Y} (f : X -> res Y) l,
  (forall x, In x l -> exists y, f x = Ok y) -> exists ys, map_res f l = Ok ys.
Proof.
  induction l as [|x l IH]; cbn; intros H; eauto.
  destruct (H x) as (y & Fx); auto. destruct IH as (ys & M); auto.
  rewrite Fx, M. cbn. eauto.
Qed.

Lemma map_res_length : forall {X Y} (f : X -> res Y) l ys, map_res f l = Ok ys -> length ys = length l.
Proof. intros X Y f l ys H. apply map_res_ok in H. induction H; cbn; auto. Qed.

(* ------------------------------------------------------------------------- *)
(* content *)

Lemma content_app : forall f h new l t, content f h l = Ok t -> content f (h ++ new) l = Ok t.
Proof.
  induction f; cbn; intros h new l t H; [discriminate|].
  destruct (lookup h l) as [[tg ks]|] eqn:L; try discriminate.
  rewrite (lookup_app_some _ new _ _ L).
  destruct (map_res (content f h) ks) eqn:M; cbn in H; try discriminate.
  assert (M' : map_res (content f (h ++ new)) ks = Ok a).
  { apply map_res_ok. apply map_res_ok in M. clear -M IHf.
    induction M; constructor; auto. }
  rewrite M'. exact H.
Qed.

Lemma content_ext : forall f h h' l t, ext h h' -> content f h l = Ok t -> content f h' l = Ok t.
Proof. intros f h h' l t [n ->]. apply content_app. Qed.

Lemma content_mono : forall f h l t, content f h l = Ok t -> forall f', f <= f' -> content f' h l = Ok t.
Proof.
  induction f; cbn; intros h l t H f' LE; [discriminate|].
  destruct f'; [lia|]. cbn.
  destruct (lookup h l) as [[tg ks]|] eqn:L; try discriminate.
  destruct (map_res (content f h) ks) eqn:M; cbn in H; try discriminate.
  assert (M' : map_res (content f' h) ks = Ok a).
  { apply map_res_ok. apply map_res_ok in M. clear -M IHf LE.
    induction M; constructor; auto. apply IHf with (f' := f') in H; auto. lia. }
  rewrite M'. exact H.
Qed.

Lemma content_agree : forall f h h' l,
  (forall m, rt h l m -> lookup h' m = lookup h m) -> content f h' l = content f h l.
Proof.
  induction f; cbn; intros h h' l AG; auto.
  rewrite (AG l) by apply rt_here.
  destruct (lookup h l) as [[tg ks]|] eqn:L; auto.
  rewrite (map_res_ext (content f h') (content f h) ks); auto.
  intros k I. apply IHf. intros m R. apply AG.
  eapply rt_trans'; [apply edge_rt; exists (Cell tg ks); eauto|exact R].
Qed.

Lemma content_depth : forall f h l, depth_le h f l -> exists t, content f h l = Ok t.
Proof.
  induction f; cbn; intros h l D; [contradiction|].
  destruct D as ([tg ks] & L & K). rewrite L.
  destruct (map_res_total (content f h) ks) as (ys & M).
  { intros k I. apply IHf. apply K. exact I. }
  rewrite M. cbn. eauto.
Qed.

Lemma content_of_ok : forall h l, wf h -> l < length h -> exists t, content_of h l = Ok t.
Proof.
  intros h l [C A] B. apply content_depth. unfold fuel_of.
  eapply depth_le_mono; [now apply depth_bound|lia].
Qed.

(* the content of a value already present does not change when the heap grows *)
Lemma content_of_ext : forall h h' l t, ext h h' -> content_of h l = Ok t -> content_of h' l = Ok t.
Proof.
  unfold content_of, fuel_of. intros h h' l t E H.
  eapply content_mono; [eapply content_ext; eauto|]. apply ext_length in E. lia.
Qed.

(* ------------------------------------------------------------------------- *)
(* what a copying function must satisfy, and the same for a threaded list *)

Section CopySpec.
  Variable cp : heap -> loc -> res (heap * loc).
  Variable cont : heap -> loc -> res tree.

  (* in the heap after the copy, original and copy unfold to the same tree *)
  Definition copy_post (h : heap) (l : loc) (h' : heap) (l' : loc) : Prop :=
    ext h h' /\ length h <= l' < length h' /\ fresh_closed h h' /\
    (closed h -> acyclic h -> acyclic h') /\
    exists t, cont h' l = Ok t /\ cont h' l' = Ok t.

  Definition copies_post (h : heap) (ks : list loc) (h' : heap) (ks' : list loc) : Prop :=
    ext h h' /\ Forall (fun k' => length h <= k' < length h') ks' /\ fresh_closed h h' /\
    (closed h -> acyclic h -> acyclic h') /\
    exists ts, map_res (cont h') ks = Ok ts /\ map_res (cont h') ks' = Ok ts.

  Hypothesis cont_ext : forall h h' l t, ext h h' -> cont h l = Ok t -> cont h' l = Ok t.

  Lemma map_res_cont_ext : forall h h' ks ts,
    ext h h' -> map_res (cont h) ks = Ok ts -> map_res (cont h') ks = Ok ts.
  Proof.
    intros h h' ks ts E M. apply map_res_ok. apply map_res_ok in M.
    induction M; constructor; eauto.
  Qed.

  Lemma thread_spec : forall ks h h' ks',
    (forall h l h' l', In l ks -> cp h l = Ok (h', l') -> copy_post h l h' l') ->
    thread cp h ks = Ok (h', ks') -> copies_post h ks h' ks'.
  Proof.
    induction ks as [|k ks IH]; cbn; intros h h' ks' SP H.
    - inversion H; subst.
      split; [apply ext_refl|]. split; [constructor|]. split; [apply fresh_closed_refl|].
      split; [auto|]. exists []. split; reflexivity.
    - destruct (cp h k) as [[h1 k1]| |] eqn:C; cbn in H; try discriminate.
      destruct (thread cp h1 ks) as [[h2 ks2]| |] eqn:TH; cbn in H; try discriminate.
      inversion H; subst h' ks'; clear H.
      destruct (SP _ _ _ _ (or_introl eq_refl) C) as (E1 & B1 & F1 & A1 & t & T0 & T1).
      destruct (IH _ _ _ (fun h l h' l' I => SP h l h' l' (or_intror I)) TH)
        as (E2 & B2 & F2 & A2 & ts & M0 & M1).
      pose proof (ext_length _ _ E1). pose proof (ext_length _ _ E2).
      split; [eapply ext_trans; eauto|].
      split.
      { constructor; [lia|]. eapply Forall_impl; [|exact B2]. cbn; intros; lia. }
      split; [eapply fresh_closed_trans; eauto|].
      split.
      { intros C0 Ac. apply A2; auto. eapply closed_ext; eauto. }
      exists (t :: ts). split.
      + cbn. rewrite (cont_ext _ _ _ _ E2 T0). cbn. rewrite M0. reflexivity.
      + cbn. rewrite (cont_ext _ _ _ _ E2 T1). cbn. rewrite M1. reflexivity.
  Qed.

  (* success *)
  Lemma thread_total : forall (P : heap -> loc -> Prop) ks h,
    (forall h l, P h l -> exists h' l', cp h l = Ok (h', l') /\ forall m, P h m -> P h' m) ->
    (forall k, In k ks -> P h k) ->
    exists h' ks', thread cp h ks = Ok (h', ks').
  Proof.
    intros P. induction ks as [|k ks IH]; cbn; intros h SP K; eauto.
    destruct (SP h k) as (h1 & k1 & C & PR); auto. rewrite C. cbn.
    destruct (IH h1 SP) as (h2 & ks2 & TH).
    { intros x I. apply PR. auto. }
    rewrite TH. cbn. eauto.
  Qed.
End CopySpec.

(* ------------------------------------------------------------------------- *)
(* dcopy *)

Lemma dcopy_spec : forall f h l h' l',
  dcopy f h l = Ok (h', l') -> copy_post (content f) h l h' l'.
Proof.
  induction f; cbn; intros h l h' l' H; [discriminate|].
  destruct (lookup h l) as [[tg ks]|] eqn:L; try discriminate.
  destruct (thread (dcopy f) h ks) as [[h1 ks1]| |] eqn:TH; cbn in H; try discriminate.
  inversion H; subst h' l'; clear H.
  destruct (thread_spec (dcopy f) (content f) (content_ext f) ks h h1 ks1) as (E & B & F & A & ts & M0 & M1); auto.
  pose proof (ext_length _ _ E) as LE.
  assert (E' : ext h (h1 ++ [Cell tg ks1])) by (eapply ext_trans; [eauto|apply ext_alloc]).
  assert (K1 : forall k, In k (children (Cell tg ks1)) -> length h <= k < length h1).
  { cbn. intros k I. rewrite Forall_forall in B. auto. }
  split; auto.
  split; [rewrite app_length; cbn; lia|].
  split; [apply fresh_closed_alloc; auto|].
  split.
  { intros C Ac. apply acyclic_alloc; auto.
    - eapply closed_ext; eauto.
    - intros k I. apply K1 in I. lia. }
  exists (T tg ts). split.
  - rewrite (ext_lookup_some _ _ _ _ E' L).
    rewrite (map_res_cont_ext (content f) (content_ext f) h1 (h1 ++ [Cell tg ks1]) ks ts); auto using ext_alloc.
  - rewrite lookup_alloc_new.
    rewrite (map_res_cont_ext (content f) (content_ext f) h1 (h1 ++ [Cell tg ks1]) ks1 ts); auto using ext_alloc.
Qed.

Lemma dcopy_total : forall f h l, depth_le h f l -> exists h' l', dcopy f h l = Ok (h', l').
Proof.
  induction f; cbn; intros h l D; [contradiction|].
  destruct D as ([tg ks] & L & K). rewrite L.
  destruct (thread_total (dcopy f) (fun h l => depth_le h f l) ks h) as (h1 & ks1 & TH).
  2:{ intros k I. apply K. exact I. }
  { intros h0 l0 D0. destruct (IHf _ _ D0) as (h2 & l2 & C). exists h2, l2. split; auto.
    intros m Dm. destruct (dcopy_spec _ _ _ _ _ C) as ([new ->] & _). now apply depth_le_app. }
  rewrite TH. cbn. unfold alloc. eauto.
Qed.

(* ------------------------------------------------------------------------- *)
(* deepcopy = dcopy with the heap size as fuel *)

Lemma deepcopy_spec : forall h l h' l',
  deepcopy h l = Ok (h', l') -> copy_post content_of h l h' l'.
Proof.
  unfold deepcopy. intros h l h' l' H.
  destruct (dcopy_spec _ _ _ _ _ H) as (E & B & F & A & t & T0 & T1).
  pose proof (ext_length _ _ E).
  split; [auto|]. split; [lia|]. split; [auto|]. split; [auto|].
  exists t. unfold content_of, fuel_of in *. split; eapply content_mono; eauto; lia.
Qed.

Lemma deepcopy_spec' : forall h l h' l',
  deepcopy h l = Ok (h', l') -> copy_post content_of h l h' l'.
Proof. exact deepcopy_spec. Qed.

Lemma deepcopy_total : forall h l, wf h -> l < length h -> exists h' l', deepcopy h l = Ok (h', l').
Proof.
  intros h l [C A] B. apply dcopy_total. unfold fuel_of.
  eapply depth_le_mono; [now apply depth_bound|lia].
Qed.

(* fuel never runs out on a closed acyclic heap, whatever the argument *)
Lemma dcopy_dangling : forall f h l, length h <= l -> dcopy (S f) h l = Err KeyError.
Proof. intros. cbn. now rewrite lookup_ge. Qed.

Lemma deepcopy_cases : forall h l, wf h ->
  match deepcopy h l with
  | Ok hl => copy_post content_of h l (fst hl) (snd hl)
  | Err _ => True
  | OutOfFuel => False
  end.
Proof.
  intros h l W. destruct (Nat.lt_ge_cases l (length h)) as [B|B].
  - destruct (deepcopy_total _ _ W B) as (h' & l' & E). rewrite E. cbn.
    now apply deepcopy_spec'.
  - unfold deepcopy, fuel_of. now rewrite dcopy_dangling.
Qed.

Lemma deepcopy_wf : forall h l h' l', wf h -> deepcopy h l = Ok (h', l') -> wf h'.
Proof.
  intros h l h' l' [C A] H. destruct (deepcopy_spec _ _ _ _ H) as (E & B & F & A' & _).
  split; auto. eapply closed_ext; eauto.
Qed.

Lemma thread_deepcopy_spec : forall ks h h' ks',
  thread deepcopy h ks = Ok (h', ks') -> copies_post content_of h ks h' ks'.
Proof.
  intros. eapply thread_spec; eauto using content_of_ext.
  intros. now apply deepcopy_spec.
Qed.

Lemma thread_deepcopy_cases : forall ks h, wf h ->
  match thread deepcopy h ks with
  | Ok r => copies_post content_of h ks (fst r) (snd r)
  | Err _ => True
  | OutOfFuel => False
  end.
Proof.
  intros ks h W. destruct (thread deepcopy h ks) as [[h' ks']| |] eqn:E; auto.
  - now apply thread_deepcopy_spec.
  - revert h W E. induction ks as [|k ks IH]; cbn [thread]; intros h W E; [discriminate|].
    pose proof (deepcopy_cases h k W) as D.
    destruct (deepcopy h k) as [[h1 k1]| |] eqn:C; cbn [bind fst snd] in *; try discriminate; auto.
    destruct (thread deepcopy h1 ks) as [[h2 ks2]| |] eqn:TH; cbn [bind] in E; try discriminate.
    eapply IH; [|exact TH]. eapply deepcopy_wf; eauto.
Qed.

Lemma thread_deepcopy_total : forall ks h,
  wf h -> (forall k, In k ks -> k < length h) -> exists h' ks', thread deepcopy h ks = Ok (h', ks').
Proof.
  intros ks h W K.
  apply (thread_total deepcopy (fun h l => wf h /\ l < length h)); auto.
  intros h0 l0 [W0 B0]. destruct (deepcopy_total _ _ W0 B0) as (h1 & l1 & C).
  exists h1, l1. split; auto. intros m [_ Bm]. split; [eapply deepcopy_wf; eauto|].
  destruct (deepcopy_spec _ _ _ _ C) as (E & _). apply ext_length in E. lia.
Qed.

(* the old behaviour (copy.copy): the new top cell shares every child *)
Lemma shallow_copy_shares : forall h l h' l' c,
  shallow_copy h l = Ok (h', l') -> lookup h l = Some c ->
  lookup h' l' = Some c /\ forall k, In k (children c) -> edge h' l k /\ edge h' l' k.
Proof.
  unfold shallow_copy. intros h l h' l' c H L. rewrite L in H. inversion H; subst.
  split; [apply lookup_alloc_new|]. intros k I. split; exists c; split; auto.
  - now apply lookup_app_some.
  - apply lookup_alloc_new.
Qed.
