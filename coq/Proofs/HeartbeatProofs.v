From AwVerif Require Import Base.Prelude Model.Heartbeat.
From Coq Require Import ZifyBool.

(* ---- specification vocabulary ---- *)

Definition mergeable (p : Z) (l h : event) : Prop :=
  data l = data h /\ ts l <= ts h /\ ts h <= ts l + dur l + p /\ 0 <= dur l.

Definition hull (l h m : event) : Prop :=
  eid m = eid l /\ ts m = ts l /\ data m = data l /\
  eend m = Z.max (eend l) (eend h) /\ dur l <= dur m.

Definition fold_step (p : Z) (acc_rev : list event) (h : event) : list event :=
  match acc_rev with
  | [] => [h]
  | last :: older =>
      match heartbeat_merge last h p with
      | Some m => m :: older
      | None => h :: last :: older
      end
  end.

Fixpoint no_adjacent_mergeable (p : Z) (l : list event) : Prop :=
  match l with
  | a :: (b :: _) as t => heartbeat_merge a b p = None /\ no_adjacent_mergeable p t
  | _ => True
  end.

Definition covers_event (o e : event) : Prop :=
  ts o <= ts e /\ eend e <= eend o /\ data o = data e.

(* ---- heartbeat_merge ---- *)

Ltac split_ifs :=
  repeat match goal with
  | |- context [if ?b then _ else _] => let E := fresh "E" in destruct b eqn:E
  | H : context [if ?b then _ else _] |- _ => let E := fresh "E" in destruct b eqn:E
  end.

Lemma merge_some_iff : forall l h p,
  (exists m, heartbeat_merge l h p = Some m) <-> mergeable p l h.
Proof.
  intros l h p. unfold heartbeat_merge, mergeable. split.
  - intros [m Hm]. split_ifs; try discriminate; lia.
  - intros (Hd & H1 & H2 & H3). split_ifs; try (exfalso; lia); eauto.
Qed.

Lemma merge_none_iff : forall l h p,
  heartbeat_merge l h p = None <-> ~ mergeable p l h.
Proof.
  intros l h p. split.
  - intros Hn Hm. apply merge_some_iff in Hm. destruct Hm as [m Hm]. congruence.
  - intros Hn. destruct (heartbeat_merge l h p) eqn:E; [|reflexivity].
    exfalso. apply Hn. apply merge_some_iff. eauto.
Qed.

Lemma merge_value : forall l h p m,
  heartbeat_merge l h p = Some m ->
  m = set_dur l (Z.max (dur l) (ts h - ts l + dur h)).
Proof.
  intros l h p m. unfold heartbeat_merge. split_ifs; congruence.
Qed.

Lemma merge_hull : forall l h p m,
  heartbeat_merge l h p = Some m -> hull l h m.
Proof.
  intros l h p m Hm. pose proof (merge_value _ _ _ _ Hm) as ->.
  unfold hull, eend, set_dur; cbn [eid ts dur data]. repeat split; lia.
Qed.

(* whether [o] absorbs a heartbeat depends only on the heartbeat's start and data *)
Lemma merge_none_same_start : forall o a b p,
  heartbeat_merge o a p = None -> ts a = ts b -> data a = data b ->
  heartbeat_merge o b p = None.
Proof.
  intros o a b p Hn Ht Hd. apply merge_none_iff. apply merge_none_iff in Hn.
  unfold mergeable in *. rewrite <- Ht, <- Hd. exact Hn.
Qed.

(* ---- heartbeat_reduce is the left fold of the merge rule ---- *)

Lemma reduce_loop_fold : forall p l acc,
  acc <> [] -> reduce_loop p acc l = rev (fold_left (fold_step p) l acc).
Proof.
  intros p l. induction l as [|h t IH]; intros acc Hne; cbn [reduce_loop fold_left].
  - reflexivity.
  - destruct acc as [|last older]; [congruence|].
    cbn [fold_step]. destruct (heartbeat_merge last h p) as [m|]; apply IH; discriminate.
Qed.

Lemma reduce_is_fold : forall l p,
  heartbeat_reduce l p = rev (fold_left (fold_step p) l []).
Proof.
  intros [|first rest] p; [reflexivity|].
  cbn [heartbeat_reduce fold_left fold_step]. apply reduce_loop_fold. discriminate.
Qed.

(* ---- normal form ---- *)

(* the accumulator is newest-first: consecutive (newer, older) *)
Fixpoint acc_normal (p : Z) (acc : list event) : Prop :=
  match acc with
  | newer :: (older :: _) as t => heartbeat_merge older newer p = None /\ acc_normal p t
  | _ => True
  end.

Lemma fold_step_normal : forall p acc h, acc_normal p acc -> acc_normal p (fold_step p acc h).
Proof.
  intros p [|last older] h Hn; cbn [fold_step]; [exact I|].
  destruct (heartbeat_merge last h p) as [m|] eqn:E.
  - destruct older as [|o older']; [exact I|].
    cbn [acc_normal] in *. destruct Hn as [Hn1 Hn2]. split; [|exact Hn2].
    pose proof (merge_hull _ _ _ _ E) as (_ & Ht & Hd & _).
    eapply merge_none_same_start; [exact Hn1| |]; congruence.
  - cbn [acc_normal]. split; [exact E|exact Hn].
Qed.

Lemma fold_normal : forall p l acc, acc_normal p acc -> acc_normal p (fold_left (fold_step p) l acc).
Proof.
  intros p l. induction l as [|h t IH]; intros acc Hn; cbn [fold_left]; [exact Hn|].
  apply IH. apply fold_step_normal. exact Hn.
Qed.

Lemma acc_normal_rev : forall p acc older,
  acc_normal p acc -> no_adjacent_mergeable p older ->
  match acc, older with
  | newest :: _, o :: _ => heartbeat_merge newest o p = None
  | _, _ => True
  end ->
  no_adjacent_mergeable p (rev acc ++ older).
Proof.
  intros p acc. induction acc as [|x acc IH]; intros older Ha Ho Hlink; cbn [rev app].
  - exact Ho.
  - rewrite <- app_assoc. cbn [app]. apply IH.
    + destruct acc as [|y acc']; [exact I|]. cbn [acc_normal] in Ha. tauto.
    + destruct older as [|o older']; [exact I|]. cbn [no_adjacent_mergeable]. split; assumption.
    + destruct acc as [|y acc']; [exact I|]. cbn [acc_normal] in Ha. tauto.
Qed.

Lemma reduce_no_adjacent_mergeable : forall l p,
  no_adjacent_mergeable p (heartbeat_reduce l p).
Proof.
  intros l p. rewrite reduce_is_fold.
  pose proof (fold_normal p l [] I) as Hn.
  rewrite <- (app_nil_r (rev _)). apply acc_normal_rev; [exact Hn|exact I|].
  destruct (fold_left _ _ _); exact I.
Qed.

Lemma reduce_loop_fixed : forall p l last acc,
  no_adjacent_mergeable p (last :: l) ->
  reduce_loop p (last :: acc) l = rev (last :: acc) ++ l.
Proof.
  intros p l. induction l as [|h t IH]; intros last acc Hn; cbn [reduce_loop].
  - rewrite app_nil_r. reflexivity.
  - cbn [no_adjacent_mergeable] in Hn. destruct Hn as [Hm Hn]. rewrite Hm.
    rewrite IH by exact Hn. cbn [rev]. rewrite <- !app_assoc. reflexivity.
Qed.

Lemma reduce_fixed_point : forall l p,
  no_adjacent_mergeable p l -> heartbeat_reduce l p = l.
Proof.
  intros [|first rest] p Hn; [reflexivity|].
  cbn [heartbeat_reduce]. rewrite reduce_loop_fixed by exact Hn. reflexivity.
Qed.

Lemma reduce_idempotent : forall l p,
  heartbeat_reduce (heartbeat_reduce l p) p = heartbeat_reduce l p.
Proof.
  intros l p. apply reduce_fixed_point. apply reduce_no_adjacent_mergeable.
Qed.

(* ---- coverage ---- *)

Definition covered_by (acc : list event) (e : event) : Prop :=
  exists o, In o acc /\ covers_event o e.

Lemma fold_step_keeps_covered : forall p acc h e,
  covered_by acc e -> covered_by (fold_step p acc h) e.
Proof.
  intros p [|last older] h e (o & Hin & Hc); [destruct Hin|].
  cbn [fold_step]. destruct (heartbeat_merge last h p) as [m|] eqn:E.
  - destruct Hin as [<-|Hin].
    + exists m. split; [left; reflexivity|].
      pose proof (merge_hull _ _ _ _ E) as (_ & Ht & Hd & He & _).
      unfold covers_event in *. lia.
    + exists o. split; [right; exact Hin|exact Hc].
  - exists o. split; [right; exact Hin|exact Hc].
Qed.

Lemma fold_step_covers_new : forall p acc h, covered_by (fold_step p acc h) h.
Proof.
  intros p [|last older] h; cbn [fold_step].
  - exists h. split; [left; reflexivity|]. unfold covers_event. lia.
  - destruct (heartbeat_merge last h p) as [m|] eqn:E.
    + exists m. split; [left; reflexivity|].
      pose proof (merge_hull _ _ _ _ E) as (_ & Ht & Hd & He & _).
      assert (Hm : mergeable p last h) by (apply merge_some_iff; eauto).
      unfold mergeable in Hm. unfold covers_event. lia.
    + exists h. split; [left; reflexivity|]. unfold covers_event. lia.
Qed.

Lemma fold_covers : forall p l acc e,
  covered_by acc e \/ In e l -> covered_by (fold_left (fold_step p) l acc) e.
Proof.
  intros p l. induction l as [|h t IH]; intros acc e Hc; cbn [fold_left].
  - destruct Hc as [Hc|[]]. exact Hc.
  - apply IH. destruct Hc as [Hc|[<-|Hin]].
    + left. apply fold_step_keeps_covered. exact Hc.
    + left. apply fold_step_covers_new.
    + right. exact Hin.
Qed.

Lemma reduce_covers_inputs : forall l p e,
  In e l -> exists o, In o (heartbeat_reduce l p) /\ covers_event o e.
Proof.
  intros l p e Hin. rewrite reduce_is_fold.
  destruct (fold_covers p l [] e (or_intror Hin)) as (o & Ho & Hc).
  exists o. split; [apply in_rev in Ho; exact Ho|exact Hc].
Qed.
