(* Generic facts about Prelude.sort_by (stable insertion sort by a Z key) used by the C09
   proofs: it permutes, its output is sorted, and it is the identity on sorted lists (so
   the second sort inside _intersecting_eventpairs is a no-op). *)
From AwVerif Require Import Base.Prelude.
From Coq Require Import ZifyBool Sorting.Permutation.

Section SortFacts.
  Context {A : Type} (key : A -> Z).

  (* sorted, in the "every later element" form *)
  Fixpoint ssorted (l : list A) : Prop :=
    match l with
    | [] => True
    | a :: t => (forall b, In b t -> key a <= key b) /\ ssorted t
    end.

  Lemma insert_perm : forall x l, Permutation (insert_sorted key x l) (x :: l).
  Proof.
    intros x l. induction l as [|y t IH]; cbn [insert_sorted].
    - apply Permutation_refl.
    - destruct (key y <? key x).
      + eapply perm_trans; [apply perm_skip; exact IH|apply perm_swap].
      + apply Permutation_refl.
  Qed.

  Lemma sort_by_perm : forall l, Permutation (sort_by key l) l.
  Proof.
    intros l. induction l as [|x t IH]; cbn [sort_by fold_right].
    - apply perm_nil.
    - eapply perm_trans; [apply insert_perm|apply perm_skip; exact IH].
  Qed.

  Lemma sort_by_in : forall l x, In x (sort_by key l) <-> In x l.
  Proof.
    intros l x. split; apply Permutation_in;
      [apply sort_by_perm|apply Permutation_sym; apply sort_by_perm].
  Qed.

  Lemma sort_by_length : forall l, length (sort_by key l) = length l.
  Proof. intros l. apply Permutation_length. apply sort_by_perm. Qed.

  Lemma insert_ssorted : forall x l, ssorted l -> ssorted (insert_sorted key x l).
  Proof.
    intros x l. induction l as [|y t IH]; intros Hs; cbn [insert_sorted].
    - cbn [ssorted]. split; [intros b []|exact I].
    - cbn [ssorted] in Hs. destruct Hs as [Hy Ht].
      destruct (key y <? key x) eqn:E.
      + cbn [ssorted]. split; [|apply IH; exact Ht].
        intros b Hb. apply (Permutation_in _ (insert_perm x t)) in Hb.
        destruct Hb as [<-|Hb]; [lia|apply Hy; exact Hb].
      + cbn [ssorted]. split; [|split; assumption].
        intros b [<-|Hb]; [lia|]. specialize (Hy b Hb). lia.
  Qed.

  Lemma sort_by_ssorted : forall l, ssorted (sort_by key l).
  Proof.
    intros l. induction l as [|x t IH]; cbn [sort_by fold_right]; [exact I|].
    apply insert_ssorted. exact IH.
  Qed.

  Lemma sort_by_sorted_id : forall l, ssorted l -> sort_by key l = l.
  Proof.
    intros l. induction l as [|x t IH]; intros Hs; [reflexivity|].
    cbn [ssorted] in Hs. destruct Hs as [Hx Ht].
    cbn [sort_by fold_right]. fold (sort_by key t). rewrite (IH Ht).
    destruct t as [|y t']; [reflexivity|]. cbn [insert_sorted].
    specialize (Hx y (or_introl eq_refl)).
    destruct (key y <? key x) eqn:E; [lia|reflexivity].
  Qed.

  Lemma sort_by_idem : forall l, sort_by key (sort_by key l) = sort_by key l.
  Proof. intros l. apply sort_by_sorted_id. apply sort_by_ssorted. Qed.

  Lemma sort_by_forall : forall (P : A -> Prop) l, Forall P l -> Forall P (sort_by key l).
  Proof.
    intros P l H. rewrite Forall_forall in *. intros x Hx. apply H. apply sort_by_in. exact Hx.
  Qed.
End SortFacts.
