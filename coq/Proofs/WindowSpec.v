(* C03 -- the specification vocabulary ([meets], Model/Window.v) against the rounding of
   Bucket.get: moving from the requested edges to the rounded ones and back costs at most
   1 ms of margin. *)
From Coq Require Import Permutation Sorted ZifyBool.
From AwVerif Require Import Base.Prelude Model.StoreBase Model.Window Proofs.WindowRound Proofs.WindowBase.

Definition rnd_s (ws : option Z) : option Z := fst (bucket_get_round ws None).
Definition rnd_e (we : option Z) : option Z := snd (bucket_get_round None we).

Lemma round_fst : forall ws we, fst (bucket_get_round ws we) = option_map floor_ms ws.
Proof. intros. rewrite bucket_get_round_closed. reflexivity. Qed.
Lemma round_snd : forall ws we, snd (bucket_get_round ws we) = option_map (fun t => floor_ms t + 1000) we.
Proof. intros. rewrite bucket_get_round_closed. reflexivity. Qed.

Lemma meets_unfold : forall m ws we e,
  meets m ws we e = true <->
  (forall w, ws = Some w -> w + m <= eend e) /\ (forall w, we = Some w -> ts e <= w - m).
Proof.
  intros m ws we e. unfold meets. rewrite andb_true_iff. split.
  - intros [H1 H2]. split; intros w ->; lia.
  - intros [H1 H2]. split.
    + destruct ws as [w|]; [specialize (H1 w eq_refl); lia|reflexivity].
    + destruct we as [w|]; [specialize (H2 w eq_refl); lia|reflexivity].
Qed.

(* a larger margin is a stronger claim *)
Lemma meets_weaken : forall m m' ws we e, m' <= m -> meets m ws we e = true -> meets m' ws we e = true.
Proof.
  intros m m' ws we e Hm. rewrite !meets_unfold. intros [H1 H2]. split; intros w E.
  - specialize (H1 w E). lia.
  - specialize (H2 w E). lia.
Qed.

(* requested -> rounded: the rounded window contains the requested one *)
Lemma meets_to_rounded : forall m ws we e,
  meets m ws we e = true ->
  meets m (fst (bucket_get_round ws we)) (snd (bucket_get_round ws we)) e = true.
Proof.
  intros m ws we e. rewrite round_fst, round_snd, !meets_unfold. intros [H1 H2]. split; intros w E.
  - destruct ws as [w0|]; [|discriminate]. cbn [option_map] in E. injection E as <-.
    specialize (H1 w0 eq_refl). pose proof (floor_ms_bounds w0). lia.
  - destruct we as [w0|]; [|discriminate]. cbn [option_map] in E. injection E as <-.
    specialize (H2 w0 eq_refl). pose proof (floor_ms_bounds w0). lia.
Qed.

(* rounded -> requested: each rounded edge is within 1 ms of the requested one *)
Lemma meets_from_rounded : forall m ws we e,
  meets m (fst (bucket_get_round ws we)) (snd (bucket_get_round ws we)) e = true ->
  meets (m - 1000) ws we e = true.
Proof.
  intros m ws we e. rewrite round_fst, round_snd, !meets_unfold. intros [H1 H2]. split; intros w ->.
  - specialize (H1 _ eq_refl). pose proof (floor_ms_bounds w). lia.
  - specialize (H2 _ eq_refl). pose proof (floor_ms_bounds w). lia.
Qed.

(* the newest-first clause of a limited read: prefix against rest of a descending list *)
Lemma prefix_newer : forall (k : nat) (U : list event) x y,
  desc ts U -> In x (firstn k U) -> In y (skipn k U) -> ts y <= ts x.
Proof. intros k U x y S Hx Hy. exact (ss_prefix_rest _ k U x y S Hx Hy). Qed.

Lemma take_cases : forall {A} limit (U : list A),
  (limit = 0 -> take limit U = []) /\
  (limit < 0 -> take limit U = U) /\
  (0 < limit -> take limit U = firstn (Z.to_nat limit) U).
Proof.
  intros A limit U. unfold take. repeat split; intros H.
  - subst. reflexivity.
  - destruct (limit =? 0) eqn:E; [lia|]. destruct (limit <? 0) eqn:E'; [reflexivity|lia].
  - destruct (limit =? 0) eqn:E; [lia|]. destruct (limit <? 0) eqn:E'; [lia|reflexivity].
Qed.

Lemma take_desc : forall limit (U : list event), desc ts U -> desc ts (take limit U).
Proof.
  intros limit U S. unfold take. destruct (limit =? 0); [constructor|].
  destruct (limit <? 0); [assumption|]. now apply ss_firstn.
Qed.

Lemma take_In : forall {A} limit (U : list A) x, In x (take limit U) -> In x U.
Proof.
  intros A limit U x. unfold take. destruct (limit =? 0); [intros []|].
  destruct (limit <? 0); [trivial|]. apply w_firstn_In.
Qed.
