(* C03 -- the statement at the property's own tolerance DELTA = 2 ms, uniformly for the three
   back ends (corollaries of the per-back-end theorems, whose margins are sharper), and the
   documented domain limit of sqlite's open-ended read. *)
From Coq Require Import Permutation Sorted ZifyBool.
From AwVerif Require Import Base.Prelude Model.StoreBase Model.MemStore Model.SqliteStore
  Model.PeeweeStore Model.Window
  Proofs.WindowRound Proofs.WindowBase Proofs.WindowSpec Proofs.WindowMem Proofs.WindowSqlite
  Proofs.WindowPeewee.

Theorem mem_window_delta : forall c b m es ws we,
  mem_view c b = Some (m, es) ->
  (forall e, In e es -> meets DELTA ws we e = true ->
     exists U, mem_read c b (-1) ws we = Ok (OEvents U) /\ In e U) /\
  (forall limit L e, mem_read c b limit ws we = Ok (OEvents L) -> In e L ->
     In e es /\ meets (- DELTA) ws we e = true).
Proof.
  intros c b m es ws we V. split.
  - intros e I M. apply (mem_complete _ _ _ _ V); [assumption|].
    apply (meets_weaken DELTA); [unfold DELTA; lia|assumption].
  - intros limit L e R I. destruct (mem_sound _ _ _ _ V _ _ _ _ _ R I) as [I' [_ M]].
    split; [assumption|]. apply (meets_weaken (-1000)); [unfold DELTA; lia|assumption].
Qed.

Theorem sq_window_delta : forall plo phi c b m es ws we,
  float_param_ok plo -> float_param_ok phi ->
  sq_view c b = Some (m, es) -> edge_dom ws -> edge_dom we ->
  (forall e, In e es -> ev_dom e -> meets DELTA ws we e = true ->
     exists U, sq_read plo phi c b (-1) ws we = Ok (OEvents U) /\ In e U) /\
  (forall limit L e, sq_read plo phi c b limit ws we = Ok (OEvents L) -> In e L ->
     In e es /\ meets (- DELTA) ws we e = true).
Proof.
  intros plo phi c b m es ws we P1 P2 V D1 D2. split.
  - intros e I De M. apply (sq_complete plo phi P1 P2 _ _ _ _ V _ _ D1 D2); [assumption|assumption|].
    apply (meets_weaken DELTA); [unfold DELTA; lia|assumption].
  - intros limit L e R I.
    destruct (sq_sound plo phi P1 P2 _ _ _ _ V _ _ D1 D2 _ _ _ R I) as [I' [_ M]].
    split; [assumption|]. apply (meets_weaken (-1001)); [unfold DELTA; lia|assumption].
Qed.

Theorem pw_window_delta : forall sql_end_ms c b es ws we,
  sql_end_ok sql_end_ms ->
  pw_stored c b = Some es -> Forall pw_dom es -> ordered ws we ->
  (forall e, In e es -> meets DELTA ws we e = true ->
     exists U, pw_read sql_end_ms c b (-1) ws we = Ok (OEvents U) /\
               In (pw_clip (fst (bucket_get_round ws we)) (snd (bucket_get_round ws we)) e) U) /\
  (forall limit L x, pw_read sql_end_ms c b limit ws we = Ok (OEvents L) -> In x L ->
     exists e, In e es /\
               x = pw_clip (fst (bucket_get_round ws we)) (snd (bucket_get_round ws we)) e /\
               meets (- DELTA) ws we e = true).
Proof.
  intros f c b es ws we H V D O. split.
  - intros e I M. exact (pw_complete f H _ _ _ V D _ _ _ I M).
  - intros limit L x R I.
    destruct (pw_sound f H _ _ _ V D _ _ O _ _ _ R I) as [e [Ie [Ex [_ [_ M]]]]].
    exists e. repeat split; assumption.
Qed.

(* sqlite's open-ended read uses the integer bounds 0 / MAX_TIMESTAMP: an event that ended
   before 1970 is not returned by the unwindowed read.  Outside the 1970..2100 domain
   (hypothesis ev_dom of the sqlite theorems); recorded, not a finding. *)
Definition pre1970_state : sqstate :=
  fst (sq_step (fst (sq_step sq_init (CreateBucket 1 (mkMeta 1 1 1 0 None 0))))
               (InsertOne 1 (mkEvent None (-10000000) 1000000 7))).

Theorem sq_complete_needs_dom :
  exists m e, sq_view pre1970_state 1 = Some (m, [e]) /\ ~ ev_dom e /\
              sq_read (fun t => t) (fun t => t) pre1970_state 1 (-1) None None = Ok (OEvents []).
Proof.
  eexists _, _. split; [vm_compute; reflexivity|]. split.
  - unfold ev_dom, eend. cbn [ts dur]. lia.
  - vm_compute. reflexivity.
Qed.
