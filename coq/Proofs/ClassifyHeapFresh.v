(* What categorize / tag CREATE is not shared (round 3, seed class "results that share sub-objects").

   [rewrites] (ClassifyHeapFrame.v) says which cells are written and that a stored member is
   one of the caller's objects or a cell the call allocated - it does not say that two events
   get two DIFFERENT new cells.  A variant of the code that hands one list object to every
   uncategorized event (a module-level constant) satisfies it from the second call on.  Here:

   unshared_since n0 h    every cell with index >= n0 (= created since the heap had n0 cells)
                          is a member of at most one cell of h.

   Model/ClassifyHeap.v allocates the ["Uncategorized"] list / the $tags list inside the step
   of ONE event (categorize_one_h / tag_one_h), at index [length h] of the heap that step
   starts from; the invariant [fresh_inv] carries that through the loop, through an exception
   midway, and through the allocation of the returned list. *)
From AwVerif Require Import Base.Prelude Model.MemHeap Model.TransformHeap Model.DictHeap
  Model.ClassifyBase Model.Classify Model.ClassifyHeap
  Proofs.MemHeapBase Proofs.MemHeapCopy Proofs.MemHeapFrame Proofs.TransformHeapCopy
  Proofs.TransformHeapBase Proofs.DictHeapBase Proofs.ClassifyHeapFrame.
From Coq Require Import Arith Lia.
Local Open Scope nat_scope.
Local Notation lookup := MemHeap.lookup.

Definition unshared_since (n0 : nat) (h : heap) : Prop :=
  forall l1 l2 c1 c2 k, l1 <> l2 -> lookup h l1 = Some c1 -> lookup h l2 = Some c2 ->
    In k (children c1) -> In k (children c2) -> k < n0.

Definition fresh_inv (n0 : nat) (h : heap) : Prop :=
  closed h /\ n0 <= length h /\ unshared_since n0 h.

Lemma fresh_inv_start : forall h, closed h -> fresh_inv (length h) h.
Proof.
  intros h C. split; [auto|]. split; [lia|].
  intros l1 l2 c1 c2 k _ L1 _ I1 _. eapply C; eauto.
Qed.

(* allocating a cell all of whose members are old objects *)
Lemma fresh_inv_alloc_old : forall n0 h t kids, fresh_inv n0 h ->
  (forall k, In k kids -> k < n0) -> fresh_inv n0 (h ++ [Cell t kids]).
Proof.
  intros n0 h t kids (C & G & U) K. split; [|split].
  - apply closed_alloc; auto. cbn. intros k I. specialize (K _ I). lia.
  - rewrite app_length. cbn. lia.
  - intros l1 l2 c1 c2 k N L1 L2 I1 I2.
    apply lookup_alloc_inv in L1. apply lookup_alloc_inv in L2.
    destruct L1 as [[_ L1]|[_ ->]]; [|apply K; exact I1].
    destruct L2 as [[_ L2]|[_ ->]]; [|apply K; exact I2].
    eapply (U l1 l2); eauto.
Qed.

(* one annotation step: a cell without members is allocated, then the dict at dl is replaced by
   a dict whose members are those it had plus at most m, and m is THE cell just allocated or
   an object that existed before the call *)
Lemma fresh_inv_step : forall n0 h p dl z z' m, fresh_inv n0 h ->
  rd_dict h dl = Ok z ->
  (forall k, In k (unzip_k z') -> In k (unzip_k z) \/ k = m) ->
  (m = length h \/ m < n0) ->
  fresh_inv n0 (update (h ++ [Cell (TNode p) []]) dl (dict_cell z')).
Proof.
  intros n0 h p dl z z' m (C & G & U) RD Z M.
  destruct (rd_dict_inv _ _ _ RD) as (p0 & ks & Ld & _ & _ & UK).
  pose proof (lookup_lt _ _ _ Ld) as Bd.
  assert (KB : forall k, In k (unzip_k z') -> k < length (h ++ [Cell (TNode p) []])).
  { intros k I. rewrite app_length. cbn. destruct (Z _ I) as [I0| ->].
    - rewrite UK in I0. specialize (C _ _ _ Ld I0). lia.
    - destruct M; lia. }
  assert (ONE : forall l2 c2 k, l2 <> dl -> lookup (h ++ [Cell (TNode p) []]) l2 = Some c2 ->
                 In k (unzip_k z') -> In k (children c2) -> k < n0).
  { intros l2 c2 k N L2 I1 I2. apply lookup_alloc_inv in L2.
    destruct L2 as [[_ L2]|[_ ->]]; [|destruct I2].
    destruct (Z _ I1) as [I0| ->].
    - rewrite UK in I0. eapply (U dl l2); eauto.
    - destruct M as [->|M]; auto. specialize (C _ _ _ L2 I2). lia. }
  split; [|split].
  - apply closed_update; [apply closed_alloc; auto; intros k []|]. exact KB.
  - rewrite update_length, app_length. cbn. lia.
  - intros l1 l2 c1 c2 k N L1 L2 I1 I2.
    destruct (Nat.eq_dec l1 dl) as [->|N1]; [|destruct (Nat.eq_dec l2 dl) as [->|N2]].
    + rewrite lookup_update_same in L1 by (rewrite app_length; cbn; lia). inversion L1; subst c1.
      rewrite lookup_update_other in L2 by auto. eapply ONE; eauto.
    + rewrite lookup_update_same in L2 by (rewrite app_length; cbn; lia). inversion L2; subst c2.
      rewrite lookup_update_other in L1 by auto. eapply ONE; eauto.
    + rewrite lookup_update_other in L1, L2 by auto.
      apply lookup_alloc_inv in L1. apply lookup_alloc_inv in L2.
      destruct L1 as [[_ L1]|[_ ->]]; [|destruct I1].
      destruct L2 as [[_ L2]|[_ ->]]; [|destruct I2].
      eapply (U l1 l2); eauto.
Qed.

Lemma each_fresh : forall n0 (f : heap -> loc -> res heap),
  (forall h e h', fresh_inv n0 h -> f h e = Ok h' -> fresh_inv n0 h') ->
  forall ks h, fresh_inv n0 h -> fresh_inv n0 (fst (each_h f h ks)).
Proof.
  intros n0 f F. induction ks as [|e ks IH]; cbn [each_h]; intros h I; auto.
  destruct (f h e) as [h'| |] eqn:E; cbn [fst]; auto. apply IH. eapply F; eauto.
Qed.

Section Steps.
  Variable re_search : Z -> bool -> Z -> bool.

  Lemma categorize_one_fresh : forall n0 (classes : list (loc * rule)) h e h',
    (forall c, In c (map fst classes) -> c < n0) ->
    fresh_inv n0 h -> categorize_one_h re_search classes h e = Ok h' -> fresh_inv n0 h'.
  Proof.
    intros n0 classes h e h' CL I H. unfold categorize_one_h in H.
    destruct (bind_ok _ _ _ H) as (dl & RD & H1). clear H.
    destruct (bind_ok _ _ _ H1) as (z & RZ & H2). clear H1.
    destruct (bind_ok _ _ _ H2) as (d & CD & H3). clear H2. cbn [alloc fst snd] in H3.
    destruct (bind_ok _ _ _ H3) as (c & PK & H4). clear H3.
    destruct (Nat.eqb c dl); try discriminate.
    destruct (wr_dict_inv _ _ _ _ H4) as (p & kk & _ & ->). clear H4.
    destruct (pick_h_in _ _ _ _ PK) as [[->|IC] _].
    - eapply fresh_inv_step with (m := length h); eauto.
      intros k Ik. destruct (unzip_k_zset _ _ _ _ Ik) as [O|E]; auto. inversion E; auto.
    - eapply fresh_inv_step with (m := c); eauto.
      + intros k Ik. destruct (unzip_k_zset _ _ _ _ Ik) as [O|E]; auto. inversion E; auto.
      + right. apply CL. eapply matching_in; eauto.
  Qed.

  Lemma tag_one_fresh : forall n0 (classes : list (Z * rule)) h e h',
    fresh_inv n0 h -> tag_one_h re_search classes h e = Ok h' -> fresh_inv n0 h'.
  Proof.
    intros n0 classes h e h' I H. unfold tag_one_h in H.
    destruct (bind_ok _ _ _ H) as (dl & RD & H1). clear H.
    destruct (bind_ok _ _ _ H1) as (z & RZ & H2). clear H1.
    destruct (bind_ok _ _ _ H2) as (d & CD & H3). clear H2. cbn [alloc fst snd] in H3.
    destruct (wr_dict_inv _ _ _ _ H3) as (p & kk & _ & ->). clear H3.
    eapply fresh_inv_step with (m := length h); eauto.
    intros k Ik. destruct (unzip_k_zset _ _ _ _ Ik) as [O|E]; auto. inversion E; auto.
  Qed.

  Lemma list_elems_old : forall h L ks, closed h -> list_elems h L = Ok ks -> forall k, In k ks -> k < length h.
  Proof.
    unfold list_elems. intros h L ks C H k I.
    destruct (lookup h L) as [[[? ? ?|p] ks']|] eqn:E; inversion H; subst.
    eapply (C L); eauto.
  Qed.

  Lemma categorize_h_fresh : forall h L classes h' r, closed h ->
    (forall c, In c (map fst classes) -> c < length h) ->
    categorize_h re_search h L classes = (h', r) -> fresh_inv (length h) h'.
  Proof.
    intros h L classes h' r C CL H. unfold categorize_h in H.
    destruct (list_elems h L) as [ks| |] eqn:LE;
      [|inversion H; subst; now apply fresh_inv_start|inversion H; subst; now apply fresh_inv_start].
    assert (E : fresh_inv (length h) (fst (each_h (categorize_one_h re_search classes) h ks))).
    { apply each_fresh; [|now apply fresh_inv_start]. intros; eapply categorize_one_fresh; eauto. }
    destruct (snd (each_h (categorize_one_h re_search classes) h ks)); inversion H; subst; auto.
    unfold new_list, alloc. cbn [fst]. apply fresh_inv_alloc_old; auto.
    eapply list_elems_old; eauto.
  Qed.

  Lemma tag_h_fresh : forall h L classes h' r, closed h ->
    tag_h re_search h L classes = (h', r) -> fresh_inv (length h) h'.
  Proof.
    intros h L classes h' r C H. unfold tag_h in H.
    destruct (list_elems h L) as [ks| |] eqn:LE;
      [|inversion H; subst; now apply fresh_inv_start|inversion H; subst; now apply fresh_inv_start].
    assert (E : fresh_inv (length h) (fst (each_h (tag_one_h re_search classes) h ks))).
    { apply each_fresh; [|now apply fresh_inv_start]. intros; eapply tag_one_fresh; eauto. }
    destruct (snd (each_h (tag_one_h re_search classes) h ks)); inversion H; subst; auto.
    unfold new_list, alloc. cbn [fst]. apply fresh_inv_alloc_old; auto.
    eapply list_elems_old; eauto.
  Qed.
End Steps.

(* read through the dicts: two different dict objects never hold the same new object *)
Lemma unshared_dicts : forall n0 h d1 d2 z1 z2 k1 k2 c, unshared_since n0 h -> d1 <> d2 ->
  rd_dict h d1 = Ok z1 -> rd_dict h d2 = Ok z2 ->
  zget k1 z1 = Some (ZK c) -> zget k2 z2 = Some (ZK c) -> c < n0.
Proof.
  intros n0 h d1 d2 z1 z2 k1 k2 c U N R1 R2 G1 G2.
  destruct (rd_dict_inv _ _ _ R1) as (p1 & ks1 & L1 & _ & _ & U1).
  destruct (rd_dict_inv _ _ _ R2) as (p2 & ks2 & L2 & _ & _ & U2).
  apply zget_unzip_k in G1. apply zget_unzip_k in G2. rewrite U1 in G1. rewrite U2 in G2.
  eapply (U d1 d2); eauto.
Qed.

(* the consumer's edit: replacing the content of a NEW cell c changes the members / payload of no
   other cell, and at most one cell refers to c - so at most one dict reads differently *)
Lemma edit_new_cell_one_reader : forall n0 h c cell', unshared_since n0 h -> n0 <= c ->
  (forall l, l <> c -> lookup (update h c cell') l = lookup h l) /\
  (forall l1 l2 c1 c2, lookup h l1 = Some c1 -> lookup h l2 = Some c2 ->
     In c (children c1) -> In c (children c2) -> l1 = l2).
Proof.
  intros n0 h c cell' U G. split.
  - intros l N. now apply lookup_update_other.
  - intros l1 l2 c1 c2 L1 L2 I1 I2. destruct (Nat.eq_dec l1 l2) as [|N]; auto.
    specialize (U _ _ _ _ _ N L1 L2 I1 I2). lia.
Qed.
