(* Lemmas about chunk_events_by_key of Model/Group.v. *)
From AwVerif Require Import Base.Prelude Model.Group Proofs.GroupSort.
From Coq Require Import ZifyBool.

(* the longest prefix of events that carry the key (the loop `break`s at the first
   event lacking it) *)
Fixpoint key_prefix (key : Z) (l : list gev) : list gev :=
  match l with
  | [] => []
  | e :: t => match lookup key (gdata e) with
              | Some _ => e :: key_prefix key t
              | None => []
              end
  end.

(* what the statement asks of one chunk: it has a first sub-event which gives the
   timestamp; its duration is the exact sum of its sub-events'; every sub-event carries
   the key with the chunk's value *)
Definition chunk_ok (key : Z) (c : chunk) : Prop :=
  (exists s0 rest, csub c = s0 :: rest /\ cts c = floor_ms (gts s0)) /\
  cdur c = sumZ (map gdur (csub c)) /\
  Forall (fun s => lookup key (gdata s) = Some (cval c)) (csub c).

Lemma new_chunk_ok : forall key e v,
  lookup key (gdata e) = Some v -> chunk_ok key (new_chunk e v).
Proof.
  intros key e v H. unfold chunk_ok, new_chunk. cbn [csub cts cdur cval map sumZ fold_right].
  split; [exists e, []; auto|]. split; [lia|]. apply Forall_cons; [exact H | apply Forall_nil].
Qed.

Lemma chunk_add_ok : forall key c e,
  chunk_ok key c -> lookup key (gdata e) = Some (cval c) -> chunk_ok key (chunk_add c e).
Proof.
  intros key c e [[s0 [rest [Hs Ht]]] [Hd Hf]] He. unfold chunk_ok, chunk_add.
  cbn [csub cts cdur cval]. split; [|split].
  - exists s0, (rest ++ [e]). rewrite Hs. auto.
  - rewrite map_app, sumZ_app, Hd. cbn [map sumZ fold_right]. lia.
  - apply Forall_app. split; [exact Hf|]. apply Forall_cons; [exact He | apply Forall_nil].
Qed.

Lemma chunk_loop_spec : forall key pulse last_end evs acc,
  Forall (chunk_ok key) acc ->
  Forall (chunk_ok key) (chunk_loop key pulse last_end evs acc) /\
  concat (map csub (chunk_loop key pulse last_end evs acc))
    = concat (map csub (rev acc)) ++ key_prefix key evs.
Proof.
  intros key pulse last_end evs. induction evs as [|e rest IH]; intros acc Hacc;
    cbn [chunk_loop key_prefix].
  - split; [apply Forall_rev; exact Hacc | rewrite app_nil_r; reflexivity].
  - destruct (lookup key (gdata e)) as [v|] eqn:El.
    + destruct acc as [|c older].
      * destruct (IH [new_chunk e v]) as [H1 H2].
        { apply Forall_cons; [apply new_chunk_ok; exact El | apply Forall_nil]. }
        split; [exact H1|]. rewrite H2. cbn [rev app map concat new_chunk csub]. reflexivity.
      * destruct ((cval c =? v) && (gts e - last_end <? pulse)) eqn:Ec.
        -- assert (Ev : cval c = v) by lia.
           destruct (IH (chunk_add c e :: older)) as [H1 H2].
           { inversion Hacc as [|? ? Hc Ho]; subst.
             apply Forall_cons; [apply chunk_add_ok; [exact Hc | exact El] | exact Ho]. }
           split; [exact H1|]. rewrite H2. cbn [rev].
           rewrite !map_app, !concat_app. cbn [map concat chunk_add csub].
           rewrite !app_nil_r, <- !app_assoc. reflexivity.
        -- destruct (IH (new_chunk e v :: c :: older)) as [H1 H2].
           { apply Forall_cons; [apply new_chunk_ok; exact El | exact Hacc]. }
           split; [exact H1|]. rewrite H2. cbn [rev].
           rewrite !map_app, !concat_app. cbn [map concat new_chunk csub].
           rewrite !app_nil_r, <- !app_assoc. reflexivity.
    + split; [apply Forall_rev; exact Hacc | rewrite app_nil_r; reflexivity].
Qed.

Lemma chunk_partition : forall events key pulse,
  concat (map csub (chunk_events_by_key events key pulse)) = key_prefix key events /\
  Forall (chunk_ok key) (chunk_events_by_key events key pulse).
Proof.
  intros events key pulse. unfold chunk_events_by_key.
  destruct (rev events) as [|l r] eqn:Er.
  - assert (events = []) as ->.
    { rewrite <- (rev_involutive events), Er. reflexivity. }
    split; [reflexivity | apply Forall_nil].
  - destruct (chunk_loop_spec key pulse (gts l + gdur l) events [] (Forall_nil _)) as [H1 H2].
    split; [exact H2 | exact H1].
Qed.

(* total duration of the chunks = total duration of the key-bearing prefix *)
Lemma chunks_sum : forall key cs,
  Forall (chunk_ok key) cs ->
  sumZ (map cdur cs) = sumZ (map gdur (concat (map csub cs))).
Proof.
  intros key cs Hf. induction Hf as [|c t Hc Hf IH]; cbn [map concat sumZ fold_right].
  - reflexivity.
  - rewrite map_app, sumZ_app. destruct Hc as [_ [Hd _]].
    fold (sumZ (map cdur t)). rewrite Hd, IH. reflexivity.
Qed.

Lemma chunk_total : forall events key pulse,
  sumZ (map cdur (chunk_events_by_key events key pulse)) = sumZ (map gdur (key_prefix key events)).
Proof.
  intros events key pulse. destruct (chunk_partition events key pulse) as [Hc Hf].
  rewrite <- Hc. apply (chunks_sum key). exact Hf.
Qed.

(* when the whole list carries the key, the prefix is the list *)
Lemma key_prefix_all : forall key l,
  Forall (fun e => lookup key (gdata e) <> None) l -> key_prefix key l = l.
Proof.
  intros key l H. induction H as [|e t He Ht IH]; cbn [key_prefix].
  - reflexivity.
  - destruct (lookup key (gdata e)); [rewrite IH; reflexivity | contradiction].
Qed.

(* key_prefix is a prefix, all of its events carry the key, and the event after it (if
   any) does not *)
Lemma key_prefix_spec : forall key l,
  exists rest, l = key_prefix key l ++ rest /\
    Forall (fun e => lookup key (gdata e) <> None) (key_prefix key l) /\
    match rest with [] => True | e :: _ => lookup key (gdata e) = None end.
Proof.
  intros key l. induction l as [|e t IH]; cbn [key_prefix].
  - exists []. split; [reflexivity|]. split; [apply Forall_nil | exact I].
  - destruct (lookup key (gdata e)) eqn:El.
    + destruct IH as [rest [H1 [H2 H3]]]. exists rest. split; [cbn [app]; rewrite <- H1; reflexivity|].
      split; [|exact H3]. apply Forall_cons; [rewrite El; discriminate | exact H2].
    + exists (e :: t). split; [reflexivity|]. split; [apply Forall_nil | exact El].
Qed.
