(* Further generic facts (kept apart from StoreBaseFacts so that files already built on it
   need no rebuild): in-list commutation of filter and update_where, find on a list that
   has a witness, chunks, composition of spec_many. *)
From Coq Require Import Permutation Sorted ZifyBool.
From AwVerif Require Import Base.Prelude Model.StoreBase Model.StoreSpec
  Proofs.StoreBaseFacts.

Lemma filter_update_where_comm_in : forall {R} (p q : R -> bool) (f : R -> R) l,
  (forall r, In r l -> q r = true -> p (f r) = p r) ->
  filter p (update_where q f l) = update_where q f (filter p l).
Proof.
  induction l as [|a t IH]; intros H; cbn; [reflexivity|].
  assert (IH' : filter p (update_where q f t) = update_where q f (filter p t)).
  { apply IH. intros. apply H; [now right|assumption]. }
  unfold update_where in IH'. destruct (q a) eqn:Q.
  - rewrite (H a (or_introl eq_refl) Q). destruct (p a); cbn; [rewrite Q; f_equal|]; assumption.
  - destruct (p a); cbn; [rewrite Q; f_equal|]; assumption.
Qed.

Lemma find_exists : forall {A} (p : A -> bool) l x, In x l -> p x = true -> exists y, find p l = Some y.
Proof.
  induction l as [|a t IH]; intros x I P; [destruct I|]. cbn. destruct (p a) eqn:Pa; [eauto|].
  destruct I as [->|I]; [congruence|]. eapply IH; eassumption.
Qed.

Lemma concat_chunks_aux : forall {A} (l : list A) n k cur,
  concat (chunks_aux n k cur l) = rev cur ++ l.
Proof.
  induction l as [|x t IH]; intros n k cur; cbn [chunks_aux].
  - destruct cur; cbn; [reflexivity|]. now rewrite app_nil_r.
  - destruct k as [|[|k']].
    + cbn [concat]. rewrite IH. cbn. now rewrite <- app_assoc.
    + cbn [concat]. rewrite IH. cbn. now rewrite <- app_assoc.
    + rewrite IH. cbn. now rewrite <- app_assoc.
Qed.

Lemma concat_chunks : forall {A} n (l : list A), concat (chunks n l) = l.
Proof. intros. unfold chunks. now rewrite concat_chunks_aux. Qed.

Lemma spec_many_app : forall l1 cur R1, spec_many cur l1 R1 ->
  forall l2 R2, spec_many R1 l2 R2 -> spec_many cur (l1 ++ l2) R2.
Proof.
  induction 1 as [cur|cur e i t r Ee S IH|cur e i t r Ee NL S IH]; intros l2 R2 H2; cbn.
  - assumption.
  - eapply sm_upsert; [eassumption|]. now apply IH.
  - eapply sm_insert; [eassumption|eassumption|]. now apply IH.
Qed.
