(* C14, the trigger: detect_db_files / check_for_migration / SqliteStorage.__init__'s
   decision, over directory listings.  Lemmas about Model/Migration.v (Part 1). *)
From Coq Require Import Ascii String.
From AwVerif Require Import Base.Prelude Model.StoreBase Model.SqliteStore Model.PeeweeStore
  Model.Migration Proofs.MigrationBase.

(* the model writes its string constants as code-point lists; this is their text *)
Fixpoint codes (s : string) : name :=
  match s with
  | EmptyString => []
  | String c t => Z.of_N (N_of_ascii c) :: codes t
  end.

Lemma names_text :
  SID_SQLITE = codes "sqlite" /\ PEEWEE_TYPE = codes "peewee-sqlite" /\
  TESTING_SUFFIX = codes "-testing" /\ DB_EXT = codes ".db" /\ VERSION_PREFIX = codes "v" /\
  DOT :: nil = codes "." /\
  sq_filename false = codes "sqlite.v1.db" /\ sq_filename true = codes "sqlite-testing.v1.db" /\
  pw_filename false = codes "peewee-sqlite.v2.db" /\ pw_filename true = codes "peewee-sqlite-testing.v2.db" /\
  pw_ds_name false = codes "peewee-sqlite" /\ pw_ds_name true = codes "peewee-sqlite-testing" /\
  sq_created_files true = codes "sqlite-testing.v1.db" :: nil /\
  vtag 2 = codes "v2" /\ vtag (-13) = codes "v-13" /\ vtag 0 = codes "v0" /\ vtag 1024 = codes "v1024".
Proof. repeat split; reflexivity. Qed.

Lemma name_eqb_eq : forall a b, name_eqb a b = true <-> a = b.
Proof.
  induction a as [|x a IH]; destruct b as [|y b]; cbn; split; intros H; try reflexivity; try discriminate.
  - apply andb_true_iff in H. destruct H as [H1 H2]. apply Z.eqb_eq in H1. apply IH in H2. congruence.
  - inversion H; subst. rewrite Z.eqb_refl. cbn. apply IH. reflexivity.
Qed.

Lemma name_eqb_refl : forall a, name_eqb a a = true.
Proof. intros a. apply name_eqb_eq. reflexivity. Qed.

Lemma name_eqb_neq : forall a b, name_eqb a b = false <-> a <> b.
Proof.
  intros a b. split.
  - intros H E. apply name_eqb_eq in E. congruence.
  - intros H. destruct (name_eqb a b) eqn:E; [|reflexivity]. apply name_eqb_eq in E. contradiction.
Qed.

Lemma mem_In : forall n l, existsb (name_eqb n) l = true <-> In n l.
Proof.
  intros n l. rewrite existsb_exists. split.
  - intros [x [Hx E]]. apply name_eqb_eq in E. subst. exact Hx.
  - intros H. exists n. split; [exact H|apply name_eqb_refl].
Qed.

(* a name without a dot is its own first component *)
Lemma dotless_component0 : forall n, snd (split_dot n) = [] -> component0 n = n.
Proof.
  unfold component0. induction n as [|c n IH]; [reflexivity|].
  cbn [split_dot]. destruct (split_dot n) as [h r]. destruct (c =? DOT); cbn [fst snd].
  - discriminate.
  - intros Hr. cbn [fst snd] in IH. rewrite (IH Hr). reflexivity.
Qed.

(* the test detect_db_files applies for (name, version 2), as one boolean *)
Definition version_match (n : name) : bool :=
  match snd (split_dot n) with
  | c :: _ => name_eqb c (vtag PEEWEE_MIGRATE_VERSION)
  | [] => false
  end.
Definition legacy_match (testing : bool) (n : name) : bool :=
  name_eqb (component0 n) (pw_ds_name testing) && version_match n.

Lemma filter_res_ok : forall {X} (p : X -> res bool) (q : X -> bool) l,
  (forall x, In x l -> p x = Ok (q x)) -> filter_res p l = Ok (filter q l).
Proof.
  induction l as [|y l IH]; intros H; [reflexivity|].
  cbn [filter_res filter]. rewrite (H y (or_introl eq_refl)).
  rewrite IH by (intros x Hx; apply H; right; exact Hx). reflexivity.
Qed.

Lemma filter_filter : forall {X} (p q : X -> bool) l,
  filter q (filter p l) = filter (fun x => p x && q x) l.
Proof.
  induction l as [|y l IH]; [reflexivity|]. cbn [filter].
  destruct (p y); cbn [filter andb]; [destruct (q y)|]; rewrite IH; reflexivity.
Qed.

Lemma length_filter_pos : forall {X} (p : X -> bool) l,
  (0 <? Z.of_nat (length (filter p l))) = existsb p l.
Proof.
  induction l as [|y l IH]; [reflexivity|]. cbn [filter existsb].
  destruct (p y); cbn [orb length]; [|exact IH].
  rewrite Nat2Z.inj_succ. apply Z.ltb_lt. lia.
Qed.

Lemma pw_ds_name_truthy : forall t, str_truthy (pw_ds_name t) = true.
Proof. intros []; reflexivity. Qed.

Theorem detect_legacy : forall testing listing,
  ~ In (pw_ds_name testing) listing ->
  detect_db_files listing (Some (pw_ds_name testing)) (Some PEEWEE_MIGRATE_VERSION) =
  Ok (filter (legacy_match testing) listing).
Proof.
  intros testing listing Hdot. unfold detect_db_files. rewrite pw_ds_name_truthy.
  change (PEEWEE_MIGRATE_VERSION =? 0) with false. cbv iota.
  rewrite (filter_res_ok _ version_match).
  - rewrite filter_filter. reflexivity.
  - intros x Hx. apply filter_In in Hx. destruct Hx as [Hin Hn].
    unfold component1, version_match. destruct (snd (split_dot x)) as [|c r] eqn:E; [|reflexivity].
    exfalso. apply Hdot. apply name_eqb_eq in Hn. rewrite (dotless_component0 x E) in Hn. subst x. exact Hin.
Qed.

Theorem check_for_migration_spec : forall testing listing,
  ~ In (pw_ds_name testing) listing ->
  check_for_migration SID_SQLITE testing listing = Ok (existsb (legacy_match testing) listing).
Proof.
  intros testing listing Hdot. unfold check_for_migration. rewrite name_eqb_refl.
  rewrite detect_legacy by exact Hdot. rewrite length_filter_pos. reflexivity.
Qed.

Lemma check_for_migration_other_sid : forall sid testing listing,
  sid <> SID_SQLITE -> check_for_migration sid testing listing = Ok false.
Proof.
  intros sid testing listing H. unfold check_for_migration.
  apply name_eqb_neq in H. rewrite H. reflexivity.
Qed.

Lemma created_not_legacy : forall testing t',
  existsb (legacy_match testing) (sq_created_files t') = false.
Proof. intros [] []; vm_compute; reflexivity. Qed.

Lemma created_not_dotless : forall testing t', ~ In (pw_ds_name testing) (sq_created_files t').
Proof. intros [] []; vm_compute; intuition discriminate. Qed.

(* SqliteStorage.__init__ at the default path: the migration runs iff the sqlite file is new
   and some entry of the data dir passes the (name, v2) test -- provided no entry is exactly
   the dot-less legacy name (then `split(".")[1]` raises, see trigger_index_error). *)
Theorem trigger_general : forall testing listing,
  ~ In (pw_ds_name testing) listing ->
  sq_init_migrates testing DefaultPath listing =
  Ok (negb (existsb (name_eqb (sq_filename testing)) listing) && existsb (legacy_match testing) listing).
Proof.
  intros testing listing Hdot. unfold sq_init_migrates, new_db_file.
  destruct (existsb (name_eqb (sq_filename testing)) listing); cbn [negb andb]; [reflexivity|].
  rewrite check_for_migration_spec.
  - rewrite existsb_app, created_not_legacy, orb_false_r. reflexivity.
  - intros H. apply in_app_or in H. destruct H as [H|H]; [exact (Hdot H)|exact (created_not_dotless _ _ H)].
Qed.

Theorem trigger_custom_path : forall testing e listing,
  sq_init_migrates testing (CustomPath e) listing = Ok false.
Proof. intros. unfold sq_init_migrates. rewrite andb_false_r. reflexivity. Qed.

Theorem trigger_existing_file : forall testing listing,
  In (sq_filename testing) listing -> sq_init_migrates testing DefaultPath listing = Ok false.
Proof.
  intros testing listing H. unfold sq_init_migrates, new_db_file.
  apply mem_In in H. rewrite H. reflexivity.
Qed.

(* no entry whose first component is this profile's legacy name: nothing runs -- in
   particular the other profile's legacy file never triggers *)
Theorem trigger_never_cross : forall testing listing,
  (forall n, In n listing -> component0 n <> pw_ds_name testing) ->
  sq_init_migrates testing DefaultPath listing = Ok false.
Proof.
  intros testing listing H. rewrite trigger_general.
  - replace (existsb (legacy_match testing) listing) with false; [rewrite andb_false_r; reflexivity|].
    symmetry. apply existsb_false_iff. intros n Hn. unfold legacy_match.
    apply H in Hn. apply name_eqb_neq in Hn. rewrite Hn. reflexivity.
  - intros Hin. apply (H _ Hin). destruct testing; reflexivity.
Qed.

Lemma other_profile_component0 : forall testing,
  component0 (pw_filename (negb testing)) <> pw_ds_name testing.
Proof. intros []; vm_compute; discriminate. Qed.

(* the names the two stores themselves create in the data dir *)
Definition store_files : list name :=
  flat_map (fun t => [pw_filename t; sq_filename t;
                      sq_filename t ++ [45; 115; 104; 109]  (* "-shm" *);
                      sq_filename t ++ [45; 119; 97; 108]   (* "-wal" *)]) [true; false].

Lemma store_files_text :
  store_files = List.map codes
    ("peewee-sqlite-testing.v2.db" :: "sqlite-testing.v1.db" :: "sqlite-testing.v1.db-shm" :: "sqlite-testing.v1.db-wal" ::
     "peewee-sqlite.v2.db" :: "sqlite.v1.db" :: "sqlite.v1.db-shm" :: "sqlite.v1.db-wal" :: nil)%string.
Proof. reflexivity. Qed.

Lemma store_files_match : forall testing n,
  In n store_files -> legacy_match testing n = name_eqb (pw_filename testing) n.
Proof.
  intros testing n H. vm_compute in H.
  repeat (destruct H as [<-|H]); try contradiction; destruct testing; vm_compute; reflexivity.
Qed.

Lemma store_files_not_dotless : forall testing, ~ In (pw_ds_name testing) store_files.
Proof. intros []; vm_compute; intuition discriminate. Qed.

Theorem trigger_store_names : forall testing listing,
  (forall n, In n listing -> In n store_files) ->
  sq_init_migrates testing DefaultPath listing =
  Ok (negb (existsb (name_eqb (sq_filename testing)) listing) &&
      existsb (name_eqb (pw_filename testing)) listing).
Proof.
  intros testing listing H. rewrite trigger_general.
  - f_equal. f_equal. induction listing as [|n l IH]; [reflexivity|].
    cbn [existsb]. rewrite store_files_match by (apply H; left; reflexivity).
    rewrite IH by (intros x Hx; apply H; right; exact Hx). reflexivity.
  - intros Hin. apply (store_files_not_dotless testing). apply H. exact Hin.
Qed.

Corollary trigger_store_names_iff : forall testing listing,
  (forall n, In n listing -> In n store_files) ->
  exists b, sq_init_migrates testing DefaultPath listing = Ok b /\
            (b = true <-> ~ In (sq_filename testing) listing /\ In (pw_filename testing) listing).
Proof.
  intros testing listing H. rewrite trigger_store_names by exact H.
  eexists. split; [reflexivity|].
  rewrite andb_true_iff, negb_true_iff, <- !mem_In.
  split; intros [H1 H2]; split; try assumption.
  - rewrite H1. discriminate.
  - destruct (existsb (name_eqb (sq_filename testing)) listing); [exfalso; apply H1; reflexivity|reflexivity].
Qed.

(* the legacy file of the same profile triggers whatever else is in the directory *)
Theorem trigger_legacy_present : forall testing listing,
  ~ In (pw_ds_name testing) listing ->
  ~ In (sq_filename testing) listing -> In (pw_filename testing) listing ->
  sq_init_migrates testing DefaultPath listing = Ok true.
Proof.
  intros testing listing Hdot Hnew Hleg. rewrite trigger_general by exact Hdot.
  replace (existsb (name_eqb (sq_filename testing)) listing) with false.
  - cbn [negb andb]. f_equal. apply existsb_exists. exists (pw_filename testing). split; [exact Hleg|].
    destruct testing; vm_compute; reflexivity.
  - symmetry. destruct (existsb (name_eqb (sq_filename testing)) listing) eqn:E; [|reflexivity].
    apply mem_In in E. contradiction.
Qed.

(* the hypothesis about dot-less names is needed *)
Lemma trigger_index_error : forall testing,
  sq_init_migrates testing DefaultPath [pw_ds_name testing; pw_filename testing] = Err IndexError.
Proof. intros []; vm_compute; reflexivity. Qed.
