(* Measure of point sets over Z microseconds, by counting instants in a window, and the
   two "total duration = measure" lemmas of C09.  No property statements. *)
From AwVerif Require Import Base.Prelude Model.Timeslot Model.Intersect
  Proofs.IntersectSlot Proofs.IntersectSort Proofs.IntersectProofs Proofs.IntersectUnion.
From Coq Require Import ZifyBool.

(* number of instants t in [lo, lo + n) with P t: the measure, in microseconds, of the part
   of P inside the window *)
Fixpoint count (P : Z -> bool) (lo : Z) (n : nat) : Z :=
  match n with
  | O => 0
  | S k => (if P lo then 1 else 0) + count P (lo + 1) k
  end.

Definition inb (e : event) (t : Z) : bool := (ts e <=? t) && (t <? eend e).
Definition coversb (l : list event) (t : Z) : bool := existsb (fun e => inb e t) l.

Lemma coversb_covers : forall l t, coversb l t = true <-> covers l t.
Proof.
  intros l t. unfold coversb, covers. rewrite existsb_exists.
  split; intros (e & He & Hc); exists e; (split; [exact He|]); unfold inb in *; lia.
Qed.

Lemma bool_iff_eq : forall a b : bool, (a = true <-> b = true) -> a = b.
Proof. intros [|] [|] H; try reflexivity; [symmetry|]; tauto. Qed.

Lemma count_ext : forall P Q n lo,
  (forall t, lo <= t < lo + Z.of_nat n -> P t = Q t) -> count P lo n = count Q lo n.
Proof.
  intros P Q. induction n as [|k IH]; intros lo H; [reflexivity|].
  cbn [count]. rewrite (H lo) by lia. rewrite (IH (lo + 1)); [reflexivity|].
  intros t Ht. apply H. lia.
Qed.

Lemma count_or : forall P Q n lo,
  (forall t, lo <= t < lo + Z.of_nat n -> P t && Q t = false) ->
  count (fun t => P t || Q t) lo n = count P lo n + count Q lo n.
Proof.
  intros P Q. induction n as [|k IH]; intros lo H; [reflexivity|].
  cbn [count]. rewrite (IH (lo + 1)) by (intros t Ht; apply H; lia).
  specialize (H lo ltac:(lia)). destruct (P lo), (Q lo); cbn [orb andb] in *; try discriminate; lia.
Qed.

Lemma count_interval_gen : forall s e n lo,
  count (fun t => (s <=? t) && (t <? e)) lo n
  = Z.max 0 (Z.min e (lo + Z.of_nat n) - Z.max s lo).
Proof.
  intros s e. induction n as [|k IH]; intros lo.
  - cbn [count]. lia.
  - cbn [count]. rewrite IH.
    destruct ((s <=? lo) && (lo <? e)) eqn:E; lia.
Qed.

Lemma count_interval : forall s e n lo,
  lo <= s -> s <= e -> e <= lo + Z.of_nat n ->
  count (fun t => (s <=? t) && (t <? e)) lo n = e - s.
Proof. intros. rewrite count_interval_gen. lia. Qed.

(* a non-overlapping list's total duration is the measure of the set it covers *)
Lemma chain_measure : forall l lo n,
  chain l -> (forall e, In e l -> lo <= ts e /\ eend e <= lo + Z.of_nat n) ->
  count (coversb l) lo n = sumZ (map dur l).
Proof.
  induction l as [|a t IH]; intros lo n C W.
  - cbn [map sumZ fold_right]. rewrite (count_ext _ (fun t => (0 <=? t) && (t <? 0)) n lo).
    + rewrite count_interval_gen. lia.
    + intros x _. cbn. lia.
  - cbn [chain] in C. destruct C as (Hd & Hn & Ct).
    cbn [map sumZ fold_right]. fold (sumZ (map dur t)).
    rewrite <- (IH lo n Ct) by (intros e He; apply W; right; exact He).
    rewrite (count_ext (coversb (a :: t)) (fun x => inb a x || coversb t x)) by (intros; reflexivity).
    rewrite count_or.
    + f_equal. unfold inb. destruct (W a (or_introl eq_refl)) as [W1 W2].
      rewrite count_interval; unfold eend in *; lia.
    + intros x _. destruct (inb a x) eqn:Ea; [|reflexivity].
      destruct (coversb t x) eqn:Et; [|reflexivity]. exfalso.
      apply coversb_covers in Et. destruct Et as (e & He & Hc).
      specialize (Hn e He). unfold inb in Ea. lia.
Qed.

(* ---------------------------------------------------------------------------------- *)
(* intersection: output covers exactly the common time                                 *)

Lemma fpi_covers : forall a b out t,
  nonoverlapping (sort_by ts a) -> nonoverlapping (sort_by ts b) ->
  Forall aligned a -> Forall aligned b ->
  filter_period_intersect a b = Ok out ->
  (covers out t <-> covers a t /\ covers b t).
Proof.
  intros a b out t Na Nb Ha Hb H. split.
  - intros (o & Ho & Hc).
    destruct (fpi_sound _ _ _ o Ha Hb H Ho) as (e & f & He & Hf & _ & _ & _ & _ & H1 & H2 & H3 & H4 & _).
    split; [exists e|exists f]; (split; [assumption|lia]).
  - intros [(e & He & Hce) (f & Hf & Hcf)].
    assert (Hp : pos_overlap e f) by (unfold pos_overlap; lia).
    exists (piece_event e f). split; [exact (fpi_complete _ _ _ _ _ Na Nb Ha Hb H He Hf Hp)|].
    unfold piece_event, eend. cbn [ts dur]. unfold eend in *. lia.
Qed.

Lemma fpi_measure : forall a b out lo n,
  nonoverlapping (sort_by ts a) -> nonoverlapping (sort_by ts b) ->
  Forall aligned a -> Forall aligned b ->
  filter_period_intersect a b = Ok out ->
  (forall e, In e a -> lo <= ts e /\ eend e <= lo + Z.of_nat n) ->
  sumZ (map dur out) = count (fun t => coversb a t && coversb b t) lo n.
Proof.
  intros a b out lo n Na Nb Ha Hb H W.
  rewrite <- (chain_measure out lo n).
  - apply count_ext. intros t _. apply bool_iff_eq.
    rewrite andb_true_iff, !coversb_covers. apply (fpi_covers _ _ _ t Na Nb Ha Hb H).
  - apply nonoverlapping_chain. exact (fpi_out_chain _ _ _ Na Nb Ha Hb H).
  - intros o Ho.
    destruct (fpi_sound _ _ _ o Ha Hb H Ho) as (e & f & He & Hf & _ & _ & _ & _ & H1 & H2 & H3 & H4 & _).
    destruct (W e He). lia.
Qed.

(* ---------------------------------------------------------------------------------- *)
(* union: total duration = measure of the covered time                                 *)

Lemma gapped_nonneg_chain : forall l, gapped l -> Forall (fun o => 0 <= dur o) l -> chain l.
Proof.
  intros l G F. apply nonoverlapping_chain. induction l as [|a t IH]; [exact I|].
  cbn [gapped] in G. destruct G as [G1 G2].
  cbn [nonoverlapping]. repeat split.
  - exact (Forall_inv F).
  - destruct t as [|b t']; [exact I|lia].
  - apply IH; [exact G2|exact (Forall_inv_tail F)].
Qed.

Lemma pu_measure : forall empty a b out lo n,
  Forall (fun e => 0 <= dur e) (a ++ b) -> Forall aligned (a ++ b) ->
  period_union empty a b = Ok out ->
  (forall e, In e (a ++ b) -> lo <= ts e /\ eend e <= lo + Z.of_nat n) ->
  sumZ (map dur out) = count (coversb (a ++ b)) lo n.
Proof.
  intros empty a b out lo n Hn Ha H W.
  rewrite <- (chain_measure out lo n).
  - apply count_ext. intros t _. apply bool_iff_eq.
    rewrite !coversb_covers. apply (pu_covers empty a b Hn Ha out t H).
  - apply gapped_nonneg_chain; [exact (pu_gapped empty a b Hn Ha out H)|].
    rewrite Forall_forall. intros o Ho. apply (pu_nonneg empty a b Hn Ha out o H Ho).
  - intros o Ho.
    destruct (pu_endpoints empty a b Hn Ha out o H Ho) as [(x & Hx & Hxt) (y & Hy & Hye)].
    destruct (W x Hx), (W y Hy). lia.
Qed.
