(* Facts about the reference list model itself: bulk upsert-then-insert (what the SQL back
   ends do) is the sequential bulk operation of the specification when the upsert ids are
   live beforehand. *)
From Coq Require Import Permutation Sorted ZifyBool.
From AwVerif Require Import Base.Prelude Model.StoreBase Model.StoreSpec
  Proofs.StoreBaseFacts Proofs.StoreMemProofs.

Definition noid (e : event) : bool := match eid e with None => true | Some _ => false end.

(* all the upserts of a bulk call, in order *)
Definition ups (cur : list event) (es : list event) : list event :=
  fold_left (fun cur e => match eid e with Some i => spec_replace i e cur | None => cur end) es cur.

Lemma live_ids_ups : forall es cur, live_ids (ups cur es) = live_ids cur.
Proof.
  unfold ups. induction es as [|e t IH]; intros cur; [reflexivity|]. cbn.
  destruct (eid e) as [i|]; [|apply IH]. rewrite IH. apply live_ids_replace.
Qed.

Lemma spec_replace_snoc : forall i e cur x,
  has_id i x = false -> spec_replace i e (cur ++ [x]) = spec_replace i e cur ++ [x].
Proof. intros. unfold spec_replace. rewrite map_app. cbn. now rewrite H. Qed.

Lemma ups_snoc : forall es cur x,
  (forall e i, In e es -> eid e = Some i -> has_id i x = false) ->
  ups (cur ++ [x]) es = ups cur es ++ [x].
Proof.
  unfold ups. induction es as [|e t IH]; intros cur x H; [reflexivity|]. cbn.
  destruct (eid e) as [i|] eqn:E.
  - rewrite spec_replace_snoc by (apply (H e i); [now left|assumption]).
    apply IH. intros e' i' I'. apply H. now right.
  - apply IH. intros e' i' I'. apply H. now right.
Qed.

Lemma spec_many_reorder : forall es cur R,
  (forall e i, In e es -> eid e = Some i -> is_live i cur) ->
  spec_many (ups cur es) (filter noid es) R -> spec_many cur es R.
Proof.
  induction es as [|e t IH]; intros cur R L H; [exact H|].
  cbn in H. unfold noid at 1 in H. unfold ups in H. cbn [fold_left] in H.
  destruct (eid e) as [i|] eqn:E.
  - eapply sm_upsert; [eassumption|]. apply IH; [|exact H].
    intros e' i' I' E'. unfold is_live. rewrite live_ids_replace. apply (L e' i'); [now right|assumption].
  - fold (ups cur t) in H. inversion H as [|? ? ? ? ? Ee|? ? j ? ? Ee NL S]; subst; [congruence|].
    assert (Fresh : forall e' i', In e' t -> eid e' = Some i' -> has_id i' (set_eid e (Some j)) = false).
    { intros e' i' I' E'. unfold has_id. cbn. destruct (j =? i') eqn:X; [|reflexivity]. exfalso.
      apply NL. unfold is_live. rewrite live_ids_ups. assert (j = i') by lia. subst.
      apply (L e' i'); [now right|assumption]. }
    rewrite <- (ups_snoc t cur _ Fresh) in S.
    apply (sm_insert cur e j t R E).
    + intro X. apply NL. unfold is_live in *. now rewrite live_ids_ups.
    + apply IH; [|exact S]. intros e' i' I' E'. unfold is_live. rewrite live_ids_app.
      apply in_app_iff. left. apply (L e' i'); [now right|assumption].
Qed.
