(* C10, part 4: flood's output is a normal form.  Neighbouring output events either touch
   or are more than the pulsetime apart, every such list is a fixed point of flood, hence
   flood is idempotent on its domain. *)
From AwVerif Require Import Base.Prelude Model.Flood Proofs.FloodStep Proofs.FloodWalk.
From Coq Require Import ZifyBool.

(* every gap (first one measured from [lo]) is 0 or longer than p; durations >= 0 *)
Fixpoint gapped (p lo : Z) (l : list event) : Prop :=
  match l with
  | [] => True
  | e :: t => (ts e - lo = 0 \/ p < ts e - lo) /\ 0 <= dur e /\ gapped p (eend e) t
  end.

Definition settled (p : Z) (l : list event) : Prop :=
  match l with
  | [] => True
  | c :: r => gapped p (ts c) (c :: r) /\ Forall (fun e => 0 < dur e) (c :: r)
  end.

(* one step leaves the pair touching, or the gap was long and nothing happened *)
Lemma fill_step_gap : forall p c n,
  ev_ok c -> ev_ok n -> eend c <= ts n ->
  ts (snd (fill_step p c n)) - eend (fst (fill_step p c n)) = 0 \/
  p < ts (snd (fill_step p c n)) - eend (fst (fill_step p c n)).
Proof.
  intros p c n (Hdc & Hac1 & Hac2) (Hdn & Han1 & Han2) Hsep.
  pose proof (floor_ms_id (ts c) Hac1) as F1.
  pose proof (floor_ms_id (ts c + dur c) (aligned_add _ _ Hac1 Hac2)) as F2.
  pose proof (floor_ms_id (ts n + dur n) (aligned_add _ _ Han1 Han2)) as F3.
  unfold eend in *.
  unfold fill_step, flood_step, negative_gap_trim_thres.
  split_ifs; cbn [fst snd];
    unfold assign_ts, set_dur, set_ts; cbn [ts dur data eid];
    rewrite ?F1, ?F2, ?F3; lia.
Qed.

Lemma gapped_shift : forall p lo x l,
  0 <= p -> (x - lo = 0 \/ p < x - lo) -> gapped p x l -> gapped p lo l.
Proof.
  intros p lo x [|e t] Hp Hx; cbn [gapped]; [tauto|].
  intros (Hg & Hd & Ht). repeat split; [lia|exact Hd|exact Ht].
Qed.

Lemma gapped_filter : forall p l lo,
  0 <= p -> gapped p lo l -> gapped p lo (filter positive_duration l).
Proof.
  intros p l. induction l as [|e t IH]; intros lo Hp; cbn [gapped filter]; [tauto|].
  intros (Hg & Hd & Ht). unfold positive_duration at 1. destruct (dur e >? 0) eqn:E.
  - cbn [gapped]. repeat split; [exact Hg|exact Hd|apply IH; assumption].
  - apply IH; [exact Hp|]. apply (gapped_shift p lo (eend e)); [exact Hp|unfold eend; lia|exact Ht].
Qed.

Lemma walk_gapped : forall p rest c lo,
  ev_ok c -> Forall ev_ok rest -> chain c rest ->
  (ts c - lo = 0 \/ p < ts c - lo) -> gapped p lo (walk p c rest).
Proof.
  intros p rest. induction rest as [|n r IH]; intros c lo Hc Hr Hch Hlo; cbn [walk gapped].
  - destruct Hc as (Hd & _). repeat split; assumption.
  - inversion Hr as [|? ? Hn Hr']; subst. destruct Hch as [Hsep Hch].
    pose proof (fill_step_spec p c n Hc Hn Hsep) as S.
    pose proof (fill_step_gap p c n Hc Hn Hsep) as G.
    destruct S. destruct ss_ok_c as (Hdc' & _).
    repeat split.
    + rewrite ss_ts_c. exact Hlo.
    + exact Hdc'.
    + apply IH; [exact ss_ok_n|exact Hr'|eapply chain_end_eq; [exact ss_end_n|exact Hch]|exact G].
Qed.

Lemma flood_settled : forall l p,
  0 <= p -> flood_domain l -> settled p (flood l p).
Proof.
  intros l p Hp [Hok Hno]. pose proof (flood_nonoverlapping_positive l p (conj Hok Hno)) as [_ Hpos].
  revert Hpos. rewrite flood_unfold. apply (sort_by_Forall _ _) in Hok.
  destruct (sort_by ts l) as [|c r]; [intros _; exact I|].
  inversion Hok; subst. intros Hpos.
  assert (G : gapped p (ts c) (filter positive_duration (walk p c r))).
  { apply gapped_filter; [exact Hp|]. apply walk_gapped; [assumption..|lia]. }
  destruct (filter positive_duration (walk p c r)) as [|o os] eqn:E; [exact I|].
  split; [|exact Hpos]. cbn [gapped] in *. destruct G as (G1 & G2 & G3).
  repeat split; [lia|exact G2|exact G3].
Qed.

(* ---- settled lists are fixed points ---- *)

Lemma gapped_sorted_head : forall p lo l e,
  0 <= p -> gapped p lo l -> In e l -> lo <= ts e.
Proof.
  intros p lo l. revert lo. induction l as [|x t IH]; intros lo e Hp; cbn [gapped]; [intros _ []|].
  intros (Hg & Hd & Ht) [->|Hin]; [lia|].
  specialize (IH (eend x) e Hp Ht Hin). unfold eend in IH. lia.
Qed.

Lemma sort_gapped : forall p l lo,
  0 <= p -> gapped p lo l -> sort_by ts l = l.
Proof.
  intros p l. induction l as [|x t IH]; intros lo Hp; [reflexivity|]. cbn [gapped].
  intros (Hg & Hd & Ht).
  change (sort_by ts (x :: t)) with (insert_sorted ts x (sort_by ts t)).
  rewrite (IH (eend x) Hp Ht). destruct t as [|y t']; [reflexivity|].
  cbn [insert_sorted]. cbn [gapped] in Ht. destruct Ht as (Hy & _). unfold eend in Hy.
  destruct (ts y <? ts x) eqn:E; [exfalso; lia|reflexivity].
Qed.

Lemma walk_gapped_id : forall p r c,
  gapped p (eend c) r -> 0 <= p -> walk p c r = c :: r.
Proof.
  intros p r. induction r as [|n r IH]; intros c Hg Hp; cbn [walk]; [reflexivity|].
  cbn [gapped] in Hg. destruct Hg as (Hg & Hd & Ht).
  rewrite (fill_step_gap_zero_or_long p c n); [|lia|exact Hg]. cbn [fst snd].
  rewrite (IH n Ht Hp). reflexivity.
Qed.

Lemma filter_positive_id : forall l,
  Forall (fun e => 0 < dur e) l -> filter positive_duration l = l.
Proof.
  induction l as [|e t IH]; intros H; [reflexivity|]. inversion H; subst. cbn [filter].
  unfold positive_duration at 1. destruct (dur e >? 0) eqn:E; [|exfalso; lia].
  rewrite IH by assumption. reflexivity.
Qed.

Lemma flood_fixed_point : forall l p,
  0 <= p -> settled p l -> flood l p = l.
Proof.
  intros [|c r] p Hp; [reflexivity|]. intros [Hg Hpos].
  rewrite flood_unfold. rewrite (sort_gapped p (c :: r) (ts c) Hp Hg).
  cbn [gapped] in Hg. destruct Hg as (_ & _ & Hg).
  rewrite (walk_gapped_id p r c Hg Hp). apply filter_positive_id. exact Hpos.
Qed.

Lemma flood_idempotent : forall l p,
  0 <= p -> flood_domain l -> flood (flood l p) p = flood l p.
Proof. intros l p Hp Hd. apply flood_fixed_point; [exact Hp|]. apply flood_settled; assumption. Qed.
