(* C01: the time codecs of the SQL back ends (Model/Codec.v, Proofs/Codec.v -- float/text
   models by the float agent) composed with the Event constructor's normalisation
   (Model/EventModel.v) and tied to the rows of the store models, whose time codec is the
   identity: what `row_event` / `prow_event` say a row reads back as is what the float / text
   decode of the real code computes from that row's cells. *)
From Coq Require Import ZArith Bool List Lia Ascii PrimFloat.
From AwVerif Require Import Base.Prelude Model.StoreBase Model.SqliteStore Model.PeeweeStore
  Model.PyFloat Model.IsoTime Model.EventModel Model.Codec
  Proofs.EventProofs Proofs.IsoTimeProofs Proofs.Codec.
Open Scope Z_scope.

(* ---------- peewee: timestamp text and duration float together ---------- *)
(* (peewee_ts_roundtrip: Proofs/Codec.v, via IsoTimeProofs.parse_isoformat + EventProofs.normalise_str) *)
Theorem peewee_codec_roundtrip : forall t d, ms_aligned t -> 0 <= t <= y2100 -> Z.abs d < codec_bound ->
  peewee_ts_dec (peewee_ts_enc t) = Ok t /\ bind (peewee_dur_enc d) peewee_dur_dec = Ok d.
Proof.
  intros t d A Ht Hd. split; [now apply peewee_ts_roundtrip|now apply peewee_duration_roundtrip].
Qed.

(* ---------- from the caller's datetime to what is read back ---------- *)
(* Event(timestamp = aware datetime with instant u, utcoffset off) stores floor_ms u; sqlite
   then stores (start, end) and decodes them through float division and fromtimestamp *)
Theorem sqlite_end_to_end : forall u off d,
  0 <= u <= y2100 -> off mod 1000 = 0 -> 0 <= d -> u + d < 2 ^ 52 ->
  bind (set_timestamp (TsDt u off)) (fun t => sqlite_dec (sqlite_enc t d)) = Ok (floor_ms u, d).
Proof.
  intros u off d Hu Ho Hd Hb. rewrite (normalise_dt u off Hu Ho). cbn [bind].
  pose proof (Z.mod_pos_bound u 1000 ltac:(lia)) as M. pose proof (floor_ms_mod u) as F.
  apply sqlite_codec_roundtrip_52; try lia.
  unfold ms_aligned. rewrite F. unfold floor_ms in *.
  replace (u - u mod 1000) with ((u / 1000) * 1000) by (pose proof (Z.div_mod u 1000); lia).
  apply Z.mod_mul. lia.
Qed.

Theorem peewee_end_to_end : forall u off d,
  0 <= u <= y2100 -> off mod 1000 = 0 -> Z.abs d < codec_bound ->
  bind (set_timestamp (TsDt u off)) (fun t => peewee_ts_dec (peewee_ts_enc t)) = Ok (floor_ms u) /\
  bind (peewee_dur_enc d) peewee_dur_dec = Ok d.
Proof.
  intros u off d Hu Ho Hd. rewrite (normalise_dt u off Hu Ho). cbn [bind].
  pose proof (Z.mod_pos_bound u 1000 ltac:(lia)) as M. pose proof (floor_ms_mod u) as F.
  apply peewee_codec_roundtrip; [|lia|exact Hd].
  unfold ms_aligned. rewrite F.
  replace (u - u mod 1000) with ((u / 1000) * 1000) by (pose proof (Z.div_mod u 1000); lia).
  apply Z.mod_mul. lia.
Qed.

(* ---------- the rows of the store models ---------- *)
(* sqlite: the INSERT / UPDATE of the model writes exactly the cells _event_to_us computes *)
Lemma sqlite_cells_are_enc : forall r e,
  (er_start (set_cells r e), er_end (set_cells r e)) = sqlite_enc (ts e) (dur e).
Proof. reflexivity. Qed.

Lemma sqlite_insert_cells_are_enc : forall c b e c' i,
  sql_insert_event c b e = Ok (c', i) ->
  exists r, In r (sq_events c') /\ er_id r = i /\ (er_start r, er_end r) = sqlite_enc (ts e) (dur e).
Proof.
  intros c b e c' i H. unfold sql_insert_event in H.
  destruct (sql_bucket_rowid c b) as [rid|]; [|discriminate]. inversion H; subst; clear H.
  eexists. split; [cbn; apply in_app_iff; right; now left|]. split; reflexivity.
Qed.

(* the identity-codec reading of a row (row_event) is what _rows_to_events computes from its
   two INTEGER cells, for every row in the property's domain *)
Theorem sqlite_row_decode : forall r,
  ms_aligned (er_start r) -> 0 <= er_start r <= er_end r -> er_end r < 2 ^ 52 ->
  sqlite_dec (er_start r, er_end r) = Ok (ts (row_event r), dur (row_event r)).
Proof.
  intros r A H B. cbn [row_event ts dur].
  replace (er_start r, er_end r) with (sqlite_enc (er_start r) (er_end r - er_start r))
    by (unfold sqlite_enc; f_equal; lia).
  apply sqlite_codec_roundtrip_52; [exact A|lia|lia|lia].
Qed.

(* peewee: timestamp text and duration float of a row decode to what prow_event says *)
Theorem peewee_row_decode : forall r,
  ms_aligned (pe_ts r) -> 0 <= pe_ts r <= y2100 -> Z.abs (pe_dur r) < codec_bound ->
  peewee_ts_dec (peewee_ts_enc (pe_ts r)) = Ok (ts (prow_event r)) /\
  bind (peewee_dur_enc (pe_dur r)) peewee_dur_dec = Ok (dur (prow_event r)).
Proof. intros r A H D. cbn [prow_event ts dur]. now apply peewee_codec_roundtrip. Qed.

(* ---------- one INSERT, then the real decode of the row it wrote ---------- *)
Theorem sqlite_insert_reads_back : forall c b e c' i,
  sql_insert_event c b e = Ok (c', i) ->
  ms_aligned (ts e) -> 0 <= ts e -> 0 <= dur e -> ts e + dur e < 2 ^ 52 ->
  exists r, In r (sq_events c') /\ er_id r = i /\ sqlite_dec (er_start r, er_end r) = Ok (ts e, dur e).
Proof.
  intros c b e c' i H A Ht Hd Hb. destruct (sqlite_insert_cells_are_enc c b e c' i H) as [r [Ir [Ei Ec]]].
  exists r. split; [exact Ir|]. split; [exact Ei|]. rewrite Ec. now apply sqlite_codec_roundtrip_52.
Qed.

Theorem peewee_insert_reads_back : forall c k e,
  ms_aligned (ts e) -> 0 <= ts e <= y2100 -> Z.abs (dur e) < codec_bound ->
  exists r, In r (pw_events (fst (pw_insert_event c k e))) /\ pe_id r = snd (pw_insert_event c k e) /\
            pe_bucket r = k /\ pe_data r = data e /\
            peewee_ts_dec (peewee_ts_enc (pe_ts r)) = Ok (ts e) /\
            bind (peewee_dur_enc (pe_dur r)) peewee_dur_dec = Ok (dur e).
Proof.
  intros c k e A Ht Hd. eexists. split; [cbn; apply in_app_iff; right; now left|].
  cbn [pe_id pe_bucket pe_data pe_ts pe_dur]. repeat (split; [reflexivity|]).
  now apply peewee_codec_roundtrip.
Qed.
