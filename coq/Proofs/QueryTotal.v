(* Totality of the query model (C17): parsing any text yields a token tree or a parse
   error, interpretation yields a value, an interpret/function error or an error that is
   literally the outcome of some built-in body call; the fuel the model hands out is
   always enough.  No property statements here (Props/C17.v). *)
From AwVerif Require Import Base.Prelude Model.PyStr Model.Query Proofs.QueryScan.
From Coq Require Import ZifyBool Lia.
Open Scope Z_scope.

(* ---------------------------------------------------------------- strip facts *)

Notation all_space := (forallb is_space).

Lemma lstrip_nil_all_space s : lstrip s = [] -> all_space s = true.
Proof.
  induction s as [|c t IH]; cbn [lstrip forallb]; [reflexivity|].
  destruct (is_space c) eqn:E; [intro H; rewrite (IH H); reflexivity|discriminate].
Qed.

Lemma rstrip_nil_all_space s : rstrip s = [] -> all_space s = true.
Proof.
  induction s as [|c t IH]; cbn [rstrip forallb]; [reflexivity|].
  destruct (rstrip t) as [|x r] eqn:Er; [|discriminate].
  destruct (is_space c) eqn:E; [intros _; rewrite (IH eq_refl); reflexivity|discriminate].
Qed.

Lemma all_space_rstrip_nil s : all_space s = true -> rstrip s = [].
Proof.
  induction s as [|c t IH]; cbn [rstrip forallb]; [reflexivity|].
  intro H. apply andb_true_iff in H. destruct H as [Hc Ht]. rewrite (IH Ht), Hc. reflexivity.
Qed.

Lemma lstrip_all_space_or_head s :
  lstrip s = [] \/ exists c r, lstrip s = c :: r /\ is_space c = false.
Proof.
  induction s as [|c t IH]; cbn [lstrip]; [left; reflexivity|].
  destruct (is_space c) eqn:E; [exact IH|]. right. exists c, t. split; [reflexivity|assumption].
Qed.

Lemma strip_nil_all_space s : strip s = [] -> all_space s = true.
Proof.
  unfold strip. intro H. apply rstrip_nil_all_space in H.
  destruct (lstrip_all_space_or_head s) as [E|(c & r & E & Hc)].
  - apply lstrip_nil_all_space; assumption.
  - rewrite E in H. cbn [forallb] in H. rewrite Hc in H. discriminate.
Qed.

Lemma rstrip_app_space x y : all_space y = true -> rstrip (x ++ y) = rstrip x.
Proof.
  intro Hy. induction x as [|c t IH]; cbn [app rstrip].
  - apply all_space_rstrip_nil; assumption.
  - rewrite IH. reflexivity.
Qed.

Lemma rstrip_idem s : rstrip (rstrip s) = rstrip s.
Proof.
  induction s as [|c t IH]; cbn [rstrip]; [reflexivity|].
  destruct (rstrip t) as [|x r] eqn:Er.
  - destruct (is_space c) eqn:E; cbn [rstrip]; [reflexivity|]. rewrite E. reflexivity.
  - cbn [rstrip]. cbn [rstrip] in IH. rewrite IH. reflexivity.
Qed.

Lemma all_space_drop n s : all_space s = true -> all_space (drop n s) = true.
Proof.
  revert s; induction n as [|n IH]; intros s H; [exact H|].
  destruct s as [|c t]; [reflexivity|]. cbn [drop skipn]. apply IH.
  cbn [forallb] in H. apply andb_true_iff in H. tauto.
Qed.

(* a non-empty suffix of a stripped string is not blank *)
Lemma stripped_suffix_not_blank s0 (k : nat) :
  drop k (strip s0) <> [] -> strip (drop k (strip s0)) <> [].
Proof.
  intros Hne Hblank. apply strip_nil_all_space in Hblank.
  set (line := strip s0) in *.
  assert (Hfix : rstrip line = line) by (unfold line, strip; apply rstrip_idem).
  pose proof (take_drop k line) as Hsplit.
  rewrite <- Hsplit in Hfix at 1. rewrite (rstrip_app_space _ _ Hblank) in Hfix.
  pose proof (rstrip_length (take k line)) as L1.
  rewrite Hfix in L1. rewrite take_length in L1.
  assert (length (drop k line) <> 0)%nat by (destruct (drop k line); [congruence|cbn; lia]).
  rewrite drop_length in H. lia.
Qed.

(* ---------------------------------------------------------------- parsing *)

Definition parse_good {X} (r : res X) : Prop :=
  match r with Ok _ => True | Err ParseError => True | _ => False end.

Lemma parse_good_bind {X Y} (r : res X) (k : X -> res Y) :
  parse_good r -> (forall x, r = Ok x -> parse_good (k x)) -> parse_good (bind r k).
Proof.
  destruct r as [x|c|]; cbn [bind parse_good]; intros H K; [apply K; reflexivity|exact H|exact H].
Qed.

Lemma digits_val_outcome s : forall acc, (exists z, digits_val acc s = Ok z) \/ digits_val acc s = Err ValueError.
Proof.
  induction s as [|c t IH]; intro acc; cbn [digits_val]; [left; eexists; reflexivity|].
  destruct (is_digit c); [apply IH|right; reflexivity].
Qed.

Lemma py_int_outcome m s : (exists z, py_int m s = Ok z) \/ py_int m s = Err ValueError.
Proof.
  unfold py_int. destruct s as [|c t]; [right; reflexivity|].
  destruct (negb (Nat.eqb m 0) && Nat.ltb m (length (c :: t))); [right; reflexivity|apply digits_val_outcome].
Qed.

Section ParseTotal.
  Variable max_digits : nat.
  Variable ns : namespace.

  Notation ptok := (parse_tok max_digits ns).
  Notation pargs := (parse_args max_digits ns).
  Notation pdict := (parse_dict max_digits ns).
  Notation plist := (parse_list max_digits ns).

  Lemma parse_total : forall fuel,
    (forall t tok, tok <> [] -> (2 * length tok + 1 <= fuel)%nat -> parse_good (ptok fuel t tok)) /\
    (forall s, (2 * length s + 2 <= fuel)%nat -> parse_good (pargs fuel s)) /\
    (forall s d, (2 * length s + 2 <= fuel)%nat -> parse_good (pdict fuel s d)) /\
    (forall s l, (2 * length s + 2 <= fuel)%nat -> parse_good (plist fuel s l)).
  Proof.
    induction fuel as [|f (IHt & IHa & IHd & IHl)].
    { repeat split; intros; lia. }
    split; [|split; [|split]].
    - (* parse_tok *)
      intros t tok Hne Hf. cbn [parse_tok]. destruct t.
      + destruct tok as [|q r]; [congruence|]. cbn. exact I.
      + destruct (py_int_outcome max_digits tok) as [[z E]|E]; rewrite E; exact I.
      + apply parse_good_bind; [|intros; exact I]. apply IHa.
        pose proof (slice_length (arg_start_of tok + 1) (length tok - 1) tok).
        destruct tok; [congruence|]. cbn [length] in *. lia.
      + apply parse_good_bind; [|intros; exact I]. apply IHd.
        pose proof (slice_1_m1_length tok). destruct tok; [congruence|]. cbn [length] in *. lia.
      + apply parse_good_bind; [|intros; exact I]. apply IHl.
        pose proof (slice_1_m1_length tok). destruct tok; [congruence|]. cbn [length] in *. lia.
      + exact I.
    - (* parse_args *)
      intros s Hf. cbn [parse_args]. destruct (is_empty (strip s)) eqn:Ee; [exact I|].
      apply is_empty_false in Ee.
      destruct (parse_token_cases s) as [[E1 _]|[[_ E]|[_ (t & tok & rest & E & N & _ & Len)]]];
        [congruence|rewrite E; exact I|].
      rewrite E. cbn [bind]. cbv beta iota.
      pose proof (strip_length s) as Ls.
      apply parse_good_bind; [apply IHt; [assumption|lia]|]. intros a _.
      pose proof (strip_length rest) as Lr.
      destruct (strip rest) as [|c r]; [exact I|].
      destruct (negb (c =? c_comma)); [exact I|].
      apply parse_good_bind; [|intros; exact I]. apply IHa.
      destruct tok; [congruence|]. cbn [length] in *. lia.
    - (* parse_dict *)
      intros s d Hf. cbn [parse_dict]. destruct (Nat.ltb 0 (length (strip s))) eqn:El; [|exact I].
      pose proof (strip_length s) as Ls.
      destruct (strip s) as [|c0 r0] eqn:Es; [cbn in El; discriminate|].
      cbn [first_char bind]. cbv beta zeta.
      set (e := if Nat.ltb 0 (length d) && (c0 =? c_comma) then drop 1 (c0 :: r0) else c0 :: r0).
      assert (Le : (length e <= length s)%nat).
      { unfold e. destruct (Nat.ltb 0 (length d) && (c0 =? c_comma)); [rewrite drop_length|]; cbn [length] in *; lia. }
      clearbody e.
      destruct (parse_token_cases e) as [[_ E]|[[_ E]|[_ (t & tok & rest & E & N & _ & Len)]]];
        rewrite E; cbn [bind]; cbv beta iota; [exact I|exact I|].
      pose proof (strip_length e) as Lse.
      destruct t; try exact I.
      destruct tok as [|q tk]; [congruence|]. unfold parse_string. cbn [first_char bind].
      pose proof (strip_length rest) as Lr.
      destruct (strip rest) as [|c r]; [exact I|].
      destruct (negb (c =? c_colon)); [exact I|].
      destruct (parse_token_cases r) as [[_ E2]|[[_ E2]|[_ (t2 & tok2 & rest2 & E2 & N2 & _ & Len2)]]];
        rewrite E2; cbn [bind]; cbv beta iota; [exact I|exact I|].
      pose proof (strip_length r) as Lsr. cbn [length] in *.
      apply parse_good_bind; [apply IHt; [assumption|lia]|]. intros val _.
      apply IHd. destruct tok2; [congruence|]. cbn [length] in *. lia.
    - (* parse_list *)
      intros s l Hf. cbn [parse_list]. destruct (Nat.ltb 0 (length (strip s))) eqn:El; [|exact I].
      pose proof (strip_length s) as Ls.
      destruct (strip s) as [|c0 r0] eqn:Es; [cbn in El; discriminate|].
      cbn [first_char bind]. cbv beta zeta.
      set (e := if Nat.ltb 0 (length l) && (c0 =? c_comma) then drop 1 (c0 :: r0) else c0 :: r0).
      assert (Le : (length e <= length s)%nat).
      { unfold e. destruct (Nat.ltb 0 (length l) && (c0 =? c_comma)); [rewrite drop_length|]; cbn [length] in *; lia. }
      clearbody e.
      destruct (parse_token_cases e) as [[_ E]|[[_ E]|[_ (t & tok & rest & E & N & _ & Len)]]];
        rewrite E; cbn [bind]; cbv beta iota; [exact I|exact I|].
      pose proof (strip_length e) as Lse.
      apply parse_good_bind; [apply IHt; [assumption|lia]|]. intros val _.
      apply IHl. destruct tok; [congruence|]. cbn [length] in *. lia.
  Qed.

  (* the statement level: [line] is a stripped, non-empty statement *)
  Lemma parse_stmt_good s0 : strip s0 <> [] -> parse_good (parse_stmt max_digits ns (strip s0)).
  Proof.
    intro Hne. unfold parse_stmt. set (line := strip s0) in *.
    destruct (find_char c_eq line) as [i|]; [|exact I].
    destruct (is_empty (drop (i + 1) line)) eqn:Ev; [exact I|]. apply is_empty_false in Ev.
    destruct (parse_token_cases (take i line)) as [[_ E]|[[_ E]|[_ (t & tok & rest & E & N & _ & Len)]]];
      rewrite E; cbn [bind]; cbv beta iota zeta.
    - cbn [strip lstrip rstrip is_empty negb]. exact I.
    - exact I.
    - destruct (negb (is_empty (strip rest))); [exact I|].
      destruct t; try exact I.
      pose proof (stripped_suffix_not_blank s0 (i + 1) Ev) as Hnb. fold line in Hnb.
      destruct (parse_token_cases (drop (i + 1) line)) as [[E1 _]|[[_ E2]|[_ (t2 & tok2 & rest2 & E2 & N2 & _ & Len2)]]];
        [congruence|rewrite E2; exact I|].
      rewrite E2. cbn [bind]. cbv beta iota.
      destruct (negb (is_empty rest2)); [exact I|].
      pose proof (strip_length (drop (i + 1) line)) as L1. rewrite drop_length in L1.
      assert (Hl : (1 <= length line)%nat) by (destruct line; [congruence|cbn; lia]).
      destruct (2 * length line)%nat as [|f] eqn:Ef; [lia|].
      cbn [parse_tok bind].
      destruct (parse_total (S f)) as (Ht & _).
      apply parse_good_bind; [|intros; exact I].
      apply Ht; [assumption|]. destruct tok2; [congruence|]. cbn [length] in *. lia.
  Qed.

  Lemma parse_tok_variable f s : parse_tok max_digits ns (S f) TVariable s = Ok (parse_variable ns s).
  Proof. reflexivity. Qed.

  Lemma parse_stmt_var line var val :
    parse_stmt max_digits ns line = Ok (var, val) -> exists n c, var = QVariable n c.
  Proof.
    unfold parse_stmt. destruct (find_char c_eq line) as [i|]; [|discriminate].
    destruct (is_empty (drop (i + 1) line)); [discriminate|].
    destruct (parse_token (take i line)) as [[[t tok] rest]|c|]; cbn [bind]; try discriminate.
    destruct (negb (is_empty (strip rest))); [discriminate|].
    destruct t as [[]|]; try discriminate.
    destruct (parse_token (drop (i + 1) line)) as [[[t2 tok2] rest2]|c|]; cbn [bind]; try discriminate.
    destruct (negb (is_empty rest2)); [discriminate|].
    destruct (2 * length line)%nat as [|f]; [cbn [parse_tok bind]; discriminate|].
    rewrite parse_tok_variable. cbn [bind].
    destruct t2 as [t2|]; [|discriminate].
    destruct (parse_tok max_digits ns (S f) t2 tok2); cbn [bind]; try discriminate.
    intro H; inversion H; subst. unfold parse_variable. eexists; eexists; reflexivity.
  Qed.
End ParseTotal.

(* ---------------------------------------------------------------- induction on tokens *)

Section QtokenInd.
  Variable P : qtoken -> Prop.
  Hypothesis HI : forall z, P (QInteger z).
  Hypothesis HV : forall n c, P (QVariable n c).
  Hypothesis HS : forall s, P (QString s).
  Hypothesis HF : forall n args, Forall P args -> P (QFunction n args).
  Hypothesis HD : forall d, Forall (fun kv => P (snd kv)) d -> P (QDict d).
  Hypothesis HL : forall l, Forall P l -> P (QList l).
  Fixpoint qtoken_ind2 (t : qtoken) : P t :=
    match t with
    | QInteger z => HI z
    | QVariable n c => HV n c
    | QString s => HS s
    | QFunction n args =>
        HF n args ((fix go (l : list qtoken) : Forall P l :=
                      match l with [] => Forall_nil _ | a :: l' => Forall_cons _ (qtoken_ind2 a) (go l') end) args)
    | QDict d =>
        HD d ((fix go (l : list (str * qtoken)) : Forall (fun kv => P (snd kv)) l :=
                 match l with
                 | [] => Forall_nil _
                 | kv :: l' => Forall_cons _ (qtoken_ind2 (snd kv)) (go l')
                 end) d)
    | QList l =>
        HL l ((fix go (l : list qtoken) : Forall P l :=
                 match l with [] => Forall_nil _ | a :: l' => Forall_cons _ (qtoken_ind2 a) (go l') end) l)
    end.
End QtokenInd.

(* ---------------------------------------------------------------- interpretation *)

Section InterpTotal.
  Variable table : list builtin.
  Variable W : Type.
  Variable buckets : W -> str -> bool.
  Variable body : str -> list arg -> W -> (value + errclass) * W.
  Variable max_digits : nat.

  (* the error class c is literally what some built-in body call returned *)
  Definition from_body (c : errclass) : Prop := exists n a w, fst (body n a w) = inr c.

  Definition run_good {X} (r : res X) : Prop :=
    match r with
    | Ok _ => True
    | Err ParseError | Err InterpretError | Err FunctionError => True
    | Err c => from_body c
    | OutOfFuel => False
    end.

  Lemma parse_good_run_good {X} (r : res X) : parse_good r -> run_good r.
  Proof. destruct r as [x|[]|]; cbn; tauto. Qed.

  Lemma run_good_bindM {X Y} (m : M W X) (k : X -> M W Y) w :
    run_good (fst (m w)) -> (forall x w', run_good (fst (k x w'))) -> run_good (fst (bindM W m k w)).
  Proof.
    unfold bindM. destruct (m w) as [[x|c|] w']; cbn [fst]; intros H K; [apply K|exact H|exact H].
  Qed.

  Lemma typecheck_outcome sig : forall args, typecheck sig args = Ok tt \/ typecheck sig args = Err FunctionError.
  Proof.
    induction sig as [|k sig IH]; intros args; cbn [typecheck]; [left; reflexivity|].
    destruct args as [|a args]; [left; reflexivity|].
    destruct k; try apply IH. destruct (isinstance a t); [apply IH|right; reflexivity].
  Qed.

  (* what a body call contributes: a value, or an error class that the oracle returned *)
  Definition body_good (r : res value) : Prop :=
    match r with Ok _ => True | Err c => from_body c | OutOfFuel => False end.

  Lemma call_body_good n a w : body_good (fst (call_body W body n a w)).
  Proof.
    unfold call_body. destruct (body n a w) as [[v|c] w'] eqn:E; cbn [fst body_good]; [exact I|].
    exists n, a, w. rewrite E. reflexivity.
  Qed.

  Lemma run_body_good b args w : body_good (fst (run_body W buckets body b args w)) \/
                                 fst (run_body W buckets body b args w) = Err FunctionError.
  Proof.
    unfold run_body. destruct (b_body b); try (left; cbn; exact I); try (left; apply call_body_good).
    destruct (vals_of_args args) as [|[] ?]; try (left; apply call_body_good).
    destruct (buckets w s); [left; apply call_body_good|right; reflexivity].
  Qed.

  Lemma call_builtin_good b vals w : run_good (fst (call_builtin W buckets body b vals w)).
  Proof.
    unfold call_builtin. set (args := _ ++ _ ++ map AVal vals).
    unfold bindM, lift. destruct (typecheck_outcome (b_sig b) args) as [E|E]; rewrite E; [|exact I].
    destruct (negb (arity_ok (b_sig b) (length args))); [exact I|].
    destruct (run_body_good b args w) as [H|H].
    - destruct (run_body W buckets body b args w) as [[v|c|] w'] eqn:E2; cbn [fst] in *;
        [exact I| |destruct H].
      destruct c; cbn [fst run_good]; try exact I; exact H.
    - destruct (run_body W buckets body b args w) as [r w'] eqn:E2. cbn [fst] in H. subst r. exact I.
  Qed.

  Lemma interp_seq_good f l : Forall (fun a => forall ns w, run_good (fst (f a ns w))) l ->
    forall ns w, run_good (fst (interp_seq W f l ns w)).
  Proof.
    induction 1 as [|a l Ha Hl IH]; intros ns w; cbn [interp_seq]; [exact I|].
    apply run_good_bindM; [apply Ha|]. intros [v ns1] w1.
    apply run_good_bindM; [apply IH|]. intros [vs ns2] w2. exact I.
  Qed.

  Lemma interp_entries_good f l : Forall (fun kv => forall ns w, run_good (fst (f (snd kv) ns w))) l ->
    forall acc ns w, run_good (fst (interp_entries W f l acc ns w)).
  Proof.
    induction 1 as [|[k a] l Ha Hl IH]; intros acc ns w; cbn [interp_entries]; [exact I|].
    apply run_good_bindM; [apply Ha|]. intros [v ns1] w1. apply IH.
  Qed.

  Notation interp := (interp table W buckets body).

  Lemma interp_good t : forall ns w, run_good (fst (interp t ns w)).
  Proof.
    induction t as [z|n c|s|n args IH|d IH|l IH] using qtoken_ind2; intros ns w; cbn [interp].
    - exact I.
    - destruct (negb (dict_mem ns n)); exact I.
    - exact I.
    - destruct (find_builtin table n) as [b|]; [|exact I].
      apply run_good_bindM; [apply interp_seq_good; exact IH|]. intros [vals ns1] w1.
      apply run_good_bindM; [apply call_builtin_good|]. intros; exact I.
    - apply run_good_bindM; [apply interp_entries_good; exact IH|]. intros [d' ns1] w1. exact I.
    - apply run_good_bindM; [apply interp_seq_good; exact IH|]. intros [vs ns1] w1. exact I.
  Qed.

  Lemma interpret_stmt_good n c val ns w :
    run_good (fst (interpret_stmt table W buckets body (QVariable n c) val ns w)).
  Proof.
    unfold interpret_stmt. apply run_good_bindM; [apply interp_good|]. intros [v ns1] w1.
    cbn. exact I.
  Qed.

  Lemma run_stmts_good stmts : forall ns w,
    run_good (fst (run_stmts table W buckets body max_digits stmts ns w)).
  Proof.
    induction stmts as [|st rest IH]; intros ns w; cbn [run_stmts]; [exact I|].
    destruct (is_empty (strip st)) eqn:Ee; [apply IH|]. apply is_empty_false in Ee.
    pose proof (parse_stmt_good max_digits ns st Ee) as Hp.
    unfold bindM at 1, lift.
    destruct (parse_stmt max_digits ns (strip st)) as [[var val]|c|] eqn:Ep;
      [|apply parse_good_run_good; exact Hp|destruct Hp].
    destruct (parse_stmt_var _ _ _ _ _ Ep) as (n & c & ->).
    apply run_good_bindM; [apply interpret_stmt_good|]. intros ns1 w1. apply IH.
  Qed.

  Theorem run_total name st en q w :
    run_good (fst (run table W buckets body max_digits name st en q w)).
  Proof.
    unfold run. apply run_good_bindM; [apply run_stmts_good|]. intros ns1 w1.
    unfold lift, get_return. cbn [fst]. destruct (dict_get ns1 s_RETURN); exact I.
  Qed.
End InterpTotal.
