(* Generic list facts used by the C14 proofs (kept local so that this development only
   depends on the store models, not on their proof files. *)
From AwVerif Require Import Base.Prelude.
From Coq Require Import Permutation.

Lemma find_app_some : forall {X} (p : X -> bool) l l' x,
  find p l = Some x -> find p (l ++ l') = Some x.
Proof. induction l as [|y l IH]; cbn; intros l' x H; [discriminate|]. destruct (p y); auto. Qed.

Lemma find_app_none : forall {X} (p : X -> bool) l l',
  find p l = None -> find p (l ++ l') = find p l'.
Proof. induction l as [|y l IH]; cbn; intros l' H; [reflexivity|]. destruct (p y); [discriminate|auto]. Qed.

Lemma find_none_iff : forall {X} (p : X -> bool) l,
  find p l = None <-> (forall x, In x l -> p x = false).
Proof.
  induction l as [|y l IH]; cbn.
  - split; [intros _ x []|reflexivity].
  - destruct (p y) eqn:E; split.
    + discriminate.
    + intros H. specialize (H y (or_introl eq_refl)). congruence.
    + intros H x [<-|Hx]; [assumption|]. apply IH; assumption.
    + intros H. apply IH. intros x Hx. apply H. right; assumption.
Qed.

Lemma find_some_in : forall {X} (p : X -> bool) l x, find p l = Some x -> In x l /\ p x = true.
Proof. intros. apply find_some. assumption. Qed.

Lemma existsb_false_iff : forall {X} (p : X -> bool) l,
  existsb p l = false <-> (forall x, In x l -> p x = false).
Proof.
  induction l as [|y l IH]; cbn.
  - split; [intros _ x []|reflexivity].
  - rewrite orb_false_iff, IH. split.
    + intros [H1 H2] x [<-|Hx]; auto.
    + intros H. split; [apply H; left; reflexivity|intros x Hx; apply H; right; assumption].
Qed.

Lemma filter_nil_all : forall {X} (p : X -> bool) l,
  (forall x, In x l -> p x = false) -> filter p l = [].
Proof.
  induction l as [|y l IH]; cbn; intros H; [reflexivity|].
  rewrite (H y (or_introl eq_refl)). apply IH. intros x Hx. apply H. right; assumption.
Qed.

Lemma filter_id_all : forall {X} (p : X -> bool) l,
  (forall x, In x l -> p x = true) -> filter p l = l.
Proof.
  induction l as [|y l IH]; cbn; intros H; [reflexivity|].
  rewrite (H y (or_introl eq_refl)). f_equal. apply IH. intros x Hx. apply H. right; assumption.
Qed.

Section SortPerm.
  Context {X : Type} (key : X -> Z).
  Lemma insert_sorted_perm : forall x l, Permutation (insert_sorted key x l) (x :: l).
  Proof.
    induction l as [|y l IH]; cbn; [reflexivity|].
    destruct (key y <? key x); [|reflexivity].
    rewrite IH. apply perm_swap.
  Qed.
  Lemma sort_by_perm : forall l, Permutation (sort_by key l) l.
  Proof.
    induction l as [|y l IH]; cbn; [reflexivity|].
    rewrite insert_sorted_perm. constructor. exact IH.
  Qed.
End SortPerm.

Lemma NoDup_map_in_eq : forall {X} (f : X -> Z) l x y,
  NoDup (map f l) -> In x l -> In y l -> f x = f y -> x = y.
Proof.
  induction l as [|z l IH]; cbn; intros x y ND Hx Hy E; [contradiction|].
  inversion ND as [|? ? Hn ND']; subst.
  destruct Hx as [<-|Hx], Hy as [<-|Hy]; auto.
  - exfalso. apply Hn. rewrite E. apply in_map. assumption.
  - exfalso. apply Hn. rewrite <- E. apply in_map. assumption.
Qed.

Lemma find_unique : forall {X} (f : X -> Z) l x,
  NoDup (map f l) -> In x l -> find (fun y => f y =? f x) l = Some x.
Proof.
  intros X f l x ND Hx.
  destruct (find (fun y => f y =? f x) l) as [y|] eqn:E.
  - apply find_some in E. destruct E as [Hy Ey]. apply Z.eqb_eq in Ey.
    f_equal. eapply NoDup_map_in_eq; eauto.
  - exfalso. rewrite find_none_iff in E. specialize (E x Hx). cbn in E. rewrite Z.eqb_refl in E. discriminate.
Qed.
