(* C03 -- generic list facts for the window proofs: stable sort (permutation, sortedness),
   sortedness under filter / rev / firstn / map, prefix-vs-rest of a sorted list, counting
   under implication.  Self-contained on purpose (the store proof files are still moving). *)
From Coq Require Import Permutation Sorted ZifyBool.
From AwVerif Require Import Base.Prelude Model.StoreBase.

Section SortFacts.
  Context {A : Type} (key : A -> Z).

  Lemma w_insert_perm : forall x l, Permutation (insert_sorted key x l) (x :: l).
  Proof.
    induction l as [|y t IH]; cbn; [reflexivity|].
    destruct (key y <? key x); [|reflexivity].
    rewrite IH. apply perm_swap.
  Qed.

  Lemma w_sort_perm : forall l, Permutation (sort_by key l) l.
  Proof.
    induction l as [|x t IH]; cbn; [reflexivity|].
    rewrite w_insert_perm. now constructor.
  Qed.

  Definition asc (l : list A) : Prop := StronglySorted (fun a b => key a <= key b) l.
  Definition desc (l : list A) : Prop := StronglySorted (fun a b => key b <= key a) l.

  Lemma w_insert_asc : forall x l, asc l -> asc (insert_sorted key x l).
  Proof.
    induction l as [|y t IH]; intros S; cbn.
    - constructor; constructor.
    - inversion S as [|? ? St Hy]; subst.
      destruct (key y <? key x) eqn:E.
      + constructor; [now apply IH|].
        apply Forall_forall. intros z Hz.
        apply (Permutation_in _ (w_insert_perm x t)) in Hz. destruct Hz as [->|Hz]; [lia|].
        rewrite Forall_forall in Hy. now apply Hy.
      + constructor; [assumption|]. constructor; [lia|].
        rewrite Forall_forall in *. intros z Hz. specialize (Hy z Hz). lia.
  Qed.

  Lemma w_sort_asc : forall l, asc (sort_by key l).
  Proof. induction l as [|x t IH]; cbn; [constructor|now apply w_insert_asc]. Qed.
End SortFacts.

Lemma w_sort_neg_desc : forall {A} (key : A -> Z) l, desc key (sort_by (fun x => - key x) l).
Proof.
  intros A key l. pose proof (w_sort_asc (fun x => - key x) l) as S. unfold asc, desc in *.
  induction S as [|x t St IH Hx]; constructor; [assumption|].
  rewrite Forall_forall in *. intros z Hz. specialize (Hx z Hz). lia.
Qed.

Lemma w_firstn_In : forall {A} n (l : list A) x, In x (firstn n l) -> In x l.
Proof.
  induction n as [|n IH]; intros l x H; cbn in H; [destruct H|].
  destruct l as [|a t]; [destruct H|]. destruct H as [->|H]; [now left|right; now apply IH].
Qed.

Lemma w_skipn_In : forall {A} n (l : list A) x, In x (skipn n l) -> In x l.
Proof.
  induction n as [|n IH]; intros l x H; cbn in H; [assumption|].
  destruct l as [|a t]; [destruct H|]. right. now apply IH.
Qed.

Lemma w_perm_filter : forall {A} (p : A -> bool) l l',
  Permutation l l' -> Permutation (filter p l) (filter p l').
Proof.
  intros A p l l' H. induction H as [|x l l' H IH|x y l|l l' l'' H1 IH1 H2 IH2]; cbn.
  - constructor.
  - destruct (p x); [now constructor|assumption].
  - destruct (p x), (p y); try reflexivity. apply perm_swap.
  - now transitivity (filter p l').
Qed.

Lemma w_filter_andb : forall {A} (p q : A -> bool) l,
  filter (fun x => p x && q x) l = filter q (filter p l).
Proof.
  induction l as [|a t IH]; cbn; [reflexivity|].
  destruct (p a); cbn; [destruct (q a); [now f_equal|assumption]|assumption].
Qed.

Lemma w_filter_map : forall {A B} (f : A -> B) (p : B -> bool) l,
  filter p (map f l) = map f (filter (fun x => p (f x)) l).
Proof.
  induction l as [|a t IH]; cbn; [reflexivity|].
  destruct (p (f a)); cbn; now rewrite IH.
Qed.

(* counting under implication *)
Lemma w_filter_length_le : forall {A} (p q : A -> bool) l,
  (forall x, In x l -> p x = true -> q x = true) ->
  (length (filter p l) <= length (filter q l))%nat.
Proof.
  induction l as [|a t IH]; intros H; cbn; [lia|].
  assert (IH' : (length (filter p t) <= length (filter q t))%nat)
    by (apply IH; intros; apply H; [now right|assumption]).
  destruct (p a) eqn:Pa.
  - rewrite (H a (or_introl eq_refl) Pa). cbn. lia.
  - destruct (q a); cbn; lia.
Qed.

Lemma ss_app : forall {A} (R : A -> A -> Prop) l1 l2, StronglySorted R l1 -> StronglySorted R l2 ->
  (forall x y, In x l1 -> In y l2 -> R x y) -> StronglySorted R (l1 ++ l2).
Proof.
  intros A R. induction l1 as [|a t IH]; intros l2 S1 S2 H; cbn; [assumption|].
  inversion S1 as [|? ? St Ha]; subst. constructor.
  - apply IH; [assumption|assumption|]. intros. apply H; [now right|assumption].
  - apply Forall_forall. intros z Hz. apply in_app_or in Hz. destruct Hz as [Hz|Hz].
    + rewrite Forall_forall in Ha. now apply Ha.
    + apply H; [now left|assumption].
Qed.

Section SortedFacts.
  Context {A : Type} (R : A -> A -> Prop).

  Lemma ss_filter : forall p l, StronglySorted R l -> StronglySorted R (filter p l).
  Proof.
    intros p l S. induction S as [|x t St IH Hx]; cbn; [constructor|].
    destruct (p x); [|assumption]. constructor; [assumption|].
    rewrite Forall_forall in *. intros z Hz. apply filter_In in Hz. now apply Hx.
  Qed.

  Lemma ss_rev : forall l, StronglySorted R l -> StronglySorted (fun a b => R b a) (rev l).
  Proof.
    intros l S. induction S as [|x t St IH Hx]; cbn; [constructor|].
    apply ss_app; [assumption|constructor; constructor|].
    intros a b Ha Hb. destruct Hb as [<-|[]]. apply in_rev in Ha.
    rewrite Forall_forall in Hx. now apply Hx.
  Qed.

  Lemma ss_firstn : forall n l, StronglySorted R l -> StronglySorted R (firstn n l).
  Proof.
    induction n as [|n IH]; intros l S; cbn; [constructor|].
    destruct l as [|x t]; [constructor|]. inversion S as [|? ? St Hx]; subst.
    constructor; [now apply IH|].
    rewrite Forall_forall in *. intros z Hz. apply Hx. eapply w_firstn_In; eassumption.
  Qed.

  (* every element of a prefix is R-before every element of the rest *)
  Lemma ss_prefix_rest : forall n l x y, StronglySorted R l ->
    In x (firstn n l) -> In y (skipn n l) -> R x y.
  Proof.
    induction n as [|n IH]; intros l x y S Hx Hy; cbn in *; [destruct Hx|].
    destruct l as [|a t]; [destruct Hx|]. inversion S as [|? ? St Ha]; subst.
    destruct Hx as [<-|Hx].
    - rewrite Forall_forall in Ha. apply Ha. eapply w_skipn_In; eassumption.
    - eapply IH; eassumption.
  Qed.
End SortedFacts.

Lemma ss_map : forall {A B} (f : A -> B) (R : B -> B -> Prop) l,
  StronglySorted (fun a b => R (f a) (f b)) l -> StronglySorted R (map f l).
Proof.
  intros A B f R l S. induction S as [|x t St IH Hx]; cbn; constructor; [assumption|].
  rewrite Forall_forall in *. intros z Hz. apply in_map_iff in Hz. destruct Hz as [y [<- Hy]].
  now apply Hx.
Qed.

Lemma ss_impl : forall {A} (R R' : A -> A -> Prop) l,
  (forall a b, R a b -> R' a b) -> StronglySorted R l -> StronglySorted R' l.
Proof.
  intros A R R' l H S. induction S as [|x t St IH Hx]; constructor; [assumption|].
  rewrite Forall_forall in *. intros z Hz. apply H. now apply Hx.
Qed.

(* Python / SQL limit on an already ordered list *)
Definition take (limit : Z) {A} (l : list A) : list A :=
  if limit =? 0 then [] else if limit <? 0 then l else firstn (Z.to_nat limit) l.

Lemma sql_limit_neg : forall {A} (l : list A), sql_limit (-1) l = l.
Proof. reflexivity. Qed.

Lemma sql_limit_take : forall {A} limit (l : list A), limit <> 0 ->
  sql_limit (if limit <? 0 then -1 else limit) l = take limit l.
Proof.
  intros A limit l H. unfold take, sql_limit.
  destruct (limit =? 0) eqn:E0; [lia|].
  destruct (limit <? 0) eqn:E1; [reflexivity|].
  rewrite E1. reflexivity.
Qed.

Lemma take_map : forall {A B} (f : A -> B) limit l, take limit (map f l) = map f (take limit l).
Proof.
  intros. unfold take. destruct (limit =? 0); [reflexivity|].
  destruct (limit <? 0); [reflexivity|]. apply firstn_map.
Qed.
