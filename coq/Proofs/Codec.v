(* Codec lemmas (C01 codec part, C03 window parameters).  Interface: notes/agents/CODEC.md *)
From Coq Require Import ZArith Bool List PrimFloat.
From AwVerif Require Import Base.Prelude Model.PyFloat Model.IsoTime Model.EventModel Model.Codec.
Open Scope Z_scope.

(* the C01 witness of the old float encoding reads back exactly under the integer encoding *)
Example sqlite_codec_witness :
  sqlite_dec (sqlite_enc 2250122380221000 2141079079834) = Ok (2250122380221000, 2141079079834).
Proof. vm_compute. reflexivity. Qed.
