(* Codec lemmas: C01 (what the SQL back ends store reads back exactly) and C03 (distance
   of sqlite's float window parameters from the instants; Bucket.get's millisecond
   rounding is in Proofs/PyFloatFinite.v).  Interface notes: notes/agents/CODEC.md.
   Float facts: Proofs/PyFloatSpec.v (Flocq). *)
From Coq Require Import ZArith Reals Bool List Lia Lra Ascii PrimFloat.
From Flocq Require Import Core IEEE754.BinarySingleNaN IEEE754.PrimFloat.
From AwVerif Require Import Base.Prelude Model.PyFloat Model.IsoTime Model.EventModel Model.Codec
  Proofs.PyFloatFinite Proofs.PyFloatSpec Proofs.IsoTimeProofs Proofs.EventProofs.
Open Scope Z_scope.

Definition codec_bound : Z := 2 ^ 33 * 1000000.     (* 8589934592000000 us, year 2242 *)

Lemma two52_lt_bound : 2 ^ 52 < codec_bound. Proof. reflexivity. Qed.
Lemma y2100_lt_bound : y2100 < 2 ^ 52. Proof. reflexivity. Qed.

(* ---- sqlite ---- *)

(* one INTEGER cell: row / 1000000 then datetime.fromtimestamp gives the row back *)
Theorem sqlite_dec_cell_exact : forall n, Z.abs n < codec_bound -> sqlite_dec_cell n = Ok n.
Proof. intros n H. exact (fromtimestamp_decode n H). Qed.

Theorem sqlite_codec_roundtrip : forall ts dur,
  ms_aligned ts -> 0 <= ts -> 0 <= dur -> ts + dur < codec_bound ->
  sqlite_dec (sqlite_enc ts dur) = Ok (ts, dur).
Proof.
  intros ts dur A Ht Hd Hb. unfold sqlite_dec, sqlite_enc. cbn [fst snd].
  rewrite (sqlite_dec_cell_exact ts) by (unfold codec_bound in *; lia).
  rewrite (sqlite_dec_cell_exact (ts + dur)) by (unfold codec_bound in *; lia).
  cbn [bind].
  assert (S : set_timestamp (TsDt ts 0) = Ok ts).
  { unfold set_timestamp. rewrite timestamp_parse_dt. cbn [bind fst].
    rewrite Z.add_0_r, Z.sub_0_r, (floor_ms_aligned ts A).
    apply dt_check_ok. unfold min_us, max_us, codec_bound in *. lia. }
  rewrite S. cbn [bind]. f_equal. f_equal. lia.
Qed.

(* the statement of DESIGN section 5 (C01): bound 2^52 *)
Corollary sqlite_codec_roundtrip_52 : forall ts dur,
  ms_aligned ts -> 0 <= ts -> 0 <= dur -> ts + dur < 2 ^ 52 ->
  sqlite_dec (sqlite_enc ts dur) = Ok (ts, dur).
Proof.
  intros ts dur A Ht Hd Hb. apply sqlite_codec_roundtrip; try assumption.
  pose proof two52_lt_bound. lia.
Qed.

(* the bound is sharp *)
Example sqlite_codec_bound_sharp :
  sqlite_dec (sqlite_enc 0 (codec_bound + 1)) = Ok (0, codec_bound + 2).
Proof. vm_compute. reflexivity. Qed.

(* the witness of the old float encoding (known finding 3) reads back exactly now *)
Example sqlite_codec_witness :
  sqlite_dec (sqlite_enc 2250122380221000 2141079079834) = Ok (2250122380221000, 2141079079834).
Proof. vm_compute. reflexivity. Qed.

(* window parameters of get_events / get_eventcount: starttime.timestamp() * 1000000 *)
Theorem sqlite_param_error : forall u, 0 <= u < 2 ^ 52 ->
  exists p, sqlite_float_param u = Ok p /\ fin p /\ (Rabs (FR p - IZR u) <= 3 / 4)%R.
Proof. exact PyFloatSpec.sqlite_param_error. Qed.

Theorem sqlite_param_error_51 : forall u, 0 <= u < 2 ^ 51 ->
  exists p, sqlite_float_param u = Ok p /\ fin p /\ (Rabs (FR p - IZR u) <= 3 / 8)%R.
Proof. exact PyFloatSpec.sqlite_param_error_51. Qed.

(* what the comparison of an INTEGER cell c with the REAL parameter means: the parameter
   acts as the exact instant u up to one microsecond on the permissive side *)
Theorem sqlite_param_compare : forall u c, 0 <= u < 2 ^ 52 ->
  exists p, sqlite_float_param u = Ok p /\ fin p /\
    ((IZR c >= FR p)%R -> c >= u) /\ (c >= u + 1 -> (IZR c >= FR p)%R) /\
    ((IZR c <= FR p)%R -> c <= u) /\ (c <= u - 1 -> (IZR c <= FR p)%R).
Proof.
  intros u c Hu. destruct (sqlite_param_error u Hu) as (p & E & F & B).
  exists p. split; [exact E|]. split; [exact F|].
  apply Rabs_le_inv in B.
  repeat split; intros H.
  - assert (u - 1 < c); [|lia]. apply lt_IZR. rewrite minus_IZR. simpl. lra.
  - assert (IZR (u + 1) <= IZR c)%R by (apply IZR_le; lia). rewrite plus_IZR in H0. simpl in H0. lra.
  - assert (c < u + 1); [|lia]. apply lt_IZR. rewrite plus_IZR. simpl. lra.
  - assert (IZR c <= IZR (u - 1))%R by (apply IZR_le; lia). rewrite minus_IZR in H0. simpl in H0. lra.
Qed.

(* ---- peewee ---- *)

(* duration: total_seconds() -> DECIMAL cell -> float() -> timedelta(seconds=), when the
   cell gives back the stored binary64 *)
Theorem peewee_duration_roundtrip : forall dur, Z.abs dur < codec_bound ->
  bind (peewee_dur_enc dur) peewee_dur_dec = Ok dur.
Proof. intros dur H. exact (td_roundtrip dur H). Qed.

(* ... and when the cell gives back any finite float within 31/64 us of the duration
   (SQLite's text -> REAL conversion is not always correctly rounded: measured 58 of
   200 000 values off by one ulp on SQLite 3.40.1) *)
Theorem peewee_duration_roundtrip_near : forall dur cell, fin cell ->
  Z.abs dur <= 86399999913600000000 ->
  (Rabs (FR cell * 1000000 - IZR dur) <= 31 / 64)%R ->
  peewee_dur_dec cell = Ok dur.
Proof.
  intros dur cell F H N. unfold peewee_dur_dec. apply td_near; [exact F| |exact N].
  unfold max_days, us_per_day. lia.
Qed.

(* a cell that is off by at most 2^-22 s from the stored float still round-trips for
   |dur| < 2^31 * 10^6 us (68 years); one ulp of such a float is at most 2^-22 *)
Theorem peewee_duration_roundtrip_ulp : forall dur f cell,
  Z.abs dur < 2 ^ 31 * 1000000 -> peewee_dur_enc dur = Ok f -> fin cell ->
  (Rabs (FR cell - FR f) <= bpow radix2 (-22))%R ->
  peewee_dur_dec cell = Ok dur.
Proof.
  intros dur f cell Hd Ef Fc Hc.
  destruct (total_seconds_finite dur ltac:(lia)) as (f' & Ef' & Ff & Vf).
  unfold peewee_dur_enc in Ef. rewrite Ef in Ef'. injection Ef' as <-.
  apply peewee_duration_roundtrip_near; [exact Fc | lia |].
  set (x := (IZR dur / 1000000)%R) in *.
  assert (Xb : (Rabs x < bpow radix2 31)%R).
  { unfold x, Rdiv. rewrite Rabs_mult, (Rabs_pos_eq (/ 1000000)) by lra.
    assert (Rabs (IZR dur) < IZR (2 ^ 31 * 1000000))%R by (apply Rabs_IZR_lt; exact Hd).
    change (bpow radix2 31) with (IZR (Zpower_pos 2 31)). rewrite mult_IZR in H. simpl in *. lra. }
  pose proof (RN_err x 31 ltac:(lia) Xb) as E. change (31 - 54) with (-23) in E.
  rewrite Vf in Hc.
  replace (FR cell * 1000000 - IZR dur)%R with (((FR cell - RN x) + (RN x - x)) * 1000000)%R
    by (unfold x; field).
  rewrite Rabs_mult, (Rabs_pos_eq 1000000) by lra.
  assert (T : (Rabs (FR cell - RN x + (RN x - x)) <= bpow radix2 (-22) + bpow radix2 (-23))%R).
  { eapply Rle_trans; [apply Rabs_triang|]. lra. }
  change (bpow radix2 (-22)) with (/ IZR (Zpower_pos 2 22))%R in T.
  change (bpow radix2 (-23)) with (/ IZR (Zpower_pos 2 23))%R in T. simpl in T.
  assert (0 <= Rabs (FR cell - RN x + (RN x - x)))%R by apply Rabs_pos. lra.
Qed.

(* timestamp: str(datetime) text in the DATETIME column, parsed again on reading *)
Theorem peewee_ts_roundtrip : forall ts, ms_aligned ts -> 0 <= ts <= y2100 ->
  peewee_ts_dec (peewee_ts_enc ts) = Ok ts.
Proof.
  intros ts A R. unfold peewee_ts_dec, peewee_ts_enc, str_utc.
  assert (P : parse_iso (isoformat_sep " " ts) = Ok (ts, 0)) by (apply parse_isoformat; [now right | exact R]).
  rewrite (normalise_str _ ts 0 P R) by reflexivity. now rewrite (floor_ms_aligned ts A).
Qed.
