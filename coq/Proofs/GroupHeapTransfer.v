(* Theorems of Props/C16.v (about Model/Group.v) carried to the heap level through the
   refinements of Proofs/GroupHeapMerge.v and GroupHeapChunk.v: what the Event objects a call
   returns hold, in terms of what the argument objects held before the call. *)
From AwVerif Require Import Base.Prelude Model.MemHeap Model.TransformHeap Model.DictHeap Model.Group
  Model.GroupHeap
  Proofs.MemHeapBase Proofs.TransformHeapBase Proofs.DictHeapBase Proofs.GroupHeapFrame
  Proofs.GroupHeapRefine Proofs.GroupHeapMerge Proofs.GroupHeapChunk
  Proofs.GroupMerge Proofs.GroupChunk.
Local Open Scope nat_scope.
Local Notation lookup := MemHeap.lookup.

(* merge_events_by_keys conserves the total duration, object level: the durations of the
   returned Events add up to those of the argument's elements (an object listed twice
   counts twice), and the argument reads back unchanged *)
Theorem merge_h_total_duration : forall h L keys vs, glist_at h L = Some vs -> hashable_keys h L keys ->
  exists h' L' out, merge_events_by_keys_h h L keys = Ok (h', L') /\
                    glist_at h' L' = Some out /\
                    sumZ (map gdur out) = sumZ (map gdur vs) /\
                    glist_at h' L = Some vs.
Proof.
  intros h L keys vs GL Hh. destruct (merge_h_refines h L keys vs GL Hh) as (h' & L' & H & R & A).
  exists h', L', (merge_events_by_keys vs keys). repeat split; auto. apply merge_total.
Qed.

(* chunk_events_by_key, object level: the sub-event lists of the returned chunk Events
   concatenate to the longest key-bearing prefix of the argument, every chunk is
   well-formed (Proofs/GroupChunk.v: timestamp of its first sub-event, duration = sum, one
   value) and the durations add up *)
Theorem chunk_h_partition : forall sub_key h L key pulse vs, key <> sub_key -> glist_at h L = Some vs ->
  exists h' L' out, chunk_events_by_key_h sub_key h L key pulse = Ok (h', L') /\
                    chunks_at sub_key key h' L' = Some out /\
                    concat (map csub out) = key_prefix key vs /\
                    Forall (GroupChunk.chunk_ok key) out /\
                    sumZ (map cdur out) = sumZ (map gdur (key_prefix key vs)) /\
                    glist_at h' L = Some vs.
Proof.
  intros sub_key h L key pulse vs NK GL.
  destruct (chunk_h_refines sub_key h L key pulse vs NK GL) as (h' & L' & H & R & A).
  destruct (chunk_partition vs key pulse) as [P1 P2].
  exists h', L', (chunk_events_by_key vs key pulse). repeat split; auto. apply chunk_total.
Qed.
