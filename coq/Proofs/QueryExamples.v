(* A small concrete registry and body oracle for the non-vacuity examples of Props/C17.v and
   Props/C11.v (evaluated by vm_compute). *)
From Coq Require Import String.
From AwVerif Require Import Base.Prelude Model.PyStr Model.Query.
Open Scope Z_scope.

Definition ex_table : list builtin :=
  [ mkBuiltin (zs "nop") [] BodyNop;
    mkBuiltin (zs "echo") [PVarargs] BodyEcho;
    mkBuiltin (zs "limit_events") [PTyped PList; PTyped PInt] BodyAbstract;
    mkBuiltin (zs "query_bucket") [PDatastore; PNamespace; PTyped PStr] BodyBucket;
    mkBuiltin (zs "find_bucket") [PDatastore; PTyped PStr; PDefault] BodyAbstract;
    mkBuiltin (zs "boom") [] BodyAbstract ].

(* the world is a call counter; limit_events answers an opaque value numbered by the counter,
   boom raises KeyError inside its body *)
Definition ex_body (name : str) (args : list arg) (w : Z) : (value + errclass) * Z :=
  if str_eqb name (zs "boom") then (inr KeyError, w + 1)
  else (inl (VOpaque w), w + 1).

Definition ex_buckets (_ : Z) (b : str) : bool := str_eqb b (zs "b1").

Definition ex_run (q : string) : res value :=
  fst (run ex_table Z ex_buckets ex_body 4300 (zs "n") (zs "t0") (zs "t1") (zs q) 0).
