(* Concrete programs for the non-vacuity examples of the evaluation theorems in Props/C11.v
   (registry / body oracle of Proofs/QueryExamples.v: the world is a call counter, limit_events
   answers VOpaque <counter>, boom raises KeyError inside its body). *)
From Coq Require Import String Lia.
From AwVerif Require Import Base.Prelude Model.PyStr Model.Query Model.QueryRef
  Proofs.QueryExamples Proofs.QueryRefExamples Proofs.QueryRefEval.
Open Scope Z_scope.

Definition ex_run_w (q : str) : res value * Z :=
  run ex_table Z ex_buckets ex_body 4300 (zs "n") (zs "t0") (zs "t1") q 0.
Definition ex_denote_w (pg : prog) : res value * Z :=
  denote_prog ex_table Z ex_buckets ex_body (zs "n") (zs "t0") (zs "t1") pg 0.
Definition ex_init : namespace := initial_namespace (zs "n") (zs "t0") (zs "t1").

(* a blank made of tab, CR LF, form feed around every separator *)
Definition ex_layout2 : layout := fun p k => if Nat.even k then [9; 13; 10] else [12].

(* {"a": [1, {'b': "x;"-free string with the other quote}], "c": {}} *)
Definition ex_lit : lit :=
  LDct [((c_dq, zs "a"), LLst [LInt (zs "007"); LDct [((c_sq, zs "b"), LStr c_dq (zs "it's ]}"))]]);
        ((c_dq, zs "c"), LDct [])].

(* x = 1; x = [x, 2]; y = x; RETURN = y;   (rebinding, aliasing) *)
Definition ex_rebind : prog :=
  [(zs "x", TInt (zs "1"));
   (zs "x", TLst [TVar (zs "x"); TInt (zs "2")]);
   (zs "y", TVar (zs "x"));
   (zs "x", TInt (zs "3"));
   (zs "RETURN", TVar (zs "y"))].

(* the arguments of a call are evaluated in written order: the call counter numbers them *)
Definition ex_order_args : list term :=
  [TCall (zs "limit_events") [TLst []; TInt (zs "1")];
   TCall (zs "limit_events") [TLst []; TInt (zs "2")];
   TLst [TCall (zs "limit_events") [TLst []; TInt (zs "3")]]].

(* error programs: unknown variable, unknown function, wrong arity, wrong argument type, an
   exception inside a body after an earlier body call has already happened *)
Definition ex_err_var : prog := [(zs "RETURN", TVar (zs "nowhere"))].
Definition ex_err_fn : prog := [(zs "RETURN", TCall (zs "nofn") [TInt (zs "1")])].
Definition ex_err_arity : prog := [(zs "RETURN", TCall (zs "nop") [TInt (zs "1")])].
Definition ex_err_type : prog := [(zs "RETURN", TCall (zs "limit_events") [TStr c_dq (zs "a"); TInt (zs "1")])].
Definition ex_err_body : prog :=
  [(zs "RETURN", TCall (zs "echo") [TCall (zs "limit_events") [TLst []; TInt (zs "1")]; TCall (zs "boom") []; TCall (zs "nop") []])].
Definition ex_err_noreturn : prog := [(zs "x", TInt (zs "1"))].

Lemma ex_layout_wf : wf_layout ex_layout.
Proof. intros p k. unfold ex_layout. destruct (Nat.even k); reflexivity. Qed.
Lemma ex_layout2_wf : wf_layout ex_layout2.
Proof. intros p k. unfold ex_layout2. destruct (Nat.even k); reflexivity. Qed.
Lemma ex_compact_wf : wf_layout ex_compact.
Proof. intros p k. reflexivity. Qed.

Ltac wf_solve :=
  repeat match goal with
         | |- Forall _ _ => constructor
         | |- _ /\ _ => split
         | |- ~ _ => cbn; intuition discriminate
         | |- _ \/ _ => first [left; reflexivity | right; reflexivity | right; apply Nat.leb_le; vm_compute; reflexivity]
         | |- True => exact I
         | |- _ = _ => reflexivity
         | |- _ <> _ => discriminate
         | |- _ => progress cbn
         | |- _ => progress (unfold wf_stmt, wf_name, wf_str)
         end.

Lemma ex_prog_wf : wf_prog 4300 ex_prog.
Proof. unfold wf_prog, ex_prog. wf_solve. Qed.
Lemma ex_rebind_wf : wf_prog 4300 ex_rebind.
Proof. unfold wf_prog, ex_rebind. wf_solve. Qed.
Lemma ex_lit_wf : wf 4300 (lit_term ex_lit).
Proof. wf_solve. Qed.
Lemma ex_order_wf : wf 4300 (TCall (zs "echo") ex_order_args).
Proof. wf_solve. Qed.
Lemma ex_errs_wf : wf_prog 4300 ex_err_var /\ wf_prog 4300 ex_err_fn /\ wf_prog 4300 ex_err_arity /\
  wf_prog 4300 ex_err_type /\ wf_prog 4300 ex_err_body /\ wf_prog 4300 ex_err_noreturn.
Proof. unfold wf_prog. wf_solve. Qed.
