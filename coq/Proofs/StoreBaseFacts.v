(* Generic list / association-list / relational-combinator facts used by the store
   proofs (StoreMemProofs, StoreSqliteProofs, StorePeeweeProofs). *)
From Coq Require Import Permutation Sorted ZifyBool.
From AwVerif Require Import Base.Prelude Model.StoreBase.


(* ---------- plain lists ---------- *)
Lemma NoDup_app_snoc : forall {A} (l : list A) x, NoDup l -> ~ In x l -> NoDup (l ++ [x]).
Proof.
  induction l as [|a t IH]; intros x H I; cbn.
  - constructor; [tauto|constructor].
  - inversion H; subst. constructor.
    + rewrite in_app_iff. cbn. intros [H1|[H1|[]]]; [tauto|]. subst. apply I. now left.
    + apply IH; [assumption|]. intro. apply I. now right.
Qed.

Lemma NoDup_map_inj : forall {A B} (f : A -> B) (l : list A) x y,
  NoDup (map f l) -> In x l -> In y l -> f x = f y -> x = y.
Proof.
  induction l as [|a t IH]; intros x y H Ix Iy E; [destruct Ix|].
  cbn in H. inversion H as [|? ? N ND]; subst.
  destruct Ix as [->|Ix], Iy as [->|Iy]; try reflexivity.
  - exfalso. apply N. rewrite E. now apply in_map.
  - exfalso. apply N. rewrite <- E. now apply in_map.
  - now apply IH.
Qed.

Lemma find_app : forall {A} (p : A -> bool) l l',
  find p (l ++ l') = match find p l with Some x => Some x | None => find p l' end.
Proof. induction l as [|a t IH]; intros; cbn; [reflexivity|]. destruct (p a); [reflexivity|apply IH]. Qed.

Lemma find_In : forall {A} (p : A -> bool) l x, find p l = Some x -> In x l /\ p x = true.
Proof. intros. now apply find_some. Qed.

Lemma find_ext_in : forall {A} (p q : A -> bool) l,
  (forall x, In x l -> p x = q x) -> find p l = find q l.
Proof.
  induction l as [|a t IH]; intros H; cbn; [reflexivity|].
  rewrite (H a) by now left. destruct (q a); [reflexivity|]. apply IH. intros. apply H. now right.
Qed.

Lemma filter_ext_in' : forall {A} (p q : A -> bool) l,
  (forall x, In x l -> p x = q x) -> filter p l = filter q l.
Proof. intros. now apply filter_ext_in. Qed.

Lemma filter_none : forall {A} (p : A -> bool) l, (forall x, In x l -> p x = false) -> filter p l = [].
Proof.
  induction l as [|a t IH]; intros H; cbn; [reflexivity|].
  rewrite (H a) by now left. apply IH. intros. apply H. now right.
Qed.

Lemma filter_all : forall {A} (p : A -> bool) l, (forall x, In x l -> p x = true) -> filter p l = l.
Proof.
  induction l as [|a t IH]; intros H; cbn; [reflexivity|].
  rewrite (H a) by now left. f_equal. apply IH. intros. apply H. now right.
Qed.

Lemma list_max_ge : forall x t y, In y (x :: t) -> y <= list_max x t.
Proof.
  intros x t y. induction t as [|a t IH]; intros H.
  - destruct H as [<-|[]]. cbn. lia.
  - unfold list_max in *. cbn [fold_right]. destruct H as [<-|[<-|H]].
    + specialize (IH (or_introl eq_refl)). lia.
    + lia.
    + specialize (IH (or_intror H)). lia.
Qed.

Lemma map_update_where_in : forall {R B} (g : R -> B) (q : R -> bool) (f : R -> R) l,
  (forall r, In r l -> q r = true -> g (f r) = g r) -> map g (update_where q f l) = map g l.
Proof.
  induction l as [|a t IH]; intros H; cbn; [reflexivity|].
  f_equal.
  - destruct (q a) eqn:E; [apply H; [now left|assumption]|reflexivity].
  - apply IH. intros. apply H; [now right|assumption].
Qed.

(* ---------- relational combinators ---------- *)
Section RelFacts.
  Context {R : Type}.
  Implicit Types (p q : R -> bool) (f : R -> R) (l : list R).

  Lemma find_update_where_other : forall p q f l,
    (forall r, In r l -> q r = true -> p r = false /\ p (f r) = false) ->
    find p (update_where q f l) = find p l.
  Proof.
    induction l as [|a t IH]; intros H; cbn; [reflexivity|].
    destruct (q a) eqn:E.
    - destruct (H a (or_introl eq_refl) E) as [H1 H2]. rewrite H1, H2.
      apply IH. intros. apply H; [now right|assumption].
    - destruct (p a); [reflexivity|]. apply IH. intros. apply H; [now right|assumption].
  Qed.

  Lemma filter_update_where_other : forall p q f l,
    (forall r, In r l -> q r = true -> p r = false /\ p (f r) = false) ->
    filter p (update_where q f l) = filter p l.
  Proof.
    induction l as [|a t IH]; intros H; cbn; [reflexivity|].
    assert (IH' : filter p (update_where q f t) = filter p t).
    { apply IH. intros. apply H; [now right|assumption]. }
    unfold update_where in IH'. destruct (q a) eqn:E.
    - destruct (H a (or_introl eq_refl) E) as [H1 H2]. now rewrite H1, H2.
    - destruct (p a); [f_equal|]; assumption.
  Qed.

  Lemma find_delete_where_other : forall p q l,
    (forall r, In r l -> p r = true -> q r = false) ->
    find p (delete_where q l) = find p l.
  Proof.
    induction l as [|a t IH]; intros H; cbn; [reflexivity|].
    assert (IH' : find p (delete_where q t) = find p t).
    { apply IH. intros. apply H; [now right|assumption]. }
    unfold delete_where in IH'. destruct (p a) eqn:E.
    - rewrite (H a (or_introl eq_refl) E). cbn. now rewrite E.
    - destruct (q a); cbn; [assumption|]. now rewrite E.
  Qed.

  Lemma filter_delete_where_other : forall p q l,
    (forall r, In r l -> q r = true -> p r = false) ->
    filter p (delete_where q l) = filter p l.
  Proof.
    induction l as [|a t IH]; intros H; cbn; [reflexivity|].
    assert (IH' : filter p (delete_where q t) = filter p t).
    { apply IH. intros. apply H; [now right|assumption]. }
    unfold delete_where in IH'. destruct (q a) eqn:E; cbn.
    - rewrite (H a (or_introl eq_refl) E). assumption.
    - destruct (p a); [f_equal|]; assumption.
  Qed.

  Lemma update_where_none : forall q f l,
    (forall r, In r l -> q r = false) -> update_where q f l = l.
  Proof.
    induction l as [|a t IH]; intros H; cbn; [reflexivity|].
    rewrite (H a) by now left. f_equal. apply IH. intros. apply H. now right.
  Qed.

  Lemma map_update_where : forall {B} (g : R -> B) q f l,
    (forall r, g (f r) = g r) -> map g (update_where q f l) = map g l.
  Proof.
    induction l as [|a t IH]; intros H; cbn; [reflexivity|].
    f_equal; [destruct (q a); [apply H|reflexivity]|now apply IH].
  Qed.

  Lemma In_update_where : forall q f l x,
    In x (update_where q f l) -> exists r, In r l /\ (x = r \/ (q r = true /\ x = f r)).
  Proof.
    unfold update_where. intros q f l x H. apply in_map_iff in H as [r [E I]].
    exists r. split; [assumption|]. destruct (q r) eqn:Q; [right|left]; auto.
  Qed.

  Lemma In_delete_where : forall q l x, In x (delete_where q l) -> In x l /\ q x = false.
  Proof.
    unfold delete_where. intros q l x H. apply filter_In in H as [H1 H2].
    split; [assumption|]. now destruct (q x).
  Qed.

  Lemma NoDup_map_delete_where : forall {B} (g : R -> B) q l,
    NoDup (map g l) -> NoDup (map g (delete_where q l)).
  Proof.
    induction l as [|a t IH]; intros H; cbn; [constructor|].
    inversion H as [|? ? N ND]; subst. destruct (q a); cbn; [now apply IH|].
    constructor; [|now apply IH].
    intro I. apply N. apply in_map_iff in I as [r [E I]]. apply In_delete_where in I as [I _].
    rewrite <- E. now apply in_map.
  Qed.
End RelFacts.

(* ---------- association lists ---------- *)
Section AListFacts.
  Context {V : Type}.
  Implicit Types (l : list (Z * V)) (k : Z) (v : V).

  Lemma aget_aset_same : forall l k v, aget k (aset k v l) = Some v.
  Proof.
    induction l as [|[k' v'] t IH]; intros k v; cbn.
    - now rewrite Z.eqb_refl.
    - destruct (k' =? k) eqn:E; cbn.
      + now rewrite Z.eqb_refl.
      + now rewrite E.
  Qed.

  Lemma aget_aset_other : forall l k k' v, k' <> k -> aget k' (aset k v l) = aget k' l.
  Proof.
    induction l as [|[k0 v0] t IH]; intros k k' v H; cbn.
    - destruct (k =? k') eqn:E; [lia|reflexivity].
    - destruct (k0 =? k) eqn:E; cbn.
      + destruct (k =? k') eqn:E1; [lia|]. destruct (k0 =? k') eqn:E2; [lia|reflexivity].
      + destruct (k0 =? k') eqn:E2; [reflexivity|]. now apply IH.
  Qed.

  Lemma aget_adel_same : forall l k, aget k (adel k l) = None.
  Proof.
    unfold adel. induction l as [|[k0 v0] t IH]; intros k; cbn; [reflexivity|].
    destruct (k0 =? k) eqn:E; cbn; [apply IH|]. rewrite E. apply IH.
  Qed.

  Lemma aget_adel_other : forall l k k', k' <> k -> aget k' (adel k l) = aget k' l.
  Proof.
    unfold adel. induction l as [|[k0 v0] t IH]; intros k k' H; cbn; [reflexivity|].
    destruct (k0 =? k) eqn:E; cbn.
    - destruct (k0 =? k') eqn:E2; [lia|]. now apply IH.
    - destruct (k0 =? k') eqn:E2; [reflexivity|]. now apply IH.
  Qed.

  Lemma aget_In_keys : forall l k v, aget k l = Some v -> In k (akeys l).
  Proof.
    induction l as [|[k0 v0] t IH]; intros k v H; cbn in *; [discriminate|].
    destruct (k0 =? k) eqn:E; [left; lia|right; eauto].
  Qed.

  Lemma aget_None_keys : forall l k, aget k l = None -> ~ In k (akeys l).
  Proof.
    induction l as [|[k0 v0] t IH]; intros k H; cbn in *; [tauto|].
    destruct (k0 =? k) eqn:E; [discriminate|]. intros [H1|H1]; [lia|]. now apply (IH k).
  Qed.

  Lemma keys_aget : forall l k, In k (akeys l) -> exists v, aget k l = Some v.
  Proof.
    intros l k H. destruct (aget k l) eqn:E; [eauto|]. now apply aget_None_keys in E.
  Qed.

  Lemma akeys_aset_present : forall l k v, In k (akeys l) -> akeys (aset k v l) = akeys l.
  Proof.
    induction l as [|[k0 v0] t IH]; intros k v H; cbn in *; [tauto|].
    destruct (k0 =? k) eqn:E; cbn.
    - f_equal. lia.
    - f_equal. apply IH. destruct H; [lia|assumption].
  Qed.

  Lemma akeys_aset_absent : forall l k v, ~ In k (akeys l) -> akeys (aset k v l) = akeys l ++ [k].
  Proof.
    induction l as [|[k0 v0] t IH]; intros k v H; cbn in *; [reflexivity|].
    destruct (k0 =? k) eqn:E; cbn.
    - exfalso. apply H. left. lia.
    - f_equal. apply IH. tauto.
  Qed.

  Lemma aset_absent : forall l k v, aget k l = None -> aset k v l = l ++ [(k, v)].
  Proof.
    induction l as [|[k0 v0] t IH]; intros k v H; cbn in *; [reflexivity|].
    destruct (k0 =? k) eqn:E; [discriminate|]. f_equal. now apply IH.
  Qed.

  Lemma NoDup_akeys_aset : forall l k v, NoDup (akeys l) -> NoDup (akeys (aset k v l)).
  Proof.
    intros l k v H. destruct (in_dec Z.eq_dec k (akeys l)) as [I|I].
    - now rewrite akeys_aset_present.
    - rewrite akeys_aset_absent by assumption.
      apply NoDup_app_snoc; assumption.
  Qed.

  Lemma akeys_adel : forall l k, akeys (adel k l) = filter (fun x => negb (x =? k)) (akeys l).
  Proof.
    unfold adel, akeys. induction l as [|[k0 v0] t IH]; intros k; cbn; [reflexivity|].
    destruct (k0 =? k); cbn; now rewrite IH.
  Qed.

  Lemma NoDup_akeys_adel : forall l k, NoDup (akeys l) -> NoDup (akeys (adel k l)).
  Proof. intros. rewrite akeys_adel. now apply NoDup_filter. Qed.
End AListFacts.

(* ---------- the stable insertion sort of Prelude ---------- *)
Section SortFacts.
  Context {A : Type} (key : A -> Z).

  Lemma insert_sorted_perm : forall x l, Permutation (insert_sorted key x l) (x :: l).
  Proof.
    induction l as [|y t IH]; cbn; [reflexivity|].
    destruct (key y <? key x); [|reflexivity].
    rewrite IH. apply perm_swap.
  Qed.

  Lemma sort_by_perm : forall l, Permutation (sort_by key l) l.
  Proof.
    induction l as [|x t IH]; cbn; [constructor|].
    unfold sort_by in *. cbn. rewrite insert_sorted_perm. now constructor.
  Qed.

  Lemma sort_by_In : forall l x, In x (sort_by key l) <-> In x l.
  Proof.
    intros l x. split; intro H.
    - eapply Permutation_in; [apply sort_by_perm|assumption].
    - eapply Permutation_in; [apply Permutation_sym, sort_by_perm|assumption].
  Qed.

  Lemma sort_by_length : forall l, length (sort_by key l) = length l.
  Proof. intros. apply Permutation_length, sort_by_perm. Qed.

  Definition key_le (a b : A) : Prop := key a <= key b.

  Lemma insert_sorted_ssorted : forall x l,
    StronglySorted key_le l -> StronglySorted key_le (insert_sorted key x l).
  Proof.
    induction l as [|y t IH]; intros H; cbn.
    - constructor; constructor.
    - inversion H as [|? ? Ht Hy]; subst. destruct (key y <? key x) eqn:E.
      + constructor; [now apply IH|].
        rewrite Forall_forall in *. intros z Hz.
        eapply Permutation_in in Hz; [|apply insert_sorted_perm].
        destruct Hz as [<-|Hz]; [unfold key_le; lia|now apply Hy].
      + constructor; [assumption|]. constructor; [unfold key_le; lia|].
        rewrite Forall_forall in *. intros z Hz. specialize (Hy z Hz). unfold key_le in *. lia.
  Qed.

  Lemma sort_by_ssorted : forall l, StronglySorted key_le (sort_by key l).
  Proof.
    induction l as [|x t IH]; [constructor|]. unfold sort_by in *. cbn.
    now apply insert_sorted_ssorted.
  Qed.

  (* the head of the sorted list has the least key *)
  Lemma sort_by_head_min : forall l h t,
    sort_by key l = h :: t -> In h l /\ forall x, In x l -> key h <= key x.
  Proof.
    intros l h t E. split.
    - apply sort_by_In. rewrite E. now left.
    - intros x Hx. apply sort_by_In in Hx. rewrite E in Hx.
      pose proof (sort_by_ssorted l) as S. rewrite E in S. inversion S as [|? ? _ F]; subst.
      destruct Hx as [<-|Hx]; [lia|]. rewrite Forall_forall in F. now apply F.
  Qed.

  Lemma last_opt_In : forall (l : list A) x, last_opt l = Some x -> In x l.
  Proof.
    induction l as [|a t IH]; intros x H; [discriminate|].
    destruct t as [|b t']; [inversion H; now left|]. right. now apply IH.
  Qed.

  Lemma last_opt_app : forall (l : list A) x, last_opt (l ++ [x]) = Some x.
  Proof.
    induction l as [|a t IH]; intros x; [reflexivity|].
    cbn. destruct (t ++ [x]) eqn:E; [now destruct t|]. rewrite <- E. apply IH.
  Qed.

  Lemma last_opt_None : forall (l : list A), last_opt l = None -> l = [].
  Proof.
    induction l as [|a t IH]; intros H; [reflexivity|].
    destruct t; [discriminate|]. apply IH in H. discriminate.
  Qed.

  (* the last element of the sorted list has the greatest key *)
  Lemma sort_by_last_max : forall l x,
    last_opt (sort_by key l) = Some x -> In x l /\ forall y, In y l -> key y <= key x.
  Proof.
    intros l x E. split.
    - apply sort_by_In. now apply last_opt_In.
    - intros y Hy. apply sort_by_In in Hy.
      pose proof (sort_by_ssorted l) as S. revert S E Hy. generalize (sort_by key l). clear l.
      induction l as [|a t IH]; intros S E Hy; [destruct Hy|].
      inversion S as [|? ? St F]; subst. destruct t as [|b t'].
      + inversion E; subst. destruct Hy as [<-|[]]. lia.
      + destruct Hy as [<-|Hy].
        * rewrite Forall_forall in F. apply F. now apply last_opt_In.
        * now apply IH.
  Qed.
End SortFacts.

(* ---------- more relational facts (target-bucket side of a statement) ---------- *)
Section RelFacts2.
  Context {R : Type}.
  Implicit Types (p q g : R -> bool) (f : R -> R) (l : list R).

  Lemma filter_update_where_comm : forall p q f l,
    (forall r, p (f r) = p r) -> filter p (update_where q f l) = update_where q f (filter p l).
  Proof.
    induction l as [|a t IH]; intros H; cbn; [reflexivity|].
    specialize (IH H). unfold update_where in IH. destruct (q a) eqn:Q.
    - rewrite H. destruct (p a); cbn; [rewrite Q; f_equal|]; assumption.
    - destruct (p a); cbn; [rewrite Q; f_equal|]; assumption.
  Qed.

  Lemma filter_delete_where_comm : forall p q l,
    filter p (delete_where q l) = delete_where q (filter p l).
  Proof.
    unfold delete_where. induction l as [|a t IH]; cbn; [reflexivity|].
    destruct (q a) eqn:Q; destruct (p a) eqn:P; cbn; rewrite ?Q, ?P; cbn; rewrite ?IH; reflexivity.
  Qed.

  Lemma update_where_ext_in : forall q q' f l,
    (forall r, In r l -> q r = q' r) -> update_where q f l = update_where q' f l.
  Proof.
    intros q q' f l H. unfold update_where. apply map_ext_in. intros r Ir. now rewrite (H r Ir).
  Qed.

  Lemma delete_where_ext_in : forall q q' l,
    (forall r, In r l -> q r = q' r) -> delete_where q l = delete_where q' l.
  Proof.
    intros q q' l H. unfold delete_where. apply filter_ext_in. intros r Ir. now rewrite (H r Ir).
  Qed.

  Lemma filter_andb : forall p g l, filter (fun r => p r && g r) l = filter g (filter p l).
  Proof.
    induction l as [|a t IH]; cbn; [reflexivity|].
    destruct (p a); cbn; [destruct (g a); [f_equal|]|]; assumption.
  Qed.

  Lemma find_update_where_same : forall p f l,
    (forall r, p r = true -> p (f r) = true) ->
    find p (update_where p f l) = option_map f (find p l).
  Proof.
    induction l as [|a t IH]; intros H; cbn; [reflexivity|].
    destruct (p a) eqn:P; [now rewrite (H a P)|]. rewrite P. now apply IH.
  Qed.

  Lemma In_filter_all : forall p l r, In r (filter p l) -> p r = true.
  Proof. intros p l r H. now apply filter_In in H. Qed.
End RelFacts2.

(* an association list is determined by its key order and its lookups *)
Lemma alist_ext : forall {V} (l l' : list (Z * V)),
  akeys l = akeys l' -> NoDup (akeys l) -> (forall k, In k (akeys l) -> aget k l = aget k l') -> l = l'.
Proof.
  induction l as [|[k v] t IH]; intros [|[k' v'] t'] K N H; try discriminate; [reflexivity|].
  cbn in K. inversion K; subst. cbn in N. inversion N as [|? ? NI ND]; subst.
  pose proof (H k' (or_introl eq_refl)) as Hk. cbn in Hk. rewrite Z.eqb_refl in Hk. inversion Hk; subst.
  f_equal. apply IH; [assumption|assumption|].
  intros k Ik. specialize (H k (or_intror Ik)). cbn in H.
  destruct (k' =? k) eqn:E; [|assumption]. exfalso. apply NI. assert (k' = k) by lia. now subst.
Qed.
