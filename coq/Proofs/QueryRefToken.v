(* Term-level scanner lemmas for the C11 round trip: the printed text of a well-formed term is
   neutral for the bracket scanners and has non-blank edges; each check scanner returns exactly
   the printed term; _parse_token picks the right token type (parse_token_exact). *)
From AwVerif Require Import Base.Prelude Model.PyStr Model.Query Model.QueryRef
  Proofs.QueryScan Proofs.QueryTotal Proofs.QueryClasses Proofs.QueryRefStr Proofs.QueryRefScan.
From Coq Require Import ZifyBool Lia.
Open Scope Z_scope.

(* ---------------------------------------------------------------- induction on terms *)

Section TermInd.
  Variable P : term -> Prop.
  Hypothesis HI : forall ds, P (TInt ds).
  Hypothesis HS : forall q s, P (TStr q s).
  Hypothesis HV : forall n, P (TVar n).
  Hypothesis HC : forall n args, Forall P args -> P (TCall n args).
  Hypothesis HL : forall l, Forall P l -> P (TLst l).
  Hypothesis HD : forall d, Forall (fun e => P (snd e)) d -> P (TDct d).
  Fixpoint term_ind2 (t : term) : P t :=
    match t with
    | TInt ds => HI ds
    | TStr q s => HS q s
    | TVar n => HV n
    | TCall n args =>
        HC n args ((fix go (l : list term) : Forall P l :=
                      match l with [] => Forall_nil _ | a :: l' => Forall_cons _ (term_ind2 a) (go l') end) args)
    | TLst l =>
        HL l ((fix go (l : list term) : Forall P l :=
                 match l with [] => Forall_nil _ | a :: l' => Forall_cons _ (term_ind2 a) (go l') end) l)
    | TDct d =>
        HD d ((fix go (l : list ((Z * str) * term)) : Forall (fun e => P (snd e)) l :=
                 match l with
                 | [] => Forall_nil _
                 | e :: l' => Forall_cons _ (term_ind2 (snd e)) (go l')
                 end) d)
    end.
End TermInd.

Lemma wf_all_forall md (l : list term) :
  (fix all (l : list term) : Prop := match l with [] => True | a :: r => wf md a /\ all r end) l
  <-> Forall (wf md) l.
Proof.
  induction l as [|a r IH]; split; intro H.
  - constructor.
  - exact I.
  - destruct H as [Ha Hr]. constructor; [assumption|apply IH; assumption].
  - inversion H; subst. split; [assumption|apply IH; assumption].
Qed.

Lemma wf_entries_forall md (l : list ((Z * str) * term)) :
  (fix all (l : list ((Z * str) * term)) : Prop :=
     match l with
     | [] => True
     | e :: r => wf_str (fst (fst e)) (snd (fst e)) /\ wf md (snd e) /\ all r
     end) l
  <-> Forall (fun e => wf_str (fst (fst e)) (snd (fst e)) /\ wf md (snd e)) l.
Proof.
  induction l as [|a r IH]; split; intro H.
  - constructor.
  - exact I.
  - destruct H as (Ha & Hb & Hr). constructor; [split; assumption|apply IH; assumption].
  - inversion H as [|x y [Ha Hb] Hr]; subst. split; [assumption|]. split; [assumption|apply IH; assumption].
Qed.

(* ---------------------------------------------------------------- character classes *)

Lemma name_char_facts c : name_char c = true ->
  plain c = true /\ is_space c = false /\ c <> c_lpar /\ c <> c_eq /\ c <> c_semi /\ c <> c_comma.
Proof. unfold name_char, plain, is_space, is_alpha, is_digit. unfold_chars. intros. lia. Qed.

Lemma digit_name_char c : is_digit c = true -> name_char c = true.
Proof. unfold name_char. intros ->. apply orb_true_r. Qed.

Lemma space_facts c : is_space c = true ->
  plain c = true /\ name_char c = false /\ c <> c_lpar /\ c <> c_eq /\ c <> c_semi /\ c <> c_comma /\
  c <> c_colon.
Proof. unfold name_char, plain, is_space, is_alpha, is_digit. unfold_chars. intros. lia. Qed.

Lemma forallb_impl {A} (f g : A -> bool) l : (forall x, f x = true -> g x = true) ->
  forallb f l = true -> forallb g l = true.
Proof.
  intros H. induction l as [|a t IH]; [reflexivity|]. cbn [forallb]. intro E.
  apply andb_true_iff in E. destruct E as [Ea Et]. rewrite (H _ Ea), (IH Et). reflexivity.
Qed.

Lemma name_plain n : forallb name_char n = true -> forallb plain n = true.
Proof. apply forallb_impl. intros x H. apply name_char_facts in H. tauto. Qed.

Lemma space_plain b : all_space b = true -> forallb plain b = true.
Proof. apply forallb_impl. intros x H. apply space_facts in H. tauto. Qed.

Lemma wf_name_chars n : wf_name n -> n <> [] /\ forallb name_char n = true.
Proof.
  destruct n as [|c r]; [intros []|]. intros [Hc Hr]. split; [congruence|]. cbn [forallb].
  rewrite Hr. unfold name_char. rewrite Hc. reflexivity.
Qed.

Lemma last_nonspace_all x : x <> [] -> forallb (fun c => negb (is_space c)) x = true -> last_nonspace x = true.
Proof.
  induction x as [|c t IH]; [congruence|]. intros _ H. cbn [forallb] in H. apply andb_true_iff in H.
  destruct H as [Hc Ht]. destruct t as [|d t']; [exact Hc|]. apply IH; [congruence|assumption].
Qed.

Lemma name_nonspace n : forallb name_char n = true -> forallb (fun c => negb (is_space c)) n = true.
Proof. apply forallb_impl. intros x H. apply name_char_facts in H. destruct H as (_ & -> & _). reflexivity. Qed.

(* ---------------------------------------------------------------- printed terms *)

Definition kind (t : term) : qtype :=
  match t with
  | TInt _ => TInteger | TStr _ _ => TString | TVar _ => TVariable
  | TCall _ _ => TFunction | TLst _ => TList | TDct _ => TDict
  end.

Section Printed.
  Variable lay : layout.
  Hypothesis Hlay : wf_layout lay.
  Variable md : nat.

  Lemma lay_plain p k : forallb plain (lay p k) = true.
  Proof. apply space_plain. apply Hlay. Qed.

  Lemma neutral_lay p k : neutral (lay p k).
  Proof. apply neutral_plain, lay_plain. Qed.

  Lemma neutral_comma : neutral [c_comma].
  Proof. apply neutral_plain_char. reflexivity. Qed.
  Lemma neutral_colon : neutral [c_colon].
  Proof. apply neutral_plain_char. reflexivity. Qed.

  Lemma neutral_sep_core {A} (pr : list nat -> A -> str) p (l : list A) :
    (forall pth a, In a l -> neutral (pr pth a)) -> forall i, neutral (sep_core lay pr p i l).
  Proof.
    induction l as [|a r IH]; intros H i; cbn [sep_core]; [apply neutral_nil|].
    apply neutral_app; [apply H; left; reflexivity|].
    destruct r as [|a2 r2]; [apply neutral_nil|].
    apply neutral_app; [apply neutral_lay|]. apply neutral_app; [apply neutral_comma|].
    apply neutral_app; [apply neutral_lay|]. apply IH. intros pth x Hx. apply H. right. exact Hx.
  Qed.

  Lemma neutral_inner {A} (pr : list nat -> A -> str) p (l : list A) :
    (forall pth a, In a l -> neutral (pr pth a)) -> neutral (inner lay pr p l).
  Proof.
    intro H. unfold inner. destruct l as [|a r]; [apply neutral_lay|].
    apply neutral_app; [apply neutral_lay|]. apply neutral_app; [|apply neutral_lay].
    apply neutral_sep_core. exact H.
  Qed.

  Lemma txt_neutral t : wf md t -> forall p, neutral (txt lay p t).
  Proof.
    induction t as [ds|q s|n|n args IH|l IH|d IH] using term_ind2; intros Hw p; cbn [txt].
    - destruct Hw as (_ & Hd & _). apply neutral_plain. revert Hd. apply forallb_impl.
      intros x Hx. apply digit_name_char, name_char_facts in Hx. tauto.
    - destruct Hw as (Hq & He & _). apply neutral_str; assumption.
    - apply wf_name_chars in Hw. destruct Hw as [_ Hn]. apply neutral_plain, name_plain, Hn.
    - destruct Hw as [Hn Ha]. apply wf_name_chars in Hn. destruct Hn as [_ Hn].
      apply wf_all_forall in Ha.
      apply neutral_app; [apply neutral_plain, name_plain, Hn|].
      apply (neutral_wrap c_lpar c_rpar); [left; split; reflexivity|].
      apply neutral_inner. intros pth a Hin. rewrite Forall_forall in IH, Ha. apply IH; [assumption|apply Ha; assumption].
    - apply wf_all_forall in Hw.
      apply (neutral_wrap c_lbrk c_rbrk); [right; left; split; reflexivity|].
      apply neutral_inner. intros pth a Hin. rewrite Forall_forall in IH, Hw. apply IH; [assumption|apply Hw; assumption].
    - destruct Hw as [_ Hw]. apply wf_entries_forall in Hw.
      apply (neutral_wrap c_lbrc c_rbrc); [right; right; split; reflexivity|].
      apply neutral_inner. intros pth e Hin. rewrite Forall_forall in IH, Hw.
      destruct (Hw e Hin) as [[Hq [He _]] Hv].
      apply neutral_app; [apply neutral_str; assumption|].
      apply neutral_app; [apply neutral_lay|]. apply neutral_app; [apply neutral_colon|].
      apply neutral_app; [apply neutral_lay|]. apply IH; assumption.
  Qed.

  (* the printed text of a term starts and ends with a non-blank character *)
  Lemma txt_edges t p : wf md t ->
    first_nonspace (txt lay p t) = true /\ last_nonspace (txt lay p t) = true.
  Proof.
    destruct t as [ds|q s|n|n args|l|d]; intro Hw; cbn [txt].
    - destruct Hw as (Hne & Hd & _).
      assert (Hns : forallb (fun c => negb (is_space c)) ds = true).
      { apply name_nonspace. revert Hd. apply forallb_impl. apply digit_name_char. }
      split; [|apply last_nonspace_all; assumption].
      destruct ds as [|c r]; [congruence|]. cbn [forallb] in Hns. apply andb_true_iff in Hns. tauto.
    - destruct Hw as ([->| ->] & _ & _); (split; [reflexivity|]); unfold str_txt;
        change (?q :: ?x ++ [?q]) with ((q :: x) ++ [q]); apply last_nonspace_single_end; reflexivity.
    - destruct (wf_name_chars n Hw) as [Hne Hn]. pose proof (name_nonspace n Hn) as Hns.
      split; [|apply last_nonspace_all; assumption].
      destruct n as [|c r]; [congruence|]. cbn [forallb] in Hns. apply andb_true_iff in Hns. tauto.
    - destruct Hw as [Hw _]. destruct (wf_name_chars n Hw) as [Hne Hn]. pose proof (name_nonspace n Hn) as Hns.
      split.
      + destruct n as [|c r]; [congruence|]. cbn [forallb] in Hns. apply andb_true_iff in Hns. cbn. tauto.
      + rewrite !app_assoc. apply last_nonspace_single_end. reflexivity.
    - split; [reflexivity|]. rewrite !app_assoc. apply last_nonspace_single_end. reflexivity.
    - split; [reflexivity|]. rewrite !app_assoc. apply last_nonspace_single_end. reflexivity.
  Qed.

  Lemma txt_nonempty t p : wf md t -> txt lay p t <> [].
  Proof. intro H. destruct (txt_edges t p H) as [E _]. destruct (txt lay p t); [discriminate|congruence]. Qed.
End Printed.

(* ---------------------------------------------------------------- what may follow a token *)

Definition sep_start (r : str) : bool :=
  match r with [] => true | c :: _ => negb (name_char c) && negb (c =? c_lpar) end.

Lemma sep_start_rstrip r : sep_start r = true -> sep_start (rstrip r) = true.
Proof.
  destruct r as [|c t]; [reflexivity|]. intro H. cbn [rstrip].
  destruct (rstrip t); [destruct (is_space c); [reflexivity|exact H]|exact H].
Qed.

Lemma sep_start_space b r : all_space b = true -> sep_start r = true -> sep_start (b ++ r) = true.
Proof.
  destruct b as [|c t]; [intros _ H; exact H|]. cbn [forallb app sep_start]. intros H _.
  apply andb_true_iff in H. destruct H as [Hc _]. apply space_facts in Hc.
  destruct Hc as (_ & -> & Hl & _). replace (c =? c_lpar) with false by lia. reflexivity.
Qed.

(* ---------------------------------------------------------------- exact scanners *)

Lemma take_digits_exact ds r : forallb is_digit ds = true -> sep_start r = true -> take_digits (ds ++ r) = ds.
Proof.
  intros Hd Hr. induction ds as [|c t IH].
  - destruct r as [|c t]; [reflexivity|]. cbn [app take_digits]. cbn [sep_start] in Hr.
    destruct (is_digit c) eqn:E; [|reflexivity]. rewrite (digit_name_char c E) in Hr. discriminate.
  - cbn [forallb] in Hd. apply andb_true_iff in Hd. destruct Hd as [Hc Ht].
    cbn [app take_digits]. rewrite Hc, (IH Ht). reflexivity.
Qed.

Lemma check_integer_exact ds r : forallb is_digit ds = true -> sep_start r = true ->
  check_integer (ds ++ r) = (Some ds, r).
Proof. intros Hd Hr. unfold check_integer. rewrite take_digits_exact by assumption. rewrite drop_app_exact. reflexivity. Qed.

Lemma var_scan_exact n r : forallb name_char n = true -> sep_start r = true ->
  forall i, (1 <= i)%nat -> var_scan i (n ++ r) = n.
Proof.
  intros Hn Hr. induction n as [|c t IH]; intros i Hi.
  - destruct r as [|c t]; [reflexivity|]. cbn [app var_scan]. cbn [sep_start] in Hr.
    apply andb_true_iff in Hr. destruct Hr as [Hc _]. unfold name_char in Hc.
    destruct (is_alpha c || (c =? c_us)); [discriminate|]. cbn [orb] in Hc.
    destruct (is_digit c); [discriminate|]. rewrite andb_false_r. reflexivity.
  - cbn [forallb] in Hn. apply andb_true_iff in Hn. destruct Hn as [Hc Ht].
    cbn [app var_scan]. unfold name_char in Hc.
    destruct (is_alpha c || (c =? c_us)); [rewrite IH by (assumption || lia); reflexivity|].
    cbn [orb] in Hc. rewrite Hc. replace (Nat.eqb i 0) with false by (destruct i; [lia|reflexivity]).
    cbn [negb andb]. rewrite IH by (assumption || lia). reflexivity.
Qed.

Lemma check_variable_exact n r : wf_name n -> sep_start r = true -> check_variable (n ++ r) = (Some n, r).
Proof.
  intros Hn Hr. unfold check_variable. destruct n as [|c t]; [destruct Hn|]. destruct Hn as [Hc Ht].
  assert (E : var_scan 0 ((c :: t) ++ r) = c :: t).
  { cbn [app var_scan]. rewrite Hc. rewrite var_scan_exact by (assumption || lia). reflexivity. }
  rewrite E. rewrite drop_app_exact. reflexivity.
Qed.

Lemma fn_head_name_paren n y : forallb name_char n = true -> forall i, (1 <= i)%nat ->
  fn_head i (n ++ c_lpar :: y) = ((i + length n + 1)%nat, true).
Proof.
  intros Hn. induction n as [|c t IH]; intros i Hi.
  - cbn [app fn_head length]. replace (Nat.eqb i 0) with false by (destruct i; [lia|reflexivity]).
    cbn. f_equal; lia.
  - cbn [forallb] in Hn. apply andb_true_iff in Hn. destruct Hn as [Hc Ht].
    cbn [app fn_head length]. unfold name_char in Hc.
    destruct (is_alpha c || (c =? c_us)); [rewrite IH by (assumption || lia); f_equal; lia|].
    cbn [orb] in Hc. rewrite Hc. replace (Nat.eqb i 0) with false by (destruct i; [lia|reflexivity]).
    cbn [negb andb]. rewrite IH by (assumption || lia). f_equal; lia.
Qed.

Lemma fn_head_name_sep n r : forallb name_char n = true -> sep_start r = true -> forall i, (1 <= i)%nat ->
  snd (fn_head i (n ++ r)) = false.
Proof.
  intros Hn Hr. induction n as [|c t IH]; intros i Hi.
  - destruct r as [|c t]; [reflexivity|]. cbn [app fn_head]. cbn [sep_start] in Hr.
    apply andb_true_iff in Hr. destruct Hr as [Hc Hl]. unfold name_char in Hc.
    destruct (is_alpha c || (c =? c_us)); [discriminate|]. cbn [orb] in Hc.
    destruct (is_digit c); [discriminate|]. rewrite andb_false_r.
    destruct (c =? c_lpar); [discriminate|reflexivity].
  - cbn [forallb] in Hn. apply andb_true_iff in Hn. destruct Hn as [Hc Ht].
    cbn [app fn_head]. unfold name_char in Hc.
    destruct (is_alpha c || (c =? c_us)); [apply IH; (assumption || lia)|].
    cbn [orb] in Hc. rewrite Hc. replace (Nat.eqb i 0) with false by (destruct i; [lia|reflexivity]).
    cbn [negb andb]. apply IH; (assumption || lia).
Qed.

Lemma check_function_var n r : wf_name n -> sep_start r = true -> check_function (n ++ r) = (None, n ++ r).
Proof.
  intros Hn Hr. unfold check_function. destruct n as [|c t]; [destruct Hn|]. destruct Hn as [Hc Ht].
  destruct (fn_head 0 ((c :: t) ++ r)) as [i found] eqn:E.
  assert (found = false).
  { cbn [app fn_head] in E. rewrite Hc in E.
    pose proof (fn_head_name_sep t r Ht Hr 1%nat ltac:(lia)) as H. rewrite E in H. exact H. }
  subst found. reflexivity.
Qed.

Lemma check_function_exact n x r : wf_name n -> neutral x ->
  check_function (n ++ [c_lpar] ++ x ++ [c_rpar] ++ r) = (Some (n ++ [c_lpar] ++ x ++ [c_rpar]), r).
Proof.
  intros Hn Hx. unfold check_function. destruct n as [|c t] eqn:En; [destruct Hn|]. destruct Hn as [Hc Ht].
  rewrite <- En.
  assert (Eh : fn_head 0 (n ++ [c_lpar] ++ x ++ [c_rpar] ++ r) = ((length n + 1)%nat, true)).
  { subst n. cbn [app fn_head]. rewrite Hc. cbn [app] in *.
    rewrite (fn_head_name_paren t (x ++ c_rpar :: r) Ht 1%nat) by lia. cbn [length]. f_equal; lia. }
  rewrite Eh. cbn [negb].
  assert (Ed : drop (length n + 1) (n ++ [c_lpar] ++ x ++ [c_rpar] ++ r) = x ++ [c_rpar] ++ r).
  { rewrite (app_assoc n). apply drop_app_exact'. rewrite app_length. reflexivity. }
  rewrite Ed.
  destruct (Hx c_lpar c_rpar true ([c_rpar] ++ r) (length n + 1)%nat 1 None) as (p1 & Hp1 & E1);
    [left; split; reflexivity|lia|reflexivity|].
  rewrite E1. cbn [app bscan].
  rewrite bstep_close by (left; split; reflexivity). change (1 - 1) with 0. cbn [Z.eqb negb].
  assert (El : S (length n + 1 + length x) = length (n ++ [c_lpar] ++ x ++ [c_rpar])).
  { rewrite !app_length. cbn [length]. lia. }
  rewrite El.
  assert (Es : n ++ c_lpar :: x ++ c_rpar :: r = (n ++ [c_lpar] ++ x ++ [c_rpar]) ++ r)
    by (rewrite <- !app_assoc; reflexivity).
  rewrite Es. rewrite take_app_exact, drop_app_exact. reflexivity.
Qed.

Lemma check_bracket_exact o c' x r : pair_ok o c' -> neutral x ->
  check_bracket o c' ([o] ++ x ++ [c'] ++ r) = Ok (Some ([o] ++ x ++ [c']), r).
Proof.
  intros P Hx. unfold check_bracket. cbn [app first_char bind].
  replace (o =? o) with true by lia. cbn [negb drop skipn].
  destruct (Hx o c' false ([c'] ++ r) 1%nat 1 None P ltac:(lia) eq_refl) as (p1 & Hp1 & E1).
  cbn [app] in E1. rewrite E1. cbn [bscan]. rewrite bstep_close by assumption.
  change (1 - 1) with 0. cbn [Z.eqb].
  assert (El : S (1 + length x) = length (o :: x ++ [c'])).
  { cbn [length]. rewrite app_length. cbn [length]. lia. }
  rewrite El.
  replace (o :: x ++ c' :: r) with ((o :: x ++ [c']) ++ r)
    by (cbn [app]; rewrite <- app_assoc; reflexivity).
  rewrite take_app_exact, drop_app_exact. reflexivity.
Qed.

Lemma last_char_snoc (x : str) c : last_char (x ++ [c]) = Ok c.
Proof.
  induction x as [|a t IH]; [reflexivity|]. cbn [app]. destruct (t ++ [c]) eqn:E; [destruct t; discriminate|].
  exact IH.
Qed.

Lemma check_string_exact q s r : q = c_dq \/ q = c_sq -> ends_ok s = true ->
  check_string (str_txt q s ++ r) = Ok (Some (str_txt q s), r).
Proof.
  intros Hq He. unfold check_string, str_txt. cbn [app first_char bind].
  replace (negb (q =? c_dq) && negb (q =? c_sq)) with false by (destruct Hq; subst; reflexivity).
  cbn [drop skipn]. rewrite <- app_assoc. cbn [app].
  rewrite str_scan_escape; [|assumption|assumption|reflexivity].
  change (q :: escape q s ++ [q]) with ((q :: escape q s) ++ [q]).
  rewrite last_char_snoc. cbn [bind]. replace (q =? q) with true by lia. cbn [negb orb].
  replace (Nat.ltb (length ((q :: escape q s) ++ [q])) 2) with false
    by (rewrite app_length; cbn [length]; symmetry; apply Nat.ltb_ge; lia).
  replace (q :: escape q s ++ q :: r) with (((q :: escape q s) ++ [q]) ++ r)
    by (cbn [app]; rewrite <- app_assoc; reflexivity).
  rewrite drop_app_exact. reflexivity.
Qed.
