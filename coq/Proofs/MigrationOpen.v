(* C14 end to end: SqliteStorage(testing) at the default path, first start beside a legacy
   file of the same profile = trigger + copy loop.  Lemmas about sqlite_open. *)
From AwVerif Require Import Base.Prelude Model.StoreBase Model.SqliteStore Model.PeeweeStore
  Model.Migration Proofs.MigrationBase Proofs.MigrationNames Proofs.MigrationCopy.
From Coq Require Import Permutation.

Lemma new_db_file_default : forall testing listing,
  ~ In (sq_filename testing) listing -> new_db_file testing DefaultPath listing = true.
Proof.
  intros testing listing H. unfold new_db_file.
  destruct (existsb (name_eqb (sq_filename testing)) listing) eqn:E; [|reflexivity].
  apply mem_In in E. contradiction.
Qed.

Theorem sqlite_open_lossless : forall testing listing pw existing,
  ~ In (pw_ds_name testing) listing ->
  ~ In (sq_filename testing) listing ->
  In (pw_filename testing) listing ->
  PwInv pw ->
  exists sq,
    sqlite_open testing DefaultPath listing pw existing = (pw_open pw, sq, Ok tt) /\
    map br_id (sq_buckets sq) = map pb_id (pw_buckets pw) /\
    forall b,
      match pw_view pw b with
      | Some (m, es) => exists es', sq_view sq b = Some (m, es') /\
                                    Permutation (map payload es') (map payload es)
      | None => sq_view sq b = None
      end.
Proof.
  intros testing listing pw existing Hdot Hnew Hleg Hinv. unfold sqlite_open.
  rewrite trigger_legacy_present by assumption.
  rewrite new_db_file_default by assumption.
  apply migrate_lossless. exact Hinv.
Qed.

Theorem sqlite_open_no_migration : forall testing p listing pw existing,
  sq_init_migrates testing p listing = Ok false ->
  sqlite_open testing p listing pw existing =
  (pw, (if new_db_file testing p listing then sq_init else existing), Ok tt).
Proof. intros testing p listing pw existing H. unfold sqlite_open. rewrite H. reflexivity. Qed.

(* only the other profile's legacy file (or none) is there: the new store starts empty *)
Corollary sqlite_open_other_profile_only : forall testing listing pw existing,
  (forall n, In n listing -> n = pw_filename (negb testing)) ->
  sqlite_open testing DefaultPath listing pw existing = (pw, sq_init, Ok tt).
Proof.
  intros testing listing pw existing H.
  rewrite sqlite_open_no_migration.
  - rewrite new_db_file_default; [reflexivity|].
    intros Hin. apply H in Hin. destruct testing; vm_compute in Hin; discriminate.
  - apply trigger_never_cross. intros n Hn. rewrite (H n Hn). apply other_profile_component0.
Qed.
