(* Lemmas about the composition of the commit model with the store model
   (Model/CrashStore.v): the refinement to the token model of Model/Commit.v (forgetting
   the contents of the statements gives exactly that model: same scripts, same
   bookkeeping, and the token lists name the statement lists behind [durable] and
   [live]), and the state-level forms of the C06 statements, obtained through it from
   Proofs/CommitProofs.v. *)
From AwVerif Require Import Base.Prelude Model.Commit Proofs.CommitProofs.
From AwVerif Require Import Model.StoreBase Model.SqliteStore Model.CrashStore.
From Coq Require Import ZifyBool.

(* ---- vocabulary ---- *)

Definition cr_bucket_op (o : cop) : Prop :=
  match o with
  | Std (CreateBucket _ _) | Std (UpdateBucket _ _ _ _ _ _) | Std (DeleteBucket _) => True
  | _ => False
  end.

Definition cr_single_event_op (o : cop) : Prop :=
  match o with
  | Std (InsertOne _ _) | Std (Replace _ _ _) | Std (ReplaceLast _ _) | Std (Delete _ _) => True
  | _ => False
  end.

Definition cr_atomic_op (o : cop) : Prop := cr_bucket_op o \/ cr_single_event_op o.

(* ---- lists ---- *)

Lemma apply_stmts_app : forall a b c, apply_stmts c (a ++ b) = apply_stmts (apply_stmts c a) b.
Proof. intros. unfold apply_stmts. apply fold_left_app. Qed.

Lemma stmts_of_app : forall a b, stmts_of (a ++ b) = stmts_of a ++ stmts_of b.
Proof. intros. unfold stmts_of. apply flat_map_app. Qed.

Lemma cr_run_app : forall lazy a b s, cr_run lazy s (a ++ b) = cr_run lazy (cr_run lazy s a) b.
Proof. intros. unfold cr_run. apply fold_left_app. Qed.

Lemma cr_run_cons : forall lazy mc tr s, cr_run lazy s (mc :: tr) = cr_run lazy (cr_step lazy s mc) tr.
Proof. reflexivity. Qed.

Lemma live_after_app : forall a b c, live_after c (a ++ b) = live_after (live_after c a) b.
Proof. intros. unfold live_after. apply fold_left_app. Qed.

Lemma smap_fst_cons : forall (tr : list (smicro * clk)) m ms,
  map fst tr = m :: ms -> exists c tr', tr = (m, c) :: tr' /\ map fst tr' = ms.
Proof.
  intros [|[m' c] tr'] m ms H; [discriminate|]. cbn in H. inversion H; subst. eauto.
Qed.

Lemma smap_fst_app : forall (tr : list (smicro * clk)) a b,
  map fst tr = a ++ b -> exists ta tb, tr = ta ++ tb /\ map fst ta = a /\ map fst tb = b.
Proof.
  intros tr a. revert tr. induction a as [|m a IH]; intros tr b H.
  - exists [], tr. auto.
  - cbn in H. apply smap_fst_cons in H. destruct H as (c & tr' & -> & H).
    apply IH in H. destruct H as (ta & tb & -> & Ha & Hb).
    exists ((m, c) :: ta), tb. cbn. rewrite Ha. auto.
Qed.

Lemma prefix_app_l : forall A (a b : list A), prefix a (a ++ b).
Proof. intros. exists b. reflexivity. Qed.

Lemma prefix_short : forall A (p a b : list A),
  prefix p (a ++ b) -> (length p <= length a)%nat -> prefix p a.
Proof.
  intros A p. induction p as [|x p IH]; intros a b [q H] Hl.
  - exists a. reflexivity.
  - destruct a as [|y a]; [cbn in Hl; lia|]. cbn in H. inversion H; subst.
    destruct (IH a b) as [q' Hq']; [exists q; assumption|cbn in Hl; lia|].
    exists q'. cbn. rewrite Hq'. reflexivity.
Qed.

Lemma prefix_long : forall A (p a b : list A),
  prefix p (a ++ b) -> (length a <= length p)%nat -> prefix a p.
Proof.
  intros A p. induction p as [|x p IH]; intros a b [q H] Hl.
  - destruct a; [exists []; reflexivity|cbn in Hl; lia].
  - destruct a as [|y a]; [exists (x :: p); reflexivity|]. cbn in H. inversion H; subst.
    destruct (IH a b) as [q' Hq']; [exists q; assumption|cbn in Hl; lia|].
    exists q'. cbn. rewrite Hq'. reflexivity.
Qed.

(* ---- forgetting contents: traces ---- *)

Section Forget.
  Variable tokf : stmt -> Z.

  Lemma forget_tr_app : forall a b, forget_tr tokf (a ++ b) = forget_tr tokf a ++ forget_tr tokf b.
  Proof. intros. unfold forget_tr. apply map_app. Qed.

  Lemma forget_tr_firstn : forall k tr, forget_tr tokf (firstn k tr) = firstn k (forget_tr tokf tr).
  Proof. intros. unfold forget_tr. symmetry. apply firstn_map. Qed.

  Lemma map_fst_forget_tr : forall tr,
    map fst (forget_tr tokf tr) = map (forget_micro tokf) (map fst tr).
  Proof. intros. unfold forget_tr. rewrite !map_map. reflexivity. Qed.

  Lemma writes_of_forget : forall ms,
    writes_of (map (forget_micro tokf) ms) = map tokf (stmts_of ms).
  Proof.
    induction ms as [|m ms IH]; [reflexivity|].
    cbn [map]. change (writes_of (forget_micro tokf m :: map (forget_micro tokf) ms))
      with (writes_of_micro (forget_micro tokf m) ++ writes_of (map (forget_micro tokf) ms)).
    change (stmts_of (m :: ms)) with (stmts_of_micro m ++ stmts_of ms).
    rewrite map_app, IH. f_equal. destruct m; reflexivity.
  Qed.

  Lemma twrites_forget : forall tr, twrites (forget_tr tokf tr) = map tokf (stmts_of (map fst tr)).
  Proof. intros. unfold twrites. rewrite map_fst_forget_tr. apply writes_of_forget. Qed.

  (* ---- the refinement relation ----
     [iss] = the statements issued so far; the token state's lists name a split of it *)
  Definition Rel (d0 : sqstate) (iss : list stmt) (ss : crstate) (cs : cstate) : Prop :=
    exists cl pl,
      cl ++ pl = iss /\ committed cs = map tokf cl /\ pending cs = map tokf pl /\
      durable ss = apply_stmts d0 cl /\ live ss = apply_stmts d0 iss /\
      cr_n ss = n_unc cs /\ cr_last ss = last_commit cs.

  Lemma rel_init : forall d0 t0, Rel d0 [] (cr_init d0 t0) (init [] t0).
  Proof. intros. exists [], []. cbn. repeat split; reflexivity. Qed.

  Lemma rel_commit : forall d0 iss ss cs t,
    Rel d0 iss ss cs -> Rel d0 iss (cr_commit t ss) (do_commit t cs).
  Proof.
    intros d0 iss ss cs t (cl & pl & Hs & Hc & Hp & Hd & Hl & Hn & Ht).
    exists iss, []. cbn. rewrite app_nil_r, Hc, Hp, <- map_app, Hs. repeat split; auto.
  Qed.

  Lemma rel_set_n : forall d0 iss ss cs k,
    Rel d0 iss ss cs -> Rel d0 iss (cr_set_n ss (cr_n ss + k)) (set_n cs (n_unc cs + k)).
  Proof.
    intros d0 iss ss cs k (cl & pl & Hs & Hc & Hp & Hd & Hl & Hn & Ht).
    exists cl, pl. cbn. rewrite Hn. repeat split; auto.
  Qed.

  Lemma rel_exec : forall d0 iss ss cs qs,
    Rel d0 iss ss cs ->
    Rel d0 (iss ++ qs) (cr_set_live ss (apply_stmts (live ss) qs)) (add_pending cs (map tokf qs)).
  Proof.
    intros d0 iss ss cs qs (cl & pl & Hs & Hc & Hp & Hd & Hl & Hn & Ht).
    exists cl, (pl ++ qs). cbn. rewrite app_assoc, Hs, Hp, map_app, Hl, apply_stmts_app.
    repeat split; auto.
  Qed.

  Lemma rel_n : forall d0 iss ss cs, Rel d0 iss ss cs -> cr_n ss = n_unc cs.
  Proof. intros d0 iss ss cs (cl & pl & H). tauto. Qed.
  Lemma rel_last : forall d0 iss ss cs, Rel d0 iss ss cs -> cr_last ss = last_commit cs.
  Proof. intros d0 iss ss cs (cl & pl & H). tauto. Qed.

  Lemma rel_if_commit : forall d0 iss ss cs (b : bool) t,
    Rel d0 iss ss cs ->
    Rel d0 iss (if b then cr_commit t ss else ss) (if b then do_commit t cs else cs).
  Proof. intros. destruct b; [apply rel_commit|]; assumption. Qed.

  Lemma rel_cond_commit : forall d0 iss ss cs lazy k c,
    Rel d0 iss ss cs -> Rel d0 iss (cr_cond_commit lazy k c ss) (cond_commit lazy k c cs).
  Proof.
    intros d0 iss ss cs lazy k c H. unfold cr_cond_commit, cond_commit.
    destruct lazy; [|apply rel_commit; exact H].
    pose proof (rel_set_n d0 iss ss cs k H) as H1.
    set (s1 := cr_set_n ss (cr_n ss + k)) in *. set (c1 := set_n cs (n_unc cs + k)) in *.
    cbv zeta.
    rewrite (rel_n _ _ _ _ H1).
    pose proof (rel_if_commit d0 iss s1 c1 (n_unc c1 >? THRESHOLD) (r1 c) H1) as H2.
    set (s2 := if n_unc c1 >? THRESHOLD then cr_commit (r1 c) s1 else s1) in *.
    set (c2 := if n_unc c1 >? THRESHOLD then do_commit (r1 c) c1 else c1) in *.
    rewrite (rel_last _ _ _ _ H2).
    apply rel_if_commit. exact H2.
  Qed.

  (* one micro-step of the state model is one micro-step of the token model *)
  Lemma rel_step : forall d0 iss ss cs lazy m c,
    Rel d0 iss ss cs ->
    Rel d0 (iss ++ stmts_of_micro m) (cr_step lazy ss (m, c))
        (micro_step lazy cs (forget_micro tokf m, c)).
  Proof.
    intros d0 iss ss cs lazy m c H. unfold cr_step, micro_step. cbn [fst snd].
    destruct m; cbn [forget_micro stmts_of_micro]; rewrite ?app_nil_r.
    - change (stmt_step (live ss) q) with (apply_stmts (live ss) [q]).
      change [tokf q] with (map tokf [q]). apply rel_exec. exact H.
    - apply rel_exec. exact H.
    - exact H.
    - apply rel_commit. exact H.
    - apply rel_cond_commit. exact H.
  Qed.

  Lemma rel_run : forall lazy tr d0 iss ss cs,
    Rel d0 iss ss cs ->
    Rel d0 (iss ++ stmts_of (map fst tr)) (cr_run lazy ss tr) (run lazy cs (forget_tr tokf tr)).
  Proof.
    intros lazy tr. induction tr as [|[m c] tr IH]; intros d0 iss ss cs H.
    - cbn. rewrite app_nil_r. exact H.
    - cbn [map fst]. change (stmts_of (m :: map fst tr)) with (stmts_of_micro m ++ stmts_of (map fst tr)).
      rewrite app_assoc. rewrite cr_run_cons.
      change (forget_tr tokf ((m, c) :: tr)) with ((forget_micro tokf m, c) :: forget_tr tokf tr).
      rewrite run_cons. apply IH. apply rel_step. exact H.
  Qed.

  (* ---- forgetting contents: scripts ---- *)

  Lemma forget_upserts : forall b es,
    map (forget_micro tokf) (upsert_script b es) = flat_map script__replace (upsert_toks tokf b es).
  Proof.
    intros b es. induction es as [|e es IH]; [reflexivity|].
    unfold upsert_script, upsert_toks in *. cbn [flat_map]. rewrite map_app, flat_map_app, IH.
    f_equal. destruct (eid e); reflexivity.
  Qed.

  (* len(events_upsert) is the number of UPDATE statements the loop issues *)
  Lemma length_upsert_toks : forall b es, length (upsert_toks tokf b es) = n_upserts es.
  Proof.
    intros b es. unfold upsert_toks, n_upserts. induction es as [|e es IH]; [reflexivity|].
    cbn [flat_map filter]. rewrite app_length, IH. unfold no_id. destruct (eid e); reflexivity.
  Qed.

  (* the first k id-carrying events all carry an id *)
  Lemma n_upserts_firstn_with_id : forall k es,
    n_upserts (firstn k (with_id es)) = length (firstn k (with_id es)) /\
    (length (firstn k (with_id es)) <= n_upserts es)%nat.
  Proof.
    intros k es. split; [|rewrite firstn_length; unfold n_upserts, with_id; lia].
    unfold n_upserts. f_equal.
    assert (H0 : Forall (fun e => negb (no_id e) = true) (with_id es)).
    { apply Forall_forall. intros e He. unfold with_id in He. apply filter_In in He. tauto. }
    assert (H : Forall (fun e => negb (no_id e) = true) (firstn k (with_id es))).
    { revert H0. generalize (with_id es). clear. induction k as [|k IH]; intros l H; [constructor|].
      destruct H; cbn [firstn]; constructor; auto. }
    clear H0.
    induction H as [|e l He _ IH]; [reflexivity|]. cbn [filter]. rewrite He, IH. reflexivity.
  Qed.

  (* the token script of a call is the projection of its statement script *)
  Lemma forget_script : forall c o,
    map (forget_micro tokf) (sscript c o) = expand (forget_op tokf c o).
  Proof.
    intros c o. destruct o as [o|b es k|b es k]; [destruct o| |]; cbn [sscript forget_op].
    - destruct (sql_insert_bucket c b m); reflexivity.
    - destruct (negb _); reflexivity.
    - reflexivity.
    - reflexivity.
    - reflexivity.
    - destruct (sql_bucket_rowid c b); reflexivity.
    - rewrite map_app, forget_upserts. unfold bulk_script.
      destruct (sql_bucket_rowid c b); cbn [expand map forget_micro length Nat.add];
        rewrite ?map_length, length_upsert_toks; reflexivity.
    - reflexivity.
    - reflexivity.
    - reflexivity.
    - reflexivity.
    - destruct (limit =? 0); reflexivity.
    - reflexivity.
    - rewrite map_app, forget_upserts. cbn [expand map forget_micro]. rewrite !map_length, length_upsert_toks.
      do 3 f_equal.
      assert (Hle : (length (match sql_bucket_rowid c b with
                             | Some _ => firstn k (filter no_id es) | None => [] end)
                     <= length (filter no_id es))%nat).
      { destruct (sql_bucket_rowid c b); [rewrite firstn_length; lia|cbn; lia]. }
      f_equal. lia.
    - rewrite map_app, forget_upserts. cbn [expand map forget_micro length Nat.add].
      rewrite length_upsert_toks. destruct (n_upserts_firstn_with_id k es) as [E L]. rewrite E.
      do 4 f_equal. lia.
  Qed.

  Lemma forget_hist_script : forall h c,
    map (forget_micro tokf) (hist_script c h) = expand_all (forget_hist tokf c h).
  Proof.
    induction h as [|o h IH]; intros c; [reflexivity|].
    cbn [hist_script forget_hist]. unfold expand_all. cbn [flat_map].
    rewrite map_app, forget_script. f_equal. apply IH.
  Qed.
End Forget.
