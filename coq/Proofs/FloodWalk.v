(* C10, part 2: the pairwise walk (invariant of DESIGN A.2) and flood itself. *)
From AwVerif Require Import Base.Prelude Model.Flood Proofs.FloodStep.
From Coq Require Import ZifyBool.

(* ---- the walk without its flags ---- *)

Fixpoint walk (p : Z) (c : event) (rest : list event) : list event :=
  match rest with
  | [] => [c]
  | n :: r => fst (fill_step p c n) :: walk p (snd (fill_step p c n)) r
  end.

Lemma flood_walk_is_walk : forall p rest ws wu c,
  flood_walk p ws wu c rest = walk p c rest.
Proof.
  intros p rest. induction rest as [|n r IH]; intros ws wu c; cbn [flood_walk walk]; [reflexivity|].
  pose proof (step_flags_irrelevant p ws wu c n) as H.
  destruct (flood_step p ws wu c n) as [[c' n'] [ws' wu']]. cbn [fst] in H. rewrite <- H.
  cbn [fst snd]. rewrite IH. reflexivity.
Qed.

(* ---- small facts about the vocabulary ---- *)

Lemma covers_label_cons : forall x e l t,
  covers_label x (e :: l) t <-> (data e = x /\ covers1 e t) \/ covers_label x l t.
Proof.
  intros x e l t. unfold covers_label, covers1. split.
  - intros (e0 & [<-|Hin] & Hd & Ht); [left; tauto|right; exists e0; tauto].
  - intros [[Hd Ht]|(e0 & Hin & Hd & Ht)]; [exists e; cbn [In]; tauto|exists e0; cbn [In]; tauto].
Qed.

Lemma covers_iff_label : forall l t, covers l t <-> exists x, covers_label x l t.
Proof.
  intros l t. unfold covers, covers_label. split.
  - intros (e & Hin & Ht). exists (data e), e. tauto.
  - intros (x & e & Hin & _ & Ht). exists e. tauto.
Qed.

Lemma covers_cons : forall e l t, covers (e :: l) t <-> covers1 e t \/ covers l t.
Proof.
  intros e l t. unfold covers, covers1. split.
  - intros (e0 & [<-|Hin] & Ht); [left; tauto|right; exists e0; tauto].
  - intros [Ht|(e0 & Hin & Ht)]; [exists e; cbn [In]; tauto|exists e0; cbn [In]; tauto].
Qed.

Lemma chain_end_eq : forall n n' r, eend n' = eend n -> chain n r -> chain n' r.
Proof. intros n n' [|m r] He Hc; cbn [chain] in *; [exact I|]. rewrite He. exact Hc. Qed.

(* the short-gap point set, recursively along a chain *)
Fixpoint gapcover (p : Z) (c : event) (rest : list event) (t : Z) : Prop :=
  match rest with
  | [] => False
  | n :: r => (ts n - eend c <= p /\ eend c <= t < ts n) \/ gapcover p n r t
  end.

Lemma gapcover_end_eq : forall p n n' r t,
  eend n' = eend n -> (gapcover p n' r t <-> gapcover p n r t).
Proof. intros p n n' [|m r] t He; cbn [gapcover]; [tauto|]. rewrite He. tauto. Qed.

Lemma gapcover_short_gap : forall p rest c t,
  gapcover p c rest t <-> in_short_gap p (c :: rest) t.
Proof.
  intros p rest. induction rest as [|n r IH]; intros c t; cbn [gapcover].
  - split; [tauto|]. intros (a & b & (l1 & l2 & E) & _). exfalso.
    destruct l1 as [|x [|y l1]]; discriminate.
  - rewrite IH. split.
    + intros [[Hs Ht]|(a & b & (l1 & l2 & E) & Hs & Ht)].
      * exists c, n. split; [exists [], r; reflexivity|tauto].
      * exists a, b. split; [exists (c :: l1), l2; cbn [app]; rewrite E; reflexivity|tauto].
    + intros (a & b & (l1 & l2 & E) & Hs & Ht). destruct l1 as [|x l1]; cbn [app] in E.
      * injection E as -> -> _. left. tauto.
      * injection E as -> E. right. exists a, b. split; [exists l1, l2; exact E|tauto].
Qed.

(* ---- the invariant along the walk ---- *)

(* output side: every event starts no earlier than the previous one ended *)
Fixpoint chain_from (lo : Z) (l : list event) : Prop :=
  match l with
  | [] => True
  | e :: t => lo <= ts e /\ 0 <= dur e /\ chain_from (eend e) t
  end.

Section Walk.
  Variable p : Z.

  Lemma walk_cons : forall c n r,
    walk p c (n :: r) = fst (fill_step p c n) :: walk p (snd (fill_step p c n)) r.
  Proof. reflexivity. Qed.

  Lemma walk_chain_from : forall rest c lo,
    ev_ok c -> Forall ev_ok rest -> chain c rest -> lo <= ts c ->
    chain_from lo (walk p c rest).
  Proof.
    induction rest as [|n r IH]; intros c lo Hc Hr Hch Hlo.
    - cbn [walk chain_from]. destruct Hc as (Hd & _). tauto.
    - rewrite walk_cons. inversion Hr as [|? ? Hn Hr']; subst. cbn [chain] in Hch. destruct Hch as [Hsep Hch].
      pose proof (fill_step_spec p c n Hc Hn Hsep) as S.
      destruct S as [ss_ts_c0 ss_end_n0 ss_data_c0 ss_data_n0 ss_id_c0 ss_id_n0 ss_ok_c0 ss_ok_n0 ss_sep0 ss_keep_c0 ss_keep_n0 ss_close0 ss_new_c0 ss_new_n0]. cbn [chain_from]. destruct ss_ok_c0 as (Hd' & _).
      repeat split; [lia|exact Hd'|].
      apply IH; [assumption|assumption|eapply chain_end_eq; eassumption|assumption].
  Qed.

  (* nothing covered is lost, label by label *)
  Lemma walk_keeps_label_cover : forall rest c x t,
    ev_ok c -> Forall ev_ok rest -> chain c rest ->
    covers_label x (c :: rest) t -> covers_label x (walk p c rest) t.
  Proof.
    induction rest as [|n r IH]; intros c x t Hc Hr Hch Hcov.
    - exact Hcov.
    - rewrite walk_cons. inversion Hr as [|? ? Hn Hr']; subst. cbn [chain] in Hch. destruct Hch as [Hsep Hch].
      pose proof (fill_step_spec p c n Hc Hn Hsep) as S. destruct S as [ss_ts_c0 ss_end_n0 ss_data_c0 ss_data_n0 ss_id_c0 ss_id_n0 ss_ok_c0 ss_ok_n0 ss_sep0 ss_keep_c0 ss_keep_n0 ss_close0 ss_new_c0 ss_new_n0].
      assert (Hch' : chain (snd (fill_step p c n)) r) by (eapply chain_end_eq; eassumption).
      apply covers_label_cons.
      apply covers_label_cons in Hcov. destruct Hcov as [[Hd Ht]|Hcov].
      + destruct (ss_keep_c0 t Ht) as [Hk|[Hd' Hk]].
        * left. split; [congruence|exact Hk].
        * right. apply IH; [assumption..|]. apply covers_label_cons. left. split; [congruence|exact Hk].
      + apply covers_label_cons in Hcov. destruct Hcov as [[Hd Ht]|Hcov].
        * destruct (ss_keep_n0 t Ht) as [Hk|[Hd' Hk]].
          -- right. apply IH; [assumption..|]. apply covers_label_cons. left. split; [congruence|exact Hk].
          -- left. split; [congruence|exact Hk].
        * right. apply IH; [assumption..|]. apply covers_label_cons. right. exact Hcov.
  Qed.

  Lemma walk_keeps_cover : forall rest c t,
    ev_ok c -> Forall ev_ok rest -> chain c rest ->
    covers (c :: rest) t -> covers (walk p c rest) t.
  Proof.
    intros rest c t Hc Hr Hch Hcov. apply covers_iff_label in Hcov. destruct Hcov as [x Hx].
    apply covers_iff_label. exists x. apply walk_keeps_label_cover; assumption.
  Qed.

  (* every gap of at most p is closed *)
  Lemma walk_closes_short_gaps : forall rest c t,
    ev_ok c -> Forall ev_ok rest -> chain c rest ->
    gapcover p c rest t -> covers (walk p c rest) t.
  Proof.
    induction rest as [|n r IH]; intros c t Hc Hr Hch Hg.
    - destruct Hg.
    - rewrite walk_cons. inversion Hr as [|? ? Hn Hr']; subst. cbn [chain] in Hch. destruct Hch as [Hsep Hch].
      pose proof (fill_step_spec p c n Hc Hn Hsep) as S. destruct S as [ss_ts_c0 ss_end_n0 ss_data_c0 ss_data_n0 ss_id_c0 ss_id_n0 ss_ok_c0 ss_ok_n0 ss_sep0 ss_keep_c0 ss_keep_n0 ss_close0 ss_new_c0 ss_new_n0].
      assert (Hch' : chain (snd (fill_step p c n)) r) by (eapply chain_end_eq; eassumption).
      apply covers_cons. cbn [gapcover] in Hg. destruct Hg as [[Hs Ht]|Hg].
      + destruct (ss_close0 t Hs Ht) as [Hk|Hk]; [left; exact Hk|].
        right. apply walk_keeps_cover; [assumption..|]. apply covers_cons. left. exact Hk.
      + right. apply IH; [assumption..|]. eapply gapcover_end_eq; eassumption.
  Qed.

  (* what a label covers afterwards it covered before, or the point lies in a short gap *)
  Lemma walk_new_cover : forall rest c x t,
    ev_ok c -> Forall ev_ok rest -> chain c rest ->
    covers_label x (walk p c rest) t ->
    covers_label x (c :: rest) t \/ gapcover p c rest t.
  Proof.
    induction rest as [|n r IH]; intros c x t Hc Hr Hch Hcov.
    - left. exact Hcov.
    - rewrite walk_cons in Hcov. inversion Hr as [|? ? Hn Hr']; subst. cbn [chain] in Hch. destruct Hch as [Hsep Hch].
      pose proof (fill_step_spec p c n Hc Hn Hsep) as S. destruct S as [ss_ts_c0 ss_end_n0 ss_data_c0 ss_data_n0 ss_id_c0 ss_id_n0 ss_ok_c0 ss_ok_n0 ss_sep0 ss_keep_c0 ss_keep_n0 ss_close0 ss_new_c0 ss_new_n0].
      assert (Hch' : chain (snd (fill_step p c n)) r) by (eapply chain_end_eq; eassumption).
      cbn [gapcover]. rewrite !covers_label_cons.
      apply covers_label_cons in Hcov. destruct Hcov as [[Hd Ht]|Hcov].
      + destruct (ss_new_c0 t Ht) as [Hk|[[Hd' Hk]|Hk]].
        * left. left. split; [congruence|exact Hk].
        * left. right. left. split; [congruence|exact Hk].
        * right. left. exact Hk.
      + apply IH in Hcov; [|assumption..]. destruct Hcov as [Hcov|Hg].
        * apply covers_label_cons in Hcov. destruct Hcov as [[Hd Ht]|Hcov].
          -- destruct (ss_new_n0 t Ht) as [Hk|[[Hd' Hk]|Hk]].
             ++ left. right. left. split; [congruence|exact Hk].
             ++ left. left. split; [congruence|exact Hk].
             ++ right. left. exact Hk.
          -- left. right. right. exact Hcov.
        * right. right. eapply gapcover_end_eq; [symmetry; eassumption|exact Hg].
  Qed.

  (* ids, labels: every walked event is one of the input events with another start/duration *)
  Lemma walk_same_events : forall rest c,
    ev_ok c -> Forall ev_ok rest -> chain c rest ->
    map eid (walk p c rest) = map eid (c :: rest) /\ map data (walk p c rest) = map data (c :: rest).
  Proof.
    induction rest as [|n r IH]; intros c Hc Hr Hch.
    - split; reflexivity.
    - rewrite walk_cons. inversion Hr as [|? ? Hn Hr']; subst. cbn [chain] in Hch. destruct Hch as [Hsep Hch].
      pose proof (fill_step_spec p c n Hc Hn Hsep) as S. destruct S as [ss_ts_c0 ss_end_n0 ss_data_c0 ss_data_n0 ss_id_c0 ss_id_n0 ss_ok_c0 ss_ok_n0 ss_sep0 ss_keep_c0 ss_keep_n0 ss_close0 ss_new_c0 ss_new_n0].
      assert (Hch' : chain (snd (fill_step p c n)) r) by (eapply chain_end_eq; eassumption).
      destruct (IH _ ss_ok_n0 Hr' Hch') as [I1 I2]. cbn [map] in *.
      rewrite I1, I2, ss_id_c0, ss_id_n0, ss_data_c0, ss_data_n0. split; reflexivity.
  Qed.
End Walk.

(* ---- the final filter ---- *)

Lemma chain_from_weaken : forall l lo lo', lo' <= lo -> chain_from lo l -> chain_from lo' l.
Proof. intros [|e l] lo lo' H Hc; cbn [chain_from] in *; [exact I|]. repeat split; try tauto; lia. Qed.

Lemma filter_chain_from : forall l lo,
  chain_from lo l -> chain_from lo (filter positive_duration l).
Proof.
  induction l as [|e l IH]; intros lo Hc; cbn [filter]; [exact I|].
  cbn [chain_from] in Hc. destruct Hc as (Hlo & Hd & Hc).
  destruct (positive_duration e) eqn:E.
  - cbn [chain_from]. repeat split; [assumption..|]. apply IH. exact Hc.
  - apply IH. eapply chain_from_weaken; [|exact Hc]. unfold eend. lia.
Qed.

Lemma chain_from_nonoverlapping : forall l lo, chain_from lo l -> nonoverlapping l.
Proof.
  intros [|c r] lo; [intros; exact I|]. cbn [nonoverlapping chain_from]. intros (_ & _ & H).
  revert c H. induction r as [|n r IH]; intros c H; cbn [chain]; [exact I|].
  cbn [chain_from] in H. destruct H as (H1 & _ & H3). split; [exact H1|]. apply IH. exact H3.
Qed.

Lemma filter_positive : forall l, Forall (fun e => 0 < dur e) (filter positive_duration l).
Proof.
  intros l. apply Forall_forall. intros e He. apply filter_In in He. destruct He as [_ He].
  unfold positive_duration in He. lia.
Qed.

(* zero-length (and negative) events cover nothing in the half-open reading *)
Lemma filter_covers_label : forall x l t,
  covers_label x (filter positive_duration l) t <-> covers_label x l t.
Proof.
  intros x l t. unfold covers_label. split.
  - intros (e & Hin & H). apply filter_In in Hin. exists e. tauto.
  - intros (e & Hin & Hd & Ht). exists e. split; [|tauto]. apply filter_In. split; [exact Hin|].
    unfold positive_duration, eend in *. lia.
Qed.

Lemma filter_covers : forall l t, covers (filter positive_duration l) t <-> covers l t.
Proof.
  intros l t. rewrite !covers_iff_label. split; intros [x H]; exists x; apply filter_covers_label; exact H.
Qed.

(* ---- sorting only permutes ---- *)

Lemma insert_sorted_In : forall (x y : event) l, In x (insert_sorted ts y l) <-> x = y \/ In x l.
Proof.
  intros x y l. induction l as [|z l IH]; cbn [insert_sorted In]; [intuition congruence|].
  destruct (ts z <? ts y); cbn [In]; [rewrite IH|]; intuition congruence.
Qed.

Lemma sort_by_In : forall (x : event) l, In x (sort_by ts l) <-> In x l.
Proof.
  intros x l. unfold sort_by. induction l as [|y l IH]; cbn [fold_right In]; [tauto|].
  rewrite insert_sorted_In, IH. intuition congruence.
Qed.

Lemma sort_by_Forall : forall (P : event -> Prop) l, Forall P l -> Forall P (sort_by ts l).
Proof.
  intros P l H. rewrite Forall_forall in *. intros x Hx. apply H. apply sort_by_In. exact Hx.
Qed.

Lemma covers_label_sort : forall x l t, covers_label x (sort_by ts l) t <-> covers_label x l t.
Proof.
  intros x l t. unfold covers_label. split; intros (e & Hin & H); exists e; (split; [|exact H]);
    apply sort_by_In; exact Hin.
Qed.

(* ---- flood ---- *)

(* The domain of the property: after flood's own (stable) sort by start the events do not
   overlap; all durations are non-negative; everything is on the millisecond grid. *)
Definition flood_domain (l : list event) : Prop :=
  Forall ev_ok l /\ nonoverlapping (sort_by ts l).

Lemma flood_unfold : forall l p,
  flood l p = match sort_by ts l with
              | [] => []
              | c :: r => filter positive_duration (walk p c r)
              end.
Proof.
  intros l p. unfold flood. destruct (sort_by ts l) as [|c r]; [reflexivity|].
  rewrite flood_walk_is_walk. reflexivity.
Qed.

Lemma flood_nonoverlapping_positive : forall l p,
  flood_domain l ->
  nonoverlapping (flood l p) /\ Forall (fun e => 0 < dur e) (flood l p).
Proof.
  intros l p [Hok Hno]. rewrite flood_unfold. apply (sort_by_Forall _ _) in Hok.
  destruct (sort_by ts l) as [|c r]; [split; [exact I|constructor]|].
  inversion Hok; subst. split; [|apply filter_positive].
  eapply chain_from_nonoverlapping. apply filter_chain_from.
  apply (walk_chain_from p r c (ts c)); [assumption..|lia].
Qed.

Lemma flood_label_cover_preserved : forall l p x t,
  flood_domain l -> covers_label x l t -> covers_label x (flood l p) t.
Proof.
  intros l p x t [Hok Hno] Hcov. rewrite flood_unfold. apply (sort_by_Forall _ _) in Hok.
  apply covers_label_sort in Hcov.
  destruct (sort_by ts l) as [|c r]; [exact Hcov|]. inversion Hok; subst.
  apply filter_covers_label. apply walk_keeps_label_cover; assumption.
Qed.

Lemma flood_cover_preserved : forall l p t,
  flood_domain l -> covers l t -> covers (flood l p) t.
Proof.
  intros l p t Hd Hcov. apply covers_iff_label in Hcov. destruct Hcov as [x Hx].
  apply covers_iff_label. exists x. apply flood_label_cover_preserved; assumption.
Qed.

Lemma flood_short_gaps_closed : forall l p t,
  flood_domain l -> in_short_gap p (sort_by ts l) t -> covers (flood l p) t.
Proof.
  intros l p t [Hok Hno] Hg. rewrite flood_unfold. apply (sort_by_Forall _ _) in Hok.
  destruct (sort_by ts l) as [|c r].
  - destruct Hg as (a & b & (l1 & l2 & E) & _). destruct l1; discriminate.
  - inversion Hok; subst. apply filter_covers. apply walk_closes_short_gaps; [assumption..|].
    apply gapcover_short_gap. exact Hg.
Qed.

Lemma flood_new_label_cover_only_in_short_gaps : forall l p x t,
  flood_domain l -> covers_label x (flood l p) t ->
  covers_label x l t \/ in_short_gap p (sort_by ts l) t.
Proof.
  intros l p x t [Hok Hno] Hcov. rewrite flood_unfold in Hcov. apply (sort_by_Forall _ _) in Hok.
  rewrite <- (covers_label_sort x l t).
  destruct (sort_by ts l) as [|c r]; [left; exact Hcov|]. inversion Hok; subst.
  apply (proj1 (filter_covers_label _ _ _)) in Hcov. apply walk_new_cover in Hcov; [|assumption..].
  destruct Hcov as [H|H]; [left; exact H|right; apply gapcover_short_gap; exact H].
Qed.

Lemma flood_new_cover_only_in_short_gaps : forall l p t,
  flood_domain l -> covers (flood l p) t ->
  covers l t \/ in_short_gap p (sort_by ts l) t.
Proof.
  intros l p t Hd Hcov. apply covers_iff_label in Hcov. destruct Hcov as [x Hx].
  apply flood_new_label_cover_only_in_short_gaps in Hx; [|exact Hd].
  destruct Hx as [H|H]; [left; apply covers_iff_label; exists x; exact H|right; exact H].
Qed.
