(* Proofs/GroupHash.v - the hashable-ising step of merge_events_by_keys preserves the grouping
   exactly when it is injective on the value labels. *)
From AwVerif Require Import Base.Prelude Model.Group Model.GroupHash Proofs.GroupMerge.
From Coq Require Import ZifyBool.

Definition h_injective (h : Z -> Z) : Prop := forall a b, h a = h b -> a = b.

Definition hmap (h : Z -> Z) (c : list (Z * Z)) : list (Z * Z) := map (fun kv => (fst kv, h (snd kv))) c.

Definition hstate (h : Z -> Z) (m : list (list (Z * Z) * gev)) : list (list (Z * Z) * gev) :=
  map (fun cg => (hmap h (fst cg), snd cg)) m.

Lemma composite_key_h_map : forall h keys d, composite_key_h h keys d = hmap h (composite_key keys d).
Proof.
  intros h keys d. unfold composite_key_h, composite_key, hmap.
  induction keys as [|k t IH]; cbn [flat_map map]; [reflexivity|].
  rewrite map_app, <- IH. destruct (lookup k d); reflexivity.
Qed.

Lemma eqb_inj : forall h, h_injective h -> forall x y, (h x =? h y) = (x =? y).
Proof.
  intros h Hi x y. destruct (x =? y) eqn:E.
  - apply Z.eqb_eq in E. subst. apply Z.eqb_refl.
  - apply Z.eqb_neq in E. apply Z.eqb_neq. intro Hh. apply E, Hi, Hh.
Qed.

Lemma ckey_eqb_hmap : forall h, h_injective h ->
  forall c1 c2, ckey_eqb (hmap h c1) (hmap h c2) = ckey_eqb c1 c2.
Proof.
  intros h Hi c1. induction c1 as [|x c1 IH]; intros [|y c2]; cbn [hmap map ckey_eqb]; try reflexivity.
  fold (hmap h c1). fold (hmap h c2). rewrite IH. unfold pair_eqb. cbn [fst snd].
  rewrite (eqb_inj h Hi). reflexivity.
Qed.

Lemma madd_hstate : forall h, h_injective h -> forall keys ck e m,
  madd keys (hmap h ck) e (hstate h m) = hstate h (madd keys ck e m).
Proof.
  intros h Hi keys ck e m. induction m as [|[c g] t IH]; cbn [hstate map madd fst snd]; [reflexivity|].
  fold (hstate h t). rewrite (ckey_eqb_hmap h Hi). destruct (ckey_eqb c ck); cbn [hstate map fst snd].
  - reflexivity.
  - fold (hstate h (madd keys ck e t)). rewrite IH. reflexivity.
Qed.

Lemma fold_hstate : forall h, h_injective h -> forall keys events m,
  fold_left (merge_step_h h keys) events (hstate h m) = hstate h (fold_left (merge_step keys) events m).
Proof.
  intros h Hi keys events. induction events as [|e t IH]; intros m; cbn [fold_left]; [reflexivity|].
  unfold merge_step_h at 2. rewrite composite_key_h_map, (madd_hstate h Hi).
  fold (merge_step keys m e). apply IH.
Qed.

(* an injective step changes nothing: the result is that of Model/Group.v, to which every C16
   merge theorem applies *)
Theorem merge_h_injective : forall h, h_injective h -> forall events keys,
  merge_events_by_keys_h h events keys = merge_events_by_keys events keys.
Proof.
  intros h Hi events keys. unfold merge_events_by_keys_h, merge_events_by_keys.
  destruct (Z.of_nat (length keys) <? 1); [reflexivity|].
  change (@nil (list (Z * Z) * gev)) with (hstate h []) at 1.
  rewrite (fold_hstate h Hi). unfold hstate. rewrite map_map. reflexivity.
Qed.

(* a step that sends two different values to the same thing merges two groups that the statement
   keeps apart: one output instead of two, carrying the sum of both *)
Theorem merge_h_conflates : forall h a b, a <> b -> h a = h b ->
  let events := [mkG None 0 1 [(0, a)]; mkG None 0 2 [(0, b)]] in
  merge_events_by_keys events [0] = [mkG None 0 1 [(0, a)]; mkG None 0 2 [(0, b)]] /\
  merge_events_by_keys_h h events [0] = [mkG None 0 3 [(0, a)]].
Proof.
  intros h a b Hab Hh. cbv zeta. split.
  - unfold merge_events_by_keys, merge_step, composite_key, new_group, select_keys.
    cbn. apply Z.eqb_neq in Hab. rewrite Hab. cbn. reflexivity.
  - unfold merge_events_by_keys_h, merge_step_h, composite_key_h, new_group, select_keys.
    cbn. rewrite Hh, Z.eqb_refl. cbn. reflexivity.
Qed.

Theorem merge_h_correct_iff_injective : forall h,
  (forall events keys, merge_events_by_keys_h h events keys = merge_events_by_keys events keys)
  <-> h_injective h.
Proof.
  intros h. split.
  - intros H a b Hh. destruct (Z.eq_dec a b) as [E|N]; [exact E|exfalso].
    destruct (merge_h_conflates h a b N Hh) as [H1 H2]. cbv zeta in H1, H2.
    rewrite H, H1 in H2. discriminate H2.
  - intros Hi events keys. apply merge_h_injective, Hi.
Qed.
