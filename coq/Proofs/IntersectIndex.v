(* "Nothing is visited twice", for ALL inputs (overlapping lists included): the sweep with
   ghost indices e1_i / e2_i emits index pairs whose sum strictly increases, each yield is
   the pair of events at those indices, and erasing the indices gives back Model's sweep.
   No property statements. *)
From AwVerif Require Import Base.Prelude Model.Timeslot Model.Intersect
  Proofs.IntersectSlot Proofs.IntersectProofs.
From Coq Require Import ZifyBool Sorting.Sorted.

Notation ixpair := (nat * nat * (event * event * timeslot))%type (only parsing).

(* Model.Intersect.sweep with the two indices carried along and attached to every yield *)
Fixpoint sweep_ix (fuel : nat) (i j : nat) (l1 l2 : list event) : res (list ixpair) :=
  match l1, l2 with
  | [], _ => Ok []
  | _, [] => Ok []
  | e1 :: r1, e2 :: r2 =>
      match fuel with
      | O => OutOfFuel
      | S f =>
          let e1_p := get_event_period e1 in
          let e2_p := get_event_period e2 in
          match slot_intersection e1_p e2_p with
          | Some ip =>
              bind (if tend e1_p <=? tend e2_p then sweep_ix f (S i) j r1 l2 else sweep_ix f i (S j) l1 r2)
                   (fun rest => Ok ((i, j, (e1, e2, ip)) :: rest))
          | None =>
              if tend e1_p <=? tstart e2_p then sweep_ix f (S i) j r1 l2
              else if tend e2_p <=? tstart e1_p then sweep_ix f i (S j) l1 r2
              else sweep_ix f (S i) (S j) r1 r2
          end
      end
  end.

Definition erase_ix (r : res (list ixpair)) : res (list (event * event * timeslot)) :=
  match r with Ok o => Ok (map snd o) | Err c => Err c | OutOfFuel => OutOfFuel end.

Lemma sweep_ix_erase : forall fuel i j l1 l2,
  sweep fuel l1 l2 = erase_ix (sweep_ix fuel i j l1 l2).
Proof.
  induction fuel as [|f IH]; intros i j l1 l2.
  - destruct l1 as [|e1 r1]; [reflexivity|]. destruct l2 as [|e2 r2]; reflexivity.
  - destruct l1 as [|e1 r1]; [reflexivity|]. destruct l2 as [|e2 r2]; [reflexivity|].
    cbn [sweep sweep_ix].
    rewrite (IH (S i) j r1 (e2 :: r2)), (IH i (S j) (e1 :: r1) r2), (IH (S i) (S j) r1 r2).
    destruct (slot_intersection (get_event_period e1) (get_event_period e2)) as [ip|].
    + destruct (tend (get_event_period e1) <=? tend (get_event_period e2));
        match goal with |- context [sweep_ix ?a ?b ?c ?d ?e] => destruct (sweep_ix a b c d e) end; reflexivity.
    + destruct (tend (get_event_period e1) <=? tstart (get_event_period e2)); [reflexivity|].
      destruct (tend (get_event_period e2) <=? tstart (get_event_period e1)); reflexivity.
Qed.

Definition ix_sum (p : ixpair) : nat := (fst (fst p) + snd (fst p))%nat.

Definition ix_ok (i j : nat) (l1 l2 : list event) (p : ixpair) : Prop :=
  let '(i', j', (e, f, _)) := p in
  (i <= i')%nat /\ (j <= j')%nat /\
  nth_error l1 (i' - i) = Some e /\ nth_error l2 (j' - j) = Some f.

(* every yield is at indices >= the current ones, names the events at those indices of the
   lists the sweep was started on (offsets i, j), and index sums strictly increase *)
Lemma sweep_ix_spec : forall fuel i j l1 l2 out,
  sweep_ix fuel i j l1 l2 = Ok out ->
  Forall (ix_ok i j l1 l2) out /\
  StronglySorted (fun p q => (ix_sum p < ix_sum q)%nat) out.
Proof.
  induction fuel as [|fu IH]; intros i j l1 l2 out H.
  - destruct l1 as [|e1 r1]; [cbn in H; inversion H; split; constructor|].
    destruct l2 as [|e2 r2]; cbn in H; [inversion H; split; constructor|discriminate].
  - destruct l1 as [|e1 r1]; [cbn in H; inversion H; split; constructor|].
    destruct l2 as [|e2 r2]; [cbn in H; inversion H; split; constructor|].
    cbn [sweep_ix] in H.
    assert (Hshift1 : forall rest,
      Forall (ix_ok (S i) j r1 (e2 :: r2)) rest ->
      Forall (ix_ok i j (e1 :: r1) (e2 :: r2)) rest).
    { intros rest F. eapply Forall_impl; [|exact F]. intros [[i' j'] [[e f] ip]] (A & B & C & D).
      repeat split; try lia; [|exact D].
      replace (i' - i)%nat with (S (i' - S i)) by lia. exact C. }
    assert (Hshift2 : forall rest,
      Forall (ix_ok i (S j) (e1 :: r1) r2) rest ->
      Forall (ix_ok i j (e1 :: r1) (e2 :: r2)) rest).
    { intros rest F. eapply Forall_impl; [|exact F]. intros [[i' j'] [[e f] ip]] (A & B & C & D).
      repeat split; try lia; [exact C|].
      replace (j' - j)%nat with (S (j' - S j)) by lia. exact D. }
    assert (Hshift3 : forall rest,
      Forall (ix_ok (S i) (S j) r1 r2) rest ->
      Forall (ix_ok i j (e1 :: r1) (e2 :: r2)) rest).
    { intros rest F. eapply Forall_impl; [|exact F]. intros [[i' j'] [[e f] ip]] (A & B & C & D).
      repeat split; try lia.
      - replace (i' - i)%nat with (S (i' - S i)) by lia. exact C.
      - replace (j' - j)%nat with (S (j' - S j)) by lia. exact D. }
    assert (Hhead : forall (rest : list ixpair) ip (P : ixpair -> Prop),
      Forall P rest -> (forall p, P p -> (i + j < ix_sum p)%nat) ->
      StronglySorted (fun p q => (ix_sum p < ix_sum q)%nat) rest ->
      StronglySorted (fun p q => (ix_sum p < ix_sum q)%nat) ((i, j, (e1, e2, ip)) :: rest)).
    { intros rest ip P F HP SS. constructor; [exact SS|].
      eapply Forall_impl; [|exact F]. intros p Hp. unfold ix_sum at 1. cbn [fst snd]. apply HP. exact Hp. }
    destruct (slot_intersection (get_event_period e1) (get_event_period e2)) as [ip|].
    + destruct (tend (get_event_period e1) <=? tend (get_event_period e2)).
      * destruct (sweep_ix fu (S i) j r1 (e2 :: r2)) as [rest| |] eqn:Er; cbn [bind] in H; try discriminate.
        inversion H; subst out. destruct (IH _ _ _ _ _ Er) as [F SS]. split.
        -- constructor; [|apply Hshift1; exact F].
           repeat split; try lia; rewrite Nat.sub_diag; reflexivity.
        -- eapply Hhead; [exact F| |exact SS].
           intros [[i' j'] [[e f] ip']] (A & B & _). unfold ix_sum. cbn [fst snd]. lia.
      * destruct (sweep_ix fu i (S j) (e1 :: r1) r2) as [rest| |] eqn:Er; cbn [bind] in H; try discriminate.
        inversion H; subst out. destruct (IH _ _ _ _ _ Er) as [F SS]. split.
        -- constructor; [|apply Hshift2; exact F].
           repeat split; try lia; rewrite Nat.sub_diag; reflexivity.
        -- eapply Hhead; [exact F| |exact SS].
           intros [[i' j'] [[e f] ip']] (A & B & _). unfold ix_sum. cbn [fst snd]. lia.
    + destruct (tend (get_event_period e1) <=? tstart (get_event_period e2)).
      * destruct (IH _ _ _ _ _ H) as [F SS]. split; [apply Hshift1; exact F|exact SS].
      * destruct (tend (get_event_period e2) <=? tstart (get_event_period e1)).
        -- destruct (IH _ _ _ _ _ H) as [F SS]. split; [apply Hshift2; exact F|exact SS].
        -- destruct (IH _ _ _ _ _ H) as [F SS]. split; [apply Hshift3; exact F|exact SS].
Qed.

(* packaged for the generator as filter_period_intersect runs it *)
Lemma sweep_no_revisit : forall l1 l2 out,
  sweep (length l1 + length l2) l1 l2 = Ok out ->
  exists ixs,
    out = map snd ixs /\
    Forall (fun p => let '(i, j, (e, f, _)) := p in
              nth_error l1 i = Some e /\ nth_error l2 j = Some f) ixs /\
    StronglySorted (fun p q => (ix_sum p < ix_sum q)%nat) ixs.
Proof.
  intros l1 l2 out H. rewrite (sweep_ix_erase _ 0%nat 0%nat) in H.
  destruct (sweep_ix (length l1 + length l2) 0 0 l1 l2) as [ixs| |] eqn:E; cbn [erase_ix] in H; try discriminate.
  exists ixs. destruct (sweep_ix_spec _ _ _ _ _ _ E) as [F SS].
  split; [congruence|]. split; [|exact SS].
  eapply Forall_impl; [|exact F]. intros [[i j] [[e f] ip]] (_ & _ & C & D).
  rewrite Nat.sub_0_r in C, D. split; assumption.
Qed.
