(* Heap vocabulary for the ownership model: edges, reachability, closed and acyclic
   heaps, and how alloc / update act on them. *)
From AwVerif Require Import Base.Prelude Model.MemHeap.
From Coq Require Import Arith Relations Relation_Operators Operators_Properties.
Local Open Scope nat_scope.

(* ------------------------------------------------------------------------- *)
(* lookup / alloc / update *)

Lemma lookup_lt : forall h l c, lookup h l = Some c -> l < length h.
Proof. unfold lookup; intros h l c H. apply nth_error_Some. congruence. Qed.

Lemma lookup_ge : forall h l, length h <= l -> lookup h l = None.
Proof. unfold lookup; intros. now apply nth_error_None. Qed.

Lemma lookup_some : forall h l, l < length h -> exists c, lookup h l = Some c.
Proof.
  unfold lookup; intros h l H. destruct (nth_error h l) eqn:E; eauto.
  apply nth_error_None in E. lia.
Qed.

Lemma lookup_app_old : forall h new l, l < length h -> lookup (h ++ new) l = lookup h l.
Proof. unfold lookup; intros. now apply nth_error_app1. Qed.

Lemma lookup_app_some : forall h new l c, lookup h l = Some c -> lookup (h ++ new) l = Some c.
Proof. intros h new l c H. rewrite lookup_app_old; auto. eapply lookup_lt; eauto. Qed.

Lemma lookup_app_new : forall h new l, length h <= l -> lookup (h ++ new) l = nth_error new (l - length h).
Proof. unfold lookup; intros. now apply nth_error_app2. Qed.

Lemma lookup_alloc_new : forall h c, lookup (h ++ [c]) (length h) = Some c.
Proof. intros. rewrite lookup_app_new by lia. now rewrite Nat.sub_diag. Qed.

Lemma lookup_alloc_inv : forall h c l c', lookup (h ++ [c]) l = Some c' ->
  (l < length h /\ lookup h l = Some c') \/ (l = length h /\ c' = c).
Proof.
  intros h c l c' H. destruct (Nat.lt_ge_cases l (length h)) as [L|L].
  - left. split; auto. now rewrite lookup_app_old in H.
  - right. pose proof (lookup_lt _ _ _ H) as B. rewrite app_length in B; cbn in B.
    assert (l = length h) by lia. subst. rewrite lookup_alloc_new in H. split; congruence.
Qed.

Lemma update_length : forall h l c, length (update h l c) = length h.
Proof. induction h; destruct l; cbn; intros; auto. Qed.

Lemma lookup_update_same : forall h l c, l < length h -> lookup (update h l c) l = Some c.
Proof.
  unfold lookup. induction h; destruct l; cbn; intros; try lia; auto; try (apply IHh; lia).
Qed.

Lemma lookup_update_other : forall h l c m, m <> l -> lookup (update h l c) m = lookup h m.
Proof.
  unfold lookup. induction h; destruct l; destruct m; cbn; intros; auto; try congruence;
  try (apply IHh; congruence).
Qed.

Lemma update_ge : forall h l c, length h <= l -> update h l c = h.
Proof. induction h; destruct l; cbn; intros; auto; try lia; try (f_equal; apply IHh; lia). Qed.

Lemma update_app : forall h new l c, l < length h -> update (h ++ new) l c = update h l c ++ new.
Proof. induction h; destruct l; cbn; intros; try lia; auto; try (f_equal; apply IHh; lia). Qed.

Definition cell_eq_dec : forall a b : cell, {a = b} + {a <> b}.
Proof. repeat decide equality. Defined.

Definition ocell_eq_dec : forall a b : option cell, {a = b} + {a <> b}.
Proof. decide equality. apply cell_eq_dec. Defined.

(* ------------------------------------------------------------------------- *)
(* edges, reachability *)

Definition edge (h : heap) (l k : loc) : Prop :=
  exists c, lookup h l = Some c /\ In k (children c).

Definition rt (h : heap) := clos_refl_trans loc (edge h).
Definition tc (h : heap) := clos_trans loc (edge h).

Definition reach (h : heap) (R : list loc) (l : loc) : Prop :=
  exists r, In r R /\ rt h r l.

Definition closed (h : heap) : Prop :=
  forall l c k, lookup h l = Some c -> In k (children c) -> k < length h.

Definition acyclic (h : heap) : Prop := forall l, ~ tc h l l.

Definition allocated (h : heap) (R : list loc) : Prop := forall r, In r R -> r < length h.

Definition disjoint (P Q : loc -> Prop) : Prop := forall l, P l -> Q l -> False.

Lemma rt_here : forall h l, rt h l l.
Proof. intros; apply Relation_Operators.rt_refl. Qed.

Lemma rt_snoc : forall h a b c, rt h a b -> edge h b c -> rt h a c.
Proof. intros. eapply rt_trans; eauto. now apply Relation_Operators.rt_step. Qed.

Lemma rt_trans' : forall h a b c, rt h a b -> rt h b c -> rt h a c.
Proof. intros; eapply rt_trans; eauto. Qed.

Lemma edge_rt : forall h a b, edge h a b -> rt h a b.
Proof. intros. now apply Relation_Operators.rt_step. Qed.

Lemma rt_tc_or_eq : forall h a b, rt h a b -> a = b \/ tc h a b.
Proof.
  intros h a b H. apply clos_rt_rtn1 in H. induction H; auto.
  right. destruct IHclos_refl_trans_n1 as [->|T].
  - now apply t_step.
  - eapply t_trans; eauto. now apply t_step.
Qed.

Lemma tc_rt : forall h a b, tc h a b -> rt h a b.
Proof.
  intros h a b H. induction H; [now apply Relation_Operators.rt_step|eapply rt_trans; eauto].
Qed.

Lemma tc_first : forall h a b, tc h a b -> exists k, edge h a k /\ rt h k b.
Proof.
  intros h a b H. apply clos_trans_t1n in H. induction H.
  - exists y. split; auto. apply rt_here.
  - exists y. split; auto. apply clos_t1n_trans in H0. now apply tc_rt.
Qed.

Lemma edge_rt_tc : forall h a k b, edge h a k -> rt h k b -> tc h a b.
Proof.
  intros h a k b E R. destruct (rt_tc_or_eq _ _ _ R) as [->|T].
  - now apply t_step.
  - eapply t_trans; eauto. now apply t_step.
Qed.

Lemma rt_tc_edge : forall h a b k, rt h a b -> edge h b k -> tc h a k.
Proof.
  intros h a b k R E. destruct (rt_tc_or_eq _ _ _ R) as [->|T].
  - now apply t_step.
  - eapply t_trans; eauto. now apply t_step.
Qed.

Lemma edge_closed : forall h a b, closed h -> edge h a b -> a < length h /\ b < length h.
Proof. intros h a b C (c & L & I). split; [eapply lookup_lt|eapply C]; eauto. Qed.

Lemma rt_closed : forall h a b, closed h -> a < length h -> rt h a b -> b < length h.
Proof.
  intros h a b C A R. apply clos_rt_rtn1 in R. induction R; auto.
  eapply edge_closed; eauto.
Qed.

Lemma reach_closed : forall h R l, closed h -> allocated h R -> reach h R l -> l < length h.
Proof. intros h R l C A (r & I & P). eapply rt_closed; eauto. Qed.

Lemma reach_root : forall h R r, In r R -> reach h R r.
Proof. intros. exists r. split; auto. apply rt_here. Qed.

Lemma reach_step : forall h R a b, reach h R a -> edge h a b -> reach h R b.
Proof. intros h R a b (r & I & P) E. exists r. split; auto. eapply rt_snoc; eauto. Qed.

Lemma reach_trans : forall h R a b, reach h R a -> rt h a b -> reach h R b.
Proof. intros h R a b (r & I & P) E. exists r. split; auto. eapply rt_trans'; eauto. Qed.

Lemma reach_mono : forall h R R' l, (forall r, In r R -> reach h R' r) -> reach h R l -> reach h R' l.
Proof. intros h R R' l S (r & I & P). eapply reach_trans; eauto. Qed.

Lemma reach_incl : forall h R R' l, incl R R' -> reach h R l -> reach h R' l.
Proof. intros h R R' l S (r & I & P). exists r; split; auto. Qed.

Lemma reach_app : forall h A B l, reach h (A ++ B) l <-> reach h A l \/ reach h B l.
Proof.
  intros; split.
  - intros (r & I & P). apply in_app_or in I. destruct I; [left|right]; exists r; auto.
  - intros [(r & I & P)|(r & I & P)]; exists r; split; auto; apply in_or_app; auto.
Qed.

(* reachability only depends on the cells along the way *)
Lemma rt_agree : forall h h' a b,
  (forall l, rt h a l -> lookup h' l = lookup h l) -> rt h a b -> rt h' a b.
Proof.
  intros h h' a b AG R. apply clos_rt_rtn1 in R. induction R.
  - apply rt_here.
  - apply clos_rtn1_rt in R. eapply rt_snoc; [apply IHR|].
    destruct H as (c & L & I). exists c. split; auto. rewrite AG; auto.
Qed.

(* ------------------------------------------------------------------------- *)
(* alloc *)

Lemma closed_alloc : forall h c,
  closed h -> (forall k, In k (children c) -> k < length h) -> closed (h ++ [c]).
Proof.
  intros h c C K l c' k L I. rewrite app_length; cbn.
  apply lookup_alloc_inv in L. destruct L as [[_ L]|[_ ->]].
  - specialize (C _ _ _ L I). lia.
  - specialize (K _ I). lia.
Qed.

Lemma edge_alloc_old : forall h c a b, a < length h -> edge (h ++ [c]) a b -> edge h a b.
Proof. intros h c a b A (c' & L & I). rewrite lookup_app_old in L by auto. exists c'; auto. Qed.

Lemma tc_alloc_old : forall h c a b,
  closed h -> a < length h -> tc (h ++ [c]) a b -> tc h a b /\ b < length h.
Proof.
  intros h c a b C A T. induction T.
  - apply edge_alloc_old in H; auto. split; [now apply t_step|]. eapply edge_closed; eauto.
  - destruct (IHT1 A) as [T1' Y]. destruct (IHT2 Y) as [T2' Z]. split; auto.
    eapply t_trans; eauto.
Qed.

Lemma acyclic_alloc : forall h c,
  closed h -> acyclic h -> (forall k, In k (children c) -> k < length h) -> acyclic (h ++ [c]).
Proof.
  intros h c C A K l T.
  destruct (lt_eq_lt_dec l (length h)) as [[L|E]|G].
  - apply (A l). eapply tc_alloc_old; eauto.
  - subst l. destruct (tc_first _ _ _ T) as (k & (c' & Lk & I) & R).
    rewrite lookup_alloc_new in Lk. inversion Lk; subst c'.
    specialize (K _ I).
    destruct (rt_tc_or_eq _ _ _ R) as [->|T']; [lia|].
    apply tc_alloc_old in T'; auto. lia.
  - destruct (tc_first _ _ _ T) as (k & (c' & Lk & I) & R).
    apply lookup_lt in Lk. rewrite app_length in Lk; cbn in Lk. lia.
Qed.

(* ------------------------------------------------------------------------- *)
(* update *)

Lemma closed_update : forall h l c,
  closed h -> (forall k, In k (children c) -> k < length h) -> closed (update h l c).
Proof.
  intros h l c C K m c' k L I. rewrite update_length.
  destruct (Nat.eq_dec m l) as [->|N].
  - pose proof (lookup_lt _ _ _ L) as B. rewrite update_length in B.
    rewrite lookup_update_same in L by auto. inversion L; subst. auto.
  - rewrite lookup_update_other in L by auto. eauto.
Qed.

(* a write that keeps the children does not change any edge *)
Lemma edge_update_tag : forall h l t t' ks a b,
  lookup h l = Some (Cell t ks) -> (edge (update h l (Cell t' ks)) a b <-> edge h a b).
Proof.
  intros h l t t' ks a b L. pose proof (lookup_lt _ _ _ L) as B. split; intros (c & La & I).
  - destruct (Nat.eq_dec a l) as [->|N].
    + rewrite lookup_update_same in La by auto. inversion La; subst. exists (Cell t ks). auto.
    + rewrite lookup_update_other in La by auto. exists c; auto.
  - destruct (Nat.eq_dec a l) as [->|N].
    + rewrite L in La. inversion La; subst. exists (Cell t' ks). rewrite lookup_update_same; auto.
    + exists c. rewrite lookup_update_other; auto.
Qed.

Lemma rt_update_tag : forall h l t t' ks a b,
  lookup h l = Some (Cell t ks) -> (rt (update h l (Cell t' ks)) a b <-> rt h a b).
Proof.
  intros h l t t' ks a b L. split; intro R; apply clos_rt_rtn1 in R; induction R;
    try apply rt_here; (eapply rt_snoc; [eassumption|]); eapply edge_update_tag; eauto.
Qed.

Lemma tc_update_tag : forall h l t t' ks a b,
  lookup h l = Some (Cell t ks) -> (tc (update h l (Cell t' ks)) a b <-> tc h a b).
Proof.
  intros h l t t' ks a b L. split; intro R; induction R.
  - apply t_step. eapply edge_update_tag; eauto.
  - eapply t_trans; eauto.
  - apply t_step. eapply edge_update_tag; eauto.
  - eapply t_trans; eauto.
Qed.

(* a write that changes the children: paths that avoid the written cell are unchanged;
   every path is a path of the old heap up to its first visit of the written cell *)
Lemma rt_update_split : forall h l c a b,
  rt (update h l c) a b -> rt h a b \/ (rt h a l /\ rt (update h l c) l b).
Proof.
  intros h l c a b R. apply clos_rt_rt1n in R. induction R.
  - left. apply rt_here.
  - destruct (Nat.eq_dec x l) as [->|N].
    + right. split; [apply rt_here|]. apply clos_rt1n_rt. econstructor; eauto.
    + assert (E : edge h x y).
      { destruct H as (c' & L & I). rewrite lookup_update_other in L by auto. exists c'; auto. }
      destruct IHR as [P|[P Q]].
      * left. eapply rt_trans'; [apply edge_rt; eauto|auto].
      * right. split; auto. eapply rt_trans'; [apply edge_rt; eauto|auto].
Qed.

Lemma rt_to_update : forall h l c a b,
  rt h a b -> rt (update h l c) a b \/ rt (update h l c) a l.
Proof.
  intros h l c a b R. apply clos_rt_rt1n in R. induction R.
  - left. apply rt_here.
  - destruct (Nat.eq_dec x l) as [->|N].
    + right. apply rt_here.
    + assert (E : edge (update h l c) x y).
      { destruct H as (c' & L & I). exists c'. rewrite lookup_update_other; auto. }
      destruct IHR as [P|P]; [left|right]; (eapply rt_trans'; [apply edge_rt; eauto|auto]).
Qed.

Lemma acyclic_update : forall h l c,
  acyclic h -> l < length h ->
  (forall k, In k (children c) -> ~ rt h k l) ->
  acyclic (update h l c).
Proof.
  intros h l c A B K.
  assert (AtL : ~ tc (update h l c) l l).
  { intro T. destruct (tc_first _ _ _ T) as (k & (c' & L & I) & R).
    rewrite lookup_update_same in L by auto. inversion L; subst c'.
    apply (K _ I). destruct (rt_update_split _ _ _ _ _ R) as [P|[P _]]; auto. }
  intros m T. destruct (Nat.eq_dec m l) as [->|N]; [auto|].
  destruct (tc_first _ _ _ T) as (k & (c' & L & I) & R).
  rewrite lookup_update_other in L by auto.
  assert (E : edge h m k) by (exists c'; auto).
  destruct (rt_update_split _ _ _ _ _ R) as [P|[P Q]].
  - apply (A m). eapply edge_rt_tc; eauto.
  - (* the cycle passes through l: rotate it *)
    apply AtL.
    assert (E' : edge (update h l c) m k) by (exists c'; rewrite lookup_update_other; auto).
    assert (P' : rt (update h l c) k l) by (destruct (rt_to_update _ l c _ _ P); auto).
    destruct (rt_tc_or_eq _ _ _ Q) as [Eq|Q']; [congruence|].
    eapply t_trans; [exact Q'|]. eapply edge_rt_tc; eauto.
Qed.

(* ------------------------------------------------------------------------- *)
(* depth: how much fuel a traversal from l needs; on a closed acyclic heap the heap size
   is enough (a descending path cannot visit a location twice) *)

Fixpoint depth_le (h : heap) (n : nat) (l : loc) : Prop :=
  match n with
  | O => False
  | S m => exists c, lookup h l = Some c /\ forall k, In k (children c) -> depth_le h m k
  end.

Lemma depth_le_mono : forall h n l, depth_le h n l -> forall m, n <= m -> depth_le h m l.
Proof.
  induction n; cbn; intros l H m L; [contradiction|].
  destruct m; [lia|]. destruct H as (c & Lk & K). exists c. split; auto.
  intros k I. apply IHn; auto. lia.
Qed.

Lemma depth_le_app : forall h new n l, depth_le h n l -> depth_le (h ++ new) n l.
Proof.
  induction n; cbn; intros l H; auto.
  destruct H as (c & Lk & K). exists c. split; auto using lookup_app_some.
Qed.

Lemma nodup_bounded_length : forall (v : list nat) n,
  NoDup v -> (forall x, In x v -> x < n) -> length v <= n.
Proof.
  intros v n ND B. rewrite <- (seq_length n 0). apply NoDup_incl_length; auto.
  intros x I. apply in_seq. specialize (B _ I). lia.
Qed.

Lemma depth_bound_aux : forall h, closed h -> acyclic h ->
  forall n visited l,
    NoDup visited -> ~ In l visited -> l < length h ->
    (forall v, In v visited -> v < length h /\ tc h v l) ->
    length h <= n + length visited ->
    depth_le h n l.
Proof.
  intros h C A. induction n; intros visited l ND NI B V LEN.
  - exfalso. assert (length (l :: visited) <= length h).
    { apply nodup_bounded_length; [constructor; auto|].
      intros x [<-|I]; auto. apply V; auto. }
    cbn in *. lia.
  - destruct (lookup_some _ _ B) as (c & L). exists c. split; auto.
    intros k I. assert (E : edge h l k) by (exists c; auto).
    apply (IHn (l :: visited)).
    + constructor; auto.
    + intros [<-|I']; [apply (A l); now apply t_step|].
      apply (A k). destruct (V _ I') as [_ T]. eapply t_trans; [exact T|now apply t_step].
    + eapply C; eauto.
    + intros v [<-|I']; [split; auto; now apply t_step|].
      destruct (V _ I') as [Bv T]. split; auto. eapply t_trans; [exact T|now apply t_step].
    + cbn. lia.
Qed.

Lemma depth_bound : forall h l, closed h -> acyclic h -> l < length h -> depth_le h (length h) l.
Proof.
  intros h l C A B. apply (depth_bound_aux h C A (length h) [] l); auto.
  - constructor.
  - intros v [].
  - cbn; lia.
Qed.
