(* The frame lemma of the ownership model.  A heap transformer is *confined* to a set of
   roots A when it changes only cells that A reaches (or fresh ones) and stores only
   references to cells that A reaches (or fresh ones).  If B's region is separated from
   A's, a transformer confined to A leaves every cell B reaches, B's reachable set and the
   separation as they were.  Deepcopy, allocation and writes are instances. *)
From AwVerif Require Import Base.Prelude Model.MemHeap Proofs.MemHeapBase Proofs.MemHeapCopy.
From Coq Require Import Arith Relations.
Local Open Scope nat_scope.

Record confined (h : heap) (A : list loc) (h' : heap) : Prop := {
  cf_grow : length h <= length h';
  cf_frame : forall l, l < length h -> ~ reach h A l -> lookup h' l = lookup h l;
  cf_ptrs : forall l c k, lookup h' l = Some c -> (length h <= l \/ lookup h l <> Some c) ->
              In k (children c) -> length h <= k \/ reach h A k }.

Lemma confined_mono : forall h A A' h',
  (forall l, reach h A l -> reach h A' l) -> confined h A h' -> confined h A' h'.
Proof.
  intros h A A' h' M [G F P]. constructor; auto.
  intros l c k L D I. destruct (P l c k L D I); auto.
Qed.

(* B's side of the frame *)
Section Frame.
  Variables (h h' : heap) (A B : list loc).
  Hypothesis Hclosed : closed h.
  Hypothesis Hconf : confined h A h'.
  Hypothesis HallocB : allocated h B.
  Hypothesis Hdisj : disjoint (reach h A) (reach h B).

  Lemma frame_cells : forall l, reach h B l -> lookup h' l = lookup h l.
  Proof.
    intros l R. apply (cf_frame _ _ _ Hconf).
    - eapply reach_closed; eauto.
    - intro RA. eapply Hdisj; eauto.
  Qed.

  Lemma frame_reach : forall l, reach h' B l <-> reach h B l.
  Proof.
    intros l; split; intros (r & I & P); exists r; split; auto.
    - apply clos_rt_rtn1 in P. induction P; [apply rt_here|].
      apply clos_rtn1_rt in P. eapply rt_snoc; [exact IHP|].
      destruct H as (c & L & K). exists c. split; auto.
      rewrite <- frame_cells; auto. exists r; auto.
    - apply rt_agree with (h := h); auto. intros m R. apply frame_cells. exists r; auto.
  Qed.

  Lemma frame_content : forall f r, reach h B r -> content f h' r = content f h r.
  Proof.
    intros f r R. apply content_agree. intros m P. apply frame_cells. eapply reach_trans; eauto.
  Qed.

  (* A's side: whatever A and the transformer's outputs reach afterwards is fresh or was
     reachable from A before *)
  Lemma own_reach : forall outs,
    (forall o, In o outs -> length h <= o \/ reach h A o) ->
    forall l, reach h' (A ++ outs) l -> length h <= l \/ reach h A l.
  Proof.
    intros outs O l (r & I & P). apply clos_rt_rtn1 in P. induction P.
    - apply in_app_or in I. destruct I as [I|I]; auto. right. now apply reach_root.
    - destruct H as (c & L & K).
      destruct (Nat.lt_ge_cases y (length h)) as [Y|Y].
      + destruct (ocell_eq_dec (lookup h y) (Some c)) as [E|N].
        * destruct IHP as [G|RA]; [lia|]. right. eapply reach_step; eauto. exists c; auto.
        * eapply (cf_ptrs _ _ _ Hconf); eauto.
      + eapply (cf_ptrs _ _ _ Hconf); eauto.
  Qed.

  Lemma frame_disjoint : forall outs,
    (forall o, In o outs -> length h <= o \/ reach h A o) ->
    disjoint (reach h' (A ++ outs)) (reach h' B).
  Proof.
    intros outs O l RA RB. apply frame_reach in RB.
    pose proof (reach_closed _ _ _ Hclosed HallocB RB) as L.
    destruct (own_reach outs O l RA) as [G|RA']; [lia|]. eapply Hdisj; eauto.
  Qed.
End Frame.

(* ------------------------------------------------------------------------- *)
(* the separation invariant on a heap and two sets of roots *)

Record Sep2 (h : heap) (S C : list loc) : Prop := {
  s2_closed : closed h;
  s2_acyclic : acyclic h;
  s2_allocS : allocated h S;
  s2_allocC : allocated h C;
  s2_disj : disjoint (reach h S) (reach h C) }.

Lemma Sep2_wf : forall h S C, Sep2 h S C -> wf h.
Proof. intros h S C [? ? ? ? ?]. split; auto. Qed.

Lemma Sep2_sym : forall h S C, Sep2 h S C -> Sep2 h C S.
Proof. intros h S C [? ? ? ? D]. constructor; auto. intros l P Q. eapply D; eauto. Qed.

(* replacing the roots of one side by locations that side already reaches *)
Lemma Sep2_weaken : forall h S S' C,
  Sep2 h S C -> (forall r, In r S' -> reach h S r) -> Sep2 h S' C.
Proof.
  intros h S S' C [Cl Ac AS AC D] W. constructor; auto.
  - intros r I. apply (reach_closed h S r Cl AS). apply W; auto.
  - intros l P Q. apply (D l); auto. eapply reach_mono; eauto.
Qed.

Lemma Sep2_confined : forall h S C h' outs,
  Sep2 h S C -> confined h S h' -> closed h' -> acyclic h' ->
  (forall o, In o outs -> o < length h' /\ (length h <= o \/ reach h S o)) ->
  Sep2 h' (S ++ outs) C.
Proof.
  intros h S C h' outs [Cl Ac AS AC D] CF Cl' Ac' O.
  pose proof (cf_grow _ _ _ CF) as G.
  constructor; auto.
  - intros r I. apply in_app_or in I. destruct I as [I|I]; [specialize (AS _ I); lia|apply O; auto].
  - intros r I. specialize (AC _ I). lia.
  - apply (frame_disjoint h h' S C Cl CF AC D outs). intros o I. apply O; auto.
Qed.

(* ------------------------------------------------------------------------- *)
(* instances of confinement *)

Lemma confined_ext : forall h A h', ext h h' -> fresh_closed h h' -> confined h A h'.
Proof.
  intros h A h' E F. constructor.
  - now apply ext_length.
  - intros l L _. now apply ext_lookup.
  - intros l c k L [G|N] I.
    + left. apply (F _ _ _ L G I).
    + destruct (Nat.lt_ge_cases l (length h)) as [Y|Y].
      * rewrite (ext_lookup _ _ _ E Y) in L. congruence.
      * left. apply (F _ _ _ L Y I).
Qed.

Lemma confined_alloc : forall h A c,
  (forall k, In k (children c) -> reach h A k) -> confined h A (h ++ [c]).
Proof.
  intros h A c K. constructor.
  - rewrite app_length; cbn; lia.
  - intros l L _. now apply lookup_app_old.
  - intros l c' k L D I. apply lookup_alloc_inv in L. destruct L as [[Y L]|[-> ->]].
    + destruct D as [G|N]; [lia|congruence].
    + right. auto.
Qed.

Lemma confined_update : forall h A l c,
  reach h A l -> (forall k, In k (children c) -> reach h A k) -> confined h A (update h l c).
Proof.
  intros h A l c R K. constructor.
  - now rewrite update_length.
  - intros m L N. apply lookup_update_other. intros ->. auto.
  - intros m c' k L D I. right.
    destruct (Nat.eq_dec m l) as [->|N].
    + pose proof (lookup_lt _ _ _ L) as B. rewrite update_length in B.
      rewrite lookup_update_same in L by auto. inversion L; subst. auto.
    + rewrite lookup_update_other in L by auto. destruct D as [G|D]; [|congruence].
      apply lookup_lt in L. lia.
Qed.

(* ------------------------------------------------------------------------- *)
(* micro-steps *)

Lemma Sep2_copy : forall cont h S C l h' l',
  Sep2 h S C -> copy_post cont h l h' l' -> Sep2 h' (S ++ [l']) C.
Proof.
  intros cont h S C l h' l' SP (E & B & F & A & _).
  eapply Sep2_confined; eauto.
  - now apply confined_ext.
  - destruct SP. eapply closed_ext; eauto.
  - destruct SP; auto.
  - intros o [<-|[]]. lia.
Qed.

Lemma Sep2_copies : forall cont h S C ks h' ks',
  Sep2 h S C -> copies_post cont h ks h' ks' -> Sep2 h' (S ++ ks') C.
Proof.
  intros cont h S C ks h' ks' SP (E & B & F & A & _).
  eapply Sep2_confined; eauto.
  - now apply confined_ext.
  - destruct SP. eapply closed_ext; eauto.
  - destruct SP; auto.
  - intros o I. rewrite Forall_forall in B. specialize (B _ I). lia.
Qed.

Lemma Sep2_alloc : forall h S C c,
  Sep2 h S C -> (forall k, In k (children c) -> reach h S k) ->
  Sep2 (h ++ [c]) (S ++ [length h]) C.
Proof.
  intros h S C c SP K.
  assert (KB : forall k, In k (children c) -> k < length h).
  { intros k I. destruct SP. apply (reach_closed h S k); auto. }
  eapply Sep2_confined; eauto.
  - now apply confined_alloc.
  - destruct SP. now apply closed_alloc.
  - destruct SP. now apply acyclic_alloc.
  - intros o [<-|[]]. rewrite app_length; cbn. lia.
Qed.

Lemma Sep2_update : forall h S C l c,
  Sep2 h S C -> reach h S l ->
  (forall k, In k (children c) -> reach h S k /\ ~ rt h k l) ->
  Sep2 (update h l c) S C.
Proof.
  intros h S C l c SP R K.
  assert (LB : l < length h) by (destruct SP; apply (reach_closed h S l); auto).
  assert (KB : forall k, In k (children c) -> k < length h).
  { intros k I. destruct SP. apply (reach_closed h S k); auto. apply K; auto. }
  rewrite <- (app_nil_r S). eapply Sep2_confined; eauto.
  - apply confined_update; auto. intros k I. apply K; auto.
  - destruct SP. now apply closed_update.
  - destruct SP. apply acyclic_update; auto. intros k I. apply K; auto.
  - intros o [].
Qed.

(* a write that keeps the children (a scalar member changes) *)
Lemma Sep2_retag : forall h S C l t t' ks,
  Sep2 h S C -> reach h S l -> lookup h l = Some (Cell t ks) ->
  Sep2 (update h l (Cell t' ks)) S C.
Proof.
  intros h S C l t t' ks SP R L. apply Sep2_update; auto.
  cbn. intros k I. split.
  - eapply reach_step; eauto. exists (Cell t ks); auto.
  - intro P. destruct SP as [_ Ac _ _ _]. apply (Ac l).
    eapply edge_rt_tc; eauto. exists (Cell t ks); auto.
Qed.

(* what the other side sees after a confined step: same cells, same content *)
Lemma confined_content_of : forall h S C h' r,
  Sep2 h S C -> confined h C h' -> reach h S r -> content_of h' r = content_of h r.
Proof.
  intros h S C h' r SP CF R. pose proof (Sep2_wf _ _ _ SP) as W. destruct SP as [Cl Ac AS AC D].
  assert (RB : r < length h) by (apply (reach_closed h S r); auto).
  destruct (content_of_ok h r W RB) as (t & T). rewrite T.
  unfold content_of, fuel_of in *.
  apply content_mono with (f := Datatypes.S (length h)); [|pose proof (cf_grow _ _ _ CF); lia].
  rewrite <- T. apply (frame_content h h' C S Cl CF AS); auto.
  intros l P Q. apply (D l); auto.
Qed.
