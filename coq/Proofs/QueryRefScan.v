(* Scanner lemmas for the C11 round trip: the bracket-counting loop is neutral over the
   printed text of any well-formed term (returns to the same count and quote state, never
   touching 0), each check scanner returns exactly the printed term, and _parse_token
   dispatches to the right token type. *)
From AwVerif Require Import Base.Prelude Model.PyStr Model.Query Model.QueryRef
  Proofs.QueryScan Proofs.QueryTotal Proofs.QueryRefStr.
From Coq Require Import ZifyBool Lia.
Open Scope Z_scope.

Ltac unfold_chars :=
  unfold c_dq, c_sq, c_lpar, c_rpar, c_comma, c_colon, c_semi, c_eq, c_lbrk, c_bs, c_rbrk,
         c_us, c_lbrc, c_rbrc in *.

Definition pair_ok (opn cls : Z) : Prop :=
  (opn = c_lpar /\ cls = c_rpar) \/ (opn = c_lbrk /\ cls = c_rbrk) \/ (opn = c_lbrc /\ cls = c_rbrc).

Lemma pair_cases o c' opn cls : pair_ok o c' -> pair_ok opn cls ->
  (o = opn /\ c' = cls) \/ (o <> opn /\ o <> cls /\ c' <> opn /\ c' <> cls).
Proof. unfold pair_ok; unfold_chars; intros; lia. Qed.

Lemma pair_facts o c' : pair_ok o c' ->
  o <> c' /\ o <> 39 /\ o <> 34 /\ c' <> 39 /\ c' <> 34 /\ o <> 92 /\ c' <> 92 /\
  is_digit o = false /\ is_digit c' = false.
Proof. unfold pair_ok, is_digit; unfold_chars; intros; lia. Qed.

(* ---------------------------------------------------------------- one step *)

Lemma bstep_skip opn cls dg c i tc prev :
  c <> c_sq -> c <> c_dq -> c <> opn -> c <> cls ->
  bstep opn cls dg c i tc false false prev = (tc, false, false).
Proof.
  intros. unfold bstep.
  replace (c =? c_sq) with false by lia. replace (c =? c_dq) with false by lia. cbn [andb orb].
  destruct (dg && negb (Nat.eqb i 0) && is_digit c); [reflexivity|].
  replace (c =? opn) with false by lia. replace (c =? cls) with false by lia. reflexivity.
Qed.

Lemma bstep_open opn cls dg i tc prev : pair_ok opn cls ->
  bstep opn cls dg opn i tc false false prev = (tc + 1, false, false).
Proof.
  intro P. destruct (pair_facts _ _ P) as (? & ? & ? & ? & ? & ? & ? & Hd & ?). unfold bstep. unfold_chars.
  replace (opn =? 39) with false by lia. replace (opn =? 34) with false by lia. cbn [andb orb].
  rewrite Hd, andb_false_r. replace (opn =? opn) with true by lia. reflexivity.
Qed.

Lemma bstep_close opn cls dg i tc prev : pair_ok opn cls ->
  bstep opn cls dg cls i tc false false prev = (tc - 1, false, false).
Proof.
  intro P. destruct (pair_facts _ _ P) as (? & ? & ? & ? & ? & ? & ? & ? & Hd). unfold bstep. unfold_chars.
  replace (cls =? 39) with false by lia. replace (cls =? 34) with false by lia. cbn [andb orb].
  rewrite Hd, andb_false_r. replace (cls =? opn) with false by lia.
  replace (cls =? cls) with true by lia. reflexivity.
Qed.

Definition in_sq (q : Z) : bool := q =? c_sq.
Definition in_dq (q : Z) : bool := q =? c_dq.

Ltac bstep_brute c prev :=
  unfold bstep, in_sq, in_dq; unfold_chars;
  destruct (c =? 39) eqn:?E1; destruct (c =? 34) eqn:?E2; destruct (prev_not_bs prev) eqn:?E3;
  cbn; try reflexivity; try lia.

Lemma bstep_quote_open opn cls dg q i tc prev : q = c_dq \/ q = c_sq -> prev_not_bs prev = true ->
  bstep opn cls dg q i tc false false prev = (tc, in_sq q, in_dq q).
Proof. intros [->| ->] H; unfold bstep, in_sq, in_dq; unfold_chars; rewrite H; reflexivity. Qed.

Lemma bstep_in_other opn cls dg q c i tc prev : q = c_dq \/ q = c_sq -> c <> q ->
  bstep opn cls dg c i tc (in_sq q) (in_dq q) prev = (tc, in_sq q, in_dq q).
Proof. intros [->| ->] H; bstep_brute c prev. Qed.

Lemma bstep_in_escaped opn cls dg q i tc : q = c_dq \/ q = c_sq ->
  bstep opn cls dg q i tc (in_sq q) (in_dq q) (Some c_bs) = (tc, in_sq q, in_dq q).
Proof. intros [->| ->]; reflexivity. Qed.

Lemma bstep_in_close opn cls dg q i tc prev : q = c_dq \/ q = c_sq -> prev_not_bs prev = true ->
  bstep opn cls dg q i tc (in_sq q) (in_dq q) prev = (tc, false, false).
Proof. intros [->| ->] H; unfold bstep, in_sq, in_dq; unfold_chars; rewrite H; reflexivity. Qed.

(* ---------------------------------------------------------------- neutrality *)

Definition neutral (x : str) : Prop :=
  forall opn cls dg rest i tc prev, pair_ok opn cls -> 1 <= tc -> prev_not_bs prev = true ->
  exists prev', prev_not_bs prev' = true /\
    bscan opn cls dg (x ++ rest) i tc false false prev =
    bscan opn cls dg rest (i + length x) tc false false prev'.

Lemma neutral_nil : neutral [].
Proof. intros opn cls dg rest i tc prev _ _ H. exists prev. split; [assumption|]. cbn. f_equal. lia. Qed.

Lemma neutral_app x y : neutral x -> neutral y -> neutral (x ++ y).
Proof.
  intros Hx Hy opn cls dg rest i tc prev P T Hp.
  destruct (Hx opn cls dg (y ++ rest) i tc prev P T Hp) as (p1 & Hp1 & E1).
  destruct (Hy opn cls dg rest (i + length x)%nat tc p1 P T Hp1) as (p2 & Hp2 & E2).
  exists p2. split; [assumption|]. rewrite <- app_assoc, E1, E2, app_length. f_equal. lia.
Qed.

Lemma prev_not_bs_some c : c <> c_bs -> prev_not_bs (Some c) = true.
Proof. intro H. cbn. replace (c =? c_bs) with false by lia. reflexivity. Qed.

(* a character that is no quote, no backslash and no bracket *)
Definition plain (c : Z) : bool :=
  negb ((c =? c_sq) || (c =? c_dq) || (c =? c_bs) || (c =? c_lpar) || (c =? c_rpar) ||
        (c =? c_lbrk) || (c =? c_rbrk) || (c =? c_lbrc) || (c =? c_rbrc)).

Lemma neutral_plain_char c : plain c = true -> neutral [c].
Proof.
  intros H opn cls dg rest i tc prev P T Hp. exists (Some c).
  assert (c <> c_sq /\ c <> c_dq /\ c <> c_bs /\ c <> opn /\ c <> cls) as (? & ? & ? & ? & ?).
  { unfold plain in H. unfold pair_ok in P. unfold_chars. lia. }
  split; [apply prev_not_bs_some; assumption|].
  cbn [app bscan]. rewrite bstep_skip by assumption.
  replace (tc =? 0) with false by lia. cbn [length]. f_equal. lia.
Qed.

Lemma neutral_plain x : forallb plain x = true -> neutral x.
Proof.
  induction x as [|c t IH]; intro H; [apply neutral_nil|].
  cbn [forallb] in H. apply andb_true_iff in H. destruct H as [Hc Ht].
  change (c :: t) with ([c] ++ t). apply neutral_app; [apply neutral_plain_char; assumption|apply IH; assumption].
Qed.

Lemma neutral_wrap o c' x : pair_ok o c' -> neutral x -> neutral ([o] ++ x ++ [c']).
Proof.
  intros Po Hx opn cls dg rest i tc prev P T Hp.
  destruct (pair_facts _ _ Po) as (Hoc & ? & ? & ? & ? & Hob & Hcb & _ & _).
  destruct (pair_cases _ _ _ _ Po P) as [[-> ->]|(? & ? & ? & ?)].
  - (* the scanner's own brackets: count goes up, stays >= 2 inside, comes back *)
    cbn [app bscan]. rewrite bstep_open by assumption. replace (tc + 1 =? 0) with false by lia.
    destruct (Hx opn cls dg ([cls] ++ rest) (S i) (tc + 1) (Some opn) P ltac:(lia)
                 (prev_not_bs_some _ Hob)) as (p1 & Hp1 & E1).
    rewrite <- app_assoc. rewrite E1. cbn [app bscan]. rewrite bstep_close by assumption.
    replace (tc + 1 - 1) with tc by lia. replace (tc =? 0) with false by lia.
    exists (Some cls). split; [apply prev_not_bs_some; assumption|].
    cbn [length]. rewrite app_length. cbn [length]. f_equal. lia.
  - (* another kind of bracket: ordinary characters for this scanner *)
    cbn [app bscan]. unfold_chars. rewrite bstep_skip by (unfold_chars; lia). replace (tc =? 0) with false by lia.
    destruct (Hx opn cls dg ([c'] ++ rest) (S i) tc (Some o) P T (prev_not_bs_some _ Hob)) as (p1 & Hp1 & E1).
    rewrite <- app_assoc. rewrite E1. cbn [app bscan]. rewrite bstep_skip by (unfold_chars; lia).
    replace (tc =? 0) with false by lia.
    exists (Some c'). split; [apply prev_not_bs_some; assumption|].
    cbn [length]. rewrite app_length. cbn [length]. f_equal. lia.
Qed.

(* inside a string literal: up to and including the closing quote *)
Lemma bscan_in_str opn cls dg q s rest : q = c_dq \/ q = c_sq -> ends_ok s = true ->
  forall i tc prev, 1 <= tc -> (s = [] -> prev_not_bs prev = true) ->
  bscan opn cls dg (escape q s ++ q :: rest) i tc (in_sq q) (in_dq q) prev =
  bscan opn cls dg rest (i + length (escape q s) + 1) tc false false (Some q).
Proof.
  intros Hq. pose proof (quote_not_bs q Hq) as Hb.
  induction s as [|c t IH]; intros He i tc prev T Hp.
  - cbn [escape app bscan length]. rewrite bstep_in_close by (auto). replace (tc =? 0) with false by lia.
    f_equal. lia.
  - assert (Het : ends_ok t = true).
    { destruct t; [reflexivity|]. rewrite ends_ok_tail in He by congruence. exact He. }
    cbn [escape]. destruct (c =? q) eqn:Ec.
    + assert (c = q) by lia. subst c. cbn [app bscan length].
      rewrite bstep_in_other by (auto). replace (tc =? 0) with false by lia.
      rewrite bstep_in_escaped by assumption. replace (tc =? 0) with false by lia.
      rewrite IH; [f_equal; lia|assumption|assumption|].
      intros _. apply prev_not_bs_some. assumption.
    + cbn [app bscan length]. rewrite bstep_in_other by (auto; lia). replace (tc =? 0) with false by lia.
      rewrite IH; [f_equal; lia|assumption|assumption|].
      intros ->. cbn [ends_ok] in He. cbn [prev_not_bs]. exact He.
Qed.

Lemma neutral_str q s : q = c_dq \/ q = c_sq -> ends_ok s = true -> neutral (str_txt q s).
Proof.
  intros Hq He opn cls dg rest i tc prev P T Hp. pose proof (quote_not_bs q Hq) as Hb.
  exists (Some q). split; [apply prev_not_bs_some; assumption|].
  unfold str_txt. cbn [app bscan]. rewrite bstep_quote_open by assumption.
  replace (tc =? 0) with false by lia. rewrite <- app_assoc. cbn [app].
  rewrite bscan_in_str; [|assumption|assumption|assumption|intros _; apply prev_not_bs_some; assumption].
  cbn [length]. rewrite app_length. cbn [length]. f_equal. lia.
Qed.
