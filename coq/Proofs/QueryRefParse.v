(* C11 round trip, parser side: _parse_token on the printed text of a term returns exactly that
   text with the right token type; the parse methods rebuild the term (parse_tok_exact); the
   statement parser rebuilds the statement. *)
From AwVerif Require Import Base.Prelude Model.PyStr Model.Query Model.QueryRef
  Proofs.QueryScan Proofs.QueryTotal Proofs.QueryClasses Proofs.QueryRefStr Proofs.QueryRefScan
  Proofs.QueryRefToken.
From Coq Require Import ZifyBool Lia.
Open Scope Z_scope.

Lemma sep_start_all_space e : all_space e = true -> sep_start e = true.
Proof. intro H. rewrite <- (app_nil_r e). apply sep_start_space; [assumption|reflexivity]. Qed.

Lemma is_empty_app_mid (b x r : str) : x <> [] -> is_empty (b ++ x ++ r) = false.
Proof. intro H. destruct b; [destruct x; [congruence|reflexivity]|reflexivity]. Qed.

Ltac use_truthy H :=
  match goal with |- context [truthy ?X] => replace (truthy X) with true by (symmetry; exact H) end.

Section Exact.
  Variable lay : layout.
  Hypothesis Hlay : wf_layout lay.
  Variable md : nat.
  Variable ns : namespace.

  Notation txt := (txt lay).

  (* the first character of a printed term *)
  Lemma txt_head t p : wf md t ->
    exists c x, txt p t = c :: x /\ (c =? c_comma) = false /\
      match t with
      | TInt _ => is_digit c = true
      | TStr _ _ => c = c_dq \/ c = c_sq
      | TVar _ | TCall _ _ => (is_alpha c || (c =? c_us)) = true
      | TLst _ => c = c_lbrk
      | TDct _ => c = c_lbrc
      end.
  Proof.
    destruct t as [ds|q s|n|n args|l|d]; intro Hw; cbn [QueryRef.txt].
    - destruct Hw as (Hne & Hd & _). destruct ds as [|c r]; [congruence|]. exists c, r.
      cbn [forallb] in Hd. apply andb_true_iff in Hd. destruct Hd as [Hc _].
      split; [reflexivity|]. split; [|assumption]. unfold is_digit in Hc. unfold_chars. lia.
    - destruct Hw as (Hq & _). unfold str_txt. eexists; eexists. split; [reflexivity|].
      split; [destruct Hq; subst; reflexivity|assumption].
    - destruct n as [|c r]; [destruct Hw|]. destruct Hw as [Hc _]. exists c, r.
      split; [reflexivity|]. split; [|assumption]. unfold is_alpha in Hc. unfold_chars. lia.
    - destruct Hw as [Hw _]. destruct n as [|c r]; [destruct Hw|]. destruct Hw as [Hc _].
      eexists; eexists. split; [reflexivity|]. split; [|assumption]. unfold is_alpha in Hc. unfold_chars. lia.
    - eexists; eexists. split; [reflexivity|]. split; reflexivity.
    - eexists; eexists. split; [reflexivity|]. split; reflexivity.
  Qed.

  (* for t in qtypes: the earlier types are falsy, the term's own type returns its text *)
  Lemma try_types_exact t p r : wf md t -> sep_start r = true ->
    try_types qtypes (txt p t ++ r) = Ok (Some (kind t, txt p t), r).
  Proof.
    intros Hw Hr. pose proof (txt_neutral lay Hlay md t Hw p) as Hneu.
    destruct (txt_head t p Hw) as (c & x & Ex & _ & Hc).
    assert (Htr : truthy (Some (txt p t)) = true) by (rewrite Ex; reflexivity).
    cbn [qtypes try_types check].
    destruct t as [ds|q s|n|n args|l|d]; cbn [kind].
    - (* integer *)
      assert (E1 : check_string (txt p (TInt ds) ++ r) = Ok (Some [], txt p (TInt ds) ++ r)).
      { rewrite Ex. apply check_string_not_quote; unfold is_digit in Hc; unfold_chars; lia. }
      rewrite E1. cbn [bind truthy].
      destruct Hw as (_ & Hd & _). cbn [QueryRef.txt] in *. rewrite check_integer_exact by assumption.
      cbn [bind]. use_truthy Htr. reflexivity.
    - (* string *)
      destruct Hw as (Hq & He & _). cbn [QueryRef.txt] in *. rewrite check_string_exact by assumption.
      cbn [bind]. use_truthy Htr. reflexivity.
    - (* variable *)
      assert (Hc' : is_alpha c = false -> (c =? c_us) = true) by (intro E; rewrite E in Hc; exact Hc).
      assert (E1 : check_string (txt p (TVar n) ++ r) = Ok (Some [], txt p (TVar n) ++ r)).
      { rewrite Ex. apply check_string_not_quote; unfold is_alpha in *; unfold_chars; lia. }
      rewrite E1. cbn [bind truthy].
      assert (E2 : check_integer (txt p (TVar n) ++ r) = (Some [], txt p (TVar n) ++ r)).
      { rewrite Ex. apply check_integer_not_digit. unfold is_alpha, is_digit in *; unfold_chars; lia. }
      rewrite E2. cbn [bind truthy]. cbn [QueryRef.txt] in *.
      rewrite check_function_var by assumption. cbn [bind truthy].
      assert (E4 : check_dict (n ++ r) = Ok (None, n ++ r)).
      { rewrite Ex. apply check_bracket_not_open. unfold is_alpha in *; unfold_chars; lia. }
      rewrite E4. cbn [bind truthy].
      assert (E5 : check_list (n ++ r) = Ok (None, n ++ r)).
      { rewrite Ex. apply check_bracket_not_open. unfold is_alpha in *; unfold_chars; lia. }
      rewrite E5. cbn [bind truthy].
      rewrite check_variable_exact by assumption. cbn [bind]. use_truthy Htr. reflexivity.
    - (* call *)
      assert (Hc' : is_alpha c = false -> (c =? c_us) = true) by (intro E; rewrite E in Hc; exact Hc).
      assert (E1 : check_string (txt p (TCall n args) ++ r) = Ok (Some [], txt p (TCall n args) ++ r)).
      { rewrite Ex. apply check_string_not_quote; unfold is_alpha in *; unfold_chars; lia. }
      rewrite E1. cbn [bind truthy].
      assert (E2 : check_integer (txt p (TCall n args) ++ r) = (Some [], txt p (TCall n args) ++ r)).
      { rewrite Ex. apply check_integer_not_digit. unfold is_alpha, is_digit in *; unfold_chars; lia. }
      rewrite E2. cbn [bind truthy].
      destruct Hw as [Hn Ha]. apply wf_all_forall in Ha.
      assert (E3 : check_function (txt p (TCall n args) ++ r) = (Some (txt p (TCall n args)), r)).
      { cbn [QueryRef.txt]. rewrite <- !app_assoc. apply check_function_exact; [assumption|].
        apply (neutral_inner lay Hlay). intros pth a Hin. apply (txt_neutral lay Hlay md).
        rewrite Forall_forall in Ha. apply Ha. assumption. }
      rewrite E3. cbn [bind]. use_truthy Htr. reflexivity.
    - (* list *)
      subst c.
      assert (E1 : check_string (txt p (TLst l) ++ r) = Ok (Some [], txt p (TLst l) ++ r)).
      { rewrite Ex. apply check_string_not_quote; reflexivity. }
      rewrite E1. cbn [bind truthy].
      assert (E2 : check_integer (txt p (TLst l) ++ r) = (Some [], txt p (TLst l) ++ r)).
      { rewrite Ex. apply check_integer_not_digit. reflexivity. }
      rewrite E2. cbn [bind truthy].
      assert (E3 : check_function (txt p (TLst l) ++ r) = (None, txt p (TLst l) ++ r)).
      { rewrite Ex. apply check_function_not_start; reflexivity. }
      rewrite E3. cbn [bind truthy].
      assert (E4 : check_dict (txt p (TLst l) ++ r) = Ok (None, txt p (TLst l) ++ r)).
      { rewrite Ex. apply check_bracket_not_open. reflexivity. }
      rewrite E4. cbn [bind truthy].
      apply wf_all_forall in Hw.
      assert (E5 : check_list (txt p (TLst l) ++ r) = Ok (Some (txt p (TLst l)), r)).
      { cbn [QueryRef.txt]. rewrite <- !app_assoc. apply check_bracket_exact; [right; left; split; reflexivity|].
        apply (neutral_inner lay Hlay). intros pth a Hin. apply (txt_neutral lay Hlay md).
        rewrite Forall_forall in Hw. apply Hw. assumption. }
      rewrite E5. cbn [bind]. use_truthy Htr. reflexivity.
    - (* dict *)
      subst c.
      assert (E1 : check_string (txt p (TDct d) ++ r) = Ok (Some [], txt p (TDct d) ++ r)).
      { rewrite Ex. apply check_string_not_quote; reflexivity. }
      rewrite E1. cbn [bind truthy].
      assert (E2 : check_integer (txt p (TDct d) ++ r) = (Some [], txt p (TDct d) ++ r)).
      { rewrite Ex. apply check_integer_not_digit. reflexivity. }
      rewrite E2. cbn [bind truthy].
      assert (E3 : check_function (txt p (TDct d) ++ r) = (None, txt p (TDct d) ++ r)).
      { rewrite Ex. apply check_function_not_start; reflexivity. }
      rewrite E3. cbn [bind truthy].
      destruct Hw as [_ Hw]. apply wf_entries_forall in Hw.
      assert (E4 : check_dict (txt p (TDct d) ++ r) = Ok (Some (txt p (TDct d)), r)).
      { cbn [QueryRef.txt]. rewrite <- !app_assoc. apply check_bracket_exact; [right; right; split; reflexivity|].
        apply (neutral_inner lay Hlay). intros pth e Hin. rewrite Forall_forall in Hw.
        destruct (Hw e Hin) as [[Hq [He _]] Hv].
        apply neutral_app; [apply neutral_str; assumption|].
        apply neutral_app; [apply (neutral_lay lay Hlay)|]. apply neutral_app; [apply neutral_colon|].
        apply neutral_app; [apply (neutral_lay lay Hlay)|]. apply (txt_neutral lay Hlay md); assumption. }
      rewrite E4. cbn [bind]. use_truthy Htr. reflexivity.
  Qed.

  (* _parse_token on blank, printed term, anything that may follow a token *)
  Lemma parse_token_exact t p b r : all_space b = true -> wf md t -> sep_start r = true ->
    parse_token (b ++ txt p t ++ r) = Ok ((Some (kind t), txt p t), rstrip r).
  Proof.
    intros Hb Hw Hr. unfold parse_token.
    destruct (txt_edges lay md t p Hw) as [Ef El].
    rewrite is_empty_app_mid by (apply (txt_nonempty lay md); assumption).
    rewrite strip_tok by assumption.
    replace (is_empty (txt p t ++ rstrip r)) with false
      by (pose proof (txt_nonempty lay md t p Hw); destruct (txt p t); [congruence|reflexivity]).
    rewrite try_types_exact by (assumption || apply sep_start_rstrip; assumption).
    reflexivity.
  Qed.
End Exact.
