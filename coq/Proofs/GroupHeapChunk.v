(* REFINEMENT of the heap-level chunk_events_by_key (Model/GroupHeap.v) to Model/Group.v:
   on every heap whose argument list reads back ([glist_at]) as vs - any aliasing: the same
   Event object several times, shared data dicts, shared list values - and for every key
   other than the chunk's own "subevents" key, the call returns, the returned list reads
   back ([chunks_at]) as  chunk_events_by_key vs key pulse  and the argument still reads
   back as vs.
   Simulation: the chunk Events built so far are NEW objects allocated in the order
   sub-event list < data dict < Event, one triple after the other ([crel]); `+=` and
   `.append` touch the last triple only, so the earlier chunks and every input object read
   the same afterwards. *)
From AwVerif Require Import Base.Prelude Model.MemHeap Model.TransformHeap Model.DictHeap Model.Group
  Model.GroupHeap
  Proofs.MemHeapBase Proofs.MemHeapCopy Proofs.MemHeapFrame Proofs.TransformHeapCopy
  Proofs.TransformHeapBase Proofs.DictHeapBase Proofs.IntersectSort Proofs.GroupHeapFrame
  Proofs.GroupHeapRefine Proofs.GroupHeapMerge.
From Coq Require Import Arith Relations.
Local Open Scope nat_scope.
Local Notation lookup := MemHeap.lookup.

Lemma Forall2_rev' : forall {X Y} (R : X -> Y -> Prop) l l', Forall2 R l l' -> Forall2 R (rev l) (rev l').
Proof.
  intros X Y R l l' F. induction F; cbn [rev]; [constructor|]. apply Forall2_app; auto.
Qed.

Lemma gevs_at_snoc : forall h es vs e v, gevs_at h es = Some vs -> gev_at h e = Some v ->
  gevs_at h (es ++ [e]) = Some (vs ++ [v]).
Proof.
  unfold gevs_at. intros h es vs e v G E. apply opt_list_Forall2 in G. apply opt_list_Forall2.
  apply Forall2_app; auto.
Qed.

Section ChunkSim.
  Variables (sub_key key pulse : Z) (h0 : heap).
  Hypothesis Hkey : key <> sub_key.

  Lemma key_sub : (key =? sub_key)%Z = false.
  Proof. now apply Z.eqb_neq. Qed.

  Lemma chunk_dict : forall v s, zset sub_key (ZK s) (zset key v []) = [(key, v); (sub_key, ZK s)].
  Proof. intros v s. cbn [zset]. now rewrite key_sub. Qed.

  (* the chunk Events in acc (last one first) stand for the records in gacc; each is a
     triple of new cells S < D < c, and the triples lie one below the other *)
  Fixpoint crel (h : heap) (lim : nat) (acc : list loc) (gacc : list chunk) : Prop :=
    match acc, gacc with
    | [], [] => True
    | c :: acc', ch :: gacc' =>
        exists D S es v,
          length h0 <= S /\ S < D /\ D < c /\ c < lim /\
          lookup h c = Some (Cell (TEv None (cts ch) (cdur ch)) [D]) /\
          lookup h D = Some (dict_cell [(key, v); (sub_key, ZK S)]) /\
          val_label h0 v = Ok (cval ch) /\
          lookup h S = Some (Cell (TNode EVENT_LIST) es) /\
          gevs_at h0 es = Some (csub ch) /\
          crel h S acc' gacc'
    | _, _ => False
    end.

  Lemma crel_agree : forall h h' acc gacc lim, (forall l, l < lim -> lookup h' l = lookup h l) ->
    crel h lim acc gacc -> crel h' lim acc gacc.
  Proof.
    intros h h'. induction acc as [|c acc IH]; intros [|ch gacc] lim A; cbn [crel]; auto.
    intros (D & S & es & v & B1 & B2 & B3 & B4 & Lc & LD & V & LS & G & R).
    exists D, S, es, v. repeat (split; [assumption|]).
    split; [rewrite A; [assumption|lia]|]. split; [rewrite A; [assumption|lia]|]. split; [assumption|].
    split; [rewrite A; [assumption|lia]|]. split; [assumption|].
    apply IH; auto. intros l B. apply A. lia.
  Qed.

  Lemma crel_mono : forall h acc gacc lim lim', lim <= lim' -> crel h lim acc gacc -> crel h lim' acc gacc.
  Proof.
    intros h [|c acc] [|ch gacc] lim lim' Le; cbn [crel]; auto.
    intros (D & S & es & v & B1 & B2 & B3 & B4 & R). exists D, S, es, v.
    repeat (split; [assumption|]). split; [lia|]. exact R.
  Qed.

  (* reading the chunks back *)
  Lemma crel_chunk_at : forall h acc gacc lim, kept h0 h -> crel h lim acc gacc ->
    Forall2 (fun c ch => chunk_at sub_key key h c = Some ch) acc gacc.
  Proof.
    intros h. induction acc as [|c acc IH]; intros [|ch gacc] lim K; cbn [crel]; try tauto; [constructor|].
    intros (D & S & es & v & B1 & B2 & B3 & B4 & Lc & LD & V & LS & G & R).
    constructor; [|eapply IH; eauto].
    unfold chunk_at. rewrite Lc, (rd_dict_cell _ _ _ LD), !Z.eqb_refl. cbn [andb].
    rewrite (val_label_kept _ _ _ _ K V). unfold glist_at. rewrite LS.
    rewrite (gevs_at_kept _ _ _ _ K G). destruct ch; reflexivity.
  Qed.

  Section Loop.
    Variables (last : loc) (lv : gev).
    Hypothesis Hlast : gev_at h0 last = Some lv.

    (* a new chunk on top of the ones built so far *)
    Lemma new_chunk_sim : forall h acc gacc e v zv q,
      kept h0 h -> crel h (length h) acc gacc -> gev_at h0 e = Some v -> val_label h0 zv = Ok q ->
      exists h' c, new_chunk_h sub_key key h e zv = Ok (h', c) /\ kept h0 h' /\
                   crel h' (length h') (c :: acc) (new_chunk v q :: gacc).
    Proof.
      intros h acc gacc e v zv q K R Ge V.
      pose proof (gev_at_kept _ _ _ _ K Ge) as Ge'.
      unfold new_chunk_h. rewrite (rd_ts_gev _ _ _ Ge'), (rd_dur_gev _ _ _ Ge'). cbn [bind alloc fst snd].
      eexists _, _. split; [reflexivity|].
      rewrite chunk_dict.
      set (h1 := h ++ [Cell (TNode EVENT_LIST) [e]]).
      set (h2 := h1 ++ [dict_cell [(key, zv); (sub_key, ZK (length h))]]).
      assert (L1 : length h1 = S (length h)) by (unfold h1; rewrite app_length; cbn; lia).
      assert (L2 : length h2 = S (S (length h))) by (unfold h2; rewrite app_length; cbn; lia).
      split; [apply kept_alloc, kept_alloc, kept_alloc; exact K|].
      cbn [crel]. exists (length h1), (length h), [e], zv.
      destruct K as [G0 _].
      split; [lia|]. split; [lia|]. split; [lia|]. split; [rewrite app_length; cbn; lia|].
      split; [apply lookup_alloc_new|].
      split; [apply lookup_app_some; unfold h2; apply lookup_alloc_new|].
      split; [exact V|].
      split; [apply lookup_app_some, lookup_app_some; unfold h1; apply lookup_alloc_new|].
      split; [unfold gevs_at; cbn [map opt_list]; now rewrite Ge|].
      eapply crel_agree; [|exact R]. intros l B.
      rewrite lookup_app_old by lia. unfold h2. rewrite lookup_app_old by lia.
      unfold h1. now rewrite lookup_app_old.
    Qed.

    Lemma chunk_loop_sim : forall evs vs, Forall2 (fun e v => gev_at h0 e = Some v) evs vs ->
      forall h acc gacc, kept h0 h -> crel h (length h) acc gacc ->
      exists h' acc' gacc',
        chunk_loop_h sub_key key pulse last h evs acc = Ok (h', rev acc') /\
        chunk_loop key pulse (gts lv + gdur lv) vs gacc = rev gacc' /\
        kept h0 h' /\ crel h' (length h') acc' gacc'.
    Proof.
      intros evs vs F. induction F as [|e v evs vs Ge F IH]; intros h acc gacc K R; cbn [chunk_loop_h chunk_loop].
      - exists h, acc, gacc. auto.
      - destruct (ev_dict_gev _ _ _ Ge) as (z & EZ & GD).
        rewrite (ev_dict_kept _ _ _ _ K EZ). cbn [bind].
        pose proof (gdict_at_lookup h0 z _ key GD) as X.
        destruct (zget key z) as [zv|].
        2:{ rewrite X. exists h, acc, gacc. auto. }
        destruct X as (q & V & ->).
        destruct acc as [|c older]; destruct gacc as [|ch golder]; cbn [crel] in R; try contradiction.
        + destruct (new_chunk_sim h [] [] e v zv q K I Ge V) as (h1 & c1 & N & K1 & R1).
          rewrite N. cbn [bind fst snd]. apply IH; auto.
        + pose proof R as (D & S & es & vc & B1 & B2 & B3 & B4 & Lc & LD & Vc & LS & Gs & Ro).
          pose proof (gev_at_kept _ _ _ _ K Ge) as Ge'.
          pose proof (gev_at_kept _ _ _ _ K Hlast) as Gl'.
          rewrite (rd_ts_gev _ _ _ Ge'), (rd_ts_gev _ _ _ Gl'), (rd_dur_gev _ _ _ Gl'). cbn [bind].
          assert (EC : ev_dict h c = Ok [(key, vc); (sub_key, ZK S)]).
          { unfold ev_dict, rd_data, ev_fields. rewrite Lc. cbn [bind snd]. now apply rd_dict_cell. }
          rewrite EC. cbn [bind zget]. rewrite Z.eqb_refl.
          unfold val_eq. rewrite (val_label_kept _ _ _ _ K Vc), (val_label_kept _ _ _ _ K V). cbn [bind].
          destruct ((cval ch =? q)%Z && (gts v - (gts lv + gdur lv) <? pulse)%Z).
          * (* the chunk goes on: += and .append *)
            unfold rd_dur at 1, ev_fields. rewrite Lc. cbn [bind fst snd].
            rewrite (rd_dur_gev _ _ _ Ge'). cbn [bind].
            unfold wr_dur. rewrite Lc. cbn [bind].
            set (h1 := update h c (Cell (TEv None (cts ch) (cdur ch + gdur v)%Z) [D])).
            assert (Bc : c < length h) by (eapply lookup_lt; eauto).
            assert (Lc1 : lookup h1 c = Some (Cell (TEv None (cts ch) (cdur ch + gdur v)%Z) [D]))
              by (unfold h1; now apply lookup_update_same).
            assert (LD1 : lookup h1 D = Some (dict_cell [(key, vc); (sub_key, ZK S)]))
              by (unfold h1; rewrite lookup_update_other by lia; auto).
            assert (LS1 : lookup h1 S = Some (Cell (TNode EVENT_LIST) es))
              by (unfold h1; rewrite lookup_update_other by lia; auto).
            unfold append_sub, ev_dict, rd_data, ev_fields. rewrite Lc1. cbn [bind snd].
            rewrite (rd_dict_cell _ _ _ LD1). cbn [bind zget]. rewrite key_sub, Z.eqb_refl, LS1. cbn [bind].
            set (h2 := update h1 S (Cell (TNode EVENT_LIST) (es ++ [e]))).
            apply IH.
            -- unfold h2, h1. apply kept_update; [apply kept_update; auto; lia|lia].
            -- unfold h2. rewrite update_length. unfold h1. rewrite update_length.
               cbn [crel]. exists D, S, (es ++ [e]), vc. cbn [cts cdur cval csub chunk_add].
               split; [lia|]. split; [lia|]. split; [lia|]. split; [lia|].
               split; [rewrite lookup_update_other by lia; exact Lc1|].
               split; [rewrite lookup_update_other by lia; exact LD1|].
               split; [exact Vc|].
               split; [apply lookup_update_same; unfold h1; rewrite update_length; lia|].
               split; [now apply gevs_at_snoc|].
               eapply crel_agree; [|exact Ro]. intros l B.
               rewrite lookup_update_other by lia. unfold h1. rewrite lookup_update_other by lia. reflexivity.
          * destruct (new_chunk_sim h (c :: older) (ch :: golder) e v zv q K R Ge V) as (h1 & c1 & N & K1 & R1).
            rewrite N. cbn [bind fst snd]. apply IH; auto.
    Qed.
  End Loop.
End ChunkSim.

Theorem chunk_h_refines : forall sub_key h L key pulse vs, key <> sub_key -> glist_at h L = Some vs ->
  exists h' L', chunk_events_by_key_h sub_key h L key pulse = Ok (h', L') /\
                chunks_at sub_key key h' L' = Some (chunk_events_by_key vs key pulse) /\
                glist_at h' L = Some vs.
Proof.
  intros sub_key h L key pulse vs Hkey GL.
  destruct (glist_at_inv _ _ _ GL) as (p & ks & Lk & G).
  unfold chunk_events_by_key_h, chunk_events_by_key, list_elems. rewrite Lk. cbn [bind].
  unfold gevs_at in G. apply opt_list_Forall2 in G.
  pose proof (Forall2_rev' _ _ _ G) as GR.
  destruct (rev ks) as [|last rk]; inversion GR as [|? lv ? rv Gl GR' E1 E2]; subst.
  - eexists _, _. split; [reflexivity|]. split.
    + unfold chunks_at, new_list, alloc. cbn [fst snd]. rewrite lookup_alloc_new. reflexivity.
    + eapply glist_at_kept; eauto. apply kept_alloc, kept_refl.
  - destruct (chunk_loop_sim sub_key key pulse h Hkey last lv Gl ks vs G h [] [] (kept_refl h) I)
      as (h1 & acc & gacc & LP & FM & K1 & R1).
    rewrite LP, FM. cbn [bind fst snd].
    eexists _, _. split; [reflexivity|].
    assert (K2 : kept h (h1 ++ [Cell (TNode EVENT_LIST) (rev acc)])) by now apply kept_alloc.
    split.
    + unfold chunks_at, new_list, alloc. cbn [fst snd]. rewrite lookup_alloc_new.
      apply opt_list_Forall2. apply Forall2_rev'.
      eapply crel_chunk_at; [exact K2|].
      eapply crel_agree; [|exact R1]. intros l B. now apply lookup_app_old.
    + eapply glist_at_kept; eauto.
Qed.
