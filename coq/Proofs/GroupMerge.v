(* Lemmas about merge_events_by_keys of Model/Group.v. *)
From AwVerif Require Import Base.Prelude Model.Group Proofs.GroupSort.
From Coq Require Import ZifyBool.

(* ------------------------------------------------------------------ generic list facts *)

Lemma sumZ_cons : forall a l, sumZ (a :: l) = a + sumZ l.
Proof. reflexivity. Qed.

Lemma filter_comm : forall {A} (p q : A -> bool) l,
  filter p (filter q l) = filter q (filter p l).
Proof.
  intros A p q l. induction l as [|x t IH]; cbn [filter]; [reflexivity|].
  destruct (p x) eqn:Ep; destruct (q x) eqn:Eq; cbn [filter]; rewrite ?Ep, ?Eq, IH; reflexivity.
Qed.

Lemma filter_idem : forall {A} (p : A -> bool) l, filter p (filter p l) = filter p l.
Proof.
  intros A p l. induction l as [|x t IH]; cbn [filter]; [reflexivity|].
  destruct (p x) eqn:Ep; cbn [filter]; rewrite ?Ep, IH; reflexivity.
Qed.

Lemma filter_filter_imp : forall {A} (p q : A -> bool) l,
  (forall x, In x l -> p x = true -> q x = true) -> filter p (filter q l) = filter p l.
Proof.
  intros A p q l H. induction l as [|x t IH]; cbn [filter]; [reflexivity|].
  assert (IH' : filter p (filter q t) = filter p t).
  { apply IH. intros y Hy. apply H. right. exact Hy. }
  destruct (q x) eqn:Eq; cbn [filter].
  - rewrite IH'. reflexivity.
  - destruct (p x) eqn:Ep; [|exact IH'].
    rewrite (H x (or_introl eq_refl) Ep) in Eq. discriminate.
Qed.

Lemma find_filter_imp : forall {A} (p q : A -> bool) l,
  (forall x, In x l -> p x = true -> q x = true) -> find p (filter q l) = find p l.
Proof.
  intros A p q l H. induction l as [|x t IH]; cbn [filter find]; [reflexivity|].
  assert (IH' : find p (filter q t) = find p t).
  { apply IH. intros y Hy. apply H. right. exact Hy. }
  destruct (q x) eqn:Eq; cbn [find].
  - rewrite IH'. reflexivity.
  - destruct (p x) eqn:Ep; [|exact IH'].
    rewrite (H x (or_introl eq_refl) Ep) in Eq. discriminate.
Qed.

Lemma filter_map_swap : forall {A B} (f : A -> B) (p : B -> bool) l,
  filter p (map f l) = map f (filter (fun x => p (f x)) l).
Proof.
  intros A B f p l. induction l as [|x t IH]; cbn [map filter]; [reflexivity|].
  destruct (p (f x)); cbn [map]; rewrite IH; reflexivity.
Qed.

Lemma filter_len : forall {A} (p : A -> bool) l, (length (filter p l) <= length l)%nat.
Proof.
  intros A p l. induction l as [|x t IH]; cbn [filter length]; [lia|].
  destruct (p x); cbn [length]; lia.
Qed.

Lemma list_len_ind : forall {A} (P : list A -> Prop),
  (forall l, (forall l', (length l' < length l)%nat -> P l') -> P l) -> forall l, P l.
Proof.
  intros A P H l.
  assert (G : forall n l', (length l' < n)%nat -> P l').
  { induction n as [|n IHn]; intros l' Hl; [lia|].
    apply H. intros l'' Hl''. apply IHn. lia. }
  apply (G (S (length l))). lia.
Qed.

(* keep the first occurrence of every element, in order *)
Section Dedup.
  Context {A : Type} (eqb : A -> A -> bool).
  Hypothesis eqb_spec : forall a b, eqb a b = true <-> a = b.

  Fixpoint dedup (l : list A) : list A :=
    match l with
    | [] => []
    | x :: t => x :: filter (fun y => negb (eqb x y)) (dedup t)
    end.

  Lemma eqb_refl' : forall a, eqb a a = true.
  Proof. intros a. apply eqb_spec. reflexivity. Qed.

  Lemma dedup_filter : forall x l,
    dedup (filter (fun y => negb (eqb x y)) l) = filter (fun y => negb (eqb x y)) (dedup l).
  Proof.
    intros x l. induction l as [|y t IH]; cbn [filter dedup]; [reflexivity|].
    destruct (eqb x y) eqn:E; cbn [negb].
    - apply eqb_spec in E. subst y. rewrite IH, filter_idem. reflexivity.
    - cbn [dedup]. f_equal. rewrite IH. apply filter_comm.
  Qed.

  Lemma dedup_In : forall a l, In a (dedup l) <-> In a l.
  Proof.
    intros a l. induction l as [|x t IH]; cbn [dedup In]; [tauto|].
    rewrite filter_In, IH. split.
    - intros [H|[H _]]; auto.
    - intros [H|H]; [left; exact H|].
      destruct (eqb x a) eqn:E.
      + left. apply eqb_spec. exact E.
      + right. split; [exact H | reflexivity].
  Qed.

  Lemma dedup_NoDup : forall l, NoDup (dedup l).
  Proof.
    induction l as [|x t IH]; cbn [dedup].
    - apply NoDup_nil.
    - apply NoDup_cons.
      + rewrite filter_In. intros [_ H]. rewrite eqb_refl' in H. discriminate.
      + apply NoDup_filter. exact IH.
  Qed.
End Dedup.

(* ------------------------------------------------------------------ vocabulary of the statement *)

(* the combination of presence and value of the given keys in one event's data *)
Definition vec := list (option Z).
Definition kvec (keys : list Z) (d : dict) : vec := map (fun k => lookup k d) keys.

Fixpoint vec_eqb (a b : vec) : bool :=
  match a, b with
  | [], [] => true
  | x :: a', y :: b' => option_eqb Z.eqb x y && vec_eqb a' b'
  | _, _ => false
  end.

Definition same_group (keys : list Z) (a b : gev) : bool :=
  vec_eqb (kvec keys (gdata a)) (kvec keys (gdata b)).

(* what the statement asks of one output: no id, the first member's (ms-floored)
   timestamp, the exact sum of the members' durations, the selected keys of the first *)
Definition group_event (keys : list Z) (first : gev) (others : list gev) : gev :=
  mkG None (floor_ms (gts first)) (sumZ (map gdur (first :: others))) (select_keys keys (gdata first)).

Lemma option_eqb_spec : forall x y : option Z, option_eqb Z.eqb x y = true <-> x = y.
Proof.
  intros [x|] [y|]; cbn [option_eqb]; split; intros H; try discriminate; try reflexivity.
  - f_equal. lia.
  - inversion H. lia.
Qed.

Lemma vec_eqb_spec : forall a b, vec_eqb a b = true <-> a = b.
Proof.
  induction a as [|x a IH]; intros [|y b]; cbn [vec_eqb]; split; intros H;
    try discriminate; try reflexivity.
  - apply Bool.andb_true_iff in H. destruct H as [H1 H2].
    apply option_eqb_spec in H1. apply IH in H2. subst. reflexivity.
  - inversion H. subst. apply Bool.andb_true_iff. split; [apply option_eqb_spec | apply IH]; reflexivity.
Qed.

Lemma same_group_iff : forall keys a b,
  same_group keys a b = true <-> kvec keys (gdata a) = kvec keys (gdata b).
Proof. intros. unfold same_group. apply vec_eqb_spec. Qed.

Lemma same_group_refl : forall keys a, same_group keys a a = true.
Proof. intros. apply same_group_iff. reflexivity. Qed.

Lemma same_group_sym : forall keys a b, same_group keys a b = same_group keys b a.
Proof.
  intros. apply Bool.eq_true_iff_eq. rewrite !same_group_iff. split; intros H; symmetry; exact H.
Qed.

Lemma same_group_trans_l : forall keys a b c,
  same_group keys a b = true -> same_group keys a c = same_group keys b c.
Proof.
  intros keys a b c H. apply same_group_iff in H.
  unfold same_group. rewrite H. reflexivity.
Qed.

(* ------------------------------------------------------------------ composite key = vector *)

Lemma pair_eqb_spec : forall a b, pair_eqb a b = true <-> a = b.
Proof.
  intros [a1 a2] [b1 b2]. unfold pair_eqb. cbn [fst snd]. split; intros H.
  - f_equal; lia.
  - inversion H. lia.
Qed.

Lemma ckey_eqb_spec : forall a b, ckey_eqb a b = true <-> a = b.
Proof.
  induction a as [|x a IH]; intros [|y b]; cbn [ckey_eqb]; split; intros H;
    try discriminate; try reflexivity.
  - apply Bool.andb_true_iff in H. destruct H as [H1 H2].
    apply pair_eqb_spec in H1. apply IH in H2. subst. reflexivity.
  - inversion H. subst. apply Bool.andb_true_iff. split; [apply pair_eqb_spec | apply IH]; reflexivity.
Qed.

Lemma ck_cons : forall k t d,
  composite_key (k :: t) d =
  (match lookup k d with Some v => [(k, v)] | None => [] end) ++ composite_key t d.
Proof. reflexivity. Qed.

Lemma kvec_cons : forall k t d, kvec (k :: t) d = lookup k d :: kvec t d.
Proof. reflexivity. Qed.

Lemma ck_in : forall keys d k v, In (k, v) (composite_key keys d) -> lookup k d = Some v.
Proof.
  intros keys d k v H. unfold composite_key in H. apply in_flat_map in H.
  destruct H as [k0 [_ Hin]]. destruct (lookup k0 d) as [v0|] eqn:E; cbn [In] in Hin.
  - destruct Hin as [Hin|[]]. inversion Hin. subst. exact E.
  - contradiction.
Qed.

(* two events get the same composite key exactly when they agree on presence and value
   of every key *)
Lemma ck_eq_iff : forall keys d1 d2,
  composite_key keys d1 = composite_key keys d2 <-> kvec keys d1 = kvec keys d2.
Proof.
  intros keys d1 d2. induction keys as [|k t IH].
  - split; reflexivity.
  - rewrite !ck_cons, !kvec_cons.
    destruct (lookup k d1) as [v1|] eqn:E1; destruct (lookup k d2) as [v2|] eqn:E2; cbn [app].
    + split; intros H; inversion H; subst; f_equal; apply IH; assumption.
    + split; intros H; [exfalso | discriminate].
      assert (Hin : In (k, v1) (composite_key t d2)) by (rewrite <- H; left; reflexivity).
      apply ck_in in Hin. congruence.
    + split; intros H; [exfalso | discriminate].
      assert (Hin : In (k, v2) (composite_key t d1)) by (rewrite H; left; reflexivity).
      apply ck_in in Hin. congruence.
    + split; intros H.
      * f_equal. apply IH. exact H.
      * inversion H. apply IH. assumption.
Qed.

Lemma ckey_same : forall keys a b,
  ckey_eqb (composite_key keys (gdata a)) (composite_key keys (gdata b)) = same_group keys a b.
Proof.
  intros. apply Bool.eq_true_iff_eq. rewrite ckey_eqb_spec, same_group_iff. apply ck_eq_iff.
Qed.

(* ------------------------------------------------------------------ the data of a group *)

Lemma lookup_dset : forall k k' v d,
  lookup k (dset k' v d) = if k' =? k then Some v else lookup k d.
Proof.
  intros k k' v d. induction d as [|[k0 v0] t IH]; cbn [dset lookup].
  - reflexivity.
  - destruct (k0 =? k') eqn:E0; cbn [lookup].
    + destruct (k0 =? k) eqn:E1; destruct (k' =? k) eqn:E2; try reflexivity; exfalso; lia.
    + rewrite IH. destruct (k0 =? k) eqn:E1; destruct (k' =? k) eqn:E2; try reflexivity; exfalso; lia.
Qed.

Lemma lookup_select_gen : forall d keys acc k,
  lookup k (fold_left (fun acc k => match lookup k d with Some v => dset k v acc | None => acc end) keys acc)
  = if memZ k keys
    then match lookup k d with Some v => Some v | None => lookup k acc end
    else lookup k acc.
Proof.
  intros d keys. induction keys as [|k0 t IH]; intros acc k; cbn [fold_left memZ].
  - reflexivity.
  - rewrite IH. destruct (k0 =? k) eqn:E; cbn [orb].
    + assert (k0 = k) by lia. subst k0.
      destruct (lookup k d) as [v|] eqn:El.
      * rewrite lookup_dset, Z.eqb_refl. destruct (memZ k t); reflexivity.
      * destruct (memZ k t); reflexivity.
    + destruct (lookup k0 d) as [v0|] eqn:El0.
      * rewrite lookup_dset, E. reflexivity.
      * reflexivity.
Qed.

(* the output data is exactly the selected keys, with the values of the given dict *)
Lemma lookup_select : forall keys d k,
  lookup k (select_keys keys d) = if memZ k keys then lookup k d else None.
Proof.
  intros keys d k. unfold select_keys. rewrite lookup_select_gen. cbn [lookup].
  destruct (memZ k keys); destruct (lookup k d); reflexivity.
Qed.

Lemma kvec_select : forall keys d, kvec keys (select_keys keys d) = kvec keys d.
Proof.
  intros keys d. unfold kvec. apply map_ext_in. intros k Hk. rewrite lookup_select.
  apply memZ_In in Hk. rewrite Hk. reflexivity.
Qed.

Lemma same_group_event : forall keys x e others,
  same_group keys x (group_event keys e others) = same_group keys x e.
Proof.
  intros. unfold same_group, group_event. cbn [gdata]. rewrite kvec_select. reflexivity.
Qed.

Lemma floor_ms_idem : forall t, floor_ms (floor_ms t) = floor_ms t.
Proof.
  intros t. unfold floor_ms.
  assert (H : 1000 * (t / 1000) / 1000 = t / 1000) by (rewrite Z.mul_comm; apply Z.div_mul; lia).
  rewrite H. reflexivity.
Qed.

(* aw-core events are ms-aligned (the Event.timestamp setter floors); there the
   constructor's flooring is the identity *)
Lemma floor_ms_aligned : forall t, t mod 1000 = 0 -> floor_ms t = t.
Proof. intros t H. unfold floor_ms. symmetry. apply Z.div_exact; [lia | exact H]. Qed.

(* ------------------------------------------------------------------ the loop *)

Definition ckof (keys : list Z) (e : gev) := composite_key keys (gdata e).

Lemma add_dur_add_dur : forall g a b, add_dur (add_dur g a) b = add_dur g (a + b).
Proof. intros g a b. unfold add_dur. cbn [gid gts gdur gdata]. f_equal. lia. Qed.

Lemma add_dur_0 : forall g, add_dur g 0 = g.
Proof. intros [i t d x]. unfold add_dur. cbn [gid gts gdur gdata]. f_equal. lia. Qed.

(* a group that is already in the dict collects every later event with its composite key;
   the other events are processed as if that group were not there *)
Lemma run_head : forall keys l c g m',
  fold_left (merge_step keys) l ((c, g) :: m') =
  (c, add_dur g (sumZ (map gdur (filter (fun e => ckey_eqb c (ckof keys e)) l))))
  :: fold_left (merge_step keys) (filter (fun e => negb (ckey_eqb c (ckof keys e))) l) m'.
Proof.
  intros keys l. induction l as [|x t IH]; intros c g m'; cbn [fold_left filter].
  - cbn [map]. change (sumZ []) with 0. rewrite add_dur_0. reflexivity.
  - change (merge_step keys ((c, g) :: m') x) with (madd keys (ckof keys x) x ((c, g) :: m')).
    cbn [madd]. destruct (ckey_eqb c (ckof keys x)) eqn:E; cbn [negb].
    + rewrite IH. cbn [map]. rewrite sumZ_cons, add_dur_add_dur. reflexivity.
    + rewrite IH. cbn [fold_left]. reflexivity.
Qed.

Lemma keys_test : forall keys : list Z, keys <> [] -> (Z.of_nat (length keys) <? 1) = false.
Proof. intros [|k t] H; [contradiction | cbn [length]; lia]. Qed.

Lemma merge_nokeys : forall events, merge_events_by_keys events [] = events.
Proof. reflexivity. Qed.

Lemma merge_nil : forall keys, merge_events_by_keys [] keys = [].
Proof. intros keys. unfold merge_events_by_keys. destruct (_ <? 1); reflexivity. Qed.

(* the recursive reading of the loop: the first event opens a group that takes every
   later event with the same combination; the remaining events are merged the same way *)
Lemma merge_cons : forall keys e t, keys <> [] ->
  merge_events_by_keys (e :: t) keys =
  group_event keys e (filter (same_group keys e) t)
  :: merge_events_by_keys (filter (fun x => negb (same_group keys e x)) t) keys.
Proof.
  intros keys e t Hk. unfold merge_events_by_keys. rewrite (keys_test keys Hk). cbn [fold_left].
  change (merge_step keys [] e) with [(ckof keys e, new_group keys e)].
  rewrite run_head. cbn [map snd]. f_equal.
  - unfold rebuild, add_dur, new_group, group_event. cbn [gid gts gdur gdata].
    rewrite floor_ms_idem, map_cons, sumZ_cons. f_equal. f_equal. f_equal. f_equal.
    apply filter_ext. intros x. apply ckey_same.
  - f_equal. f_equal. apply filter_ext. intros x. f_equal. apply ckey_same.
Qed.

(* ------------------------------------------------------------------ derived laws *)

Definition evec (keys : list Z) (e : gev) : vec := kvec keys (gdata e).

(* one output per distinct combination, in first-occurrence order *)
Lemma merge_vectors : forall keys events, keys <> [] ->
  map (evec keys) (merge_events_by_keys events keys) = dedup vec_eqb (map (evec keys) events).
Proof.
  intros keys events Hk. induction events as [events IH] using list_len_ind.
  destruct events as [|e t].
  - rewrite merge_nil. reflexivity.
  - rewrite (merge_cons keys e t Hk). cbn [map dedup]. f_equal.
    + unfold evec, group_event. cbn [gdata]. apply kvec_select.
    + rewrite IH.
      * rewrite <- (dedup_filter vec_eqb vec_eqb_spec). f_equal.
        rewrite filter_map_swap. reflexivity.
      * cbn [length]. pose proof (filter_len (fun x => negb (same_group keys e x)) t). lia.
Qed.

Lemma merge_distinct : forall keys events, keys <> [] ->
  NoDup (map (evec keys) (merge_events_by_keys events keys)).
Proof.
  intros keys events Hk. rewrite (merge_vectors keys events Hk).
  apply (dedup_NoDup vec_eqb vec_eqb_spec).
Qed.

Lemma merge_covers : forall keys events e, keys <> [] -> In e events ->
  exists o, In o (merge_events_by_keys events keys) /\ same_group keys e o = true.
Proof.
  intros keys events e Hk He.
  assert (H : In (evec keys e) (map (evec keys) (merge_events_by_keys events keys))).
  { rewrite (merge_vectors keys events Hk). apply (dedup_In vec_eqb vec_eqb_spec).
    apply in_map. exact He. }
  apply in_map_iff in H. destruct H as [o [Ho Hin]]. exists o. split; [exact Hin|].
  apply same_group_iff. symmetry. exact Ho.
Qed.

(* every output is the group of the first input event with its combination: it carries
   that event's timestamp and selected data, and the exact sum over all members *)
Lemma merge_groups : forall keys events o, keys <> [] ->
  In o (merge_events_by_keys events keys) ->
  exists e, find (fun x => same_group keys x o) events = Some e /\
    gid o = None /\ gts o = floor_ms (gts e) /\ gdata o = select_keys keys (gdata e) /\
    gdur o = sumZ (map gdur (filter (fun x => same_group keys x o) events)).
Proof.
  intros keys events o Hk. induction events as [events IH] using list_len_ind.
  destruct events as [|e0 t]; intros Hin.
  - rewrite merge_nil in Hin. contradiction.
  - rewrite (merge_cons keys e0 t Hk) in Hin. destruct Hin as [Ho|Hin].
    + exists e0. subst o. cbn [find filter].
      rewrite same_group_event, same_group_refl.
      split; [reflexivity|]. unfold group_event at 1 2 3 4. cbn [gid gts gdata gdur].
      repeat (split; [reflexivity|]). f_equal. f_equal. f_equal. apply filter_ext.
      intros x. rewrite same_group_event. apply same_group_sym.
    + destruct (IH (filter (fun x => negb (same_group keys e0 x)) t)) as [e [Hf [H1 [H2 [H3 H4]]]]].
      * cbn [length]. pose proof (filter_len (fun x => negb (same_group keys e0 x)) t). lia.
      * exact Hin.
      * apply find_some in Hf as Hf'. destruct Hf' as [Hein Heo].
        apply filter_In in Hein. destruct Hein as [_ Hne].
        assert (Himp : forall x, same_group keys x o = true -> negb (same_group keys e0 x) = true).
        { intros x Hx. rewrite (same_group_sym keys e0 x), (same_group_trans_l keys x o e0 Hx).
          rewrite <- (same_group_trans_l keys e o e0 Heo), (same_group_sym keys e e0). exact Hne. }
        assert (H0 : same_group keys e0 o = false).
        { destruct (same_group keys e0 o) eqn:E; [|reflexivity].
          specialize (Himp e0 E). rewrite same_group_refl in Himp. discriminate. }
        exists e. cbn [find filter]. rewrite H0.
        split; [|split; [exact H1|split; [exact H2|split; [exact H3|]]]].
        -- rewrite <- Hf. symmetry. apply find_filter_imp. intros x _ Hx. apply Himp. exact Hx.
        -- rewrite H4. f_equal. f_equal. apply filter_filter_imp. intros x _ Hx. apply Himp. exact Hx.
Qed.

(* total duration is conserved, for every key list *)
Lemma madd_sum : forall keys ck e m,
  sumZ (map (fun cg => gdur (snd cg)) (madd keys ck e m))
  = sumZ (map (fun cg => gdur (snd cg)) m) + gdur e.
Proof.
  intros keys ck e m. induction m as [|[c g] t IH]; cbn [madd].
  - cbn [map snd new_group gdur]. rewrite sumZ_cons. change (sumZ []) with 0. lia.
  - destruct (ckey_eqb c ck); cbn [map snd]; rewrite !sumZ_cons.
    + unfold add_dur. cbn [gdur]. lia.
    + rewrite IH. lia.
Qed.

Lemma run_sum : forall keys l m,
  sumZ (map (fun cg => gdur (snd cg)) (fold_left (merge_step keys) l m))
  = sumZ (map (fun cg => gdur (snd cg)) m) + sumZ (map gdur l).
Proof.
  intros keys l. induction l as [|x t IH]; intros m; cbn [fold_left map].
  - change (sumZ []) with 0. lia.
  - rewrite IH. unfold merge_step. rewrite madd_sum, sumZ_cons. lia.
Qed.

Lemma merge_total : forall events keys,
  sumZ (map gdur (merge_events_by_keys events keys)) = sumZ (map gdur events).
Proof.
  intros events keys. unfold merge_events_by_keys. destruct (_ <? 1); [reflexivity|].
  rewrite map_map.
  rewrite (map_ext (fun x => gdur (rebuild (snd x))) (fun cg => gdur (snd cg))) by reflexivity.
  rewrite run_sum. cbn [map]. change (sumZ []) with 0. lia.
Qed.
