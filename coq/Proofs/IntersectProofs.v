(* Lemmas about the two-pointer sweep of Model/Intersect.v (_intersecting_eventpairs and
   filter_period_intersect).  Specification vocabulary first; no property statements. *)
From AwVerif Require Import Base.Prelude Model.Timeslot Model.Intersect
  Proofs.IntersectSlot Proofs.IntersectSort.
From Coq Require Import ZifyBool Sorting.Permutation.

(* ---------------------------------------------------------------------------------- *)
(* specification vocabulary                                                            *)

(* half-open point sets *)
Definition covers (l : list event) (t : Z) : Prop :=
  exists e, In e l /\ ts e <= t < eend e.

(* millisecond granularity: what Event's timestamp setter guarantees of every event *)
Definition aligned (e : event) : Prop := floor_ms (ts e) = ts e.

(* "free of internal overlap", consecutive form: non-negative durations and
   end_i <= start_{i+1} for neighbours (hence sorted by start) *)
Fixpoint nonoverlapping (l : list event) : Prop :=
  match l with
  | [] => True
  | a :: t =>
      0 <= dur a /\
      match t with [] => True | b :: _ => eend a <= ts b end /\
      nonoverlapping t
  end.

(* the same in "every later element" form, the one the proofs use *)
Fixpoint chain (l : list event) : Prop :=
  match l with
  | [] => True
  | a :: t => 0 <= dur a /\ (forall b, In b t -> eend a <= ts b) /\ chain t
  end.

Definition pos_overlap (e f : event) : Prop :=
  Z.max (ts e) (ts f) < Z.min (eend e) (eend f).
Definition pos_overlapb (e f : event) : bool :=
  Z.max (ts e) (ts f) <? Z.min (eend e) (eend f).

(* e ∩ f as a slot, and as the event the property asks for (e's id and data) *)
Definition piece (e f : event) : timeslot :=
  mkSlot (Z.max (ts e) (ts f)) (Z.min (eend e) (eend f)).
Definition piece_event (e f : event) : event :=
  {| eid := eid e; ts := Z.max (ts e) (ts f);
     dur := Z.min (eend e) (eend f) - Z.max (ts e) (ts f); data := data e |}.

(* all positively overlapping pairs, row-major (events outer, filter events inner) *)
Definition cell (e f : event) : list eventpair :=
  if pos_overlapb e f then [(e, f, piece e f)] else [].
Definition row (e : event) (l2 : list event) : list eventpair := flat_map (cell e) l2.
Definition spec_pairs (l1 l2 : list event) : list eventpair := flat_map (fun e => row e l2) l1.

Definition cell_event (e f : event) : list event :=
  if pos_overlapb e f then [piece_event e f] else [].
Definition spec_events (l1 l2 : list event) : list event :=
  flat_map (fun e => flat_map (cell_event e) l2) l1.

Definition pos_pair (pr : eventpair) : bool := tstart (snd pr) <? tend (snd pr).
Definition pos_event (o : event) : bool := 0 <? dur o.

(* the list comprehension's body *)
Definition pair_event (pr : eventpair) : event :=
  let '(e1, _, ip) := pr in replace_event_period e1 ip.

(* ---------------------------------------------------------------------------------- *)
(* small facts                                                                         *)

Lemma nonoverlapping_chain : forall l, nonoverlapping l -> chain l.
Proof.
  induction l as [|a t IH]; intros H; [exact I|].
  cbn [nonoverlapping] in H. destruct H as (Hd & Hn & Ht). specialize (IH Ht).
  cbn [chain]. repeat split; [exact Hd| |exact IH].
  destruct t as [|b t']; [intros ? []|].
  cbn [chain] in IH. destruct IH as (Hdb & Hb & _).
  intros c [<-|Hc]; [exact Hn|]. specialize (Hb c Hc). unfold eend in *. lia.
Qed.

Lemma chain_nonoverlapping : forall l, chain l -> nonoverlapping l.
Proof.
  induction l as [|a t IH]; intros H; [exact I|].
  cbn [chain] in H. destruct H as (Hd & Hn & Ht). cbn [nonoverlapping].
  repeat split; [exact Hd| |apply IH; exact Ht].
  destruct t as [|b t']; [exact I|]. apply Hn. left. reflexivity.
Qed.

Lemma chain_tail : forall a t, chain (a :: t) -> chain t.
Proof. intros a t H. cbn [chain] in H. tauto. Qed.

Lemma chain_head_le : forall a t b, chain (a :: t) -> In b t -> eend a <= ts b /\ ts a <= ts b /\ 0 <= dur a.
Proof.
  intros a t b H Hb. cbn [chain] in H. destruct H as (Hd & Hn & _).
  specialize (Hn b Hb). unfold eend in *. lia.
Qed.

Lemma chain_ssorted : forall l, chain l -> ssorted ts l.
Proof.
  induction l as [|a t IH]; intros H; [exact I|]. cbn [ssorted]. split.
  - intros b Hb. apply (chain_head_le a t b H Hb).
  - apply IH. eapply chain_tail. exact H.
Qed.

Lemma sweep_nil_l : forall fuel l2, sweep fuel [] l2 = Ok [].
Proof. intros [|f] l2; reflexivity. Qed.

Lemma sweep_nil_r : forall fuel l1, sweep fuel l1 [] = Ok [].
Proof. intros [|f] [|e l1]; reflexivity. Qed.

Lemma spec_pairs_nil_r : forall l1, spec_pairs l1 [] = [].
Proof. induction l1 as [|e t IH]; [reflexivity|]. unfold spec_pairs in *. cbn [flat_map row app]. exact IH. Qed.

(* one iteration of the loop, with the "Should be unreachable" branch eliminated *)
Lemma sweep_step : forall f e1 r1 e2 r2 out,
  sweep (S f) (e1 :: r1) (e2 :: r2) = Ok out ->
  (exists ip rest, slot_intersection (get_event_period e1) (get_event_period e2) = Some ip /\
      eend e1 <= eend e2 /\ sweep f r1 (e2 :: r2) = Ok rest /\ out = (e1, e2, ip) :: rest) \/
  (exists ip rest, slot_intersection (get_event_period e1) (get_event_period e2) = Some ip /\
      eend e2 < eend e1 /\ sweep f (e1 :: r1) r2 = Ok rest /\ out = (e1, e2, ip) :: rest) \/
  (slot_intersection (get_event_period e1) (get_event_period e2) = None /\
      eend e1 <= ts e2 /\ sweep f r1 (e2 :: r2) = Ok out) \/
  (slot_intersection (get_event_period e1) (get_event_period e2) = None /\
      ts e2 < eend e1 /\ eend e2 <= ts e1 /\ sweep f (e1 :: r1) r2 = Ok out).
Proof.
  intros f e1 r1 e2 r2 out H. cbn [sweep] in H.
  destruct (slot_intersection (get_event_period e1) (get_event_period e2)) as [ip|] eqn:Ei.
  - cbn [get_event_period tend] in H. fold (eend e1) in H. fold (eend e2) in H.
    destruct (eend e1 <=? eend e2) eqn:E.
    + left. destruct (sweep f r1 (e2 :: r2)) as [rest| |] eqn:Er; cbn [bind] in H; try discriminate.
      exists ip, rest. repeat split; try congruence; lia.
    + right; left. destruct (sweep f (e1 :: r1) r2) as [rest| |] eqn:Er; cbn [bind] in H; try discriminate.
      exists ip, rest. repeat split; try congruence; lia.
  - pose proof (intersection_none _ _ Ei) as Hn.
    cbn [get_event_period tstart tend] in H, Hn. fold (eend e1) in H, Hn. fold (eend e2) in H, Hn.
    destruct (eend e1 <=? ts e2) eqn:E1.
    + right; right; left. repeat split; try assumption; lia.
    + destruct (eend e2 <=? ts e1) eqn:E2.
      * right; right; right. repeat split; try assumption; lia.
      * exfalso. lia.
Qed.

(* ---------------------------------------------------------------------------------- *)
(* fuel: length l1 + length l2 iterations always suffice, for all inputs               *)

Lemma sweep_fuel : forall fuel l1 l2,
  (length l1 + length l2 <= fuel)%nat -> exists out, sweep fuel l1 l2 = Ok out.
Proof.
  induction fuel as [|f IH]; intros l1 l2 Hlen.
  - destruct l1 as [|e1 r1]; [eexists; reflexivity|].
    destruct l2 as [|e2 r2]; [eexists; reflexivity|]. cbn [length] in Hlen. lia.
  - destruct l1 as [|e1 r1]; [eexists; reflexivity|].
    destruct l2 as [|e2 r2]; [eexists; reflexivity|].
    cbn [length] in Hlen. cbn [sweep].
    destruct (IH r1 (e2 :: r2)) as [o1 H1]; [cbn [length]; lia|].
    destruct (IH (e1 :: r1) r2) as [o2 H2]; [cbn [length]; lia|].
    destruct (IH r1 r2) as [o3 H3]; [lia|].
    rewrite H1, H2, H3.
    destruct (slot_intersection _ _);
      repeat match goal with |- context [if ?b then _ else _] => destruct b end;
      cbn [bind]; eexists; reflexivity.
Qed.

(* the loop never takes the unreachable branch and never runs out of fuel: the branch
   trace contains neither code 5 nor code 9 *)
Lemma sweep_branches_live : forall fuel l1 l2,
  (length l1 + length l2 <= fuel)%nat ->
  Forall (fun c => c = 1 \/ c = 2 \/ c = 3 \/ c = 4) (sweep_branches fuel l1 l2).
Proof.
  induction fuel as [|f IH]; intros l1 l2 Hlen.
  - destruct l1 as [|e1 r1]; [constructor|].
    destruct l2 as [|e2 r2]; [constructor|]. cbn [length] in Hlen. lia.
  - destruct l1 as [|e1 r1]; [constructor|].
    destruct l2 as [|e2 r2]; [constructor|].
    cbn [length] in Hlen. cbn [sweep_branches].
    assert (H1 := IH r1 (e2 :: r2)). assert (H2 := IH (e1 :: r1) r2).
    cbn [length] in H1, H2.
    destruct (slot_intersection (get_event_period e1) (get_event_period e2)) eqn:Ei.
    + destruct (_ <=? _); constructor; try tauto; [apply H1|apply H2]; lia.
    + pose proof (intersection_none _ _ Ei) as Hn.
      destruct (tend (get_event_period e1) <=? tstart (get_event_period e2)) eqn:E1;
        [constructor; [tauto|apply H1; lia]|].
      destruct (tend (get_event_period e2) <=? tstart (get_event_period e1)) eqn:E2;
        [constructor; [tauto|apply H2; lia]|].
      exfalso. lia.
Qed.

(* ---------------------------------------------------------------------------------- *)
(* soundness of every yield, for all inputs                                            *)

Lemma sweep_sound : forall fuel l1 l2 out,
  sweep fuel l1 l2 = Ok out ->
  forall e f ip, In (e, f, ip) out ->
    In e l1 /\ In f l2 /\
    slot_intersection (get_event_period e) (get_event_period f) = Some ip.
Proof.
  induction fuel as [|fu IH]; intros l1 l2 out H e f ip Hin.
  - destruct l1 as [|e1 r1]; [cbn in H; inversion H; subst; destruct Hin|].
    destruct l2 as [|e2 r2]; cbn in H; [inversion H; subst; destruct Hin|discriminate].
  - destruct l1 as [|e1 r1]; [cbn in H; inversion H; subst; destruct Hin|].
    destruct l2 as [|e2 r2]; [cbn in H; inversion H; subst; destruct Hin|].
    apply sweep_step in H.
    destruct H as [(ip0 & rest & Hi & Hle & Hr & ->)|[(ip0 & rest & Hi & Hle & Hr & ->)|[(Hi & Hle & Hr)|(Hi & Hlt & Hle & Hr)]]].
    + destruct Hin as [Heq|Hin].
      * inversion Heq; subst. repeat split; try (left; reflexivity). exact Hi.
      * destruct (IH _ _ _ Hr _ _ _ Hin) as (Ha & Hb & Hc). repeat split; [right; exact Ha|exact Hb|exact Hc].
    + destruct Hin as [Heq|Hin].
      * inversion Heq; subst. repeat split; try (left; reflexivity). exact Hi.
      * destruct (IH _ _ _ Hr _ _ _ Hin) as (Ha & Hb & Hc). repeat split; [exact Ha|right; exact Hb|exact Hc].
    + destruct (IH _ _ _ Hr _ _ _ Hin) as (Ha & Hb & Hc). repeat split; [right; exact Ha|exact Hb|exact Hc].
    + destruct (IH _ _ _ Hr _ _ _ Hin) as (Ha & Hb & Hc). repeat split; [exact Ha|right; exact Hb|exact Hc].
Qed.

(* ---------------------------------------------------------------------------------- *)
(* exactness: the positive-length yields are, in order, exactly one per positively     *)
(* overlapping pair                                                                    *)

Lemma row_nil : forall e l2, (forall f, In f l2 -> pos_overlapb e f = false) -> row e l2 = [].
Proof.
  intros e l2. induction l2 as [|f t IH]; intros H; [reflexivity|].
  unfold row in *. cbn [flat_map]. unfold cell at 1. rewrite (H f (or_introl eq_refl)).
  cbn [app]. apply IH. intros g Hg. apply H. right. exact Hg.
Qed.

Lemma spec_drop_col : forall l1 f l2,
  (forall e, In e l1 -> pos_overlapb e f = false) ->
  spec_pairs l1 (f :: l2) = spec_pairs l1 l2.
Proof.
  intros l1 f l2. induction l1 as [|e t IH]; intros H; [reflexivity|].
  unfold spec_pairs in *. cbn [flat_map]. rewrite IH by (intros g Hg; apply H; right; exact Hg).
  f_equal. unfold row. cbn [flat_map]. unfold cell at 1. rewrite (H e (or_introl eq_refl)). reflexivity.
Qed.

Lemma cell_yield : forall e1 e2 ip,
  slot_intersection (get_event_period e1) (get_event_period e2) = Some ip ->
  (if pos_pair (e1, e2, ip) then [(e1, e2, ip)] else []) = cell e1 e2.
Proof.
  intros e1 e2 [s e] Hi. apply intersection_value in Hi.
  cbn [get_event_period tstart tend] in Hi. destruct Hi as [-> ->].
  unfold cell, pos_pair, pos_overlapb, piece, eend. cbn [snd tstart tend]. reflexivity.
Qed.

Lemma cell_none : forall e1 e2,
  slot_intersection (get_event_period e1) (get_event_period e2) = None ->
  pos_overlapb e1 e2 = false.
Proof.
  intros e1 e2 Hi. apply intersection_none in Hi.
  cbn [get_event_period tstart tend] in Hi. unfold pos_overlapb, eend. lia.
Qed.

Lemma filter_cons_app : forall {X} (p : X -> bool) x l,
  filter p (x :: l) = (if p x then [x] else []) ++ filter p l.
Proof. intros X p x l. cbn [filter]. destruct (p x); reflexivity. Qed.

Lemma sweep_exact : forall fuel l1 l2 out,
  chain l1 -> chain l2 -> sweep fuel l1 l2 = Ok out ->
  filter pos_pair out = spec_pairs l1 l2.
Proof.
  induction fuel as [|fu IH]; intros l1 l2 out C1 C2 H.
  - destruct l1 as [|e1 r1]; [cbn in H; inversion H; reflexivity|].
    destruct l2 as [|e2 r2]; cbn in H; [inversion H; subst|discriminate].
    rewrite spec_pairs_nil_r. reflexivity.
  - destruct l1 as [|e1 r1]; [cbn in H; inversion H; reflexivity|].
    destruct l2 as [|e2 r2]; [cbn in H; inversion H; subst; rewrite spec_pairs_nil_r; reflexivity|].
    apply sweep_step in H.
    assert (Hrow : spec_pairs (e1 :: r1) (e2 :: r2) = cell e1 e2 ++ row e1 r2 ++ spec_pairs r1 (e2 :: r2)).
    { unfold spec_pairs. cbn [flat_map]. unfold row at 1. cbn [flat_map]. rewrite <- app_assoc. reflexivity. }
    destruct H as [(ip & rest & Hi & Hle & Hr & ->)|[(ip & rest & Hi & Hle & Hr & ->)|[(Hi & Hle & Hr)|(Hi & Hlt & Hle & Hr)]]].
    + (* yield, advance events *)
      rewrite filter_cons_app, (cell_yield _ _ _ Hi), (IH _ _ _ (chain_tail _ _ C1) C2 Hr), Hrow.
      rewrite row_nil; [reflexivity|].
      intros f Hf. destruct (chain_head_le _ _ _ C2 Hf) as (H1 & H2 & H3).
      unfold pos_overlapb, eend in *. lia.
    + (* yield, advance filter events *)
      rewrite filter_cons_app, (cell_yield _ _ _ Hi), (IH _ _ _ C1 (chain_tail _ _ C2) Hr), Hrow.
      rewrite spec_drop_col; [unfold spec_pairs; cbn [flat_map]; reflexivity|].
      intros e He. destruct (chain_head_le _ _ _ C1 He) as (H1 & H2 & H3).
      unfold pos_overlapb, eend in *. lia.
    + (* no overlap, events[i] ends before filterevents[j] starts *)
      rewrite (IH _ _ _ (chain_tail _ _ C1) C2 Hr), Hrow.
      rewrite (row_nil e1 r2).
      * unfold cell. rewrite (cell_none _ _ Hi). reflexivity.
      * intros f Hf. destruct (chain_head_le _ _ _ C2 Hf) as (H1 & H2 & H3).
        unfold pos_overlapb, eend in *. lia.
    + (* no overlap, filterevents[j] ends before events[i] starts *)
      rewrite (IH _ _ _ C1 (chain_tail _ _ C2) Hr).
      symmetry. apply spec_drop_col.
      intros e [<-|He]; [apply cell_none; exact Hi|].
      destruct (chain_head_le _ _ _ C1 He) as (H1 & H2 & H3).
      unfold pos_overlapb, eend in *. lia.
Qed.

(* ---------------------------------------------------------------------------------- *)
(* the pieces, in output order, never overlap each other (so no time is counted twice) *)

Fixpoint slots_chain (l : list timeslot) : Prop :=
  match l with
  | [] => True
  | p :: t => tstart p <= tend p /\ (forall q, In q t -> tend p <= tstart q) /\ slots_chain t
  end.

Lemma sweep_pieces_chain : forall fuel l1 l2 out,
  chain l1 -> chain l2 -> sweep fuel l1 l2 = Ok out ->
  slots_chain (map snd out).
Proof.
  induction fuel as [|fu IH]; intros l1 l2 out C1 C2 H.
  - destruct l1 as [|e1 r1]; [cbn in H; inversion H; exact I|].
    destruct l2 as [|e2 r2]; cbn in H; [inversion H; exact I|discriminate].
  - destruct l1 as [|e1 r1]; [cbn in H; inversion H; exact I|].
    destruct l2 as [|e2 r2]; [cbn in H; inversion H; exact I|].
    apply sweep_step in H.
    assert (Hd1 : 0 <= dur e1) by (cbn [chain] in C1; tauto).
    assert (Hd2 : 0 <= dur e2) by (cbn [chain] in C2; tauto).
    destruct H as [(ip & rest & Hi & Hle & Hr & ->)|[(ip & rest & Hi & Hle & Hr & ->)|[(Hi & Hle & Hr)|(Hi & Hlt & Hle & Hr)]]].
    + cbn [map snd slots_chain]. repeat split.
      * eapply intersection_valid; [| |exact Hi]; cbn [get_event_period tstart tend]; lia.
      * intros q Hq. apply in_map_iff in Hq. destruct Hq as ([[e f] ip'] & <- & Hin). cbn [snd].
        destruct (sweep_sound _ _ _ _ Hr _ _ _ Hin) as (He & _ & Hi').
        apply intersection_value in Hi. apply intersection_value in Hi'.
        destruct (chain_head_le _ _ _ C1 He) as (H1 & H2 & H3).
        cbn [get_event_period tstart tend] in Hi, Hi'. unfold eend in *. lia.
      * exact (IH _ _ _ (chain_tail _ _ C1) C2 Hr).
    + cbn [map snd slots_chain]. repeat split.
      * eapply intersection_valid; [| |exact Hi]; cbn [get_event_period tstart tend]; lia.
      * intros q Hq. apply in_map_iff in Hq. destruct Hq as ([[e f] ip'] & <- & Hin). cbn [snd].
        destruct (sweep_sound _ _ _ _ Hr _ _ _ Hin) as (_ & Hf & Hi').
        apply intersection_value in Hi. apply intersection_value in Hi'.
        destruct (chain_head_le _ _ _ C2 Hf) as (H1 & H2 & H3).
        cbn [get_event_period tstart tend] in Hi, Hi'. unfold eend in *. lia.
      * exact (IH _ _ _ C1 (chain_tail _ _ C2) Hr).
    + exact (IH _ _ _ (chain_tail _ _ C1) C2 Hr).
    + exact (IH _ _ _ C1 (chain_tail _ _ C2) Hr).
Qed.

(* ---------------------------------------------------------------------------------- *)
(* filter_period_intersect                                                             *)

Lemma fpi_unfold : forall a b,
  filter_period_intersect a b =
  bind (sweep (length (sort_by ts a) + length (sort_by ts b)) (sort_by ts a) (sort_by ts b))
       (fun prs => Ok (map pair_event prs)).
Proof.
  intros a b. unfold filter_period_intersect, intersecting_eventpairs.
  rewrite !sort_by_idem. reflexivity.
Qed.

Lemma fpi_pairs : forall a b out,
  filter_period_intersect a b = Ok out ->
  exists prs, sweep (length (sort_by ts a) + length (sort_by ts b)) (sort_by ts a) (sort_by ts b) = Ok prs
              /\ out = map pair_event prs.
Proof.
  intros a b out H. rewrite fpi_unfold in H.
  destruct (sweep _ _ _) as [prs| |]; cbn [bind] in H; try discriminate.
  exists prs. split; [reflexivity|congruence].
Qed.

(* never raises, never out of fuel -- for all inputs *)
Lemma fpi_total : forall a b, exists out, filter_period_intersect a b = Ok out.
Proof.
  intros a b. rewrite fpi_unfold.
  destruct (sweep_fuel (length (sort_by ts a) + length (sort_by ts b)) (sort_by ts a) (sort_by ts b)) as [prs H];
    [lia|].
  rewrite H. cbn [bind]. eexists; reflexivity.
Qed.

Lemma aligned_max : forall e f, aligned e -> aligned f -> floor_ms (Z.max (ts e) (ts f)) = Z.max (ts e) (ts f).
Proof.
  intros e f He Hf. unfold aligned in *.
  destruct (Z.max_spec (ts e) (ts f)) as [[_ ->]|[_ ->]]; assumption.
Qed.

Lemma aligned_min : forall e f, aligned e -> aligned f -> floor_ms (Z.min (ts e) (ts f)) = Z.min (ts e) (ts f).
Proof.
  intros e f He Hf. unfold aligned in *.
  destruct (Z.min_spec (ts e) (ts f)) as [[_ ->]|[_ ->]]; assumption.
Qed.

(* every output event (zero-length ones included), for all inputs at ms granularity *)
Lemma fpi_sound : forall a b out o,
  Forall aligned a -> Forall aligned b ->
  filter_period_intersect a b = Ok out -> In o out ->
  exists e f, In e a /\ In f b /\
    eid o = eid e /\ data o = data e /\
    ts o = Z.max (ts e) (ts f) /\ eend o = Z.min (eend e) (eend f) /\
    ts e <= ts o /\ ts f <= ts o /\ eend o <= eend e /\ eend o <= eend f /\
    (0 <= dur e -> 0 <= dur f -> 0 <= dur o).
Proof.
  intros a b out o Ha Hb H Ho. apply fpi_pairs in H. destruct H as (prs & Hs & ->).
  apply in_map_iff in Ho. destruct Ho as ([[e f] ip] & <- & Hin).
  destruct (sweep_sound _ _ _ _ Hs _ _ _ Hin) as (He & Hf & Hi).
  apply sort_by_in in He. apply sort_by_in in Hf.
  rewrite Forall_forall in Ha, Hb.
  exists e, f. split; [exact He|]. split; [exact Hf|].
  pose proof (intersection_value _ _ _ Hi) as [Hs1 Hs2].
  assert (Hv : 0 <= dur e -> 0 <= dur f -> tstart ip <= tend ip).
  { intros H1 H2. eapply intersection_valid; [| |exact Hi]; cbn [get_event_period tstart tend]; lia. }
  cbn [get_event_period tstart tend] in Hs1, Hs2.
  unfold pair_event, replace_event_period, slot_duration, eend. cbn [eid ts dur data].
  rewrite Hs1, (aligned_max e f (Ha e He) (Hb f Hf)), Hs2. unfold eend in *.
  repeat split; lia.
Qed.

Lemma map_pair_event_spec : forall l1 l2,
  Forall aligned l1 -> Forall aligned l2 ->
  map pair_event (spec_pairs l1 l2) = spec_events l1 l2.
Proof.
  intros l1 l2 H1 H2. unfold spec_pairs, spec_events.
  induction H1 as [|e t He Ht IH]; [reflexivity|].
  cbn [flat_map]. rewrite map_app, IH. f_equal.
  clear IH Ht. unfold row. induction H2 as [|f u Hf Hu IH2]; [reflexivity|].
  cbn [flat_map]. rewrite map_app, IH2. f_equal.
  unfold cell, cell_event. destruct (pos_overlapb e f); [|reflexivity].
  cbn [map pair_event]. unfold replace_event_period, piece, piece_event, slot_duration.
  cbn [tstart tend]. rewrite (aligned_max e f He Hf). reflexivity.
Qed.

Lemma filter_map_pos : forall prs,
  filter pos_event (map pair_event prs) = map pair_event (filter pos_pair prs).
Proof.
  induction prs as [|[[e f] ip] t IH]; [reflexivity|].
  cbn [map filter]. rewrite IH.
  assert (E : pos_event (pair_event (e, f, ip)) = pos_pair (e, f, ip)).
  { unfold pos_event, pos_pair, pair_event, replace_event_period, slot_duration. cbn [dur snd].
    destruct (tstart ip <? tend ip) eqn:E1; lia. }
  rewrite E. destruct (pos_pair (e, f, ip)); reflexivity.
Qed.

(* exactness of filter_period_intersect on its domain *)
Lemma fpi_exact : forall a b out,
  nonoverlapping (sort_by ts a) -> nonoverlapping (sort_by ts b) ->
  Forall aligned a -> Forall aligned b ->
  filter_period_intersect a b = Ok out ->
  filter pos_event out = spec_events (sort_by ts a) (sort_by ts b).
Proof.
  intros a b out Na Nb Ha Hb H. apply fpi_pairs in H. destruct H as (prs & Hs & ->).
  rewrite filter_map_pos.
  rewrite (sweep_exact _ _ _ _ (nonoverlapping_chain _ Na) (nonoverlapping_chain _ Nb) Hs).
  apply map_pair_event_spec; apply sort_by_forall; assumption.
Qed.

Lemma in_spec_events : forall l1 l2 e f,
  In e l1 -> In f l2 -> pos_overlap e f -> In (piece_event e f) (spec_events l1 l2).
Proof.
  intros l1 l2 e f He Hf Hp. unfold spec_events.
  apply in_flat_map. exists e. split; [exact He|].
  apply in_flat_map. exists f. split; [exact Hf|].
  unfold cell_event, pos_overlapb. unfold pos_overlap in Hp.
  destruct (Z.max (ts e) (ts f) <? Z.min (eend e) (eend f)) eqn:E; [left; reflexivity|lia].
Qed.

Lemma fpi_complete : forall a b out e f,
  nonoverlapping (sort_by ts a) -> nonoverlapping (sort_by ts b) ->
  Forall aligned a -> Forall aligned b ->
  filter_period_intersect a b = Ok out ->
  In e a -> In f b -> pos_overlap e f ->
  In (piece_event e f) out.
Proof.
  intros a b out e f Na Nb Ha Hb H He Hf Hp.
  pose proof (fpi_exact _ _ _ Na Nb Ha Hb H) as Hx.
  assert (Hin : In (piece_event e f) (filter pos_event out)).
  { rewrite Hx. apply in_spec_events; [apply sort_by_in; exact He|apply sort_by_in; exact Hf|exact Hp]. }
  apply filter_In in Hin. tauto.
Qed.

(* the output pieces, in order, are non-overlapping (sorted, end_i <= start_{i+1}) *)
Lemma fpi_out_chain : forall a b out,
  nonoverlapping (sort_by ts a) -> nonoverlapping (sort_by ts b) ->
  Forall aligned a -> Forall aligned b ->
  filter_period_intersect a b = Ok out ->
  nonoverlapping out.
Proof.
  intros a b out Na Nb Ha Hb H. apply chain_nonoverlapping.
  apply fpi_pairs in H. destruct H as (prs & Hs & ->).
  pose proof (sweep_pieces_chain _ _ _ _ (nonoverlapping_chain _ Na) (nonoverlapping_chain _ Nb) Hs) as Hc.
  assert (Hal : forall pr, In pr prs -> floor_ms (tstart (snd pr)) = tstart (snd pr)).
  { intros [[e f] ip] Hin. cbn [snd].
    destruct (sweep_sound _ _ _ _ Hs _ _ _ Hin) as (He & Hf & Hi).
    apply intersection_value in Hi. destruct Hi as [-> _]. cbn [get_event_period tstart].
    rewrite Forall_forall in Ha, Hb.
    apply aligned_max; [apply Ha|apply Hb]; apply sort_by_in with (key := ts); assumption. }
  clear Hs. induction prs as [|[[e f] ip] t IH]; [exact I|].
  cbn [map snd slots_chain] in Hc. destruct Hc as (Hv & Hn & Ht).
  cbn [map chain]. repeat split.
  - unfold pair_event, replace_event_period, slot_duration. cbn [dur]. lia.
  - intros o Ho. apply in_map_iff in Ho. destruct Ho as ([[e' f'] ip'] & <- & Hin).
    specialize (Hn ip' (in_map snd _ _ Hin)).
    pose proof (Hal _ (or_introl eq_refl)) as A1. pose proof (Hal _ (or_intror Hin)) as A2.
    cbn [snd] in A1, A2.
    unfold pair_event, replace_event_period, slot_duration, eend. cbn [ts dur]. lia.
  - apply IH; [exact Ht|]. intros pr Hpr. apply Hal. right. exact Hpr.
Qed.
