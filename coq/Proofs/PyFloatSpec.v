(* Facts about Model/PyFloat.v proved through Flocq (IEEE754.PrimFloat links Coq's
   primitive floats to Flocq's binary_float; real-number reasoning from there).
   Axioms used: the primitive float / 63-bit integer specifications of the standard
   library (FloatAxioms, Uint63) and the standard library's real numbers
   (ClassicalDedekindReals, functional extensionality, classic) -- all declared by Coq's
   standard library / used by Flocq; none is declared here. *)
From Coq Require Import ZArith Reals Lia Lra Psatz Bool Floats.
From Flocq Require Import Core IEEE754.BinarySingleNaN IEEE754.PrimFloat.
From AwVerif Require Import Base.Prelude Model.PyFloat.
Open Scope Z_scope.

Local Instance Hprec53 : FLX.Prec_gt_0 prec := eq_refl _.
Local Instance Hmax1024 : Prec_lt_emax prec emax := eq_refl _.

Notation FR x := (B2R (Prim2B x)).
Notation fin x := (is_finite (Prim2B x) = true).
Notation RN := (round radix2 (SpecFloat.fexp prec emax) ZnearestE).
Notation fmt := (generic_format radix2 (SpecFloat.fexp prec emax)).

Lemma fexp_FLT : forall e, SpecFloat.fexp prec emax e = FLT_exp (-1074) 53 e.
Proof. reflexivity. Qed.

(* ------------------------------------------------------------------------- *)
(* formats *)

Lemma fmt_FLT : forall x, FLT_format radix2 (-1074) 53 x -> fmt x.
Proof. intros x H. apply (generic_format_FLT radix2 (-1074) 53 x H). Qed.

Lemma FLT_fmt : forall x, fmt x -> FLT_format radix2 (-1074) 53 x.
Proof. intros x H. apply (FLT_format_generic radix2 (-1074) 53 x H). Qed.

Lemma fmt_IZR : forall z, Z.abs z < 2 ^ 53 -> fmt (IZR z).
Proof.
  intros z Hz. apply fmt_FLT. apply (FLT_spec _ _ _ _ (Float radix2 z 0)).
  - unfold F2R. simpl. lra.
  - simpl. exact Hz.
  - simpl. lia.
Qed.

Lemma fmt_FR : forall x, fmt (FR x).
Proof. intros x. apply generic_format_B2R. Qed.

Lemma bpow_emax_big : forall x : R, (Rabs x < bpow radix2 64)%R -> (Rabs x < bpow radix2 emax)%R.
Proof.
  intros x H. eapply Rlt_le_trans; [exact H|]. apply bpow_le. unfold emax. lia.
Qed.

Lemma RN_IZR : forall z, Z.abs z < 2 ^ 53 -> RN (IZR z) = IZR z.
Proof. intros z H. apply round_generic; [apply valid_rnd_N | now apply fmt_IZR]. Qed.

Lemma Rabs_IZR_lt : forall z n, Z.abs z < n -> (Rabs (IZR z) < IZR n)%R.
Proof. intros z n H. rewrite <- abs_IZR. now apply IZR_lt. Qed.

(* ------------------------------------------------------------------------- *)
(* of_Z *)

Lemma of_uint63_spec : forall z, 0 <= z < 2 ^ 53 ->
  fin (of_uint63 (Uint63.of_Z z)) /\ FR (of_uint63 (Uint63.of_Z z)) = IZR z.
Proof.
  intros z Hz.
  pose proof (of_int63_equiv (Uint63.of_Z z)) as E.
  rewrite Uint63.of_Z_spec in E.
  rewrite Z.mod_small in E by (change Uint63.wB with (2 ^ 63); lia).
  rewrite E.
  pose proof (binary_normalize_correct prec emax Hprec Hmax mode_NE z 0 false) as C.
  cbv zeta in C.
  assert (F : F2R (Float radix2 z 0) = IZR z) by (unfold F2R; simpl; lra).
  rewrite F in C. simpl round_mode in C.
  rewrite RN_IZR in C by lia.
  rewrite Rlt_bool_true in C.
  - destruct C as (C1 & C2 & _). split; assumption.
  - apply bpow_emax_big. eapply Rlt_trans; [apply Rabs_IZR_lt with (n := 2 ^ 53); lia|].
    change (IZR (2 ^ 53)) with (IZR (Zpower radix2 53)). rewrite IZR_Zpower by lia.
    apply bpow_lt. lia.
Qed.

Lemma of_Z_spec : forall z, Z.abs z < 2 ^ 53 -> fin (of_Z z) /\ FR (of_Z z) = IZR z.
Proof.
  intros z Hz. unfold of_Z. destruct (Z.ltb_spec z 0) as [Hn|Hp].
  - destruct (of_uint63_spec (- z)) as [F V]; [lia|].
    rewrite opp_equiv, is_finite_Bopp, B2R_Bopp, V, opp_IZR. split; [exact F | lra].
  - apply of_uint63_spec. lia.
Qed.

Lemma of_Z_fin : forall z, Z.abs z < 2 ^ 53 -> fin (of_Z z).
Proof. intros z H. apply (of_Z_spec z H). Qed.
Lemma of_Z_val : forall z, Z.abs z < 2 ^ 53 -> FR (of_Z z) = IZR z.
Proof. intros z H. apply (of_Z_spec z H). Qed.

Lemma f1e6_val : FR f1e6 = 1000000%R. Proof. unfold f1e6. rewrite of_Z_val by (cbn; lia). reflexivity. Qed.
Lemma f1e6_fin : fin f1e6. Proof. apply of_Z_fin. cbn; lia. Qed.
Lemma ftwo_val : FR ftwo = 2%R. Proof. unfold ftwo. rewrite of_Z_val by (cbn; lia). reflexivity. Qed.
Lemma ftwo_fin : fin ftwo. Proof. apply of_Z_fin. cbn; lia. Qed.

(* ------------------------------------------------------------------------- *)
(* arithmetic and comparisons on finite values *)

Lemma no_ovf : forall x : R, (Rabs x < bpow radix2 64)%R -> Rlt_bool (Rabs x) (bpow radix2 emax) = true.
Proof. intros x H. apply Rlt_bool_true. now apply bpow_emax_big. Qed.

Lemma fsub_spec : forall x y, fin x -> fin y ->
  (Rabs (RN (FR x - FR y)) < bpow radix2 64)%R ->
  fin (x - y)%float /\ FR (x - y)%float = RN (FR x - FR y).
Proof.
  intros x y Fx Fy B. rewrite sub_equiv.
  pose proof (Bminus_correct prec emax Hprec Hmax mode_NE (Prim2B x) (Prim2B y) Fx Fy) as C.
  simpl round_mode in C. rewrite (no_ovf _ B) in C. destruct C as (C1 & C2 & _). now split.
Qed.

Lemma fadd_spec : forall x y, fin x -> fin y ->
  (Rabs (RN (FR x + FR y)) < bpow radix2 64)%R ->
  fin (x + y)%float /\ FR (x + y)%float = RN (FR x + FR y).
Proof.
  intros x y Fx Fy B. rewrite add_equiv.
  pose proof (Bplus_correct prec emax Hprec Hmax mode_NE (Prim2B x) (Prim2B y) Fx Fy) as C.
  simpl round_mode in C. rewrite (no_ovf _ B) in C. destruct C as (C1 & C2 & _). now split.
Qed.

Lemma fmul_spec : forall x y, fin x -> fin y ->
  (Rabs (RN (FR x * FR y)) < bpow radix2 64)%R ->
  fin (x * y)%float /\ FR (x * y)%float = RN (FR x * FR y).
Proof.
  intros x y Fx Fy B. rewrite mul_equiv.
  pose proof (Bmult_correct prec emax Hprec Hmax mode_NE (Prim2B x) (Prim2B y)) as C.
  simpl round_mode in C. rewrite (no_ovf _ B) in C. destruct C as (C1 & C2 & _).
  rewrite Fx, Fy in C2. now split.
Qed.

Lemma fdiv_spec : forall x y, fin x -> fin y -> FR y <> 0%R ->
  (Rabs (RN (FR x / FR y)) < bpow radix2 64)%R ->
  fin (x / y)%float /\ FR (x / y)%float = RN (FR x / FR y).
Proof.
  intros x y Fx Fy Ny B. rewrite div_equiv.
  pose proof (Bdiv_correct prec emax Hprec Hmax mode_NE (Prim2B x) (Prim2B y) Ny) as C.
  simpl round_mode in C. rewrite (no_ovf _ B) in C. destruct C as (C1 & C2 & _).
  rewrite Fx in C2. now split.
Qed.

Lemma fabs_spec : forall x, fin x -> fin (abs x) /\ FR (abs x) = Rabs (FR x).
Proof.
  intros x Fx. rewrite abs_equiv, is_finite_Babs, B2R_Babs. now split.
Qed.

Lemma fopp_spec : forall x, fin x -> fin (- x)%float /\ FR (- x)%float = (- FR x)%R.
Proof. intros x Fx. rewrite opp_equiv, is_finite_Bopp, B2R_Bopp. now split. Qed.

Lemma fleb_spec : forall x y, fin x -> fin y -> (x <=? y)%float = Rle_bool (FR x) (FR y).
Proof. intros x y Fx Fy. rewrite leb_equiv. now apply Bleb_correct. Qed.
Lemma fltb_spec : forall x y, fin x -> fin y -> (x <? y)%float = Rlt_bool (FR x) (FR y).
Proof. intros x y Fx Fy. rewrite ltb_equiv. now apply Bltb_correct. Qed.
Lemma feqb_spec : forall x y, fin x -> fin y -> (x =? y)%float = Req_bool (FR x) (FR y).
Proof. intros x y Fx Fy. rewrite eqb_equiv. now apply Beqb_correct. Qed.

Lemma zero_fin : fin zero. Proof. reflexivity. Qed.
Lemma zero_val : FR zero = 0%R. Proof. reflexivity. Qed.
Lemma fhalf_fin : fin fhalf. Proof. reflexivity. Qed.
Lemma fhalf_val : FR fhalf = (/ 2)%R.
Proof. unfold fhalf. cbv [Prim2B]. rewrite B2R_SF2B. vm_compute Prim2SF. unfold SF2R, F2R. simpl. lra. Qed.

(* ------------------------------------------------------------------------- *)
(* int_of_float is truncation of the real value *)

Lemma int_of_float_spec : forall f, fin f -> int_of_float f = Ok (Ztrunc (FR f)).
Proof.
  intros f Ff. unfold int_of_float. rewrite <- B2SF_Prim2B.
  destruct (Prim2B f) as [s|s| |s m e H]; try discriminate; simpl B2SF; cbv iota.
  - simpl. now rewrite Ztrunc_IZR.
  - f_equal. simpl B2R.
    assert (K : Ztrunc (F2R (Float radix2 (Zpos m) e)) =
                if 0 <=? e then Z.shiftl (Zpos m) e else Z.shiftr (Zpos m) (- e)).
    { destruct (Z.leb_spec 0 e) as [He|He].
      - rewrite Z.shiftl_mul_pow2 by lia. unfold F2R. simpl Fnum. simpl Fexp.
        rewrite <- IZR_Zpower by lia. rewrite <- mult_IZR. apply Ztrunc_IZR.
      - rewrite Z.shiftr_div_pow2 by lia. unfold F2R. simpl Fnum. simpl Fexp.
        rewrite Ztrunc_floor.
        + replace e with (- (- e)) at 1 by lia. rewrite bpow_opp. rewrite <- IZR_Zpower by lia.
          change (Zpower radix2 (- e)) with (2 ^ (- e)).
          apply Zfloor_div. apply Z.pow_nonzero; lia.
        + apply Rmult_le_pos; [apply IZR_le; lia | apply bpow_ge_0]. }
    destruct s; simpl cond_Zopp.
    + change (Zneg m) with (- Zpos m). rewrite F2R_Zopp, Ztrunc_opp, K. reflexivity.
    + symmetry; exact K.
Qed.

Lemma Ztrunc_bounds : forall x : R, (Rabs (IZR (Ztrunc x)) <= Rabs x)%R /\ (Rabs (x - IZR (Ztrunc x)) < 1)%R
   /\ (0 <= x -> 0 <= x - IZR (Ztrunc x))%R /\ (x <= 0 -> x - IZR (Ztrunc x) <= 0)%R
   /\ (Rabs (x - IZR (Ztrunc x)) <= Rabs x)%R.
Proof.
  intros x. destruct (Rle_dec 0 x) as [H|H].
  - rewrite Ztrunc_floor by exact H.
    pose proof (Zfloor_lb x) as L. pose proof (Zfloor_ub x) as U.
    assert (P : (0 <= IZR (Zfloor x))%R) by (apply IZR_le, Zfloor_lub; simpl; exact H).
    split; [|split; [|split; [|split]]].
    + rewrite !Rabs_pos_eq by lra. lra.
    + rewrite Rabs_pos_eq by lra. lra.
    + intros _. lra.
    + intros Hx. lra.
    + rewrite !Rabs_pos_eq by lra. lra.
  - rewrite Ztrunc_ceil by lra.
    pose proof (Zceil_lb x) as L. pose proof (Zceil_ub x) as U.
    assert (P : (IZR (Zceil x) <= 0)%R) by (apply IZR_le, Zceil_glb; simpl; lra).
    split; [|split; [|split; [|split]]].
    + rewrite !Rabs_left1 by lra. lra.
    + rewrite Rabs_left1 by lra. lra.
    + intros Hx. lra.
    + intros _. lra.
    + rewrite !Rabs_left1 by lra. lra.
Qed.

(* the fractional part of a representable number is representable: modf is exact *)
Lemma fmt_sub_trunc : forall x : R, fmt x -> fmt (x - IZR (Ztrunc x)).
Proof.
  intros x Hx. destruct (FLT_fmt x Hx) as [[M E] Ex HM HE]. simpl in HM, HE.
  destruct (Z_le_gt_dec 0 E) as [He|He].
  - assert (I : x = IZR (M * 2 ^ E)).
    { rewrite Ex. unfold F2R. simpl Fnum. simpl Fexp. rewrite mult_IZR.
      change (2 ^ E) with (Zpower radix2 E). now rewrite IZR_Zpower by lia. }
    rewrite I, Ztrunc_IZR, Rminus_diag_eq by reflexivity. apply generic_format_0.
  - set (k := Ztrunc x).
    assert (P : (bpow radix2 (- E) * bpow radix2 E = 1)%R).
    { rewrite <- bpow_plus. replace (- E + E) with 0 by lia. reflexivity. }
    assert (D : (x - IZR k)%R = F2R (Float radix2 (M - k * 2 ^ (- E)) E)).
    { unfold F2R. simpl Fnum. simpl Fexp. rewrite minus_IZR, mult_IZR.
      change (2 ^ (- E)) with (Zpower radix2 (- E)). rewrite IZR_Zpower by lia.
      rewrite Ex. unfold F2R. simpl Fnum. simpl Fexp.
      rewrite Rmult_minus_distr_r, Rmult_assoc, P. ring. }
    apply fmt_FLT. apply (FLT_spec _ _ _ _ _ D); simpl; [|lia].
    apply lt_IZR. rewrite abs_IZR.
    eapply Rle_lt_trans; [|apply IZR_lt; exact HM]. rewrite abs_IZR.
    apply Rmult_le_reg_r with (bpow radix2 E); [apply bpow_gt_0|].
    rewrite <- (Rabs_pos_eq (bpow radix2 E)) by apply bpow_ge_0.
    rewrite <- !Rabs_mult.
    change (IZR (M - k * 2 ^ (- E)) * bpow radix2 E)%R with (F2R (Float radix2 (M - k * 2 ^ (- E)) E)).
    rewrite <- D.
    change (IZR M * bpow radix2 E)%R with (F2R (Float radix2 M E)). rewrite <- Ex.
    apply (Ztrunc_bounds x).
Qed.

(* modf on a finite value of magnitude below 2^53 *)
Lemma modf_spec : forall f, fin f -> (Rabs (FR f) < IZR (2 ^ 53))%R ->
  exists fp, modf f = Ok (Ztrunc (FR f), fp) /\ fin fp /\ FR fp = (FR f - IZR (Ztrunc (FR f)))%R.
Proof.
  intros f Ff B. unfold modf. rewrite (int_of_float_spec f Ff). cbn [bind].
  set (ip := Ztrunc (FR f)).
  assert (Hip : Z.abs ip < 2 ^ 53).
  { apply lt_IZR. rewrite abs_IZR. eapply Rle_lt_trans; [apply (Ztrunc_bounds (FR f))|exact B]. }
  assert (T : (Z.abs ip <? two53) = true) by (apply Z.ltb_lt; exact Hip).
  rewrite T. eexists. split; [reflexivity|].
  destruct (of_Z_spec ip Hip) as [Fi Vi].
  assert (G : RN (FR f - FR (of_Z ip)) = (FR f - IZR ip)%R).
  { rewrite Vi. apply round_generic; [apply valid_rnd_N|]. apply fmt_sub_trunc, fmt_FR. }
  destruct (fsub_spec f (of_Z ip) Ff Fi) as [F1 V1].
  - rewrite G. eapply Rlt_trans; [apply (Ztrunc_bounds (FR f))|].
    apply (bpow_lt radix2 0 64). lia.
  - split; [exact F1|]. now rewrite V1, G.
Qed.

(* ------------------------------------------------------------------------- *)
(* rounding to the nearest integer when the value is not near a tie *)

Lemma near_int_cases : forall (t : R) (k : Z), (Rabs t < 1)%R -> (Rabs (t - IZR k) <= 63 / 128)%R ->
  ((/ 2 <= t)%R -> k = 1) /\ ((t <= - / 2)%R -> k = -1) /\ ((- / 2 < t < / 2)%R -> k = 0).
Proof.
  intros t k Ht Hk. apply Rabs_lt_inv in Ht. apply Rabs_le_inv in Hk.
  split; [|split]; intros H.
  - assert (0 < k < 2) by (split; apply lt_IZR; simpl; lra). lia.
  - assert (-2 < k < 0) by (split; apply lt_IZR; simpl; lra). lia.
  - assert (-1 < k < 1) by (split; apply lt_IZR; simpl; lra). lia.
Qed.

Lemma c_round_near : forall x j, fin x -> Z.abs j < 2 ^ 52 ->
  (Rabs (FR x - IZR j) <= 63 / 128)%R -> c_round x = of_Z j.
Proof.
  intros x j Fx Hj Hn. unfold c_round. rewrite (int_of_float_spec x Fx).
  set (X := FR x) in *. set (ip := Ztrunc X).
  destruct (Ztrunc_bounds X) as (B1 & B2 & _ & _ & _). fold ip in B1, B2.
  assert (Hip : Z.abs ip <= Z.abs j).
  { assert (Z.abs ip < Z.abs j + 1); [|lia]. apply lt_IZR. rewrite plus_IZR, !abs_IZR.
    apply Rabs_le_inv in Hn. simpl.
    assert (Rabs X <= Rabs (IZR j) + 63 / 128)%R.
    { replace X with ((X - IZR j) + IZR j)%R by ring. eapply Rle_trans; [apply Rabs_triang|].
      assert (Rabs (X - IZR j) <= 63 / 128)%R by (apply Rabs_le; lra). lra. }
    lra. }
  assert (T : (two52 <=? Z.abs ip) = false) by (apply Z.leb_gt; unfold two52; lia).
  rewrite T.
  assert (Hip53 : Z.abs ip < 2 ^ 53) by lia.
  destruct (of_Z_spec ip Hip53) as [Fi Vi].
  assert (G : RN (X - FR (of_Z ip)) = (X - IZR ip)%R).
  { rewrite Vi. apply round_generic; [apply valid_rnd_N|]. apply fmt_sub_trunc, fmt_FR. }
  destruct (fsub_spec x (of_Z ip) Fx Fi) as [Fd Vd].
  { fold X. rewrite G. eapply Rlt_trans; [exact B2|]. apply (bpow_lt radix2 0 64). lia. }
  fold X in Vd. rewrite G in Vd.
  assert (Hk : (Rabs ((X - IZR ip) - IZR (j - ip)) <= 63 / 128)%R).
  { rewrite minus_IZR. replace (X - IZR ip - (IZR j - IZR ip))%R with (X - IZR j)%R by ring. exact Hn. }
  destruct (near_int_cases _ _ B2 Hk) as (C1 & C2 & C3).
  rewrite (fleb_spec _ _ fhalf_fin Fd), fhalf_val, Vd.
  destruct (Rle_bool_spec (/ 2) (X - IZR ip)) as [H|H].
  - f_equal. specialize (C1 H). lia.
  - destruct (fopp_spec fhalf fhalf_fin) as [Fo Vo]. rewrite fhalf_val in Vo.
    rewrite (fleb_spec _ _ Fd Fo), Vo, Vd.
    destruct (Rle_bool_spec (X - IZR ip) (- / 2)) as [H'|H'].
    + f_equal. specialize (C2 H'). lia.
    + f_equal. assert (j - ip = 0) by (apply C3; lra). lia.
Qed.

(* 63/128 is representable, so a difference bounded by it stays bounded after rounding *)
Lemma fmt_63_128 : fmt (63 / 128)%R.
Proof.
  apply fmt_FLT. apply (FLT_spec _ _ _ _ (Float radix2 63 (-7))); simpl; try lia.
  unfold F2R. simpl. lra.
Qed.

Lemma round_half_even_near : forall x j, fin x -> Z.abs j < 2 ^ 52 ->
  (Rabs (FR x - IZR j) <= 63 / 128)%R -> round_half_even x = of_Z j.
Proof.
  intros x j Fx Hj Hn. unfold round_half_even. rewrite (c_round_near x j Fx Hj Hn).
  destruct (of_Z_spec j ltac:(lia)) as [Fj Vj].
  assert (B : (Rabs (RN (FR x - FR (of_Z j))) <= 63 / 128)%R).
  { rewrite Vj. apply abs_round_le_generic; [apply FLT_exp_valid; reflexivity | apply valid_rnd_N | apply fmt_63_128 | exact Hn]. }
  destruct (fsub_spec x (of_Z j) Fx Fj) as [Fd Vd].
  { eapply Rle_lt_trans; [exact B|]. eapply Rlt_trans; [|apply (bpow_lt radix2 0 64); lia]. simpl. lra. }
  destruct (fabs_spec _ Fd) as [Fa Va].
  rewrite (feqb_spec _ _ Fa fhalf_fin), Va, Vd, fhalf_val.
  rewrite Req_bool_false; [reflexivity|]. lra.
Qed.
