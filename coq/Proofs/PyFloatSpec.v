(* Facts about Model/PyFloat.v proved through Flocq (IEEE754.PrimFloat links Coq's
   primitive floats to Flocq's binary_float; real-number reasoning from there).
   Axioms used: the primitive float / 63-bit integer specifications of the standard
   library (FloatAxioms, Uint63) and the standard library's real numbers
   (ClassicalDedekindReals, functional extensionality, classic) -- all declared by Coq's
   standard library / used by Flocq; none is declared here. *)
From Coq Require Import ZArith Reals Lia Lra Psatz Bool Floats.
From Flocq Require Import Core IEEE754.BinarySingleNaN IEEE754.PrimFloat.
From AwVerif Require Import Base.Prelude Model.PyFloat.
Open Scope Z_scope.

Local Instance Hprec53 : FLX.Prec_gt_0 prec := eq_refl _.
Local Instance Hmax1024 : Prec_lt_emax prec emax := eq_refl _.

Notation FR x := (B2R (Prim2B x)).
Notation fin x := (is_finite (Prim2B x) = true).
Notation RN := (round radix2 (SpecFloat.fexp prec emax) ZnearestE).
Notation fmt := (generic_format radix2 (SpecFloat.fexp prec emax)).

Lemma fexp_FLT : forall e, SpecFloat.fexp prec emax e = FLT_exp (-1074) 53 e.
Proof. reflexivity. Qed.

(* ------------------------------------------------------------------------- *)
(* formats *)

Lemma fmt_FLT : forall x, FLT_format radix2 (-1074) 53 x -> fmt x.
Proof. intros x H. apply (generic_format_FLT radix2 (-1074) 53 x H). Qed.

Lemma FLT_fmt : forall x, fmt x -> FLT_format radix2 (-1074) 53 x.
Proof. intros x H. apply (FLT_format_generic radix2 (-1074) 53 x H). Qed.

Lemma fmt_IZR : forall z, Z.abs z < 2 ^ 53 -> fmt (IZR z).
Proof.
  intros z Hz. apply fmt_FLT. apply (FLT_spec _ _ _ _ (Float radix2 z 0)).
  - unfold F2R. simpl. lra.
  - simpl. exact Hz.
  - simpl. lia.
Qed.

Lemma fmt_FR : forall x, fmt (FR x).
Proof. intros x. apply generic_format_B2R. Qed.

Lemma bpow_emax_big : forall x : R, (Rabs x < bpow radix2 64)%R -> (Rabs x < bpow radix2 emax)%R.
Proof.
  intros x H. eapply Rlt_le_trans; [exact H|]. apply bpow_le. unfold emax. lia.
Qed.

Lemma RN_IZR : forall z, Z.abs z < 2 ^ 53 -> RN (IZR z) = IZR z.
Proof. intros z H. apply round_generic; [apply valid_rnd_N | now apply fmt_IZR]. Qed.

Lemma Rabs_IZR_lt : forall z n, Z.abs z < n -> (Rabs (IZR z) < IZR n)%R.
Proof. intros z n H. rewrite <- abs_IZR. now apply IZR_lt. Qed.

(* ------------------------------------------------------------------------- *)
(* of_Z *)

Lemma of_uint63_spec : forall z, 0 <= z < 2 ^ 53 ->
  fin (of_uint63 (Uint63.of_Z z)) /\ FR (of_uint63 (Uint63.of_Z z)) = IZR z.
Proof.
  intros z Hz.
  pose proof (of_int63_equiv (Uint63.of_Z z)) as E.
  rewrite Uint63.of_Z_spec in E.
  rewrite Z.mod_small in E by (change Uint63.wB with (2 ^ 63); lia).
  rewrite E.
  pose proof (binary_normalize_correct prec emax Hprec Hmax mode_NE z 0 false) as C.
  cbv zeta in C.
  assert (F : F2R (Float radix2 z 0) = IZR z) by (unfold F2R; simpl; lra).
  rewrite F in C. simpl round_mode in C.
  rewrite RN_IZR in C by lia.
  rewrite Rlt_bool_true in C.
  - destruct C as (C1 & C2 & _). split; assumption.
  - apply bpow_emax_big. eapply Rlt_trans; [apply Rabs_IZR_lt with (n := 2 ^ 53); lia|].
    change (IZR (2 ^ 53)) with (IZR (Zpower radix2 53)). rewrite IZR_Zpower by lia.
    apply bpow_lt. lia.
Qed.

Lemma of_Z_spec : forall z, Z.abs z < 2 ^ 53 -> fin (of_Z z) /\ FR (of_Z z) = IZR z.
Proof.
  intros z Hz. unfold of_Z. destruct (Z.ltb_spec z 0) as [Hn|Hp].
  - destruct (of_uint63_spec (- z)) as [F V]; [lia|].
    rewrite opp_equiv, is_finite_Bopp, B2R_Bopp, V, opp_IZR. split; [exact F | lra].
  - apply of_uint63_spec. lia.
Qed.

Lemma of_Z_fin : forall z, Z.abs z < 2 ^ 53 -> fin (of_Z z).
Proof. intros z H. apply (of_Z_spec z H). Qed.
Lemma of_Z_val : forall z, Z.abs z < 2 ^ 53 -> FR (of_Z z) = IZR z.
Proof. intros z H. apply (of_Z_spec z H). Qed.

Lemma f1e6_val : FR f1e6 = 1000000%R. Proof. unfold f1e6. rewrite of_Z_val by (cbn; lia). reflexivity. Qed.
Lemma f1e6_fin : fin f1e6. Proof. apply of_Z_fin. cbn; lia. Qed.
Lemma ftwo_val : FR ftwo = 2%R. Proof. unfold ftwo. rewrite of_Z_val by (cbn; lia). reflexivity. Qed.
Lemma ftwo_fin : fin ftwo. Proof. apply of_Z_fin. cbn; lia. Qed.

(* ------------------------------------------------------------------------- *)
(* arithmetic and comparisons on finite values *)

Lemma no_ovf : forall x : R, (Rabs x < bpow radix2 64)%R -> Rlt_bool (Rabs x) (bpow radix2 emax) = true.
Proof. intros x H. apply Rlt_bool_true. now apply bpow_emax_big. Qed.

Lemma fsub_spec : forall x y, fin x -> fin y ->
  (Rabs (RN (FR x - FR y)) < bpow radix2 64)%R ->
  fin (x - y)%float /\ FR (x - y)%float = RN (FR x - FR y).
Proof.
  intros x y Fx Fy B. rewrite sub_equiv.
  pose proof (Bminus_correct prec emax Hprec Hmax mode_NE (Prim2B x) (Prim2B y) Fx Fy) as C.
  simpl round_mode in C. rewrite (no_ovf _ B) in C. destruct C as (C1 & C2 & _). now split.
Qed.

Lemma fadd_spec : forall x y, fin x -> fin y ->
  (Rabs (RN (FR x + FR y)) < bpow radix2 64)%R ->
  fin (x + y)%float /\ FR (x + y)%float = RN (FR x + FR y).
Proof.
  intros x y Fx Fy B. rewrite add_equiv.
  pose proof (Bplus_correct prec emax Hprec Hmax mode_NE (Prim2B x) (Prim2B y) Fx Fy) as C.
  simpl round_mode in C. rewrite (no_ovf _ B) in C. destruct C as (C1 & C2 & _). now split.
Qed.

Lemma fmul_spec : forall x y, fin x -> fin y ->
  (Rabs (RN (FR x * FR y)) < bpow radix2 64)%R ->
  fin (x * y)%float /\ FR (x * y)%float = RN (FR x * FR y).
Proof.
  intros x y Fx Fy B. rewrite mul_equiv.
  pose proof (Bmult_correct prec emax Hprec Hmax mode_NE (Prim2B x) (Prim2B y)) as C.
  simpl round_mode in C. rewrite (no_ovf _ B) in C. destruct C as (C1 & C2 & _).
  rewrite Fx, Fy in C2. now split.
Qed.

Lemma fdiv_spec : forall x y, fin x -> fin y -> FR y <> 0%R ->
  (Rabs (RN (FR x / FR y)) < bpow radix2 64)%R ->
  fin (x / y)%float /\ FR (x / y)%float = RN (FR x / FR y).
Proof.
  intros x y Fx Fy Ny B. rewrite div_equiv.
  pose proof (Bdiv_correct prec emax Hprec Hmax mode_NE (Prim2B x) (Prim2B y) Ny) as C.
  simpl round_mode in C. rewrite (no_ovf _ B) in C. destruct C as (C1 & C2 & _).
  rewrite Fx in C2. now split.
Qed.

Lemma fabs_spec : forall x, fin x -> fin (abs x) /\ FR (abs x) = Rabs (FR x).
Proof.
  intros x Fx. rewrite abs_equiv, is_finite_Babs, B2R_Babs. now split.
Qed.

Lemma fopp_spec : forall x, fin x -> fin (- x)%float /\ FR (- x)%float = (- FR x)%R.
Proof. intros x Fx. rewrite opp_equiv, is_finite_Bopp, B2R_Bopp. now split. Qed.

Lemma fleb_spec : forall x y, fin x -> fin y -> (x <=? y)%float = Rle_bool (FR x) (FR y).
Proof. intros x y Fx Fy. rewrite leb_equiv. now apply Bleb_correct. Qed.
Lemma fltb_spec : forall x y, fin x -> fin y -> (x <? y)%float = Rlt_bool (FR x) (FR y).
Proof. intros x y Fx Fy. rewrite ltb_equiv. now apply Bltb_correct. Qed.
Lemma feqb_spec : forall x y, fin x -> fin y -> (x =? y)%float = Req_bool (FR x) (FR y).
Proof. intros x y Fx Fy. rewrite eqb_equiv. now apply Beqb_correct. Qed.

Lemma zero_fin : fin zero. Proof. reflexivity. Qed.
Lemma zero_val : FR zero = 0%R. Proof. reflexivity. Qed.
Lemma fhalf_fin : fin fhalf. Proof. reflexivity. Qed.
Lemma fhalf_val : FR fhalf = (/ 2)%R.
Proof. unfold fhalf. cbv [Prim2B]. rewrite B2R_SF2B. vm_compute Prim2SF. unfold SF2R, F2R. simpl. lra. Qed.

(* ------------------------------------------------------------------------- *)
(* int_of_float is truncation of the real value *)

Lemma int_of_float_spec : forall f, fin f -> int_of_float f = Ok (Ztrunc (FR f)).
Proof.
  intros f Ff. unfold int_of_float. rewrite <- B2SF_Prim2B.
  destruct (Prim2B f) as [s|s| |s m e H]; try discriminate; simpl B2SF; cbv iota.
  - simpl. now rewrite Ztrunc_IZR.
  - f_equal. simpl B2R.
    assert (K : Ztrunc (F2R (Float radix2 (Zpos m) e)) =
                if 0 <=? e then Z.shiftl (Zpos m) e else Z.shiftr (Zpos m) (- e)).
    { destruct (Z.leb_spec 0 e) as [He|He].
      - rewrite Z.shiftl_mul_pow2 by lia. unfold F2R. simpl Fnum. simpl Fexp.
        rewrite <- IZR_Zpower by lia. rewrite <- mult_IZR. apply Ztrunc_IZR.
      - rewrite Z.shiftr_div_pow2 by lia. unfold F2R. simpl Fnum. simpl Fexp.
        rewrite Ztrunc_floor.
        + replace e with (- (- e)) at 1 by lia. rewrite bpow_opp. rewrite <- IZR_Zpower by lia.
          change (Zpower radix2 (- e)) with (2 ^ (- e)).
          apply Zfloor_div. apply Z.pow_nonzero; lia.
        + apply Rmult_le_pos; [apply IZR_le; lia | apply bpow_ge_0]. }
    destruct s; simpl cond_Zopp.
    + change (Zneg m) with (- Zpos m). rewrite F2R_Zopp, Ztrunc_opp, K. reflexivity.
    + symmetry; exact K.
Qed.

Lemma Ztrunc_bounds : forall x : R, (Rabs (IZR (Ztrunc x)) <= Rabs x)%R /\ (Rabs (x - IZR (Ztrunc x)) < 1)%R
   /\ (0 <= x -> 0 <= x - IZR (Ztrunc x))%R /\ (x <= 0 -> x - IZR (Ztrunc x) <= 0)%R
   /\ (Rabs (x - IZR (Ztrunc x)) <= Rabs x)%R.
Proof.
  intros x. destruct (Rle_dec 0 x) as [H|H].
  - rewrite Ztrunc_floor by exact H.
    pose proof (Zfloor_lb x) as L. pose proof (Zfloor_ub x) as U.
    assert (P : (0 <= IZR (Zfloor x))%R) by (apply IZR_le, Zfloor_lub; simpl; exact H).
    split; [|split; [|split; [|split]]].
    + rewrite !Rabs_pos_eq by lra. lra.
    + rewrite Rabs_pos_eq by lra. lra.
    + intros _. lra.
    + intros Hx. lra.
    + rewrite !Rabs_pos_eq by lra. lra.
  - rewrite Ztrunc_ceil by lra.
    pose proof (Zceil_lb x) as L. pose proof (Zceil_ub x) as U.
    assert (P : (IZR (Zceil x) <= 0)%R) by (apply IZR_le, Zceil_glb; simpl; lra).
    split; [|split; [|split; [|split]]].
    + rewrite !Rabs_left1 by lra. lra.
    + rewrite Rabs_left1 by lra. lra.
    + intros Hx. lra.
    + intros _. lra.
    + rewrite !Rabs_left1 by lra. lra.
Qed.

(* the fractional part of a representable number is representable: modf is exact *)
Lemma fmt_sub_trunc : forall x : R, fmt x -> fmt (x - IZR (Ztrunc x)).
Proof.
  intros x Hx. destruct (FLT_fmt x Hx) as [[M E] Ex HM HE]. simpl in HM, HE.
  destruct (Z_le_gt_dec 0 E) as [He|He].
  - assert (I : x = IZR (M * 2 ^ E)).
    { rewrite Ex. unfold F2R. simpl Fnum. simpl Fexp. rewrite mult_IZR.
      change (2 ^ E) with (Zpower radix2 E). now rewrite IZR_Zpower by lia. }
    rewrite I, Ztrunc_IZR, Rminus_diag_eq by reflexivity. apply generic_format_0.
  - set (k := Ztrunc x).
    assert (P : (bpow radix2 (- E) * bpow radix2 E = 1)%R).
    { rewrite <- bpow_plus. replace (- E + E) with 0 by lia. reflexivity. }
    assert (D : (x - IZR k)%R = F2R (Float radix2 (M - k * 2 ^ (- E)) E)).
    { unfold F2R. simpl Fnum. simpl Fexp. rewrite minus_IZR, mult_IZR.
      change (2 ^ (- E)) with (Zpower radix2 (- E)). rewrite IZR_Zpower by lia.
      rewrite Ex. unfold F2R. simpl Fnum. simpl Fexp.
      rewrite Rmult_minus_distr_r, Rmult_assoc, P. ring. }
    apply fmt_FLT. apply (FLT_spec _ _ _ _ _ D); simpl; [|lia].
    apply lt_IZR. rewrite abs_IZR.
    eapply Rle_lt_trans; [|apply IZR_lt; exact HM]. rewrite abs_IZR.
    apply Rmult_le_reg_r with (bpow radix2 E); [apply bpow_gt_0|].
    rewrite <- (Rabs_pos_eq (bpow radix2 E)) by apply bpow_ge_0.
    rewrite <- !Rabs_mult.
    change (IZR (M - k * 2 ^ (- E)) * bpow radix2 E)%R with (F2R (Float radix2 (M - k * 2 ^ (- E)) E)).
    rewrite <- D.
    change (IZR M * bpow radix2 E)%R with (F2R (Float radix2 M E)). rewrite <- Ex.
    apply (Ztrunc_bounds x).
Qed.

(* modf on a finite value of magnitude below 2^53 *)
Lemma modf_spec : forall f, fin f -> (Rabs (FR f) < IZR (2 ^ 53))%R ->
  exists fp, modf f = Ok (Ztrunc (FR f), fp) /\ fin fp /\ FR fp = (FR f - IZR (Ztrunc (FR f)))%R.
Proof.
  intros f Ff B. unfold modf. rewrite (int_of_float_spec f Ff). cbn [bind].
  set (ip := Ztrunc (FR f)).
  assert (Hip : Z.abs ip < 2 ^ 53).
  { apply lt_IZR. rewrite abs_IZR. eapply Rle_lt_trans; [apply (Ztrunc_bounds (FR f))|exact B]. }
  assert (T : (Z.abs ip <? two53) = true) by (apply Z.ltb_lt; exact Hip).
  rewrite T. eexists. split; [reflexivity|].
  destruct (of_Z_spec ip Hip) as [Fi Vi].
  assert (G : RN (FR f - FR (of_Z ip)) = (FR f - IZR ip)%R).
  { rewrite Vi. apply round_generic; [apply valid_rnd_N|]. apply fmt_sub_trunc, fmt_FR. }
  destruct (fsub_spec f (of_Z ip) Ff Fi) as [F1 V1].
  - rewrite G. eapply Rlt_trans; [apply (Ztrunc_bounds (FR f))|].
    apply (bpow_lt radix2 0 64). lia.
  - split; [exact F1|]. now rewrite V1, G.
Qed.

(* ------------------------------------------------------------------------- *)
(* rounding to the nearest integer when the value is not near a tie *)

Lemma near_int_cases : forall (t : R) (k : Z), (Rabs t < 1)%R -> (Rabs (t - IZR k) <= 63 / 128)%R ->
  ((/ 2 <= t)%R -> k = 1) /\ ((t <= - / 2)%R -> k = -1) /\ ((- / 2 < t < / 2)%R -> k = 0).
Proof.
  intros t k Ht Hk. apply Rabs_lt_inv in Ht. apply Rabs_le_inv in Hk.
  split; [|split]; intros H.
  - assert (0 < k < 2) by (split; apply lt_IZR; simpl; lra). lia.
  - assert (-2 < k < 0) by (split; apply lt_IZR; simpl; lra). lia.
  - assert (-1 < k < 1) by (split; apply lt_IZR; simpl; lra). lia.
Qed.

Lemma c_round_near : forall x j, fin x -> Z.abs j < 2 ^ 52 ->
  (Rabs (FR x - IZR j) <= 63 / 128)%R -> c_round x = of_Z j.
Proof.
  intros x j Fx Hj Hn. unfold c_round. rewrite (int_of_float_spec x Fx).
  set (X := FR x) in *. set (ip := Ztrunc X).
  destruct (Ztrunc_bounds X) as (B1 & B2 & _ & _ & _). fold ip in B1, B2.
  assert (Hip : Z.abs ip <= Z.abs j).
  { assert (Z.abs ip < Z.abs j + 1); [|lia]. apply lt_IZR. rewrite plus_IZR, !abs_IZR.
    apply Rabs_le_inv in Hn. simpl.
    assert (Rabs X <= Rabs (IZR j) + 63 / 128)%R.
    { replace X with ((X - IZR j) + IZR j)%R by ring. eapply Rle_trans; [apply Rabs_triang|].
      assert (Rabs (X - IZR j) <= 63 / 128)%R by (apply Rabs_le; lra). lra. }
    lra. }
  assert (T : (two52 <=? Z.abs ip) = false) by (apply Z.leb_gt; unfold two52; lia).
  rewrite T.
  assert (Hip53 : Z.abs ip < 2 ^ 53) by lia.
  destruct (of_Z_spec ip Hip53) as [Fi Vi].
  assert (G : RN (X - FR (of_Z ip)) = (X - IZR ip)%R).
  { rewrite Vi. apply round_generic; [apply valid_rnd_N|]. apply fmt_sub_trunc, fmt_FR. }
  destruct (fsub_spec x (of_Z ip) Fx Fi) as [Fd Vd].
  { fold X. rewrite G. eapply Rlt_trans; [exact B2|]. apply (bpow_lt radix2 0 64). lia. }
  fold X in Vd. rewrite G in Vd.
  assert (Hk : (Rabs ((X - IZR ip) - IZR (j - ip)) <= 63 / 128)%R).
  { rewrite minus_IZR. replace (X - IZR ip - (IZR j - IZR ip))%R with (X - IZR j)%R by ring. exact Hn. }
  destruct (near_int_cases _ _ B2 Hk) as (C1 & C2 & C3).
  rewrite (fleb_spec _ _ fhalf_fin Fd), fhalf_val, Vd.
  destruct (Rle_bool_spec (/ 2) (X - IZR ip)) as [H|H].
  - f_equal. specialize (C1 H). lia.
  - destruct (fopp_spec fhalf fhalf_fin) as [Fo Vo]. rewrite fhalf_val in Vo.
    rewrite (fleb_spec _ _ Fd Fo), Vo, Vd.
    destruct (Rle_bool_spec (X - IZR ip) (- / 2)) as [H'|H'].
    + f_equal. specialize (C2 H'). lia.
    + f_equal. assert (j - ip = 0) by (apply C3; lra). lia.
Qed.

(* 63/128 is representable, so a difference bounded by it stays bounded after rounding *)
Lemma fmt_63_128 : fmt (63 / 128)%R.
Proof.
  apply fmt_FLT. apply (FLT_spec _ _ _ _ (Float radix2 63 (-7))); simpl; try lia.
  unfold F2R. simpl. lra.
Qed.

Lemma round_half_even_near : forall x j, fin x -> Z.abs j < 2 ^ 52 ->
  (Rabs (FR x - IZR j) <= 63 / 128)%R -> round_half_even x = of_Z j.
Proof.
  intros x j Fx Hj Hn. unfold round_half_even. rewrite (c_round_near x j Fx Hj Hn).
  destruct (of_Z_spec j ltac:(lia)) as [Fj Vj].
  assert (B : (Rabs (RN (FR x - FR (of_Z j))) <= 63 / 128)%R).
  { rewrite Vj. apply abs_round_le_generic; [apply FLT_exp_valid; reflexivity | apply valid_rnd_N | apply fmt_63_128 | exact Hn]. }
  destruct (fsub_spec x (of_Z j) Fx Fj) as [Fd Vd].
  { eapply Rle_lt_trans; [exact B|]. eapply Rlt_trans; [|apply (bpow_lt radix2 0 64); lia]. simpl. lra. }
  destruct (fabs_spec _ Fd) as [Fa Va].
  rewrite (feqb_spec _ _ Fa fhalf_fin), Va, Vd, fhalf_val.
  rewrite Req_bool_false; [reflexivity|]. lra.
Qed.

(* ------------------------------------------------------------------------- *)
(* rounding error of one operation *)

Lemma RN_err : forall (x : R) (e : Z), -1021 <= e -> (Rabs x < bpow radix2 e)%R ->
  (Rabs (RN x - x) <= bpow radix2 (e - 54))%R.
Proof.
  intros x e He Hx.
  destruct (Req_dec x 0) as [->|Nx].
  - rewrite round_0 by apply valid_rnd_N. rewrite Rminus_0_r, Rabs_R0. apply bpow_ge_0.
  - eapply Rle_trans. apply error_le_half_ulp. apply FLT_exp_valid. reflexivity.
    assert (Hu : (ulp radix2 (SpecFloat.fexp prec emax) x <= bpow radix2 (e - 53))%R).
    { rewrite ulp_neq_0 by assumption. apply bpow_le. unfold cexp, SpecFloat.fexp, SpecFloat.emin, prec, emax.
      assert (mag radix2 x <= e)%Z by (apply mag_le_bpow; auto). lia. }
    replace (bpow radix2 (e - 54)) with (/ 2 * bpow radix2 (e - 53))%R.
    + apply Rmult_le_compat_l; lra.
    + replace (e - 54) with (-1 + (e - 53)) by lia. rewrite bpow_plus. simpl. lra.
Qed.

Lemma int_of_float_int : forall f z, fin f -> FR f = IZR z -> int_of_float f = Ok z.
Proof. intros f z Ff V. rewrite (int_of_float_spec f Ff), V, Ztrunc_IZR. reflexivity. Qed.

Lemma bpow_m34 : (bpow radix2 (-34) <= 1 / 128)%R.
Proof. change (bpow radix2 (-34)) with (/ IZR (Zpower_pos 2 34))%R. simpl. lra. Qed.

(* fp * 1e6 (or 1e6 * fp) for |fp| < 1, when x*1e6 is within 31/64 of the integer n and
   fp = x - ip: the product is within 63/128 of j = n - ip*10^6, and |j| <= 10^6 *)
Lemma frac_scaled_near : forall (X : R) (ip n : Z) (fp : PrimFloat.float), fin fp ->
  FR fp = (X - IZR ip)%R -> (Rabs (X - IZR ip) < 1)%R ->
  (Rabs (X * 1000000 - IZR n) <= 31 / 64)%R ->
  let j := n - ip * 1000000 in
  Z.abs j <= 1000000 /\
  fin (fp * f1e6)%float /\ (Rabs (FR (fp * f1e6)%float - IZR j) <= 63 / 128)%R /\
  fin (f1e6 * fp)%float /\ (Rabs (FR (f1e6 * fp)%float - IZR j) <= 63 / 128)%R.
Proof.
  intros X ip n fp Ffp Vfp Hfp Hn j.
  set (y := ((X - IZR ip) * 1000000)%R).
  assert (Yj : (y - IZR j = X * 1000000 - IZR n)%R).
  { unfold y, j. rewrite minus_IZR, mult_IZR. simpl. ring. }
  assert (Yb : (Rabs y < 1000000)%R).
  { unfold y. rewrite Rabs_mult. rewrite (Rabs_pos_eq 1000000) by lra.
    assert (0 <= Rabs (X - IZR ip))%R by apply Rabs_pos. nra. }
  assert (Yb' : (Rabs y < bpow radix2 20)%R).
  { eapply Rlt_trans; [exact Yb|]. change (bpow radix2 20) with (IZR (Zpower_pos 2 20)). simpl. lra. }
  pose proof (RN_err y 20 ltac:(lia) Yb') as E. change (20 - 54) with (-34) in E.
  pose proof bpow_m34 as M.
  assert (Hj : Z.abs j <= 1000000).
  { assert (Z.abs j < 1000000 + 1); [|lia]. apply lt_IZR. rewrite abs_IZR.
    replace (IZR j) with (y - (y - IZR j))%R by ring. rewrite Yj.
    eapply Rle_lt_trans; [apply Rabs_triang|]. rewrite Rabs_Ropp. simpl. lra. }
  assert (Near : (Rabs (RN y - IZR j) <= 63 / 128)%R).
  { replace (RN y - IZR j)%R with ((RN y - y) + (y - IZR j))%R by ring.
    eapply Rle_trans; [apply Rabs_triang|]. rewrite Yj. lra. }
  assert (Bd : (Rabs (RN y) < bpow radix2 64)%R).
  { replace (RN y) with ((RN y - y) + y)%R by ring. eapply Rle_lt_trans; [apply Rabs_triang|].
    eapply Rlt_trans; [|apply (bpow_lt radix2 21 64); lia].
    change (bpow radix2 21) with (IZR (Zpower_pos 2 21)). simpl. lra. }
  split; [exact Hj|].
  destruct (fmul_spec fp f1e6 Ffp f1e6_fin) as [F1 V1].
  { rewrite Vfp, f1e6_val. exact Bd. }
  destruct (fmul_spec f1e6 fp f1e6_fin Ffp) as [F2 V2].
  { rewrite Vfp, f1e6_val, Rmult_comm. exact Bd. }
  rewrite Vfp, f1e6_val in V1, V2. rewrite Rmult_comm in V2. fold y in V1, V2.
  rewrite V1, V2. repeat split; assumption.
Qed.

(* ------------------------------------------------------------------------- *)
(* datetime.fromtimestamp: any float within 31/64 us of an integer microsecond count n
   decodes to n *)

Theorem fromtimestamp_near : forall t n, fin t ->
  min_sec * 1000000 <= n <= max_sec * 1000000 + 999999 ->
  (Rabs (FR t * 1000000 - IZR n) <= 31 / 64)%R ->
  fromtimestamp_us t = Ok n.
Proof.
  intros t n Ft Hr Hn. set (T := FR t) in *.
  assert (TB : (Rabs T < IZR (2 ^ 53))%R).
  { assert (A : (Rabs (T * 1000000) <= Rabs (IZR n) + 31 / 64)%R).
    { replace (T * 1000000)%R with ((T * 1000000 - IZR n) + IZR n)%R by ring.
      eapply Rle_trans; [apply Rabs_triang|]. lra. }
    rewrite Rabs_mult, (Rabs_pos_eq 1000000) in A by lra.
    assert (N : (Rabs (IZR n) <= 253402300799999999)%R).
    { rewrite <- abs_IZR. apply IZR_le. unfold min_sec, max_sec in Hr. lia. }
    change (IZR (2 ^ 53)) with 9007199254740992%R. lra. }
  destruct (modf_spec t Ft TB) as (fp & Em & Ffp & Vfp). fold T in Em, Vfp.
  set (ip := Ztrunc T) in *.
  destruct (Ztrunc_bounds T) as (_ & B2 & _). fold ip in B2.
  destruct (frac_scaled_near T ip n fp Ffp Vfp B2 Hn) as (Hj & F1 & N1 & _ & _).
  set (j := n - ip * 1000000) in *.
  unfold fromtimestamp_us. rewrite Em. cbn [bind fst snd].
  rewrite (round_half_even_near _ j F1 ltac:(lia) N1).
  destruct (of_Z_spec j ltac:(lia)) as [Fj Vj].
  rewrite (fleb_spec _ _ f1e6_fin Fj), f1e6_val, Vj.
  assert (R64 : forall z, Z.abs z <= 3000000 -> (Rabs (RN (IZR z)) < bpow radix2 64)%R).
  { intros z Hz. rewrite RN_IZR by lia. eapply Rlt_trans; [apply Rabs_IZR_lt with (n := 2 ^ 53); lia|].
    change (IZR (2 ^ 53)) with (IZR (Zpower radix2 53)). rewrite IZR_Zpower by lia. apply bpow_lt. lia. }
  assert (Fin : forall sec us, sec * 1000000 + us = n -> 0 <= us < 1000000 ->
            (if (sec <? - 2 ^ 63) || (2 ^ 63 <=? sec) then Err OtherError
             else if (sec <? min_sec) || (max_sec <? sec) then
               if Z.abs sec <? 67000000000000000 then Err ValueError else Err OtherError
             else Ok (sec * us_per_s + us)) = Ok n).
  { intros sec us E U. unfold min_sec, max_sec in *.
    assert (S : -62135596800 <= sec <= 253402300799) by lia.
    replace ((sec <? - 2 ^ 63) || (2 ^ 63 <=? sec)) with false
      by (symmetry; apply orb_false_iff; split; [apply Z.ltb_ge | apply Z.leb_gt]; lia).
    replace ((sec <? -62135596800) || (253402300799 <? sec)) with false
      by (symmetry; apply orb_false_iff; split; apply Z.ltb_ge; lia).
    unfold us_per_s. now rewrite E. }
  destruct (Rle_bool_spec 1000000 (IZR j)) as [H|H].
  - assert (j = 1000000) by (apply le_IZR in H; lia).
    destruct (fsub_spec (of_Z j) f1e6 Fj f1e6_fin) as [Fs Vs].
    { rewrite Vj, f1e6_val, <- minus_IZR. apply R64. lia. }
    rewrite Vj, f1e6_val, <- minus_IZR, RN_IZR in Vs by lia.
    rewrite (int_of_float_int _ _ Fs Vs). cbn [bind fst snd]. apply Fin; lia.
  - assert (j < 1000000) by (apply lt_IZR; exact H).
    rewrite (fltb_spec _ _ Fj zero_fin), Vj, zero_val.
    destruct (Rlt_bool_spec (IZR j) 0) as [H'|H'].
    + assert (j < 0) by (apply lt_IZR; exact H').
      destruct (fadd_spec (of_Z j) f1e6 Fj f1e6_fin) as [Fs Vs].
      { rewrite Vj, f1e6_val, <- plus_IZR. apply R64. lia. }
      rewrite Vj, f1e6_val, <- plus_IZR, RN_IZR in Vs by lia.
      rewrite (int_of_float_int _ _ Fs Vs). cbn [bind fst snd]. apply Fin; lia.
    + assert (0 <= j) by (apply le_IZR; exact H').
      rewrite (int_of_float_int _ _ Fj Vj). cbn [bind fst snd]. apply Fin; lia.
Qed.

(* ------------------------------------------------------------------------- *)
(* int / 10**6: the correctly rounded quotient, scaled back, is within 31/64 of n *)

Lemma bpow_m21_scaled : (bpow radix2 (-21) * 1000000 <= 31 / 64)%R.
Proof. change (bpow radix2 (-21)) with (/ IZR (Zpower_pos 2 21))%R. simpl. lra. Qed.

Theorem div_1e6_near : forall n, Z.abs n < 2 ^ 33 * 1000000 ->
  exists t, fdiv_int_int n 1000000 = Ok t /\ fin t /\
            FR t = RN (IZR n / 1000000) /\
            (Rabs (FR t * 1000000 - IZR n) <= 31 / 64)%R.
Proof.
  intros n Hn. unfold fdiv_int_int.
  change (1000000 =? 0) with false. cbv iota.
  assert (T : (Z.abs n <=? two53) && (Z.abs 1000000 <=? two53) = true).
  { apply andb_true_iff. split; apply Z.leb_le; unfold two53; simpl Z.abs; lia. }
  rewrite T. eexists. split; [reflexivity|].
  destruct (of_Z_spec n ltac:(lia)) as [Fn Vn].
  set (x := (IZR n / 1000000)%R).
  assert (Xb : (Rabs x < bpow radix2 33)%R).
  { unfold x, Rdiv. rewrite Rabs_mult, (Rabs_pos_eq (/ 1000000)) by lra.
    assert (Rabs (IZR n) < IZR (2 ^ 33 * 1000000))%R by (apply Rabs_IZR_lt; exact Hn).
    change (bpow radix2 33) with (IZR (Zpower_pos 2 33)). rewrite mult_IZR in H. simpl in *. lra. }
  pose proof (RN_err x 33 ltac:(lia) Xb) as E. change (33 - 54) with (-21) in E.
  pose proof bpow_m21_scaled as M.
  assert (Pm : (0 < bpow radix2 (-21))%R) by apply bpow_gt_0.
  destruct (fdiv_spec (of_Z n) f1e6 Fn f1e6_fin) as [Fd Vd].
  - rewrite f1e6_val. lra.
  - rewrite Vn, f1e6_val. fold x.
    replace (RN x) with ((RN x - x) + x)%R by ring. eapply Rle_lt_trans; [apply Rabs_triang|].
    eapply Rlt_trans; [|apply (bpow_lt radix2 34 64); lia].
    change (bpow radix2 34) with (2 * bpow radix2 33)%R.
    assert (bpow radix2 (-21) < bpow radix2 33)%R by (apply bpow_lt; lia). lra.
  - rewrite Vn, f1e6_val in Vd. fold x in Vd. unfold f1e6 in Vd, Fd.
    split; [exact Fd|]. split; [exact Vd|]. rewrite Vd.
    replace (RN x * 1000000 - IZR n)%R with ((RN x - x) * 1000000)%R by (unfold x; field).
    rewrite Rabs_mult, (Rabs_pos_eq 1000000) by lra. nra.
Qed.

(* ------------------------------------------------------------------------- *)
(* timedelta(seconds=x): any float within 31/64 us of an integer microsecond count k
   gives k *)

Lemma td_check_ok : forall k, - max_days * us_per_day <= k < (max_days + 1) * us_per_day ->
  td_check k = Ok k.
Proof.
  intros k H. unfold td_check. cbv zeta.
  assert (E : (- max_days <=? k / us_per_day) && (k / us_per_day <=? max_days) = true).
  { apply andb_true_iff. split; apply Z.leb_le; unfold max_days, us_per_day in *.
    - apply Z.div_le_lower_bound; lia.
    - assert (k / 86400000000 < 999999999 + 1) by (apply Z.div_lt_upper_bound; lia). lia. }
  rewrite E. reflexivity.
Qed.

Lemma IZR_near_eq : forall a b : Z, (Rabs (IZR a - IZR b) <= 63 / 128)%R -> a = b.
Proof.
  intros a b H. rewrite <- minus_IZR in H. apply Rabs_le_inv in H.
  assert (-1 < a - b < 1) by (split; apply lt_IZR; simpl; lra). lia.
Qed.

Theorem td_near : forall x k, fin x ->
  - max_days * us_per_day <= k < (max_days + 1) * us_per_day ->
  (Rabs (FR x * 1000000 - IZR k) <= 31 / 64)%R ->
  td_us_of_float_seconds x = Ok k.
Proof.
  intros x k Fx Hr Hn. set (X := FR x) in *.
  assert (TB : (Rabs X < IZR (2 ^ 53))%R).
  { assert (A : (Rabs (X * 1000000) <= Rabs (IZR k) + 31 / 64)%R).
    { replace (X * 1000000)%R with ((X * 1000000 - IZR k) + IZR k)%R by ring.
      eapply Rle_trans; [apply Rabs_triang|]. lra. }
    rewrite Rabs_mult, (Rabs_pos_eq 1000000) in A by lra.
    assert (N : (Rabs (IZR k) <= 86400000000000000000)%R).
    { rewrite <- abs_IZR. apply IZR_le. unfold max_days, us_per_day in Hr. lia. }
    change (IZR (2 ^ 53)) with 9007199254740992%R. lra. }
  destruct (modf_spec x Fx TB) as (fp & Em & Ffp & Vfp). fold X in Em, Vfp.
  set (ip := Ztrunc X) in *.
  destruct (Ztrunc_bounds X) as (_ & B2 & _). fold ip in B2.
  unfold td_us_of_float_seconds. rewrite Em. cbn [bind fst snd].
  assert (ZZ : (zero =? zero)%float = true).
  { rewrite (feqb_spec _ _ zero_fin zero_fin). apply Req_bool_true. reflexivity. }
  rewrite (feqb_spec _ _ Ffp zero_fin), Vfp, zero_val.
  destruct (Req_bool_spec (X - IZR ip) 0) as [H0|H0].
  - (* x is integral *)
    cbn [bind fst snd]. rewrite ZZ. cbn [bind].
    assert (ip * us_per_s = k).
    { apply IZR_near_eq. unfold us_per_s. rewrite mult_IZR.
      replace (IZR ip) with X by lra. simpl. lra. }
    rewrite H. now apply td_check_ok.
  - destruct (frac_scaled_near X ip k fp Ffp Vfp B2 Hn) as (Hj & _ & _ & F2 & N2).
    set (j := k - ip * 1000000) in *.
    set (m0 := (f1e6 * fp)%float) in *. set (M0 := FR m0) in *.
    assert (MB : (Rabs M0 < IZR (2 ^ 53))%R).
    { replace M0 with ((M0 - IZR j) + IZR j)%R by ring. eapply Rle_lt_trans; [apply Rabs_triang|].
      assert (Rabs (IZR j) <= 1000000)%R by (rewrite <- abs_IZR; apply IZR_le; exact Hj).
      change (IZR (2 ^ 53)) with 9007199254740992%R. lra. }
    destruct (modf_spec m0 F2 MB) as (fp2 & Em2 & Ffp2 & Vfp2). fold M0 in Em2, Vfp2.
    set (ip2 := Ztrunc M0) in *.
    destruct (Ztrunc_bounds M0) as (_ & C2 & _). fold ip2 in C2.
    rewrite Em2. cbn [bind fst snd].
    rewrite (feqb_spec _ _ Ffp2 zero_fin), Vfp2, zero_val.
    destruct (Req_bool_spec (M0 - IZR ip2) 0) as [H1|H1].
    + cbn [bind].
      assert (ip2 = j) by (apply IZR_near_eq; replace (IZR ip2) with M0 by lra; exact N2).
      replace (ip * us_per_s + ip2) with k by (unfold us_per_s, j in *; lia).
      now apply td_check_ok.
    + set (w := j - ip2).
      assert (Nw : (Rabs (FR fp2 - IZR w) <= 63 / 128)%R).
      { rewrite Vfp2. unfold w. rewrite minus_IZR.
        replace (M0 - IZR ip2 - (IZR j - IZR ip2))%R with (M0 - IZR j)%R by ring. exact N2. }
      assert (Hw : Z.abs w < 2).
      { apply lt_IZR. rewrite abs_IZR.
        replace (IZR w) with ((M0 - IZR ip2) - (FR fp2 - IZR w))%R by (rewrite Vfp2; ring).
        eapply Rle_lt_trans; [apply Rabs_triang|]. rewrite Rabs_Ropp. simpl. lra. }
      rewrite (c_round_near fp2 w Ffp2 ltac:(lia) Nw).
      destruct (of_Z_spec w ltac:(lia)) as [Fw Vw].
      assert (B : (Rabs (RN (FR (of_Z w) - FR fp2)) <= 63 / 128)%R).
      { rewrite Vw. apply abs_round_le_generic; [apply FLT_exp_valid; reflexivity | apply valid_rnd_N | apply fmt_63_128 |].
        rewrite <- Rabs_Ropp. replace (- (IZR w - FR fp2))%R with (FR fp2 - IZR w)%R by ring. exact Nw. }
      destruct (fsub_spec (of_Z w) fp2 Fw Ffp2) as [Fd Vd].
      { eapply Rle_lt_trans; [exact B|]. eapply Rlt_trans; [|apply (bpow_lt radix2 0 64); lia]. simpl. lra. }
      destruct (fabs_spec _ Fd) as [Fa Va].
      rewrite (feqb_spec _ _ Fa fhalf_fin), Va, Vd, fhalf_val.
      rewrite Req_bool_false by lra.
      rewrite (int_of_float_int _ _ Fw Vw). cbn [bind].
      replace (ip * us_per_s + ip2 + w) with k by (unfold us_per_s, w, j in *; lia).
      now apply td_check_ok.
Qed.

(* ------------------------------------------------------------------------- *)
(* the two round trips through the correctly rounded quotient by 10**6 *)

Theorem fromtimestamp_decode : forall n, Z.abs n < 2 ^ 33 * 1000000 ->
  bind (fdiv_int_int n 1000000) fromtimestamp_us = Ok n.
Proof.
  intros n Hn. destruct (div_1e6_near n Hn) as (t & E & Ft & _ & N). rewrite E. cbn [bind].
  apply fromtimestamp_near; [exact Ft| |exact N]. unfold min_sec, max_sec. lia.
Qed.

Theorem td_roundtrip : forall k, Z.abs k < 2 ^ 33 * 1000000 ->
  bind (total_seconds_of_us k) td_us_of_float_seconds = Ok k.
Proof.
  intros k Hk. unfold total_seconds_of_us, us_per_s.
  destruct (div_1e6_near k Hk) as (t & E & Ft & _ & N). rewrite E. cbn [bind].
  apply td_near; [exact Ft| |exact N]. unfold max_days, us_per_day. lia.
Qed.

(* total_seconds() is a finite float for these durations *)
Theorem total_seconds_finite : forall k, Z.abs k < 2 ^ 33 * 1000000 ->
  exists f, total_seconds_of_us k = Ok f /\ fin f /\ FR f = RN (IZR k / 1000000).
Proof.
  intros k Hk. destruct (div_1e6_near k Hk) as (t & E & Ft & V & _). exists t. now repeat split.
Qed.

(* ------------------------------------------------------------------------- *)
(* x.timestamp() * 1000000 : distance of the float window parameter from the instant *)

Lemma param_err_aux : forall u e, 0 <= u < 2 ^ e -> 40 <= e <= 52 ->
  exists p, sqlite_float_param u = Ok p /\ fin p /\
    (Rabs (FR p - IZR u) <= bpow radix2 (e - 19 - 54) * 1000000 + bpow radix2 (e - 54))%R.
Proof.
  intros u e Hu He.
  assert (P52 : 2 ^ e <= 2 ^ 52) by (apply Z.pow_le_mono_r; lia).
  assert (Hn : Z.abs u < 2 ^ 33 * 1000000) by (change (2 ^ 52) with 4503599627370496 in P52; lia).
  unfold sqlite_float_param, timestamp_float_of_us, us_per_s.
  destruct (div_1e6_near u Hn) as (t & E & Ft & V & _). rewrite E. cbn [bind].
  eexists. split; [reflexivity|].
  set (x := (IZR u / 1000000)%R) in *.
  assert (U0 : (0 <= IZR u)%R) by (apply IZR_le; lia).
  assert (U1 : (IZR u <= bpow radix2 e - 1)%R).
  { rewrite <- IZR_Zpower by lia. rewrite <- minus_IZR. apply IZR_le. change (Zpower radix2 e) with (2 ^ e). lia. }
  assert (Xb : (Rabs x < bpow radix2 (e - 19))%R).
  { unfold x. rewrite Rabs_pos_eq by (apply Rmult_le_pos; lra).
    assert (bpow radix2 e = bpow radix2 19 * bpow radix2 (e - 19))%R
      by (rewrite <- bpow_plus; f_equal; lia).
    assert (0 < bpow radix2 (e - 19))%R by apply bpow_gt_0.
    change (bpow radix2 19) with (IZR (Zpower_pos 2 19)) in H. simpl in H. nra. }
  pose proof (RN_err x (e - 19) ltac:(lia) Xb) as E1.
  set (d1 := bpow radix2 (e - 19 - 54)) in *.
  assert (D1 : (0 < d1 <= bpow radix2 (-21))%R) by (split; [apply bpow_gt_0 | apply bpow_le; lia]).
  pose proof bpow_m21_scaled as M.
  set (y := (RN x * 1000000)%R).
  assert (Yu : (Rabs (y - IZR u) <= d1 * 1000000)%R).
  { replace (y - IZR u)%R with ((RN x - x) * 1000000)%R by (unfold y, x; field).
    rewrite Rabs_mult, (Rabs_pos_eq 1000000) by lra. nra. }
  assert (Yb : (Rabs y < bpow radix2 e)%R).
  { replace y with ((y - IZR u) + IZR u)%R by ring. eapply Rle_lt_trans; [apply Rabs_triang|].
    rewrite (Rabs_pos_eq (IZR u)) by lra. lra. }
  pose proof (RN_err y e ltac:(lia) Yb) as E2.
  destruct (fmul_spec t f1e6 Ft f1e6_fin) as [Fp Vp].
  { rewrite V, f1e6_val. fold y. replace (RN y) with ((RN y - y) + y)%R by ring.
    eapply Rle_lt_trans; [apply Rabs_triang|].
    assert (bpow radix2 (e - 54) < bpow radix2 e)%R by (apply bpow_lt; lia).
    assert (bpow radix2 e <= bpow radix2 52)%R by (apply bpow_le; lia).
    assert (2 * bpow radix2 52 < bpow radix2 64)%R.
    { change (2 * bpow radix2 52)%R with (bpow radix2 53). apply bpow_lt. lia. }
    lra. }
  rewrite V, f1e6_val in Vp. fold y in Vp. split; [exact Fp|]. rewrite Vp.
  replace (RN y - IZR u)%R with ((RN y - y) + (y - IZR u))%R by ring.
  eapply Rle_trans; [apply Rabs_triang|]. lra.
Qed.

Theorem sqlite_param_error : forall u, 0 <= u < 2 ^ 52 ->
  exists p, sqlite_float_param u = Ok p /\ fin p /\ (Rabs (FR p - IZR u) <= 3 / 4)%R.
Proof.
  intros u Hu. destruct (param_err_aux u 52 Hu ltac:(lia)) as (p & E & F & B).
  exists p. split; [exact E|]. split; [exact F|]. eapply Rle_trans; [exact B|].
  change (52 - 19 - 54) with (-21). pose proof bpow_m21_scaled.
  change (bpow radix2 (52 - 54)) with (/ 4)%R. lra.
Qed.

(* before 2041-05-10 (2^51 us) the parameter is within 3/8 us *)
Theorem sqlite_param_error_51 : forall u, 0 <= u < 2 ^ 51 ->
  exists p, sqlite_float_param u = Ok p /\ fin p /\ (Rabs (FR p - IZR u) <= 3 / 8)%R.
Proof.
  intros u Hu. destruct (param_err_aux u 51 Hu ltac:(lia)) as (p & E & F & B).
  exists p. split; [exact E|]. split; [exact F|]. eapply Rle_trans; [exact B|].
  change (51 - 19 - 54) with (-22).
  assert (bpow radix2 (-22) * 1000000 <= 1 / 4)%R.
  { change (bpow radix2 (-22)) with (/ IZR (Zpower_pos 2 22))%R. simpl. lra. }
  change (bpow radix2 (51 - 54)) with (/ 8)%R. lra.
Qed.
