(* Facts about Model/PyFloat.v proved through Flocq (IEEE754.PrimFloat links Coq's
   primitive floats to Flocq's binary_float; real-number reasoning from there).
   Axioms used: the primitive float / 63-bit integer specifications of the standard
   library (FloatAxioms, Uint63) and the standard library's real numbers
   (ClassicalDedekindReals, functional extensionality, classic) -- all declared by Coq's
   standard library / used by Flocq; none is declared here. *)
From Coq Require Import ZArith Reals Lia Lra Psatz Bool Floats.
From Flocq Require Import Core IEEE754.BinarySingleNaN IEEE754.PrimFloat.
From AwVerif Require Import Base.Prelude Model.PyFloat.
Open Scope Z_scope.

Local Instance Hprec53 : FLX.Prec_gt_0 prec := eq_refl _.
Local Instance Hmax1024 : Prec_lt_emax prec emax := eq_refl _.

Notation FR x := (B2R (Prim2B x)).
Notation fin x := (is_finite (Prim2B x) = true).
Notation RN := (round radix2 (SpecFloat.fexp prec emax) ZnearestE).
Notation fmt := (generic_format radix2 (SpecFloat.fexp prec emax)).

Lemma fexp_FLT : forall e, SpecFloat.fexp prec emax e = FLT_exp (-1074) 53 e.
Proof. reflexivity. Qed.

(* ------------------------------------------------------------------------- *)
(* formats *)

Lemma fmt_FLT : forall x, FLT_format radix2 (-1074) 53 x -> fmt x.
Proof. intros x H. apply (generic_format_FLT radix2 (-1074) 53 x H). Qed.

Lemma FLT_fmt : forall x, fmt x -> FLT_format radix2 (-1074) 53 x.
Proof. intros x H. apply (FLT_format_generic radix2 (-1074) 53 x H). Qed.

Lemma fmt_IZR : forall z, Z.abs z < 2 ^ 53 -> fmt (IZR z).
Proof.
  intros z Hz. apply fmt_FLT. apply (FLT_spec _ _ _ _ (Float radix2 z 0)).
  - unfold F2R. simpl. lra.
  - simpl. exact Hz.
  - simpl. lia.
Qed.

Lemma fmt_FR : forall x, fmt (FR x).
Proof. intros x. apply generic_format_B2R. Qed.

Lemma bpow_emax_big : forall x : R, (Rabs x < bpow radix2 64)%R -> (Rabs x < bpow radix2 emax)%R.
Proof.
  intros x H. eapply Rlt_le_trans; [exact H|]. apply bpow_le. unfold emax. lia.
Qed.

Lemma RN_IZR : forall z, Z.abs z < 2 ^ 53 -> RN (IZR z) = IZR z.
Proof. intros z H. apply round_generic; [apply valid_rnd_N | now apply fmt_IZR]. Qed.

Lemma Rabs_IZR_lt : forall z n, Z.abs z < n -> (Rabs (IZR z) < IZR n)%R.
Proof. intros z n H. rewrite <- abs_IZR. now apply IZR_lt. Qed.

(* ------------------------------------------------------------------------- *)
(* of_Z *)

Lemma of_uint63_spec : forall z, 0 <= z < 2 ^ 53 ->
  fin (of_uint63 (Uint63.of_Z z)) /\ FR (of_uint63 (Uint63.of_Z z)) = IZR z.
Proof.
  intros z Hz.
  pose proof (of_int63_equiv (Uint63.of_Z z)) as E.
  rewrite Uint63.of_Z_spec in E.
  rewrite Z.mod_small in E by (change Uint63.wB with (2 ^ 63); lia).
  change (of_int63 (Uint63.of_Z z)) with (of_uint63 (Uint63.of_Z z)) in E.
  rewrite E.
  pose proof (binary_normalize_correct prec emax Hprec Hmax mode_NE z 0 false) as C.
  cbv zeta in C.
  assert (F : F2R (Float radix2 z 0) = IZR z) by (unfold F2R; simpl; lra).
  rewrite F in C. simpl round_mode in C.
  rewrite RN_IZR in C by lia.
  rewrite Rlt_bool_true in C.
  - destruct C as (C1 & C2 & _). split; assumption.
  - apply bpow_emax_big. eapply Rlt_trans; [apply Rabs_IZR_lt with (n := 2 ^ 53); lia|].
    change (IZR (2 ^ 53)) with (IZR (Zpower radix2 53)). rewrite IZR_Zpower by lia.
    apply bpow_lt. lia.
Qed.

Lemma of_Z_spec : forall z, Z.abs z < 2 ^ 53 -> fin (of_Z z) /\ FR (of_Z z) = IZR z.
Proof.
  intros z Hz. unfold of_Z. destruct (Z.ltb_spec z 0) as [Hn|Hp].
  - destruct (of_uint63_spec (- z)) as [F V]; [lia|].
    rewrite opp_equiv, is_finite_Bopp, B2R_Bopp, V, opp_IZR. split; [exact F | lra].
  - apply of_uint63_spec. lia.
Qed.

Lemma of_Z_fin : forall z, Z.abs z < 2 ^ 53 -> fin (of_Z z).
Proof. intros z H. apply (of_Z_spec z H). Qed.
Lemma of_Z_val : forall z, Z.abs z < 2 ^ 53 -> FR (of_Z z) = IZR z.
Proof. intros z H. apply (of_Z_spec z H). Qed.

Lemma f1e6_val : FR f1e6 = 1000000%R. Proof. unfold f1e6. rewrite of_Z_val by (cbn; lia). reflexivity. Qed.
Lemma f1e6_fin : fin f1e6. Proof. apply of_Z_fin. cbn; lia. Qed.
Lemma ftwo_val : FR ftwo = 2%R. Proof. unfold ftwo. rewrite of_Z_val by (cbn; lia). reflexivity. Qed.
Lemma ftwo_fin : fin ftwo. Proof. apply of_Z_fin. cbn; lia. Qed.
