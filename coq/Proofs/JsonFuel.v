(* Fuel of the JSON scanner: more fuel never changes a result, every result is produced with
   fuel 2 * length + 1 (OutOfFuel is unreachable from loads), every scan consumes text. *)
From AwVerif Require Import Base.Prelude Model.Json Proofs.JsonStr Proofs.JsonNum.
Open Scope Z_scope.

(* --- one unfolding step of the three mutually recursive scanners ---------------------- *)
Definition value_body (f : nat) (s : list Z) : res (jvalue * list Z) :=
  match s with
  | [] => Err ParseError
  | c :: r =>
      if c =? c_dq then bind2 (scanstring r) (fun str r' => Ok (JStr str, r'))
      else if c =? c_lbrc then
        match skip_ws r with
        | [] => Err ParseError
        | d :: r2 =>
            if d =? c_rbrc then Ok (JDict [], r2)
            else if d =? c_dq then
              bind2 (obj_loop f r2) (fun pairs r' => Ok (JDict (dict_of_pairs pairs), r'))
            else Err ParseError
        end
      else if c =? c_lbrk then
        match skip_ws r with
        | [] => Err ParseError
        | d :: r2 =>
            if d =? c_rbrk then Ok (JList [], r2)
            else bind2 (arr_loop f (d :: r2)) (fun vs r' => Ok (JList vs, r'))
        end
      else scan_scalar s
  end.

Definition arr_cont (f : nat) (v : jvalue) (r : list Z) : res (list jvalue * list Z) :=
  match skip_ws r with
  | [] => Err ParseError
  | d :: r2 =>
      if d =? c_rbrk then Ok ([v], r2)
      else if d =? c_comma then bind2 (arr_loop f (skip_ws r2)) (fun vs r' => Ok (v :: vs, r'))
      else Err ParseError
  end.

Definition obj_cont2 (f : nat) (key : list Z) (v : jvalue) (r3 : list Z) : res (list (list Z * jvalue) * list Z) :=
  match skip_ws r3 with
  | [] => Err ParseError
  | d2 :: r4 =>
      if d2 =? c_rbrc then Ok ([(key, v)], r4)
      else if d2 =? c_comma then
        match skip_ws r4 with
        | [] => Err ParseError
        | d3 :: r5 =>
            if d3 =? c_dq then bind2 (obj_loop f r5) (fun kvs r' => Ok ((key, v) :: kvs, r'))
            else Err ParseError
        end
      else Err ParseError
  end.

Definition obj_cont1 (f : nat) (key : list Z) (r : list Z) : res (list (list Z * jvalue) * list Z) :=
  match skip_ws r with
  | [] => Err ParseError
  | d :: r2 =>
      if d =? c_colon then bind2 (scan_value f (skip_ws r2)) (obj_cont2 f key)
      else Err ParseError
  end.

Lemma scan_value_S f s : scan_value (S f) s = value_body f s.
Proof. reflexivity. Qed.
Lemma arr_loop_S f s : arr_loop (S f) s = bind2 (scan_value f s) (arr_cont f).
Proof. reflexivity. Qed.
Lemma obj_loop_S f s : obj_loop (S f) s = bind2 (scanstring s) (obj_cont1 f).
Proof. reflexivity. Qed.

(* --- more fuel never changes a result -------------------------------------------------- *)
Lemma bind2_mono {A B} (a a' : res (A * list Z)) (k k' : A -> list Z -> res B) :
  (a <> OutOfFuel -> a' = a) -> (forall x r, k x r <> OutOfFuel -> k' x r = k x r) ->
  bind2 a k <> OutOfFuel -> bind2 a' k' = bind2 a k.
Proof.
  intros Ha Hk H. destruct a as [[x r]|e|]; cbn in *.
  - rewrite Ha by discriminate. cbn. now apply Hk.
  - rewrite Ha by discriminate. reflexivity.
  - contradiction.
Qed.

Definition mono_at (f : nat) : Prop :=
  (forall s, scan_value f s <> OutOfFuel -> scan_value (S f) s = scan_value f s) /\
  (forall s, arr_loop f s <> OutOfFuel -> arr_loop (S f) s = arr_loop f s) /\
  (forall s, obj_loop f s <> OutOfFuel -> obj_loop (S f) s = obj_loop f s).

Lemma mono f : mono_at f.
Proof.
  induction f as [|f (IHv & IHa & IHo)].
  - repeat split; intros s H; exfalso; apply H; reflexivity.
  - repeat split; intros s H.
    + rewrite scan_value_S in H. rewrite (scan_value_S (S f)), (scan_value_S f).
      unfold value_body in *. destruct s as [|c r]; [reflexivity|].
      destruct (c =? c_dq); [reflexivity|]. destruct (c =? c_lbrc).
      { destruct (skip_ws r) as [|d r2]; [reflexivity|]. destruct (d =? c_rbrc); [reflexivity|].
        destruct (d =? c_dq); [|reflexivity]. apply bind2_mono; [apply IHo|reflexivity|exact H]. }
      destruct (c =? c_lbrk); [|reflexivity].
      destruct (skip_ws r) as [|d r2]; [reflexivity|]. destruct (d =? c_rbrk); [reflexivity|].
      apply bind2_mono; [apply IHa|reflexivity|exact H].
    + rewrite arr_loop_S in H. rewrite (arr_loop_S (S f)), (arr_loop_S f).
      apply bind2_mono; [apply IHv| |exact H]. intros v r Hk. unfold arr_cont in *.
      destruct (skip_ws r) as [|d r2]; [reflexivity|]. destruct (d =? c_rbrk); [reflexivity|].
      destruct (d =? c_comma); [|reflexivity]. apply bind2_mono; [apply IHa|reflexivity|exact Hk].
    + rewrite obj_loop_S in H. rewrite (obj_loop_S (S f)), (obj_loop_S f).
      apply bind2_mono; [reflexivity| |exact H]. intros key r Hk. unfold obj_cont1 in *.
      destruct (skip_ws r) as [|d r2]; [reflexivity|]. destruct (d =? c_colon); [|reflexivity].
      apply bind2_mono; [apply IHv| |exact Hk]. intros v r3 Hk2. unfold obj_cont2 in *.
      destruct (skip_ws r3) as [|d2 r4]; [reflexivity|]. destruct (d2 =? c_rbrc); [reflexivity|].
      destruct (d2 =? c_comma); [|reflexivity]. destruct (skip_ws r4) as [|d3 r5]; [reflexivity|].
      destruct (d3 =? c_dq); [|reflexivity]. apply bind2_mono; [apply IHo|reflexivity|exact Hk2].
Qed.

Theorem scan_value_fuel_mono f f' s : (f <= f')%nat -> scan_value f s <> OutOfFuel ->
  scan_value f' s = scan_value f s.
Proof.
  induction 1 as [|f' Hle IH]; intros H; [reflexivity|].
  rewrite <- (IH H). apply (mono f'). now rewrite (IH H).
Qed.

(* --- every scan consumes text ---------------------------------------------------------- *)
Lemma skip_ws_length s : (length (skip_ws s) <= length s)%nat.
Proof. induction s as [|c s IH]; cbn [skip_ws]; [lia|]. destruct (is_ws c); cbn [length]; lia. Qed.

Lemma cons_res_ok c x str r : cons_res c x = Ok (str, r) -> exists str', x = Ok (str', r) /\ str = c :: str'.
Proof. destruct x as [[s' r']| |]; cbn; intros H; try discriminate. injection H as <- <-. now exists s'. Qed.

Lemma scanstring_consumes : forall n s str r, (length s <= n)%nat -> scanstring s = Ok (str, r) ->
  (length r < length s)%nat.
Proof.
  induction n as [|n IH]; intros s str r Hn H.
  - destruct s; [discriminate H|cbn in Hn; lia].
  - destruct s as [|c s]; [discriminate H|]. cbn [scanstring] in H. cbn [length] in *.
    destruct (c =? c_dq). { injection H as _ <-. lia. }
    destruct (c =? c_bs).
    + destruct s as [|e r1]; [discriminate H|]. destruct (e =? c_u).
      * destruct r1 as [|h1 [|h2 [|h3 [|h4 r2]]]]; try discriminate H.
        destruct (hex4val h1 h2 h3 h4) as [u|]; [|discriminate H].
        assert (Hplain : forall str, cons_res u (scanstring r2) = Ok (str, r) -> (length r < S (S (S (S (S (S (length r2)))))))%nat).
        { intros str0 H0. apply cons_res_ok in H0. destruct H0 as (str' & H0 & _).
          apply IH in H0; [lia|]. cbn [length] in Hn. lia. }
        cbn [length].
        destruct (is_high u); [|now apply Hplain in H].
        destruct r2 as [|b [|u' [|g1 [|g2 [|g3 [|g4 r3]]]]]]; try (now apply Hplain in H).
        destruct ((b =? c_bs) && (u' =? c_u)); [|now apply Hplain in H].
        destruct (hex4val g1 g2 g3 g4) as [u2|]; [|discriminate H].
        destruct (is_low u2); [|now apply Hplain in H].
        apply cons_res_ok in H. destruct H as (str' & H0 & _).
        apply IH in H0; [cbn [length]; lia|]. cbn [length] in Hn. lia.
      * destruct (backslash e); [|discriminate H]. apply cons_res_ok in H. destruct H as (str' & H0 & _).
        apply IH in H0; [cbn [length]; lia|]. cbn [length] in Hn. lia.
    + destruct (c <? 32); [discriminate H|]. apply cons_res_ok in H. destruct H as (str' & H0 & _).
      apply IH in H0; [lia|]. lia.
Qed.

Lemma strip_prefix_length p : forall s r, strip_prefix p s = Some r -> length s = (length p + length r)%nat.
Proof.
  induction p as [|a p IH]; intros s r H; cbn [strip_prefix] in H.
  - injection H as <-. reflexivity.
  - destruct s as [|b s]; [discriminate|]. destruct (a =? b); [|discriminate]. cbn [length]. now rewrite (IH _ _ H).
Qed.

Lemma scan_scalar_consumes s v r : scan_scalar s = Ok (v, r) -> (length r < length s)%nat.
Proof.
  unfold scan_scalar.
  destruct (strip_prefix t_null s) eqn:E1. { intros H. injection H as _ <-. apply strip_prefix_length in E1. cbn in E1. lia. }
  destruct (strip_prefix t_true s) eqn:E2. { intros H. injection H as _ <-. apply strip_prefix_length in E2. cbn in E2. lia. }
  destruct (strip_prefix t_false s) eqn:E3. { intros H. injection H as _ <-. apply strip_prefix_length in E3. cbn in E3. lia. }
  destruct (match_number s) as [[[[i f] e] r']|] eqn:E4.
  { destruct (match_number_decomp _ _ _ _ _ E4) as (Es & _ & c & i' & -> & _).
    assert (length r' < length s)%nat by (rewrite Es, !app_length; cbn [length]; lia).
    destruct (is_nil f && is_nil e); [destruct (Nat.leb _ _)|]; intros H0; try discriminate H0; injection H0 as _ <-; assumption. }
  destruct (strip_prefix t_NaN s) eqn:E5. { intros H. injection H as _ <-. apply strip_prefix_length in E5. cbn in E5. lia. }
  destruct (strip_prefix t_Infinity s) eqn:E6. { intros H. injection H as _ <-. apply strip_prefix_length in E6. cbn in E6. lia. }
  destruct (strip_prefix t_mInfinity s) eqn:E7. { intros H. injection H as _ <-. apply strip_prefix_length in E7. cbn in E7. lia. }
  discriminate.
Qed.

Lemma bind2_ok {A B} (a : res (A * list Z)) (k : A -> list Z -> res B) y :
  bind2 a k = Ok y -> exists x r, a = Ok (x, r) /\ k x r = Ok y.
Proof. destruct a as [[x r]| |]; cbn; intros H; try discriminate. now exists x, r. Qed.

Definition consumes_at (f : nat) : Prop :=
  (forall s v r, scan_value f s = Ok (v, r) -> (length r < length s)%nat) /\
  (forall s vs r, arr_loop f s = Ok (vs, r) -> (length r < length s)%nat) /\
  (forall s kvs r, obj_loop f s = Ok (kvs, r) -> (length r < length s)%nat).

Lemma consumes f : consumes_at f.
Proof.
  induction f as [|f (IHv & IHa & IHo)].
  - repeat split; intros; discriminate.
  - repeat split.
    + intros s v r H. rewrite scan_value_S in H. unfold value_body in H.
      destruct s as [|c s]; [discriminate H|]. cbn [length].
      destruct (c =? c_dq).
      { apply bind2_ok in H. destruct H as (str & r' & H1 & H2). injection H2 as _ <-.
        apply (scanstring_consumes _ _ _ _ (le_n _)) in H1. lia. }
      destruct (c =? c_lbrc).
      { pose proof (skip_ws_length s) as Hw. destruct (skip_ws s) as [|d r2]; [discriminate H|]. cbn [length] in Hw.
        destruct (d =? c_rbrc). { injection H as _ <-. lia. }
        destruct (d =? c_dq); [|discriminate H].
        apply bind2_ok in H. destruct H as (kvs & r' & H1 & H2). injection H2 as _ <-. apply IHo in H1. lia. }
      destruct (c =? c_lbrk).
      { pose proof (skip_ws_length s) as Hw. destruct (skip_ws s) as [|d r2]; [discriminate H|]. cbn [length] in Hw.
        destruct (d =? c_rbrk). { injection H as _ <-. lia. }
        apply bind2_ok in H. destruct H as (vs & r' & H1 & H2). injection H2 as _ <-. apply IHa in H1. cbn [length] in H1. lia. }
      apply scan_scalar_consumes in H. cbn [length] in H. exact H.
    + intros s vs r H. rewrite arr_loop_S in H. apply bind2_ok in H. destruct H as (v & r1 & H1 & H2).
      apply IHv in H1. unfold arr_cont in H2.
      pose proof (skip_ws_length r1) as Hw. destruct (skip_ws r1) as [|d r2]; [discriminate H2|]. cbn [length] in Hw.
      destruct (d =? c_rbrk). { injection H2 as _ <-. lia. }
      destruct (d =? c_comma); [|discriminate H2].
      apply bind2_ok in H2. destruct H2 as (vs' & r' & H3 & H4). injection H4 as _ <-. apply IHa in H3.
      pose proof (skip_ws_length r2). lia.
    + intros s kvs r H. rewrite obj_loop_S in H. apply bind2_ok in H. destruct H as (key & r1 & H1 & H2).
      apply (scanstring_consumes _ _ _ _ (le_n _)) in H1. unfold obj_cont1 in H2.
      pose proof (skip_ws_length r1) as Hw. destruct (skip_ws r1) as [|d r2]; [discriminate H2|]. cbn [length] in Hw.
      destruct (d =? c_colon); [|discriminate H2].
      apply bind2_ok in H2. destruct H2 as (v & r3 & H3 & H4). apply IHv in H3. pose proof (skip_ws_length r2) as Hw2.
      unfold obj_cont2 in H4.
      pose proof (skip_ws_length r3) as Hw3. destruct (skip_ws r3) as [|d2 r4]; [discriminate H4|]. cbn [length] in Hw3.
      destruct (d2 =? c_rbrc). { injection H4 as _ <-. lia. }
      destruct (d2 =? c_comma); [|discriminate H4].
      pose proof (skip_ws_length r4) as Hw4. destruct (skip_ws r4) as [|d3 r5]; [discriminate H4|]. cbn [length] in Hw4.
      destruct (d3 =? c_dq); [|discriminate H4].
      apply bind2_ok in H4. destruct H4 as (kvs' & r' & H5 & H6). injection H6 as _ <-. apply IHo in H5. lia.
Qed.

(* --- OutOfFuel is unreachable with fuel 2 * length + 1 ---------------------------------- *)
Lemma bind2_noof {A B} (a : res (A * list Z)) (k : A -> list Z -> res B) :
  a <> OutOfFuel -> (forall x r, a = Ok (x, r) -> k x r <> OutOfFuel) -> bind2 a k <> OutOfFuel.
Proof. destruct a as [[x r]| |]; cbn; intros Ha Hk; [now apply Hk|discriminate|contradiction]. Qed.

Lemma cons_res_noof c x : x <> OutOfFuel -> cons_res c x <> OutOfFuel.
Proof. destruct x as [[s r]| |]; cbn; intros H; [discriminate|discriminate|contradiction]. Qed.

Lemma scanstring_noof : forall n s, (length s <= n)%nat -> scanstring s <> OutOfFuel.
Proof.
  induction n as [|n IH]; intros s Hn.
  - destruct s; [discriminate|cbn in Hn; lia].
  - destruct s as [|c s]; [discriminate|]. cbn [scanstring]. cbn [length] in Hn.
    destruct (c =? c_dq); [discriminate|]. destruct (c =? c_bs).
    + destruct s as [|e r1]; [discriminate|]. destruct (e =? c_u).
      * destruct r1 as [|h1 [|h2 [|h3 [|h4 r2]]]]; try discriminate.
        destruct (hex4val h1 h2 h3 h4) as [u|]; [|discriminate].
        assert (Hplain : cons_res u (scanstring r2) <> OutOfFuel).
        { apply cons_res_noof, IH. cbn [length] in Hn. lia. }
        destruct (is_high u); [|exact Hplain].
        destruct r2 as [|b [|u' [|g1 [|g2 [|g3 [|g4 r3]]]]]]; try exact Hplain.
        destruct ((b =? c_bs) && (u' =? c_u)); [|exact Hplain].
        destruct (hex4val g1 g2 g3 g4) as [u2|]; [|discriminate].
        destruct (is_low u2); [|exact Hplain].
        apply cons_res_noof, IH. cbn [length] in Hn. lia.
      * destruct (backslash e); [|discriminate]. apply cons_res_noof, IH. cbn [length] in Hn. lia.
    + destruct (c <? 32); [discriminate|]. apply cons_res_noof, IH. lia.
Qed.

Lemma scan_scalar_noof s : scan_scalar s <> OutOfFuel.
Proof.
  unfold scan_scalar.
  destruct (strip_prefix t_null s); [discriminate|]. destruct (strip_prefix t_true s); [discriminate|].
  destruct (strip_prefix t_false s); [discriminate|].
  destruct (match_number s) as [[[[i f] e] r']|].
  { destruct (is_nil f && is_nil e); [destruct (Nat.leb _ _)|]; discriminate. }
  destruct (strip_prefix t_NaN s); [discriminate|]. destruct (strip_prefix t_Infinity s); [discriminate|].
  destruct (strip_prefix t_mInfinity s); discriminate.
Qed.

Definition enough_at (f : nat) : Prop :=
  (forall s, (2 * length s < f)%nat -> scan_value f s <> OutOfFuel) /\
  (forall s, (2 * length s + 1 < f)%nat -> arr_loop f s <> OutOfFuel) /\
  (forall s, (2 * length s + 1 < f)%nat -> obj_loop f s <> OutOfFuel).

Lemma enough f : enough_at f.
Proof.
  induction f as [|f (IHv & IHa & IHo)].
  - repeat split; intros; lia.
  - destruct (consumes f) as (Cv & Ca & Co). repeat split; intros s Hf.
    + rewrite scan_value_S. unfold value_body. destruct s as [|c s]; [discriminate|]. cbn [length] in Hf.
      destruct (c =? c_dq).
      { apply bind2_noof; [apply (scanstring_noof _ _ (le_n _))|discriminate]. }
      destruct (c =? c_lbrc).
      { pose proof (skip_ws_length s) as Hw. destruct (skip_ws s) as [|d r2]; [discriminate|]. cbn [length] in Hw.
        destruct (d =? c_rbrc); [discriminate|]. destruct (d =? c_dq); [|discriminate].
        apply bind2_noof; [apply IHo; lia|discriminate]. }
      destruct (c =? c_lbrk); [|apply scan_scalar_noof].
      pose proof (skip_ws_length s) as Hw. destruct (skip_ws s) as [|d r2]; [discriminate|].
      destruct (d =? c_rbrk); [discriminate|].
      apply bind2_noof; [apply IHa; lia|discriminate].
    + rewrite arr_loop_S. apply bind2_noof; [apply IHv; lia|]. intros v r1 H1. apply Cv in H1. unfold arr_cont.
      pose proof (skip_ws_length r1) as Hw. destruct (skip_ws r1) as [|d r2]; [discriminate|]. cbn [length] in Hw.
      destruct (d =? c_rbrk); [discriminate|]. destruct (d =? c_comma); [|discriminate].
      pose proof (skip_ws_length r2). apply bind2_noof; [apply IHa; lia|discriminate].
    + rewrite obj_loop_S. apply bind2_noof; [apply (scanstring_noof _ _ (le_n _))|]. intros key r1 H1.
      apply (scanstring_consumes _ _ _ _ (le_n _)) in H1. unfold obj_cont1.
      pose proof (skip_ws_length r1) as Hw. destruct (skip_ws r1) as [|d r2]; [discriminate|]. cbn [length] in Hw.
      destruct (d =? c_colon); [|discriminate].
      pose proof (skip_ws_length r2) as Hw2. apply bind2_noof; [apply IHv; lia|]. intros v r3 H3. apply Cv in H3.
      unfold obj_cont2.
      pose proof (skip_ws_length r3) as Hw3. destruct (skip_ws r3) as [|d2 r4]; [discriminate|]. cbn [length] in Hw3.
      destruct (d2 =? c_rbrc); [discriminate|]. destruct (d2 =? c_comma); [|discriminate].
      pose proof (skip_ws_length r4) as Hw4. destruct (skip_ws r4) as [|d3 r5]; [discriminate|]. cbn [length] in Hw4.
      destruct (d3 =? c_dq); [|discriminate]. apply bind2_noof; [apply IHo; lia|discriminate].
Qed.

Theorem scan_value_enough_fuel s : scan_value (loads_fuel s) s <> OutOfFuel.
Proof. apply (enough (loads_fuel s)). unfold loads_fuel. lia. Qed.

Theorem loads_never_out_of_fuel s : loads s <> OutOfFuel.
Proof.
  unfold loads. destruct s as [|c s]; [discriminate|]. destruct (c =? 65279); [discriminate|].
  apply bind2_noof; [apply scan_value_enough_fuel|]. intros v r _. destruct (skip_ws r); discriminate.
Qed.

(* a result obtained with any fuel is the result loads computes *)
Lemma scan_value_any_fuel f s x : scan_value f s = Ok x -> scan_value (loads_fuel s) s = Ok x.
Proof.
  intros H. destruct (Nat.le_ge_cases f (loads_fuel s)) as [Hle|Hle].
  - rewrite (scan_value_fuel_mono _ _ _ Hle); [exact H|]. rewrite H. discriminate.
  - rewrite <- H. symmetry. apply scan_value_fuel_mono; [exact Hle|apply scan_value_enough_fuel].
Qed.
