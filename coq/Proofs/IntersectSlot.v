(* Facts about Model/Timeslot.v (the third-party Timeslot class), for all slots, including
   slots of negative duration.  No property statements here. *)
From AwVerif Require Import Base.Prelude Model.Timeslot.
From Coq Require Import ZifyBool.

Ltac split_ifs :=
  repeat match goal with
  | |- context [if ?b then _ else _] => let E := fresh "E" in destruct b eqn:E
  | H : context [if ?b then _ else _] |- _ => let E := fresh "E" in destruct b eqn:E
  end.

(* a slot whose intersection exists is [max starts, min ends] -- for all slots *)
Lemma intersection_value : forall p q r,
  slot_intersection p q = Some r ->
  tstart r = Z.max (tstart p) (tstart q) /\ tend r = Z.min (tend p) (tend q).
Proof.
  intros [sp ep] [sq eq] r. unfold slot_intersection, slot_contains; cbn [tstart tend].
  split_ifs; intros H; inversion H; subst; cbn [tstart tend]; lia.
Qed.

(* positive common time implies an intersection is returned *)
Lemma intersection_pos : forall p q,
  Z.max (tstart p) (tstart q) < Z.min (tend p) (tend q) ->
  exists r, slot_intersection p q = Some r.
Proof.
  intros [sp ep] [sq eq]. unfold slot_intersection, slot_contains; cbn [tstart tend].
  intros H. split_ifs; eauto. exfalso. lia.
Qed.

(* no intersection => one slot ends no later than the other starts.  This is what makes
   the "Should be unreachable" branch of _intersecting_eventpairs dead, for ALL slots. *)
Lemma intersection_none : forall p q,
  slot_intersection p q = None -> tend p <= tstart q \/ tend q <= tstart p.
Proof.
  intros [sp ep] [sq eq]. unfold slot_intersection, slot_contains; cbn [tstart tend].
  split_ifs; intros H; try discriminate; lia.
Qed.

(* for valid slots the returned intersection is a valid slot *)
Lemma intersection_valid : forall p q r,
  tstart p <= tend p -> tstart q <= tend q ->
  slot_intersection p q = Some r -> tstart r <= tend r.
Proof.
  intros [sp ep] [sq eq] r. unfold slot_intersection, slot_contains; cbn [tstart tend].
  intros Hp Hq. split_ifs; intros H; inversion H; subst; cbn [tstart tend]; lia.
Qed.

(* for valid slots: an intersection is returned iff the closed slots meet and it is not a
   mere touch of two positive-length slots at an end point *)
Lemma intersection_some_closed : forall p q r,
  slot_intersection p q = Some r ->
  tstart p <= tend p -> tstart q <= tend q ->
  Z.max (tstart p) (tstart q) <= Z.min (tend p) (tend q).
Proof.
  intros p q r H Hp Hq. pose proof (intersection_valid _ _ _ Hp Hq H) as Hv.
  apply intersection_value in H. lia.
Qed.

Lemma gap_none_iff : forall p q,
  slot_gap p q = None <-> (tstart q <= tend p /\ tstart p <= tend q).
Proof.
  intros [sp ep] [sq eq]. unfold slot_gap; cbn [tstart tend].
  split_ifs; split; intros H; try discriminate; try reflexivity; lia.
Qed.

Lemma gap_some_value : forall p q g,
  slot_gap p q = Some g ->
  (tend p < tstart q /\ g = mkSlot (tend p) (tstart q)) \/
  (tstart q <= tend p /\ tend q < tstart p /\ g = mkSlot (tend q) (tstart p)).
Proof.
  intros [sp ep] [sq eq] g. unfold slot_gap; cbn [tstart tend].
  split_ifs; intros H; inversion H; subst; [left|right]; repeat split; lia.
Qed.

(* union succeeds exactly when there is no gap, and is then the hull *)
Lemma union_ok_iff : forall p q,
  slot_gap p q = None ->
  slot_union p q = Ok (mkSlot (Z.min (tstart p) (tstart q)) (Z.max (tend p) (tend q))).
Proof. intros p q H. unfold slot_union. rewrite H. reflexivity. Qed.

Lemma union_err_iff : forall p q,
  (exists c, slot_union p q = Err c) <-> slot_gap p q <> None.
Proof.
  intros p q. unfold slot_union. destruct (slot_gap p q); split.
  - intros _. discriminate.
  - intros _. eauto.
  - intros [c H]. discriminate.
  - intros H. congruence.
Qed.
