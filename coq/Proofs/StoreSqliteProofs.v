(* Sqlite back end: representation invariant (holds initially, preserved by every op with
   every argument), per-statement footprint lemmas and the frame theorem (C04). *)
From Coq Require Import Permutation Sorted ZifyBool.
From AwVerif Require Import Base.Prelude Model.StoreBase Model.SqliteStore
  Proofs.StoreBaseFacts.

Record sq_Inv (c : sqstate) : Prop := mkSqInv {
  sqi_rowids : NoDup (map br_rowid (sq_buckets c));
  sqi_bids : NoDup (map br_id (sq_buckets c));
  sqi_rowid_bound : forall r, In r (sq_buckets c) -> br_rowid r <= sq_seq_b c;
  sqi_eids : NoDup (map er_id (sq_events c));
  sqi_eid_bound : forall r, In r (sq_events c) -> er_id r <= sq_seq_e c;
  sqi_owner : forall r, In r (sq_events c) -> In (er_bucket r) (map br_rowid (sq_buckets c)) }.

Lemma sq_Inv_init : sq_Inv sq_init.
Proof. constructor; cbn; try constructor; intros r []. Qed.

(* ---------- looking buckets up ---------- *)
Definition bucket_row (c : sqstate) (b : Z) : option brow :=
  find (fun r => br_id r =? b) (sq_buckets c).

Lemma bucket_row_In : forall c b r, bucket_row c b = Some r -> In r (sq_buckets c) /\ br_id r = b.
Proof. unfold bucket_row. intros c b r H. apply find_some in H as [H1 H2]. split; [assumption|lia]. Qed.

Lemma sql_bucket_rowid_row : forall c b,
  sql_bucket_rowid c b = option_map br_rowid (bucket_row c b).
Proof. intros. unfold sql_bucket_rowid, bucket_row. now destruct (find _ _). Qed.

Lemma rowid_distinct : forall c r r',
  sq_Inv c -> In r (sq_buckets c) -> In r' (sq_buckets c) -> br_id r <> br_id r' ->
  br_rowid r <> br_rowid r'.
Proof.
  intros c r r' I H H' D E. apply D. f_equal.
  eapply NoDup_map_inj; [apply (sqi_rowids c I)|assumption|assumption|assumption].
Qed.

Lemma sq_view_row : forall c b,
  sq_view c b = match bucket_row c b with
                | Some r => Some (br_meta r, map row_event (filter (fun e => er_bucket e =? br_rowid r) (sq_events c)))
                | None => None
                end.
Proof. reflexivity. Qed.

(* a statement that leaves the bucket rows alone and keeps the rows of bucket b' *)
Lemma sq_view_events_only : forall c c' b',
  sq_buckets c' = sq_buckets c ->
  (forall r', bucket_row c b' = Some r' ->
     filter (fun e => er_bucket e =? br_rowid r') (sq_events c')
     = filter (fun e => er_bucket e =? br_rowid r') (sq_events c)) ->
  sq_view c' b' = sq_view c b'.
Proof.
  intros c c' b' Hb He. rewrite !sq_view_row. unfold bucket_row in *. rewrite Hb.
  destruct (find _ (sq_buckets c)) as [r'|]; [|reflexivity]. now rewrite (He r' eq_refl).
Qed.

(* the rowid a foreign bucket's sub-select yields differs from ours *)
Lemma foreign_rowid : forall c b b' r' rid,
  sq_Inv c -> b' <> b -> bucket_row c b' = Some r' -> sql_bucket_rowid c b = Some rid ->
  rid <> br_rowid r'.
Proof.
  intros c b b' r' rid I D H' H. rewrite sql_bucket_rowid_row in H.
  destruct (bucket_row c b) as [r|] eqn:E; [|discriminate]. inversion H; subst.
  apply bucket_row_In in E as [E1 E2]. apply bucket_row_In in H' as [H1 H2].
  apply (rowid_distinct c); try assumption. congruence.
Qed.

(* ---------- invariant: statements on the events table ---------- *)
Lemma sq_Inv_update_events : forall c q f,
  (forall r, er_id (f r) = er_id r /\ er_bucket (f r) = er_bucket r) ->
  sq_Inv c -> sq_Inv (with_events c (update_where q f (sq_events c)) (sq_seq_e c)).
Proof.
  intros c q f Hf I. destruct I as [I1 I2 I3 I4 I5 I6]. constructor; cbn; try assumption.
  - rewrite map_update_where; [assumption|]. intro r. apply Hf.
  - intros x Hx. apply In_update_where in Hx as [r [Ir [->|[_ ->]]]]; [now apply I5|].
    rewrite (proj1 (Hf r)). now apply I5.
  - intros x Hx. apply In_update_where in Hx as [r [Ir [->|[_ ->]]]]; [now apply I6|].
    rewrite (proj2 (Hf r)). now apply I6.
Qed.

Lemma sq_Inv_delete_events : forall c q,
  sq_Inv c -> sq_Inv (with_events c (delete_where q (sq_events c)) (sq_seq_e c)).
Proof.
  intros c q I. destruct I as [I1 I2 I3 I4 I5 I6]. constructor; cbn; try assumption.
  - now apply NoDup_map_delete_where.
  - intros x Hx. apply In_delete_where in Hx as [Hx _]. now apply I5.
  - intros x Hx. apply In_delete_where in Hx as [Hx _]. now apply I6.
Qed.

Lemma sq_Inv_insert_event : forall c b e c' i,
  sql_insert_event c b e = Ok (c', i) -> sq_Inv c -> sq_Inv c'.
Proof.
  intros c b e c' i H I. unfold sql_insert_event in H.
  destruct (sql_bucket_rowid c b) as [rid|] eqn:E; [|discriminate]. inversion H; subst; clear H.
  rewrite sql_bucket_rowid_row in E. destruct (bucket_row c b) as [r|] eqn:Er; [|discriminate].
  inversion E; subst. apply bucket_row_In in Er as [Er _].
  destruct I as [I1 I2 I3 I4 I5 I6]. constructor; cbn; try assumption.
  - rewrite map_app. cbn. apply NoDup_app_snoc; [assumption|].
    intro Hin. apply in_map_iff in Hin as [x [Ex Ix]]. specialize (I5 x Ix). lia.
  - intros x Hx. apply in_app_iff in Hx as [Hx|[<-|[]]]; [specialize (I5 x Hx); lia|cbn; lia].
  - intros x Hx. apply in_app_iff in Hx as [Hx|[<-|[]]]; [now apply I6|]. cbn. now apply in_map.
Qed.

Lemma set_cells_keeps : forall e r, er_id (set_cells r e) = er_id r /\ er_bucket (set_cells r e) = er_bucket r.
Proof. intros. split; reflexivity. Qed.

Lemma sq_Inv_update_event : forall c b i e, sq_Inv c -> sq_Inv (sql_update_event c b i e).
Proof. intros. unfold sql_update_event. apply sq_Inv_update_events; [apply set_cells_keeps|assumption]. Qed.

Lemma sq_Inv_update_newest : forall c b e, sq_Inv c -> sq_Inv (sql_update_newest c b e).
Proof. intros. unfold sql_update_newest. apply sq_Inv_update_events; [apply set_cells_keeps|assumption]. Qed.

Lemma sq_Inv_delete_event : forall c b i, sq_Inv c -> sq_Inv (fst (sql_delete_event c b i)).
Proof. intros. unfold sql_delete_event. cbn. now apply sq_Inv_delete_events. Qed.

Lemma sq_Inv_upserts : forall es c b, sq_Inv c -> sq_Inv (sq_upserts c b es).
Proof.
  induction es as [|e t IH]; intros c b I; [assumption|]. cbn.
  destruct (eid e); [apply IH; now apply sq_Inv_update_event|now apply IH].
Qed.

Lemma sq_Inv_executemany : forall es c b, sq_Inv c -> sq_Inv (fst (sq_executemany_insert c b es)).
Proof.
  induction es as [|e t IH]; intros c b I; [assumption|]. cbn.
  destruct (sql_insert_event c b e) as [[c' i]|k|] eqn:E; [|assumption|assumption].
  apply IH. eapply sq_Inv_insert_event; eassumption.
Qed.

(* ---------- invariant: statements on the buckets table ---------- *)
Lemma sq_Inv_insert_bucket : forall c b m c',
  sql_insert_bucket c b m = Ok c' -> sq_Inv c -> sq_Inv c'.
Proof.
  intros c b m c' H I. unfold sql_insert_bucket in H.
  destruct (existsb _ _) eqn:X; [discriminate|]. inversion H; subst; clear H.
  destruct I as [I1 I2 I3 I4 I5 I6]. constructor; cbn; try assumption.
  - rewrite map_app. cbn. apply NoDup_app_snoc; [assumption|].
    intro Hin. apply in_map_iff in Hin as [x [Ex Ix]]. specialize (I3 x Ix). lia.
  - rewrite map_app. cbn. apply NoDup_app_snoc; [assumption|].
    intro Hin. apply in_map_iff in Hin as [x [Ex Ix]].
    assert (existsb (fun r => br_id r =? b) (sq_buckets c) = true); [|congruence].
    apply existsb_exists. exists x. split; [assumption|lia].
  - intros x Hx. apply in_app_iff in Hx as [Hx|[<-|[]]]; [specialize (I3 x Hx); lia|cbn; lia].
  - intros x Hx. rewrite map_app. apply in_app_iff. left. now apply I6.
Qed.

Lemma sq_Inv_update_bucket : forall c b ty cl ho na da,
  sq_Inv c -> sq_Inv (sql_update_bucket c b ty cl ho na da).
Proof.
  intros c b ty cl ho na da I. destruct I as [I1 I2 I3 I4 I5 I6]. unfold sql_update_bucket.
  constructor; cbn; try assumption.
  - rewrite map_update_where; [assumption|reflexivity].
  - rewrite map_update_where; [assumption|reflexivity].
  - intros x Hx. apply In_update_where in Hx as [r [Ir [->|[_ ->]]]]; [now apply I3|cbn; now apply I3].
  - intros x Hx. rewrite map_update_where; [now apply I6|reflexivity].
Qed.

Lemma sq_Inv_delete_bucket : forall c b,
  sq_Inv c -> sq_Inv (fst (sql_delete_bucket (sql_delete_events_of c b) b)).
Proof.
  intros c b I. destruct I as [I1 I2 I3 I4 I5 I6]. unfold sql_delete_bucket, sql_delete_events_of.
  constructor; cbn.
  - now apply NoDup_map_delete_where.
  - now apply NoDup_map_delete_where.
  - intros x Hx. apply In_delete_where in Hx as [Hx _]. now apply I3.
  - now apply NoDup_map_delete_where.
  - intros x Hx. apply In_delete_where in Hx as [Hx _]. now apply I5.
  - intros x Hx. apply In_delete_where in Hx as [Hx Q].
    specialize (I6 x Hx). apply in_map_iff in I6 as [br [Eb Ib]].
    apply in_map_iff. exists br. split; [assumption|].
    unfold delete_where. apply filter_In. split; [assumption|].
    destruct (br_id br =? b) eqn:Eid; [|reflexivity]. exfalso.
    assert (existsb (fun rid => er_bucket x =? rid)
              (map br_rowid (filter (fun r => br_id r =? b) (sq_buckets c))) = true); [|congruence].
    apply existsb_exists. exists (br_rowid br). split; [|lia].
    apply in_map. apply filter_In. split; assumption.
Qed.

(* ---------- invariant: every op ---------- *)
Theorem sq_step_Inv : forall c o, sq_Inv c -> sq_Inv (fst (sq_step c o)).
Proof.
  intros c o I. destruct o as [b m|b ty cl ho na da|b| |b|b e|b es|b i e|b e|b i|b i|b l s e|b s e]; cbn.
  - destruct (sql_insert_bucket c b m) as [c'|k|] eqn:E; [|assumption|assumption].
    cbn. eapply sq_Inv_insert_bucket; eassumption.
  - destruct (negb _); [assumption|]. cbn. now apply sq_Inv_update_bucket.
  - exact (sq_Inv_delete_bucket c b I).
  - assumption.
  - assumption.
  - destruct (sql_insert_event c b e) as [[c' i]|k|] eqn:E; [|assumption|assumption].
    cbn. eapply sq_Inv_insert_event; eassumption.
  - apply sq_Inv_executemany. now apply sq_Inv_upserts.
  - now apply sq_Inv_update_event.
  - now apply sq_Inv_update_newest.
  - exact (sq_Inv_delete_event c b i I).
  - assumption.
  - destruct (l =? 0); assumption.
  - assumption.
Qed.

Lemma sq_run_Inv : forall h c, sq_Inv c -> sq_Inv (sq_run c h).
Proof.
  induction h as [|o t IH]; intros c I; [assumption|]. cbn. apply IH. now apply sq_step_Inv.
Qed.

(* ---------- footprints ---------- *)
Lemma eq_nullable_true : forall x o, eq_nullable x o = true -> o = Some x.
Proof. unfold eq_nullable. intros x [y|] H; [f_equal; lia|discriminate]. Qed.

(* UPDATE ... WHERE id = ? AND bucketrow = (SELECT rowid ... id = b) *)
Lemma sql_update_event_frame : forall c b i e b',
  sq_Inv c -> b' <> b -> sq_view (sql_update_event c b i e) b' = sq_view c b'.
Proof.
  intros c b i e b' I D. apply sq_view_events_only; [reflexivity|].
  intros r' Hr'. cbn. apply filter_update_where_other. intros r Ir Q.
  apply andb_prop in Q as [_ Q]. apply eq_nullable_true in Q.
  pose proof (foreign_rowid c b b' r' (er_bucket r) I D Hr' Q) as N.
  split; cbn; lia.
Qed.

Lemma sql_newest_id_owned : forall c b i,
  sql_newest_id c b = Some i ->
  exists r, In r (sq_events c) /\ er_id r = i /\ sql_bucket_rowid c b = Some (er_bucket r).
Proof.
  intros c b i H. unfold sql_newest_id, sql_order_start_desc_id_desc in H.
  destruct (sort_by _ _) as [|r t] eqn:E; [discriminate|]. inversion H; subst; clear H.
  assert (Ir : In r (r :: t)) by now left. rewrite <- E in Ir.
  apply sort_by_In, sort_by_In in Ir. unfold select_where in Ir. apply filter_In in Ir as [Ir Q].
  apply eq_nullable_true in Q. eauto.
Qed.

(* UPDATE ... WHERE id = (SELECT id ... bucketrow = (b) ORDER BY ... LIMIT 1) *)
Lemma sql_update_newest_frame : forall c b e b',
  sq_Inv c -> b' <> b -> sq_view (sql_update_newest c b e) b' = sq_view c b'.
Proof.
  intros c b e b' I D. apply sq_view_events_only; [reflexivity|].
  intros r' Hr'. cbn. apply filter_update_where_other. intros r Ir Q.
  apply eq_nullable_true in Q. apply sql_newest_id_owned in Q as [r0 [I0 [E0 B0]]].
  assert (r0 = r).
  { eapply NoDup_map_inj; [apply (sqi_eids c I)|assumption|assumption|assumption]. }
  subst r0. pose proof (foreign_rowid c b b' r' (er_bucket r) I D Hr' B0) as N.
  split; cbn; lia.
Qed.

(* DELETE FROM events WHERE id = ? AND bucketrow = (...) *)
Lemma sql_delete_event_frame : forall c b i b',
  sq_Inv c -> b' <> b -> sq_view (fst (sql_delete_event c b i)) b' = sq_view c b'.
Proof.
  intros c b i b' I D. apply sq_view_events_only; [reflexivity|].
  intros r' Hr'. cbn. apply filter_delete_where_other. intros r Ir Q.
  apply andb_prop in Q as [_ Q]. apply eq_nullable_true in Q.
  pose proof (foreign_rowid c b b' r' (er_bucket r) I D Hr' Q) as N. lia.
Qed.

(* INSERT INTO events ... VALUES ((SELECT rowid ... id = b), ...) *)
Lemma sql_insert_event_frame : forall c b e c' i b',
  sq_Inv c -> b' <> b -> sql_insert_event c b e = Ok (c', i) -> sq_view c' b' = sq_view c b'.
Proof.
  intros c b e c' i b' I D H. unfold sql_insert_event in H.
  destruct (sql_bucket_rowid c b) as [rid|] eqn:E; [|discriminate]. inversion H; subst; clear H.
  apply sq_view_events_only; [reflexivity|].
  intros r' Hr'. cbn. rewrite filter_app. cbn.
  pose proof (foreign_rowid c b b' r' rid I D Hr' E) as N.
  destruct (rid =? br_rowid r') eqn:X; [lia|]. apply app_nil_r.
Qed.

Lemma sq_upserts_frame : forall es c b b',
  sq_Inv c -> b' <> b -> sq_view (sq_upserts c b es) b' = sq_view c b'.
Proof.
  induction es as [|e t IH]; intros c b b' I D; [reflexivity|]. cbn.
  destruct (eid e) as [i|]; [|now apply IH].
  rewrite IH; [|now apply sq_Inv_update_event|assumption]. now apply sql_update_event_frame.
Qed.

Lemma sq_executemany_frame : forall es c b b',
  sq_Inv c -> b' <> b -> sq_view (fst (sq_executemany_insert c b es)) b' = sq_view c b'.
Proof.
  induction es as [|e t IH]; intros c b b' I D; [reflexivity|]. cbn.
  destruct (sql_insert_event c b e) as [[c' i]|k|] eqn:E; [|reflexivity|reflexivity].
  rewrite IH; [|eapply sq_Inv_insert_event; eassumption|assumption].
  eapply sql_insert_event_frame; eassumption.
Qed.

(* INSERT INTO buckets *)
Lemma sql_insert_bucket_frame : forall c b m c' b',
  b' <> b -> sql_insert_bucket c b m = Ok c' -> sq_view c' b' = sq_view c b'.
Proof.
  intros c b m c' b' D H. unfold sql_insert_bucket in H.
  destruct (existsb _ _); [discriminate|]. inversion H; subst; clear H.
  rewrite !sq_view_row. unfold bucket_row. cbn. rewrite find_app. cbn.
  destruct (find _ (sq_buckets c)); [reflexivity|].
  destruct (b =? b') eqn:X; [lia|reflexivity].
Qed.

(* UPDATE buckets SET ... WHERE id = b *)
Lemma sql_update_bucket_frame : forall c b ty cl ho na da b',
  b' <> b -> sq_view (sql_update_bucket c b ty cl ho na da) b' = sq_view c b'.
Proof.
  intros c b ty cl ho na da b' D. rewrite !sq_view_row. unfold bucket_row, sql_update_bucket. cbn.
  rewrite find_update_where_other; [reflexivity|].
  intros r _ Q. split; cbn; lia.
Qed.

(* DELETE FROM events WHERE bucketrow IN (...); DELETE FROM buckets WHERE id = b *)
Lemma sql_delete_bucket_frame : forall c b b',
  sq_Inv c -> b' <> b ->
  sq_view (fst (sql_delete_bucket (sql_delete_events_of c b) b)) b' = sq_view c b'.
Proof.
  intros c b b' I D. rewrite !sq_view_row. unfold bucket_row, sql_delete_bucket, sql_delete_events_of.
  cbn [fst sq_buckets sq_events with_buckets with_events].
  rewrite find_delete_where_other; [|intros r _ P; lia].
  destruct (find (fun r => br_id r =? b') (sq_buckets c)) as [r'|] eqn:F; [|reflexivity].
  f_equal. f_equal. f_equal. apply filter_delete_where_other. intros r Ir Q.
  apply existsb_exists in Q as [rid [Hrid Erid]]. apply in_map_iff in Hrid as [br [Ebr Ibr]].
  apply filter_In in Ibr as [Ibr Eid]. apply find_some in F as [F1 F2].
  assert (br_rowid br <> br_rowid r'); [|lia].
  apply (rowid_distinct c); try assumption. lia.
Qed.

(* ---------- C04: frame, every op, every argument ---------- *)
Theorem sq_frame : forall c o b', sq_Inv c -> target o <> Some b' ->
  sq_view (fst (sq_step c o)) b' = sq_view c b'.
Proof.
  intros c o b' I T.
  destruct o as [b m|b ty cl ho na da|b| |b|b e|b es|b i e|b e|b i|b i|b l s e|b s e]; cbn in T;
    try (assert (D : b' <> b) by congruence); cbn.
  - destruct (sql_insert_bucket c b m) as [c'|k|] eqn:E; [|reflexivity|reflexivity].
    cbn. eapply sql_insert_bucket_frame; eassumption.
  - destruct (negb _); [reflexivity|]. cbn. now apply sql_update_bucket_frame.
  - exact (sql_delete_bucket_frame c b b' I D).
  - reflexivity.
  - reflexivity.
  - destruct (sql_insert_event c b e) as [[c' i]|k|] eqn:E; [|reflexivity|reflexivity].
    cbn. eapply sql_insert_event_frame; eassumption.
  - rewrite sq_executemany_frame; [|now apply sq_Inv_upserts|assumption].
    now apply sq_upserts_frame.
  - now apply sql_update_event_frame.
  - now apply sql_update_newest_frame.
  - exact (sql_delete_event_frame c b i b' I D).
  - reflexivity.
  - destruct (l =? 0); reflexivity.
  - reflexivity.
Qed.

Lemma sq_frame_reachable : forall h o b', target o <> Some b' ->
  sq_view (fst (sq_step (sq_run sq_init h) o)) b' = sq_view (sq_run sq_init h) b'.
Proof. intros h o b'. apply sq_frame, sq_run_Inv, sq_Inv_init. Qed.
