(* Concrete layout and program for the non-vacuity examples of Props/C11.v. *)
From Coq Require Import String.
From AwVerif Require Import Base.Prelude Model.PyStr Model.Query Model.QueryRef Proofs.QueryExamples.
Open Scope Z_scope.

(* a blank before, a line break and a blank after every separator *)
Definition ex_layout : layout := fun p k => if Nat.even k then [32] else [10; 32].
Definition ex_compact : layout := fun p k => [].

(* x = [1, (the string a, double quote, b, comma, right parenthesis)]; RETURN = echo(x, {k: nop()}, 3); *)
Definition ex_prog : prog :=
  [(zs "x", TLst [TInt (zs "1"); TStr c_dq (zs "a""b,)")]);
   (zs "RETURN", TCall (zs "echo") [TVar (zs "x"); TDct [((c_sq, zs "k"), TCall (zs "nop") [])];
                                    TInt (zs "3")])].

Definition ex_run_text (q : str) : res value :=
  fst (run ex_table Z ex_buckets ex_body 4300 (zs "n") (zs "t0") (zs "t1") q 0).
Definition ex_denote (pg : prog) : res value :=
  fst (denote_prog ex_table Z ex_buckets ex_body (zs "n") (zs "t0") (zs "t1") pg 0).
