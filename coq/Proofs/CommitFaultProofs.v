(* Lemmas behind Props/C18fault.v: the age test of conditional_commit over histories in which
   the engine raises (Model/CommitFault.v). *)
From AwVerif Require Import Base.Prelude Model.Commit Model.CommitFault Proofs.CommitProofs Proofs.CommitAge.
From Coq Require Import ZifyBool.

(* ---- specification vocabulary ---- *)

(* the clock never runs backwards (as [mono_from], over steps with faults) *)
Fixpoint fmono_from (t : Z) (tr : list fin) : Prop :=
  match tr with
  | [] => True
  | x :: rest =>
      t <= r1 (fc x) /\ r1 (fc x) <= r2 (fc x) /\ r2 (fc x) <= r3 (fc x) /\ fmono_from (r3 (fc x)) rest
  end.

(* every write with the instant at which it was issued *)
Definition fstamp (x : fin) : list (Z * Z) := map (fun w => (w, r1 (fc x))) (fwrites (fm x)).
Definition fissued (tr : list fin) : list (Z * Z) := flat_map fstamp tr.

(* the stamped writes a crash now would lose *)
Definition fpending_stamped (c0 : list Z) (tr : list fin) (fs : fstate) : list (Z * Z) :=
  skipn (length (committed (cs fs)) - length c0) (fissued tr).

(* a step that takes a commit decision: self.commit() or self.conditional_commit(k) *)
Definition is_decision (m : fmicro) : bool :=
  match m with Step Commit | Step (CondCommit _) => true | _ => false end.

(* The number of writes issued since the last commit decision that RETURNED NORMALLY, counted
   along the run ([acc]: the number before the trace).  Every call that writes ends with a
   decision step, so after a call that returned normally it is 0; the writes it counts belong to
   calls that raised (the caller was told) or to the call in flight. *)
Fixpoint unchecked_with (cr : raise_behaviour) (lazy : bool) (fs : fstate) (tr : list fin) (acc : nat) : nat :=
  match tr with
  | [] => acc
  | x :: rest =>
      let r := fmicro_step_with cr lazy fs x in
      unchecked_with cr lazy (fst r) rest
        (if is_decision (fm x) && negb (snd r) then O else (acc + length (fwrites (fm x)))%nat)
  end.
Definition unchecked := unchecked_with code_commit_raises.

(* the bookkeeping tells the truth about the last flush *)
Definition truthful (fs : fstate) : Prop := last_commit (cs fs) = last_ok fs.

Definition is_fwrite (x : fin) : Prop :=
  match fm x with Step (Exec _) | Step (ExecMany _) => True | _ => False end.

(* ---- one step ---- *)

Lemma fstep_cases : forall lazy fs x, truthful fs ->
  let r := fmicro_step lazy fs x in
  truthful (fst r) /\
  ((committed (cs (fst r)) = committed (cs fs) /\
    pending (cs (fst r)) = pending (cs fs) ++ fwrites (fm x) /\
    last_ok (fst r) = last_ok fs /\
    (is_decision (fm x) = true -> snd r = false -> r2 (fc x) - last_ok fs <= MAX_AGE))
   \/
   (fwrites (fm x) = [] /\ pending (cs (fst r)) = [] /\
    committed (cs (fst r)) = committed (cs fs) ++ pending (cs fs))).
Proof.
  intros lazy [[cm pd n lc] lo] [m c [e1 e2 e3]] Ht. unfold truthful in *. cbn in Ht. subst lo.
  unfold fmicro_step, fmicro_step_with. cbn [fm fc fe].
  destruct m as [[w|ws| | |k]| |done].
  - cbn. split; [reflexivity|]. left. repeat split; try reflexivity. intros H; discriminate H.
  - cbn. split; [reflexivity|]. left. repeat split; try reflexivity. intros H; discriminate H.
  - cbn. split; [reflexivity|]. left. rewrite app_nil_r. repeat split; try reflexivity. intros H; discriminate H.
  - (* Commit *)
    unfold commit_f_with, code_commit_raises. cbn [ok1 cs last_ok fst snd].
    destruct e1; cbn.
    + split; [reflexivity|]. right. repeat split; reflexivity.
    + split; [reflexivity|]. left. rewrite app_nil_r. repeat split; try reflexivity. intros _ H; discriminate H.
  - (* CondCommit k *)
    unfold cond_commit_f_with, commit_f_with, code_commit_raises, fbind, upd.
    cbn -[Z.gtb Z.add Z.sub].
    destruct lazy; cbn -[Z.gtb Z.add Z.sub];
      repeat (match goal with |- context [if ?b then _ else _] => destruct b eqn:? end; cbn -[Z.gtb Z.add Z.sub]);
      (split; [reflexivity|]).
    all: try (right; repeat split; rewrite ?app_nil_r; reflexivity).
    all: left; rewrite ?app_nil_r; repeat split; try reflexivity; intros;
      cbn -[Z.gtb Z.add Z.sub] in *; try discriminate; lia.
  - cbn. split; [reflexivity|]. left. rewrite app_nil_r. repeat split; try reflexivity. intros H; discriminate H.
  - cbn. split; [reflexivity|]. left. repeat split; try reflexivity. intros H; discriminate H.
Qed.

Lemma frun_cons : forall lazy x tr fs,
  frun lazy fs (x :: tr) = frun lazy (fst (fmicro_step lazy fs x)) tr.
Proof. reflexivity. Qed.

Lemma frun_app : forall lazy a b fs, frun lazy fs (a ++ b) = frun lazy (frun lazy fs a) b.
Proof. intros. unfold frun, frun_with. apply fold_left_app. Qed.

(* the bookkeeping stays truthful whatever raises, wherever *)
Lemma truthful_run : forall lazy tr fs, truthful fs -> truthful (frun lazy fs tr).
Proof.
  induction tr as [|x tr IH]; intros fs H; [exact H|].
  rewrite frun_cons. apply IH. apply (fstep_cases lazy fs x H).
Qed.

Lemma truthful_init : forall c0 t0, truthful (finit c0 t0).
Proof. reflexivity. Qed.

(* ---- the fault-free part of the machine is Model/Commit.v ---- *)

Lemma commit_f_ok : forall cr now fs, commit_f_with cr true now fs = (mkFS (do_commit now (cs fs)) now, false).
Proof. reflexivity. Qed.

Lemma cond_commit_f_all_ok : forall cr lazy k c fs,
  cs (fst (cond_commit_f_with cr lazy k c all_ok fs)) = cond_commit lazy k c (cs fs) /\
  snd (cond_commit_f_with cr lazy k c all_ok fs) = false.
Proof.
  intros cr lazy k c [[cm pd n lc] lo].
  unfold cond_commit_f_with, cond_commit, commit_f_with, fbind, upd, all_ok.
  cbn [ok1 ok3 cs last_ok n_unc last_commit set_n fst snd].
  destruct lazy; [|split; reflexivity].
  destruct (n + k >? THRESHOLD); cbn [fst snd cs last_commit do_commit set_n set_last flush];
    match goal with |- context [if ?b then _ else _] => destruct b end; split; reflexivity.
Qed.

Definition with_all_ok (mc : micro * clk) : fin := mkIn (Step (fst mc)) (snd mc) all_ok.

Lemma step_all_ok : forall cr lazy fs mc,
  cs (fst (fmicro_step_with cr lazy fs (with_all_ok mc))) = micro_step lazy (cs fs) mc /\
  snd (fmicro_step_with cr lazy fs (with_all_ok mc)) = false.
Proof.
  intros cr lazy fs [m c]. unfold fmicro_step_with, with_all_ok, micro_step. cbn [fm fc fe fst snd].
  destruct m; try (split; reflexivity).
  apply cond_commit_f_all_ok.
Qed.

(* with an engine that never raises the machine is the one of Model/Commit.v, under ANY
   behaviour for the failing path: every theorem of Props/C18.v is about these runs *)
Lemma run_all_ok : forall cr lazy tr fs,
  cs (frun_with cr lazy fs (map with_all_ok tr)) = run lazy (cs fs) tr /\
  returned_with cr lazy fs (map with_all_ok tr).
Proof.
  induction tr as [|mc tr IH]; intros fs; [split; [reflexivity|exact I]|].
  cbn [map]. unfold frun_with, run in *. cbn [fold_left returned_with].
  destruct (step_all_ok cr lazy fs mc) as [H1 H2].
  destruct (IH (fst (fmicro_step_with cr lazy fs (with_all_ok mc)))) as [K1 K2].
  rewrite K1, H1. split; [reflexivity|]. split; assumption.
Qed.

(* ---- age flush ---- *)

Lemma fmono_from_mid : forall a t x rest,
  fmono_from t (a ++ x :: rest) ->
  t <= r1 (fc x) /\ r1 (fc x) <= r2 (fc x) /\ r2 (fc x) <= r3 (fc x) /\ fmono_from (r3 (fc x)) rest.
Proof.
  induction a as [|y a IH]; intros t x rest H.
  - cbn in H. tauto.
  - cbn [app fmono_from] in H. destruct H as (H1 & H2 & H3 & H4).
    destruct (IH _ _ _ H4) as (K1 & K2 & K3 & K4). repeat split; try assumption. lia.
Qed.

Lemma frun_fwrites : forall lazy tr fs, Forall is_fwrite tr ->
  last_ok (frun lazy fs tr) = last_ok fs /\ last_commit (cs (frun lazy fs tr)) = last_commit (cs fs).
Proof.
  induction tr as [|x tr IH]; intros fs H; [split; reflexivity|].
  inversion H as [|? ? Hx Htr]; subst. rewrite frun_cons.
  destruct (IH (fst (fmicro_step lazy fs x)) Htr) as [K1 K2]. rewrite K1, K2.
  destruct x as [m c e]. unfold is_fwrite in Hx. cbn [fm] in Hx.
  destruct m as [[w|ws| | |k]| |done]; try contradiction; split; reflexivity.
Qed.

Lemma returned_app : forall lazy a b fs,
  returned lazy fs (a ++ b) <-> returned lazy fs a /\ returned lazy (frun lazy fs a) b.
Proof.
  induction a as [|x a IH]; intros b fs.
  - cbn. tauto.
  - cbn [app]. unfold returned in *. cbn [returned_with]. rewrite frun_cons.
    rewrite (IH b (fst (fmicro_step_with code_commit_raises lazy fs x))). unfold fmicro_step. tauto.
Qed.

(* a block of write statements closed by a conditional_commit that RETURNS, entered more than
   10 s after the last successful flush, leaves nothing pending - from any state the earlier
   faults may have left, as long as the bookkeeping is truthful (and it always is) *)
Lemma fage_flush_block : forall lazy fs tpre x k t,
  truthful fs -> Forall is_fwrite tpre -> fm x = Step (CondCommit k) ->
  returned lazy fs (tpre ++ [x]) ->
  fmono_from t (tpre ++ [x]) ->
  t - last_ok fs > MAX_AGE ->
  pending (cs (frun lazy fs (tpre ++ [x]))) = [].
Proof.
  intros lazy fs tpre x k t Ht Hw Hx Hret Hm Hage.
  apply fmono_from_mid in Hm. destruct Hm as (H1 & H2 & _).
  apply returned_app in Hret. destruct Hret as [_ Hret]. cbn in Hret. destruct Hret as [Hret _].
  rewrite frun_app. set (fs1 := frun lazy fs tpre) in *.
  assert (Ht1 : truthful fs1) by (apply truthful_run; exact Ht).
  destruct (frun_fwrites lazy tpre fs Hw) as [Hlo _]. fold fs1 in Hlo.
  change (frun lazy fs1 [x]) with (fst (fmicro_step lazy fs1 x)).
  destruct (fstep_cases lazy fs1 x Ht1) as [_ [(_ & _ & _ & Hd)|(_ & Hp & _)]].
  - exfalso. rewrite Hx in Hd. specialize (Hd eq_refl Hret). rewrite Hlo in Hd. lia.
  - exact Hp.
Qed.

Lemma map_step_inj : forall a b, map Step a = map Step b -> a = b.
Proof.
  induction a as [|x a IH]; intros [|y b] H; try discriminate; [reflexivity|].
  cbn in H. inversion H; subst. f_equal. apply IH. assumption.
Qed.

Lemma fwrites_of_steps : forall tpre pre, map fm tpre = map Step pre -> Forall is_write pre ->
  Forall is_fwrite tpre.
Proof.
  induction tpre as [|x tpre IH]; intros [|m pre] H Hw; try discriminate; [constructor|].
  cbn in H. inversion H as [[Hx Hrest]]. inversion Hw as [|? ? Hm Hpre]; subst.
  constructor; [|eapply IH; eassumption].
  unfold is_fwrite. rewrite Hx. destruct m; cbn in Hm; try contradiction; exact I.
Qed.

Lemma fage_flush_op : forall lazy fs o tro t,
  truthful fs -> event_write_op o -> map fm tro = map Step (expand o) ->
  returned lazy fs tro -> fmono_from t tro -> t - last_ok fs > MAX_AGE ->
  pending (cs (frun lazy fs tro)) = [].
Proof.
  intros lazy fs o tro t Ht Ho Htro Hret Hm Hage.
  destruct (event_write_split o Ho) as (pre & k & E & Hpre). rewrite E, map_app in Htro.
  apply map_eq_app in Htro. destruct Htro as (tpre & tl & -> & Hmpre & Htl).
  destruct tl as [|x [|y tl]]; try discriminate. cbn in Htl. inversion Htl as [Hx].
  eapply fage_flush_block; try eassumption.
  eapply fwrites_of_steps; eassumption.
Qed.

(* the statement over histories: [hist] is ANY sequence of steps - any number of failed
   commits, raising statements, at any positions, any clock - and last_ok is the instant of
   the last commit whose engine COMMIT succeeded in it *)
Lemma fage_flush : forall lazy c0 t0 hist o tro t,
  event_write_op o -> map fm tro = map Step (expand o) ->
  returned lazy (frun lazy (finit c0 t0) hist) tro ->
  fmono_from t tro ->
  t - last_ok (frun lazy (finit c0 t0) hist) > MAX_AGE ->
  pending (cs (frun lazy (finit c0 t0) (hist ++ tro))) = [].
Proof.
  intros. rewrite frun_app. eapply fage_flush_op; try eassumption.
  apply truthful_run, truthful_init.
Qed.

(* ---- age bound ---- *)

Lemma fstamp_fst : forall x, map fst (fstamp x) = fwrites (fm x).
Proof. intros x. unfold fstamp. rewrite map_map. cbn. apply map_id. Qed.

Lemma fstamp_length : forall x, length (fstamp x) = length (fwrites (fm x)).
Proof. intros. unfold fstamp. apply map_length. Qed.

Lemma fstamp_time : forall x wt, In wt (fstamp x) -> snd wt = r1 (fc x).
Proof.
  intros x wt H. unfold fstamp in H. apply in_map_iff in H. destruct H as (w & <- & _). reflexivity.
Qed.

Lemma Forall_le_trans : forall (G : list (Z * Z)) t t', t <= t' ->
  Forall (fun wt => snd wt <= t) G -> Forall (fun wt => snd wt <= t') G.
Proof. intros G t t' H HG. eapply Forall_impl; [|exact HG]. cbn. intros; lia. Qed.

Definition aged (lo : Z) (G : list (Z * Z)) (u : nat) : Prop :=
  Forall (fun wt => snd wt - lo <= MAX_AGE) (firstn (length G - u) G).

Lemma finv : forall lazy tr fs X G t c0 u,
  truthful fs ->
  committed (cs fs) = c0 ++ map fst X -> pending (cs fs) = map fst G ->
  fmono_from t tr -> Forall (fun wt => snd wt <= t) G ->
  aged (last_ok fs) G u ->
  exists X' G',
    committed (cs (frun lazy fs tr)) = c0 ++ map fst X' /\
    pending (cs (frun lazy fs tr)) = map fst G' /\
    X ++ G ++ fissued tr = X' ++ G' /\
    aged (last_ok (frun lazy fs tr)) G' (unchecked lazy fs tr u).
Proof.
  induction tr as [|x tr IH]; intros fs X G t c0 u Ht Hc Hp Hm HG Ha.
  - exists X, G. cbn. rewrite app_nil_r. auto.
  - rewrite frun_cons. unfold unchecked. cbn [unchecked_with]. fold (fmicro_step lazy fs x).
    fold (unchecked lazy (fst (fmicro_step lazy fs x)) tr).
    cbn [fmono_from] in Hm. destruct Hm as (M1 & M2 & M3 & Hm).
    destruct (fstep_cases lazy fs x Ht) as [Ht' [(C1 & C2 & C3 & C4)|(B1 & B2 & B3)]].
    + (* nothing flushed *)
      set (r := fmicro_step lazy fs x) in *.
      set (u' := if is_decision (fm x) && negb (snd r) then O else (u + length (fwrites (fm x)))%nat).
      destruct (IH (fst r) X (G ++ fstamp x) (r3 (fc x)) c0 u' Ht') as (X' & G' & H1 & H2 & H3 & H4).
      * rewrite C1. exact Hc.
      * rewrite C2, map_app, fstamp_fst, Hp. reflexivity.
      * exact Hm.
      * apply Forall_app. split.
        -- eapply Forall_le_trans; [|exact HG]. lia.
        -- apply Forall_forall. intros wt Hin. rewrite (fstamp_time _ _ Hin). lia.
      * unfold aged. rewrite C3. unfold u'.
        destruct (is_decision (fm x)) eqn:Ed; cbn [andb].
        -- (* a decision step issues no write *)
           assert (Hw : fwrites (fm x) = []).
           { destruct (fm x) as [[w|ws| | |k]| |done]; try discriminate Ed; reflexivity. }
           assert (Hs : fstamp x = []) by (unfold fstamp; rewrite Hw; reflexivity).
           rewrite Hs, app_nil_r.
           destruct (snd r) eqn:Er; cbn [negb].
           ++ rewrite Hw. cbn [length]. rewrite Nat.add_0_r. exact Ha.
           ++ specialize (C4 eq_refl eq_refl). rewrite Nat.sub_0_r, firstn_all.
              eapply Forall_impl; [|exact HG]. cbn. intros wt Hwt. lia.
        -- rewrite app_length, fstamp_length.
           replace (length G + length (fwrites (fm x)) - (u + length (fwrites (fm x))))%nat
             with (length G - u)%nat by lia.
           rewrite firstn_app.
           replace (length G - u - length G)%nat with O by lia.
           cbn [firstn]. rewrite app_nil_r. exact Ha.
      * exists X', G'. split; [exact H1|split; [exact H2|split; [|exact H4]]].
        rewrite <- H3. cbn [fissued flat_map]. rewrite <- !app_assoc. reflexivity.
    + (* flushed *)
      set (r := fmicro_step lazy fs x) in *.
      set (u' := if is_decision (fm x) && negb (snd r) then O else (u + length (fwrites (fm x)))%nat).
      assert (Hs : fstamp x = []) by (unfold fstamp; rewrite B1; reflexivity).
      destruct (IH (fst r) (X ++ G) [] (r3 (fc x)) c0 u' Ht') as (X' & G' & H1 & H2 & H3 & H4).
      * rewrite B3, Hc, Hp, map_app. apply app_assoc_reverse.
      * rewrite B2. reflexivity.
      * exact Hm.
      * constructor.
      * unfold aged. cbn. constructor.
      * exists X', G'. split; [exact H1|split; [exact H2|split; [|exact H4]]].
        rewrite <- H3. cbn [fissued flat_map app]. rewrite Hs. cbn [app]. rewrite <- app_assoc. reflexivity.
Qed.

Lemma fage_bound : forall lazy c0 t0 tr t,
  fmono_from t tr ->
  let fs := frun lazy (finit c0 t0) tr in
  let G := fpending_stamped c0 tr fs in
  map fst G = pending (cs fs) /\
  last_commit (cs fs) = last_ok fs /\
  Forall (fun wt => snd wt - last_ok fs <= MAX_AGE)
         (firstn (length G - unchecked lazy (finit c0 t0) tr 0) G).
Proof.
  intros lazy c0 t0 tr t Hm fs G.
  destruct (finv lazy tr (finit c0 t0) [] [] t c0 0%nat (truthful_init c0 t0)) as (X' & G' & Hc & Hp & Hiss & Ha).
  { cbn. symmetry. apply app_nil_r. }
  { reflexivity. }
  { exact Hm. }
  { constructor. }
  { unfold aged. cbn. constructor. }
  fold fs in Hc, Hp, Ha. cbn [app] in Hiss.
  assert (E : G = G').
  { unfold G, fpending_stamped. rewrite Hc, Hiss, app_length, map_length.
    replace (length c0 + length X' - length c0)%nat with (length X') by lia.
    rewrite skipn_app, skipn_all, Nat.sub_diag. reflexivity. }
  rewrite E. split; [symmetry; exact Hp|]. split; [apply truthful_run, truthful_init|exact Ha].
Qed.

(* after a commit decision that returned normally nothing is unchecked *)
Lemma unchecked_app : forall lazy a b fs u,
  unchecked lazy fs (a ++ b) u = unchecked lazy (frun lazy fs a) b (unchecked lazy fs a u).
Proof.
  induction a as [|x a IH]; intros b fs u; [reflexivity|].
  cbn [app]. unfold unchecked in *. cbn [unchecked_with]. rewrite IH. reflexivity.
Qed.

Lemma unchecked_decision : forall lazy fs tr x u,
  is_decision (fm x) = true -> returned lazy (frun lazy fs tr) [x] ->
  unchecked lazy fs (tr ++ [x]) u = 0%nat.
Proof.
  intros lazy fs tr x u Hd Hret. rewrite unchecked_app.
  unfold unchecked. cbn [unchecked_with]. cbn in Hret. destruct Hret as [Hret _].
  unfold fmicro_step in Hret. rewrite Hd, Hret. reflexivity.
Qed.

Lemma fage_bound_after_return : forall lazy c0 t0 hist tro x t,
  is_decision (fm x) = true ->
  returned lazy (frun lazy (finit c0 t0) hist) (tro ++ [x]) ->
  fmono_from t (hist ++ tro ++ [x]) ->
  let tr := hist ++ tro ++ [x] in
  let fs := frun lazy (finit c0 t0) tr in
  map fst (fpending_stamped c0 tr fs) = pending (cs fs) /\
  forall w ti, In (w, ti) (fpending_stamped c0 tr fs) -> ti - last_ok fs <= MAX_AGE.
Proof.
  intros lazy c0 t0 hist tro x t Hd Hret Hm tr fs.
  destruct (fage_bound lazy c0 t0 tr t Hm) as (H1 & _ & H3). fold fs in H1, H3.
  split; [exact H1|].
  assert (Hu : unchecked lazy (finit c0 t0) tr 0 = 0%nat).
  { unfold tr. rewrite app_assoc. apply unchecked_decision; [exact Hd|].
    apply returned_app in Hret. destruct Hret as [_ Hret]. rewrite frun_app. exact Hret. }
  rewrite Hu, Nat.sub_0_r, firstn_all in H3.
  intros w ti Hin. rewrite Forall_forall in H3. apply (H3 (w, ti) Hin).
Qed.

(* an event write is such a script *)
Lemma event_write_ends_with_decision : forall o tro, event_write_op o ->
  map fm tro = map Step (expand o) ->
  exists tpre x, tro = tpre ++ [x] /\ is_decision (fm x) = true.
Proof.
  intros o tro Ho Htro.
  destruct (event_write_split o Ho) as (pre & k & E & _). rewrite E, map_app in Htro.
  apply map_eq_app in Htro. destruct Htro as (tpre & tl & -> & _ & Htl).
  destruct tl as [|x [|y tl]]; try discriminate. cbn in Htl. inversion Htl as [Hx].
  exists tpre, x. split; [reflexivity|]. rewrite Hx. reflexivity.
Qed.

Lemma fage_bound_after_write : forall lazy c0 t0 hist o tro t,
  event_write_op o -> map fm tro = map Step (expand o) ->
  returned lazy (frun lazy (finit c0 t0) hist) tro ->
  fmono_from t (hist ++ tro) ->
  let tr := hist ++ tro in
  let fs := frun lazy (finit c0 t0) tr in
  map fst (fpending_stamped c0 tr fs) = pending (cs fs) /\
  forall w ti, In (w, ti) (fpending_stamped c0 tr fs) -> ti - last_ok fs <= MAX_AGE.
Proof.
  intros lazy c0 t0 hist o tro t Ho Htro Hret Hm.
  destruct (event_write_ends_with_decision o tro Ho Htro) as (tpre & x & -> & Hd).
  eapply fage_bound_after_return; eassumption.
Qed.
