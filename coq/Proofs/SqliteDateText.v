(* C03 -- SQLite's date arithmetic, the text level (Model/SqliteDate.v): on the TEXT peewee stores,
   str(datetime) of a whole-millisecond UTC instant 1970 .. 2100, and a duration cell of 0 .. 24 h,
   the whole expression
     strftime('%Y-%m-%d %H:%M:%f+00:00', (julianday(timestamp) - 2440587.5) * 86400.0 + duration, 'unixepoch')
   as modelled (parseYyyyMmDd / parseHhMmSs / parseTimezone, computeJD, the arithmetic core,
   computeYMD, computeHMS, %f) prints, character for character, "YYYY-MM-DD HH:MM:SS.mmm+00:00" of
   the whole millisecond that the core sd_end_us computes (sd_end_text_exact); Proofs/SqliteDate.v
   bounds that instant.

   How: the double expressions of the calendar steps are related to integer arithmetic through Flocq
   (computeJD's day part is exact; (i64)(s*1000 + 0.5) on SS + 0.mmm000 is 1000*SS + mmm; the four
   (int)(...) of computeYMD are Z quotients because no exact quotient is a whole number; computeHMS
   yields a double within 2^-36 of SS.mmm, which %f prints as SS.mmm), the remaining integer facts
   (Meeus' formula = day number, the side conditions of computeYMD, computeYMD = civil date) by
   kernel evaluation on integers over the 47484 days 1970-01-01 .. 2100-01-02.
   No Props file that coqchk re-checks imports this file (cal_all costs coqchk minutes); it is
   restated in Props/C03SqliteText.v. *)
From Coq Require Import ZArith Reals Bool List Lia Lra Psatz Ascii Floats.
From Flocq Require Import Core IEEE754.BinarySingleNaN IEEE754.PrimFloat.
From AwVerif Require Import Base.Prelude Model.PyFloat Model.IsoTime Model.SqliteDate Proofs.PyFloatSpec
  Proofs.PyFloatFinite Proofs.IsoTimeProofs Proofs.SqliteDate.
Open Scope Z_scope.

(* "%06.3f" as modelled: the exact value rounded half up to thousandths *)
Lemma fmt3_spec : forall f, fin f -> (0 <= FR f)%R -> fmt3 f = Ok (Zfloor (FR f * 1000 + / 2)).
Proof.
  intros f Ff Pf. unfold fmt3. rewrite <- B2SF_Prim2B in *.
  destruct (Prim2B f) as [s|s| |s m e H]; try discriminate; simpl B2SF; cbv iota.
  - simpl. f_equal. symmetry. apply Zfloor_imp. simpl. lra.
  - simpl B2R in *. destruct s.
    + exfalso. assert (F2R (Float radix2 (Zneg m) e) < 0)%R; [|simpl in Pf; lra].
      apply F2R_lt_0. simpl. lia.
    + f_equal. simpl cond_Zopp. unfold F2R. simpl Fnum. simpl Fexp.
      destruct (Z.leb_spec 0 e) as [He|He].
      * rewrite Z.shiftl_mul_pow2 by lia. rewrite <- IZR_Zpower by lia.
        change (Zpower radix2 e) with (2 ^ e).
        replace (IZR (Z.pos m) * IZR (2 ^ e) * 1000 + / 2)%R
          with (IZR (1000 * (Z.pos m * 2 ^ e)) + / 2)%R
          by (rewrite !mult_IZR; simpl; ring).
        symmetry. apply Zfloor_imp. rewrite plus_IZR. simpl (IZR 1). lra.
      * assert (P : 0 < 2 ^ (- e)) by (apply Z.pow_pos_nonneg; lia).
        assert (P' : (0 < IZR (2 ^ (- e)))%R) by (apply IZR_lt; lia).
        replace (bpow radix2 e) with (/ IZR (2 ^ (- e)))%R.
        2:{ change (2 ^ (- e)) with (Zpower radix2 (- e)). rewrite IZR_Zpower by lia.
            rewrite <- bpow_opp. f_equal. lia. }
        replace (2 ^ (1 - e)) with (2 * 2 ^ (- e))
          by (replace (1 - e) with (1 + - e) by lia; rewrite Z.pow_add_r by lia; reflexivity).
        replace (IZR (Z.pos m) * / IZR (2 ^ (- e)) * 1000 + / 2)%R
          with (IZR (2000 * Z.pos m + 2 ^ (- e)) / IZR (2 * 2 ^ (- e)))%R.
        { symmetry. apply Zfloor_div. lia. }
        rewrite plus_IZR, !mult_IZR. simpl (IZR 2000). simpl (IZR 2). field. lra.
Qed.

Lemma RN_nonneg : forall x : R, (0 <= x)%R -> (0 <= RN x)%R.
Proof.
  intros x H. apply round_ge_generic; [apply FLT_exp_valid; reflexivity|apply valid_rnd_N| |exact H].
  apply generic_format_0.
Qed.
Lemma fsub_val : forall x y e, fin x -> fin y -> -1021 <= e <= 62 ->
  (Rabs (FR x - FR y) < bpow radix2 e)%R -> FR (x - y)%float = RN (FR x - FR y).
Proof.
  intros x y e Fx Fy He B. destruct (step_bound _ _ He B) as [B1 _].
  now destruct (fsub_spec x y Fx Fy B1).
Qed.
Lemma fadd_val : forall x y e, fin x -> fin y -> -1021 <= e <= 62 ->
  (Rabs (FR x + FR y) < bpow radix2 e)%R -> FR (x + y)%float = RN (FR x + FR y).
Proof.
  intros x y e Fx Fy He B. destruct (step_bound _ _ He B) as [B1 _].
  now destruct (fadd_spec x y Fx Fy B1).
Qed.

(* operations whose exact result is a small integer are exact *)
Lemma RN_int : forall z, Z.abs z < 2 ^ 53 ->
  RN (IZR z) = IZR z /\ (Rabs (RN (IZR z)) < bpow radix2 64)%R.
Proof.
  intros z H. rewrite (RN_IZR z H). split; [reflexivity|].
  eapply Rlt_trans; [apply (Rabs_IZR_lt z _ H)|]. change (IZR (2 ^ 53)) with (bpow radix2 53).
  apply bpow_lt. lia.
Qed.

Lemma fmul_int : forall x y a b, fin x -> fin y -> FR x = IZR a -> FR y = IZR b ->
  Z.abs (a * b) < 2 ^ 53 -> fin (x * y)%float /\ FR (x * y)%float = IZR (a * b).
Proof.
  intros x y a b Fx Fy Va Vb H. destruct (RN_int _ H) as [E B].
  assert (B' : (Rabs (RN (FR x * FR y)) < bpow radix2 64)%R) by (rewrite Va, Vb, <- mult_IZR; exact B).
  destruct (fmul_spec x y Fx Fy B') as [F V]. split; [exact F|]. rewrite V, Va, Vb, <- mult_IZR. exact E.
Qed.
Lemma fadd_int : forall x y a b, fin x -> fin y -> FR x = IZR a -> FR y = IZR b ->
  Z.abs (a + b) < 2 ^ 53 -> fin (x + y)%float /\ FR (x + y)%float = IZR (a + b).
Proof.
  intros x y a b Fx Fy Va Vb H. destruct (RN_int _ H) as [E B].
  assert (B' : (Rabs (RN (FR x + FR y)) < bpow radix2 64)%R) by (rewrite Va, Vb, <- plus_IZR; exact B).
  destruct (fadd_spec x y Fx Fy B') as [F V]. split; [exact F|]. rewrite V, Va, Vb, <- plus_IZR. exact E.
Qed.
Lemma fsub_int : forall x y a b, fin x -> fin y -> FR x = IZR a -> FR y = IZR b ->
  Z.abs (a - b) < 2 ^ 53 -> fin (x - y)%float /\ FR (x - y)%float = IZR (a - b).
Proof.
  intros x y a b Fx Fy Va Vb H. destruct (RN_int _ H) as [E B].
  assert (B' : (Rabs (RN (FR x - FR y)) < bpow radix2 64)%R) by (rewrite Va, Vb, <- minus_IZR; exact B).
  destruct (fsub_spec x y Fx Fy B') as [F V]. split; [exact F|]. rewrite V, Va, Vb, <- minus_IZR. exact E.
Qed.

Lemma ofZ_small : forall z, Z.abs z < 2 ^ 53 -> fin (of_Z z) /\ FR (of_Z z) = IZR z.
Proof. exact of_Z_spec. Qed.

(* one turn of the fraction loop *)
Lemma frac_step : forall ms rs n k d, fin ms -> fin rs -> FR ms = IZR n -> FR rs = IZR k ->
  0 <= n < 10 ^ 12 -> 0 < k < 10 ^ 12 -> 0 <= d <= 9 ->
  let ms' := ((ms * f10 + of_Z (48 + d)) - f48)%float in
  let rs' := (rs * f10)%float in
  fin ms' /\ fin rs' /\ FR ms' = IZR (10 * n + d) /\ FR rs' = IZR (10 * k).
Proof.
  intros ms rs n k d Fm Fr Vm Vr Hn Hk Hd ms' rs'.
  change (10 ^ 12) with 1000000000000 in *.
  destruct (ofZ_small 10 ltac:(cbn; lia)) as [F10 V10]. fold f10 in F10, V10.
  destruct (ofZ_small 48 ltac:(cbn; lia)) as [F48 V48]. fold f48 in F48, V48.
  destruct (ofZ_small (48 + d) ltac:(change (2 ^ 53) with 9007199254740992; lia)) as [Fd Vd].
  destruct (fmul_int ms f10 n 10 Fm F10 Vm V10 ltac:(change (2 ^ 53) with 9007199254740992; lia)) as [F1 V1].
  destruct (fadd_int _ _ _ _ F1 Fd V1 Vd ltac:(change (2 ^ 53) with 9007199254740992; lia)) as [F2 V2].
  destruct (fsub_int _ _ _ _ F2 F48 V2 V48 ltac:(change (2 ^ 53) with 9007199254740992; lia)) as [F3 V3].
  destruct (fmul_int rs f10 k 10 Fr F10 Vr V10 ltac:(change (2 ^ 53) with 9007199254740992; lia)) as [F4 V4].
  split; [exact F3|]. split; [exact F4|]. split.
  - unfold ms'. rewrite V3. f_equal. lia.
  - unfold rs'. rewrite V4. f_equal. lia.
Qed.

Definition digits6 (us : Z) : list Z :=
  [us / 100000; us / 10000 mod 10; us / 1000 mod 10; us / 100 mod 10; us / 10 mod 10; us mod 10].

(* (int)f when f is within 2^-21 of a ratio num/den that is not a whole number: the Z quotient *)
Lemma trunc_ratio : forall f num den, fin f -> 0 < den <= 1000000 -> 0 <= num ->
  1 <= num mod den ->
  (Rabs (FR f - IZR num / IZR den) <= / 2097152)%R ->
  int_of_float f = Ok (num / den).
Proof.
  intros f num den Ff Hd Hn Hr E. apply Rabs_le_inv in E.
  pose proof (Z.div_mod num den ltac:(lia)) as DM.
  pose proof (Z.mod_pos_bound num den ltac:(lia)) as MB.
  assert (Hq : 0 <= num / den) by (apply Z.div_pos; lia).
  set (q := num / den) in *. set (r := num mod den) in *.
  assert (Rd : (1 <= IZR den <= 1000000)%R) by (split; apply IZR_le; lia).
  assert (Rr : (1 <= IZR r <= IZR den - 1)%R).
  { split; [apply IZR_le; lia|]. rewrite <- minus_IZR. apply IZR_le. lia. }
  assert (Rq : (0 <= IZR q)%R) by (apply IZR_le; lia).
  assert (V : (IZR num / IZR den = IZR q + IZR r * / IZR den)%R).
  { rewrite DM, plus_IZR, mult_IZR. field. lra. }
  set (u := (/ IZR den)%R) in *.
  assert (U1 : (/ 1000000 <= u)%R) by (apply Rinv_le_contravar; lra).
  assert (U2 : (IZR den * u = 1)%R) by (unfold u; field; lra).
  assert (U3 : (u <= IZR r * u <= 1 - u)%R) by (split; nra).
  rewrite V in E.
  rewrite (int_of_float_spec f Ff). f_equal. rewrite Ztrunc_floor by lra.
  apply Zfloor_imp. rewrite plus_IZR. simpl (IZR 1). lra.
Qed.

Lemma lit_q : forall f s m e, Prim2SF f = S754_finite s m e -> e < 0 ->
  fin f /\ FR f = (IZR (if s then Zneg m else Zpos m) / IZR (2 ^ (- e)))%R.
Proof.
  intros f s m e H He. destruct (lit_val f s m e H) as [F V]. split; [exact F|]. rewrite V.
  unfold F2R. simpl Fnum. simpl Fexp. replace e with (- (- e)) at 1 by lia. rewrite bpow_opp.
  rewrite <- IZR_Zpower by lia. reflexivity.
Qed.

Lemma f1867216_25_spec : fin f1867216_25 /\ FR f1867216_25 = (7468865 / 4)%R.
Proof. destruct (lit_q f1867216_25 _ _ _ eq_refl) as [F V]; [vm_compute; reflexivity|]. split; [exact F|]. rewrite V. simpl. lra. Qed.
Lemma f36524_25_spec : fin f36524_25 /\ FR f36524_25 = (146097 / 4)%R.
Proof. destruct (lit_q f36524_25 _ _ _ eq_refl) as [F V]; [vm_compute; reflexivity|]. split; [exact F|]. rewrite V. simpl. lra. Qed.
Lemma f365_25_spec : fin f365_25 /\ FR f365_25 = (1461 / 4)%R.
Proof. destruct (lit_q f365_25 _ _ _ eq_refl) as [F V]; [vm_compute; reflexivity|]. split; [exact F|]. rewrite V. simpl. lra. Qed.
Lemma f122_1_spec : fin f122_1 /\ FR f122_1 = (4296011832046387 / 35184372088832)%R.
Proof. destruct (lit_q f122_1 _ _ _ eq_refl) as [F V]; [vm_compute; reflexivity|]. split; [exact F|]. rewrite V. simpl. lra. Qed.
Lemma f30_6001_spec : fin f30_6001 /\ FR f30_6001 = (8613162434843745 / 281474976710656)%R.
Proof. destruct (lit_q f30_6001 _ _ _ eq_refl) as [F V]; [vm_compute; reflexivity|]. split; [exact F|]. rewrite V. simpl. lra. Qed.

Lemma fmt_half : forall m, Z.abs m < 2 ^ 53 -> fmt (IZR m / 2).
Proof.
  intros m H. apply fmt_FLT. apply (FLT_spec radix2 (-1074) 53 _ (Float radix2 m (-1))).
  - unfold F2R. simpl. lra.
  - simpl. exact H.
  - simpl. lia.
Qed.

Lemma f1524_5_spec : fin f1524_5 /\ FR f1524_5 = (3049 / 2)%R.
Proof.
  destruct (lit_val f1524_5 _ _ _ eq_refl) as [F V]. split; [exact F|]. rewrite V.
  unfold F2R. simpl. lra.
Qed.

(* computeJD's day part: (X1 + X2 + D + B - 1524.5) * 86400000 is computed exactly *)
Lemma jd_day_float : forall n, 0 <= n < 10000000 ->
  int_of_float ((of_Z n - f1524_5) * f86400000)%float = Ok ((2 * n - 3049) * 43200000).
Proof.
  intros n Hn. destruct (ofZ_c n ltac:(lia)) as [Fn Vn]. destruct f1524_5_spec as [Fc Vc].
  destruct (ofZ_c 86400000 ltac:(lia)) as [Fd Vd]. fold f86400000 in Fd, Vd.
  assert (Rn : (0 <= IZR n <= 9999999)%R) by (split; apply IZR_le; lia).
  assert (X : (IZR n - 3049 / 2 = IZR (2 * n - 3049) / 2)%R).
  { rewrite minus_IZR, mult_IZR. simpl (IZR 2). simpl (IZR 3049). field. }
  assert (G : RN (IZR n - 3049 / 2) = (IZR n - 3049 / 2)%R).
  { rewrite X. apply round_generic; [apply valid_rnd_N|]. apply fmt_half.
    change (2 ^ 53) with 9007199254740992. lia. }
  destruct (fsub_spec (of_Z n) f1524_5 Fn Fc) as [F1 V1].
  { rewrite Vn, Vc, G. bpv 64. apply Rabs_lt. lra. }
  rewrite Vn, Vc, G in V1.
  assert (Y : (FR (of_Z n - f1524_5)%float * FR f86400000 = IZR ((2 * n - 3049) * 43200000))%R).
  { rewrite V1, Vd, X, mult_IZR. simpl (IZR 43200000). field. }
  destruct (RN_int ((2 * n - 3049) * 43200000) ltac:(change (2 ^ 53) with 9007199254740992; lia)) as [E B].
  destruct (fmul_spec _ _ F1 Fd) as [F2 V2]; [rewrite Y; exact B|].
  apply int_of_float_int; [exact F2|]. now rewrite V2, Y.
Qed.

(* the four (int)(double expression) steps of computeYMD are Z quotients when the exact quotient
   is not a whole number *)
Lemma ymd_step1 : forall z, 2000000 <= z <= 3000000 -> 1 <= (4 * z - 7468865) mod 146097 ->
  int_of_float ((of_Z z - f1867216_25) / f36524_25)%float = Ok ((4 * z - 7468865) / 146097).
Proof.
  intros z Hz Hr. destruct f1867216_25_spec as [Fc1 Vc1]. destruct f36524_25_spec as [Fc2 Vc2].
  assert (Rz : (2000000 <= IZR z <= 3000000)%R) by (split; apply IZR_le; lia).
  destruct (ofZ_c z ltac:(lia)) as [Fz Vz].
  destruct (fsub_step (of_Z z) f1867216_25 23 Fz Fc1 ltac:(lia)) as [F1 E1].
  { rewrite Vz, Vc1. bpv 23. apply Rabs_lt. lra. }
  rewrite Vz, Vc1 in E1. change (23 - 54) with (-31) in E1. bpv (-31). apply Rabs_le_inv in E1.
  destruct (fdiv_step _ f36524_25 6 F1 Fc2 ltac:(rewrite Vc2; lra) ltac:(lia)) as [F2 E2].
  { rewrite Vc2. bpv 6. apply Rabs_lt. lra. }
  rewrite Vc2 in E2. change (6 - 54) with (-48) in E2. bpv (-48). apply Rabs_le_inv in E2.
  apply (trunc_ratio _ (4 * z - 7468865) 146097 F2 ltac:(lia) ltac:(lia) Hr).
  rewrite minus_IZR, mult_IZR. simpl (IZR 4). simpl (IZR 7468865). simpl (IZR 146097).
  apply Rabs_le. lra.
Qed.

Lemma ymd_step2 : forall b, 123 <= b < 3000000 -> 1 <= (20 * b - 2442) mod 7305 ->
  int_of_float ((of_Z b - f122_1) / f365_25)%float = Ok ((20 * b - 2442) / 7305).
Proof.
  intros b Hb Hr. destruct f122_1_spec as [Fc3 Vc3]. destruct f365_25_spec as [Fc4 Vc4].
  assert (Rb : (123 <= IZR b <= 2999999)%R) by (split; apply IZR_le; lia).
  destruct (ofZ_c b ltac:(lia)) as [Fb Vb].
  destruct (fsub_step (of_Z b) f122_1 22 Fb Fc3 ltac:(lia)) as [F3 E3].
  { rewrite Vb, Vc3. bpv 22. apply Rabs_lt. lra. }
  rewrite Vb, Vc3 in E3. change (22 - 54) with (-32) in E3. bpv (-32). apply Rabs_le_inv in E3.
  destruct (fdiv_step _ f365_25 14 F3 Fc4 ltac:(rewrite Vc4; lra) ltac:(lia)) as [F4 E4].
  { rewrite Vc4. bpv 14. apply Rabs_lt. lra. }
  rewrite Vc4 in E4. change (14 - 54) with (-40) in E4. bpv (-40). apply Rabs_le_inv in E4.
  apply (trunc_ratio _ (20 * b - 2442) 7305 F4 ltac:(lia) ltac:(lia) Hr).
  rewrite minus_IZR, mult_IZR. simpl (IZR 20). simpl (IZR 2442). simpl (IZR 7305).
  apply Rabs_le. lra.
Qed.

Lemma ymd_step3 : forall w, 0 <= w < 1000 -> 1 <= (w * 10000) mod 306001 ->
  int_of_float (of_Z w / f30_6001)%float = Ok (w * 10000 / 306001).
Proof.
  intros w Hw Hr. destruct f30_6001_spec as [Fc5 Vc5].
  assert (Rw : (0 <= IZR w <= 999)%R) by (split; apply IZR_le; lia).
  destruct (ofZ_c w ltac:(lia)) as [Fw Vw].
  destruct (fdiv_step (of_Z w) f30_6001 6 Fw Fc5 ltac:(rewrite Vc5; lra) ltac:(lia)) as [F5 E5].
  { rewrite Vw, Vc5. bpv 6. apply Rabs_lt. lra. }
  rewrite Vw, Vc5 in E5. change (6 - 54) with (-48) in E5. bpv (-48). apply Rabs_le_inv in E5.
  apply (trunc_ratio _ (w * 10000) 306001 F5 ltac:(lia) ltac:(lia) Hr).
  rewrite mult_IZR. simpl (IZR 10000). simpl (IZR 306001). apply Rabs_le. lra.
Qed.

Lemma ymd_step4 : forall e, 0 <= e < 20 -> 1 <= (306001 * e) mod 10000 ->
  int_of_float (f30_6001 * of_Z e)%float = Ok (306001 * e / 10000).
Proof.
  intros e He Hr. destruct f30_6001_spec as [Fc5 Vc5].
  assert (Re : (0 <= IZR e <= 19)%R) by (split; apply IZR_le; lia).
  destruct (ofZ_c e ltac:(lia)) as [Fe Ve].
  destruct (fmul_step f30_6001 (of_Z e) 10 Fc5 Fe ltac:(lia)) as [F6 E6].
  { rewrite Ve, Vc5. bpv 10. apply Rabs_lt. lra. }
  rewrite Ve, Vc5 in E6. change (10 - 54) with (-44) in E6. bpv (-44). apply Rabs_le_inv in E6.
  apply (trunc_ratio _ (306001 * e) 10000 F6 ltac:(lia) ltac:(lia) Hr).
  rewrite mult_IZR. simpl (IZR 10000). simpl (IZR 306001). apply Rabs_le. lra.
Qed.

(* computeYMD with the Z quotients, and the side conditions of the four steps *)
Definition ymd_zf (z : Z) : (Z * Z * Z) * bool :=
  let a0 := (4 * z - 7468865) / 146097 in
  let b := z + 1 + a0 - Z.quot a0 4 + 1524 in
  let c := (20 * b - 2442) / 7305 in
  let d := Z.quot (36525 * Z.land c 32767) 100 in
  let e := (b - d) * 10000 / 306001 in
  let x1 := 306001 * e / 10000 in
  let month := if e <? 14 then e - 1 else e - 13 in
  ((if 2 <? month then c - 4716 else c - 4715, month, b - d - x1),
   (1 <=? (4 * z - 7468865) mod 146097) &&
   ((123 <=? b) && (b <? 3000000) && (1 <=? (20 * b - 2442) mod 7305)) &&
   ((0 <=? b - d) && (b - d <? 1000) && (1 <=? ((b - d) * 10000) mod 306001)) &&
   ((0 <=? e) && (e <? 20) && (1 <=? (306001 * e) mod 10000))).

Lemma sd_ymd_z_zf : forall z, 2000000 <= z <= 3000000 -> snd (ymd_zf z) = true ->
  sd_ymd_z z = Ok (fst (ymd_zf z)).
Proof.
  intros z Hz H. unfold ymd_zf in *. cbv zeta in *. cbn [fst snd] in *.
  apply andb_prop in H. destruct H as [H H4]. apply andb_prop in H. destruct H as [H H3].
  apply andb_prop in H. destruct H as [H1 H2]. apply Z.leb_le in H1.
  apply andb_prop in H2. destruct H2 as [H2 H2c]. apply andb_prop in H2. destruct H2 as [H2a H2b].
  apply Z.leb_le in H2a, H2c. apply Z.ltb_lt in H2b.
  apply andb_prop in H3. destruct H3 as [H3 H3c]. apply andb_prop in H3. destruct H3 as [H3a H3b].
  apply Z.leb_le in H3a, H3c. apply Z.ltb_lt in H3b.
  apply andb_prop in H4. destruct H4 as [H4 H4c]. apply andb_prop in H4. destruct H4 as [H4a H4b].
  apply Z.leb_le in H4a, H4c. apply Z.ltb_lt in H4b.
  unfold sd_ymd_z, ftrunc.
  rewrite (ymd_step1 z Hz H1). cbn [bind]. cbv zeta.
  rewrite (ymd_step2 _ (conj H2a H2b) H2c). cbn [bind]. cbv zeta.
  rewrite (ymd_step3 _ (conj H3a H3b) H3c). cbn [bind].
  rewrite (ymd_step4 _ (conj H4a H4b) H4c). cbn [bind]. reflexivity.
Qed.

(* the calendar, by kernel evaluation (integers only) over the days 1970-01-01 .. 2100-01-02:
   Meeus' formula in computeJD gives the day number, computeYMD reads it back *)
Definition jd_n (y m d : Z) : Z :=
  let y' := if m <=? 2 then y - 1 else y in
  let m' := if m <=? 2 then m + 12 else m in
  let a := y' / 100 in
  36525 * (y' + 4716) / 100 + 306001 * (m' + 1) / 10000 + d + (2 - a + a / 4).

Definition cal_ok (day : Z) : bool :=
  let '(y, m, d) := civil_from_days day in
  let n := jd_n y m d in
  (0 <=? n) && (n <? 10000000) && ((2 * n - 3049) * 43200000 =? EPOCH_MS + day * 86400000) &&
  snd (ymd_zf (2440588 + day)) &&
  (let '(y2, m2, d2) := fst (ymd_zf (2440588 + day)) in (y2 =? y) && (m2 =? m) && (d2 =? d)).

Lemma cal_all : check_upto cal_ok (Z.to_nat 47484) 0 = true.
Proof. vm_cast_no_check (eq_refl true). Qed.

Lemma cal_spec : forall day, 0 <= day <= 47483 ->
  let '(y, m, d) := civil_from_days day in
  sd_jd_day y m d = Ok (EPOCH_MS + day * 86400000) /\ sd_ymd_z (2440588 + day) = Ok (y, m, d).
Proof.
  intros day H. pose proof (check_upto_spec _ _ _ cal_all day) as K.
  rewrite Z2Nat.id in K by lia. specialize (K ltac:(lia)). unfold cal_ok in K.
  destruct (civil_from_days day) as [[y m] d].
  apply andb_prop in K. destruct K as [K K5]. apply andb_prop in K. destruct K as [K K4].
  apply andb_prop in K. destruct K as [K K3]. apply andb_prop in K. destruct K as [K1 K2].
  apply Z.leb_le in K1. apply Z.ltb_lt in K2. apply Z.eqb_eq in K3. split.
  - unfold sd_jd_day. fold (jd_n y m d). rewrite (jd_day_float _ (conj K1 K2)). now rewrite K3.
  - rewrite (sd_ymd_z_zf (2440588 + day) ltac:(lia) K4).
    destruct (fst (ymd_zf (2440588 + day))) as [[y2 m2] d2].
    apply andb_prop in K5. destruct K5 as [K5 K7]. apply andb_prop in K5. destruct K5 as [K5 K6].
    apply Z.eqb_eq in K5, K6, K7. now subst.
Qed.

Ltac Zify.zify_post_hook ::= Z.to_euclidean_division_equations.

(* the six digits str(datetime) prints: ms = (double)us / 1e6, correctly rounded *)
Lemma sd_frac_digits6 : forall us, 0 <= us < 1000000 ->
  fin (sd_frac (digits6 us)) /\ FR (sd_frac (digits6 us)) = RN (IZR us / 1000000).
Proof.
  intros us Hu. unfold sd_frac, digits6. cbn [sd_frac_acc].
  assert (F0 : fin zero) by reflexivity. assert (V0 : FR zero = IZR 0) by reflexivity.
  assert (F1 : fin one) by reflexivity.
  assert (V1 : FR one = IZR 1).
  { destruct (lit_val one _ _ _ eq_refl) as [_ V]. rewrite V. unfold F2R. simpl. lra. }
  destruct (frac_step zero one 0 1 (us / 100000) F0 F1 V0 V1 ltac:(cbn; lia) ltac:(cbn; lia) ltac:(lia))
    as (Fa & Ga & Va & Wa). cbv zeta in Fa, Ga, Va, Wa.
  destruct (frac_step _ _ _ _ (us / 10000 mod 10) Fa Ga Va Wa ltac:(change (10 ^ 12) with 1000000000000; lia)
              ltac:(cbn; lia) ltac:(lia)) as (Fb & Gb & Vb & Wb). cbv zeta in Fb, Gb, Vb, Wb.
  destruct (frac_step _ _ _ _ (us / 1000 mod 10) Fb Gb Vb Wb ltac:(change (10 ^ 12) with 1000000000000; lia)
              ltac:(cbn; lia) ltac:(lia)) as (Fc & Gc & Vc & Wc). cbv zeta in Fc, Gc, Vc, Wc.
  destruct (frac_step _ _ _ _ (us / 100 mod 10) Fc Gc Vc Wc ltac:(change (10 ^ 12) with 1000000000000; lia)
              ltac:(cbn; lia) ltac:(lia)) as (Fd & Gd & Vd & Wd). cbv zeta in Fd, Gd, Vd, Wd.
  destruct (frac_step _ _ _ _ (us / 10 mod 10) Fd Gd Vd Wd ltac:(change (10 ^ 12) with 1000000000000; lia)
              ltac:(cbn; lia) ltac:(lia)) as (Fe & Ge & Ve & We). cbv zeta in Fe, Ge, Ve, We.
  destruct (frac_step _ _ _ _ (us mod 10) Fe Ge Ve We ltac:(change (10 ^ 12) with 1000000000000; lia)
              ltac:(cbn; lia) ltac:(lia)) as (Ff & Gf & Vf & Wf). cbv zeta in Ff, Gf, Vf, Wf.
  cbn [fst snd].
  match type of Vf with FR _ = IZR ?n => replace n with us in Vf by lia end.
  change (10 * (10 * (10 * (10 * (10 * (10 * 1)))))) with 1000000 in Wf.
  assert (Ru : (0 <= IZR us <= 999999)%R) by (split; apply IZR_le; lia).
  destruct (fdiv_step _ _ 0 Ff Gf ltac:(rewrite Wf; lra) ltac:(lia)) as [F E].
  { rewrite Vf, Wf. change (bpow radix2 0) with 1%R. apply Rabs_lt. lra. }
  split; [exact F|].
  destruct (fdiv_spec _ _ Ff Gf ltac:(rewrite Wf; lra)) as [_ V].
  { rewrite Vf, Wf. apply (proj1 (step_bound (IZR us / 1000000) 0 ltac:(lia)
      ltac:(change (bpow radix2 0) with 1%R; apply Rabs_lt; lra))). }
  now rewrite V, Vf, Wf.
Qed.

(* computeHMS: hour, minute and a double within 2^-36 of the seconds (with milliseconds) *)
Lemma sd_hms_spec : forall ijd, 0 <= ijd ->
  let s0 := (ijd + 43200000) mod 86400000 in
  exists s, sd_hms ijd = Ok (s0 / 3600000, s0 / 60000 mod 60, s) /\ fin s /\ (0 <= FR s)%R /\
    (Rabs (FR s - IZR (s0 mod 60000) / 1000) <= / 68719476736)%R.
Proof.
  intros ijd Hi s0. unfold sd_hms. fold s0.
  assert (H0 : 0 <= s0 < 86400000) by (apply Z.mod_pos_bound; lia).
  clearbody s0.
  set (q := s0 / 1000). set (r := s0 mod 1000).
  assert (Es : s0 = 1000 * q + r) by (unfold q, r; apply Z.div_mod; lia).
  assert (Hr : 0 <= r < 1000) by (apply Z.mod_pos_bound; lia).
  assert (Hq : 0 <= q < 86400) by lia.
  destruct f1000_spec as [Fk Vk].
  destruct (ofZ_c s0 ltac:(lia)) as [F0 V0].
  assert (R0 : IZR s0 = (1000 * IZR q + IZR r)%R) by (rewrite Es, plus_IZR, mult_IZR; reflexivity).
  assert (Rr : (0 <= IZR r <= 999)%R) by (split; apply IZR_le; lia).
  assert (Rq : (0 <= IZR q <= 86399)%R) by (split; apply IZR_le; lia).
  destruct (fdiv_step (of_Z s0) f1000 17 F0 Fk ltac:(rewrite Vk; lra) ltac:(lia)) as [F1 E1].
  { rewrite V0, Vk, R0. bpv 17. apply Rabs_lt. lra. }
  change (17 - 54) with (-37) in E1. bpv (-37). apply Rabs_le_inv in E1.
  assert (V1 : FR (of_Z s0 / f1000)%float = RN (IZR s0 / 1000)).
  { destruct (fdiv_spec (of_Z s0) f1000 F0 Fk ltac:(rewrite Vk; lra)) as [_ V]; [|now rewrite V, V0, Vk].
    rewrite V0, Vk. apply (proj1 (step_bound (IZR s0 / 1000) 17 ltac:(lia) ltac:(rewrite R0; bpv 17; apply Rabs_lt; lra))). }
  rewrite V0, Vk in E1.
  set (ps := (of_Z s0 / f1000)%float) in *.
  (* its integer part is q *)
  assert (Lq : (IZR q <= FR ps)%R).
  { rewrite V1. apply round_ge_generic; [apply FLT_exp_valid; reflexivity|apply valid_rnd_N| |rewrite R0; lra].
    apply fmt_IZR. change (2 ^ 53) with 9007199254740992. lia. }
  assert (Tq : Ztrunc (FR ps) = q).
  { rewrite Ztrunc_floor by lra. apply Zfloor_imp. rewrite plus_IZR. simpl (IZR 1). rewrite R0 in E1. lra. }
  unfold ftrunc. rewrite (int_of_float_spec ps F1), Tq. cbn [bind].
  destruct (ofZ_c q ltac:(lia)) as [Fq Vq].
  destruct (fsub_step ps (of_Z q) 1 F1 Fq ltac:(lia)) as [F2 E2].
  { rewrite Vq. bpv 1. apply Rabs_lt. rewrite R0 in E1. lra. }
  assert (P2 : (0 <= FR (ps - of_Z q)%float)%R).
  { rewrite (fsub_val ps (of_Z q) 1 F1 Fq ltac:(lia)).
    - apply RN_nonneg. rewrite Vq. lra.
    - rewrite Vq. bpv 1. apply Rabs_lt. rewrite R0 in E1. lra. }
  rewrite Vq in E2. change (1 - 54) with (-53) in E2. bpv (-53). apply Rabs_le_inv in E2.
  set (ps' := (ps - of_Z q)%float) in *.
  set (h := q / 3600). set (s2 := q - h * 3600). set (m := s2 / 60). set (sec := s2 - m * 60).
  assert (Hsec : 0 <= sec < 60) by (unfold sec, m, s2, h; lia).
  destruct (ofZ_c sec ltac:(lia)) as [Fs Vs].
  assert (Rs : (0 <= IZR sec <= 59)%R) by (split; apply IZR_le; lia).
  destruct (fadd_step ps' (of_Z sec) 6 F2 Fs ltac:(lia)) as [F3 E3].
  { rewrite Vs. bpv 6. apply Rabs_lt. rewrite R0 in E1. lra. }
  assert (P3 : (0 <= FR (ps' + of_Z sec)%float)%R).
  { rewrite (fadd_val ps' (of_Z sec) 6 F2 Fs ltac:(lia)).
    - apply RN_nonneg. rewrite Vs. lra.
    - rewrite Vs. bpv 6. apply Rabs_lt. rewrite R0 in E1. lra. }
  rewrite Vs in E3. change (6 - 54) with (-48) in E3. bpv (-48). apply Rabs_le_inv in E3.
  eexists. split; [|split; [exact F3|split; [exact P3|]]].
  - f_equal. f_equal. f_equal; unfold h, m, s2, q; lia.
  - assert (En : s0 mod 60000 = 1000 * sec + r) by (unfold sec, m, s2, h, q, r; lia).
    rewrite En, plus_IZR, mult_IZR. rewrite R0 in E1. apply Rabs_le. simpl (IZR 1000). lra.
Qed.

Lemma f59_999_spec : fin f59_999 /\ FR f59_999 = (8444108563831325 / 140737488355328)%R.
Proof.
  destruct (lit_val f59_999 _ _ _ eq_refl) as [F V]. split; [exact F|]. rewrite V.
  unfold F2R. simpl. lra.
Qed.

(* strftime's %f on computeHMS's seconds: exactly the milliseconds of the minute *)
Lemma sd_fmt_sec : forall s n, fin s -> (0 <= FR s)%R -> 0 <= n <= 59999 ->
  (Rabs (FR s - IZR n / 1000) <= / 68719476736)%R ->
  fmt3 (if (f59_999 <? s)%float then f59_999 else s) = Ok n.
Proof.
  intros s n Fs Ps Hn E. apply Rabs_le_inv in E. destruct f59_999_spec as [Fc Vc].
  assert (Rn : (0 <= IZR n <= 59999)%R) by (split; apply IZR_le; lia).
  rewrite (fltb_spec f59_999 s Fc Fs), Vc.
  destruct (Rlt_bool_spec (8444108563831325 / 140737488355328) (FR s)) as [L|L].
  - (* clamped: n must be 59999 *)
    assert (n = 59999).
    { assert (59998 < n); [|lia]. apply lt_IZR. lra. }
    subst n. rewrite (fmt3_spec f59_999 Fc) by (rewrite Vc; lra). f_equal. rewrite Vc.
    apply Zfloor_imp. rewrite plus_IZR. simpl (IZR 1). lra.
  - rewrite (fmt3_spec s Fs) by lra. f_equal. apply Zfloor_imp. rewrite plus_IZR. simpl (IZR 1). lra.
Qed.

(* computeJD's (i64)(s*1000 + 0.5) on s = SS + fraction *)
Lemma sd_sec_ms_spec : forall sec frac k, 0 <= sec < 60 -> 0 <= k < 1000 -> fin frac ->
  (Rabs (FR frac - IZR k / 1000) <= / 9007199254740992)%R ->
  sd_sec_ms (of_Z sec + frac)%float = Ok (1000 * sec + k).
Proof.
  intros sec frac k Hs Hk Ff E. apply Rabs_le_inv in E. unfold sd_sec_ms.
  assert (Rs : (0 <= IZR sec <= 59)%R) by (split; apply IZR_le; lia).
  assert (Rk : (0 <= IZR k <= 999)%R) by (split; apply IZR_le; lia).
  destruct (ofZ_c sec ltac:(lia)) as [Fs Vs].
  destruct f1000_spec as [Fk Vk]. pose proof fhalf_fin as Fh. pose proof fhalf_val as Vh.
  destruct (fadd_step (of_Z sec) frac 6 Fs Ff ltac:(lia)) as [F1 E1].
  { rewrite Vs. bpv 6. apply Rabs_lt. lra. }
  rewrite Vs in E1. change (6 - 54) with (-48) in E1. bpv (-48). apply Rabs_le_inv in E1.
  set (s := (of_Z sec + frac)%float) in *.
  destruct (fmul_step s f1000 16 F1 Fk ltac:(lia)) as [F2 E2].
  { rewrite Vk. bpv 16. apply Rabs_lt. lra. }
  rewrite Vk in E2. change (16 - 54) with (-38) in E2. bpv (-38). apply Rabs_le_inv in E2.
  set (x := (s * f1000)%float) in *.
  destruct (fadd_step x fhalf 16 F2 Fh ltac:(lia)) as [F3 E3].
  { rewrite Vh. bpv 16. apply Rabs_lt. lra. }
  rewrite Vh in E3. change (16 - 54) with (-38) in E3. bpv (-38). apply Rabs_le_inv in E3.
  set (y := (x + fhalf)%float) in *.
  rewrite (int_of_float_spec y F3). f_equal. rewrite Ztrunc_floor by lra.
  apply Zfloor_imp. rewrite !plus_IZR, mult_IZR. simpl (IZR 1000). simpl (IZR 1). lra.
Qed.

Lemma sd_sec_ms_digits : forall sec k, 0 <= sec < 60 -> 0 <= k < 1000 ->
  sd_sec_ms (of_Z sec + sd_frac (if (k =? 0)%Z then nil else digits6 (1000 * k)%Z))%float = Ok (1000 * sec + k).
Proof.
  intros sec k Hs Hk. destruct (Z.eqb_spec k 0) as [->|Nk].
  - apply sd_sec_ms_spec; [lia|lia|reflexivity|]. change (FR (sd_frac nil)) with 0%R.
    apply Rabs_le. simpl (IZR 0). lra.
  - destruct (sd_frac_digits6 (1000 * k) ltac:(lia)) as [F V].
    apply sd_sec_ms_spec; [lia|lia|exact F|]. rewrite V.
    assert (Rk : (0 <= IZR k <= 999)%R) by (split; apply IZR_le; lia).
    replace (IZR k / 1000)%R with (IZR (1000 * k) / 1000000)%R by (rewrite mult_IZR; simpl (IZR 1000); field).
    assert (B : (Rabs (IZR (1000 * k) / 1000000) < bpow radix2 0)%R).
    { rewrite mult_IZR. simpl (IZR 1000). change (bpow radix2 0) with 1%R. apply Rabs_lt. lra. }
    pose proof (RN_err _ 0 ltac:(lia) B) as E. change (0 - 54) with (-54) in E. bpv (-54).
    apply Rabs_le_inv in E. apply Rabs_le. lra.
Qed.

Open Scope char_scope.
Open Scope Z_scope.

Lemma sd_parse_tz_utc : sd_parse_tz utc_suffix = Some 0.
Proof. reflexivity. Qed.

(* the TEXT peewee stores, str(datetime) of a whole-millisecond UTC instant 1970 .. 2100, parses
   (parseYyyyMmDd, parseHhMmSs, parseTimezone, computeJD) to iJD = 210866760000000 + t/1000 *)
Theorem sd_ijd_of_text_str : forall t, 0 <= t <= y2100_us -> t mod 1000 = 0 ->
  sd_ijd_of_text (str_utc t) = Ok (EPOCH_MS + t / 1000).
Proof.
  intros t Ht Al. unfold str_utc, isoformat_sep, y2100_us in *.
  set (days := t / day_us). set (rem := t mod day_us).
  assert (Hd : 0 <= days <= 47482).
  { unfold days, day_us. split; [apply Z.div_pos; lia|]. apply Z.div_le_upper_bound; lia. }
  assert (Hrem : 0 <= rem < 86400000000) by (apply Z.mod_pos_bound; reflexivity).
  assert (Et : t = days * 86400000000 + rem).
  { unfold days, rem, day_us. pose proof (Z.div_mod t 86400000000). lia. }
  pose proof (civil_spec days Hd) as CS. destruct CS as (y & m & dd & C & Hy & Hm & Hdd & Inv).
  pose proof (cal_spec days ltac:(lia)) as CAL. rewrite C in *. destruct CAL as [JD _].
  pose proof (days_in_month_le y m) as D31.
  set (hh := rem / 3600000000). set (mi := rem / 60000000 mod 60). set (sec := rem / 1000000 mod 60).
  set (us := rem mod 1000000).
  assert (Hhh : 0 <= hh < 24) by (unfold hh; lia).
  assert (Hmi : 0 <= mi < 60) by (unfold mi; lia).
  assert (Hss : 0 <= sec < 60) by (unfold sec; lia).
  assert (Hus : 0 <= us < 1000000) by (unfold us; lia).
  assert (Erem : rem = ((hh * 60 + mi) * 60 + sec) * 1000000 + us) by (unfold hh, mi, sec, us; lia).
  set (k := us / 1000).
  assert (Ek : us = 1000 * k) by (unfold k; lia).
  assert (Hk : 0 <= k < 1000) by lia.
  assert (Final : EPOCH_MS + days * 86400000 + hh * 3600000 + mi * 60000 + (1000 * sec + k) - 0 * 60000
                  = EPOCH_MS + t / 1000) by lia.
  clearbody hh mi sec us k days rem.
  unfold sd_ijd_of_text, sd_parse, pad4, pad2. cbn [app].
  change (negb ((" " =? " ")%char || (" " =? "T")%char)) with false. cbv iota.
  rewrite (num4 y) by lia. rewrite (num2 m), (num2 dd), (num2 hh), (num2 mi) by lia.
  replace ((1 <=? m) && (m <=? 12) && (1 <=? dd) && (dd <=? 31) && (hh <=? 24) && (mi <=? 59)) with true
    by (symmetry; repeat (apply andb_true_intro; split); apply Z.leb_le; lia).
  rewrite (num2 sec) by lia. replace (sec <=? 59) with true by (symmetry; apply Z.leb_le; lia).
  assert (SS : sd_sec_ms (of_Z sec + sd_frac (if (k =? 0)%Z then nil else digits6 (1000 * k)%Z))%float
               = Ok (1000 * sec + k)) by (apply sd_sec_ms_digits; lia).
  destruct (Z.eqb_spec us 0) as [U0|U0].
  - assert (k = 0) by lia. subst k. change (0 =? 0) with true in SS. cbv iota in SS.
    cbn [app]. unfold utc_suffix at 1. cbv beta iota. fold utc_suffix.
    rewrite sd_parse_tz_utc. unfold sd_compute_jd. cbn [sY sM sD sh smi ss stz].
    rewrite JD. cbn [bind]. rewrite SS. cbn [bind]. rewrite Final.
    replace ((0 <=? EPOCH_MS + t / 1000) && (EPOCH_MS + t / 1000 <=? IJD_MAX)) with true; [reflexivity|].
    symmetry. apply andb_true_intro. unfold EPOCH_MS, IJD_MAX. split; apply Z.leb_le; lia.
  - assert (Nk : k <> 0) by lia. apply Z.eqb_neq in Nk. rewrite Nk in SS. rewrite <- Ek in SS.
    cbn [app]. cbv beta iota. rewrite (span_pad6 us Hus). cbv beta iota. fold (digits6 us).
    rewrite sd_parse_tz_utc. unfold sd_compute_jd. cbn [sY sM sD sh smi ss stz].
    rewrite JD. cbn [bind]. rewrite SS. cbn [bind]. rewrite Final.
    replace ((0 <=? EPOCH_MS + t / 1000) && (EPOCH_MS + t / 1000 <=? IJD_MAX)) with true; [reflexivity|].
    symmetry. apply andb_true_intro. unfold EPOCH_MS, IJD_MAX. split; apply Z.leb_le; lia.
Qed.

(* computeYMD, computeHMS and strftime print iJD = EPOCH_MS + T exactly *)
Theorem sd_strftime_exact : forall T, 0 <= T < 47484 * 86400000 ->
  sd_strftime (EPOCH_MS + T) = Ok (sd_ms_text (1000 * T)).
Proof.
  intros T HT. unfold sd_strftime, sd_ymd.
  set (day := T / 86400000). set (s0 := T mod 86400000).
  assert (Hday : 0 <= day <= 47483) by (unfold day; lia).
  assert (Hs0 : 0 <= s0 < 86400000) by (unfold s0; lia).
  assert (ET : T = 86400000 * day + s0) by (unfold day, s0; lia).
  assert (Z1 : (EPOCH_MS + T + 43200000) / 86400000 = 2440588 + day) by (unfold EPOCH_MS; lia).
  assert (Z2 : (EPOCH_MS + T + 43200000) mod 86400000 = s0) by (unfold EPOCH_MS; lia).
  pose proof (cal_spec day Hday) as CAL.
  destruct (sd_hms_spec (EPOCH_MS + T) ltac:(unfold EPOCH_MS; lia)) as (s & HMS & Fs & Ps & Es).
  cbv zeta in HMS, Es. rewrite Z2 in HMS, Es. rewrite Z1, HMS.
  unfold sd_ms_text.
  replace (1000 * T / day_us) with day by (unfold day_us; lia).
  replace (1000 * T mod day_us) with (1000 * s0) by (unfold day_us; lia).
  destruct (civil_from_days day) as [[y m] d]. destruct CAL as [_ YMD]. rewrite YMD. cbn [bind].
  assert (Hn : 0 <= s0 mod 60000 <= 59999) by lia.
  rewrite (sd_fmt_sec s (s0 mod 60000) Fs Ps Hn Es). cbn [bind].
  replace (1000 * s0 / 3600000000) with (s0 / 3600000) by lia.
  replace (1000 * s0 / 60000000 mod 60) with (s0 / 60000 mod 60) by lia.
  replace (1000 * s0 / 1000000 mod 60) with (s0 mod 60000 / 1000) by lia.
  replace (1000 * s0 / 1000 mod 1000) with (s0 mod 60000 mod 1000) by lia.
  reflexivity.
Qed.

(* the whole expression on the TEXT str(datetime) and the duration cell: SQLite prints, character
   for character, the whole millisecond [v] that the arithmetic core computes, and v is within
   562 us of timestamp + duration *)
Theorem sd_end_text_exact : forall t d cell,
  t mod 1000 = 0 -> 0 <= t <= y2100_us -> 0 <= d <= 86400000000 -> cell_near d cell ->
  exists v, sd_end_us t cell = Ok v /\ sd_end_text (str_utc t) cell = Ok (sd_ms_text v) /\
            v mod 1000 = 0 /\ Z.abs (v - (t + d)) <= 562.
Proof.
  intros t d cell Al Ht Hd Nc. unfold y2100_us in Ht.
  destruct (sd_end_us_bound t d cell Al ltac:(lia) Hd
              ltac:(change (2 ^ 52) with 4503599627370496; lia) Nc) as (v & E & M & B).
  exists v. split; [exact E|]. split; [|split; assumption].
  unfold sd_end_us in E. unfold sd_end_text.
  rewrite (sd_ijd_of_text_str t ltac:(unfold y2100_us; lia) Al). cbn [bind].
  destruct (sd_core (EPOCH_MS + t / 1000) cell) as [J'| |]; cbn [bind] in *; try discriminate.
  injection E as E.
  replace J' with (EPOCH_MS + (J' - EPOCH_MS)) by lia.
  rewrite (sd_strftime_exact (J' - EPOCH_MS)) by lia.
  f_equal. f_equal. lia.
Qed.

