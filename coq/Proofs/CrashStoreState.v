(* State-level forms of the C06 statements for Model/CrashStore.v: what a reopen finds is
   the TABLES obtained by running a prefix of the statements issued; the bounds, the
   atomicity of single operations and the durability of bucket operations come from
   Proofs/CommitProofs.v through the refinement of Proofs/CrashStoreProofs.v; the live
   view is the store model of Model/SqliteStore.v. *)
From AwVerif Require Import Base.Prelude Model.Commit Proofs.CommitProofs.
From AwVerif Require Import Model.StoreBase Model.SqliteStore Model.CrashStore Proofs.CrashStoreProofs.
From Coq Require Import ZifyBool.

(* the token naming used when only the shape matters *)
Definition tok0 (q : stmt) : Z := 0.

(* ---- histories ---- *)

Lemma hist_script_app : forall h1 h2 c,
  hist_script c (h1 ++ h2) = hist_script c h1 ++ hist_script (hist_live c h1) h2.
Proof.
  induction h1 as [|o h1 IH]; intros h2 c; [reflexivity|].
  cbn [app hist_script]. rewrite IH, <- app_assoc. reflexivity.
Qed.

Lemma forget_hist_app : forall tokf h1 h2 c,
  forget_hist tokf c (h1 ++ h2) = forget_hist tokf c h1 ++ forget_hist tokf (hist_live c h1) h2.
Proof.
  intros tokf. induction h1 as [|o h1 IH]; intros h2 c; [reflexivity|].
  cbn [app forget_hist]. rewrite IH. reflexivity.
Qed.

Lemma expand_all_app : forall a b, expand_all (a ++ b) = expand_all a ++ expand_all b.
Proof. intros. unfold expand_all. apply flat_map_app. Qed.

Lemma live_after_hist_script : forall h c, live_after c (hist_script c h) = hist_live c h.
Proof.
  induction h as [|o h IH]; intros c; [reflexivity|].
  cbn [hist_script]. rewrite live_after_app. rewrite IH. reflexivity.
Qed.

(* ---- the connection's own view does not depend on the commits ---- *)

Lemma cr_commit_live : forall t s, live (cr_commit t s) = live s.
Proof. reflexivity. Qed.

Lemma cr_cond_commit_live : forall lazy k c s, live (cr_cond_commit lazy k c s) = live s.
Proof.
  intros lazy k c s. unfold cr_cond_commit. destruct lazy; [|reflexivity]. cbv zeta.
  set (s1 := cr_set_n s (cr_n s + k)).
  set (s2 := if cr_n s1 >? THRESHOLD then cr_commit (r1 c) s1 else s1).
  assert (H2 : live s2 = live s) by (unfold s2; destruct (cr_n s1 >? THRESHOLD); reflexivity).
  destruct (r2 c - cr_last s2 >? MAX_AGE); [rewrite cr_commit_live|]; exact H2.
Qed.

Lemma cr_step_live : forall lazy s mc, live (cr_step lazy s mc) = live_micro (live s) (fst mc).
Proof.
  intros lazy s [m c]. unfold cr_step. cbn [fst snd].
  destruct m; cbn [live_micro]; try reflexivity. apply cr_cond_commit_live.
Qed.

Lemma cr_run_live : forall lazy tr s, live (cr_run lazy s tr) = live_after (live s) (map fst tr).
Proof.
  intros lazy tr. induction tr as [|mc tr IH]; intros s; [reflexivity|].
  rewrite cr_run_cons, IH, cr_step_live. reflexivity.
Qed.

(* ---- the live view is the store model ---- *)

Lemma insert_event_keeps_buckets : forall c b e c' i,
  sql_insert_event c b e = Ok (c', i) -> sq_buckets c' = sq_buckets c.
Proof.
  intros c b e c' i H. unfold sql_insert_event in H.
  destruct (sql_bucket_rowid c b); [|discriminate]. inversion H. reflexivity.
Qed.

Lemma bucket_rowid_buckets : forall c c' b,
  sq_buckets c' = sq_buckets c -> sql_bucket_rowid c' b = sql_bucket_rowid c b.
Proof. intros c c' b H. unfold sql_bucket_rowid. rewrite H. reflexivity. Qed.

Lemma bulk_known : forall b rows c rid,
  sql_bucket_rowid c b = Some rid ->
  apply_stmts c (map (QInsertEvent b) rows) = fst (sq_executemany_insert c b rows).
Proof.
  intros b rows. induction rows as [|e rows IH]; intros c rid H; [reflexivity|].
  cbn [map sq_executemany_insert]. unfold apply_stmts. cbn [fold_left].
  unfold stmt_step at 2. cbn [stmt_apply].
  destruct (sql_insert_event c b e) as [[c' i]| |] eqn:E.
  - apply (IH c' rid). rewrite (bucket_rowid_buckets c c' b); [exact H|].
    eapply insert_event_keeps_buckets; exact E.
  - unfold sql_insert_event in E. rewrite H in E. discriminate.
  - unfold sql_insert_event in E. rewrite H in E. discriminate.
Qed.

Lemma bulk_unknown : forall b rows c,
  sql_bucket_rowid c b = None -> fst (sq_executemany_insert c b rows) = c.
Proof.
  intros b [|e rows] c H; [reflexivity|]. cbn [sq_executemany_insert].
  unfold sql_insert_event. rewrite H. reflexivity.
Qed.

Lemma update_event_keeps_buckets : forall c b i e, sq_buckets (sql_update_event c b i e) = sq_buckets c.
Proof. reflexivity. Qed.

Lemma upserts_live : forall b es c, live_after c (upsert_script b es) = sq_upserts c b es.
Proof.
  intros b es. induction es as [|e es IH]; intros c; [reflexivity|].
  unfold upsert_script. cbn [flat_map]. rewrite live_after_app. fold (upsert_script b es).
  cbn [sq_upserts]. destruct (eid e) as [i|]; cbn; apply IH.
Qed.

Lemma upserts_keep_buckets : forall b es c, sq_buckets (sq_upserts c b es) = sq_buckets c.
Proof.
  intros b es. induction es as [|e es IH]; intros c; [reflexivity|].
  cbn [sq_upserts]. destruct (eid e); rewrite IH; reflexivity.
Qed.

Lemma cop_live_std : forall c o, cop_live c (Std o) = fst (sq_step c o).
Proof.
  intros c o. unfold cop_live. destruct o; cbn [sscript sq_step].
  - unfold live_after. destruct (sql_insert_bucket c b m) eqn:E; cbn; unfold stmt_step; cbn [stmt_apply];
      rewrite ?E; reflexivity.
  - destruct (negb _); reflexivity.
  - reflexivity.
  - reflexivity.
  - reflexivity.
  - unfold sql_insert_event, live_after, single. destruct (sql_bucket_rowid c b) eqn:E; [|reflexivity].
    cbn. unfold stmt_step, stmt_apply, sql_insert_event. rewrite E. reflexivity.
  - rewrite live_after_app, upserts_live. unfold bulk_script, live_after. cbn [fold_left live_micro].
    rewrite <- (bucket_rowid_buckets c (sq_upserts c b es) b) by (apply upserts_keep_buckets).
    destruct (sql_bucket_rowid (sq_upserts c b es) b) as [rid|] eqn:E.
    + apply (bulk_known b _ _ rid). exact E.
    + cbn [map apply_stmts fold_left]. symmetry. apply bulk_unknown. exact E.
  - reflexivity.
  - reflexivity.
  - reflexivity.
  - reflexivity.
  - destruct (limit =? 0); reflexivity.
  - reflexivity.
Qed.

Lemma hist_live_std : forall h c, hist_live c (map Std h) = sq_run c h.
Proof.
  induction h as [|o h IH]; intros c; [reflexivity|].
  cbn [map]. unfold hist_live, sq_run in *. cbn [fold_left]. rewrite cop_live_std. apply IH.
Qed.

Lemma live_view_call : forall lazy s o tro,
  map fst tro = sscript (live s) (Std o) ->
  live (cr_run lazy s tro) = fst (sq_step (live s) o) /\
  cop_out (live s) (Std o) = snd (sq_step (live s) o).
Proof.
  intros lazy s o tro H. split; [|reflexivity].
  rewrite cr_run_live, H. apply cop_live_std.
Qed.

Lemma live_view_history : forall lazy d0 t0 h tr,
  map fst tr = hist_script d0 (map Std h) ->
  live (cr_run lazy (cr_init d0 t0) tr) = sq_run d0 h.
Proof.
  intros lazy d0 t0 h tr H. rewrite cr_run_live, H. cbn [cr_init live].
  rewrite live_after_hist_script. apply hist_live_std.
Qed.

(* ---- refinement to the token model, from the initial state ---- *)

Lemma refines_commit_model : forall tokf lazy d0 t0 h tr k,
  map fst tr = hist_script d0 h ->
  let ss := cr_run lazy (cr_init d0 t0) (firstn k tr) in
  let cs := run lazy (init [] t0) (firstn k (forget_tr tokf tr)) in
  map fst (forget_tr tokf tr) = expand_all (forget_hist tokf d0 h) /\
  exists cl pl,
    cl ++ pl = stmts_of (map fst (firstn k tr)) /\
    committed cs = map tokf cl /\ pending cs = map tokf pl /\
    durable ss = apply_stmts d0 cl /\ live ss = apply_stmts d0 (cl ++ pl) /\
    cr_n ss = n_unc cs /\ cr_last ss = last_commit cs.
Proof.
  intros tokf lazy d0 t0 h tr k Htr ss cs. split.
  - rewrite map_fst_forget_tr, Htr. apply forget_hist_script.
  - pose proof (rel_run tokf lazy (firstn k tr) d0 [] _ _ (rel_init tokf d0 t0)) as H.
    rewrite forget_tr_firstn in H. cbn [app] in H. fold ss cs in H.
    destruct H as (cl & pl & Hs & H). exists cl, pl. rewrite Hs. tauto.
Qed.

(* ---- the reopened tables are the tables after a prefix of the statements ---- *)

Lemma prefix_state_any_cut : forall lazy d0 t0 h tr k,
  map fst tr = hist_script d0 h ->
  let s := cr_run lazy (cr_init d0 t0) (firstn k tr) in
  exists p q,
    p ++ q = stmts_of (map fst (firstn k tr)) /\
    prefix (p ++ q) (stmts_of (hist_script d0 h)) /\
    reopen s = apply_stmts d0 p /\ live s = apply_stmts d0 (p ++ q).
Proof.
  intros lazy d0 t0 h tr k Htr s.
  destruct (refines_commit_model tok0 lazy d0 t0 h tr k Htr) as (_ & cl & pl & Hs & _ & _ & Hd & Hl & _).
  exists cl, pl. repeat split; try assumption.
  rewrite Hs, <- Htr. exists (stmts_of (map fst (skipn k tr))).
  rewrite <- stmts_of_app, <- map_app, firstn_skipn. reflexivity.
Qed.

Lemma reopened_prefix_state : forall lazy d0 t0 h o tr tro k,
  map fst tr = hist_script d0 h -> map fst tro = sscript (hist_live d0 h) o ->
  let s := cr_run lazy (cr_init d0 t0) (tr ++ firstn k tro) in
  let issued := stmts_of (map fst (tr ++ firstn k tro)) in
  exists p q,
    p ++ q = issued /\
    reopen s = apply_stmts d0 p /\ live s = apply_stmts d0 issued /\
    (length (stmts_of (hist_script d0 h)) <= length p + 50)%nat /\
    (length q <= 50 + length (stmts_of (sscript (hist_live d0 h) o)))%nat /\
    (k = 0%nat -> (length q <= 50)%nat).
Proof.
  intros lazy d0 t0 h o tr tro k Htr Htro s issued.
  pose proof (rel_run tok0 lazy (tr ++ firstn k tro) d0 [] _ _ (rel_init tok0 d0 t0)) as H.
  cbn [app] in H. fold s issued in H.
  rewrite forget_tr_app, forget_tr_firstn in H.
  destruct H as (cl & pl & Hs & Hc & Hp & Hd & Hl & _).
  assert (Hftr : map fst (forget_tr tok0 tr) = expand_all (forget_hist tok0 d0 h))
    by (rewrite map_fst_forget_tr, Htr; apply forget_hist_script).
  assert (Hftro : map fst (forget_tr tok0 tro) = expand (forget_op tok0 (hist_live d0 h) o))
    by (rewrite map_fst_forget_tr, Htro; apply forget_script).
  pose proof (bounded_loss_any_cut lazy [] t0 _ _ _ _ k Hftr Hftro) as (B1 & B2).
  cbv zeta in B1, B2. unfold recover in B1. rewrite Hc in B1. rewrite Hp in B2.
  rewrite map_length in B1, B2.
  rewrite <- forget_hist_script, writes_of_forget, map_length in B1.
  rewrite <- forget_script, writes_of_forget, map_length in B2. cbn [length Nat.add] in B1.
  exists cl, pl. repeat split; try assumption.
  intros ->. cbn [firstn] in Hp. rewrite app_nil_r in Hp.
  pose proof (bounded_loss_quiescent lazy [] t0 _ _ Hftr) as (_ & _ & B3 & _).
  cbv zeta in B3. rewrite Hp, map_length in B3. exact B3.
Qed.

(* with no call in flight at most 50 statements are missing *)
Lemma reopened_prefix_state_quiescent : forall lazy d0 t0 h tr,
  map fst tr = hist_script d0 h ->
  let s := cr_run lazy (cr_init d0 t0) tr in
  exists p q,
    p ++ q = stmts_of (hist_script d0 h) /\
    reopen s = apply_stmts d0 p /\ live s = hist_live d0 h /\
    (length q <= 50)%nat /\ Z.of_nat (length q) <= cr_n s <= 50.
Proof.
  intros lazy d0 t0 h tr Htr s.
  pose proof (rel_run tok0 lazy tr d0 [] _ _ (rel_init tok0 d0 t0)) as H.
  cbn [app] in H. fold s in H. destruct H as (cl & pl & Hs & Hc & Hp & Hd & Hl & Hn & _).
  assert (Hftr : map fst (forget_tr tok0 tr) = expand_all (forget_hist tok0 d0 h))
    by (rewrite map_fst_forget_tr, Htr; apply forget_hist_script).
  pose proof (bounded_loss_quiescent lazy [] t0 _ _ Hftr) as (B1 & B2 & B3 & _).
  cbv zeta in B1, B2, B3. rewrite Hp, map_length in B1, B3. rewrite <- Hn in B1, B2.
  exists cl, pl. rewrite Htr in Hs. repeat split; try assumption.
  unfold s. rewrite cr_run_live, Htr. apply live_after_hist_script.
Qed.

(* ---- a single-event or bucket-level call is never split ---- *)

Lemma forget_atomic : forall tokf c o,
  cr_atomic_op o -> atomic_op (forget_op tokf c o) \/ sscript c o = [].
Proof.
  intros tokf c o [Hb|Hs]; destruct o as [o| |]; try contradiction; destruct o; cbn in Hb || cbn in Hs;
    try contradiction; cbn [sscript forget_op].
  - destruct (sql_insert_bucket c b m); [left; left; exact I|right; reflexivity|right; reflexivity].
  - destruct (negb _); [right; reflexivity|left; left; exact I].
  - left; left; exact I.
  - destruct (sql_bucket_rowid c b); [left; right; exact I|right; reflexivity].
  - left; right; exact I.
  - left; right; exact I.
  - left; right; exact I.
Qed.

Lemma no_split_state : forall lazy d0 t0 h o rest tr k,
  cr_atomic_op o -> map fst tr = hist_script d0 (h ++ o :: rest) ->
  let s := cr_run lazy (cr_init d0 t0) (firstn k tr) in
  let before := stmts_of (hist_script d0 h) in
  let own := stmts_of (sscript (hist_live d0 h) o) in
  exists p,
    prefix p (stmts_of (hist_script d0 (h ++ o :: rest))) /\ reopen s = apply_stmts d0 p /\
    (prefix p before \/ prefix (before ++ own) p).
Proof.
  intros lazy d0 t0 h o rest tr k Ha Htr s before own.
  destruct (refines_commit_model tok0 lazy d0 t0 _ tr k Htr) as (Hftr & cl & pl & Hs & Hc & _ & Hd & _).
  fold s in Hd.
  assert (Hpre : prefix cl (stmts_of (hist_script d0 (h ++ o :: rest)))).
  { apply prefix_trans with (cl ++ pl); [apply prefix_app_l|].
    rewrite Hs, <- Htr. exists (stmts_of (map fst (skipn k tr))).
    rewrite <- stmts_of_app, <- map_app, firstn_skipn. reflexivity. }
  exists cl. split; [exact Hpre|]. split; [exact Hd|].
  assert (Hall : stmts_of (hist_script d0 (h ++ o :: rest))
                 = before ++ own ++ stmts_of (hist_script (cop_live (hist_live d0 h) o) rest)).
  { rewrite hist_script_app. cbn [hist_script]. rewrite !stmts_of_app. reflexivity. }
  rewrite Hall in Hpre.
  assert (Hlen : (length cl <= length before)%nat \/ (length before + length own <= length cl)%nat).
  { destruct (forget_atomic tok0 (hist_live d0 h) o Ha) as [Hat|Hnil].
    - rewrite forget_hist_app in Hftr. cbn [forget_hist] in Hftr.
      change (forget_op tok0 (hist_live d0 h) o :: forget_hist tok0 (cop_live (hist_live d0 h) o) rest)
        with ([forget_op tok0 (hist_live d0 h) o] ++ forget_hist tok0 (cop_live (hist_live d0 h) o) rest) in Hftr.
      rewrite !expand_all_app in Hftr.
      apply map_fst_app in Hftr. destruct Hftr as (tr1 & tr23 & Hsplit & H1 & H23).
      apply map_fst_app in H23. destruct H23 as (tro & tr2 & -> & Ho & H2).
      unfold expand_all in Ho. cbn [flat_map] in Ho. rewrite app_nil_r in Ho.
      pose proof (single_op_atomic lazy [] t0 tr1 tro tr2 _ k Hat Ho) as B.
      cbv zeta in B. rewrite <- Hsplit in B. unfold recover in B. rewrite Hc, map_length in B.
      unfold twrites in B. rewrite H1 in B. rewrite <- forget_hist_script, writes_of_forget, map_length in B.
      rewrite <- forget_script, writes_of_forget, map_length in B. cbn [length Nat.add] in B. exact B.
    - unfold own. rewrite Hnil. cbn. lia. }
  destruct Hlen as [Hl|Hl].
  - left. eapply prefix_short; [exact Hpre|exact Hl].
  - right. rewrite app_assoc in Hpre. eapply prefix_long; [exact Hpre|]. rewrite app_length. exact Hl.
Qed.

Lemma single_event_one_stmt : forall c o,
  cr_single_event_op o -> sscript c o = [] \/ exists q, stmts_of (sscript c o) = [q].
Proof.
  intros c o H. destruct o as [o| |]; try contradiction; destruct o; cbn in H; try contradiction;
    cbn [sscript]; try (right; eexists; reflexivity).
  destruct (sql_bucket_rowid c b); [right; eexists; reflexivity|left; reflexivity].
Qed.

(* ---- bucket operations are durable when they return ---- *)

Lemma bucket_ops_durable_state : forall lazy s o tro,
  cr_bucket_op o -> map fst tro = sscript (live s) o -> sscript (live s) o <> [] ->
  let s' := cr_run lazy s tro in
  reopen s' = live s' /\ live s' = cop_live (live s) o /\ cr_n s' = 0.
Proof.
  intros lazy s o tro Hb Htro Hne s'.
  assert (Hl : live s' = cop_live (live s) o).
  { unfold s'. rewrite cr_run_live, Htro. reflexivity. }
  split; [|split; [exact Hl|]].
  - destruct o as [o| |]; try contradiction; destruct o; cbn in Hb; try contradiction;
      cbn [sscript] in Htro, Hne.
    + destruct (sql_insert_bucket (live s) b m); try (exfalso; apply Hne; reflexivity).
      repeat (apply smap_fst_cons in Htro; destruct Htro as (? & ? & -> & Htro)).
      apply map_eq_nil in Htro; subst. reflexivity.
    + destruct (negb _); try (exfalso; apply Hne; reflexivity).
      repeat (apply smap_fst_cons in Htro; destruct Htro as (? & ? & -> & Htro)).
      apply map_eq_nil in Htro; subst. reflexivity.
    + repeat (apply smap_fst_cons in Htro; destruct Htro as (? & ? & -> & Htro)).
      apply map_eq_nil in Htro; subst. reflexivity.
  - destruct o as [o| |]; try contradiction; destruct o; cbn in Hb; try contradiction;
      cbn [sscript] in Htro, Hne.
    + destruct (sql_insert_bucket (live s) b m); try (exfalso; apply Hne; reflexivity).
      repeat (apply smap_fst_cons in Htro; destruct Htro as (? & ? & -> & Htro)).
      apply map_eq_nil in Htro; subst. reflexivity.
    + destruct (negb _); try (exfalso; apply Hne; reflexivity).
      repeat (apply smap_fst_cons in Htro; destruct Htro as (? & ? & -> & Htro)).
      apply map_eq_nil in Htro; subst. reflexivity.
    + repeat (apply smap_fst_cons in Htro; destruct Htro as (? & ? & -> & Htro)).
      apply map_eq_nil in Htro; subst. reflexivity.
Qed.

(* ---- the reopened tables as a state the store model passes through ---- *)

Definition cr_bulk_op (o : cop) : Prop :=
  match o with Std (InsertMany _ _) | BulkOverflow _ _ _ | UpsertOverflow _ _ _ => True | _ => False end.

Lemma apply_stmts_live_after : forall ms c, apply_stmts c (stmts_of ms) = live_after c ms.
Proof.
  induction ms as [|m ms IH]; intros c; [reflexivity|].
  change (stmts_of (m :: ms)) with (stmts_of_micro m ++ stmts_of ms).
  rewrite apply_stmts_app, IH. destruct m; reflexivity.
Qed.

Lemma apply_hist_stmts : forall h c, apply_stmts c (stmts_of (hist_script c h)) = hist_live c h.
Proof. intros. rewrite apply_stmts_live_after. apply live_after_hist_script. Qed.

(* the list of statements behind [durable], with the facts about it that hold for every
   way of splitting the history around an atomic call *)
Lemma crash_committed_stmts : forall lazy d0 t0 h tr k,
  map fst tr = hist_script d0 h ->
  let s := cr_run lazy (cr_init d0 t0) (firstn k tr) in
  exists cl,
    prefix cl (stmts_of (hist_script d0 h)) /\ reopen s = apply_stmts d0 cl /\
    forall h1 o rest, h = h1 ++ o :: rest -> cr_atomic_op o ->
      (length cl <= length (stmts_of (hist_script d0 h1)))%nat \/
      (length (stmts_of (hist_script d0 h1)) + length (stmts_of (sscript (hist_live d0 h1) o))
       <= length cl)%nat.
Proof.
  intros lazy d0 t0 h tr k Htr s.
  destruct (refines_commit_model tok0 lazy d0 t0 _ tr k Htr) as (Hftr & cl & pl & Hs & Hc & _ & Hd & _).
  fold s in Hd. exists cl. split; [|split; [exact Hd|]].
  - apply prefix_trans with (cl ++ pl); [apply prefix_app_l|].
    rewrite Hs, <- Htr. exists (stmts_of (map fst (skipn k tr))).
    rewrite <- stmts_of_app, <- map_app, firstn_skipn. reflexivity.
  - intros h1 o rest -> Ha.
    destruct (forget_atomic tok0 (hist_live d0 h1) o Ha) as [Hat|Hnil].
    + rewrite forget_hist_app in Hftr. cbn [forget_hist] in Hftr.
      change (forget_op tok0 (hist_live d0 h1) o :: forget_hist tok0 (cop_live (hist_live d0 h1) o) rest)
        with ([forget_op tok0 (hist_live d0 h1) o] ++ forget_hist tok0 (cop_live (hist_live d0 h1) o) rest) in Hftr.
      rewrite !expand_all_app in Hftr.
      apply map_fst_app in Hftr. destruct Hftr as (tr1 & tr23 & Hsplit & H1 & H23).
      apply map_fst_app in H23. destruct H23 as (tro & tr2 & -> & Ho & H2).
      unfold expand_all in Ho. cbn [flat_map] in Ho. rewrite app_nil_r in Ho.
      pose proof (single_op_atomic lazy [] t0 tr1 tro tr2 _ k Hat Ho) as B.
      cbv zeta in B. rewrite <- Hsplit in B. unfold recover in B. rewrite Hc, map_length in B.
      unfold twrites in B. rewrite H1 in B. rewrite <- forget_hist_script, writes_of_forget, map_length in B.
      rewrite <- forget_script, writes_of_forget, map_length in B. cbn [length Nat.add] in B. exact B.
    + rewrite Hnil. cbn. lia.
Qed.

Lemma prefix_nil : forall A (p : list A), prefix p [] -> p = [].
Proof. intros A p [q H]. apply app_eq_nil in H. tauto. Qed.

(* a prefix of the statements of a history = the statements of some completed calls, then
   possibly a proper non-empty prefix of the statements of the next call *)
Lemma prefix_decompose : forall h c p,
  prefix p (stmts_of (hist_script c h)) ->
  exists h1 rest p',
    h = h1 ++ rest /\ p = stmts_of (hist_script c h1) ++ p' /\
    (p' = [] \/
     exists o h2, rest = o :: h2 /\ prefix p' (stmts_of (sscript (hist_live c h1) o)) /\
                  (0 < length p' < length (stmts_of (sscript (hist_live c h1) o)))%nat).
Proof.
  induction h as [|o h IH]; intros c p Hp.
  - apply prefix_nil in Hp. subst. exists [], [], []. auto.
  - cbn [hist_script] in Hp. rewrite stmts_of_app in Hp.
    set (own := stmts_of (sscript c o)) in *.
    destruct (Nat.le_gt_cases (length own) (length p)) as [Hlen|Hlen].
    + destruct (prefix_long _ p own _ Hp Hlen) as [p2 Hp2]. subst p.
      assert (Hp' : prefix p2 (stmts_of (hist_script (cop_live c o) h))).
      { destruct Hp as [q Hq]. rewrite <- app_assoc in Hq. apply app_inv_head in Hq. exists q. exact Hq. }
      destruct (IH _ _ Hp') as (h1 & rest & p' & -> & -> & Hcase).
      exists (o :: h1), rest, p'. split; [reflexivity|]. split.
      * cbn [hist_script]. rewrite stmts_of_app, <- app_assoc. reflexivity.
      * exact Hcase.
    + destruct p as [|x p].
      * exists [], (o :: h), []. auto.
      * exists [], (o :: h), (x :: p). split; [reflexivity|]. split; [reflexivity|]. right.
        exists o, h. split; [reflexivity|]. unfold hist_live. cbn [fold_left]. fold own. split.
        -- eapply prefix_short; [exact Hp|lia].
        -- cbn [length] in *. lia.
Qed.

(* The reopened tables are the tables the store model has after some prefix of the CALLS,
   except when the durable prefix of statements ends inside an insert_many: then the
   statements [p'] (a proper part of that call's) are applied on top. *)
Lemma reopened_is_call_prefix : forall lazy d0 t0 h tr k,
  map fst tr = hist_script d0 h ->
  let s := cr_run lazy (cr_init d0 t0) (firstn k tr) in
  exists h1 rest p',
    h = h1 ++ rest /\ reopen s = apply_stmts (hist_live d0 h1) p' /\
    (p' = [] \/
     exists o h2, rest = o :: h2 /\ cr_bulk_op o /\
                  prefix p' (stmts_of (sscript (hist_live d0 h1) o)) /\
                  (0 < length p' < length (stmts_of (sscript (hist_live d0 h1) o)))%nat).
Proof.
  intros lazy d0 t0 h tr k Htr s.
  destruct (crash_committed_stmts lazy d0 t0 h tr k Htr) as (cl & Hpre & Hd & Hat). fold s in Hd.
  destruct (prefix_decompose h d0 cl Hpre) as (h1 & rest & p' & Hh & Hcl & Hcase).
  exists h1, rest, p'. split; [exact Hh|]. split.
  - rewrite Hd, Hcl, apply_stmts_app, apply_hist_stmts. reflexivity.
  - destruct Hcase as [E|(o & h2 & -> & Hp' & Hlen)]; [left; exact E|right].
    exists o, h2. split; [reflexivity|]. split; [|split; assumption].
    assert (Hna : ~ cr_atomic_op o).
    { intros Ha. specialize (Hat h1 o h2 Hh Ha). rewrite Hcl, app_length in Hat. lia. }
    destruct o as [o| |]; [|exact I|exact I]. destruct o; cbn [cr_bulk_op]; try exact I;
      try (exfalso; apply Hna; first [left; exact I | right; exact I]);
      exfalso; cbn [sscript] in Hlen; try destruct (limit =? 0); cbn in Hlen; lia.
Qed.

(* without bulk inserts: exactly the store model's tables after a prefix of the calls *)
Lemma reopened_is_call_prefix_no_bulk : forall lazy d0 t0 h tr k,
  map fst tr = hist_script d0 h -> Forall (fun o => ~ cr_bulk_op o) h ->
  let s := cr_run lazy (cr_init d0 t0) (firstn k tr) in
  exists h1 rest, h = h1 ++ rest /\ reopen s = hist_live d0 h1.
Proof.
  intros lazy d0 t0 h tr k Htr Hnb s.
  destruct (reopened_is_call_prefix lazy d0 t0 h tr k Htr) as (h1 & rest & p' & Hh & Hd & Hcase).
  fold s in Hd. exists h1, rest. split; [exact Hh|].
  destruct Hcase as [->|(o & h2 & -> & Hb & _)]; [exact Hd|].
  exfalso. rewrite Hh in Hnb. apply Forall_app in Hnb. destruct Hnb as [_ Hnb].
  inversion Hnb; subst. contradiction.
Qed.

(* ---- the driver's row-by-row executemany ---- *)

Lemma cr_run_flatten : forall lazy s qs c cs,
  length cs = length qs ->
  cr_run lazy s (combine (map SExec qs) cs) = cr_step lazy s (SExecMany qs, c).
Proof.
  intros lazy s qs c. revert s. induction qs as [|q qs IH]; intros s cs Hl.
  - destruct s. reflexivity.
  - destruct cs as [|c' cs]; [discriminate|]. cbn [map combine]. rewrite cr_run_cons.
    rewrite IH by (cbn in Hl; lia). destruct s. reflexivity.
Qed.

(* ---- every cut of a history's trace lies inside some call ---- *)

Lemma every_cut_is_inside_a_call : forall d0 h (tr : list (smicro * clk)) k,
  map fst tr = hist_script d0 h ->
  firstn k tr = tr \/
  exists h1 o h2 tr1 tro k',
    h = h1 ++ o :: h2 /\ map fst tr1 = hist_script d0 h1 /\
    map fst tro = sscript (hist_live d0 h1) o /\ firstn k tr = tr1 ++ firstn k' tro.
Proof.
  intros d0 h. revert d0. induction h as [|o h IH]; intros c tr k Htr.
  - left. cbn in Htr. apply map_eq_nil in Htr. subst. destruct k; reflexivity.
  - cbn [hist_script] in Htr. apply smap_fst_app in Htr. destruct Htr as (tro & tr' & -> & Ho & Hr).
    destruct (firstn_app_cases _ tro tr' k) as [E|[k1 E]]; rewrite E.
    + right. exists [], o, h, [], tro, k. cbn. auto.
    + destruct (IH (cop_live c o) tr' k1 Hr) as [Hall|(h1 & o' & h2 & tr1 & tro' & k' & -> & H1 & Ho' & Hc)].
      * left. rewrite Hall. reflexivity.
      * right. exists (o :: h1), o', h2, (tro ++ tr1), tro', k'. repeat split.
        -- cbn [hist_script]. rewrite map_app, Ho, H1. reflexivity.
        -- exact Ho'.
        -- rewrite Hc, app_assoc. reflexivity.
Qed.

(* ---- the live view of an insert_many that raises at bind time ---- *)

Lemma filter_all : forall A (p : A -> bool) l, Forall (fun x => p x = true) l -> filter p l = l.
Proof.
  intros A p l H. induction H as [|x l Hx _ IH]; [reflexivity|]. cbn. rewrite Hx, IH. reflexivity.
Qed.

Lemma filter_forall : forall A (p : A -> bool) l, Forall (fun x => p x = true) (filter p l).
Proof. intros. apply Forall_forall. intros x Hx. apply filter_In in Hx. tauto. Qed.

Lemma forall_firstn : forall A (P : A -> Prop) k l, Forall P l -> Forall P (firstn k l).
Proof.
  intros A P k. induction k as [|k IH]; intros l H; [constructor|].
  destruct H; cbn; constructor; auto.
Qed.

Lemma filter_none : forall A (p : A -> bool) l, filter p (filter (fun x => negb (p x)) l) = [].
Proof.
  intros A p l. induction l as [|x l IH]; [reflexivity|]. cbn.
  destruct (p x) eqn:E; cbn; rewrite ?E; exact IH.
Qed.

Lemma sq_upserts_app : forall b x y c, sq_upserts c b (x ++ y) = sq_upserts (sq_upserts c b x) b y.
Proof.
  intros b x. induction x as [|e x IH]; intros y c; [reflexivity|].
  cbn [app sq_upserts]. destruct (eid e); apply IH.
Qed.

Lemma sq_upserts_no_id : forall b y c, Forall (fun e => no_id e = true) y -> sq_upserts c b y = c.
Proof.
  intros b y c H. induction H as [|e y He _ IH]; [reflexivity|].
  cbn [sq_upserts]. unfold no_id in He. destruct (eid e); [discriminate|exact IH].
Qed.

Lemma sq_upserts_with_id : forall b es c,
  sq_upserts c b (filter (fun e => negb (no_id e)) es) = sq_upserts c b es.
Proof.
  intros b es. induction es as [|e es IH]; intros c; [reflexivity|].
  cbn [filter]. unfold no_id at 1. cbn [sq_upserts]. destruct (eid e) eqn:E; cbn [negb sq_upserts]; rewrite ?E; apply IH.
Qed.

Lemma cop_live_overflow : forall c b es k,
  cop_live c (BulkOverflow b es k)
  = fst (sq_step c (InsertMany b (filter (fun e => negb (no_id e)) es ++ firstn k (filter no_id es)))).
Proof.
  intros c b es k. unfold cop_live. cbn [sscript sq_step].
  assert (Hrows : Forall (fun e => no_id e = true) (firstn k (filter no_id es)))
    by (apply forall_firstn, filter_forall).
  rewrite filter_app, filter_none, (filter_all _ _ _ Hrows). cbn [app].
  rewrite sq_upserts_app, (sq_upserts_no_id _ _ _ Hrows), sq_upserts_with_id.
  rewrite live_after_app, upserts_live. unfold live_after. cbn [fold_left live_micro].
  rewrite <- (bucket_rowid_buckets c (sq_upserts c b es) b) by (apply upserts_keep_buckets).
  destruct (sql_bucket_rowid (sq_upserts c b es) b) as [rid|] eqn:E.
  - apply (bulk_known b _ _ rid). exact E.
  - cbn [map apply_stmts fold_left]. symmetry. apply bulk_unknown. exact E.
Qed.

(* ---- the live view of an insert_many whose upsert loop raises at bind time ---- *)

Lemma with_id_firstn_no_rows : forall k es, filter no_id (firstn k (with_id es)) = [].
Proof.
  intros k es. unfold with_id. generalize (filter_forall _ (fun e => negb (no_id e)) es).
  generalize (filter (fun e => negb (no_id e)) es). clear es.
  induction k as [|k IH]; intros l H; [reflexivity|]. destruct H as [|e l He H]; [reflexivity|].
  cbn [firstn filter]. destruct (no_id e); [discriminate|]. apply IH, H.
Qed.

(* ... leaves, in the connection's view, what an insert_many of the k id-carrying events
   before the offending one leaves; it raises *)
Lemma cop_live_upsert_overflow : forall c b es k,
  cop_live c (UpsertOverflow b es k) = fst (sq_step c (InsertMany b (firstn k (with_id es)))) /\
  cop_out c (UpsertOverflow b es k) = Err OtherError.
Proof.
  intros c b es k. split; [|reflexivity]. unfold cop_live. cbn [sscript sq_step].
  rewrite with_id_firstn_no_rows.
  rewrite live_after_app, upserts_live. unfold live_after. cbn [fold_left live_micro apply_stmts].
  destruct (sql_bucket_rowid c b); reflexivity.
Qed.

(* a crash between two rows of an executemany finds what a crash before it finds *)
Lemma exec_rows_keep_durable : forall lazy qs s cs j,
  reopen (cr_run lazy s (firstn j (combine (map SExec qs) cs))) = reopen s.
Proof.
  intros lazy qs. induction qs as [|q qs IH]; intros s cs j.
  - destruct j; reflexivity.
  - destruct cs as [|c cs]; [destruct j; reflexivity|]. destruct j; [reflexivity|].
    cbn [map combine firstn]. rewrite cr_run_cons, IH. reflexivity.
Qed.

(* ... in the vocabulary of Model/SqliteStore.v *)
Lemma map_eq_app_firstn : forall A B (f : A -> B) l a b,
  map f l = a ++ b -> a = map f (firstn (length a) l).
Proof.
  induction l as [|y l IH]; intros a b H; destruct a as [|x a]; cbn in *; try reflexivity; try discriminate.
  inversion H. f_equal. eapply IH; eauto.
Qed.

Definition not_insert_many (o : op) : Prop := match o with InsertMany _ _ => False | _ => True end.

Lemma reopened_is_store_state : forall lazy d0 t0 hs tr k,
  map fst tr = hist_script d0 (map Std hs) -> Forall not_insert_many hs ->
  exists n, reopen (cr_run lazy (cr_init d0 t0) (firstn k tr)) = sq_run d0 (firstn n hs).
Proof.
  intros lazy d0 t0 hs tr k Htr Hn.
  assert (Hnb : Forall (fun o => ~ cr_bulk_op o) (map Std hs)).
  { apply Forall_forall. intros o Ho. apply in_map_iff in Ho. destruct Ho as (o' & <- & Hin).
    rewrite Forall_forall in Hn. specialize (Hn o' Hin). destruct o'; cbn in *; tauto. }
  destruct (reopened_is_call_prefix_no_bulk lazy d0 t0 _ tr k Htr Hnb) as (h1 & rest & Hh & Hd).
  exists (length h1). rewrite Hd. rewrite (map_eq_app_firstn _ _ _ _ _ _ Hh) at 1. apply hist_live_std.
Qed.

(* ---- the eager store (enable_lazy_commit = False): every completed call is durable ---- *)

(* does a script leave [durable = live], given whether that held before it? *)
Definition settle (b : bool) (m : smicro) : bool :=
  match m with
  | SExec _ | SExecMany _ => false
  | SCommit | SCondCommit _ => true
  | SRead => b
  end.

Lemma eager_settled : forall tr s b,
  (b = true -> durable s = live s) ->
  fold_left settle (map fst tr) b = true ->
  durable (cr_run false s tr) = live (cr_run false s tr).
Proof.
  induction tr as [|[m c] tr IH]; intros s b Hb Hf.
  - cbn in Hf. apply Hb. exact Hf.
  - cbn [map fst fold_left] in Hf. rewrite cr_run_cons. apply (IH _ (settle b m)); [|exact Hf].
    unfold cr_step. cbn [fst snd]. destruct m; cbn [settle]; try discriminate; try reflexivity.
    exact Hb.
Qed.

(* insert_many: whatever the upserts leave, the script ends with the conditional_commit of
   the finally clause (the upserts alone settle nothing since a00ceb1) *)
Lemma ends_with_cc_settled : forall ms m k b, fold_left settle (ms ++ [m; SCondCommit k]) b = true.
Proof. intros. rewrite fold_left_app. reflexivity. Qed.

Lemma sscript_settled : forall c o, fold_left settle (sscript c o) true = true.
Proof.
  intros c o. destruct o as [o|b es k|b es k]; [destruct o| |]; cbn [sscript].
  - destruct (sql_insert_bucket c b m); reflexivity.
  - destruct (negb _); reflexivity.
  - reflexivity.
  - reflexivity.
  - reflexivity.
  - destruct (sql_bucket_rowid c b); reflexivity.
  - unfold bulk_script. apply ends_with_cc_settled.
  - reflexivity.
  - reflexivity.
  - reflexivity.
  - reflexivity.
  - destruct (limit =? 0); reflexivity.
  - reflexivity.
  - apply ends_with_cc_settled.
  - apply ends_with_cc_settled.
Qed.

Lemma hist_settled : forall h c, fold_left settle (hist_script c h) true = true.
Proof.
  induction h as [|o h IH]; intros c; [reflexivity|].
  cbn [hist_script]. rewrite fold_left_app, sscript_settled. apply IH.
Qed.

Lemma eager_call_durable : forall s o tro,
  durable s = live s -> map fst tro = sscript (live s) o ->
  reopen (cr_run false s tro) = live (cr_run false s tro).
Proof.
  intros s o tro Hs Htro. apply (eager_settled tro s true); [intros _; exact Hs|].
  rewrite Htro. apply sscript_settled.
Qed.

Lemma eager_history_durable : forall d0 t0 h tr,
  map fst tr = hist_script d0 h ->
  let s := cr_run false (cr_init d0 t0) tr in
  reopen s = live s /\ live s = hist_live d0 h.
Proof.
  intros d0 t0 h tr Htr s. split.
  - apply (eager_settled tr _ true); [intros _; reflexivity|]. rewrite Htr. apply hist_settled.
  - unfold s. rewrite cr_run_live, Htr. apply live_after_hist_script.
Qed.
